// c14: REPL histories, one top-level statement per Interp.Eval.
//
//	(S) direct oracle: the same statements rendered as ONE compiled Go program per batch (package-level
//	    declarations + the statements in order inside a function); every read printed (%v and %T) must be equal.
//	(M) correspondence: every evaluation's bind-table / environment observations (BindNum, IntBindNum,
//	    IntBindMax, cap/len of Env.Vals and Env.Ints, IntAddressTaken, "backing array moved", class and index of
//	    the declared names, integer result) are written as Coq terms and replayed by Verif.C14.Model.
//	    Env is reached through reflect+unsafe (Interp.env is unexported): no hook is needed.
package main

import (
	"bytes"
	"encoding/json"
	"fmt"
	"io"
	"os"
	"os/exec"
	"path/filepath"
	"reflect"
	"regexp"
	"sort"
	"strings"
	"time"
	"unsafe"

	"github.com/cosmos72/gomacro/fast"
	"verifh/vh"
)

// ---------------------------------------------------------------- history representation

type step struct {
	Src    string   `json:"src"`            // what gomacro evaluates
	GoDecl string   `json:"-"`              // package-level Go text
	GoBody string   `json:"-"`              // Go statement(s) executed in order
	GoRead string   `json:"-"`              // Go expression printed (reads only)
	Model  []string `json:"-"`              // Coq stmts
	Decl   []int    `json:"-"`              // ids declared by this step (names checked for class/index)
	Want   *string  `json:"want,omitempty"` // corpus only: expected "%v" of the result ("" = no check)
	WantT  string   `json:"want_type,omitempty"`
	NoGo   bool     `json:"-"` // not comparable with compiled Go (REPL-only redefinition semantics): model only
	IntVal bool     `json:"-"` // the result is an integer the model must reproduce
	Kind   string   `json:"-"`
}

type history struct {
	Idx    int     `json:"idx"`
	Name   string  `json:"name,omitempty"`
	Key    string  `json:"key,omitempty"` // corpus: key of the finding in known_findings.json
	Core   bool    `json:"core"` // every statement is modelled exactly: values compared with the model too
	Steps  []*step `json:"steps"`
	Matrix string  `json:"matrix,omitempty"` // matrix history (matrix.go): kind:depth:width
	// FuncVar: funcvar history (funcvar.go): holder:signature
	FuncVar string `json:"funcvar,omitempty"`
	// Defer (corpus files only): the exact input of a finding that is not yet registered in known_findings.json; while its
	// key is not registered a failure is listed in report.json extra "deferred_corpus_failures" instead of being failed
	Defer bool `json:"defer_until_registered,omitempty"`
	Head   int     `json:"-"`                // leading steps always shown in a failure report
	corpus bool
	names  map[int]string // id -> gomacro name
}

type typ struct {
	gm, goName string // spelling in gomacro / in the Go program
	kind       string // KInt1 KCplx KBox
	cat        string // int uint bool float complex string struct ptr slice
	elem       *typ
	named      bool
}

type variable struct {
	id    int
	gm    string
	goNm  string
	t     *typ
	deps  bool // a pointer or a function refers to it
	bits  int
	alive bool
}

type gen struct {
	r      *vh.Rng
	h      *history
	hidx   int
	core   bool
	nextID int
	vars   []*variable
	consts []*variable
	funcs  []*fn
	types  []*typ
	maxBit int
	noGo   bool
	vers   map[string]int
	redefOther int // redefinitions with another type of a variable that a pointer / function refers to
	slots  int // Env.Ints slots requested so far (matrix histories)
}

type fn struct {
	id       int
	gm, goNm string
	kind     string // "int->int" "void" "addr" "fact"
	target   *variable
	deps     bool
}

var basicTypes = []*typ{
	{"int", "int", "KInt1", "int", nil, false}, {"int8", "int8", "KInt1", "int", nil, false}, {"int64", "int64", "KInt1", "int", nil, false},
	{"uint", "uint", "KInt1", "uint", nil, false}, {"uint8", "uint8", "KInt1", "uint", nil, false}, {"uint16", "uint16", "KInt1", "uint", nil, false},
	{"bool", "bool", "KInt1", "bool", nil, false}, {"float64", "float64", "KInt1", "float", nil, false}, {"float32", "float32", "KInt1", "float", nil, false},
	{"complex64", "complex64", "KInt1", "complex", nil, false}, {"complex128", "complex128", "KCplx", "complex", nil, false},
	{"string", "string", "KBox", "string", nil, false}, {"[]int", "[]int", "KBox", "slice", nil, false},
}
var tInt = basicTypes[0]

func ptrTo(t *typ) *typ {
	return &typ{gm: "*" + t.gm, goName: "*" + t.goName, kind: "KBox", cat: "ptr", elem: t}
}

func (g *gen) id() int { g.nextID++; return g.nextID }

func (g *gen) newVar(prefix string, t *typ) *variable {
	id := g.id()
	gm := fmt.Sprintf("%s_%d", prefix, id)
	v := &variable{id: id, gm: gm, goNm: fmt.Sprintf("%s_h%d", gm, g.hidx), t: t, alive: true, bits: 8}
	g.h.names[id] = gm
	return v
}

func (g *gen) add(s *step) { s.NoGo = g.noGo; g.h.Steps = append(g.h.Steps, s) }

func (g *gen) varsOf(pred func(*variable) bool) []*variable {
	var out []*variable
	for _, v := range g.vars {
		if v.alive && pred(v) {
			out = append(out, v)
		}
	}
	return out
}

func pick[T any](r *vh.Rng, l []T) T { return l[r.Intn(len(l))] }

// ---------------------------------------------------------------- expressions
// returns gomacro text, Go text, model expr ("" when not modelled), bits bound
func (g *gen) intExpr(depth int) (string, string, string, int) {
	ints := g.varsOf(func(v *variable) bool { return v.t == tInt })
	ptrs := g.varsOf(func(v *variable) bool { return v.t.cat == "ptr" && v.t.elem == tInt })
	pptrs := g.varsOf(func(v *variable) bool { return v.t.cat == "ptr" && v.t.elem.cat == "ptr" && v.t.elem.elem == tInt })
	lit := func() (string, string, string, int) {
		n := g.r.Intn(201) - 100
		s := fmt.Sprint(n)
		if n < 0 {
			s = "(" + s + ")"
		}
		return s, s, "EZ " + vh.CoqZ(int64(n)), 8
	}
	switch x := g.r.Intn(10); {
	case x < 2 || (len(ints) == 0 && len(ptrs) == 0):
		return lit()
	case x < 5 && len(ints) > 0:
		v := pick(g.r, ints)
		return v.gm, v.goNm, fmt.Sprintf("EV %d", v.id), g.maxBit
	case x < 6 && len(g.consts) > 0:
		v := pick(g.r, g.consts)
		return v.gm, v.goNm, fmt.Sprintf("EV %d", v.id), 8
	case x < 7 && len(ptrs) > 0:
		p := pick(g.r, ptrs)
		return "*" + p.gm, "*" + p.goNm, fmt.Sprintf("EDeref (EV %d)", p.id), g.maxBit
	case x < 8 && len(pptrs) > 0:
		p := pick(g.r, pptrs)
		return "**" + p.gm, "**" + p.goNm, fmt.Sprintf("EDeref (EDeref (EV %d))", p.id), g.maxBit
	case depth < 2 && g.maxBit < 50:
		a1, a2, a3, ab := g.intExpr(depth + 1)
		b1, b2, b3, bb := g.intExpr(depth + 1)
		if bb > ab {
			ab = bb
		}
		return a1 + " + " + b1, a2 + " + " + b2, fmt.Sprintf("EAdd (%s) (%s)", a3, b3), ab + 1
	}
	return lit()
}

func (g *gen) note(bits int) {
	if bits > g.maxBit {
		g.maxBit = bits
	}
}

// expression of an arbitrary (non-pointer) type, rich mode: gomacro text, Go text
func (g *gen) richExpr(t *typ) (string, string) {
	same := g.varsOf(func(v *variable) bool { return v.t == t })
	usev := len(same) > 0 && g.r.Chance(1, 2)
	var v *variable
	if usev {
		v = pick(g.r, same)
	}
	n := g.r.Intn(50)
	switch t.cat {
	case "int":
		if t == tInt {
			a, b, _, bits := g.intExpr(0)
			g.note(bits)
			return a, b
		}
		if usev {
			return fmt.Sprintf("%s + %d", v.gm, n), fmt.Sprintf("%s + %d", v.goNm, n)
		}
		s := fmt.Sprint(n - 25)
		return s, s
	case "uint":
		if usev {
			return fmt.Sprintf("%s * 3 + %d", v.gm, n), fmt.Sprintf("%s * 3 + %d", v.goNm, n)
		}
		s := fmt.Sprint(n)
		return s, s
	case "bool":
		if usev {
			return "!" + v.gm, "!" + v.goNm
		}
		ints := g.varsOf(func(v *variable) bool { return v.t == tInt })
		if len(ints) > 0 {
			w := pick(g.r, ints)
			return fmt.Sprintf("%s < %d", w.gm, n), fmt.Sprintf("%s < %d", w.goNm, n)
		}
		s := fmt.Sprint(n%2 == 0)
		return s, s
	case "float":
		if usev {
			return fmt.Sprintf("%s * 1.5 + %d", v.gm, n), fmt.Sprintf("%s * 1.5 + %d", v.goNm, n)
		}
		s := fmt.Sprintf("%d.25", n)
		return s, s
	case "complex":
		if usev {
			return fmt.Sprintf("%s + complex(%d, 1)", v.gm, n), fmt.Sprintf("%s + complex(%d, 1)", v.goNm, n)
		}
		s := fmt.Sprintf("complex(%d, %d)", n, n/3)
		return s, s
	case "string":
		if usev {
			return fmt.Sprintf("%s + \"%c\"", v.gm, 'a'+n%26), fmt.Sprintf("%s + \"%c\"", v.goNm, 'a'+n%26)
		}
		s := fmt.Sprintf("\"s%d\"", n)
		return s, s
	case "slice":
		if usev {
			return fmt.Sprintf("append(%s, %d)", v.gm, n), fmt.Sprintf("append(%s, %d)", v.goNm, n)
		}
		s := fmt.Sprintf("[]int{%d, %d}", n, n+1)
		return s, s
	case "struct":
		a1, a2 := g.richExpr(tInt)
		return fmt.Sprintf("%s{A: %s, B: \"b%d\"}", t.gm, a1, n), fmt.Sprintf("%s{A: %s, B: \"b%d\"}", t.goName, a2, n)
	}
	panic("richExpr: " + t.gm)
}

// ---------------------------------------------------------------- statements

// Coq term of Verif.C14.Model.kind: int, complex128 and string are KInt1, KCplx, KBox; every other type is
// KInt1T n / KBoxT n where n identifies the type (xr.Type.IdenticalTo: slot reuse on redefinition needs the identity)
var typeTags = map[string]int{}

func kindOf(t *typ) string {
	switch t.gm {
	case "int", "complex128", "string":
		return t.kind
	}
	n, ok := typeTags[t.gm]
	if !ok {
		n = len(typeTags) + 1
		typeTags[t.gm] = n
	}
	switch t.kind {
	case "KBox":
		return fmt.Sprintf("(KBoxT %d)", n)
	case "KCplx":
		return fmt.Sprintf("(KCplxT %d)", n)
	}
	return fmt.Sprintf("(KInt1T %d)", n)
}

// declaration of a fresh variable of type t
func (g *gen) declVar(t *typ) {
	v := g.newVar("x", t)
	var gm, goE, me string
	var tgt *variable
	if t.cat == "ptr" {
		cands := g.varsOf(func(w *variable) bool { return w.t == t.elem })
		if len(cands) == 0 {
			return
		}
		tgt = pick(g.r, cands)
		tgt.deps = true
		gm, goE, me = "&"+tgt.gm, "&"+tgt.goNm, fmt.Sprintf("EAddr %d", tgt.id)
	} else if t == tInt {
		var bits int
		gm, goE, me, bits = g.intExpr(0)
		g.note(bits)
	} else {
		gm, goE = g.richExpr(t)
		me = "EZ 0"
	}
	var src string
	switch g.r.Intn(4) {
	case 0:
		src = fmt.Sprintf("var %s %s = %s", v.gm, t.gm, gm)
	case 1:
		src = fmt.Sprintf("%s := %s(%s)", v.gm, parenT(t.gm), gm)
		if t.cat == "ptr" || t.cat == "struct" || t.cat == "slice" {
			src = fmt.Sprintf("%s := %s", v.gm, gm)
		}
	case 2:
		if t.cat != "ptr" && g.r.Chance(1, 3) {
			// zero value declaration
			src = fmt.Sprintf("var %s %s", v.gm, t.gm)
			goE, me = "", "EZ 0"
			break
		}
		fallthrough
	default:
		src = fmt.Sprintf("var %s %s = %s", v.gm, t.gm, gm)
	}
	st := &step{Src: src, GoDecl: fmt.Sprintf("var %s %s", v.goNm, t.goName), Decl: []int{v.id}, Kind: "decl:" + t.cat}
	if goE != "" {
		st.GoBody = fmt.Sprintf("%s = %s", v.goNm, goE)
	}
	st.Model = []string{fmt.Sprintf("SVar %d %s (%s)", v.id, kindOf(t), me)}
	g.vars = append(g.vars, v)
	g.add(st)
}

func parenT(s string) string {
	if strings.HasPrefix(s, "*") {
		return "(" + s + ")"
	}
	return s
}

func (g *gen) declConst() {
	v := g.newVar("k", tInt)
	n := g.r.Intn(100)
	g.consts = append(g.consts, v)
	g.add(&step{Src: fmt.Sprintf("const %s = %d", v.gm, n), GoDecl: fmt.Sprintf("const %s = %d", v.goNm, n), Decl: []int{v.id},
		Model: []string{fmt.Sprintf("SConst %d %s", v.id, vh.CoqZ(int64(n)))}, Kind: "const"})
}

func (g *gen) assign() {
	if g.core || g.r.Chance(1, 2) {
		ints := g.varsOf(func(v *variable) bool { return v.t == tInt })
		if len(ints) == 0 {
			return
		}
		v := pick(g.r, ints)
		gm, goE, me, bits := g.intExpr(0)
		g.note(bits + 1)
		switch g.r.Intn(3) {
		case 0:
			g.add(&step{Src: fmt.Sprintf("%s = %s", v.gm, gm), GoBody: fmt.Sprintf("%s = %s", v.goNm, goE),
				Model: []string{fmt.Sprintf("SSet %d (%s)", v.id, me)}, Kind: "assign"})
		case 1:
			if g.maxBit >= 50 {
				return
			}
			g.add(&step{Src: fmt.Sprintf("%s += %s", v.gm, gm), GoBody: fmt.Sprintf("%s += %s", v.goNm, goE),
				Model: []string{fmt.Sprintf("SSet %d (EAdd (EV %d) (%s))", v.id, v.id, me)}, Kind: "compound"})
		default:
			g.add(&step{Src: v.gm + "++", GoBody: v.goNm + "++",
				Model: []string{fmt.Sprintf("SSet %d (EAdd (EV %d) (EZ 1))", v.id, v.id)}, Kind: "incdec"})
		}
		return
	}
	vs := g.varsOf(func(v *variable) bool { return v.t.cat != "ptr" && v.t != tInt })
	if len(vs) == 0 {
		return
	}
	v := pick(g.r, vs)
	gm, goE := g.richExpr(v.t)
	if v.t.cat == "struct" && g.r.Chance(1, 2) {
		a, b := g.richExpr(tInt)
		g.add(&step{Src: fmt.Sprintf("%s.A = %s", v.gm, a), GoBody: fmt.Sprintf("%s.A = %s", v.goNm, b), Model: []string{"SNop"}, Kind: "assign-field"})
		return
	}
	g.add(&step{Src: fmt.Sprintf("%s = %s", v.gm, gm), GoBody: fmt.Sprintf("%s = %s", v.goNm, goE), Model: []string{"SNop"}, Kind: "assign-rich"})
}

func (g *gen) store() {
	ptrs := g.varsOf(func(v *variable) bool { return v.t.cat == "ptr" })
	if len(ptrs) == 0 {
		return
	}
	p := pick(g.r, ptrs)
	switch {
	case p.t.elem == tInt:
		gm, goE, me, bits := g.intExpr(0)
		g.note(bits + 1)
		if g.r.Chance(1, 3) && g.maxBit < 50 {
			g.add(&step{Src: fmt.Sprintf("*%s += %s", p.gm, gm), GoBody: fmt.Sprintf("*%s += %s", p.goNm, goE),
				Model: []string{fmt.Sprintf("SStore (EV %d) (EAdd (EDeref (EV %d)) (%s))", p.id, p.id, me)}, Kind: "store-compound"})
		} else {
			g.add(&step{Src: fmt.Sprintf("*%s = %s", p.gm, gm), GoBody: fmt.Sprintf("*%s = %s", p.goNm, goE),
				Model: []string{fmt.Sprintf("SStore (EV %d) (%s)", p.id, me)}, Kind: "store"})
		}
	case p.t.elem.cat == "ptr":
		// retarget through a pointer to pointer: *pp = &y
		cands := g.varsOf(func(w *variable) bool { return w.t == p.t.elem.elem })
		if len(cands) == 0 {
			return
		}
		y := pick(g.r, cands)
		y.deps = true
		g.add(&step{Src: fmt.Sprintf("*%s = &%s", p.gm, y.gm), GoBody: fmt.Sprintf("*%s = &%s", p.goNm, y.goNm),
			Model: []string{fmt.Sprintf("SStore (EV %d) (EAddr %d)", p.id, y.id)}, Kind: "store-ptr"})
	default:
		if g.core {
			return
		}
		gm, goE := g.richExpr(p.t.elem)
		g.add(&step{Src: fmt.Sprintf("*%s = %s", p.gm, gm), GoBody: fmt.Sprintf("*%s = %s", p.goNm, goE), Model: []string{"SNop"}, Kind: "store-rich"})
	}
}

// p = &y for an existing pointer variable
func (g *gen) retarget() {
	ptrs := g.varsOf(func(v *variable) bool { return v.t.cat == "ptr" })
	if len(ptrs) == 0 {
		return
	}
	p := pick(g.r, ptrs)
	cands := g.varsOf(func(w *variable) bool { return w.t == p.t.elem })
	if len(cands) == 0 {
		return
	}
	y := pick(g.r, cands)
	y.deps = true
	g.add(&step{Src: fmt.Sprintf("%s = &%s", p.gm, y.gm), GoBody: fmt.Sprintf("%s = &%s", p.goNm, y.goNm),
		Model: []string{fmt.Sprintf("SSet %d (EAddr %d)", p.id, y.id)}, Kind: "retarget"})
}

func (g *gen) read() {
	if g.core || g.r.Chance(2, 3) {
		gm, goE, me, _ := g.intExpr(0)
		g.add(&step{Src: gm, GoRead: goE, Model: []string{fmt.Sprintf("SRead (%s)", me)}, IntVal: true, Kind: "read-int"})
		return
	}
	var cands []string
	var gos []string
	for _, v := range g.varsOf(func(v *variable) bool { return true }) {
		switch v.t.cat {
		case "ptr":
			if v.t.elem.cat != "ptr" {
				cands, gos = append(cands, "*"+v.gm), append(gos, "*"+v.goNm)
			}
		case "struct":
			cands, gos = append(cands, v.gm, v.gm+".A", v.gm+".B"), append(gos, v.goNm, v.goNm+".A", v.goNm+".B")
			for _, m := range g.funcs {
				if m.kind == "method:"+v.t.gm {
					cands, gos = append(cands, v.gm+"."+m.gm+"()"), append(gos, v.goNm+"."+m.goNm+"()")
				}
			}
		case "slice":
			cands, gos = append(cands, v.gm, "len("+v.gm+")"), append(gos, v.goNm, "len("+v.goNm+")")
		default:
			cands, gos = append(cands, v.gm), append(gos, v.goNm)
		}
	}
	for _, f := range g.funcs {
		n := g.r.Intn(6)
		switch f.kind {
		case "int->int", "fact":
			cands, gos = append(cands, fmt.Sprintf("%s(%d)", f.gm, n)), append(gos, fmt.Sprintf("%s(%d)", f.goNm, n))
		case "addr":
			cands, gos = append(cands, "*"+f.gm+"()"), append(gos, "*"+f.goNm+"()")
		}
	}
	if len(cands) == 0 {
		return
	}
	i := g.r.Intn(len(cands))
	st := &step{Src: cands[i], GoRead: gos[i], Model: []string{"SNop"}, Kind: "read-rich"}
	// a call of an "addr" function executes &x of a global
	for _, f := range g.funcs {
		if f.kind == "addr" && strings.Contains(cands[i], f.gm+"(") {
			st.Model = []string{fmt.Sprintf("SRead (EAddr %d)", f.target.id)}
		}
	}
	g.add(st)
}

func (g *gen) declFunc() {
	id := g.id()
	mk := func(prefix string) *fn {
		gm := fmt.Sprintf("%s_%d", prefix, id)
		g.h.names[id] = gm
		return &fn{id: id, gm: gm, goNm: fmt.Sprintf("%s_h%d", gm, g.hidx)}
	}
	ints := g.varsOf(func(v *variable) bool { return v.t == tInt })
	if g.core {
		// functions are declared (FuncBind slot) but not called in core histories
		f := mk("f")
		f.kind = "opaque"
		body := "{ return a + 1 }"
		g.funcs = append(g.funcs, f)
		g.add(&step{Src: fmt.Sprintf("func %s(a int) int %s", f.gm, body), GoDecl: fmt.Sprintf("func %s(a int) int %s", f.goNm, body),
			Decl: []int{id}, Model: []string{fmt.Sprintf("SFunc %d 0 true", id)}, Kind: "func"})
		return
	}
	structs := []*typ{}
	for _, t := range g.types {
		if t.cat == "struct" {
			structs = append(structs, t)
		}
	}
	switch x := g.r.Intn(6); {
	case x == 0 || len(ints) == 0:
		f := mk("fact")
		f.kind = "fact"
		b := "(n int) int { if n <= 1 { return 1 }; return n * %s(n-1) }"
		g.funcs = append(g.funcs, f)
		g.add(&step{Src: "func " + f.gm + fmt.Sprintf(b, f.gm), GoDecl: "func " + f.goNm + fmt.Sprintf(b, f.goNm), Decl: []int{id},
			Model: []string{fmt.Sprintf("SFunc %d 0 true", id)}, Kind: "func-rec"})
	case x == 1:
		v := pick(g.r, ints)
		v.deps = true
		f := mk("addr")
		f.kind, f.target = "addr", v
		g.funcs = append(g.funcs, f)
		g.add(&step{Src: fmt.Sprintf("func %s() *int { return &%s }", f.gm, v.gm), GoDecl: fmt.Sprintf("func %s() *int { return &%s }", f.goNm, v.goNm),
			Decl: []int{id}, Model: []string{fmt.Sprintf("SFunc %d 0 true", id)}, Kind: "func-addr"})
	case x == 2 && len(structs) > 0:
		t := pick(g.r, structs)
		f := mk("M")
		f.kind = "method:" + t.gm
		f.goNm = f.gm // method names need no suffix
		g.funcs = append(g.funcs, f)
		g.add(&step{Src: fmt.Sprintf("func (t %s) %s() int { return t.A*2 + len(t.B) }", t.gm, f.gm),
			GoDecl: fmt.Sprintf("func (t %s) %s() int { return t.A*2 + len(t.B) }", t.goName, f.goNm), Model: []string{"SNop"}, Kind: "method"})
	default:
		v := pick(g.r, ints)
		v.deps = true
		f := mk("f")
		f.kind = "int->int"
		g.funcs = append(g.funcs, f)
		body := "(a int) int { %s++; return a*2 + %s }"
		g.add(&step{Src: "func " + f.gm + fmt.Sprintf(body, v.gm, v.gm), GoDecl: "func " + f.goNm + fmt.Sprintf(body, v.goNm, v.goNm),
			Decl: []int{id}, Model: []string{fmt.Sprintf("SFunc %d 0 true", id)}, Kind: "func"})
	}
}

func (g *gen) declType() {
	id := g.id()
	if g.r.Chance(1, 2) {
		gm := fmt.Sprintf("S_%d", id)
		t := &typ{gm: gm, goName: fmt.Sprintf("%s_h%d", gm, g.hidx), kind: "KBox", cat: "struct", named: true}
		g.types = append(g.types, t)
		g.add(&step{Src: fmt.Sprintf("type %s struct { A int; B string }", t.gm), GoDecl: fmt.Sprintf("type %s struct { A int; B string }", t.goName),
			Model: []string{"SNop"}, Kind: "type-struct"})
	} else {
		gm := fmt.Sprintf("N_%d", id)
		base := pick(g.r, basicTypes[:11])
		t := &typ{gm: gm, goName: fmt.Sprintf("%s_h%d", gm, g.hidx), kind: base.kind, cat: base.cat, named: true}
		g.types = append(g.types, t)
		g.add(&step{Src: fmt.Sprintf("type %s %s", t.gm, base.gm), GoDecl: fmt.Sprintf("type %s %s", t.goName, base.goName), Model: []string{"SNop"}, Kind: "type-basic"})
	}
}

// redefinition `var x T = e` of an existing variable, same or different type.
// Without dependents it is indistinguishable from a fresh Go variable (renamed in the Go program);
// with dependents (pointers, functions) gomacro's slot reuse is REPL-specific: from then on the
// history is compared with the model only.
func (g *gen) redefine() {
	cands := g.varsOf(func(v *variable) bool { return v.t.cat != "ptr" && v.t.cat != "struct" })
	if len(cands) == 0 {
		return
	}
	old := pick(g.r, cands)
	if withDeps := g.varsOf(func(v *variable) bool { return v.deps && v.t.cat != "ptr" && v.t.cat != "struct" }); len(withDeps) > 0 && g.r.Chance(1, 2) {
		old = pick(g.r, withDeps)
	}
	t := old.t
	if g.r.Chance(1, 3) || (old.deps && g.r.Chance(1, 2)) {
		if g.core {
			t = pick(g.r, []*typ{tInt, basicTypes[10], basicTypes[11], basicTypes[7], basicTypes[2]}) // int, complex128 (2 slots), string (boxed), float64, int64
		} else {
			t = pick(g.r, basicTypes)
		}
	}
	deps := false
	if old.deps && t == old.t {
		// SAME type: the slot is reused, pointers and functions follow the redefined variable (REPL-only semantics,
		// known finding C14-K1): generated for int in core histories only, the rest of the history is model-only
		if !g.core || t != tInt {
			return
		}
		g.noGo = true
		deps = true
	}
	// another type (commit C14-4): a NEW variable; pointers taken earlier and functions compiled earlier keep the old
	// one, exactly as in the Go program where the redefinition is a fresh variable: compared with compiled Go
	if old.deps && t != old.t {
		g.redefOther++
	}
	g.vers[old.gm]++
	nv := &variable{id: old.id, gm: old.gm, goNm: fmt.Sprintf("%s_h%dr%d", old.gm, g.hidx, g.vers[old.gm]), t: t, alive: true, bits: 8, deps: deps}
	old.alive = false
	var gm, goE, me string
	if t == tInt {
		var bits int
		gm, goE, me, bits = g.intExprExcluding(old)
		g.note(bits)
	} else {
		gm, goE = g.richExpr(t)
		me = "EZ 0"
	}
	g.vars = append(g.vars, nv)
	kind := "redefine"
	switch {
	case old.deps && t != old.t:
		kind = "redefine:other-type:pointer-or-function-refers-to-old"
	case old.deps:
		kind = "redefine:same-type:REPL-only"
	case t != old.t:
		kind = "redefine:other-type"
	}
	src := fmt.Sprintf("var %s %s = %s", nv.gm, t.gm, gm)
	if t.cat != "slice" && g.r.Chance(1, 4) {
		src = fmt.Sprintf("%s := %s(%s)", nv.gm, parenT(t.gm), gm)
	}
	g.add(&step{Src: src, GoDecl: fmt.Sprintf("var %s %s", nv.goNm, t.goName),
		GoBody: fmt.Sprintf("%s = %s", nv.goNm, goE), Decl: []int{nv.id},
		Model: []string{fmt.Sprintf("SVar %d %s (%s)", nv.id, kindOf(t), me)}, Kind: kind})
}

func (g *gen) intExprExcluding(old *variable) (string, string, string, int) {
	// the initialiser must not mention the name being declared (`var x = x` is a declaration loop in Go too)
	old.alive = false
	return g.intExpr(0)
}

// n declarations, ONE PER EVALUATION
func (g *gen) bulk(n int) {
	for i := 0; i < n; i++ {
		t := tInt
		if !g.core && g.r.Chance(1, 4) {
			t = pick(g.r, basicTypes)
		} else if g.r.Chance(1, 12) {
			t = basicTypes[10] // complex128: two slots
		}
		if t == tInt || g.core && t != basicTypes[10] {
			v := g.newVar("b", tInt)
			k := g.r.Intn(1000)
			g.vars = append(g.vars, v)
			g.add(&step{Src: fmt.Sprintf("var %s int = %d", v.gm, k), GoDecl: "var " + v.goNm + " int", GoBody: fmt.Sprintf("%s = %d", v.goNm, k),
				Decl: []int{v.id}, Model: []string{fmt.Sprintf("SVar %d KInt1 (EZ %d)", v.id, k)}, Kind: "bulk"})
			continue
		}
		v := g.newVar("b", t)
		gm, goE := g.richExpr(t)
		g.vars = append(g.vars, v)
		g.add(&step{Src: fmt.Sprintf("var %s %s = %s", v.gm, t.gm, gm), GoDecl: "var " + v.goNm + " " + t.goName, GoBody: fmt.Sprintf("%s = %s", v.goNm, goE),
			Decl: []int{v.id}, Model: []string{fmt.Sprintf("SVar %d %s (EZ 0)", v.id, kindOf(t))}, Kind: "bulk"})
	}
}

func genHistory(r *vh.Rng, idx int, core bool, length int, bulkN int) *history {
	h := &history{Idx: idx, Core: core, names: map[int]string{}}
	g := &gen{r: r, h: h, hidx: idx, core: core, vers: map[string]int{}, maxBit: 8}
	g.declVar(tInt)
	bulkAt := -1
	if bulkN > 0 {
		bulkAt = length/3 + r.Intn(length/3+1)
	}
	for i := 0; i < length; i++ {
		if i == bulkAt {
			// make sure an address of an Ints slot has been taken and executed before the bulk
			ints := g.varsOf(func(v *variable) bool { return v.t == tInt })
			if len(ints) > 0 {
				g.declVar(ptrTo(tInt))
			}
			g.bulk(bulkN)
			continue
		}
		switch x := r.Intn(100); {
		case x < 18:
			if core {
				g.declVar(tInt)
			} else {
				ts := append([]*typ{}, basicTypes...)
				ts = append(ts, g.types...)
				g.declVar(pick(r, ts))
			}
		case x < 28:
			// pointer declarations: *int, **int, and (rich) pointers to other types
			switch y := r.Intn(4); {
			case y < 2:
				g.declVar(ptrTo(tInt))
			case y == 2:
				pp := g.varsOf(func(v *variable) bool { return v.t.cat == "ptr" && v.t.elem == tInt })
				if len(pp) > 0 {
					g.declVar(ptrTo(pp[0].t))
				}
			default:
				if !core {
					vs := g.varsOf(func(v *variable) bool { return v.t.cat != "ptr" })
					if len(vs) > 0 {
						g.declVar(ptrTo(pick(r, vs).t))
					}
				}
			}
		case x < 32:
			g.declConst()
		case x < 40:
			g.declFunc()
		case x < 44:
			if !core {
				g.declType()
			}
		case x < 58:
			g.assign()
		case x < 68:
			g.store()
		case x < 72:
			g.retarget()
		case x < 78:
			g.redefine()
		case x < 81:
			g.bulk(3 + r.Intn(20))
		default:
			g.read()
		}
	}
	// final reads of every int variable and through every *int
	for _, v := range g.varsOf(func(v *variable) bool { return v.t == tInt || (v.t.cat == "ptr" && v.t.elem == tInt) }) {
		if len(h.Steps) > 600 && g.r.Chance(9, 10) {
			continue
		}
		if v.t == tInt {
			g.add(&step{Src: v.gm, GoRead: v.goNm, Model: []string{fmt.Sprintf("SRead (EV %d)", v.id)}, IntVal: true, Kind: "read-final"})
		} else {
			g.add(&step{Src: "*" + v.gm, GoRead: "*" + v.goNm, Model: []string{fmt.Sprintf("SRead (EDeref (EV %d))", v.id)}, IntVal: true, Kind: "read-final"})
		}
	}
	return h
}

// ---------------------------------------------------------------- running the real interpreter

type evalObs struct {
	Status                                      int // 0 ok 1 compile error 2 internal error (Env.Ints) 3 other run-time panic
	BindNum, IntBindNum, IntBindMax             int
	ValsCap, ValsLen, IntsCap, IntsLen          int
	Taken, Moved                                bool
	Val, Typ, Err                               string
	HasVal                                      bool
	Decls                                       [][3]int
}

func envOf(ir *fast.Interp) *fast.Env {
	f := reflect.ValueOf(ir).Elem().FieldByName("env")
	return (*fast.Env)(unsafe.Pointer(f.Pointer()))
}

func intsData(env *fast.Env) unsafe.Pointer {
	if cap(env.Ints) == 0 {
		return nil
	}
	return unsafe.Pointer(&env.Ints[:1][0])
}

func classCode(c fast.BindClass) int {
	switch c {
	case fast.IntBind:
		return 0
	case fast.VarBind:
		return 1
	case fast.FuncBind:
		return 2
	case fast.ConstBind:
		return 3
	}
	return 9
}

func evalOne(ir *fast.Interp, src string) (o evalObs) {
	env := envOf(ir)
	before := intsData(env)
	var expr *fast.Expr
	if p := vh.Catch(func() { expr = ir.Compile(src) }); p != nil {
		o.Status, o.Err = 1, fmt.Sprint(p)
	} else if p := vh.Catch(func() {
		vs, ts := ir.RunExpr(expr)
		if len(vs) == 1 && vs[0].IsValid() && vs[0].CanInterface() {
			o.HasVal = true
			o.Val = fmt.Sprintf("%v", vs[0].Interface())
			if ts[0] != nil {
				o.Typ = ts[0].String()
			}
		}
	}); p != nil {
		o.Status, o.Err = 3, fmt.Sprint(p)
		if strings.Contains(o.Err, "internal error: attempt to reallocate Env.Ints") {
			o.Status = 2
		}
	}
	c := ir.Comp
	o.BindNum, o.IntBindNum, o.IntBindMax = c.BindNum, c.IntBindNum, c.IntBindMax
	o.ValsCap, o.ValsLen, o.IntsCap, o.IntsLen = cap(env.Vals), len(env.Vals), cap(env.Ints), len(env.Ints)
	o.Taken = env.IntAddressTaken
	o.Moved = intsData(env) != before
	return o
}

func newInterp() *fast.Interp {
	ir := fast.New()
	ir.Comp.Globals.Stderr = io.Discard
	ir.Comp.Globals.Stdout = io.Discard
	return ir
}

func trunc(s string, n int) string {
	if len(s) > n {
		return s[:n] + "..."
	}
	return s
}

// ---------------------------------------------------------------- compiled-Go oracle (batched)

var suffixRe = regexp.MustCompile(`_h\d+(r\d+)?\b`)

func oracle(a *vh.Args, hs []*history, batch int) (map[[2]int][2]string, error) {
	dir := a.Path(fmt.Sprintf("oracle/b%03d", batch))
	os.MkdirAll(dir, 0o755)
	var sb strings.Builder
	sb.WriteString("package main\n\nimport \"fmt\"\n\n")
	for _, h := range hs {
		for _, s := range h.Steps {
			if s.GoDecl != "" {
				sb.WriteString(s.GoDecl + "\n")
			}
		}
		fmt.Fprintf(&sb, "\nfunc hist_%d() {\n", h.Idx)
		for i, s := range h.Steps {
			if s.GoBody != "" {
				sb.WriteString("\t" + s.GoBody + "\n")
			}
			if s.GoRead != "" {
				fmt.Fprintf(&sb, "\t{\n\t\tv := %s\n\t\tfmt.Printf(\"R %d %d %%T %%v\\n\", v, v)\n\t}\n", s.GoRead, h.Idx, i)
			}
		}
		sb.WriteString("}\n\n")
	}
	sb.WriteString("func main() {\n")
	for _, h := range hs {
		fmt.Fprintf(&sb, "\thist_%d()\n", h.Idx)
	}
	sb.WriteString("}\n")
	if err := os.WriteFile(filepath.Join(dir, "main.go"), []byte(sb.String()), 0o644); err != nil {
		return nil, err
	}
	os.WriteFile(filepath.Join(dir, "go.mod"), []byte("module oracle\n\ngo 1.18\n"), 0o644)
	env := append(os.Environ(), "GOFLAGS=-mod=mod", "GOPROXY=off", "GOSUMDB=off", "GOTOOLCHAIN=local", "CGO_ENABLED=0")
	cmd := exec.Command("go", "build", "-gcflags=-N -l", "-o", "oracle.bin", ".")
	cmd.Dir, cmd.Env = dir, env
	if out, err := cmd.CombinedOutput(); err != nil {
		return nil, fmt.Errorf("go build of oracle batch %d failed: %v\n%s", batch, err, trunc(string(out), 3000))
	}
	run := exec.Command(filepath.Join(dir, "oracle.bin"))
	var out bytes.Buffer
	run.Stdout, run.Stderr = &out, &out
	if err := run.Start(); err != nil {
		return nil, err
	}
	done := make(chan error, 1)
	go func() { done <- run.Wait() }()
	select {
	case err := <-done:
		if err != nil {
			return nil, fmt.Errorf("oracle batch %d run: %v\n%s", batch, err, trunc(out.String(), 2000))
		}
	case <-time.After(600 * time.Second):
		run.Process.Kill()
		return nil, fmt.Errorf("oracle batch %d did not terminate", batch)
	}
	res := map[[2]int][2]string{}
	for _, line := range strings.Split(out.String(), "\n") {
		var hi, si int
		var t string
		if n, _ := fmt.Sscanf(line, "R %d %d %s", &hi, &si, &t); n == 3 {
			prefix := fmt.Sprintf("R %d %d %s ", hi, si, t)
			val := ""
			if len(line) >= len(prefix) {
				val = line[len(prefix):]
			}
			res[[2]int{hi, si}] = [2]string{suffixRe.ReplaceAllString(t, ""), val}
		}
	}
	return res, nil
}

// ---------------------------------------------------------------- main

func coqObs(o evalObs, h *history, s *step) string {
	var decls []string
	for _, d := range o.Decls {
		decls = append(decls, fmt.Sprintf("(%d, (%s, %s))", d[0], vh.CoqZ(int64(d[1])), vh.CoqZ(int64(d[2]))))
	}
	val := "None"
	if s.IntVal && o.HasVal {
		var z int64
		if _, err := fmt.Sscan(o.Val, &z); err == nil {
			val = "(Some " + vh.CoqZ(z) + ")"
		}
	}
	st := o.Status
	return fmt.Sprintf("mkObs %d %d %d %d %d %d %d %d %s %s %s %s", st, o.BindNum, o.IntBindNum, o.IntBindMax, o.ValsCap, o.ValsLen, o.IntsCap, o.IntsLen,
		vh.CoqBool(o.Taken), vh.CoqBool(o.Moved), vh.CoqList(decls, "(name * (Z * Z))"), val)
}

func srcsUpTo(h *history, i int) []string {
	var out []string
	lo := 0
	if i > 40 {
		lo = i - 40 // keep the replay readable: the tail of the history
	}
	for _, s := range h.Steps[lo : i+1] {
		out = append(out, s.Src)
	}
	return out
}

func main() {
	a := vh.ParseArgs()
	rng := vh.NewRng(a.Seed)
	rep := vh.NewReport(a, "MULTIVAR (multivar.go, 33 quick / 330 thorough histories, own PRNG stream): `var a, b[, c] T = <one multi-valued expression>` with a declared type T wider than the yielded types (interface{}, named empty interface, named method interface, named slice type from []int, <-chan int from chan int; control: identical types), initialised by a call with 2..3 results or a comma-ok map index / type assertion, optionally one blank name, followed in later evaluations by x == nil, dynamic type of x and static type of &x (type switch helper), assignment of another dynamic type, p := &x / *p = v, swap, x = nil, later functions reading/assigning the variables, method calls; every read vs compiled Go. "+
		"REPL histories, ONE statement per Interp.Eval (Compile+RunExpr): var/:=/const/func/method/type declarations over "+
		"{int,int8,int64,uint,uint8,uint16,bool,float32,float64,complex64,complex128,string,[]int,struct,named basic,*T,**int}, assignments, compound assignments, ++, "+
		"p := &x, p = &y, *p = e, *p += e, **pp, *pp = &y, calls of functions that modify globals or return &global, reads; bulk runs of 3..22 (and 200..1200 in the long "+
		"histories) declarations one per evaluation after an address was taken; redefinitions `var x T = e` / `x := T(e)` with the same or another type, half of them of a variable that a pointer or an earlier function refers to. "+
		"core histories use only the statements the Coq model interprets exactly (ints, pointers, constants, function slots): values are compared with the model too; "+
		"rich histories compare the slot layout with the model and all values with compiled Go. corpus/C14/*.json (exact inputs of fixed findings, expected values recorded from compiled Go) run first. "+
		"Oracle (S): the same statements as one compiled Go program per batch (package-level declarations, statements in order in a function, go 1.18 module), %T and %v of every read equal; "+
		"a redefinition is rendered as a fresh Go variable - also when pointers or functions still refer to the previous variable and the type changes (they keep the previous variable, commit C14-4); "+
		"only after a redefinition with the SAME type of a variable that a pointer or function refers to (slot reused: REPL-only semantics, known finding C14-K1, replayed by corpus/C14/90_*) the rest of that history is checked against the model only. "+
		"matrix histories (matrix.go; generated code is specialised per kind, per storage class and per scope distance): for EVERY int-like kind K of {bool,int,int8..int64,uint,uint8..uint64,uintptr,float32,float64,complex64,complex128} "+
		"and every depth 0..3 (0..5 thorough) one history that declares g of kind K, takes exactly ONE address &g from `depth` scopes below the file scope (function bodies, blocks with locals, closures, for/if/switch with :=, randomly nested; "+
		"as a top-level statement or inside a function returning the pointer), declares int-like globals of random kinds (1..64 names per statement; one per evaluation in 2 random histories, in the thorough tier in one history per kind and depth) until the 1024 slots of Env.Ints "+
		"are used up and 4..44 more, then *p = v / g / g = v / *p; then the operator sweep: every combination of {+= -= *= /= %= &= |= ^= &^= <<= >>= ++ --} x {constant operand: a plain one AND a special-cased one (0, 1, -1, powers of two, large shift counts); variable operand} x "+
		"{15 numeric kinds} x {IntBind global declared before the address, boxed global declared after Env.Ints is full} x {statement at depth 0,1,2,3} is dealt out once (3 times thorough) over these histories as `x = v; stmt; x`, all reads compared with compiled Go; "+
		"the Coq model replays every matrix history up to 6 evaluations after the address-of and every eighth (all, thorough) completely. "+
		"funcvar histories (funcvar.go): calls through VALUES OF FUNCTION TYPE whose holder is re-assigned in later evaluations: signature shapes {0..3 parameters of int,string,bool,float64,uint8} x {0,1,2 results of int,string,bool,float64,uint8,[]int} "+
		"(every call-site specialisation of fast/call*ret*.go) x holder {global var f T = lit, f := lit, var f T assigned later, global called/assigned through a pointer, field of a global struct, element of a global slice, local captured by closures}; "+
		"callers call the holder from 0, 1, 2 closures below their body and in a loop, with constant and variable arguments; history: [call] / assign at top level / call / assign inside a function or through the pointer / call / call+assign+call in ONE evaluation / "+
		"assign another variable / swap; all 72 shapes for the plain global holder and 10 random shapes per other holder (thorough: all x all); every call is a read compared with compiled Go. "+
		"non-trivial: the history executes >=1 address-of an Ints slot and declares >=5 variables afterwards; distinct by SHA-256 of the sources")
	wd := vh.NewWatchdog(rep, 10*time.Minute) // generous: go build of the oracle / the first fast.New() take minutes on a loaded machine

	var hist []*history
	// part 0: corpus
	nCorpus := 0
	if dir := os.Getenv("VERIF_DIR"); dir != "" {
		files, _ := filepath.Glob(filepath.Join(dir, "corpus", "C14", "*.json"))
		sort.Strings(files)
		for _, f := range files {
			var h history
			b, err := os.ReadFile(f)
			if err != nil || json.Unmarshal(b, &h) != nil || len(h.Steps) == 0 {
				fmt.Fprintf(os.Stderr, "c14: cannot read corpus file %s\n", f)
				continue
			}
			h.corpus, h.Name = true, strings.TrimSuffix(filepath.Base(f), ".json")
			hist = append(hist, &h)
			nCorpus++
		}
	}
	nCore, nRich, nLong := 40, 40, 2
	if a.Thorough() {
		nCore, nRich, nLong = 800, 800, 8
	}
	if a.N > 0 {
		nCore, nRich = a.N, a.N
	}
	for i := 0; i < nCore+nRich+nLong; i++ {
		idx := len(hist)
		switch {
		case i < nCore:
			hist = append(hist, genHistory(rng.Fork(), idx, true, 20+rng.Intn(100), 0))
		case i < nCore+nRich:
			hist = append(hist, genHistory(rng.Fork(), idx, false, 20+rng.Intn(100), 0))
		default:
			// long: hundreds of declarations one per evaluation after an address was taken, crossing cap(Env.Ints)=1024
			n := 200 + rng.Intn(300)
			if (i-nCore-nRich)%2 == 0 {
				n = 1030 + rng.Intn(170)
			}
			hist = append(hist, genHistory(rng.Fork(), idx, i%2 == 0, 30+rng.Intn(30), n))
		}
	}
	// matrix histories (matrix.go): every int-like kind x every depth of the address-of, Env.Ints used up, operator sweep
	depths, width, rounds, nNarrow := []int{0, 1, 2, 3}, 64, 1, 2
	if a.Thorough() {
		depths, rounds, nNarrow = []int{0, 1, 2, 3, 4, 5}, 3, 0
	}
	specs := matrixSpecs(rng.Fork(), depths, width, rounds)
	if a.Thorough() {
		// ... and with ONE declaration per evaluation
		specs = append(specs, matrixSpecs(rng.Fork(), []int{0, 1, 2, 3}, 1, 1)...)
	}
	for i := 0; i < nNarrow; i++ {
		specs = append(specs, matrixSpec{kind: pick(rng, intLikeNames), depth: rng.Intn(5), width: 1})
	}
	if a.N > 0 && a.N < len(specs) {
		specs = specs[:a.N]
	}
	for _, sp := range specs {
		hist = append(hist, genMatrix(rng.Fork(), len(hist), sp))
	}
	// funcvar histories (funcvar.go): calls through values of function type whose holder is re-assigned later; own PRNG stream
	funcvarDefect := false
	registered := registeredKeys(os.Getenv("VERIF_DIR"))
	{
		ir := newInterp()
		for _, src := range []string{"var fvp = func() int { return 1 }", "func fvg() int { return fvp() }", "fvg()", "fvp = func() int { return 2 }"} {
			evalOne(ir, src)
		}
		o := evalOne(ir, "fvg()")
		funcvarDefect = o.Status != 0 || o.Val != "2"
		rep.Extra["defect_present:"+funcvarKey] = funcvarDefect
		// once a finding is registered (fixed) its class is generated whatever the probe says: a regression fails
		funcvarDefect = funcvarDefect && !registered[funcvarKey]
	}
	nFuncVar := 0
	if a.N <= 0 || a.N >= 40 {
		ir := newInterp()
		evalOne(ir, "var fvout int")
		evalOne(ir, "func fvt() int { f := func() { fvout = 5 }; { a := 1; { b := 2; { c := 3; f(); _, _, _ = a, b, c } } }; return fvout }")
		o := evalOne(ir, "fvt()")
		deepDefect := o.Status != 0 || o.Val != "5"
		rep.Extra["defect_present:"+localDeepKey] = deepDefect
		deepDefect = deepDefect && !registered[localDeepKey]
		fv := funcVarHistories(vh.NewRng(a.Seed*2654435761+14), len(hist), a.Thorough(), funcvarDefect, deepDefect)
		nFuncVar = len(fv)
		hist = append(hist, fv...)
	}
	rep.Extra["funcvar_histories"] = nFuncVar
	// multivar histories (multivar.go): `var a, b T = f()` with a declared type wider than the returned types; own PRNG stream
	nMultiVar := 0
	if a.N <= 0 || a.N >= 40 {
		ir := newInterp()
		ifaceDefect := false
		for _, src := range multiVarIfaceCanary {
			ifaceDefect = evalOne(ir, src).Status != 0 || ifaceDefect
		}
		rep.Extra["defect_present:"+multiVarIfaceKey] = ifaceDefect
		mv := multiVarHistories(vh.NewRng(a.Seed*40503+1414), len(hist), a.Thorough(), ifaceDefect && !registered[multiVarIfaceKey])
		nMultiVar = len(mv)
		hist = append(hist, mv...)
	}
	rep.Extra["multivar_histories"] = nMultiVar
	for i, h := range hist {
		h.Idx = i
	}
	deferred := []string{}

	// compiled-Go oracle for the generated histories
	want := map[[2]int][2]string{}
	var gens []*history
	for _, h := range hist {
		if !h.corpus {
			gens = append(gens, h)
		}
	}
	var batches [][]*history
	nsteps := 0
	for _, h := range gens {
		if len(batches) == 0 || len(batches[len(batches)-1]) >= 150 || nsteps+len(h.Steps) > 30000 {
			batches, nsteps = append(batches, nil), 0
		}
		batches[len(batches)-1] = append(batches[len(batches)-1], h)
		nsteps += len(h.Steps)
	}
	for b, batch := range batches {
		wd.Beat(fmt.Sprintf("oracle batch %d", b))
		res, err := oracle(a, batch, b)
		if err != nil {
			// the oracle itself is broken: machinery failure, not a finding
			fmt.Fprintln(os.Stderr, err)
			os.Exit(2)
		}
		for k, v := range res {
			want[k] = v
		}
	}

	header := "From Coq Require Import List ZArith Bool.\nFrom Verif Require Import C14.Model.\nImport ListNotations.\nOpen Scope Z_scope."
	var terms []string // Coq cases, written at the end in an order that balances the shards
	nMatrix := 0
	for _, h := range hist {
		wd.Beat(map[string]interface{}{"history": h.Idx, "name": h.Name})
		ir := newInterp()
		var cobs, cstm []string
		addrTaken, declsAfter := false, 0
		noGoSeen := false
		var canon strings.Builder
		for i, s := range h.Steps {
			wd.Beat(map[string]interface{}{"history": h.Idx, "step": i, "src": trunc(s.Src, 200)})
			o := evalOne(ir, s.Src)
			for _, id := range s.Decl {
				if b := ir.Comp.Binds[h.names[id]]; b != nil {
					o.Decls = append(o.Decls, [3]int{id, classCode(b.Desc.Class()), b.Desc.Index()})
				} else {
					o.Decls = append(o.Decls, [3]int{id, -1, -1})
				}
			}
			canon.WriteString(s.Src + "\n")
			if o.Taken {
				addrTaken = true
				declsAfter += len(s.Decl)
			}
			key := fmt.Sprintf("gen:h%d:step%d:%s", h.Idx, i, s.Kind)
			if h.corpus {
				key = "corpus:" + h.Name
				if h.Key != "" {
					key = h.Key
				}
			}
			fail := func(what string, got, wantv interface{}) {
				in := map[string]interface{}{"history_tail": srcsUpTo(h, i), "step": i}
				if h.Head > 0 && i > h.Head+12 {
					if t := srcsUpTo(h, i); len(t) > 13 {
						in["history_tail"] = t[len(t)-13:]
					}
					// the declarations and the address-of at the start of a matrix history; the steps between head and tail are
					// declarations of further int-like globals (inputs.jsonl holds the complete history when it has at most 400 evaluations)
					in["history_head"] = srcsUpTo(h, h.Head-1)
					in["matrix"] = h.Matrix
				}
				if h.FuncVar != "" {
					in["funcvar"] = h.FuncVar
				}
				if h.corpus && h.Defer && !registered[key] {
					deferred = append(deferred, fmt.Sprintf("%s: step %d %q: %s: got %v want %v", key, i, trunc(s.Src, 80), what, got, wantv))
					return
				}
				rep.Fail(vh.Failure{Key: key, What: what, Input: in, Got: got, Want: wantv})
			}
			// ---- direct oracle
			if h.corpus {
				if o.Status != 0 {
					fail("evaluation failed; compiled Go accepts and runs the statement", trunc(o.Err, 300), "no error")
				} else if s.Want != nil && (o.Val != *s.Want || (s.WantT != "" && o.Typ != s.WantT)) {
					fail("value differs from compiled Go (recorded)", o.Typ+" "+o.Val, s.WantT+" "+*s.Want)
				}
			} else {
				if o.Status != 0 {
					fail("evaluation failed; compiled Go accepts and runs the statement", trunc(o.Err, 300), "no error")
				}
				noGoSeen = noGoSeen || s.NoGo
				if s.GoRead != "" && !s.NoGo && o.Status == 0 {
					w, ok := want[[2]int{h.Idx, i}]
					if !ok {
						fmt.Fprintf(os.Stderr, "c14: no oracle output for history %d step %d\n", h.Idx, i)
						os.Exit(2)
					}
					gotT := o.Typ
					if !o.HasVal {
						fail("read returned no value", "none", w[1])
					} else if o.Val != w[1] || gotT != w[0] {
						fail("read differs from compiled Go", gotT+" "+o.Val, w[0]+" "+w[1])
					}
				}
			}
			rep.Dist("stmt:" + strings.SplitN(s.Kind, ":", 2)[0])
			if f := strings.Split(s.Kind, ":"); len(f) == 7 && f[1] == "op" && s.GoRead != "" {
				// mx:op:<op>:<kind>:<const|var>:<intbind|boxed>:depthN
				rep.Dist("sweep:op:" + f[2] + ":" + f[4])
				rep.Dist("sweep:kind:" + f[3] + ":" + f[5])
				rep.Dist("sweep:" + f[6] + ":" + f[5])
			}
			if strings.HasPrefix(s.Kind, "redefine:") {
				rep.Dist("stmt:" + s.Kind)
			}
			// ---- model case
			if !h.corpus {
				cobs = append(cobs, coqObs(o, h, s))
				cstm = append(cstm, vh.CoqList(s.Model, "stmt"))
			}
		}
		if !h.corpus {
			in := map[string]interface{}{"core": h.Core, "srcs": srcsUpTo(h, len(h.Steps)-1)}
			if h.Matrix != "" {
				// the model replays every matrix history up to a few evaluations after the address-of (IntAddressTaken, classes
				// and indexes of all names declared so far) and one history in eight (all of them in the thorough tier) completely
				nMatrix++
				in["matrix"], in["head"] = h.Matrix, srcsUpTo(h, h.Head-1)
				if len(h.Steps) <= 400 {
					all := make([]string, len(h.Steps))
					for i, s := range h.Steps {
						all[i] = s.Src
					}
					in["srcs"] = all
				}
				if n := h.Head + 6; !a.Thorough() && (nMatrix+int(a.Seed))%8 != 0 && n < len(cstm) {
					cstm, cobs = cstm[:n], cobs[:n]
					in["model_replays_first_steps"] = n
				}
			}
			terms = append(terms, fmt.Sprintf("mkCase %d %s\n  %s\n  %s", h.Idx, vh.CoqBool(h.Core), vh.CoqList(cstm, "(list stmt)"), vh.CoqList(cobs, "obs")))
			rep.CaseInput(h.Idx, in)
		}
		rep.Count(canon.String(), addrTaken && declsAfter >= 5)
		if h.Matrix != "" {
			rep.Dist("history:matrix")
			rep.Dist("matrix:address-of:" + h.Matrix[:strings.LastIndex(h.Matrix, ":")])
			if strings.HasSuffix(h.Matrix, ":width1") {
				rep.Dist("history:matrix:one-declaration-per-evaluation")
			}
		}
		if h.FuncVar != "" {
			rep.Dist("history:funcvar")
			rep.Dist("funcvar:holder:" + strings.SplitN(h.FuncVar, ":", 2)[0])
		}
		switch {
		case h.corpus:
			rep.Dist("history:corpus")
		case h.Core:
			rep.Dist("history:core")
		default:
			rep.Dist("history:rich")
		}
		if noGoSeen {
			rep.Dist("history:with-REPL-only-redefinition")
		}
		if ir.Comp.IntBindMax != 0 && ir.Comp.IntBindNum >= ir.Comp.IntBindMax-1 {
			rep.Dist("history:reached-IntBindMax")
		}
		rep.Dist(fmt.Sprintf("history_len:%d-%d", len(h.Steps)/100*100, len(h.Steps)/100*100+99))
		if h.Idx%41 == 5 {
			rep.Sample(srcsUpTo(h, min(len(h.Steps)-1, 12)))
		}
	}
	// 8 shards of about equal weight: largest cases first, dealt round-robin
	sort.SliceStable(terms, func(i, j int) bool { return len(terms[i]) > len(terms[j]) })
	const nShards = 8
	cw := vh.NewCases(a, header, "case", "mismatches", (len(terms)+nShards-1)/nShards)
	for sh := 0; sh < nShards; sh++ {
		for i := sh; i < len(terms); i += nShards {
			cw.Add(terms[i])
		}
	}
	cw.Close()
	rep.Extra["corpus_histories"] = nCorpus
	rep.Extra["deferred_corpus_failures"] = deferred
	rep.Write()
}

func min(a, b int) int {
	if a < b {
		return a
	}
	return b
}

// registeredKeys: the keys (key + other_keys) recorded for property C14 in $VERIF_DIR/known_findings.json
func registeredKeys(dir string) map[string]bool {
	out := map[string]bool{}
	var kf struct {
		Findings []struct {
			Property string   `json:"property"`
			Key      string   `json:"key"`
			Other    []string `json:"other_keys"`
		} `json:"findings"`
	}
	if b, err := os.ReadFile(filepath.Join(dir, "known_findings.json")); err == nil && json.Unmarshal(b, &kf) == nil {
		for _, f := range kf.Findings {
			if f.Property == "C14" {
				out[f.Key] = true
				for _, k := range f.Other {
					out[k] = true
				}
			}
		}
	}
	return out
}

// funcvar.go: calls THROUGH VALUES OF FUNCTION TYPE whose holder is re-assigned in a later evaluation.
//
// fast/call0ret1.go, call1ret1.go, callnret0.go specialise a call site on the number and kind of the arguments and of
// the result, and on where the callee lives (local / outer / file scope); the file-scope variants cache the callee at the
// call site.  One history = one signature shape x one holder:
//
//	holder:  global `var f T = lit` / `f := lit` / `var f T` assigned later / field of a global struct / element of a
//	         global slice / global called and assigned through a pointer / local captured by closures
//	callers: three functions calling the holder from 0, 1 and 2 closures below their body, one calling it in a loop
//	history: declare; [call = warm the call sites]; assign version 2 at top level; call; assign version 3 from inside a
//	         function (or through the pointer); call; one function that calls, assigns version 4 and calls again
//	         in ONE evaluation; assign another variable's value; call
//
// every call is a read compared with compiled Go (the versions return different values).
package main

import (
	"fmt"
	"strings"

	"verifh/vh"
)

const funcvarKey = "corpus:C14-5-funcvar-call-site-cache"

type fvShape struct{ params, rets []string }

var fvParams = [][]string{{}, {"int"}, {"string"}, {"bool"}, {"float64"}, {"uint8"}, {"int", "int"}, {"int", "string"}, {"int", "int", "int"}}
var fvRets = [][]string{{}, {"int"}, {"string"}, {"bool"}, {"float64"}, {"uint8"}, {"[]int"}, {"int", "int"}}
var fvHolders = []string{"gvar", "gshort", "gzero", "ptr", "field", "slice", "local", "localdeep"}

// second finding repaired by C14-5: the uncached call of a func() value found three or more scopes up was off by one
const localDeepKey = "corpus:C14-5-call-of-local-func-three-scopes-up"

// holders whose call sites are affected while finding C14-5 is present
func fvAffected(holder string) bool {
	return holder == "gvar" || holder == "gshort" || holder == "gzero" || holder == "ptr"
}

func fvAllShapes() []fvShape {
	var out []fvShape
	for _, p := range fvParams {
		for _, r := range fvRets {
			out = append(out, fvShape{p, r})
		}
	}
	return out
}

func (sh fvShape) typ() string {
	var ps []string
	for i, p := range sh.params {
		ps = append(ps, fmt.Sprintf("a%d %s", i, p))
	}
	r := ""
	switch len(sh.rets) {
	case 0:
	case 1:
		r = " " + sh.rets[0]
	default:
		r = " (" + strings.Join(sh.rets, ", ") + ")"
	}
	return "func(" + strings.Join(ps, ", ") + ")" + r
}

// lit: version v of a function of this shape; out = name of the global int written by result-less versions
func (sh fvShape) lit(v int, out string) string {
	sum := "0"
	for i, p := range sh.params {
		switch p {
		case "int":
			sum += fmt.Sprintf(" + a%d", i)
		case "string":
			sum += fmt.Sprintf(" + len(a%d)", i)
		case "bool":
			sum += fmt.Sprintf(" + map[bool]int{true: 1}[a%d]", i)
		case "float64", "uint8":
			sum += fmt.Sprintf(" + int(a%d)", i)
		}
	}
	n := fmt.Sprintf("(%d + %s)", 1000*v, sum) // int, depends on the version and on every argument
	if len(sh.rets) == 0 {
		return fmt.Sprintf("%s { %s = %s }", sh.typ(), out, n)
	}
	var rs []string
	for _, r := range sh.rets {
		switch r {
		case "int":
			rs = append(rs, n)
		case "string":
			rs = append(rs, fmt.Sprintf("\"v%d\" + \"xxxxxxxxxxxx\"[:%s%%10]", v, n))
		case "bool":
			rs = append(rs, fmt.Sprintf("%s%%2 == %d", n, v%2))
		case "float64":
			rs = append(rs, fmt.Sprintf("float64(%s) + 0.5", n))
		case "uint8":
			rs = append(rs, fmt.Sprintf("uint8(%s%%100 + %d)", n, 10*v))
		case "[]int":
			rs = append(rs, fmt.Sprintf("[]int{%d, %s}", v, n))
		}
	}
	return fmt.Sprintf("%s { return %s }", sh.typ(), strings.Join(rs, ", "))
}

// args: constants (even k) or the argument globals (odd k)
func (sh fvShape) args(k int, argv map[string]string) string {
	var as []string
	for i, p := range sh.params {
		if (k+i)%2 == 1 {
			as = append(as, argv[p])
			continue
		}
		switch p {
		case "int":
			as = append(as, fmt.Sprint(3+i))
		case "string":
			as = append(as, "\"abc\"")
		case "bool":
			as = append(as, "true")
		case "float64":
			as = append(as, "2.5")
		case "uint8":
			as = append(as, "9")
		}
	}
	return strings.Join(as, ", ")
}

// caller: func name() R { ... callee(args) ... } with the call `depth` closures below the body (depth 3 = in a loop).
// The caller returns ONE printable value: the result, the int written by a result-less callee, or the sum of two results.
func (sh fvShape) caller(name, callee, args string, depth int, out string) string {
	call := fmt.Sprintf("%s(%s)", callee, args)
	rt, body := "int", ""
	switch len(sh.rets) {
	case 0:
		body = fmt.Sprintf("%s; return %s", call, out)
	case 1:
		rt, body = sh.rets[0], "return "+call
	default:
		body = fmt.Sprintf("x, y := %s; return x*3 + y", call)
	}
	switch depth {
	case 1:
		body = fmt.Sprintf("h := func() %s { %s }; return h()", rt, body)
	case 2:
		body = fmt.Sprintf("h := func() %s { k := func() %s { %s }; return k() }; return h()", rt, rt, body)
	case 3:
		if len(sh.rets) == 0 {
			body = fmt.Sprintf("for i := 0; i < 3; i++ { %s }; return %s", call, out)
		} else if len(sh.rets) == 1 {
			body = fmt.Sprintf("var r %s; for i := 0; i < 3; i++ { r = %s }; return r", rt, call)
		} else {
			body = fmt.Sprintf("r := 0; for i := 0; i < 3; i++ { x, y := %s; r += x*3 + y }; return r", call)
		}
	}
	return fmt.Sprintf("func %s() %s { %s }", name, rt, body)
}

func (g *gen) fvStmt(src, kind string, model string, decl ...int) {
	g.add(&step{Src: src, GoBody: g.goText(src), Model: []string{model}, Decl: decl, Kind: kind})
}

// fvDecl: a top-level declaration that compiled Go needs at package level (functions) or as `var name T` + assignment
func (g *gen) fvFunc(prefix, text string, kind string) string {
	id := g.id()
	name := fmt.Sprintf("%s_%d", prefix, id)
	g.h.names[id] = name
	src := strings.ReplaceAll(text, "$", name)
	g.add(&step{Src: src, GoDecl: g.goText(src), Decl: []int{id}, Model: []string{fmt.Sprintf("SFunc %d 0 true", id)}, Kind: kind})
	return name
}

func (g *gen) fvVar(prefix string, t *typ, init string, short bool, kind string, me string) *variable {
	v := g.newVar(prefix, t)
	g.vars = append(g.vars, v)
	src := fmt.Sprintf("var %s %s = %s", v.gm, t.gm, init)
	if short {
		src = fmt.Sprintf("%s := %s", v.gm, init)
	}
	st := &step{Src: src, GoDecl: fmt.Sprintf("var %s %s", v.goNm, g.goText(t.goName)), Decl: []int{v.id}, Kind: kind,
		Model: []string{fmt.Sprintf("SVar %d %s (%s)", v.id, kindOf(t), me)}}
	if init == "" {
		st.Src = fmt.Sprintf("var %s %s", v.gm, t.gm)
	} else {
		st.GoBody = fmt.Sprintf("%s = %s", v.goNm, g.goText(init))
	}
	g.add(st)
	return v
}

// localDeep: a LOCAL variable of function type, assigned and called from `d` blocks (each with its own local) below its declaration
func (sh fvShape) localDeep(name string, d int, args, out string) string {
	c := sh.caller("", "f", args, 0, out)
	rt, body := c[len("func () "):strings.Index(c, " {")], c[strings.Index(c, "{")+2:len(c)-2]
	body = fmt.Sprintf("f = %s; %s", sh.lit(2, out), body)
	for k := d; k >= 1; k-- {
		body = fmt.Sprintf("{ b%d := %d; _ = b%d; %s }", k, k, k, body)
	}
	return fmt.Sprintf("func %s() %s { f := %s; _ = f; %s }", name, rt, sh.lit(1, out), body)
}

func genFuncVar(r *vh.Rng, idx int, sh fvShape, holder string, maxDeep int) *history {
	h := &history{Idx: idx, Core: false, names: map[int]string{}, FuncVar: fmt.Sprintf("%s:%s", holder, sh.typ())}
	g := &gen{r: r, h: h, hidx: idx, vers: map[string]int{}, maxBit: 8}
	kind := "fv:" + holder
	boxed := func(gm string) *typ { return &typ{gm: gm, goName: gm, kind: "KBox", cat: "func"} }
	// the int written by result-less versions, the argument globals, the helper
	out := g.fvVar("out", tInt, "0", false, kind+":setup", "EZ 0")
	argv := map[string]string{}
	for _, p := range []struct{ t, init string }{{"int", "11"}, {"string", "\"hello\""}, {"bool", "true"}, {"float64", "7.25"}, {"uint8", "200"}} {
		for _, q := range sh.params {
			if q == p.t && argv[q] == "" {
				t := typOf(p.t)
				argv[q] = g.fvVar("arg", t, p.init, false, kind+":setup", "EZ 0").gm
			}
		}
	}
	ft := boxed(sh.typ())
	lit := func(v int) string { return sh.lit(v, out.gm) }
	if holder == "localdeep" {
		for d := 0; d <= maxDeep; d++ {
			t := g.fvFunc("t", sh.localDeep("$", d, sh.args(d, argv), out.gm), fmt.Sprintf("%s:depth%d", kind, d))
			g.add(&step{Src: t + "()", GoRead: g.goText(t + "()"), Model: []string{"SNop"}, Kind: fmt.Sprintf("%s:call:depth%d", kind, d)})
		}
		return h
	}

	// ---- the holder: `callee` is the expression called, assign(v) the top-level statement storing version v
	var callee string
	var assign func(v int, how string)
	var fv *variable
	switch holder {
	case "gvar", "gshort", "gzero", "ptr":
		switch holder {
		case "gshort":
			fv = g.fvVar("f", ft, lit(1), true, kind+":holder", "EZ 0")
		case "gzero":
			fv = g.fvVar("f", ft, "", false, kind+":holder", "EZ 0")
			g.fvStmt(fmt.Sprintf("%s = %s", fv.gm, lit(1)), kind+":assign", fmt.Sprintf("SSet %d (EZ 0)", fv.id))
		default:
			fv = g.fvVar("f", ft, lit(1), false, kind+":holder", "EZ 0")
		}
		callee = fv.gm
		assign = func(v int, how string) {
			g.fvStmt(fmt.Sprintf("%s = %s", fv.gm, lit(v)), kind+":assign"+how, fmt.Sprintf("SSet %d (EZ 0)", fv.id))
		}
		if holder == "ptr" {
			fv.deps = true
			pf := g.fvVar("pf", ptrTo(ft), "&"+fv.gm, true, kind+":holder", fmt.Sprintf("EAddr %d", fv.id))
			assign = func(v int, how string) {
				g.fvStmt(fmt.Sprintf("*%s = %s", pf.gm, lit(v)), kind+":assign-through-pointer"+how, fmt.Sprintf("SStore (EV %d) (EZ 0)", pf.id))
			}
			if r.Chance(1, 2) {
				callee = "(*" + pf.gm + ")"
			}
		}
	case "field":
		st := boxed("struct{ N int; F " + sh.typ() + " }")
		fv = g.fvVar("s", st, st.gm+"{1, "+lit(1)+"}", r.Chance(1, 2), kind+":holder", "EZ 0")
		callee = fv.gm + ".F"
		assign = func(v int, how string) {
			g.fvStmt(fmt.Sprintf("%s.F = %s", fv.gm, lit(v)), kind+":assign"+how, "SNop")
		}
	case "slice":
		st := boxed("[]" + sh.typ())
		fv = g.fvVar("fs", st, st.gm+"{nil, "+lit(1)+"}", r.Chance(1, 2), kind+":holder", "EZ 0")
		callee = fv.gm + "[1]"
		assign = func(v int, how string) {
			g.fvStmt(fmt.Sprintf("%s[1] = %s", fv.gm, lit(v)), kind+":assign"+how, "SNop")
		}
	case "local":
		// a local captured by two closures: the caller and the setter
		ct, stt := "func() int", "func(f "+sh.typ()+")"
		if len(sh.rets) == 1 {
			ct = "func() " + sh.rets[0]
		}
		pt := boxed("struct{ G " + ct + "; S " + stt + " }")
		inner := sh.caller("", "f", sh.args(0, argv), 0, out.gm)
		mk := g.fvFunc("mk", fmt.Sprintf("func $() %s { f := %s; return %s{%s, %s { f = g }} }", pt.gm, lit(1), pt.gm, inner, strings.Replace(stt, "(f ", "(g ", 1)), kind+":holder")
		fv = g.fvVar("p", pt, mk+"()", true, kind+":holder", "EZ 0")
		callee = ""
		assign = func(v int, how string) {
			g.fvStmt(fmt.Sprintf("%s.S(%s)", fv.gm, lit(v)), kind+":assign"+how, "SNop")
		}
	}
	// ---- the callers
	var callers []string
	if holder == "local" {
		callers = []string{fv.gm + ".G()"}
	} else {
		for d := 0; d <= 3; d++ {
			if d == 2 && maxDeep < 3 && fvAffected(holder) {
				// while the off-by-one of call0ret0 (C14-6) is present: a global func() called from two closures below
				// a function body is left to the corpus replay (localDeepKey)
				continue
			}
			callers = append(callers, g.fvFunc("g", sh.caller("$", callee, sh.args(d, argv), d, out.gm), fmt.Sprintf("%s:caller:depth%d", kind, d))+"()")
		}
	}
	reads := func(tag string) {
		for i, c := range callers {
			g.add(&step{Src: c, GoRead: g.goText(c), Model: []string{"SNop"}, Kind: fmt.Sprintf("%s:call:%s:caller%d", kind, tag, i)})
		}
	}
	// ---- the history
	if r.Chance(3, 4) {
		reads("v1") // warm: the call sites have executed once (the reported history); else the first call follows an assignment
	}
	assign(2, "")
	reads("after-top-level-assignment")
	if holder != "local" && holder != "ptr" {
		// version 3 is stored by a function
		var set string
		switch holder {
		case "field":
			set = g.fvFunc("set", fmt.Sprintf("func $() { %s.F = %s }", fv.gm, lit(3)), kind+":setter")
		case "slice":
			set = g.fvFunc("set", fmt.Sprintf("func $() { %s[1] = %s }", fv.gm, lit(3)), kind+":setter")
		default:
			set = g.fvFunc("set", fmt.Sprintf("func $() { %s = %s }", fv.gm, lit(3)), kind+":setter")
		}
		g.fvStmt(set+"()", kind+":assign-in-function", "SNop")
	} else {
		assign(3, "-again")
	}
	reads("after-assignment-in-function")
	if holder != "local" && len(sh.rets) == 1 && sh.rets[0] == "int" {
		// call, assign, call in ONE evaluation
		store := fmt.Sprintf("%s = %s", callee, lit(4))
		one := g.fvFunc("one", fmt.Sprintf("func $() int { a := %s; %s; return a%%1000*7 + %s%%100000 }", callers[0], store, callers[2]), kind+":one-evaluation")
		g.add(&step{Src: one + "()", GoRead: g.goText(one + "()"), Model: []string{"SNop"}, Kind: kind + ":call:one-evaluation"})
		reads("after-one-evaluation")
	}
	if holder == "gvar" || holder == "gshort" || holder == "gzero" {
		// the value of another variable; then nil and back (the call sites are not executed while nil)
		f2 := g.fvVar("f", ft, lit(5), false, kind+":holder2", "EZ 0")
		g.fvStmt(fmt.Sprintf("%s = %s", fv.gm, f2.gm), kind+":assign-variable", fmt.Sprintf("SSet %d (EZ 0)", fv.id))
		reads("after-assignment-of-variable")
		g.fvStmt(fmt.Sprintf("%s, %s = %s, %s", fv.gm, f2.gm, lit(6), fv.gm), kind+":assign-swap", "SNop")
		reads("after-swap")
	}
	return h
}

// funcVarHistories: quick tier = every shape for the plain global holder, 10 random shapes for each other holder;
// thorough = every shape x every holder.  While finding C14-5 is present the affected holders are left to the corpus replay.
func funcVarHistories(r *vh.Rng, first int, thorough, defect, deepDefect bool) []*history {
	var out []*history
	shapes := fvAllShapes()
	for _, holder := range fvHolders {
		if defect && fvAffected(holder) {
			continue
		}
		list := shapes
		if !thorough && holder != "gvar" && holder != "localdeep" {
			list = nil
			for n := 0; n < 10; n++ {
				list = append(list, shapes[r.Intn(len(shapes))])
			}
		}
		for _, sh := range list {
			maxDeep := 5
			if deepDefect && len(sh.params) == 0 && len(sh.rets) == 0 {
				maxDeep = 2
			}
			out = append(out, genFuncVar(r.Fork(), first+len(out), sh, holder, maxDeep))
		}
	}
	return out
}

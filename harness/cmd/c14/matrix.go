// matrix histories: the per-kind / per-depth specialisations behind REPL globals.
//
// fast/address.go (Var.Address) and fast/var_ops.go, var_shifts.go ... are generated code specialised per
// reflect.Kind, per storage class (IntBind slot of Env.Ints / boxed reflect.Value in Env.Vals) and per number of
// scopes between the statement and the file scope (upn 0, 1, 2, FileEnv).  A matrix history therefore
//
//  1. declares a global g of ONE int-like kind K (16 kinds) plus the IntBind operands of its operator sweep,
//  2. takes exactly ONE address &g, from `depth` scopes below the file scope (0: top level; >=1: inside a function
//     and/or nested blocks with locals, closures, for/if/switch headers with := - every one of them is a run-time Env),
//  3. declares int-like globals (one or several names per evaluation, one statement per evaluation) until the 1024
//     slots of Env.Ints are used up and a few more (these are boxed),
//  4. stores through the pointer / assigns the global and reads both ways,
//  5. declares late (boxed) globals and runs its share of the operator sweep: every compound assignment operator,
//     ++ and --, with a constant and with a variable operand, on IntBind and on boxed globals, from depth 0..3.
//
// Everything is compared with the same statements compiled by Go (oracle in main.go); the slot layout, IntAddressTaken
// and the classes of all declared names are compared with the Coq model.
package main

import (
	"fmt"
	"regexp"
	"strings"

	"verifh/vh"
)

var extraTypes = map[string]*typ{}

// typOf returns the (unique) *typ of an int-like kind name
func typOf(name string) *typ {
	for _, t := range basicTypes {
		if t.gm == name {
			return t
		}
	}
	if t, ok := extraTypes[name]; ok {
		return t
	}
	t := &typ{gm: name, goName: name, kind: "KInt1"}
	switch {
	case strings.HasPrefix(name, "uint"):
		t.cat = "uint"
	case strings.HasPrefix(name, "int"):
		t.cat = "int"
	default:
		panic("typOf: " + name)
	}
	extraTypes[name] = t
	return t
}

var intLikeNames = []string{"bool", "int", "int8", "int16", "int32", "int64", "uint", "uint8", "uint16", "uint32", "uint64", "uintptr",
	"float32", "float64", "complex64", "complex128"}

func slotsOf(t *typ) int {
	if t.kind == "KCplx" {
		return 2
	}
	return 1
}

// literal of type t (valid as a typed constant initialiser in Go and gomacro)
func litOf(r *vh.Rng, t *typ) string {
	n := r.Intn(100) + 1
	switch t.cat {
	case "bool":
		return fmt.Sprint(n%2 == 0)
	case "int":
		if r.Chance(1, 3) {
			return fmt.Sprintf("-%d", n)
		}
		return fmt.Sprint(n)
	case "uint":
		return fmt.Sprint(n + r.Intn(100))
	case "float":
		return fmt.Sprintf("%d.%s", n, pick(r, []string{"25", "5", "75", "0"}))
	case "complex":
		return fmt.Sprintf("complex(%d, %d)", n, r.Intn(9)+1)
	}
	panic("litOf " + t.gm)
}

// ---------------------------------------------------------------- nesting

// one layer = one run-time Env between the core statement and the enclosing scope
func layer(shape, n int, core string) string {
	switch shape {
	case 0:
		return fmt.Sprintf("{ a%d := %d; %s; _ = a%d }", n, n, core, n)
	case 1:
		return fmt.Sprintf("func() { %s }()", core)
	case 2:
		return fmt.Sprintf("for i%d := 0; i%d < 1; i%d++ { %s }", n, n, n, core)
	case 3:
		return fmt.Sprintf("if a%d := %d; a%d > 0 { %s }", n, n, n, core)
	default:
		return fmt.Sprintf("switch a%d := %d; a%d { case %d: %s }", n, n, n, n, core)
	}
}

// nest wraps core into `layers` environments; topLevel: the outermost layer must be a statement the REPL accepts
func nest(r *vh.Rng, layers int, core string, topLevel bool) string {
	for n := layers; n >= 1; n-- {
		shape := r.Intn(5)
		if n == 1 && topLevel && shape == 1 {
			shape = 0
		}
		core = layer(shape, n, core)
	}
	return core
}

var globalNameRe = regexp.MustCompile(`\b[A-Za-z]+_\d+\b`)

// goText renames the globals of a gomacro text to their names in the Go program
func (g *gen) goText(s string) string {
	return globalNameRe.ReplaceAllString(s, fmt.Sprintf("${0}_h%d", g.hidx))
}

// ---------------------------------------------------------------- pieces of a matrix history

func (g *gen) mxDecl(prefix string, t *typ, init string, kind string) *variable {
	v := g.newVar(prefix, t)
	g.vars = append(g.vars, v)
	st := &step{Src: fmt.Sprintf("var %s %s = %s", v.gm, t.gm, init), GoDecl: fmt.Sprintf("var %s %s", v.goNm, t.goName),
		GoBody: fmt.Sprintf("%s = %s", v.goNm, init), Decl: []int{v.id}, Kind: kind,
		Model: []string{fmt.Sprintf("SVar %d %s (EZ 0)", v.id, kindOf(t))}}
	if g.r.Chance(1, 4) && t.cat != "complex" && t.cat != "float" {
		st.Src = fmt.Sprintf("%s := %s(%s)", v.gm, t.gm, init)
	}
	g.add(st)
	g.slots += slotsOf(t)
	return v
}

func (g *gen) mxRead(gm string, kind string) {
	g.add(&step{Src: gm, GoRead: g.goText(gm), Model: []string{"SNop"}, Kind: kind})
}

// takes &target from `depth` scopes below the file scope and leaves it in a new global pointer variable
func (g *gen) mxAddress(target *variable, depth int) *variable {
	pt := ptrTo(target.t)
	kind := fmt.Sprintf("mx:addr:%s:depth%d", target.t.gm, depth)
	target.deps = true
	p := g.newVar("p", pt)
	g.vars = append(g.vars, p)
	declP := func(init, me string) {
		st := &step{GoDecl: fmt.Sprintf("var %s %s", p.goNm, pt.goName), Decl: []int{p.id}, Kind: kind,
			Model: []string{fmt.Sprintf("SVar %d %s (%s)", p.id, kindOf(pt), me)}}
		if init == "" {
			st.Src = fmt.Sprintf("var %s %s", p.gm, pt.gm)
		} else {
			st.Src = fmt.Sprintf("%s := %s", p.gm, init)
			if g.r.Bool() {
				st.Src = fmt.Sprintf("var %s %s = %s", p.gm, pt.gm, init)
			}
			st.GoBody = fmt.Sprintf("%s = %s", p.goNm, g.goText(init))
		}
		g.add(st)
	}
	switch {
	case depth == 0:
		declP("&"+target.gm, fmt.Sprintf("EAddr %d", target.id))
	case g.r.Chance(1, 3):
		// top-level statement with nested scopes
		declP("", "EZ 0")
		src := nest(g.r, depth, fmt.Sprintf("%s = &%s", p.gm, target.gm), true)
		g.add(&step{Src: src, GoBody: g.goText(src), Kind: kind, Model: []string{fmt.Sprintf("SSet %d (EAddr %d)", p.id, target.id)}})
	default:
		// a function (one Env) with depth-1 nested scopes
		fid := g.id()
		fname := fmt.Sprintf("af_%d", fid)
		g.h.names[fid] = fname
		var body string
		switch {
		case depth == 1 && g.r.Bool():
			body = fmt.Sprintf("return &%s", target.gm)
		case g.r.Bool():
			body = fmt.Sprintf("var r *%s; %s; return r", target.t.gm, nest(g.r, depth-1, "r = &"+target.gm, false))
		default:
			body = nest(g.r, depth-1, "r = &"+target.gm, false) + "; return"
		}
		sig := fmt.Sprintf("() *%s", target.t.gm)
		if strings.HasSuffix(body, "; return") {
			sig = fmt.Sprintf("() (r *%s)", target.t.gm)
		}
		src := fmt.Sprintf("func %s%s { %s }", fname, sig, body)
		g.add(&step{Src: src, GoDecl: g.goText(src), Decl: []int{fid}, Kind: kind, Model: []string{fmt.Sprintf("SFunc %d 0 true", fid)}})
		declP(fname+"()", fmt.Sprintf("EAddr %d", target.id))
	}
	return p
}

// declarations (one statement per evaluation, 1..width names each) until `upto` Ints slots are in use
func (g *gen) mxBulk(upto, width int) {
	for g.slots < upto {
		t := typOf(pick(g.r, intLikeNames))
		w := 1
		if width > 1 {
			w = 1 + g.r.Intn(width)
		}
		var names, goNames, inits, model []string
		var ids []int
		withInit := g.r.Chance(2, 3)
		for i := 0; i < w; i++ {
			v := g.newVar("b", t)
			g.vars = append(g.vars, v)
			names, goNames, ids = append(names, v.gm), append(goNames, v.goNm), append(ids, v.id)
			inits = append(inits, litOf(g.r, t))
			model = append(model, fmt.Sprintf("SVar %d %s (EZ 0)", v.id, kindOf(t)))
			g.slots += slotsOf(t)
		}
		st := &step{GoDecl: fmt.Sprintf("var %s %s", strings.Join(goNames, ", "), t.goName), Decl: ids, Model: model, Kind: "bulk"}
		if withInit {
			st.Src = fmt.Sprintf("var %s %s = %s", strings.Join(names, ", "), t.gm, strings.Join(inits, ", "))
			st.GoBody = fmt.Sprintf("%s = %s", strings.Join(goNames, ", "), strings.Join(inits, ", "))
		} else {
			st.Src = fmt.Sprintf("var %s %s", strings.Join(names, ", "), t.gm)
		}
		g.add(st)
	}
}

// ---------------------------------------------------------------- operator sweep

type combo struct {
	kind  string // int-like kind name
	op    string // "+=" ... "++" "--"
	expr  bool   // variable operand (else constant)
	depth int    // scopes between the statement and the file scope
	boxed bool   // the global is declared after the Ints capacity is exhausted
}

var binOps = []string{"+=", "-=", "*=", "/=", "%=", "&=", "|=", "^=", "&^=", "<<=", ">>="}

func opsFor(t *typ) []string {
	switch t.cat {
	case "int", "uint":
		return binOps
	case "float", "complex":
		return binOps[:4]
	}
	return nil
}

func allCombos() []combo {
	var out []combo
	for _, k := range intLikeNames {
		t := typOf(k)
		for _, boxed := range []bool{false, true} {
			for depth := 0; depth <= 3; depth++ {
				for _, op := range opsFor(t) {
					out = append(out, combo{k, op, false, depth, boxed}, combo{k, op, true, depth, boxed})
				}
				if t.cat != "bool" {
					out = append(out, combo{k, "++", false, depth, boxed}, combo{k, "--", false, depth, boxed})
				}
			}
		}
	}
	return out
}

// constant operand for `x op= c`: a plain one (the general closure) or one of the values the compiler special-cases
// (0, 1, -1, powers of two: no-op / negation / shift shortcuts)
func constFor(r *vh.Rng, t *typ, op string, special bool) string {
	signed := t.cat == "int"
	var plain, spec, specSigned, plainSigned []string
	switch t.cat {
	case "float":
		plain, spec = []string{"1.5", "3", "-2.25", "0.5", "7"}, []string{"1", "2", "-1", "8"}
		if op != "/=" {
			spec = append(spec, "0")
		}
	case "complex":
		plain, spec = []string{"(1+2i)", "0.5i", "(3-1i)", "3"}, []string{"1", "2", "-1"}
		if op != "/=" {
			spec = append(spec, "0")
		}
	default:
		switch op {
		case "+=", "-=":
			plain, spec, plainSigned, specSigned = []string{"3", "7", "100"}, []string{"0", "1", "2"}, []string{"-5"}, []string{"-1", "-8"}
		case "*=":
			plain, spec, plainSigned, specSigned = []string{"3", "5", "7"}, []string{"0", "1", "2", "8"}, []string{"-3"}, []string{"-1"}
		case "/=", "%=":
			plain, spec, plainSigned, specSigned = []string{"3", "7", "10"}, []string{"1", "2", "8", "16", "64"}, []string{"-3"}, []string{"-1", "-8"}
		case "<<=", ">>=":
			plain, spec = []string{"2", "3", "5"}, []string{"0", "1", "7", "9", "33", "64"}
		default:
			plain, spec, plainSigned, specSigned = []string{"3", "0x55", "6", "0x7e"}, []string{"0", "1", "0x7f"}, []string{"-16", "-86"}, []string{"-1"}
		}
		if signed {
			plain, spec = append(plain, plainSigned...), append(spec, specSigned...)
		}
	}
	if special {
		return pick(r, spec)
	}
	return pick(r, plain)
}

type sweepVars struct {
	x  *variable // the variable operated on
	o  *variable // operand of the same kind (never modified, non-zero)
	sh *variable // shift count (uint, never modified)
}

// mxSweepVars declares the variables one storage class of a kind needs
func (g *gen) mxSweepVars(t *typ, prefix string) *sweepVars {
	sv := &sweepVars{}
	sv.x = g.mxDecl(prefix+"x", t, litOf(g.r, t), "mx:sweep-var")
	o := litOf(g.r, t)
	if t.cat == "int" || t.cat == "uint" {
		o = fmt.Sprint(1 + g.r.Intn(9))
	}
	sv.o = g.mxDecl(prefix+"o", t, o, "mx:sweep-var")
	if t.cat == "int" || t.cat == "uint" {
		sv.sh = g.mxDecl(prefix+"s", typOf("uint"), fmt.Sprint(g.r.Intn(12)), "mx:sweep-var")
	}
	return sv
}

func (g *gen) mxSweep(c combo, sv *sweepVars) {
	t := sv.x.t
	storage := "intbind"
	if c.boxed {
		storage = "boxed"
	}
	form := "const"
	if c.expr {
		form = "var"
	}
	kind := fmt.Sprintf("mx:op:%s:%s:%s:%s:depth%d", c.op, t.gm, form, storage, c.depth)
	var stmts []string
	switch {
	case c.op == "++" || c.op == "--":
		stmts = []string{sv.x.gm + c.op}
	case !c.expr:
		// a plain constant and a special-cased one
		stmts = []string{fmt.Sprintf("%s %s %s", sv.x.gm, c.op, constFor(g.r, t, c.op, false)), fmt.Sprintf("%s %s %s", sv.x.gm, c.op, constFor(g.r, t, c.op, true))}
	case c.op == "<<=" || c.op == ">>=":
		stmts = []string{fmt.Sprintf("%s %s %s", sv.x.gm, c.op, sv.sh.gm)}
	default:
		stmts = []string{fmt.Sprintf("%s %s %s", sv.x.gm, c.op, sv.o.gm)}
	}
	for _, stmt := range stmts {
		// known start value
		init := litOf(g.r, t)
		g.add(&step{Src: fmt.Sprintf("%s = %s", sv.x.gm, init), GoBody: fmt.Sprintf("%s = %s", sv.x.goNm, init), Model: []string{"SNop"}, Kind: kind})
		switch {
		case c.depth == 0:
			g.add(&step{Src: stmt, GoBody: g.goText(stmt), Model: []string{"SNop"}, Kind: kind})
		case g.r.Chance(1, 3):
			src := nest(g.r, c.depth, stmt, true)
			g.add(&step{Src: src, GoBody: g.goText(src), Model: []string{"SNop"}, Kind: kind})
		default:
			fid := g.id()
			fname := fmt.Sprintf("m_%d", fid)
			g.h.names[fid] = fname
			src := fmt.Sprintf("func %s() { %s }", fname, nest(g.r, c.depth-1, stmt, false))
			g.add(&step{Src: src, GoDecl: g.goText(src), Decl: []int{fid}, Kind: kind, Model: []string{fmt.Sprintf("SFunc %d 0 true", fid)}})
			g.add(&step{Src: fname + "()", GoBody: g.goText(fname + "()"), Model: []string{"SNop"}, Kind: kind})
		}
		g.mxRead(sv.x.gm, kind)
	}
}

// ---------------------------------------------------------------- the history

type matrixSpec struct {
	kind   string
	depth  int
	width  int     // max names per bulk declaration (1 = one declaration per evaluation)
	combos []combo // its share of the operator sweep
}

func genMatrix(r *vh.Rng, idx int, spec matrixSpec) *history {
	h := &history{Idx: idx, Core: false, names: map[int]string{}, Matrix: fmt.Sprintf("%s:depth%d:width%d", spec.kind, spec.depth, spec.width)}
	g := &gen{r: r, h: h, hidx: idx, vers: map[string]int{}, maxBit: 8}
	t := typOf(spec.kind)
	gv := g.mxDecl("g", t, litOf(r, t), "mx:global")
	// IntBind variables of the operator sweep
	early, late := map[string]*sweepVars{}, map[string]*sweepVars{}
	for _, c := range spec.combos {
		if !c.boxed && early[c.kind] == nil {
			early[c.kind] = g.mxSweepVars(typOf(c.kind), "e")
		}
	}
	// a few unrelated declarations, then THE address
	for i := r.Intn(4); i > 0; i-- {
		ft := typOf(pick(r, intLikeNames))
		g.mxDecl("x", ft, litOf(r, ft), "mx:filler")
	}
	p := g.mxAddress(gv, spec.depth)
	h.Head = len(h.Steps)
	g.mxRead("*"+p.gm, "mx:read-through-pointer")
	// use up Env.Ints (cap 1024) and go a little beyond
	g.mxBulk(1024+4+r.Intn(40), spec.width)
	// the pointer must still alias the global
	ptrKind := fmt.Sprintf("mx:alias:%s:depth%d", spec.kind, spec.depth)
	g.add(&step{Src: fmt.Sprintf("*%s = %s", p.gm, litOf(r, t)), Kind: ptrKind, Model: []string{fmt.Sprintf("SStore (EV %d) (EZ 0)", p.id)}})
	h.Steps[len(h.Steps)-1].GoBody = g.goText(h.Steps[len(h.Steps)-1].Src)
	g.mxRead(gv.gm, ptrKind)
	g.add(&step{Src: fmt.Sprintf("%s = %s", gv.gm, litOf(r, t)), Kind: ptrKind, Model: []string{fmt.Sprintf("SSet %d (EZ 0)", gv.id)}})
	h.Steps[len(h.Steps)-1].GoBody = g.goText(h.Steps[len(h.Steps)-1].Src)
	g.mxRead("*"+p.gm, ptrKind)
	// late globals (boxed: no Ints slot is left) and the operator sweep
	for _, c := range spec.combos {
		if c.boxed && late[c.kind] == nil {
			late[c.kind] = g.mxSweepVars(typOf(c.kind), "l")
		}
	}
	for _, c := range spec.combos {
		if c.boxed {
			g.mxSweep(c, late[c.kind])
		} else {
			g.mxSweep(c, early[c.kind])
		}
	}
	// once more after everything else
	g.add(&step{Src: fmt.Sprintf("*%s = %s", p.gm, litOf(r, t)), Kind: ptrKind, Model: []string{fmt.Sprintf("SStore (EV %d) (EZ 0)", p.id)}})
	h.Steps[len(h.Steps)-1].GoBody = g.goText(h.Steps[len(h.Steps)-1].Src)
	g.mxRead(gv.gm, ptrKind)
	return h
}

// matrixSpecs: every kind x every depth; the operator sweep is dealt out over the histories (every combination
// `rounds` times in total)
func matrixSpecs(r *vh.Rng, depths []int, width int, rounds int) []matrixSpec {
	var specs []matrixSpec
	for _, k := range intLikeNames {
		for _, d := range depths {
			specs = append(specs, matrixSpec{kind: k, depth: d, width: width})
		}
	}
	for round := 0; round < rounds; round++ {
		cs := allCombos()
		for i := len(cs) - 1; i > 0; i-- {
			j := r.Intn(i + 1)
			cs[i], cs[j] = cs[j], cs[i]
		}
		for i, c := range cs {
			s := &specs[i%len(specs)]
			s.combos = append(s.combos, c)
		}
	}
	return specs
}

// multivar.go: `var a, b T = <ONE multi-valued expression>` with an explicit declared type T that is WIDER than (or merely
// assignable from) the types the expression yields - fast.Comp.DeclMultiVar0.  The variables must have the DECLARED static
// type in every later evaluation:
//
//	T            : interface{} | a named empty interface | a named interface with a method | a named slice type ([]int is
//	               assignable to it) | <-chan int (from chan int) | control: identical to the returned types
//	initialiser  : a call of a function with 2..3 results (ints, strings, floats, bools, slices, typed nil pointers, named
//	               types with methods) | for T = interface{}: comma-ok map index, comma-ok type assertion
//	names        : 2..3, optionally one blank
//	later        : x == nil; the dynamic type of x and the static type of &x (type switch in a helper: no import needed);
//	               assignment of a value of ANOTHER dynamic type; p := &x, *p = v; swap a, b = b, a; x = nil; a function
//	               declared later that reads/assigns the variables; method call through a method interface
//
// every read is compared with compiled Go (`var a, b T` at package level + `a, b = f()` in order).
package main

import (
	"fmt"
	"strings"

	"verifh/vh"
)

var mvDeclared = []string{"interface{}", "E", "Str", "L", "<-chan int", "same"}

type mvVal struct{ t, e string } // static type of a result, expression returned

func genMultiVar(r *vh.Rng, idx int, declared string, source string) *history {
	h := &history{Idx: idx, Core: false, names: map[int]string{}, FuncVar: fmt.Sprintf("multivar:%s:%s", declared, source)}
	g := &gen{r: r, h: h, hidx: idx, vers: map[string]int{}, maxBit: 8}
	kind := "mv:" + declared
	boxed := func(gm string) *typ { return &typ{gm: gm, goName: g.goText(gm), kind: "KBox", cat: "iface"} }
	typeDecl := func(prefix, body string) string {
		id := g.id()
		name := fmt.Sprintf("%s_%d", prefix, id)
		src := strings.ReplaceAll(body, "$", name)
		g.add(&step{Src: src, GoDecl: g.goText(src), Model: []string{"SNop"}, Kind: kind + ":setup-type"})
		return name
	}
	// W, V: struct types with different fields (gomacro gives a named non-struct type the reflect.Type of its underlying type,
	// so a type switch cannot tell `type W int` from int: outside this property); the helper has no case for a named
	// non-struct type either
	W := typeDecl("W", "type $ struct{ N int }")
	V := typeDecl("V", "type $ struct{ T string }")
	typeDecl("m", "func (w "+W+") S() string { return \"W\" }")
	typeDecl("m", "func (v "+V+") S() string { return \"V:\" + v.T }")
	Str := typeDecl("Str", "type $ interface { S() string }")
	E := typeDecl("E", "type $ interface{}")
	L := typeDecl("L", "type $ []int")
	var cases []string
	for _, t := range []string{"int", "string", "float64", "bool", "[]int", "chan int", "<-chan int", "interface{}", W, V} {
		if t != "interface{}" {
			cases = append(cases, fmt.Sprintf("case %s: return %q", t, strings.Split(t, "_")[0]))
		}
		cases = append(cases, fmt.Sprintf("case *%s: return %q", t, "*"+strings.Split(t, "_")[0]))
	}
	tn := g.fvFunc("tn", "func $(x interface{}) string { switch x.(type) { case nil: return \"nil\"; "+strings.Join(cases, "; ")+" }; return \"other\" }", kind+":setup")
	// a value of an interpreted interface type converted to interface{} keeps gomacro's emulation wrapper (the type switch
	// answers "other" even after `var s Str = W{1}`: outside this property), so method-interface variables are observed
	// through their method
	sv := g.fvFunc("sv", "func $(x "+Str+") string { if x == nil { return \"nil\" }; return x.S() }", kind+":setup")
	dyn := func(v string) string {
		if declared == "Str" {
			return fmt.Sprintf("%s(%s)", sv, v)
		}
		return fmt.Sprintf("%s(%s)", tn, v)
	}
	gi := g.fvVar("gi", tInt, "5", false, kind+":setup", "EZ 0")

	// ---- declared type, pool of values assignable to it
	ifacePool := []mvVal{{"int", "7"}, {"string", `"s"`}, {"float64", "2.5"}, {"bool", "true"}, {"[]int", "[]int{1, 2}"}, {"*int", "(*int)(nil)"},
		{"*int", "new(int)"}, {W, W + "{3}"}, {V, V + `{"v"}`}, {"*" + W, "(*" + W + ")(nil)"}}
	var T string
	var pool []mvVal
	nilable := true
	ptrObservable := declared == "interface{}" || declared == "<-chan int" // *T of a named non-struct T: see above
	switch declared {
	case "interface{}":
		T, pool = "interface{}", ifacePool
	case "E":
		T, pool = E, ifacePool
	case "Str":
		T, pool = Str, []mvVal{{W, W + "{3}"}, {V, V + `{"v"}`}, {"*" + W, "&" + W + "{5}"}, {W, W + "{4}"}, {V, V + `{"w"}`}}
	case "L":
		T, pool = L, []mvVal{{"[]int", "[]int{1, 2}"}, {"[]int", "nil"}, {"[]int", "[]int{3}"}, {L, L + "{4, 5}"}}
	case "<-chan int":
		T, pool = "<-chan int", []mvVal{{"chan int", "make(chan int, 1)"}, {"chan int", "nil"}, {"<-chan int", "make(chan int)"}}
	default:
		nilable = false
		if r.Bool() {
			T, pool = "int", []mvVal{{"int", "7"}, {"int", gi.gm + " + 1"}, {"int", "9"}}
		} else {
			T, pool = "string", []mvVal{{"string", `"s"`}, {"string", `"t"`}, {"string", `"uu"`}}
		}
	}
	tt := boxed(T)
	if T == "int" {
		tt = tInt
	} else if T == "string" {
		tt = typOf("string")
	}
	n := 2 + r.Intn(2)
	var init string
	var vals []mvVal
	switch source {
	case "map":
		n = 2
		m := g.fvVar("mm", boxed("map[int]string"), `map[int]string{1: "one"}`, false, kind+":setup", "EZ 0")
		init = fmt.Sprintf("%s[%d]", m.gm, r.Intn(2))
	case "assert":
		n = 2
		x := g.fvVar("xi", boxed("interface{}"), pick(r, []string{"7", `"s"`, "2.5"}), false, kind+":setup", "EZ 0")
		init = fmt.Sprintf("%s.(%s)", x.gm, pick(r, []string{"int", "string"}))
	default:
		var rt, re []string
		for i := 0; i < n; i++ {
			v := pick(r, pool)
			vals = append(vals, v)
			rt, re = append(rt, v.t), append(re, v.e)
		}
		mk := g.fvFunc("mk", fmt.Sprintf("func $() (%s) { return %s }", strings.Join(rt, ", "), strings.Join(re, ", ")), kind+":setup")
		init = mk + "()"
	}
	// ---- the declaration
	blank := -1
	if r.Chance(1, 4) {
		blank = r.Intn(n)
	}
	var vars []*variable
	var gmNames, goNames, goDecl, model []string
	var decl []int
	for i := 0; i < n; i++ {
		if i == blank {
			gmNames, goNames = append(gmNames, "_"), append(goNames, "_")
			continue
		}
		v := g.newVar(string(rune('a'+i)), tt)
		g.vars = append(g.vars, v)
		vars = append(vars, v)
		gmNames, goNames = append(gmNames, v.gm), append(goNames, v.goNm)
		goDecl = append(goDecl, v.goNm)
		decl = append(decl, v.id)
		model = append(model, fmt.Sprintf("SVar %d %s (EZ 0)", v.id, kindOf(tt)))
	}
	g.add(&step{Src: fmt.Sprintf("var %s %s = %s", strings.Join(gmNames, ", "), T, init),
		GoDecl: fmt.Sprintf("var %s %s", strings.Join(goDecl, ", "), g.goText(T)),
		GoBody: fmt.Sprintf("%s = %s", strings.Join(goNames, ", "), g.goText(init)), Decl: decl, Model: model, Kind: kind + ":decl:" + source})

	// ---- later evaluations
	read := func(src, tag string) {
		g.add(&step{Src: src, GoRead: g.goText(src), Model: []string{"SNop"}, Kind: kind + ":read:" + tag})
	}
	observe := func(tag string) {
		for _, v := range vars {
			if nilable && r.Chance(2, 3) {
				read(v.gm+" == nil", tag+":nil")
			}
			if declared == "L" { // a type switch cannot tell L from []int in gomacro (see above)
				read("len("+v.gm+")", tag+":len")
			} else if r.Chance(2, 3) {
				read(dyn(v.gm), tag+":dynamic-type")
			}
			if ptrObservable && r.Chance(2, 3) {
				read(fmt.Sprintf("%s(&%s)", tn, v.gm), tag+":pointer-type")
				v.deps = true
			}
			if declared == "Str" && r.Chance(1, 2) {
				read(fmt.Sprintf("%s != nil && %s.S() != \"\"", v.gm, v.gm), tag+":method")
			}
			if !nilable {
				read(v.gm, tag+":value")
			}
		}
	}
	observe("after-decl")
	other := func() string { return pick(r, pool).e }
	actions := []string{"assign", "pointer", "swap", "nil", "func", "assign"}
	for k, na := 0, 2+r.Intn(3); k < na; k++ {
		v := pick(r, vars)
		switch act := pick(r, actions); act {
		case "assign":
			g.fvStmt(fmt.Sprintf("%s = %s", v.gm, other()), kind+":assign", fmt.Sprintf("SSet %d (EZ 0)", v.id))
		case "pointer":
			if !nilable { // control histories (T = int / string): no address of an int global outside the model
				continue
			}
			v.deps = true
			p := g.fvVar("p", ptrTo(tt), "&"+v.gm, true, kind+":pointer", fmt.Sprintf("EAddr %d", v.id))
			if ptrObservable {
				read(fmt.Sprintf("%s(%s)", tn, p.gm), "pointer-var-type")
			}
			g.fvStmt(fmt.Sprintf("*%s = %s", p.gm, other()), kind+":store", fmt.Sprintf("SStore (EV %d) (EZ 0)", p.id))
		case "swap":
			if len(vars) < 2 {
				continue
			}
			g.fvStmt(fmt.Sprintf("%s, %s = %s, %s", vars[0].gm, vars[1].gm, vars[1].gm, vars[0].gm), kind+":swap", "SNop")
		case "nil":
			if !nilable {
				continue
			}
			g.fvStmt(fmt.Sprintf("%s = nil", v.gm), kind+":assign-nil", fmt.Sprintf("SSet %d (EZ 0)", v.id))
		case "func":
			if !nilable || declared == "L" {
				continue
			}
			w := pick(r, vars)
			second := dyn(w.gm)
			if ptrObservable {
				second = fmt.Sprintf("%s(&%s)", tn, w.gm)
			}
			f := g.fvFunc("use", fmt.Sprintf("func $() string { r := %s + \"/\" + %s; %s = %s; return r + \"/\" + %s }",
				dyn(v.gm), second, v.gm, other(), dyn(v.gm)), kind+":func")
			v.deps, w.deps = true, true
			read(f+"()", "call-of-later-function")
		}
		observe("after-" + fmt.Sprint(k))
	}
	return h
}

// finding C14-7 (proposed): `var a, b I = f()` where I is an INTERPRETED interface type with methods and f returns concrete
// types implementing it fails at run time (reflect.Value.Convert ... cannot be converted to type *struct {...}): DeclMultiVar0
// gives the variables the declared type but stores the returned values without converting them to the emulated interface.
const multiVarIfaceKey = "C14:multivar-declared-interpreted-interface"

var multiVarIfaceCanary = []string{"type Wc struct{ N int }", "func (w Wc) S() string { return \"W\" }", "type Sc interface { S() string }",
	"func mkc() (Wc, Wc) { return Wc{1}, Wc{2} }", "var ac, bc Sc = mkc()"}

// multiVarHistories: quick = 4 histories per declared type with a call + 6 comma-ok forms; thorough = 10x.
// skipStr: while the canary of finding C14-7 fails (and the finding is not registered as fixed) the method-interface class is
// left to the corpus replay
func multiVarHistories(r *vh.Rng, first int, thorough, skipStr bool) []*history {
	per := 4
	if thorough {
		per = 40
	}
	var out []*history
	for _, d := range mvDeclared {
		for k := 0; k < per; k++ {
			h := genMultiVar(r.Fork(), first+len(out), d, "call")
			if d == "Str" && skipStr {
				continue
			}
			out = append(out, h)
		}
	}
	for k := 0; k < per*3/2; k++ {
		out = append(out, genMultiVar(r.Fork(), first+len(out), pick(r, []string{"interface{}", "E"}), pick(r, []string{"map", "assert"})))
	}
	return out
}

package main

// Correspondence cases for Verif.C23.Model: the fork's observed token stream plus the results of the shared
// sub-scanners (harvested from a ScanComments run of the fork), rendered as Coq terms.

import (
	"bytes"
	"fmt"
	"go/token"
	"strings"
	"unicode"
	"unicode/utf8"

	"github.com/cosmos72/gomacro/go/etoken"
	"verifh/vh"
)

const caseHeader = "From Coq Require Import List NArith ZArith.\nFrom Verif Require Import Common.GoStr C23.Model.\nImport ListNotations.\nOpen Scope Z_scope."

func coqLit(s string) string {
	if s == "" {
		return "LNone"
	}
	return "(LStr " + vh.CoqStr(s) + ")"
}

func isLetterGo(ch rune) bool {
	return 'a' <= ch && ch <= 'z' || 'A' <= ch && ch <= 'Z' || ch == '_' || ch >= utf8.RuneSelf && unicode.IsLetter(ch)
}

func (h *harness) emitCase(src []byte, comments bool) {
	forkC := runFork(src, true)
	obs := forkC
	if !comments {
		obs = runFork(src, false)
	}
	if forkC.Panic != "" || forkC.Stuck || obs.Panic != "" || obs.Stuck {
		return
	}
	// characters as decoded by next(); a leading BOM is skipped by Init
	var chars []string
	letters := map[rune]bool{}
	for i := 0; i < len(src); {
		r, w := rune(src[i]), 1
		if r >= utf8.RuneSelf {
			r, w = utf8.DecodeRune(src[i:])
		}
		if !(i == 0 && r == 0xFEFF) {
			chars = append(chars, fmt.Sprintf("(%d,%d)", r, i))
		}
		if r >= utf8.RuneSelf && unicode.IsLetter(r) {
			letters[r] = true
		}
		i += w
	}
	var lets []string
	for r := range letters {
		lets = append(lets, fmt.Sprint(int(r)))
	}
	// sub-scanner results
	var subs []string
	add := func(key, tok int, lit string, end, nl int) {
		subs = append(subs, fmt.Sprintf("mkSub %d %d %s %d %d", key, tok, vh.CoqStr(lit), end, nl))
	}
	for _, t := range forkC.Toks {
		o := t.Off
		if o >= len(src) || isAutoSemi(t) {
			continue
		}
		b := src[o]
		r, _ := utf8.DecodeRune(src[o:])
		if b < utf8.RuneSelf {
			r = rune(b)
		}
		tk := token.Token(t.Tok)
		switch {
		case tk == token.COMMENT:
			if strings.HasPrefix(t.Lit, "/*") {
				end, nl := len(src), 0
				if i := bytes.Index(src[o+2:], []byte("*/")); i >= 0 {
					end = o + 2 + i + 2
				}
				if i := bytes.IndexByte(src[o:end], '\n'); i >= 0 {
					nl = o + i
				}
				add(o+1, t.Tok, t.Lit, end, nl)
			} else {
				end := len(src)
				if i := bytes.IndexByte(src[o:], '\n'); i >= 0 {
					end = o + i
				}
				add(o+1, t.Tok, t.Lit, end, 0)
			}
		case tk == token.STRING && b == '`':
			end := len(src)
			if i := bytes.IndexByte(src[o+1:], '`'); i >= 0 {
				end = o + 1 + i + 1
			}
			add(o+1, t.Tok, t.Lit, end, 0)
		case tk == token.STRING || tk == token.CHAR:
			add(o+1, t.Tok, t.Lit, o+len(t.Lit), 0)
		case isLetterGo(r):
			add(o, t.Tok, t.Lit, o+len(t.Lit), 0)
		case tk == token.INT || tk == token.FLOAT || tk == token.IMAG:
			add(o, t.Tok, t.Lit, o+len(t.Lit), 0)
		case r == macroChar:
			nx := byte(0)
			if o+1 < len(src) {
				nx = src[o+1]
			}
			if nx != '\'' && nx != '`' && nx != '"' && nx != ',' {
				add(o+1, t.Tok, t.Lit, o+1+len(t.Lit), 0)
			}
		}
	}
	// observed tokens
	errAt := map[int]bool{}
	for _, i := range obs.ErrAt {
		errAt[i] = true
	}
	var toks []string
	for i, t := range obs.Toks {
		lit := coqLit(t.Lit)
		if token.Token(t.Tok) == token.ILLEGAL && t.Off < len(src) && rune(src[t.Off]) != macroChar {
			r, _ := utf8.DecodeRuneInString(t.Lit)
			lit = fmt.Sprintf("(LChar %d)", r)
		}
		toks = append(toks, fmt.Sprintf("(%d,%d,%s,%s)", t.Off, t.Tok, lit, vh.CoqBool(errAt[i])))
	}
	cfg := fmt.Sprintf("(mkCfg %s false %d %s)", vh.CoqBool(comments), macroChar, vh.CoqBool(etoken.GENERICS == etoken.GENERICS_V1_CXX))
	h.cw.Add(fmt.Sprintf("mkCase %d %s %s %d %s %s %s", h.nc, cfg, vh.CoqList(chars, "chr"), len(src),
		vh.CoqList(lets, "Z"), vh.CoqList(subs, "subres"), vh.CoqList(toks, "(Z*Z*mlit*bool)")))
	h.rep.CaseInput(h.nc, input{Mode: modeName(comments), Src: fmt.Sprintf("%q", src), B: src, Gen: "case"})
	h.nc++
}

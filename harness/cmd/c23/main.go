// c23: direct oracle + correspondence for the forked scanner (go/scanner, go/etoken) against go1.23's go/scanner.
//
// Direct oracle (never consults the Coq model), evaluated for both scanner modes (comments skipped / ScanComments):
//
//	input uses no lexical extension (std token stream has no '~' token, no ILLEGAL "#", no identifier macro[/template])  ==>
//	  (fork reports >=1 error)  <=>  (std reports >=1 error), and, when std reports none,
//	  fork tokens == std tokens  (token number, literal, offset, line, column, //line-adjusted file:line:column, line table)
//	with the single allowance of the property text: comments skipped, the input's last bytes are a comment, then the
//	POSITION of the automatic semicolon in front of EOF may differ.
//
// Known finding C23-1/2/3 (DESIGN section 7 #14): a comment between a semicolon-inserting token and its line end.  Generated inputs are
// "defused" (an explicit ';' is inserted in front of such a comment run, located with the std scanner); the exact
// recorded inputs are replayed from corpus/C23.
// Correspondence: for inputs <= 200 bytes the fork's token stream is written to cases_NNN.v together with the
// sub-scanner results observed on the fork; Verif.C23.Model recomputes the dispatch.
package main

import (
	"bytes"
	"crypto/sha256"
	"encoding/hex"
	"encoding/json"
	"fmt"
	stdscan "go/scanner"
	"go/token"
	"os"
	"path/filepath"
	"runtime"
	"sort"
	"strings"
	"time"

	"github.com/cosmos72/gomacro/go/etoken"
	fscan "github.com/cosmos72/gomacro/go/scanner"
	"verifh/vh"
)

const macroChar = '~'
const fileName = "dir/input.go"

type T struct {
	Tok   int
	Lit   string
	Off   int
	Line  int
	Col   int
	AFile string
	ALine int
	ACol  int
}

func (t T) String() string {
	return fmt.Sprintf("%s %q @%d (%d:%d, %s:%d:%d)", etoken.String(token.Token(t.Tok)), t.Lit, t.Off, t.Line, t.Col, t.AFile, t.ALine, t.ACol)
}

type run struct {
	Toks  []T
	Errs  int   // error handler calls
	ErrAt []int // index of the Scan call during which the k-th error was reported
	Lines []int
	Panic string
	Stuck bool
}

func runStd(src []byte, comments bool) (r run) {
	fs := token.NewFileSet()
	f := fs.AddFile(fileName, fs.Base(), len(src))
	var s stdscan.Scanner
	var mode stdscan.Mode
	if comments {
		mode = stdscan.ScanComments
	}
	if p := vh.Catch(func() {
		s.Init(f, src, func(p token.Position, m string) { r.Errs++; r.ErrAt = append(r.ErrAt, len(r.Toks)) }, mode)
		for n := 0; ; n++ {
			pos, tok, lit := s.Scan()
			p0, p1 := fs.PositionFor(pos, false), fs.PositionFor(pos, true)
			r.Toks = append(r.Toks, T{int(tok), lit, f.Offset(pos), p0.Line, p0.Column, p1.Filename, p1.Line, p1.Column})
			if tok == token.EOF {
				break
			}
			if n > 2*len(src)+16 {
				r.Stuck = true
				break
			}
		}
		r.Lines = f.Lines()
	}); p != nil {
		r.Panic = fmt.Sprint(p)
	}
	return
}

func runFork(src []byte, comments bool) (r run) {
	fs := etoken.NewFileSet()
	f := fs.AddFile(fileName, fs.Base(), len(src), 0)
	var s fscan.Scanner
	var mode fscan.Mode
	if comments {
		mode = fscan.ScanComments
	}
	if p := vh.Catch(func() {
		s.Init(f, src, func(p token.Position, m string) { r.Errs++; r.ErrAt = append(r.ErrAt, len(r.Toks)) }, mode, macroChar)
		for n := 0; ; n++ {
			pos, tok, lit := s.Scan()
			p0, p1 := fs.PositionFor(pos, false), fs.PositionFor(pos, true)
			r.Toks = append(r.Toks, T{int(tok), lit, f.Offset(pos), p0.Line, p0.Column, p1.Filename, p1.Line, p1.Column})
			if tok == token.EOF {
				break
			}
			if n > 2*len(src)+16 {
				r.Stuck = true
				break
			}
		}
		r.Lines = f.File.Lines()
		if s.ErrorCount != r.Errs {
			r.Panic = fmt.Sprintf("ErrorCount %d != handler calls %d", s.ErrorCount, r.Errs)
		}
	}); p != nil {
		r.Panic = fmt.Sprint(p)
	}
	return
}

func extWords() map[string]bool {
	m := map[string]bool{"macro": true}
	if etoken.GENERICS == etoken.GENERICS_V1_CXX {
		m["template"] = true
	}
	return m
}

// usesExtension: decided on the STD token stream (comments mode): a '~' token, an ILLEGAL "#", or an identifier that is an extension word.
func usesExtension(std []T) bool {
	ext := extWords()
	for _, t := range std {
		switch token.Token(t.Tok) {
		case token.TILDE:
			return true
		case token.ILLEGAL:
			if t.Lit == "#" || t.Lit == string(rune(macroChar)) {
				return true
			}
		case token.IDENT:
			if ext[t.Lit] {
				return true
			}
		}
	}
	return false
}

func isAutoSemi(t T) bool { return token.Token(t.Tok) == token.SEMICOLON && t.Lit == "\n" }

// endsWithComment: the input's last bytes are a comment (std stream, comments mode).
func endsWithComment(src []byte, stdC []T) bool {
	i := len(stdC) - 1 // EOF
	if i > 0 && isAutoSemi(stdC[i-1]) {
		i--
	}
	if i == 0 || token.Token(stdC[i-1].Tok) != token.COMMENT {
		return false
	}
	c := stdC[i-1]
	if strings.HasPrefix(c.Lit, "//") {
		return bytes.IndexByte(src[c.Off:], '\n') < 0
	}
	return bytes.HasSuffix(src, []byte("*/")) && len(src)-c.Off >= 4
}

// commentRuns returns the offsets of the first comment of every run of comments that is directly followed by an
// automatic semicolon in the std stream (comments mode) = instances of the known-finding class.
// final = the instance whose semicolon directly precedes EOF (and only there the property grants the allowance).
func commentRuns(stdC []T) (starts []int, finalIdx int) {
	finalIdx = -1
	for i := 1; i < len(stdC); i++ {
		if isAutoSemi(stdC[i]) && token.Token(stdC[i-1].Tok) == token.COMMENT {
			j := i - 1
			for j > 0 && token.Token(stdC[j-1].Tok) == token.COMMENT {
				j--
			}
			if i+1 < len(stdC) && token.Token(stdC[i+1].Tok) == token.EOF {
				finalIdx = len(starts)
			}
			starts = append(starts, stdC[j].Off)
		}
	}
	return
}

// inClass: known-finding class for this mode (the allowed final-comment case in skip mode is not part of it).
func inClass(src []byte, stdC []T, comments bool) bool {
	starts, fin := commentRuns(stdC)
	n := len(starts)
	if !comments && fin >= 0 && endsWithComment(src, stdC) {
		n--
	}
	return n > 0
}

// defuse inserts an explicit ';' in front of every comment run of the class.
func defuse(src []byte, comments bool) []byte {
	for iter := 0; iter < 4; iter++ {
		stdC := runStd(src, true)
		if stdC.Panic != "" || stdC.Stuck {
			return src
		}
		starts, fin := commentRuns(stdC.Toks)
		keepFinal := !comments && fin >= 0 && endsWithComment(src, stdC.Toks)
		var out []byte
		last, changed := 0, false
		for i, o := range starts {
			if keepFinal && i == fin {
				continue
			}
			out = append(out, src[last:o]...)
			out = append(out, ';')
			last = o
			changed = true
		}
		if !changed {
			return src
		}
		out = append(out, src[last:]...)
		src = out
	}
	return src
}

type verdict struct {
	what      string
	got, want interface{}
}

// oracle applies the property to one input in one mode. compared=false when the sequence comparison was not applicable.
func oracle(src []byte, comments bool) (v *verdict, kind string) {
	stdC := runStd(src, true)
	std := stdC
	if !comments {
		std = runStd(src, false)
	}
	fork := runFork(src, comments)
	if std.Panic != "" || std.Stuck {
		return nil, "std-broken"
	}
	if fork.Panic != "" {
		return &verdict{"fork scanner panicked", fork.Panic, nil}, "panic"
	}
	if fork.Stuck {
		return &verdict{"fork scanner makes no progress", len(fork.Toks), nil}, "stuck"
	}
	if usesExtension(stdC.Toks) {
		return nil, "uses-extension"
	}
	if (fork.Errs > 0) != (std.Errs > 0) {
		return &verdict{"error reported by one scanner only", fmt.Sprintf("fork errors=%d", fork.Errs), fmt.Sprintf("std errors=%d", std.Errs)}, "err-mismatch"
	}
	if std.Errs > 0 {
		return nil, "both-error"
	}
	if inClass(src, stdC.Toks, comments) {
		// known finding class: compared only by the corpus stream
		return seqCompare(src, stdC.Toks, std, fork, comments), "class"
	}
	return seqCompare(src, stdC.Toks, std, fork, comments), "compared"
}

func seqCompare(src []byte, stdC []T, std, fork run, comments bool) *verdict {
	allow := !comments && endsWithComment(src, stdC)
	if len(std.Toks) != len(fork.Toks) {
		return &verdict{"token count differs", render(fork.Toks, 12), render(std.Toks, 12)}
	}
	for i := range std.Toks {
		a, b := fork.Toks[i], std.Toks[i]
		if a == b {
			continue
		}
		if allow && i == len(std.Toks)-2 && isAutoSemi(a) && isAutoSemi(b) {
			continue // the allowance: position of the automatic semicolon, for a comment that ends the input
		}
		lo := i - 3
		if lo < 0 {
			lo = 0
		}
		return &verdict{fmt.Sprintf("token %d differs", i), render(fork.Toks[lo:i+1], 4), render(std.Toks[lo:i+1], 4)}
	}
	if fmt.Sprint(std.Lines) != fmt.Sprint(fork.Lines) {
		return &verdict{"line table differs", fmt.Sprint(fork.Lines), fmt.Sprint(std.Lines)}
	}
	return nil
}

func render(ts []T, max int) []string {
	var out []string
	for i, t := range ts {
		if i >= max {
			out = append(out, "...")
			break
		}
		out = append(out, t.String())
	}
	return out
}

func modeName(comments bool) string {
	if comments {
		return "comments"
	}
	return "skip"
}

type input struct {
	Mode string `json:"mode"`
	Src  string `json:"src_quoted"` // strconv-quoted Go string
	B    []byte `json:"src"`        // exact bytes (base64 in JSON)
	Gen  string `json:"generator"`
}

func keyOf(src []byte, comments bool) string {
	if len(src) <= 300 {
		return fmt.Sprintf("mode=%s src=%q", modeName(comments), src)
	}
	h := sha256.Sum256(src)
	return fmt.Sprintf("mode=%s len=%d sha256=%s", modeName(comments), len(src), hex.EncodeToString(h[:8]))
}

// shrink: greedy chunk removal while the same kind of failure persists.
func shrink(src []byte, comments bool, deadline time.Time) []byte {
	fails := func(b []byte) bool { v, k := oracle(b, comments); return v != nil && k != "class" }
	if !fails(src) {
		return src
	}
	cur := append([]byte(nil), src...)
	for chunk := len(cur) / 2; chunk >= 1; chunk /= 2 {
		for i := 0; i+chunk <= len(cur) && time.Now().Before(deadline); {
			cand := append(append([]byte(nil), cur[:i]...), cur[i+chunk:]...)
			if fails(cand) {
				cur = cand
			} else {
				i += chunk
			}
		}
	}
	return cur
}

// ---------------------------------------------------------------- generators

var keywordsStd []string

var operators = []string{"+", "-", "*", "/", "%", "&", "|", "^", "<<", ">>", "&^", "+=", "-=", "*=", "/=", "%=", "&=", "|=", "^=", "<<=", ">>=", "&^=",
	"&&", "||", "<-", "++", "--", "==", "<", ">", "=", "!", "!=", "<=", ">=", ":=", "...", "(", "[", "{", ",", ".", ")", "]", "}", ";", ":"}

var idents = []string{"x", "y", "_", "foo", "Bar", "a1", "_9", "äöü", "日本語", "αβ", "x̂", "macros", "amacro", "templat", "breaks", "i", "e", "p", "if0", "nil", "true", "iota", "int", "string", "ŝ", "a𝔸"}

var strs = []string{`""`, `"a"`, `"\n\t\\\""`, `"\x41\101é\U0001F600"`, `"日本"`, "``", "`a\nb`", "`\\`", "`a\r\nb\r`", `'a'`, `'\''`, `'\n'`, `'\x41'`, `'\377'`, `'é'`, `'日'`, `"\xff"`, `'\000'`, `"/* no comment */"`, `"// no"`, "`//`", `"#"`, `"~"`, `"macro"`, "`#!`"}

var badStrs = []string{`"`, `"abc`, `"a\`, `'`, `''`, `'ab'`, `'\`, `'\x4'`, `'\400'`, `"\q"`, `"\x4g"`, `"\u12"`, `"\U00110000"`, `'\ud800'`, "`abc", `"a` + "\n" + `"`, `'a` + "\n", `"\`, `'\''''`, `'\x'`, `"\8"`}

var cmts = []string{"/**/", "/* a */", "/* a\nb */", "/*\n*/", "// c\n", "//\n", "// a\r\n", "/* a\r\nb */", "/*/ */", "/***/", "/* * / */", "//line f.go:10\n", "//line f.go:11\r\n", "//line f.go:12:3\r\n", "/*line g.go:3:4*/", "//line :7\n", "//line h.go:0\n", "//line k.go:12:0\n", "//line q.go:x\n", "//line r.go:1073741824\n", "//line r.go:5:1073741824\n", "/*line  w.go :12*/", "// 日本\n", "/* ~ # macro */", "// # ~ macro\n"}

var seps = []string{"", " ", " ", "  ", "\t", "\n", "\n", "\r\n", " \n ", "\n\n", "\r", "\n\t"}

func numLit(r *vh.Rng) string {
	digs := func(set string, under bool) string {
		n := r.Intn(5)
		var sb strings.Builder
		for i := 0; i < n; i++ {
			if under && r.Chance(1, 5) {
				sb.WriteByte('_')
			}
			sb.WriteByte(set[r.Intn(len(set))])
		}
		if under && r.Chance(1, 12) {
			sb.WriteByte('_')
		}
		return sb.String()
	}
	pfx := []string{"", "", "", "0", "0x", "0X", "0b", "0B", "0o", "0O", "00", "09", "08", "07", "0_", "0x_", "1", "9", "0b2", "0o8", "0xg", "0."}[r.Intn(22)]
	set := "0123456789"
	switch strings.ToLower(pfx) {
	case "0x", "0x_":
		set = "0123456789abcdefABCDEF"
		if r.Chance(1, 6) {
			set += "gG"
		}
	case "0b":
		set = "01"
		if r.Chance(1, 4) {
			set = "0123"
		}
	case "0o", "0", "00", "07":
		set = "01234567"
		if r.Chance(1, 4) {
			set = "0123456789"
		}
	}
	s := pfx + digs(set, r.Chance(1, 2))
	if r.Chance(2, 5) {
		s += "." + digs(set, r.Chance(1, 3))
	}
	if r.Chance(2, 5) {
		s += string("eEpP"[r.Intn(4)])
		if r.Chance(1, 2) {
			s += string("+-"[r.Intn(2)])
		}
		s += digs("0123456789", r.Chance(1, 4))
	}
	if r.Chance(1, 4) {
		s += "i"
	}
	if r.Chance(1, 10) {
		s += []string{"x", "e", "_", "p1", ".", "..", "...", "i", "b", "o7"}[r.Intn(10)]
	}
	if s == "" {
		s = "0"
	}
	return s
}

func pick(r *vh.Rng, xs []string) string { return xs[r.Intn(len(xs))] }

func soup(r *vh.Rng, maxTok int, bad bool) []byte {
	var sb strings.Builder
	if r.Chance(1, 25) {
		sb.WriteString("\ufeff")
	}
	n := 1 + r.Intn(maxTok)
	for i := 0; i < n; i++ {
		switch x := r.Intn(100); {
		case x < 22:
			sb.WriteString(pick(r, idents))
		case x < 32:
			sb.WriteString(pick(r, keywordsStd))
		case x < 57:
			sb.WriteString(pick(r, operators))
		case x < 70:
			sb.WriteString(numLit(r))
		case x < 80:
			sb.WriteString(pick(r, strs))
		case x < 90:
			sb.WriteString(pick(r, cmts))
		case x < 93 && bad:
			sb.WriteString(pick(r, badStrs))
		case x < 96 && bad:
			sb.WriteString(pick(r, []string{"\x00", "\xff", "\xc0\x80", "\ufeff", "@", "$", "?", "\\", "“", "”", "\xe2\x80", "\x7f", "\x01", "/*", "/* *"}))
		case x < 98 && bad:
			sb.WriteString(pick(r, []string{"#", "#!", "~", "macro", "~quote", "~'", "~,@", "template", "#!/bin/sh\n"}))
		default:
			sb.WriteString(pick(r, idents))
		}
		sb.WriteString(pick(r, seps))
	}
	return []byte(sb.String())
}

var interesting = []byte{0, 0xff, 0xef, 0xbb, 0xbf, '"', '`', '\'', '\\', '\n', '\r', '/', '*', '.', 'e', 'x', '_', '0', '9', 'i', 'p', '+', '-', ';', ' ', '{', '}', 0x80, 0xc3, 'b', 'o', '=', '<', '&', '^', ':'}

func mutateBytes(r *vh.Rng, b []byte) []byte {
	b = append([]byte(nil), b...)
	k := 1 + r.Intn(4)
	for i := 0; i < k && len(b) > 0; i++ {
		p := r.Intn(len(b))
		c := interesting[r.Intn(len(interesting))]
		if r.Chance(1, 4) {
			c = byte(r.Intn(256))
		}
		switch r.Intn(4) {
		case 0:
			b[p] = c
		case 1:
			b = append(b[:p], append([]byte{c}, b[p:]...)...)
		case 2:
			b = append(b[:p], b[p+1:]...)
		default: // truncate or duplicate a slice
			if r.Bool() {
				b = b[:p]
			} else {
				q := p + r.Intn(len(b)-p)
				b = append(b[:q], append(append([]byte(nil), b[p:q]...), b[q:]...)...)
			}
		}
	}
	return b
}

// mutateTokens: rescan a chunk with the std scanner and rebuild it from shuffled / dropped / duplicated / replaced tokens.
func mutateTokens(r *vh.Rng, b []byte) []byte {
	rs := runStd(b, true)
	if rs.Panic != "" || len(rs.Toks) < 3 {
		return b
	}
	type piece struct{ text, sep string }
	var ps []piece
	for i, t := range rs.Toks[:len(rs.Toks)-1] {
		if isAutoSemi(t) {
			continue
		}
		end := rs.Toks[i+1].Off
		if t.Off > end || end > len(b) {
			continue
		}
		seg := string(b[t.Off:end])
		trimmed := strings.TrimRight(seg, " \t\r\n")
		ps = append(ps, piece{trimmed, seg[len(trimmed):]})
	}
	if len(ps) < 2 {
		return b
	}
	k := 1 + r.Intn(4)
	for i := 0; i < k; i++ {
		p := r.Intn(len(ps))
		switch r.Intn(5) {
		case 0:
			q := r.Intn(len(ps))
			ps[p].text, ps[q].text = ps[q].text, ps[p].text
		case 1:
			ps = append(ps[:p], ps[p+1:]...)
			if len(ps) == 0 {
				return b
			}
		case 2:
			ps = append(ps[:p], append([]piece{ps[p]}, ps[p:]...)...)
		case 3:
			ps[p].text = []string{pick(r, operators), numLit(r), pick(r, strs), pick(r, cmts), pick(r, idents), pick(r, keywordsStd)}[r.Intn(6)]
		default:
			ps[p].sep = pick(r, seps)
		}
	}
	var sb strings.Builder
	for _, p := range ps {
		sb.WriteString(p.text)
		sb.WriteString(p.sep)
	}
	return []byte(sb.String())
}

func goFiles(roots []string) []string {
	var out []string
	for _, root := range roots {
		root, err := filepath.EvalSymlinks(root)
		if err != nil {
			continue
		}
		filepath.Walk(root, func(p string, info os.FileInfo, err error) error {
			if err != nil {
				return nil
			}
			if info.IsDir() && (info.Name() == ".git" || info.Name() == "node_modules") {
				return filepath.SkipDir
			}
			if !info.IsDir() && strings.HasSuffix(p, ".go") {
				out = append(out, p)
			}
			return nil
		})
	}
	sort.Strings(out)
	return out
}

// ---------------------------------------------------------------- main

// ---------------------------------------------------------------- line-ending variants
// crlf: Windows form of an input - every '\n' that is not already preceded by '\r' becomes "\r\n"
func crlf(b []byte) []byte {
	out := make([]byte, 0, len(b)+len(b)/16)
	for i, c := range b {
		if c == '\n' && (i == 0 || b[i-1] != '\r') {
			out = append(out, '\r')
		}
		out = append(out, c)
	}
	return out
}

// crMix: every '\n' independently stays, becomes "\r\n", "\r\r\n" or a lone "\r"; a few lone '\r' are inserted elsewhere
func crMix(r *vh.Rng, b []byte) []byte {
	out := make([]byte, 0, len(b)+len(b)/8)
	for _, c := range b {
		if c == '\n' {
			switch r.Intn(8) {
			case 0, 1, 2, 3:
				out = append(out, '\r', '\n')
			case 4:
				out = append(out, '\r', '\r', '\n')
			case 5:
				out = append(out, '\r')
			default:
				out = append(out, '\n')
			}
			continue
		}
		if r.Chance(1, 60) {
			out = append(out, '\r')
		}
		out = append(out, c)
	}
	return out
}

// checkLE checks an input and its line-ending variants (the CRLF form always when it differs; a mixed form for every third input)
func (h *harness) checkLE(r *vh.Rng, src []byte, gen string, doDefuse bool) {
	h.check(src, gen, doDefuse)
	if w := crlf(src); !bytes.Equal(w, src) {
		h.check(w, gen+"+crlf", doDefuse)
	}
	if r.Chance(1, 3) {
		if w := crMix(r, src); !bytes.Equal(w, src) {
			h.check(w, gen+"+crmix", doDefuse)
		}
	}
}

// lineDirectives: the product  context before x directive text x comment terminator x following tokens.
// Directive texts cover file:line, file:line:col, missing/empty/invalid/overflowing numbers, blanks, Windows paths
// containing ':', and the block form /*line ...*/ (also spanning lines); terminators are every line ending a source can
// have (LF, CRLF, CR CR LF, lone CR, end of input, blanks before the line end).
// escapeBoundaries: (escape form \\x \\ooo \\u \\U, exact / too few / too many digits, upper and lower case hex digits) x
// (every boundary value of the escape rules and its two neighbours: 0, 7F/80, FF/100, 377/400 octal, 7FF/800, the surrogate
// range D7FF D800 DBFF DC00 DFFF E000 E001, FFFD..FFFF, 10000, 10FFFF 110000, 7FFFFFFF 80000000 FFFFFFFF) x
// (rune literal, string literal alone / between other characters, raw string, two escapes in one literal, wrong quote escape)
func escapeBoundaries() [][]byte {
	seenV := map[uint64]bool{}
	var vals []uint64
	for _, b := range []uint64{0, 0x7F, 0x80, 0xFF, 0x100, 0x7FF, 0x800, 0xD7FF, 0xD800, 0xDBFF, 0xDC00, 0xDFFF, 0xE000, 0xE001, 0xFFFD, 0xFFFE, 0xFFFF, 0x10000,
		0x10FFFF, 0x110000, 0x7FFFFFFF, 0x80000000, 0xFFFFFFFF} {
		for _, v := range []uint64{b - 1, b, b + 1} {
			if v <= 0xFFFFFFFF && !seenV[v] {
				seenV[v] = true
				vals = append(vals, v)
			}
		}
	}
	var escs []string
	add := func(e string) {
		escs = append(escs, e)
		if u := strings.ToUpper(e[2:]); u != e[2:] {
			escs = append(escs, e[:2]+u)
		}
	}
	for _, v := range vals {
		if v <= 0xFF {
			add(fmt.Sprintf("\\x%02x", v))
		}
		if v <= 0x1FF {
			add(fmt.Sprintf("\\%03o", v))
		}
		if v <= 0xFFFF {
			add(fmt.Sprintf("\\u%04x", v))
			add(fmt.Sprintf("\\u%03x", v>>4)) // too few digits
			add(fmt.Sprintf("\\u%04x0", v))   // a digit after the escape
			add(fmt.Sprintf("\\U%04x", v))    // \\U with 4 digits
		}
		add(fmt.Sprintf("\\U%08x", v))
		add(fmt.Sprintf("\\U%07x", v>>4))
	}
	escs = append(escs, "\\xg0", "\\x0g", "\\u00g0", "\\U0000g000", "\\8", "\\08", "\\400", "\\777", "\\'", "\\\"", "\\`", "\\q", "\\", "\\u", "\\U", "\\x")
	var out [][]byte
	for _, e := range escs {
		for _, f := range []string{"'%s'", "\"%s\"", "x := \"a%sb\" + y\n", "`%s`", "'%s", "\"%s", "f('%s', \"%[1]s%[1]s\")\n", "'a%s'", "\"%s\n\""} {
			out = append(out, []byte(fmt.Sprintf(f, e)))
		}
	}
	return out
}

func lineDirectives() [][]byte {
	texts := []string{"line f.go:10", "line f.go:10:5", "line :7", "line f.go:0", "line f.go:10:0", "line f.go:x", "line  f.go :12", "line f.go:10 ", "line f.go: 10",
		"line", "line ", "line f.go", "line f.go:10:", "line C:\\d\\x.go:5", "line C:\\d\\x.go:5:6", "line f.go:1073741824", "line f.go:5:1073741824", "line f.go:1073741823", "line\tf.go:3", "Line f.go:3", " line f.go:3",
		"line f.go:+3", "line f.go:03", "line 日本.go:2", "line f.go:10:5:6", "line :", "line ::", "line :1:"}
	before := []string{"", "x\n", "x\r\n", "  ", "x ", "\ufeff", "\n\n", "/* c */", "x\r"}
	ends := []string{"\n", "\r\n", "\r\r\n", "\r", "", " \r\n", "\r \n", "\t\n"}
	after := []string{"x y\n", "x\r\ny z", "", "\"s\" +\r\n1"}
	var out [][]byte
	for _, b := range before {
		for _, t := range texts {
			for _, a := range after {
				for _, e := range ends {
					out = append(out, []byte(b+"//"+t+e+a))
				}
				for _, e := range []string{"", "\n", "\r\n", " "} {
					out = append(out, []byte(b+"/*"+t+"*/"+e+a), []byte(b+"/*"+t+"\r*/"+e+a), []byte(b+"/*"+t+"\r\n*/"+e+a))
				}
			}
		}
	}
	return out
}

type harness struct {
	a            *vh.Args
	rep          *vh.Report
	wd           *vh.Watchdog
	cw           *vh.Cases
	nc           int
	fail         int
	elig, stride int
}

func (h *harness) check(src []byte, gen string, doDefuse bool) {
	for _, comments := range []bool{false, true} {
		in := src
		h.wd.Beat(map[string]string{"gen": gen, "mode": modeName(comments), "src": fmt.Sprintf("%.300q", src)})
		if doDefuse {
			in = defuse(src, comments)
			if !bytes.Equal(in, src) {
				// raw input: error equivalence only (the known-finding class does not affect errors)
				if v, k := oracle(src, comments); v != nil && k != "class" && k != "compared" {
					h.report(src, comments, gen+"(raw)", v)
				}
				h.rep.Dist("defused")
			}
		}
		v, kind := oracle(in, comments)
		h.rep.Dist("outcome:" + kind)
		h.rep.Dist("gen:" + gen)
		nontrivial := kind == "compared"
		h.rep.Count(keyOf(in, comments), nontrivial)
		if kind == "class" {
			if doDefuse {
				h.rep.Dist("avoided-known-finding-class")
			}
			continue
		}
		if v != nil {
			h.report(in, comments, gen, v)
		}
		if h.cw != nil && len(in) <= 200 && (kind == "compared" || kind == "uses-extension" || kind == "both-error") {
			h.elig++
			if gen == "seed" || h.elig%h.stride == 0 {
				h.emitCase(in, comments)
			}
		}
	}
}

func (h *harness) report(src []byte, comments bool, gen string, v *verdict) {
	h.fail++
	if h.fail > 40 {
		return
	}
	small := shrink(src, comments, time.Now().Add(3*time.Second))
	v2, _ := oracle(small, comments)
	if v2 == nil {
		small, v2 = src, v
	}
	h.rep.Fail(vh.Failure{Key: keyOf(small, comments), What: v2.what,
		Input: input{Mode: modeName(comments), Src: fmt.Sprintf("%q", small), B: small, Gen: gen}, Got: v2.got, Want: v2.want})
}

// corpus entries: exact inputs of known findings and past failures; no defusing, the class is compared too.
func (h *harness) corpus(dir string) {
	files, _ := filepath.Glob(filepath.Join(dir, "*.json"))
	sort.Strings(files)
	for _, f := range files {
		b, err := os.ReadFile(f)
		if err != nil {
			continue
		}
		var es []struct {
			Mode string `json:"mode"`
			Src  string `json:"src"`
			B64  []byte `json:"src_bytes"`
		}
		if json.Unmarshal(b, &es) != nil {
			continue
		}
		for _, e := range es {
			src := []byte(e.Src)
			if len(e.B64) > 0 {
				src = e.B64
			}
			for _, comments := range []bool{false, true} {
				if e.Mode != "" && e.Mode != "both" && e.Mode != modeName(comments) {
					continue
				}
				h.wd.Beat(map[string]string{"gen": "corpus", "src": fmt.Sprintf("%.300q", src)})
				v, kind := oracle(src, comments)
				h.rep.Dist("corpus:" + kind)
				h.rep.Count(keyOf(src, comments), kind == "compared" || kind == "class")
				if len(src) <= 200 && kind != "std-broken" && kind != "panic" && kind != "stuck" {
					h.emitCase(src, comments) // the model covers the known-finding class too (findLineEnd)
				}
				if v != nil {
					h.rep.Fail(vh.Failure{Key: keyOf(src, comments), What: v.what,
						Input: input{Mode: modeName(comments), Src: fmt.Sprintf("%q", src), B: src, Gen: "corpus:" + filepath.Base(f)}, Got: v.got, Want: v.want})
				}
			}
		}
	}
}

// keywordOracle: etoken.Lookup vs token.Lookup on every word of a dictionary, except the extension words.
func (h *harness) keywordOracle(r *vh.Rng) {
	ext := extWords()
	words := append([]string{"", "#", "macro", "template", "quote", "quasiquote", "unquote", "unquote_splice", "lambda", "typecase", "function", "Macro", "MACRO", "macr", "macros"}, idents...)
	words = append(words, keywordsStd...)
	for _, k := range keywordsStd {
		words = append(words, k+"s", strings.ToUpper(k), k[:len(k)-1], "~"+k)
	}
	for i := 0; i < 300; i++ {
		n := 1 + r.Intn(8)
		b := make([]byte, n)
		for j := range b {
			b[j] = "abcdefghijklmnopqrstuvwxyz_"[r.Intn(27)]
		}
		words = append(words, string(b))
	}
	for _, w := range words {
		got, want := etoken.Lookup(w), token.Lookup(w)
		h.rep.Count("lookup:"+w, true)
		h.rep.Dist("gen:keyword-lookup")
		if ext[w] || w == "#" {
			continue
		}
		if got != want {
			h.rep.Fail(vh.Failure{Key: "lookup:" + w, What: "etoken.Lookup differs from token.Lookup on a word that is not an extension word", Input: w, Got: etoken.String(got), Want: want.String()})
		}
	}
}

func main() {
	a := vh.ParseArgs()
	rng := vh.NewRng(a.Seed)
	for t := token.Token(0); t < 200; t++ {
		if t.IsKeyword() {
			keywordsStd = append(keywordsStd, t.String())
		}
	}
	rep := vh.NewReport(a, "inputs: corpus/C23 (exact inputs of known findings, not defused); bounded-exhaustive strings over the alphabet {x 0 . e / * \\n \\r space \" ` ' \\\\ ; +} up to length 4 (thorough 5); "+
		"token soups (valid tokens: identifiers incl. non-ASCII, all keywords, all operators, number literals built from prefix/digits/_/./exponent/i pieces, strings/runes/raw strings, comments incl. //line directives, random separators, optional BOM), with and without invalid pieces (NUL, invalid UTF-8, BOM inside, unterminated literals/comments, bad escapes, '#', '~', macro); "+
		"the bounded product (context before) x (//line and /*line*/ directive texts: file:line[:col], empty/invalid/overflowing numbers, blanks, Windows paths) x (comment terminator: LF, CRLF, CR CR LF, lone CR, end of input, blank before the line end) x (following tokens); "+
		"every seed, soup, number and mutated chunk also in its CRLF form (every LF -> CR LF) and a third of them in a mixed form (LF -> CRLF / CR CR LF / lone CR at random, stray CRs inserted), every third real file in CRLF form; "+
		"the bounded product (escape form \\x, octal, \\u, \\U with exact / too few / too many digits, both hex cases) x (every boundary value of the escape rules with both neighbours: 0, 7F/80, FF/100, 7FF/800, D7FF D800 DBFF DC00 DFFF E000 E001, FFFD-FFFF, 10000, 10FFFF 110000, 7FFFFFFF 80000000 FFFFFFFF) x (rune / string / raw string literal, alone, between other characters, unterminated, doubled, newline inside); "+
		"byte-level and token-level mutations of chunks of real sources; whole files of $GOROOT/src and the gomacro tree (quick: 300-file sample; thorough: all). Every input is scanned in both modes (comments skipped / ScanComments). "+
		"Known-finding class avoided (C23-1/2/3, DESIGN 7 #14): a run of comments directly followed by an automatic semicolon in the go1.23 stream [in skip mode except when that comment ends the input = the property's allowance] - generated inputs are defused by inserting an explicit ';' in front of the run; bounded-exhaustive inputs of the class are only checked for error equivalence. "+
		"Oracle: extension-free (std stream has no '~' token, no ILLEGAL '#', no identifier macro) => fork errors>0 iff std errors>0, and if std has no error: identical (token, literal, offset, line, column, //line-adjusted position) sequences and line tables. "+
		"A case is non-trivial when the full sequence comparison applied (extension-free, no error, outside the known-finding class); distinct by mode+input bytes")
	h := &harness{a: a, rep: rep, stride: 70}
	if a.Thorough() {
		h.stride = 250
	}
	h.wd = vh.NewWatchdog(rep, 180*time.Second)
	h.cw = vh.NewCases(a, caseHeader, "case", "mismatches", 150)

	verif := os.Getenv("VERIF_DIR")
	if verif == "" {
		verif = "/verif"
	}
	repo := os.Getenv("VERIF_REPO")
	if repo == "" {
		repo = "/repo"
	}

	if a.Replay != "" {
		b, err := os.ReadFile(a.Replay)
		if err != nil {
			panic(err)
		}
		var rp struct {
			Failure struct {
				Input input `json:"input"`
			} `json:"failure"`
		}
		if err := json.Unmarshal(b, &rp); err != nil {
			panic(err)
		}
		in := rp.Failure.Input
		comments := in.Mode == "comments"
		v, kind := oracle(in.B, comments)
		rep.Count(keyOf(in.B, comments), true)
		rep.Dist("replay:" + kind)
		if v != nil {
			rep.Fail(vh.Failure{Key: keyOf(in.B, comments), What: v.what, Input: in, Got: v.got, Want: v.want})
		}
		h.cw.Close()
		rep.Write()
		return
	}

	// 0. corpus
	h.corpus(filepath.Join(verif, "corpus", "C23"))
	h.keywordOracle(rng)

	// 1. bounded exhaustive
	alpha := []byte("x0.e/*\n\r \"`'\\;+")
	maxLen := 4
	if a.Thorough() {
		maxLen = 5
	}
	var rec func(cur []byte)
	nExh := 0
	rec = func(cur []byte) {
		if len(cur) > 0 {
			nExh++
			h.checkExh(cur)
		}
		if len(cur) == maxLen {
			return
		}
		for _, c := range alpha {
			rec(append(cur, c))
		}
	}
	rec(nil)
	rep.Extra["bounded_exhaustive_inputs"] = nExh

	// 2. hand-written seeds
	for _, s := range seedInputs {
		h.check([]byte(s), "seed", true)
		if w := crlf([]byte(s)); !bytes.Equal(w, []byte(s)) {
			h.check(w, "seed+crlf", true)
		}
		for k := 0; k < 3; k++ {
			if w := crMix(rng, []byte(s)); !bytes.Equal(w, []byte(s)) {
				h.check(w, "seed+crmix", true)
			}
		}
	}
	// 2b. line directives x line terminators (bounded product)
	lds := lineDirectives()
	for _, d := range lds {
		h.check(d, "line-directive", true)
	}
	rep.Extra["line_directive_inputs"] = len(lds)
	// 2c. escape sequences at and around every code point boundary (bounded product)
	esc := escapeBoundaries()
	for _, d := range esc {
		h.check(d, "escape-boundary", true)
	}
	rep.Extra["escape_boundary_inputs"] = len(esc)

	// 3. soups, numbers
	nSoup, nNum, nMut, nFiles := 5000, 2500, 5000, 300
	if a.Thorough() {
		nSoup, nNum, nMut, nFiles = 60000, 40000, 60000, 1<<30
	}
	if a.N > 0 {
		nSoup, nNum, nMut = a.N, a.N, a.N
	}
	for i := 0; i < nSoup; i++ {
		h.checkLE(rng, soup(rng, 3+rng.Intn(30), i%3 == 0), map[bool]string{true: "soup-with-invalid", false: "soup-valid"}[i%3 == 0], true)
	}
	for i := 0; i < nNum; i++ {
		pre := pick(rng, []string{"", "", "x=", "x ", "(", "-", ".", "a.", "0", "+"})
		post := pick(rng, []string{"", "", "\n", ";", " y", ")", ".", "..", "i", "e", "/*c*/", "//c"})
		h.checkLE(rng, []byte(pre+numLit(rng)+post), "number", true)
	}

	// 4. real files
	files := goFiles([]string{filepath.Join(goroot(), "src"), repo})
	rep.Extra["real_files_available"] = len(files)
	var chosen []string
	if nFiles >= len(files) {
		chosen = files
	} else {
		perm := make([]int, len(files))
		for i := range perm {
			perm[i] = i
		}
		for i := 0; i < nFiles; i++ {
			j := i + rng.Intn(len(perm)-i)
			perm[i], perm[j] = perm[j], perm[i]
			chosen = append(chosen, files[perm[i]])
		}
		sort.Strings(chosen)
	}
	var chunks [][]byte
	nReal := 0
	for _, f := range chosen {
		b, err := os.ReadFile(f)
		if err != nil {
			continue
		}
		nReal++
		h.check(b, "real-file", true)
		if nReal%3 == 0 {
			h.check(crlf(b), "real-file+crlf", true)
		}
		if len(chunks) < 4000 && len(b) > 0 {
			// a chunk aligned on line starts, <= ~600 bytes
			p := rng.Intn(len(b))
			for p > 0 && b[p-1] != '\n' {
				p--
			}
			q := p + 50 + rng.Intn(550)
			if q > len(b) {
				q = len(b)
			}
			chunks = append(chunks, b[p:q])
		}
	}
	rep.Extra["real_files_scanned"] = nReal

	// 5. mutations of real chunks
	for i := 0; i < nMut && len(chunks) > 0; i++ {
		c := chunks[rng.Intn(len(chunks))]
		if i%2 == 0 {
			h.checkLE(rng, mutateBytes(rng, c), "mutate-bytes", true)
		} else {
			h.checkLE(rng, mutateTokens(rng, c), "mutate-tokens", true)
		}
	}
	h.cw.Close()
	rep.Extra["correspondence_cases"] = h.nc
	rep.Extra["macro_char"] = string(rune(macroChar))
	rep.Extra["oracle_failures_total"] = h.fail
	rep.Write()
}

// checkExh: bounded-exhaustive inputs are not defused; class members are only checked for error equivalence.
func (h *harness) checkExh(src []byte) {
	for _, comments := range []bool{false, true} {
		v, kind := oracle(src, comments)
		h.rep.Dist("outcome:" + kind)
		h.rep.Dist("gen:bounded-exhaustive")
		h.rep.Count(keyOf(src, comments), kind == "compared")
		if kind == "class" {
			h.rep.Dist("avoided-known-finding-class")
			continue
		}
		if v != nil {
			h.report(append([]byte(nil), src...), comments, "bounded-exhaustive", v)
		}
		if h.cw != nil && len(src) == 4 && (src[0]+src[1]*3+src[2]*7+src[3]*11)%131 == 0 && kind != "std-broken" && kind != "panic" && kind != "stuck" {
			h.emitCase(append([]byte(nil), src...), comments)
		}
	}
}

func goroot() string {
	if g := os.Getenv("GOROOT"); g != "" {
		return g
	}
	for _, g := range []string{runtime.GOROOT(), "/usr/lib/go-1.23", "/usr/local/go", "/usr/lib/go"} {
		if _, err := os.Stat(filepath.Join(g, "src", "go", "scanner", "scanner.go")); err == nil {
			return g
		}
	}
	return "/usr/lib/go"
}

var seedInputs = []string{
	"", " ", "\n", "\ufeff", "\ufeffpackage p\n", "a\ufeffb", "\ufeff\ufeff", "\x00", "a\x00b", "\"a\x00b\"", "/* \x00 */", "// \xff\n", "\"\xff\"", "`\xff`", "'\xff'", "\xff", "\xc3", "x\xc3\x28",
	"0", "00", "09", "08", "0_9", "0b", "0b_", "0b2", "0o", "0o8", "0x", "0x_1", "0x1_", "1__0", "0x.p1", "0x1.8p-3", "0x1.8", "0x1p", "0x1e3", "1e", "1e+", "1E-5i", "0i", "09i", "08.5", "089", "0b1e3", "0b1.0", "0o7p1",
	"1_", "_1", "1._5", "1.e5", ".5", ".5e", "..5", "...5", "5...", "1..2", "0.i", "0xi", "0x_i", "1_000_000", "0_0", "0__0", "1p5", "0b101i", "0O17", "0X_AB", "07_7", "1e1_0", "1e_1",
	"x /* a */ y", "x /* a */; y", "x; /* a */\ny", "x;// a\ny", "if /* c */ x {\n}", "/* a */\nx\n", "// a\nx\n", "x\n// a\n", "x\n/* a */", "x /* a */", "x // a", "x // a\n", "x /* a */\n", "x /*a*/ /*b*/", "foo()/* unterminated", "x /*\n",
	"\"abc", "`abc", "'a", "'", "\"\\", "/*", "/* *", "/*/", "//", "/", "/=", "//\r\n", "/*\r*/", "`\r`", "`a\r\nb`", "\"a\rb\"", "'\r'",
	"//line a.go:10\nx y\n", "/*line b.go:3:4*/ x", "x /*line c.go:9*/ y", "//line d.go:1073741824\nx", "//line d.go:1073741825\nx", "//line d.go:7:1073741825\nx", "//line :5:6\nx", "//line e.go:0\nx", "  //line f.go:3\nx", "//line g.go:99999999999999999999\nx",
	"a.b", "a . b", "a...", "..", "....", "<-", "<<=", ">>=", "&^=", "&^", "&&", "|=", "!==", ":=:", "++-", "--=", "<<<", "+++", "@", "$", "?", "\\", "“a”", "\u200b", "a b", "a\tb", "a\vb", "a\fb", "\x7f",
	"break\n", "return\n}", "continue // c\nx", "fallthrough\n", "x++\n", "x--\n", ")\n", "]\n", "}\n", "1\n", "'a'\n", "\"s\"\n", "`r`\n", "func\n", "go\n", "+\n", "x\r\n", "x\n\n\ny", "x\r\ry",
	"#", "#!", "#!/usr/bin/env gomacro\nx", "x #! c\ny", "~", "~quote", "~'x", "~`x", "~\"x", "~,x", "~,@x", "~x", "~ ", "macro", "macro f()", "template", "~macro", "~func", "~lambda", "~typecase", "a~b", "x#y",
	"package p\n\nimport \"fmt\"\n\nfunc main() {\n\tfmt.Println(\"hi\", 0x1p-2, 'x', `raw`)\n}\n",
	"日本語 := \"日本語\"\n", "a𝔸 b", "x̂", "١", "a١", "٣", "1٣", "\U0001F600", "Ⅷ", "a·b", "_", "__", "_x9",
}

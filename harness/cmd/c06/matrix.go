// Address matrix: bounded-exhaustive sweep of the kind x upn specialisations of Var.Address for LOCAL variables.
//
// fast/address.go is generated code: one closure per reflect.Kind (16 int-like kinds live in Env.Ints) and per number of
// Envs between the `&x` expression and the Env that owns x (upn 0, 1, 2, the >=3 loop, FileEnv).  Each of these
// closures sets IntAddressTaken on the frame it believes to own x; freeEnv then detaches the Ints array of that frame
// instead of recycling it.  The random generator (gen.go) takes most addresses of `int` variables at upn 0, so a
// defect in ONE of the 80 specialisations is unlikely to be hit.  The matrix therefore generates, for EVERY int-like
// kind K and EVERY upn 0..4, one small fully instrumented program in which
//
//	mode 0 "ret"     x lives in the frame of a top-level function, &x is taken `upn` Envs below (blocks with locals,
//	                 for / if / switch headers with :=) and the pointer is RETURNED;
//	mode 1 "global"  x lives in a block (with locals) of a top-level function, the pointer is stored in a GLOBAL;
//	mode 2 "slice"   x lives in a function frame, the layers also include closures (a literal without locals is one
//	                 Env, with locals two), the pointer is appended to a global SLICE;
//	mode 3 "closure" x lives in the body Env of a function literal, the pointer is captured by a CLOSURE (made by
//	                 another function) kept in a global slice.
//
// Every maker is called twice in a row (different seeds); then 40 nested + 4 sequential calls churn the frame pool
// (every probe of the poisoned run overwrites all pooled frames); then the two pointers of each mode must be distinct,
// read their own seed, be written independently, and keep those values across a second churn.  The programs go through
// the same three-way differential (gomacro / gomacro with poisoned pool / compiled Go) and the same model replay as the
// random programs: the final dump compares IntAddressTaken of EVERY frame with the model, where OAddr upn flags the
// frame `upn` hops up = the owner of the Ints array (Props.v C06_addr_flags_owning_frame).
package main

import (
	"fmt"
	"strings"
)

var mxKinds = []string{"bool", "int", "int8", "int16", "int32", "int64", "uint", "uint8", "uint16", "uint32", "uint64", "uintptr",
	"float32", "float64", "complex64", "complex128"}

const mxMaxUpn = 4

func mxSlots(k string) int {
	if k == "complex128" {
		return 2
	}
	return 1
}

// literal of kind k derived from the small number n (fits int8)
func mxLit(k string, n int) string {
	switch k {
	case "bool":
		if n%2 == 1 {
			return "true"
		}
		return "false"
	case "float32", "float64":
		return fmt.Sprintf("%d.5", n)
	case "complex64", "complex128":
		return fmt.Sprintf("complex(%d, %d)", n, n+1)
	}
	return fmt.Sprint(n)
}

type mxb struct {
	pfx  string
	k    string
	prog *program
	nsid int
	nfid int
	nn   int
}

func (b *mxb) scope(nv, ni int) int {
	b.nsid++
	b.prog.Scopes[b.nsid] = scopeInfo{nv, ni}
	return b.nsid
}
func (b *mxb) fun(body int) int {
	b.nfid++
	b.prog.Funs[b.nfid] = funInfo{BodyScope: body}
	return b.nfid
}

// statements that emit the value of expression e of kind k
func (b *mxb) show(e string) string {
	switch b.k {
	case "bool":
		return fmt.Sprintf("emitb(%s)", e)
	case "float32", "float64":
		return fmt.Sprintf("emit(int(%s * 2))", e)
	case "complex64", "complex128":
		return fmt.Sprintf("emit(int(real(%s)))\nemit(int(imag(%s)))", e, e)
	}
	return fmt.Sprintf("emit(int(%s))", e)
}

func (b *mxb) bump(lhs string, n int) string {
	if b.k == "bool" {
		return fmt.Sprintf("%s = !%s", lhs, lhs)
	}
	return fmt.Sprintf("%s += %s", lhs, mxLit(b.k, n))
}

const (
	shBlock = iota
	shFor
	shIf
	shSwitch
	shClos1 // function literal without locals: one Env
	shClos2 // function literal with locals: two Envs
)

var shName = []string{"block", "for", "if", "switch", "lit", "lit+locals"}

func shEnvs(s int) int {
	if s == shClos2 {
		return 2
	}
	return 1
}

// mxShapes: the layer shapes (outermost first) that make exactly upn Envs
func mxShapes(upn, rot int, closures bool) []int {
	var out []int
	for j, rem := 0, upn; rem > 0; j++ {
		s := (rot + j) % 4
		if closures {
			s = (rot + j) % 6
		}
		if s == shClos2 && rem < 2 {
			s = shClos1
		}
		out = append(out, s)
		rem -= shEnvs(s)
	}
	return out
}

// layer wraps the statements `core` into one more layer of run-time Env(s), probes included
func (b *mxb) layer(shape int, core string) string {
	b.nn++
	n := b.nn
	switch shape {
	case shBlock:
		s := b.scope(0, 1)
		return fmt.Sprintf("{\nev(3, %d)\na%d := %d\n_ = a%d\n%s\nev(4, %d)\n}", s, n, n, n, core, s)
	case shFor:
		s := b.scope(0, 1)
		return fmt.Sprintf("ev(9, %d)\nfor i%d := 0; i%d < 1; i%d++ {\nev(8, 0)\n%s\n}\nev(10, %d)", s, n, n, n, core, s)
	case shIf:
		s := b.scope(0, 1)
		return fmt.Sprintf("ev(9, %d)\nif t%d := %d; t%d > 0 {\n_ = t%d\nev(8, 0)\n%s\n}\nev(10, %d)", s, n, n, n, n, core, s)
	case shSwitch:
		s := b.scope(0, 2) // the init variable and the hidden variable holding the tag value
		return fmt.Sprintf("ev(9, %d)\nswitch t%d := %d; t%d {\ncase %d:\nev(8, 0)\n%s\n}\nev(10, %d)", s, n, n, n, n, core, s)
	case shClos1:
		f := b.fun(0)
		return fmt.Sprintf("callf(%d, func() {\nev(1, %d)\n%s\nev(2, %d)\nreturn\n})\nev(8, 0)", f, f, core, f)
	default:
		s := b.scope(0, 1)
		f := b.fun(s)
		return fmt.Sprintf("callf(%d, func() {\nev(1, %d)\nb%d := %d\n_ = b%d\n%s\nev(2, %d)\nreturn\n})\nev(8, 0)", f, f, n, n, n, core, f)
	}
}

func (b *mxb) nest(shapes []int, core string) string {
	for j := len(shapes) - 1; j >= 0; j-- {
		core = b.layer(shapes[j], core)
	}
	return core
}

func indent(src string) string {
	var sb strings.Builder
	ind := 0
	for _, l := range strings.Split(src, "\n") {
		l = strings.TrimSpace(l)
		if l == "" {
			continue
		}
		if strings.HasPrefix(l, "}") || strings.HasPrefix(l, "case ") && ind > 0 {
			ind--
		}
		sb.WriteString(strings.Repeat("\t", ind))
		sb.WriteString(l)
		sb.WriteString("\n")
		if strings.HasSuffix(l, "{") || strings.HasPrefix(l, "case ") {
			ind++
		}
	}
	return sb.String()
}

// mxProgram: the matrix program of kind k, address taken upn Envs below the owner; rot selects the layer shapes
func mxProgram(idx int, k string, upn, rot int) *program {
	p := &program{Scopes: map[int]scopeInfo{}, Funs: map[int]funInfo{}, Feat: map[string]int{}}
	b := &mxb{pfx: fmt.Sprintf("P%d_", idx), k: k, prog: p}
	P := b.pfx
	add := func(src string) { p.Decls = append(p.Decls, indent(src)) }
	add(fmt.Sprintf("var %sg1 *%s", P, k))
	add(fmt.Sprintf("var %sg2 []*%s", P, k))
	add(fmt.Sprintf("var %sg3 []func() *%s", P, k))

	var shapesUsed []string
	note := func(m int, sh []int) {
		var s []string
		for _, x := range sh {
			s = append(s, shName[x])
			p.Feat["matrix_layer:"+shName[x]]++
		}
		shapesUsed = append(shapesUsed, fmt.Sprintf("m%d[%s]", m, strings.Join(s, ",")))
	}

	// mode 0: owner = frame of a top-level function, pointer returned
	{
		f := b.fun(0)
		sh := mxShapes(upn, rot, false)
		note(0, sh)
		core := fmt.Sprintf("%s\np = &x\nev(7, %d)\n%s", b.bump("x", 2), upn, b.bump("*p", 1))
		add(fmt.Sprintf("func %smk0(seed %s) *%s {\nev(1, %d)\nvar x %s = seed\nvar p *%s\n%s\n%s\nev(2, %d)\nreturn p\n}",
			P, k, k, f, k, k, b.nest(sh, core), b.show("x"), f))
	}
	// mode 1: owner = block with locals, pointer stored in a global
	{
		f := b.fun(0)
		sh := mxShapes(upn, rot+1, false)
		note(1, sh)
		s := b.scope(0, mxSlots(k))
		core := fmt.Sprintf("%s\n%sg1 = &x\nev(7, %d)\n%s", b.bump("x", 2), P, upn, b.bump("*"+P+"g1", 1))
		add(fmt.Sprintf("func %smk1(seed %s) {\nev(1, %d)\n{\nev(3, %d)\nvar x %s = seed\n%s\n%s\nev(4, %d)\n}\nev(2, %d)\n}",
			P, k, f, s, k, b.nest(sh, core), b.show("x"), s, f))
	}
	// the closure maker of mode 3
	{
		f := b.fun(0)
		l := b.fun(0)
		add(fmt.Sprintf("func %swrap(p *%s) func() *%s {\nev(1, %d)\nc := func() *%s {\nev(1, %d)\nev(2, %d)\nreturn p\n}\nev(6, %d)\nev(2, %d)\nreturn c\n}",
			P, k, k, f, k, l, l, l, f))
	}
	// mode 2: owner = function frame, layers include closures, pointer appended to a global slice
	{
		f := b.fun(0)
		sh := mxShapes(upn, rot+2, true)
		note(2, sh)
		core := fmt.Sprintf("%s\n%sg2 = append(%sg2, &x)\nev(7, %d)\n%s", b.bump("x", 2), P, P, upn, b.bump("x", 1))
		add(fmt.Sprintf("func %smk2(seed %s) {\nev(1, %d)\nvar x %s = seed\n%s\n%s\nev(2, %d)\n}",
			P, k, f, k, b.nest(sh, core), b.show("x"), f))
	}
	// mode 3: owner = body Env of a function literal, pointer captured by a closure kept in a global slice
	{
		f := b.fun(0)
		sh := mxShapes(upn, rot+3, true)
		note(3, sh)
		s := b.scope(0, mxSlots(k))
		l := b.fun(s)
		core := fmt.Sprintf("%s\n%sg3 = append(%sg3, %swrap(&x))\nev(7, %d)\n%s", b.bump("x", 2), P, P, P, upn, b.bump("x", 1))
		add(fmt.Sprintf("func %smk3(seed %s) {\nev(1, %d)\ncallf(%d, func() {\nev(1, %d)\nvar x %s = seed\n%s\n%s\nev(2, %d)\nreturn\n})\nev(8, 0)\nev(2, %d)\n}",
			P, k, f, l, l, k, b.nest(sh, core), b.show("x"), l, f))
	}
	// churn: nested calls (more than the pool capacity), every frame written with values of kind k
	{
		f := b.fun(0)
		add(fmt.Sprintf("func %schurn(d int, v %s) %s {\nev(1, %d)\nvar t %s = v\nif d <= 0 {\nev(2, %d)\nreturn t\n}\n%s\nu := %schurn(d-1, t)\nev(8, 0)\nev(2, %d)\nreturn u\n}",
			P, k, k, f, k, f, b.bump("t", 1), P, f))
	}
	// noise: a call with a block frame
	{
		f := b.fun(0)
		s := b.scope(0, mxSlots(k))
		add(fmt.Sprintf("func %snoise(v %s) %s {\nev(1, %d)\nvar t %s = v\n{\nev(3, %d)\nvar w %s = t\n%s\nt = w\nev(4, %d)\n}\nev(2, %d)\nreturn t\n}",
			P, k, k, f, k, s, k, b.bump("w", 3), s, f))
	}
	// driver
	{
		f := b.fun(0)
		var sb strings.Builder
		w := func(format string, a ...interface{}) { fmt.Fprintf(&sb, format+"\n", a...) }
		la, lb := mxLit(k, 11), mxLit(k, 30)
		w("func %srun() {", P)
		w("ev(1, %d)", f)
		w("a0 := %smk0(%s)\nev(8, 0)", P, la)
		w("b0 := %smk0(%s)\nev(8, 0)", P, lb)
		w("%smk1(%s)\nev(8, 0)\na1 := %sg1", P, la, P)
		w("%smk1(%s)\nev(8, 0)\nb1 := %sg1", P, lb, P)
		w("%smk2(%s)\nev(8, 0)", P, la)
		w("%smk2(%s)\nev(8, 0)", P, lb)
		w("%smk3(%s)\nev(8, 0)", P, la)
		w("%smk3(%s)\nev(8, 0)", P, lb)
		w("n1 := %schurn(40, %s)\nev(8, 0)\n%s", P, mxLit(k, 3), b.show("n1"))
		for i := 0; i < 4; i++ {
			w("%s", b.show(fmt.Sprintf("%snoise(%s)", P, mxLit(k, 50+i))))
			w("ev(8, 0)")
		}
		w("a2, b2 := %sg2[0], %sg2[1]", P, P)
		w("a3 := %sg3[0]()\nev(8, 0)", P)
		w("b3 := %sg3[1]()\nev(8, 0)", P)
		pairs := [][2]string{{"a0", "b0"}, {"a1", "b1"}, {"a2", "b2"}, {"a3", "b3"}}
		for _, pr := range pairs {
			w("emitb(%s == %s)", pr[0], pr[1])
			w("%s\n%s", b.show("*"+pr[0]), b.show("*"+pr[1]))
			w("%s", b.bump("*"+pr[0], 5))
			w("%s\n%s", b.show("*"+pr[0]), b.show("*"+pr[1]))
			w("%s", b.bump("*"+pr[1], 9))
		}
		w("n2 := %schurn(35, %s)\nev(8, 0)\n%s", P, mxLit(k, 7), b.show("n2"))
		for _, pr := range pairs {
			w("%s\n%s", b.show("*"+pr[0]), b.show("*"+pr[1]))
		}
		w("ev(2, %d)", f)
		w("}")
		add(sb.String())
	}
	p.Run = P + "run"
	p.Feat["matrix"] = 1
	p.Feat["matrix_kind:"+k] = 1
	p.Feat[fmt.Sprintf("matrix_upn:%d", upn)] = 1
	p.Feat["escape_ptr_matrix"] = 8
	p.Matrix = fmt.Sprintf("kind=%s upn=%d layers=%s", k, upn, strings.Join(shapesUsed, " "))
	return p
}

// mxPrograms: kind x upn (x rotations of the layer shapes in the thorough tier)
func mxPrograms(base int, seed uint64, thorough bool) []*program {
	var out []*program
	rots := 1
	if thorough {
		rots = 6
	}
	for r := 0; r < rots; r++ {
		for ki, k := range mxKinds {
			for upn := 0; upn <= mxMaxUpn; upn++ {
				if r > 0 && upn == 0 {
					continue // no layers: nothing to rotate
				}
				rot := int(seed%6) + r + ki + upn
				out = append(out, mxProgram(base+len(out), k, upn, rot))
			}
		}
	}
	return out
}

// Generator of random Go programs for C06 (calls, closures, frame recycling).
// Every generated program is valid for `go build` (go 1.18 semantics) and for gomacro.  The generator tracks
// which lexical scopes own a runtime *Env in gomacro (function frames, blocks/for-init/if-init with direct
// declarations, bodies of function literals and methods with direct declarations) so that it can place probes
// `ev(kind, arg)` from which the harness reconstructs the history of frame operations.
package main

import (
	"fmt"
	"strings"

	"verifh/vh"
)

// probe kinds
const (
	evCall   = 1 // first statement of a function body; arg = function id
	evRet    = 2 // immediately before a return statement (or the end of a body without results)
	evBlock  = 3 // first statement of a scope that owns an Env; arg = scope id
	evBlkEnd = 4 // last statement of a block that owns an Env (popEnv follows)
	evLeave  = 5 // immediately before break/continue; arg = number of Envs abandoned
	evClos   = 6 // immediately after the statement that evaluated one function literal
	evAddr   = 7 // immediately after `p := &x` of an int-slot variable; arg = upn
	evProbe  = 8 // plain probe (after call statements)
	evPre    = 9 // immediately before a for/if statement whose init clause owns an Env; arg = scope id
	evPost   = 10 // immediately after such a statement (its popEnv has run)
)

var allKinds = []string{"int", "int8", "int16", "int64", "uint8", "uint16", "uint32", "uint64", "bool", "float64", "string", "complex128"}

func intSlots(t string) int {
	switch t {
	case "int", "int8", "int16", "int32", "int64", "uint", "uint8", "uint16", "uint32", "uint64", "bool", "float64", "float32":
		return 1
	case "complex128":
		return 2
	}
	return 0
}
func isScalar(t string) bool { return intSlots(t) > 0 || t == "string" }

type vr struct {
	name, typ string
	scope     *scope
}

type scope struct {
	id     int
	env    bool // owns an *Env at run time
	declOK bool // direct declarations allowed (the Env-owning scopes)
	fn     *fnctx
	vars   []*vr
	nv, ni int
	loop   bool // body of a for loop (break/continue target level)
}

type fnctx struct {
	id      int
	lit     bool // function literal or method (body compiled with Comp.List)
	results []string
	named   []string // names of results when named
	outer   *fnctx
	bodyEnv bool
}

type fun struct {
	name     string
	id       int
	params   []string // types
	variadic string   // element type or ""
	results  []string
	depth    bool // first param is the recursion depth
	leaf     bool
}

type scopeInfo struct{ Nv, Ni int }
type funInfo struct {
	BodyScope int // scope id of the body Env entered together with the call (function literals/methods), or 0
}

type program struct {
	Decls  []string
	Run    string
	Scopes map[int]scopeInfo
	Funs   map[int]funInfo
	Feat   map[string]int
	Matrix string // address matrix programs (matrix.go): description
}

type gen struct {
	r       *vh.Rng
	pfx     string
	sb      *strings.Builder
	ind     int
	scopes  []*scope
	allSc   []*scope
	kinds   []string
	funs    []*fun
	nid     int
	nfid    int
	nsid    int
	prog    *program
	fn      *fnctx
	budget  int
	driver  bool // holders may be used here
	holderF map[string]bool
	holderP map[string]bool
	structK string
	hide    map[string]bool // variables that must not be read right now
	avoid   avoid
}

// input classes of known findings the generator stays away from while they reproduce on the tree under test
type avoid struct {
	NamedReturn bool // `return e1, e2` reading a named result in e2 (fast/statement.go Comp.Return assigns sequentially)
	AddrComplex bool // &x with x complex128 (fast/util.go funAsX1 has no *complex128 case)
	MethodValue bool // method value x.M with M declared on the value type (fast/selector.go keeps a reference to x)
}

func (g *gen) name(p string) string { g.nid++; return fmt.Sprintf("%s%s%d", g.pfx, p, g.nid) }
func (g *gen) line(f string, a ...interface{}) {
	g.sb.WriteString(strings.Repeat("\t", g.ind))
	fmt.Fprintf(g.sb, f, a...)
	g.sb.WriteString("\n")
}
func (g *gen) ev(kind, arg int) { g.line("ev(%d, %d)", kind, arg) }
func (g *gen) feat(k string)    { g.prog.Feat[k]++ }

func (g *gen) push(env, declOK bool) *scope {
	g.nsid++
	s := &scope{id: g.nsid, env: env, declOK: declOK, fn: g.fn}
	g.scopes = append(g.scopes, s)
	g.allSc = append(g.allSc, s)
	return s
}
func (g *gen) pop() {
	s := g.scopes[len(g.scopes)-1]
	g.scopes = g.scopes[:len(g.scopes)-1]
	if s.env {
		g.prog.Scopes[s.id] = scopeInfo{s.nv, s.ni}
	}
}
func (g *gen) top() *scope { return g.scopes[len(g.scopes)-1] }

// declare registers a variable in the innermost scope (which must allow declarations)
func (g *gen) declare(name, typ string) *vr {
	s := g.top()
	v := &vr{name, typ, s}
	s.vars = append(s.vars, v)
	if n := intSlots(typ); n > 0 {
		s.ni += n
	} else {
		s.nv++
	}
	return v
}

// upn: number of Env hops from the current position to the scope of v
func (g *gen) upn(v *vr) int {
	n := 0
	for i := len(g.scopes) - 1; i >= 0; i-- {
		if g.scopes[i] == v.scope {
			return n
		}
		if g.scopes[i].env {
			n++
		}
	}
	return -1
}

func (g *gen) varsOf(typ string) []*vr {
	var out []*vr
	for _, s := range g.scopes {
		for _, v := range s.vars {
			if v.typ == typ && !g.hide[v.name] {
				out = append(out, v)
			}
		}
	}
	return out
}
func (g *gen) pickVar(typ string) *vr {
	vs := g.varsOf(typ)
	if len(vs) == 0 {
		return nil
	}
	// bias to outer (captured) variables half of the time
	if g.r.Bool() {
		return vs[g.r.Intn(len(vs))]
	}
	return vs[g.r.Intn((len(vs)+1)/2)]
}
func (g *gen) kind() string { return g.kinds[g.r.Intn(len(g.kinds))] }

func (g *gen) lit(k string) string {
	n := g.r.Intn(7) + 1
	switch k {
	case "bool":
		if g.r.Bool() {
			return "true"
		}
		return "false"
	case "string":
		return fmt.Sprintf("%q", string(rune('a'+n)))
	case "float64":
		return fmt.Sprintf("float64(%d.5)", n)
	case "complex128":
		return fmt.Sprintf("complex128(%d+0i)", n)
	case "int":
		return fmt.Sprint(n * 3)
	}
	return fmt.Sprintf("%s(%d)", k, n)
}

// expr of scalar kind k without calls.  Two literals are never combined (Go would constant-fold the
// operation and reject an overflow at compile time).
func (g *gen) expr(k string, d int) string { s, _ := g.exprC(k, d); return s }

func (g *gen) exprC(k string, d int) (string, bool) {
	if d <= 0 || g.r.Chance(2, 5) {
		if v := g.pickVar(k); v != nil && g.r.Chance(3, 4) {
			return v.name, false
		}
		if p := g.pickVar("*" + k); p != nil && g.r.Chance(1, 3) {
			return "(*" + p.name + ")", false
		}
		return g.lit(k), true
	}
	a, ca := g.exprC(k, d-1)
	b, cb := g.exprC(k, d-1)
	if ca && cb {
		return a, true
	}
	switch k {
	case "bool":
		return "(" + a + []string{" != ", " == ", " && ", " || "}[g.r.Intn(4)] + b + ")", false
	case "string":
		if ca {
			return b, false
		}
		return a, false
	case "float64", "complex128":
		return "(" + a + []string{" + ", " - "}[g.r.Intn(2)] + b + ")", false
	}
	return "(" + a + []string{" + ", " - ", " * ", " ^ ", " | "}[g.r.Intn(5)] + b + ")", false
}
func (g *gen) pickOr(k string) string {
	if v := g.pickVar(k); v != nil {
		return v.name
	}
	return g.lit(k)
}

func (g *gen) emit(k, e string) {
	switch k {
	case "bool":
		g.line("emitb(%s)", e)
	case "string":
		g.line("emits(%s)", e)
	case "float64":
		g.line("emit(int(%s * 2))", e)
	case "complex128":
		g.line("emit(int(real(%s)))", e)
	default:
		g.line("emit(int(%s))", e)
	}
}

func (g *gen) incr(k, lhs string) {
	switch k {
	case "bool":
		g.line("%s = !%s", lhs, lhs)
	case "string":
		g.line("if len(%s) < 6 { %s += %s }", lhs, lhs, g.lit(k))
	default:
		g.line("%s += %s", lhs, g.lit(k))
	}
}

// ---- blocks ----

// block emits `{ ... }` (after header hdr, e.g. "" or "for ... " or "if ... ") with n random statements.
func (g *gen) block(hdr string, locals bool, loop bool, n int, inner func()) {
	g.line("%s{", hdr)
	g.ind++
	s := g.push(locals, locals)
	s.loop = loop
	if locals {
		g.ev(evBlock, s.id)
		g.declStmt() // guarantees the block owns an Env
	} else if loop {
		g.ev(evProbe, 0)
	}
	if inner != nil {
		inner()
	}
	for i := 0; i < n; i++ {
		g.stmt()
	}
	if locals {
		g.ev(evBlkEnd, s.id)
	}
	g.pop()
	g.ind--
	g.line("}")
}

func (g *gen) declStmt() {
	k := g.kind()
	nm := g.name("v")
	e := g.expr(k, 2)
	if g.r.Bool() {
		g.line("var %s %s = %s", nm, k, e)
	} else if g.r.Chance(1, 6) {
		g.line("var %s %s", nm, k)
	} else {
		g.line("%s := %s(%s)", nm, k, e)
	}
	g.line("_ = %s", nm)
	g.declare(nm, k)
}

// envs between the current position and the innermost loop body (inclusive); -1 if not in a loop of this function
func (g *gen) leaveCount() int {
	n := 0
	for i := len(g.scopes) - 1; i >= 0; i-- {
		s := g.scopes[i]
		if s.fn != g.fn {
			return -1
		}
		if s.env {
			n++
		}
		if s.loop {
			return n
		}
		if i > 0 && g.scopes[i-1].fn != s.fn {
			return -1
		}
	}
	return -1
}

func (g *gen) stmt() {
	if g.budget <= 0 {
		return
	}
	g.budget--
	declOK := g.top().declOK
	for try := 0; try < 8; try++ {
		switch x := g.r.Intn(22); {
		case x < 3:
			if declOK {
				g.declStmt()
				return
			}
		case x < 6: // assignment
			k := g.kind()
			if v := g.pickVar(k); v != nil {
				if g.r.Bool() {
					g.line("%s = %s", v.name, g.expr(k, 2))
				} else {
					g.incr(k, v.name)
				}
				return
			}
		case x < 8: // address of a variable
			if declOK {
				k := g.kind()
				if k == "complex128" && g.avoid.AddrComplex {
					continue
				}
				if v := g.pickVar(k); v != nil {
					p := g.name("p")
					g.line("%s := &%s", p, v.name)
					g.line("_ = %s", p)
					if intSlots(k) > 0 {
						g.ev(evAddr, g.upn(v))
						g.feat("addr_int_upn" + fmt.Sprint(min(g.upn(v), 3)))
					} else {
						g.feat("addr_val")
					}
					g.declare(p, "*"+k)
					if g.r.Bool() {
						g.incr(k, "*"+p)
					}
					return
				}
			}
		case x < 9: // write through a pointer
			k := g.kind()
			if p := g.pickVar("*" + k); p != nil {
				g.incr(k, "*"+p.name)
				return
			}
		case x < 12: // closure
			if declOK && g.budget > 2 {
				g.closure()
				return
			}
		case x < 14: // call a closure variable
			k := g.kind()
			if c := g.pickVar("func() " + k); c != nil {
				g.emit(k, c.name+"()")
				g.ev(evProbe, 0)
				return
			}
			if c := g.pickVar("func(" + k + ") " + k); c != nil {
				g.emit(k, c.name+"("+g.expr(k, 1)+")")
				g.ev(evProbe, 0)
				return
			}
		case x < 15: // nested block
			if g.budget > 2 {
				g.block("", g.r.Bool(), false, 1+g.r.Intn(3), nil)
				return
			}
		case x < 16: // for loop
			if g.budget > 3 {
				g.forLoop()
				return
			}
		case x < 17: // if
			if g.budget > 2 {
				g.ifStmt()
				return
			}
		case x < 19: // call a top-level function
			if len(g.funs) > 0 {
				g.callFun(g.funs[g.r.Intn(len(g.funs))], 0)
				return
			}
		case x < 20: // emit
			k := g.kind()
			if v := g.pickVar(k); v != nil {
				g.emit(k, v.name)
				return
			}
		case x < 21: // store into a holder
			if g.store() {
				return
			}
		default:
			if g.driver && g.fn != nil && !g.fn.lit {
				g.useHolder()
				return
			}
		}
	}
	g.ev(evProbe, 0)
}

func (g *gen) store() bool {
	k := g.kind()
	if c := g.pickVar("func() " + k); c != nil && g.r.Bool() {
		g.line("%sgf_%s = append(%sgf_%s, %s)", g.pfx, k, g.pfx, k, c.name)
		g.feat("escape_closure_slice")
		return true
	}
	if p := g.pickVar("*" + k); p != nil {
		if g.r.Bool() {
			g.line("%sgp_%s = append(%sgp_%s, %s)", g.pfx, k, g.pfx, k, p.name)
			g.feat("escape_ptr_slice")
		} else {
			g.line("%sgm_%s[%q] = %s", g.pfx, k, string(rune('a'+g.r.Intn(4))), p.name)
			g.feat("escape_ptr_map")
		}
		return true
	}
	if c := g.pickVar("func() " + k); c != nil {
		g.line("%sgh_%s.f = %s", g.pfx, k, c.name)
		g.feat("escape_closure_struct")
		return true
	}
	return false
}

func (g *gen) useHolder() {
	k := g.kind()
	j := g.r.Intn(4)
	switch g.r.Intn(4) {
	case 0:
		g.line("if len(%sgf_%s) > %d {", g.pfx, k, j)
		g.ind++
		g.emit(k, fmt.Sprintf("%sgf_%s[%d]()", g.pfx, k, j))
		g.ev(evProbe, 0)
		g.ind--
		g.line("}")
	case 1:
		g.line("if len(%sgp_%s) > %d {", g.pfx, k, j)
		g.ind++
		g.incr(k, fmt.Sprintf("*%sgp_%s[%d]", g.pfx, k, j))
		g.emit(k, fmt.Sprintf("*%sgp_%s[%d]", g.pfx, k, j))
		g.ind--
		g.line("}")
	case 2:
		key := string(rune('a' + g.r.Intn(4)))
		g.line("if %sgm_%s[%q] != nil {", g.pfx, k, key)
		g.ind++
		g.incr(k, fmt.Sprintf("*%sgm_%s[%q]", g.pfx, k, key))
		g.emit(k, fmt.Sprintf("*%sgm_%s[%q]", g.pfx, k, key))
		g.ind--
		g.line("}")
	default:
		g.line("if %sgh_%s.f != nil {", g.pfx, k)
		g.ind++
		g.emit(k, fmt.Sprintf("%sgh_%s.f()", g.pfx, k))
		g.ev(evProbe, 0)
		g.ind--
		g.line("}")
	}
}

func (g *gen) forLoop() {
	n := 1 + g.r.Intn(3)
	bodyLocals := g.r.Chance(2, 3)
	{
		// for i := 0; ... : the init clause owns an Env
		i := g.name("i")
		s := g.push(true, false)
		g.ev(evPre, s.id)
		g.declare(i, "int")
		g.feat("for_init_env")
		g.block(fmt.Sprintf("for %s := 0; %s < %d; %s++ ", i, i, n, i), bodyLocals, true, 1+g.r.Intn(3), func() {
			if g.r.Chance(1, 4) {
				g.jump(i)
			}
		})
		g.pop()
		g.ev(evPost, s.id)
	}
}

// conditional break/continue inside a loop body
func (g *gen) jump(i string) {
	k := g.leaveCount()
	if k < 0 {
		return
	}
	kw := []string{"break", "continue"}[g.r.Intn(2)]
	g.line("if %s == %d {", i, g.r.Intn(2))
	g.ind++
	g.ev(evLeave, k)
	g.line(kw)
	g.ind--
	g.line("}")
	g.feat("jump_" + kw)
}

func (g *gen) ifStmt() {
	cond := g.expr("bool", 1)
	if _, ok := g.kindIndex("bool"); !ok {
		k := g.intKind()
		cond = "(" + g.expr(k, 1) + " != " + g.expr(k, 1) + ")"
	}
	if g.r.Chance(1, 3) {
		// if t := e; cond { } else { } : init owns an Env; both branches are probed
		k := g.kind()
		t := g.name("t")
		s := g.push(true, false)
		g.ev(evPre, s.id)
		e := g.expr(k, 1)
		g.declare(t, k)
		g.feat("if_init_env")
		g.block(fmt.Sprintf("if %s := %s(%s); %s ", t, k, e, cond), g.r.Bool(), false, 1+g.r.Intn(2), func() { g.line("_ = %s", t); g.ev(evProbe, 0) })
		// else branch: rewrite the closing brace
		g.elseBlock()
		g.pop()
		g.ev(evPost, s.id)
		return
	}
	g.block("if "+cond+" ", g.r.Bool(), false, 1+g.r.Intn(2), nil)
	if g.r.Bool() {
		g.elseBlock()
	}
}

// elseBlock turns the "}" just written into "} else {...}"
func (g *gen) elseBlock() {
	s := g.sb.String()
	s = strings.TrimRight(s, "\n")
	i := strings.LastIndex(s, "}")
	g.sb.Reset()
	g.sb.WriteString(s[:i])
	hdr := "} else "
	// write header on the same line
	g.sb.WriteString(hdr)
	save := g.ind
	g.ind = 0
	locals := g.r.Bool()
	g.line("{")
	g.ind = save + 1
	sc := g.push(locals, locals)
	if locals {
		g.ev(evBlock, sc.id)
		g.declStmt()
	} else {
		g.ev(evProbe, 0)
	}
	g.stmt()
	if locals {
		g.ev(evBlkEnd, sc.id)
	}
	g.pop()
	g.ind = save
	g.line("}")
}

func (g *gen) kindIndex(k string) (int, bool) {
	for i, x := range g.kinds {
		if x == k {
			return i, true
		}
	}
	return 0, false
}
func (g *gen) intKind() string {
	for _, k := range g.kinds {
		if intSlots(k) == 1 && k != "bool" && k != "float64" {
			return k
		}
	}
	return "int"
}

// closure declares c := func(...) K { ... } in the current scope (declarations allowed here)
func (g *gen) closure() {
	k := g.kind()
	withArg := g.r.Chance(1, 3)
	named := g.r.Chance(1, 4)
	c := g.name("c")
	typ := "func() " + k
	sig := "func() " + k
	arg := ""
	res := ""
	if withArg {
		arg = g.name("a")
		typ = "func(" + k + ") " + k
		sig = "func(" + arg + " " + k + ") " + k
	}
	if named {
		res = g.name("r")
		sig = strings.TrimSuffix(sig, " "+k) + " (" + res + " " + k + ")"
	}
	bodyEnv := g.r.Chance(2, 3)
	g.nfid++
	fid := g.nfid
	saveFn := g.fn
	g.fn = &fnctx{id: fid, lit: true, results: []string{k}, outer: saveFn, bodyEnv: bodyEnv}
	g.line("%s := %s {", c, sig)
	g.ind++
	fs := g.push(true, false) // function frame: params and results
	if withArg {
		g.declare(arg, k)
	}
	if named {
		g.declare(res, k)
		g.fn.named = []string{res}
	} else {
		fs.ni += intSlots(k) // unnamed result still has a bind
		if intSlots(k) == 0 {
			fs.nv++
		}
	}
	bs := g.push(bodyEnv, bodyEnv)
	g.prog.Funs[fid] = funInfo{BodyScope: map[bool]int{true: bs.id, false: 0}[bodyEnv]}
	g.ev(evCall, fid)
	if bodyEnv {
		g.declStmt()
	}
	n := 1 + g.r.Intn(3)
	for i := 0; i < n; i++ {
		g.stmt()
	}
	// mutate one captured variable so that sharing is observable
	if v := g.pickVar(k); v != nil {
		g.incr(k, v.name)
	}
	if g.r.Chance(1, 5) {
		g.earlyReturn()
	}
	g.ev(evRet, fid)
	if named {
		g.line("%s = %s", res, g.expr(k, 2))
		g.line("return")
	} else {
		g.line("return %s", g.expr(k, 2))
	}
	g.pop()
	g.pop()
	g.ind--
	g.line("}")
	g.fn = saveFn
	g.ev(evClos, fid)
	g.line("_ = %s", c)
	g.declare(c, typ)
	g.feat(fmt.Sprintf("closure_depth%d", min(g.litDepth()+1, 4)))
	if g.r.Chance(1, 3) {
		g.emitCall(c, typ, k)
	}
}

// hideNamed: while the known finding reproduces, the operands of `return e1, e2, ...` do not read named results
func (g *gen) hideNamed(f *fnctx) {
	if g.avoid.NamedReturn && len(f.named) > 1 {
		g.hide = map[string]bool{}
		for _, n := range f.named {
			g.hide[n] = true
		}
	}
}

func (g *gen) litDepth() int {
	n := 0
	for f := g.fn; f != nil; f = f.outer {
		if f.lit {
			n++
		}
	}
	return n
}

func (g *gen) emitCall(c, typ, k string) {
	if strings.HasPrefix(typ, "func() ") {
		g.emit(k, c+"()")
	} else {
		g.emit(k, c+"("+g.expr(k, 1)+")")
	}
	g.ev(evProbe, 0)
}

// earlyReturn: `if cond { ev(ret); return ... }` for functions whose results are all scalars
func (g *gen) earlyReturn() {
	f := g.fn
	for _, t := range f.results {
		if !isScalar(t) {
			return
		}
	}
	k := g.intKind()
	g.line("if %s == %s {", g.expr(k, 1), g.expr(k, 1))
	g.ind++
	g.ev(evRet, f.id)
	if len(f.named) > 0 && g.r.Bool() {
		g.line("return")
	} else {
		g.hideNamed(f)
		var es []string
		for _, t := range f.results {
			es = append(es, g.expr(t, 1))
		}
		g.hide = nil
		g.line("return %s", strings.Join(es, ", "))
	}
	g.ind--
	g.line("}")
	g.feat("early_return")
}

// callFun emits a call statement to top-level function f, binding or discarding its results
func (g *gen) callFun(f *fun, depthArg int) {
	var args []string
	for i, t := range f.params {
		if i == 0 && f.depth {
			args = append(args, fmt.Sprint(depthArg))
			continue
		}
		args = append(args, g.expr(t, 1))
	}
	if f.variadic != "" {
		n := g.r.Intn(4)
		for i := 0; i < n; i++ {
			args = append(args, g.expr(f.variadic, 1))
		}
		g.feat("variadic_call")
	}
	call := fmt.Sprintf("%s(%s)", f.name, strings.Join(args, ", "))
	if len(f.results) == 0 {
		g.line("%s", call)
		g.ev(evProbe, 0)
		return
	}
	if g.top().declOK {
		var names []string
		for range f.results {
			names = append(names, g.name("q"))
		}
		g.line("%s := %s", strings.Join(names, ", "), call)
		g.ev(evProbe, 0)
		for i, t := range f.results {
			g.declare(names[i], t)
			g.line("_ = %s", names[i])
		}
		// use the results right away sometimes
		for i, t := range f.results {
			if isScalar(t) && g.r.Bool() {
				g.emit(t, names[i])
			} else if strings.HasPrefix(t, "func() ") && g.r.Bool() {
				g.emit(strings.TrimPrefix(t, "func() "), names[i]+"()")
				g.ev(evProbe, 0)
			} else if strings.HasPrefix(t, "*") && g.r.Bool() {
				g.emit(t[1:], "*"+names[i])
			}
		}
		if len(f.results) > 1 {
			g.feat("multi_result_call")
		}
		return
	}
	if len(f.results) == 1 && isScalar(f.results[0]) {
		g.emit(f.results[0], call)
		g.ev(evProbe, 0)
		return
	}
	us := strings.TrimSuffix(strings.Repeat("_, ", len(f.results)), ", ")
	g.line("%s = %s", us, call)
	g.ev(evProbe, 0)
}

// ---- top-level declarations ----

func (g *gen) startDecl() { g.sb = &strings.Builder{}; g.ind = 0 }
func (g *gen) endDecl()   { g.prog.Decls = append(g.prog.Decls, g.sb.String()) }

func (g *gen) resultType() string {
	k := g.kind()
	switch g.r.Intn(6) {
	case 0, 1:
		return "func() " + k
	case 2:
		if k == "complex128" && g.avoid.AddrComplex {
			return k
		}
		return "*" + k
	}
	return k
}

// value of type t for a return statement; may emit statements first. inside a top-level function body.
func (g *gen) valueOf(t string) string {
	switch {
	case isScalar(t):
		return g.expr(t, 2)
	case strings.HasPrefix(t, "*"):
		if p := g.pickVar(t); p != nil && g.r.Bool() {
			return p.name
		}
		k := t[1:]
		v := g.pickVar(k)
		if v == nil || g.upn(v) != 0 && g.r.Bool() {
			nm := g.name("v")
			g.line("%s := %s(%s)", nm, k, g.expr(k, 1))
			g.line("_ = %s", nm)
			v = g.declare(nm, k)
		}
		p := g.name("p")
		g.line("%s := &%s", p, v.name)
		g.line("_ = %s", p)
		if intSlots(k) > 0 {
			g.ev(evAddr, g.upn(v))
			g.feat("escape_ptr_result")
		}
		g.declare(p, t)
		return p
	default: // func() K
		if c := g.pickVar(t); c != nil && g.r.Bool() {
			return c.name
		}
		k := strings.TrimPrefix(t, "func() ")
		for i := 0; i < 6; i++ {
			before := len(g.varsOf(t))
			saveK := g.kinds
			g.kinds = []string{k}
			g.budget += 3
			g.closureOfKind(k)
			g.kinds = saveK
			vs := g.varsOf(t)
			if len(vs) > before {
				g.feat("escape_closure_result")
				return vs[len(vs)-1].name
			}
		}
		return "nil"
	}
}

// closureOfKind forces a `func() k` closure
func (g *gen) closureOfKind(k string) {
	for i := 0; i < 20; i++ {
		before := len(g.varsOf("func() " + k))
		g.closure()
		if len(g.varsOf("func() "+k)) > before {
			return
		}
	}
}

func (g *gen) topFunc(leaf bool) {
	g.startDecl()
	g.nfid++
	f := &fun{name: g.name("f"), id: g.nfid, leaf: leaf}
	np := g.r.Intn(4)
	var pnames []string
	if !leaf && g.r.Bool() {
		f.depth = true
		f.params = append(f.params, "int")
		pnames = append(pnames, g.name("d"))
	}
	for i := 0; i < np; i++ {
		f.params = append(f.params, g.kind())
		pnames = append(pnames, g.name("a"))
	}
	if g.r.Chance(1, 4) {
		f.variadic = g.kind()
	}
	nr := g.r.Intn(4)
	for i := 0; i < nr; i++ {
		if leaf {
			f.results = append(f.results, g.kind())
		} else {
			f.results = append(f.results, g.resultType())
		}
	}
	named := nr > 0 && g.r.Chance(1, 3)
	g.fn = &fnctx{id: f.id, results: f.results}
	fs := g.push(true, true)
	var ps []string
	for i, t := range f.params {
		ps = append(ps, pnames[i]+" "+t)
		v := g.declare(pnames[i], t)
		if i == 0 && f.depth {
			v.typ = "depth" // never picked by the random statements: the recursion must terminate
		}
	}
	xs := ""
	if f.variadic != "" {
		xs = g.name("xs")
		ps = append(ps, xs+" ..."+f.variadic)
		fs.nv++
	}
	var rs []string
	for _, t := range f.results {
		if named {
			r := g.name("r")
			rs = append(rs, r+" "+t)
			v := g.declare(r, t)
			if !isScalar(t) {
				v.typ = "result:" + t // nil until assigned: never picked by the random statements
			}
			g.fn.named = append(g.fn.named, r)
		} else {
			rs = append(rs, t)
			if n := intSlots(t); n > 0 {
				fs.ni += n
			} else {
				fs.nv++
			}
		}
	}
	res := ""
	if len(rs) > 0 {
		res = " (" + strings.Join(rs, ", ") + ")"
	}
	g.line("func %s(%s)%s {", f.name, strings.Join(ps, ", "), res)
	g.ind++
	g.prog.Funs[f.id] = funInfo{}
	g.ev(evCall, f.id)
	g.budget = 6 + g.r.Intn(10)
	if leaf {
		g.budget = 2 + g.r.Intn(4)
	}
	if xs != "" {
		k := f.variadic
		n := g.name("n")
		g.line("%s := len(%s)", n, xs)
		g.declare(n, "int")
		g.line("if %s > 0 {", n)
		g.ind++
		g.emit(k, xs+"[0]")
		g.emit(k, xs+"["+n+"-1]")
		g.ind--
		g.line("}")
		g.feat("variadic_func")
	}
	nst := 2 + g.r.Intn(5)
	recAt := -1
	if f.depth {
		recAt = g.r.Intn(nst)
	}
	for i := 0; i < nst; i++ {
		if i == recAt {
			g.line("if %s > 0 {", pnames[0])
			g.ind++
			sc := g.push(false, false)
			_ = sc
			g.callFunDepth(f, pnames[0]+" - 1")
			g.pop()
			g.ind--
			g.line("}")
			g.feat("recursion")
			continue
		}
		g.stmt()
	}
	if len(f.results) > 0 && g.r.Chance(1, 4) {
		g.earlyReturn()
	}
	if len(f.results) == 0 {
		g.ev(evRet, f.id)
	} else if named && g.r.Bool() {
		for i, t := range f.results {
			g.line("%s = %s", g.fn.named[i], g.valueOf(t))
		}
		g.ev(evRet, f.id)
		g.line("return")
		g.feat("named_results_bare_return")
	} else {
		g.hideNamed(g.fn)
		var vs []string
		for _, t := range f.results {
			vs = append(vs, g.valueOf(t))
		}
		g.hide = nil
		if len(g.fn.named) > 1 {
			g.feat("named_results_return_values")
		}
		g.ev(evRet, f.id)
		g.line("return %s", strings.Join(vs, ", "))
	}
	g.pop()
	g.ind--
	g.line("}")
	g.fn = nil
	g.endDecl()
	g.funs = append(g.funs, f)
}

// recursive self call with an explicit depth expression; results discarded or emitted
func (g *gen) callFunDepth(f *fun, depth string) {
	var args []string
	for i, t := range f.params {
		if i == 0 {
			args = append(args, depth)
			continue
		}
		args = append(args, g.expr(t, 1))
	}
	call := fmt.Sprintf("%s(%s)", f.name, strings.Join(args, ", "))
	switch {
	case len(f.results) == 0:
		g.line("%s", call)
	case len(f.results) == 1 && isScalar(f.results[0]):
		g.emit(f.results[0], call)
	default:
		us := strings.TrimSuffix(strings.Repeat("_, ", len(f.results)), ", ")
		g.line("%s = %s", us, call)
	}
	g.ev(evProbe, 0)
}

// churn: deep recursion that fills the pool; every third level keeps its frame alive through a closure
func (g *gen) churnFunc() *fun {
	g.startDecl()
	g.nfid++
	f := &fun{name: g.name("churn"), id: g.nfid, params: []string{"int"}, results: []string{"int"}, depth: true}
	d, x, t := g.name("d"), g.name("x"), g.name("t")
	keep := g.r.Intn(4) // 0: never keep
	g.fn = &fnctx{id: f.id, results: f.results}
	fs := g.push(true, true)
	g.declare(d, "int")
	fs.ni++ // unnamed result
	g.line("func %s(%s int) int {", f.name, d)
	g.ind++
	g.ev(evCall, f.id)
	g.line("if %s <= 0 {", d)
	g.ind++
	g.ev(evRet, f.id)
	g.line("return 0")
	g.ind--
	g.line("}")
	g.line("%s := %s * 2", x, d)
	g.declare(x, "int")
	if keep > 0 {
		g.line("if %s %% %d == 0 {", d, keep+1)
		g.ind++
		g.push(false, false)
		g.nfid++
		lid := g.nfid
		g.prog.Funs[lid] = funInfo{}
		g.line("%sgf_int = append(%sgf_int, func() int { ev(1, %d); %s++; ev(2, %d); return %s })", g.pfx, g.pfx, lid, x, lid, x)
		g.ev(evClos, lid)
		g.pop()
		g.ind--
		g.line("}")
		g.feat("churn_keeps_frames")
	}
	g.line("%s := %s(%s - 1)", t, f.name, d)
	g.declare(t, "int")
	g.ev(evProbe, 0)
	g.ev(evRet, f.id)
	g.line("return %s + %s", t, x)
	g.prog.Funs[f.id] = funInfo{}
	g.pop()
	g.ind--
	g.line("}")
	g.fn = nil
	g.endDecl()
	g.feat("churn_func")
	return f
}

// struct type with a pointer-receiver and a value-receiver method; method values are taken in run()
func (g *gen) structType() {
	k := g.intKind()
	g.structK = k
	T := g.pfx + "T"
	g.startDecl()
	g.line("type %s struct { n %s; s string }", T, k)
	g.endDecl()
	for _, ptr := range []bool{true, false} {
		g.startDecl()
		g.nfid++
		fid := g.nfid
		recv, d := g.name("c"), g.name("d")
		bodyEnv := g.r.Bool()
		g.fn = &fnctx{id: fid, lit: true, results: []string{k}, bodyEnv: bodyEnv}
		fs := g.push(true, false)
		fs.nv++ // receiver
		g.declare(d, k)
		fs.ni += 1 // unnamed result
		name, rt := "Inc", "*"+T
		if !ptr {
			name, rt = "Get", T
		}
		g.line("func (%s %s) %s(%s %s) %s {", recv, rt, name, d, k, k)
		g.ind++
		bs := g.push(bodyEnv, bodyEnv)
		g.prog.Funs[fid] = funInfo{BodyScope: map[bool]int{true: bs.id, false: 0}[bodyEnv]}
		g.ev(evCall, fid)
		if bodyEnv {
			g.declStmt()
		}
		g.budget = 3
		g.stmt()
		if ptr {
			g.line("%s.n += %s", recv, d)
		}
		g.ev(evRet, fid)
		g.line("return %s.n + %s", recv, d)
		g.pop()
		g.pop()
		g.ind--
		g.line("}")
		g.fn = nil
		g.endDecl()
	}
}

func genProgram(r *vh.Rng, idx int, av avoid) *program {
	g := &gen{avoid: av, r: r, pfx: fmt.Sprintf("P%d_", idx), prog: &program{Scopes: map[int]scopeInfo{}, Funs: map[int]funInfo{}, Feat: map[string]int{}}}
	// kinds: int plus 1..3 others
	g.kinds = []string{"int"}
	for len(g.kinds) < 2+r.Intn(3) {
		k := allKinds[r.Intn(len(allKinds))]
		if _, ok := g.kindIndex(k); !ok {
			g.kinds = append(g.kinds, k)
		}
	}
	for _, k := range g.kinds {
		g.feat("kind_" + k)
		g.startDecl()
		g.line("var %sgf_%s []func() %s", g.pfx, k, k)
		g.endDecl()
		g.startDecl()
		g.line("var %sgp_%s []*%s", g.pfx, k, k)
		g.endDecl()
		g.startDecl()
		g.line("var %sgm_%s = map[string]*%s{}", g.pfx, k, k)
		g.endDecl()
		g.startDecl()
		g.line("type %sH_%s struct { f func() %s }", g.pfx, k, k)
		g.endDecl()
		g.startDecl()
		g.line("var %sgh_%s %sH_%s", g.pfx, k, g.pfx, k)
		g.endDecl()
	}
	g.structType()
	nleaf := 1 + r.Intn(2)
	for i := 0; i < nleaf; i++ {
		g.topFunc(true)
	}
	nf := 2 + r.Intn(4)
	for i := 0; i < nf; i++ {
		g.topFunc(false)
	}
	churn := g.churnFunc()
	// run(): the driver
	g.startDecl()
	g.nfid++
	rid := g.nfid
	g.prog.Run = g.pfx + "run"
	g.fn = &fnctx{id: rid}
	g.push(true, true)
	g.prog.Funs[rid] = funInfo{}
	g.line("func %s() {", g.prog.Run)
	g.ind++
	g.ev(evCall, rid)
	g.driver = true
	T := g.pfx + "T"
	o := g.name("o")
	g.line("%s := &%s{n: %s, s: \"x\"}", o, T, g.lit(g.structK))
	g.line("_ = %s", o)
	g.declare(o, "*"+T)
	nact := 8 + r.Intn(14)
	for i := 0; i < nact; i++ {
		g.budget = 4
		switch x := r.Intn(12); {
		case x < 4:
			f := g.funs[r.Intn(len(g.funs))]
			d := 0
			if f.depth {
				d = r.Intn(4)
				if r.Chance(1, 6) {
					d = 33 + r.Intn(8)
					g.feat("deep_recursion_gt32")
				}
			}
			g.callFun(f, d)
		case x < 6:
			g.callFun(churn, []int{3, 20, 34, 40, 45}[r.Intn(5)])
			g.feat("churn_call")
		case x < 9:
			g.useHolder()
		case x < 10:
			// method values
			m := g.name("m")
			k := g.structK
			if r.Bool() || g.avoid.MethodValue {
				g.line("%s := %s.Inc", m, o)
				g.feat("method_value_ptr")
			} else {
				g.line("%s := %s.Get", m, o)
				g.feat("method_value_val")
			}
			g.declare(m, "func("+k+") "+k)
			g.emit(k, m+"("+g.lit(k)+")")
			g.ev(evProbe, 0)
			if r.Bool() {
				g.emit(k, fmt.Sprintf("(*%s).Inc(%s, %s)", T, o, g.lit(k)))
				g.ev(evProbe, 0)
				g.feat("method_expr")
			}
		default:
			g.stmt()
		}
	}
	// final read-out of everything that escaped
	for _, k := range g.kinds {
		g.readLoop(fmt.Sprintf("%sgf_%s", g.pfx, k), func(i string) { g.emit(k, fmt.Sprintf("%sgf_%s[%s]()", g.pfx, k, i)) })
		g.readLoop(fmt.Sprintf("%sgp_%s", g.pfx, k), func(i string) { g.emit(k, fmt.Sprintf("*%sgp_%s[%s]", g.pfx, k, i)) })
		for c := 0; c < 4; c++ {
			key := string(rune('a' + c))
			g.line("if %sgm_%s[%q] != nil {", g.pfx, k, key)
			g.ind++
			g.emit(k, fmt.Sprintf("*%sgm_%s[%q]", g.pfx, k, key))
			g.ind--
			g.line("}")
		}
	}
	g.emit(g.structK, o+".n")
	g.ev(evRet, rid)
	g.pop()
	g.ind--
	g.line("}")
	g.endDecl()
	return g.prog
}

// readLoop: `for i := 0; i < len(sl); i++ { probe; body }` guarded so that the loop runs at least once
// (its init Env is then seen by the probe at the start of the body)
func (g *gen) readLoop(sl string, body func(i string)) {
	i := g.name("i")
	g.line("if len(%s) > 0 {", sl)
	g.ind++
	g.push(false, false)
	s := g.push(true, false)
	g.ev(evPre, s.id)
	g.declare(i, "int")
	g.line("for %s := 0; %s < len(%s); %s++ {", i, i, sl, i)
	g.ind++
	g.push(false, false)
	g.ev(evProbe, 0)
	body(i)
	g.ev(evProbe, 0)
	g.pop()
	g.ind--
	g.line("}")
	g.pop()
	g.ev(evPost, s.id)
	g.pop()
	g.ind--
	g.line("}")
}

func min(a, b int) int {
	if a < b {
		return a
	}
	return b
}

// c06: function calls, closures and frame recycling (fast/compile.go newEnv4Func/NewEnv/freeEnv/MarkUsedByClosure,
// fast/function.go, fast/address.go).
//
// Every generated program (gen.go) is executed
//   (a) by gomacro, normally,
//   (b) by gomacro with POOL POISONING: at every probe the Vals/Ints of every frame sitting in Run.Pool are
//       overwritten with garbage over their full capacity (semantically neutral iff no pooled frame is reachable),
//   (c) compiled with `go build` (batched oracle module, go 1.18).
// Direct oracle: the emitted traces of (a), (b), (c) are identical; the heap predicates of the property hold on the
// implementation's own heap at every probe (pooled frames are unmarked, have no address taken, are not on the
// active chain; marked frames have marked outers).
// Correspondence: the history of frame operations reconstructed from the probes, with what the probes saw
// (pool size, top of pool, identity/outer/sizes of each newly occupied frame, final dump of every frame), is
// replayed by the Coq model (cases_NNN.v).
package main

import (
	"context"
	"crypto/sha256"
	"encoding/hex"
	"encoding/json"
	"fmt"
	"io"
	"os"
	"os/exec"
	"path/filepath"
	"sort"
	"strings"
	"time"

	"github.com/cosmos72/gomacro/fast"
	xr "github.com/cosmos72/gomacro/xreflect"
	"verifh/vh"
)

const maxEvents = 60000

type event struct {
	kind, arg int
	pool      int
	top       int // id of Pool[PoolSize-1] or -1
	cur       frameObs // Run.CurrEnv at the probe
	curOuter  frameObs // its Outer
}

// what a probe sees of one frame (captured at probe time: a freed frame loses its Outer)
type frameObs struct {
	id, outer, nv, ni int
}

func (r *runner) obs(e *fast.Env) frameObs {
	if e == nil {
		return frameObs{id: -1, outer: -1}
	}
	return frameObs{r.register(e), r.register(e.Outer), len(e.Vals), len(e.Ints)}
}

type runner struct {
	ir      *fast.Interp
	run     *fast.Run
	file    *fast.Env
	poison  bool
	ids     map[*fast.Env]int
	order   []*fast.Env
	events  []event
	trace   []string
	heapErr string
	over    bool
	npoison int
}

type overflow struct{}

func newRunner(poison bool) *runner {
	r := &runner{poison: poison}
	r.ir = fast.New()
	r.ir.Comp.Globals.Stderr = io.Discard
	r.ir.Comp.Globals.Stdout = io.Discard
	r.file = r.ir.PrepareEnv()
	r.run = r.file.Run
	r.ir.DeclFunc("ev", func(k, a int) { r.ev(k, a) })
	r.ir.DeclFunc("emit", func(x int) { r.trace = append(r.trace, fmt.Sprint(x)) })
	r.ir.DeclFunc("emitb", func(x bool) { r.trace = append(r.trace, fmt.Sprint(x)) })
	r.ir.DeclFunc("emits", func(x string) { r.trace = append(r.trace, "s:"+x) })
	// callf(fid, f): probe "the function literal fid was evaluated in the current Env", then call it (matrix.go)
	r.ir.DeclFunc("callf", func(fid int, f func()) { r.ev(evClos, fid); f() })
	return r
}

func (r *runner) reset() {
	// start every program from an empty pool (the pool is a cache: dropping its content is neutral)
	for i := range r.run.Pool {
		r.run.Pool[i] = nil
	}
	r.run.PoolSize = 0
	r.ids = map[*fast.Env]int{}
	r.order = nil
	r.events = nil
	r.trace = nil
	r.heapErr = ""
	r.over = false
	r.register(r.file.Outer)
	r.register(r.file)
}

func (r *runner) register(e *fast.Env) int {
	if e == nil {
		return -1
	}
	if id, ok := r.ids[e]; ok {
		return id
	}
	if e.Outer != nil {
		r.register(e.Outer) // outermost first = allocation order
	}
	id := len(r.order)
	r.ids[e] = id
	r.order = append(r.order, e)
	return id
}

func (r *runner) ev(kind, arg int) {
	run := r.run
	if len(r.events) >= maxEvents {
		r.over = true
		panic(overflow{})
	}
	cur := run.CurrEnv
	r.register(cur)
	top := -1
	if run.PoolSize > 0 {
		top = r.register(run.Pool[run.PoolSize-1])
	}
	evt := event{kind: kind, arg: arg, pool: run.PoolSize, top: top, cur: r.obs(cur), curOuter: frameObs{id: -1, outer: -1}}
	if cur != nil {
		evt.curOuter = r.obs(cur.Outer)
	}
	r.events = append(r.events, evt)
	// heap predicates of the property, evaluated on the implementation's own heap
	if r.heapErr == "" {
		inPool := map[*fast.Env]bool{}
		for i := 0; i < run.PoolSize; i++ {
			e := run.Pool[i]
			switch {
			case e == nil:
				r.heapErr = "nil entry in pool"
			case e.UsedByClosure:
				r.heapErr = "pooled frame is UsedByClosure"
			case e.IntAddressTaken:
				r.heapErr = "pooled frame has IntAddressTaken"
			case e.Outer != nil:
				r.heapErr = "pooled frame keeps Outer"
			case inPool[e]:
				r.heapErr = "frame twice in pool"
			}
			inPool[e] = true
		}
		n := 0
		for e := cur; e != nil && n < 10000; e, n = e.Outer, n+1 {
			if inPool[e] {
				r.heapErr = "frame on the active Outer chain is in the pool"
			}
			if e.UsedByClosure && e.Outer != nil && !e.Outer.UsedByClosure {
				r.heapErr = "marked frame with unmarked Outer"
			}
		}
		for _, e := range r.order {
			if e.UsedByClosure && inPool[e] {
				r.heapErr = "marked frame in pool"
			}
		}
		if r.heapErr != "" {
			r.heapErr += fmt.Sprintf(" (event %d kind %d)", len(r.events)-1, kind)
		}
	}
	if r.poison {
		for i := 0; i < run.PoolSize; i++ {
			e := run.Pool[i]
			if e == nil {
				continue
			}
			vals := e.Vals[:cap(e.Vals)]
			for j := range vals {
				if (j+r.npoison)%2 == 0 {
					vals[j] = xr.Value{}
				} else {
					vals[j] = xr.ValueOf("POISON")
				}
			}
			ints := e.Ints[:cap(e.Ints)]
			for j := range ints {
				ints[j] = 0xDEADBEEFDEADBEEF
			}
		}
		r.npoison++
	}
}

func classify(p interface{}) string {
	s := fmt.Sprint(p)
	switch {
	case strings.Contains(s, "nil pointer") || strings.Contains(s, "nil map") || strings.Contains(s, "invalid memory"):
		return "panic:nil"
	case strings.Contains(s, "index out of range"):
		return "panic:index"
	}
	return "panic:other"
}

// exec runs one program; returns the trace (with a final "panic:*" entry if it panicked) or a compile error
func (r *runner) exec(p *program) (trace []string, compileErr string) {
	r.reset()
	for _, d := range p.Decls {
		if e := vh.Catch(func() { r.ir.Eval(d) }); e != nil {
			return nil, fmt.Sprintf("%v\n-- in declaration:\n%s", e, d)
		}
	}
	r.reset()
	if e := vh.Catch(func() { r.ir.Eval(p.Run + "()") }); e != nil {
		if _, ok := e.(overflow); ok || r.over {
			return nil, ""
		}
		r.trace = append(r.trace, classify(e)+" "+firstLine(fmt.Sprint(e)))
	}
	return r.trace, ""
}

// canary evaluates decl then call and compares the printed results
func (r *runner) canary(decl, call, want string) bool {
	got := ""
	if e := vh.Catch(func() {
		r.ir.Eval(decl)
		vs, _ := r.ir.Eval(call)
		var ss []string
		for _, v := range vs {
			ss = append(ss, fmt.Sprint(v.ReflectValue().Interface()))
		}
		got = strings.Join(ss, " ")
	}); e != nil {
		return false
	}
	return got == want
}

func firstLine(s string) string {
	if i := strings.IndexByte(s, '\n'); i >= 0 {
		s = s[:i]
	}
	if len(s) > 200 {
		s = s[:200]
	}
	return s
}

// ---------- events -> Coq items ----------
func optN(id int) string {
	if id < 0 {
		return "None"
	}
	return fmt.Sprintf("(Some %d)", id)
}

func (r *runner) items(p *program) (items []string, nOps map[string]int, err string) {
	nOps = map[string]int{}
	add := func(s string) { items = append(items, s) }
	op := func(name, s string) { nOps[name]++; add("IOp (" + s + ")") }
	pool := func(e event) { add(fmt.Sprintf("IPool %d %s", e.pool, optN(e.top))) }
	frame := func(o frameObs) {
		add(fmt.Sprintf("IFrame %d %s %d %d", o.id, optN(o.outer), o.nv, o.ni))
	}
	for i, e := range r.events {
		switch e.kind {
		case evCall:
			fi := p.Funs[e.arg]
			ff := e.cur
			if fi.BodyScope != 0 {
				ff = e.curOuter
			}
			if ff.id < 0 || ff.outer < 0 {
				return nil, nil, fmt.Sprintf("event %d: function frame without Outer", i)
			}
			nOps["OCall"]++
			add(fmt.Sprintf("ICallEnv %d %d %d", ff.outer, ff.nv, ff.ni))
			if fi.BodyScope != 0 {
				si := p.Scopes[fi.BodyScope]
				op("OBlock", fmt.Sprintf("OBlock %d %d", si.Nv, si.Ni))
			}
			frame(e.cur)
			pool(e)
		case evRet:
			pool(e)
			op("ORet", "ORet []")
		case evBlock:
			si := p.Scopes[e.arg]
			op("OBlock", fmt.Sprintf("OBlock %d %d", si.Nv, si.Ni))
			if e.cur.id < 0 {
				return nil, nil, fmt.Sprintf("event %d: CurrEnv nil at block entry", i)
			}
			frame(e.cur)
			pool(e)
		case evBlkEnd:
			pool(e)
			op("OBlockEnd", "OBlockEnd")
		case evLeave:
			pool(e)
			op("OLeave", fmt.Sprintf("OLeave %d", e.arg))
		case evClos:
			op("OClosure", "OClosure")
			pool(e)
		case evAddr:
			op("OAddr", fmt.Sprintf("OAddr %d 0", e.arg))
			pool(e)
		case evProbe:
			pool(e)
		case evPre:
			pool(e)
			si := p.Scopes[e.arg]
			op("OBlock", fmt.Sprintf("OBlock %d %d", si.Nv, si.Ni))
		case evPost:
			op("OBlockEnd", "OBlockEnd")
			pool(e)
		}
	}
	return items, nOps, ""
}

func (r *runner) dump() []string {
	inPool := map[*fast.Env]bool{}
	for i := 0; i < r.run.PoolSize; i++ {
		inPool[r.run.Pool[i]] = true
	}
	var out []string
	for id := 2; id < len(r.order); id++ {
		e := r.order[id]
		out = append(out, fmt.Sprintf("mkDump %s %s %d %d %s %s", vh.CoqBool(e.UsedByClosure), vh.CoqBool(e.IntAddressTaken),
			cap(e.Ints), cap(e.Vals), optN(r.idOrNone(e.Outer)), vh.CoqBool(inPool[e])))
	}
	return out
}
func (r *runner) idOrNone(e *fast.Env) int {
	if e == nil {
		return -1
	}
	if id, ok := r.ids[e]; ok {
		return id
	}
	return -2
}

// ---------- compiled-Go oracle ----------
const oraclePrelude = `package %s

import "fmt"

var Out []string

var nev int

func ev(k, a int) {
	nev++
	if nev > %d {
		panic("event budget")
	}
}
func emit(x int)     { Out = append(Out, fmt.Sprint(x)) }
func emitb(x bool)   { Out = append(Out, fmt.Sprint(x)) }
func emits(x string) { Out = append(Out, "s:"+x) }
func callf(fid int, f func()) { ev(6, fid); f() }

func Run() (p interface{}) {
	defer func() { p = recover() }()
	%s()
	return nil
}

`

func buildOracle(a *vh.Args, progs []*program, base int) (map[int][]string, error) {
	dir, _ := filepath.Abs(a.Path(fmt.Sprintf("oracle/b%d", base)))
	os.RemoveAll(dir)
	os.MkdirAll(dir, 0o755)
	os.WriteFile(filepath.Join(dir, "go.mod"), []byte("module c06oracle\n\ngo 1.18\n"), 0o644)
	var imports, calls strings.Builder
	for i, p := range progs {
		pkg := fmt.Sprintf("p%d", base+i)
		os.MkdirAll(filepath.Join(dir, pkg), 0o755)
		src := fmt.Sprintf(oraclePrelude, pkg, maxEvents, p.Run) + strings.Join(p.Decls, "\n")
		os.WriteFile(filepath.Join(dir, pkg, "p.go"), []byte(src), 0o644)
		fmt.Fprintf(&imports, "\t\"c06oracle/%s\"\n", pkg)
		fmt.Fprintf(&calls, "\tone(%d, %s.Run, &%s.Out)\n", base+i, pkg, pkg)
	}
	main := `package main

import (
	"encoding/json"
	"fmt"
	"os"
	"strings"
` + imports.String() + `)

func classify(p interface{}) string {
	s := fmt.Sprint(p)
	switch {
	case s == "event budget":
		return "overflow"
	case strings.Contains(s, "nil pointer") || strings.Contains(s, "nil map") || strings.Contains(s, "invalid memory"):
		return "panic:nil"
	case strings.Contains(s, "index out of range"):
		return "panic:index"
	}
	return "panic:other"
}

var enc = json.NewEncoder(os.Stdout)

func one(idx int, run func() interface{}, out *[]string) {
	p := run()
	o := *out
	if p != nil {
		o = append(o, classify(p))
	}
	enc.Encode(map[string]interface{}{"idx": idx, "out": o})
}

func main() {
` + calls.String() + `}
`
	os.WriteFile(filepath.Join(dir, "main.go"), []byte(main), 0o644)
	env := append(os.Environ(), "GOFLAGS=-mod=mod", "GOPROXY=off", "GOSUMDB=off", "GOTOOLCHAIN=local", "GO111MODULE=on")
	cmd := exec.Command("go", "build", "-o", "oracle.bin", ".")
	cmd.Dir = dir
	cmd.Env = env
	if out, err := cmd.CombinedOutput(); err != nil {
		return nil, fmt.Errorf("go build of the oracle batch failed: %v\n%s", err, out)
	}
	ctx, cancel := context.WithTimeout(context.Background(), 5*time.Minute)
	defer cancel()
	run := exec.CommandContext(ctx, filepath.Join(dir, "oracle.bin"))
	run.Dir = dir
	outb, err := run.Output()
	if err != nil {
		return nil, fmt.Errorf("oracle run failed: %v", err)
	}
	res := map[int][]string{}
	dec := json.NewDecoder(strings.NewReader(string(outb)))
	for dec.More() {
		var o struct {
			Idx int      `json:"idx"`
			Out []string `json:"out"`
		}
		if err := dec.Decode(&o); err != nil {
			return nil, err
		}
		if o.Out == nil {
			o.Out = []string{}
		}
		res[o.Idx] = o.Out
	}
	return res, nil
}

func normTrace(t []string) []string {
	out := make([]string, len(t))
	for i, s := range t {
		if strings.HasPrefix(s, "panic:") {
			if j := strings.IndexByte(s, ' '); j > 0 {
				s = s[:j]
			}
		}
		out[i] = s
	}
	return out
}

func diffAt(a, b []string) string {
	for i := 0; i < len(a) || i < len(b); i++ {
		var x, y string = "<end>", "<end>"
		if i < len(a) {
			x = a[i]
		}
		if i < len(b) {
			y = b[i]
		}
		if x != y {
			return fmt.Sprintf("first difference at output %d: got %s, want %s (lengths %d, %d)", i, x, y, len(a), len(b))
		}
	}
	return ""
}

type caseInput struct {
	Idx    int      `json:"idx"`
	Seed   uint64   `json:"seed"`
	Decls  []string `json:"decls"`
	Run    string   `json:"run"`
	Corpus string   `json:"corpus,omitempty"`
	Matrix string   `json:"matrix,omitempty"` // address matrix (matrix.go): kind, upn and layer shapes of this program
}

func main() {
	a := vh.ParseArgs()
	rng := vh.NewRng(a.Seed)
	rep := vh.NewReport(a, "random Go programs (gen.go): 2-4 scalar kinds (int-slot kinds int/int8/.../uint64/bool/float64/complex128 and val-slot kind string), "+
		"top-level functions with 0-3 params (+variadic), 0-3 named/unnamed results of scalar/pointer/closure type, recursion (depth up to 45 > pool capacity 32), "+
		"nested function literals (with/without body Env), blocks/for/if with and without init and local declarations, break/continue/early return across Envs, "+
		"&x of int-slot and val-slot variables at upn 0..n, closures and pointers escaping through results, global slices, maps and struct fields, method values and method expressions; "+
		"every declaration evaluated by its own Eval, then run() evaluated: (a) normally (b) with the pool poisoned at every probe (c) compiled Go. "+
		"PLUS the address matrix (matrix.go): one instrumented program per int-like kind (16) x upn 0..4 (x 6 rotations of the layer shapes in the thorough tier): &x of a local taken upn Envs "+
		"(blocks with locals, for/if/switch headers with :=, function literals with/without locals) below its owner (function frame, block, literal body), pointer returned / stored in a global / "+
		"a slice / a closure, maker called twice, 44 churn calls, pointers compared, read, written, churned and read again. "+
		"A program is non-trivial when it performed >=1 pool hit (a frame taken from the pool) and created >=1 closure or int pointer that was used after its creating call returned; distinct by SHA-256 of the source")
	n, perShard, histGroup := 120, 20, 1
	if a.Thorough() {
		// measured 2026-09-22 on the loaded machine with 2500 programs / 320 per shard: oracle 34 min (one package per
		// program, 0.8 s each), gomacro runs 19 min, and the 8 MB case files (25 KB per program case) needed 4+ GB of
		// memory and > 15 min EACH in coqc (8 in parallel exhausted the 62 GB of the machine).  Now: 700 programs in
		// files of 40 (~1 MB), the small history cases (1 KB) packed 10 per entry = 400 per file.
		n, perShard, histGroup = 700, 40, 10
	}
	t0 := time.Now()
	lap := func(what string) { fmt.Fprintf(os.Stderr, "[c06] %-28s %6.1fs\n", what, time.Since(t0).Seconds()) }
	if a.N > 0 {
		n = a.N
	} else if a.N < 0 {
		n = 0 // development: corpus + address matrix only
	}
	var progs []*program
	var inputs []caseInput
	// corpus first: exact programs of past findings
	if dir := os.Getenv("VERIF_DIR"); dir != "" {
		files, _ := filepath.Glob(filepath.Join(dir, "corpus", "C06", "*.json"))
		sort.Strings(files)
		for _, f := range files {
			var ci caseInput
			if b, err := os.ReadFile(f); err == nil && json.Unmarshal(b, &ci) == nil && len(ci.Decls) > 0 {
				progs = append(progs, &program{Decls: ci.Decls, Run: ci.Run, Feat: map[string]int{"corpus": 1}})
				ci.Corpus = filepath.Base(f)
				inputs = append(inputs, ci)
			}
		}
	}
	if a.Replay != "" {
		// replay exactly one recorded program (a replay file written by ./check, or a bare caseInput)
		var rf struct {
			Failure struct {
				Input caseInput `json:"input"`
			} `json:"failure"`
			caseInput
		}
		b, err := os.ReadFile(a.Replay)
		if err != nil || json.Unmarshal(b, &rf) != nil {
			fmt.Println("cannot read replay file", a.Replay, err)
			os.Exit(2)
		}
		ci := rf.Failure.Input
		if len(ci.Decls) == 0 {
			ci = rf.caseInput
		}
		progs = []*program{{Decls: ci.Decls, Run: ci.Run, Feat: map[string]int{"replay": 1}}}
		inputs = []caseInput{ci}
		n = 0
	}
	nCorpus := len(progs)
	// address matrix (matrix.go): every int-like kind x upn 0..4, deterministic (the seed only rotates the layer shapes)
	nMatrix := 0
	if a.Replay == "" {
		for _, p := range mxPrograms(len(progs), a.Seed, a.Thorough()) {
			inputs = append(inputs, caseInput{Idx: len(progs), Seed: a.Seed, Decls: p.Decls, Run: p.Run, Matrix: p.Matrix})
			progs = append(progs, p)
			nMatrix++
		}
	}
	nFixed := len(progs)
	normal, poisoned := newRunner(false), newRunner(true)
	lap("interpreters created")
	// canaries: does the tree under test still show the known findings?  (their exact inputs are in corpus/C06)
	var av avoid
	av.NamedReturn = !normal.canary(`func Canary1() (a int, b int) { a = 1; return 5, a + 1 }`, `Canary1()`, "5 2")
	av.AddrComplex = !normal.canary(`func Canary2() int { var c complex128 = 1; p := &c; *p += 2; return int(real(c)) }`, `Canary2()`, "3")
	av.MethodValue = !normal.canary(`type Canary3 struct{ n int }; func (t Canary3) Get() int { return t.n }`, `c3 := &Canary3{1}; m3 := c3.Get; c3.n = 2; m3()`, "1")
	for i := 0; i < n; i++ {
		sub := rng.Fork()
		p := genProgram(sub, nFixed+i, av)
		progs = append(progs, p)
		inputs = append(inputs, caseInput{Idx: nFixed + i, Seed: a.Seed, Decls: p.Decls, Run: p.Run})
	}
	for i := range inputs {
		inputs[i].Idx = i
	}

	lap("programs generated")
	// (c) compiled Go, in batches
	want := map[int][]string{}
	const batch = 150
	for b := 0; b < len(progs); b += batch {
		e := b + batch
		if e > len(progs) {
			e = len(progs)
		}
		res, err := buildOracle(a, progs[b:e], b)
		if err != nil {
			rep.Fail(vh.Failure{Key: "oracle-build", What: "the compiled-Go oracle could not be built/run (generator bug)", Got: err.Error()})
			rep.Write()
			return
		}
		for k, v := range res {
			want[k] = v
		}
	}

	lap("oracle built and run")
	cw := vh.NewCases(a, "From Coq Require Import List ZArith.\nFrom Verif Require Import C06.Model.\nImport ListNotations.", "case", "mismatches", perShard)
	wd := vh.NewWatchdog(rep, 180*time.Second)
	skipped, nCases := 0, 0
	totalOps := map[string]int{}
	for idx, p := range progs {
		wd.Beat(inputs[idx])
		src := strings.Join(p.Decls, "\n")
		fail := func(what string, got, want interface{}) {
			key := "prog:" + srcHash(src) + ":" + what
			if inputs[idx].Corpus != "" {
				key = "corpus:" + inputs[idx].Corpus
			}
			rep.Fail(vh.Failure{Key: key, What: what, Input: inputs[idx], Got: got, Want: want})
		}
		if w := want[idx]; len(w) > 0 && w[len(w)-1] == "overflow" {
			skipped++ // more than maxEvents probes: too long for the quick comparison, dropped on both sides
			continue
		}
		t1, cerr := normal.exec(p)
		if cerr != "" {
			fail("gomacro rejects a program that go build accepts", cerr, "compiles")
			continue
		}
		if normal.over {
			skipped++
			poisoned.exec(p) // keep both interpreters in the same state
			continue
		}
		t2, cerr2 := poisoned.exec(p)
		if cerr2 != "" {
			fail("gomacro (second interpreter) rejects the program", cerr2, "compiles")
			continue
		}
		w := want[idx]
		if a.Replay != "" {
			fmt.Println("gomacro      :", strings.Join(t1, " "))
			fmt.Println("gomacro+poison:", strings.Join(t2, " "))
			fmt.Println("compiled Go  :", strings.Join(w, " "))
		}
		if d := diffAt(normTrace(t1), w); d != "" {
			fail("gomacro output differs from compiled Go", d+" | tail: "+strings.Join(tail(t1, 3), ","), strings.Join(tail(w, 3), ","))
		}
		if d := diffAt(normTrace(t2), w); d != "" {
			fail("gomacro output with poisoned pool differs from compiled Go (a pooled frame was still in use)", d, strings.Join(tail(w, 3), ","))
		}
		if d := diffAt(t1, t2); d != "" && diffAt(normTrace(t1), w) == "" && diffAt(normTrace(t2), w) == "" {
			fail("gomacro output differs between normal and poisoned pool", d, nil)
		}
		if normal.heapErr != "" {
			fail("heap predicate violated on gomacro's own frames", normal.heapErr, "pooled frames unmarked/unreachable, marked frames upward closed")
		}
		if poisoned.heapErr != "" {
			fail("heap predicate violated on gomacro's own frames (poisoned run)", poisoned.heapErr, nil)
		}
		// the two runs must go through the same pool sizes
		if len(normal.events) == len(poisoned.events) {
			for i := range normal.events {
				if normal.events[i].pool != poisoned.events[i].pool {
					fail("pool size sequence differs between normal and poisoned run", fmt.Sprint("event ", i), nil)
					break
				}
			}
		}
		items, nOps, ierr := normal.items(p)
		if ierr != "" {
			fail("probe saw an impossible frame state", ierr, nil)
			continue
		}
		dump := normal.dump()
		if inputs[idx].Corpus == "" && a.Replay == "" { // corpus programs are not fully instrumented: direct oracle only
			nCases++
		}
		if inputs[idx].Corpus == "" && a.Replay == "" {
			cw.Add(fmt.Sprintf("mkCase %d %s %s %d", idx, vh.CoqList(items, "item"), vh.CoqList(dump, "fdump"), len(normal.order)))
		}
		hits := 0
		for i, e := range normal.events {
			if (e.kind == evCall || e.kind == evBlock) && i > 0 && normal.events[i-1].pool > e.pool {
				hits++
			}
		}
		escapes := 0
		for k, v := range p.Feat {
			if strings.HasPrefix(k, "escape_") || k == "churn_keeps_frames" {
				escapes += v
			}
		}
		rep.Count(src, hits > 0 && escapes > 0)
		for k, v := range nOps {
			totalOps[k] += v
		}
		for k := range p.Feat {
			rep.Dist("feature:" + k)
		}
		rep.Dist(fmt.Sprintf("events:%s", bucket(len(normal.events))))
		rep.Dist(fmt.Sprintf("pool_hits:%s", bucket(hits)))
		rep.Dist(fmt.Sprintf("frames:%s", bucket(len(normal.order))))
		if len(w) > 0 && strings.HasPrefix(w[len(w)-1], "panic:") {
			rep.Dist("outcome:" + w[len(w)-1])
		} else {
			rep.Dist("outcome:normal")
		}
		if idx%29 == 5 {
			rep.Sample(map[string]interface{}{"source": src, "outputs": len(w), "events": len(normal.events), "pool_hits": hits})
		}
		rep.CaseInput(idx, inputs[idx])
	}
	// synthetic operation histories (reads and writes through variables, closures and pointers included): the
	// frame machine with a small pool and with capacity 32 must refine the Go-spec machine (evaluated by vm_compute;
	// the refinement is proved only in the partial forms of Props.v)
	nHist := 150
	if a.Thorough() {
		nHist = 2000
	}
	if a.Replay != "" {
		nHist = 0
	}
	// vh.Cases shards by number of entries; one entry may hold several list elements ("a;\n b"): histGroup histories
	var group []string
	for h := 0; h < nHist; h++ {
		group = append(group, fmt.Sprintf("mkHist %d %d %s", len(progs)+h, 1+rng.Intn(3), vh.CoqList(randomHistory(rng.Fork(), 40+rng.Intn(80)), "op")))
		if len(group) >= histGroup || h == nHist-1 {
			cw.Add(strings.Join(group, ";\n "))
			group = nil
		}
	}
	rep.Extra["synthetic_histories_refinement_checked"] = nHist
	cw.Close()
	lap("gomacro runs done")
	rep.Extra["frame_ops_replayed_by_model"] = totalOps
	rep.Extra["programs_skipped_event_budget"] = skipped
	rep.Extra["corpus_programs"] = nCorpus
	rep.Extra["address_matrix_programs"] = nMatrix
	rep.Extra["programs_replayed_by_model"] = nCases
	rep.Extra["generator_avoids_known_finding_classes"] = av
	rep.Extra["poison_rounds"] = poisoned.npoison
	rep.Write()
}

func srcHash(s string) string {
	h := sha256.Sum256([]byte(s))
	return hex.EncodeToString(h[:6])
}

func tail(s []string, n int) []string {
	if len(s) > n {
		return s[len(s)-n:]
	}
	return s
}

func bucket(n int) string {
	switch {
	case n == 0:
		return "0"
	case n < 10:
		return "1-9"
	case n < 100:
		return "10-99"
	case n < 1000:
		return "100-999"
	}
	return ">=1000"
}

// randomHistory: a random walk over the model's operations that keeps most of them applicable
func randomHistory(r *vh.Rng, n int) []string {
	type fr struct{ ni int }
	calls := [][]fr{{{0}}} // frames of each active call, innermost last
	nclos, nptr := 1, 0
	var ops []string
	z := func() string { return vh.CoqZ(int64(r.Intn(50))) }
	depthUp := func() int { // how many frames can be walked up from the current one (at least inside the call)
		return len(calls[len(calls)-1]) - 1
	}
	for i := 0; i < n; i++ {
		cur := calls[len(calls)-1]
		top := cur[len(cur)-1]
		switch x := r.Intn(20); {
		case x < 4:
			ni := r.Intn(4)
			var args []string
			for k := 0; k < r.Intn(ni+1); k++ {
				args = append(args, z())
			}
			ops = append(ops, fmt.Sprintf("OCall %d %d %d %s", r.Intn(nclos), r.Intn(3), ni, vh.CoqList(args, "Z")))
			calls = append(calls, []fr{{ni}})
		case x < 7:
			if len(calls) > 1 {
				fn := cur[0]
				var rs []string
				for k := 0; k < r.Intn(3); k++ {
					rs = append(rs, fmt.Sprint(r.Intn(fn.ni+1)))
				}
				ops = append(ops, fmt.Sprintf("ORet %s", vh.CoqList(rs, "nat")))
				calls = calls[:len(calls)-1]
			} else {
				ops = append(ops, "ORet []") // not applicable at top level: both machines must say so
			}
		case x < 9:
			ni := r.Intn(3)
			ops = append(ops, fmt.Sprintf("OBlock %d %d", r.Intn(2), ni))
			calls[len(calls)-1] = append(cur, fr{ni})
		case x < 10:
			ops = append(ops, "OBlockEnd")
			if len(cur) > 1 {
				calls[len(calls)-1] = cur[:len(cur)-1]
			}
		case x < 11:
			k := r.Intn(3)
			ops = append(ops, fmt.Sprintf("OLeave %d", k))
			if k < len(cur) {
				calls[len(calls)-1] = cur[:len(cur)-k]
			}
		case x < 13:
			ops = append(ops, "OClosure")
			nclos++
		case x < 14:
			up := r.Intn(depthUp() + 2)
			ops = append(ops, fmt.Sprintf("OAddr %d %d", up, r.Intn(top.ni+1)))
			nptr++ // may be one too many when the operation is not applicable: later uses are then RBad on both sides
		case x < 16:
			ops = append(ops, fmt.Sprintf("OSet %d %d %s", r.Intn(depthUp()+2), r.Intn(top.ni+1), z()))
		case x < 18:
			ops = append(ops, fmt.Sprintf("OGet %d %d", r.Intn(depthUp()+2), r.Intn(top.ni+1)))
		case x < 19:
			ops = append(ops, fmt.Sprintf("OPSet %d %s", r.Intn(nptr+1), z()))
		default:
			ops = append(ops, fmt.Sprintf("OPGet %d", r.Intn(nptr+1)))
		}
	}
	return ops
}

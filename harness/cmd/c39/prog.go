package main

// Random whole programs for the preprocessor-mode check.
//
// A program is a list of top-level items (chunks of the .gomacro source).  Three classes:
//
//	go    : a valid Go source file (package clause, imports, then type/const/var/func/method/init declarations in
//	        random order, with forward references between package-level variables).  The source itself, compiled by
//	        the Go toolchain, is the oracle.
//	ext   : gomacro's top-level extensions (x := e, statements, expression statements, imports after declarations).
//	        Oracle: the program assembled by the generator (var for :=, statements in a trailing init()).
//	macro : ":import"/":macro" definitions evaluated while preprocessing, macro calls at top level that generate
//	        func/var/type declarations, and macro calls inside function bodies.  Oracle: the generator's own expansion.
//
// Every item carries the text that goes into the source (Src) and the text of the declaration expected in the written
// file (Exp).  Function bodies come from the C05 statement generator (gen05.go).

import (
	"fmt"
	"strings"

	"verifh/vh"
)

type item struct {
	Kind string `json:"k"`   // package import type const var func method init main macrodef forced define stmt expr macrocall
	Src  string `json:"src"` // chunk in the .gomacro source
	Exp  string `json:"exp"` // expected declaration (or statement, Kind stmt/expr) in the written Go file; "" = none
	Key  string `json:"key"` // name that identifies the declaration in the written file ("" = none)
	Rank int    `json:"-"`   // sorting helper
}

type prog struct {
	Idx   int            `json:"idx"`
	Class string         `json:"class"`
	Pkg   string         `json:"pkg"`
	Main  string         `json:"main"` // name of the entry function (main or Main)
	Items []item         `json:"items"`
	Feat  map[string]int `json:"-"`
	// Sep / End: layout of the source FILE, independent of the program: separator written between two top-level items
	// and what follows the last item (the last byte of a source file need not be a newline)
	Sep string `json:"sep,omitempty"`
	End string `json:"end,omitempty"`
}

// file layouts: what follows the last top-level item.  "" = the last statement is complete but unterminated
// (the line reader delivers it together with io.EOF)
var fileEnds = []struct{ name, end string }{
	{"blank-line", "\n\n"},
	{"newline", "\n"},
	{"no-final-newline", ""},
	{"spaces-no-newline", " \t"},
	{"line-comment-no-newline", "\n// end of file"},
	{"same-line-comment-no-newline", " // end of file"},
	{"block-comment-no-newline", "\n/* end\n   of file */"},
	{"semicolon-no-newline", ";"},
	{"blank-lines-then-spaces", "\n\n\n  "},
}

func (p *prog) source() string {
	var sb strings.Builder
	if p.Idx%3 == 0 {
		fmt.Fprintf(&sb, "// program %d (%s)\n// generated\n\n", p.Idx, p.Class)
	}
	sep := p.Sep
	if sep == "" {
		sep = "\n\n"
	}
	for i, it := range p.Items {
		sb.WriteString(it.Src)
		if i == len(p.Items)-1 && p.Sep != "" {
			sb.WriteString(p.End)
		} else {
			sb.WriteString(sep)
		}
	}
	return sb.String()
}

// expected: the Go program the written file must be equivalent to
func (p *prog) expected() string {
	if p.Class == "go" {
		return p.source()
	}
	var sb strings.Builder
	fmt.Fprintf(&sb, "package %s\n\n", p.Pkg)
	for _, it := range p.Items {
		if it.Kind == "import" {
			sb.WriteString(it.Exp + "\n")
		}
	}
	sb.WriteString("\n")
	var stmts []string
	for _, it := range p.Items {
		switch it.Kind {
		case "package", "import", "macrodef", "forced":
		case "stmt", "expr":
			stmts = append(stmts, it.Exp)
		default:
			if it.Exp != "" {
				sb.WriteString(it.Exp + "\n\n")
			}
		}
	}
	if len(stmts) > 0 {
		sb.WriteString("func init() {\n")
		for _, s := range stmts {
			sb.WriteString(strings.Join(indent(strings.Split(s, "\n")), "\n") + "\n")
		}
		sb.WriteString("}\n")
	}
	return sb.String()
}

type pgen struct {
	r       *vh.Rng
	class   string
	n       int
	ints    []string // package-level int variables usable in later initialisers (creation order = dependency rank)
	consts  []string // int constants
	pure    []string // func(a, b int) int
	rd      []string // func() int reading globals
	structs []string
	named   []string // named int types
	prints  []string // lines of the entry function
	items   []item
	feat    map[string]int
	marker  int
}

func (g *pgen) id() int { g.n++; return g.n }

func (g *pgen) add(kind, src, exp, key string) {
	g.feat[kind]++
	g.items = append(g.items, item{Kind: kind, Src: src, Exp: exp, Key: key, Rank: len(g.items)})
}
func (g *pgen) decl(kind, src, key string) { g.add(kind, src, src, key) }

// int-valued initialiser expression over earlier entities
func (g *pgen) intInit(d int) string {
	r := g.r
	switch x := r.Intn(12); {
	case x < 2 || d > 2:
		return fmt.Sprint(r.Intn(20))
	case x < 5 && len(g.ints) > 0:
		return g.ints[r.Intn(len(g.ints))]
	case x < 6 && len(g.consts) > 0:
		return g.consts[r.Intn(len(g.consts))]
	case x < 8 && len(g.pure) > 0:
		return fmt.Sprintf("%s(%s, %s)", g.pure[r.Intn(len(g.pure))], g.intInit(d+1), g.intInit(d+1))
	case x < 9 && len(g.rd) > 0:
		return g.rd[r.Intn(len(g.rd))] + "()"
	case x < 10:
		return fmt.Sprintf("%s + %s", g.intInit(d+1), g.intInit(d+1))
	case x < 11:
		return fmt.Sprintf("(%s - %s) * %d", g.intInit(d+1), g.intInit(d+1), 1+r.Intn(3))
	default:
		return fmt.Sprintf("emitv(%s)", g.intInit(d+1))
	}
}

func (g *pgen) newInt() string {
	v := fmt.Sprintf("g%d", g.id())
	return v
}

var stdImports = []struct{ path, name, use string }{
	{"strings", "strings", `%s.Repeat("ab", 2)`},
	{"strconv", "strconv", `%s.Itoa(42)`},
	{"sort", "sort", `%s.SearchInts([]int{1, 3, 5}, 3)`},
	{"math", "math", `%s.MaxInt8`},
	{"errors", "errors", `%s.New("e").Error()`},
	{"unicode/utf8", "utf8", `%s.RuneLen('é')`},
	{"bytes", "bytes", `%s.ToUpper([]byte("x"))[0]`},
	{"os", "os", `%s.PathSeparator`},
	{"path/filepath", "filepath", `%s.Base("a/b")`},
}

func (g *pgen) genImports(late bool) {
	r := g.r
	// fmt first, always
	perm := r.Intn(len(stdImports))
	k := r.Intn(4)
	type imp struct{ spec, use string }
	var imps []imp
	for i := 0; i < k; i++ {
		si := stdImports[(perm+i)%len(stdImports)]
		alias := si.name
		spec := fmt.Sprintf("%q", si.path)
		if r.Chance(1, 3) {
			alias = fmt.Sprintf("x%s%d", si.name, g.id())
			spec = alias + " " + spec
			g.feat["import-alias"]++
		}
		imps = append(imps, imp{spec, fmt.Sprintf(si.use, alias)})
	}
	if r.Chance(1, 6) {
		imps = append(imps, imp{`_ "embed"`, ""})
		g.feat["import-blank"]++
	}
	emitOne := func(specs []string) {
		var src string
		if len(specs) == 1 && r.Chance(2, 3) {
			src = "import " + specs[0]
		} else {
			src = "import (\n\t" + strings.Join(specs, "\n\t") + "\n)"
			g.feat["import-group"]++
		}
		g.decl("import", src, "import:"+specs[0])
	}
	specs := []string{`"fmt"`}
	for _, im := range imps {
		if r.Chance(1, 2) {
			specs = append(specs, im.spec)
		} else {
			emitOne(specs)
			specs = []string{im.spec}
		}
	}
	emitOne(specs)
	for _, im := range imps {
		if im.use != "" {
			g.prints = append(g.prints, fmt.Sprintf("fmt.Println(%q, %s)", "use", im.use))
		}
	}
	_ = late
}

func (g *pgen) genType() {
	r := g.r
	n := g.id()
	switch r.Intn(6) {
	case 0, 1:
		t := fmt.Sprintf("T%d", n)
		tag := ""
		if r.Chance(1, 3) {
			tag = " `json:\"a\"`"
		}
		g.decl("type", fmt.Sprintf("type %s struct {\n\tA int%s\n\tB string\n\tC []int\n}", t, tag), t)
		g.structs = append(g.structs, t)
		g.decl("method", fmt.Sprintf("func (t %s) Val() int { return t.A + len(t.B) + len(t.C) }", t), t+".Val")
		g.decl("method", fmt.Sprintf("func (t *%s) Add(k int) {\n\tt.A += k\n\tt.C = append(t.C, k)\n}", t), t+".Add")
		v := fmt.Sprintf("s%d", g.id())
		g.decl("var", fmt.Sprintf("var %s = %s{%s, %q, []int{%d}}", v, t, g.intInit(1), "q"+fmt.Sprint(n), r.Intn(9)), v)
		g.prints = append(g.prints, fmt.Sprintf("%s.Add(%d)", v, r.Intn(5)), fmt.Sprintf("fmt.Println(%q, %s, %s.Val())", v, v, v))
	case 2:
		t := fmt.Sprintf("N%d", n)
		g.decl("type", fmt.Sprintf("type %s int", t), t)
		g.named = append(g.named, t)
		g.decl("method", fmt.Sprintf("func (x %s) Val() int { return int(x) * 2 }", t), t+".Val")
		if r.Bool() {
			g.decl("method", fmt.Sprintf("func (x %s) String() string { return fmt.Sprintf(\"%s<%%d>\", int(x)) }", t, t), t+".String")
		}
		c := fmt.Sprintf("K%d", g.id())
		g.decl("const", fmt.Sprintf("const %s %s = %d", c, t, r.Intn(30)), c)
		g.prints = append(g.prints, fmt.Sprintf("fmt.Println(%q, %s, %s.Val())", c, c, c))
	case 3:
		t1, t2, t3 := fmt.Sprintf("L%d", n), fmt.Sprintf("M%d", g.id()), fmt.Sprintf("F%d", g.id())
		g.decl("type", fmt.Sprintf("type (\n\t%s []int\n\t%s map[string]int\n\t%s func(int) int\n)", t1, t2, t3), t1)
		g.feat["type-group"]++
		v := fmt.Sprintf("l%d", g.id())
		g.decl("var", fmt.Sprintf("var (\n\t%s = %s{%s, 2}\n\t%s_m = %s{\"a\": 1,\n\t\t\"b\": %d}\n\t%s_f %s = func(a int) int { return a + len(%s) }\n)", v, t1, g.intInit(1), v, t2, r.Intn(9), v, t3, v), v)
		g.feat["var-group"]++
		g.prints = append(g.prints, fmt.Sprintf("fmt.Println(%q, %s, %s_m, %s_f(3))", v, v, v, v))
	case 4:
		t := fmt.Sprintf("I%d", n)
		g.decl("type", fmt.Sprintf("type %s interface {\n\tVal() int\n}", t), t)
		if len(g.structs) > 0 {
			s := g.structs[r.Intn(len(g.structs))]
			v := fmt.Sprintf("i%d", g.id())
			g.decl("var", fmt.Sprintf("var %s %s = %s{A: %d}", v, t, s, r.Intn(9)), v)
			g.decl("var", fmt.Sprintf("var _ %s = (*%s)(nil)", t, s), "_")
			g.prints = append(g.prints, fmt.Sprintf("fmt.Println(%q, %s.Val())", v, v))
		}
	default:
		t := fmt.Sprintf("E%d", n)
		if len(g.structs) > 0 {
			s := g.structs[r.Intn(len(g.structs))]
			g.decl("type", fmt.Sprintf("type %s struct {\n\t%s\n\tX, Y int\n}", t, s), t)
			v := fmt.Sprintf("e%d", g.id())
			g.decl("var", fmt.Sprintf("var %s = &%s{X: %s, Y: 2}", v, t, g.intInit(1)), v)
			g.prints = append(g.prints, fmt.Sprintf("%s.Add(1)", v), fmt.Sprintf("fmt.Println(%q, %s.Val(), %s.X, %s.Y)", v, v, v, v))
		} else {
			g.decl("type", fmt.Sprintf("type %s = [3]int", t), t)
			g.feat["type-alias"]++
		}
	}
}

func (g *pgen) genConst() {
	r := g.r
	n := g.id()
	switch r.Intn(4) {
	case 0:
		c := fmt.Sprintf("K%d", n)
		g.decl("const", fmt.Sprintf("const %s = %d", c, r.Intn(50)), c)
		g.consts = append(g.consts, c)
	case 1:
		a, b, c := fmt.Sprintf("K%da", n), fmt.Sprintf("K%db", n), fmt.Sprintf("K%dc", n)
		g.decl("const", fmt.Sprintf("const (\n\t%s = iota*%d + 1\n\t%s\n\t_\n\t%s\n)", a, 1+r.Intn(4), b, c), a)
		g.consts = append(g.consts, a, b, c)
		g.feat["const-iota"]++
	case 2:
		c := fmt.Sprintf("S%d", n)
		g.decl("const", fmt.Sprintf("const %s = \"s\" +\n\t\"%d\"", c, n), c)
		g.prints = append(g.prints, fmt.Sprintf("fmt.Println(%q, %s)", c, c))
	default:
		a, b := fmt.Sprintf("K%dx", n), fmt.Sprintf("K%dy", n)
		g.decl("const", fmt.Sprintf("const %s, %s = %d, %d << 2", a, b, r.Intn(9), r.Intn(9)), a)
		g.consts = append(g.consts, a, b)
	}
}

// package-level int variable(s); define=true renders `x := e` in the source (class ext)
func (g *pgen) genVar(define bool) {
	r := g.r
	switch x := r.Intn(10); {
	case x < 5:
		e := g.intInit(0)
		v := g.newInt()
		if define {
			g.add("define", fmt.Sprintf("%s := %s", v, e), fmt.Sprintf("var %s = %s", v, e), v)
		} else if r.Chance(1, 4) {
			g.decl("var", fmt.Sprintf("var %s int = %s", v, e), v)
		} else {
			g.decl("var", fmt.Sprintf("var %s = %s", v, e), v)
		}
		g.ints = append(g.ints, v)
	case x < 7:
		e1, e2 := g.intInit(0), g.intInit(0)
		v, w := g.newInt(), g.newInt()
		if define {
			g.add("define", fmt.Sprintf("%s, %s := %s, %s", v, w, e1, e2), fmt.Sprintf("var %s, %s = %s, %s", v, w, e1, e2), v)
		} else {
			g.decl("var", fmt.Sprintf("var %s, %s = %s, %s", v, w, e1, e2), v)
		}
		g.ints = append(g.ints, v, w)
	case x < 8:
		// two results of one call
		f := fmt.Sprintf("two%d", g.id())
		e := g.intInit(1)
		g.decl("func", fmt.Sprintf("func %s() (int, string) { return %s, \"t\" }", f, e), f)
		v, w := g.newInt(), fmt.Sprintf("str%d", g.id())
		if define {
			g.add("define", fmt.Sprintf("%s, %s := %s()", v, w, f), fmt.Sprintf("var %s, %s = %s()", v, w, f), v)
		} else {
			g.decl("var", fmt.Sprintf("var %s, %s = %s()", v, w, f), v)
		}
		g.ints = append(g.ints, v)
		g.prints = append(g.prints, fmt.Sprintf("fmt.Println(%q, %s)", w, w))
	case x < 9 && !define:
		v, w := g.newInt(), g.newInt()
		e1, e2 := g.intInit(0), g.intInit(0)
		g.decl("var", fmt.Sprintf("var (\n\t%s = %s\n\t%s int\n\t%s = %s\n)", v, e1, v+"z", w, e2), v)
		g.feat["var-group"]++
		g.ints = append(g.ints, v, w)
	default:
		e := g.intInit(0)
		if define {
			v := g.newInt()
			g.add("define", fmt.Sprintf("%s := emitv(%s)", v, e), fmt.Sprintf("var %s = emitv(%s)", v, e), v)
			g.ints = append(g.ints, v)
		} else {
			g.decl("var", fmt.Sprintf("var _ = emitv(%s)", e), "_")
		}
	}
}

func (g *pgen) genFunc() {
	r := g.r
	n := g.id()
	switch x := r.Intn(13); {
	case x == 12:
		g.genNeededParens(n)
	case x < 4:
		// C05 body
		p := genProgram(r.Fork(), 2+r.Intn(3), r.Chance(1, 2), avoidSet{})
		f := fmt.Sprintf("p%d", n)
		g.decl("func", fmt.Sprintf("func %s() (v0, v1, v2, v3 int) {\n%s\n}", f, p.Src), f)
		for k, c := range p.Feat {
			g.feat["body:"+k] += c
		}
		g.prints = append(g.prints, fmt.Sprintf("fmt.Println(%q)", f), fmt.Sprintf("fmt.Println(%s())", f))
	case x < 6:
		f := fmt.Sprintf("h%d", n)
		g.decl("func", fmt.Sprintf("func %s(a, b int) int { return a*%d + b }", f, 1+r.Intn(4)), f)
		g.pure = append(g.pure, f)
	case x < 7 && len(g.ints) > 0:
		f := fmt.Sprintf("rd%d", n)
		g.decl("func", fmt.Sprintf("func %s() int {\n\treturn %s + %d\n}", f, g.ints[r.Intn(len(g.ints))], r.Intn(5)), f)
		g.rd = append(g.rd, f)
	case x < 8:
		f := fmt.Sprintf("fib%d", n)
		g.decl("func", fmt.Sprintf("func %s(n int) int {\n\tif n < 2 {\n\t\treturn n\n\t}\n\treturn %s(n-1) + %s(n-2)\n}", f, f, f), f)
		g.prints = append(g.prints, fmt.Sprintf("fmt.Println(%q, %s(%d))", f, f, 5+r.Intn(6)))
	case x < 9:
		f := fmt.Sprintf("sum%d", n)
		g.decl("func", fmt.Sprintf("func %s(xs ...int) (s int) {\n\tfor _, x := range xs {\n\t\ts += x\n\t}\n\treturn\n}", f), f)
		g.prints = append(g.prints, fmt.Sprintf("fmt.Println(%q, %s(), %s(1, 2, %s), %s([]int{4, 5}...))", f, f, f, g.intInit(1), f))
	case x < 10:
		f := fmt.Sprintf("mk%d", n)
		g.decl("func", fmt.Sprintf("func %s(k int) func() int {\n\tc := k\n\treturn func() int {\n\t\tc++\n\t\treturn c\n\t}\n}", f), f)
		v := fmt.Sprintf("cl%d", g.id())
		g.decl("var", fmt.Sprintf("var %s = %s(%s)", v, f, g.intInit(1)), v)
		g.prints = append(g.prints, fmt.Sprintf("fmt.Println(%q, %s(), %s())", v, v, v))
	case x < 11:
		f := fmt.Sprintf("safe%d", n)
		g.decl("func", fmt.Sprintf("func %s(d int) (r int) {\n\tdefer func() {\n\t\tif e := recover(); e != nil {\n\t\t\temit(%d)\n\t\t\tr = -1\n\t\t}\n\t}()\n\tdefer emit(d)\n\treturn 100 / d\n}", f, 500+n), f)
		g.prints = append(g.prints, fmt.Sprintf("fmt.Println(%q, %s(0), %s(%d))", f, f, f, 1+r.Intn(7)))
	default:
		g.decl("init", fmt.Sprintf("func init() {\n\temit(%d)\n}", 300+n), "init")
	}
}

// genNeededParens: a function whose text needs parentheses that are NOT unary/binary nesting: composite literals of
// named types in if/for/switch/range headers and conversions to channel, pointer and function types.  Macro expansion
// removes every ParenExpr (base.UnwrapTrivialAst) before the preprocessor prints the function, so the printer (C25) has
// to write them back; the written file is parsed, compared, compiled and run like every other declaration.
func (g *pgen) genNeededParens(n int) {
	r := g.r
	t, ar, f := fmt.Sprintf("PT%d", n), fmt.Sprintf("PA%d", n), fmt.Sprintf("np%d", n)
	g.decl("type", fmt.Sprintf("type %s struct{ A, B int }", t), t)
	g.decl("type", fmt.Sprintf("type %s [2]int", ar), ar)
	g.decl("method", fmt.Sprintf("func (t %s) Is(k int) bool { return t.A == k }", t), t+".Is")
	c1, c2 := r.Intn(3), r.Intn(3)
	body := []string{fmt.Sprintf("t := %s{a, b}", t), "k := t.A - a"}
	opt := func(feat string, lines ...string) {
		if r.Chance(2, 3) {
			body = append(body, lines...)
			g.feat["parens:"+feat]++
		}
	}
	opt("if-eq", fmt.Sprintf("if t == (%s{%d, %d}) {", t, c1, c2), "\tk += 1", "}")
	opt("if-init", fmt.Sprintf("if u := (%s{B: %d}); u.B == b {", t, c2), "\tk += 2", "} else if u != (%s{}) {", "\tk += 4", "}")
	opt("for-clauses", fmt.Sprintf("for i := (%s{%d, 3}).A; i < (%s{0, 3}).B; i += (%s{1, 1}).B {", t, c1, t, t), "\tk += 10", "}")
	opt("for-cond", fmt.Sprintf("for t != (%s{a, b + 2}) {", t), "\tt.B++", "\tk += 100", "}")
	opt("switch-tag", fmt.Sprintf("switch (%s{%d, b}) {", t, c1), "case t:", "\tk += 1000", fmt.Sprintf("case %s{a, a}:", t), "\tk += 2000", "}")
	opt("range", fmt.Sprintf("for _, e := range (%s{%d, %d}) {", ar, c1+1, c2+1), "\tk += 10000 * e", "}")
	opt("method-receiver", fmt.Sprintf("if (%s{%d, 0}).Is(a) && len(%s{1, 2}) == 2 {", t, c1, ar), "\tk += 100000", "}")
	opt("conv-recv-chan", "rc := (<-chan int)(c)", "c <- b", "k += <-rc")
	opt("conv-send-chan", "sc := (chan<- int)(c)", "sc <- a", "k += <-(chan int)(c)")
	opt("conv-pointer", "p := (*int)(&k)", "*p += 1000000")
	opt("conv-func", fmt.Sprintf("fn := (func() int)(func() int { return %d })", 5+c1), "k += fn()")
	opt("conv-slice", "k += len(([]int)(nil)) + (k+1)*2")
	body = append(body, "return k")
	for i, l := range body {
		if strings.Contains(l, "%s") {
			body[i] = fmt.Sprintf(l, t)
		}
	}
	g.decl("func", fmt.Sprintf("func %s(a, b int, c chan int) int {\n%s\n}", f, strings.Join(indent(body), "\n")), f)
	g.prints = append(g.prints, fmt.Sprintf("fmt.Println(%q, %s(%d, %d, make(chan int, 1)), %s(1, 2, make(chan int, 1)))", f, f, c1, c2, f))
}

const emitDecl = "func emit(k int) { trace = append(trace, k) }"
const emitvDecl = "func emitv(k int) int {\n\temit(k)\n\treturn k\n}"

// top-level statement of class ext (contains a unique marker literal)
func (g *pgen) genStmt() {
	r := g.r
	g.marker++
	m := 7000 + g.marker
	switch x := r.Intn(6); {
	case x < 2:
		s := fmt.Sprintf("emit(%d)", m)
		g.add("expr", s, s, fmt.Sprint(m))
	case x < 3 && len(g.ints) > 0:
		v := g.ints[r.Intn(len(g.ints))]
		s := fmt.Sprintf("%s += emitv(%d)", v, m)
		g.add("stmt", s, s, fmt.Sprint(m))
	case x < 4 && len(g.ints) > 0:
		v := g.ints[r.Intn(len(g.ints))]
		s := fmt.Sprintf("if %s > %d {\n\temit(%d)\n} else {\n\temit(-%d)\n}", v, r.Intn(20), m, m)
		g.add("stmt", s, s, fmt.Sprint(m))
	case x < 5:
		s := fmt.Sprintf("for i := 0; i < %d; i++ {\n\temit(%d + i)\n}", 1+r.Intn(3), m*10)
		g.add("stmt", s, s, fmt.Sprint(m*10))
	default:
		s := fmt.Sprintf("emitv(%d) + %d", m, r.Intn(5))
		// an expression statement whose value is unused does not compile in Go unless it is a call: keep a call
		s = fmt.Sprintf("fmt.Sprint(%s)", s)
		g.add("expr", s, s, fmt.Sprint(m))
	}
}

// ---------------------------------------------------------------- macros

type macroT struct {
	name string
	def  string
}

var macroDefs = map[string]string{
	"mkfun": `:macro mkfun(name, typ, k ast.Node) ast.Node {
	ret := ~"{
		~func FOO(n ~,typ) ~,typ {
			return n * ~,k
		}
	}
	ret.Name = name.(*ast.Ident)
	return ret
}`,
	"mkvar": `:macro mkvar(name, e ast.Node) ast.Node {
	ret := ~"{var FOO = ~,e}
	ret.Specs[0].(*ast.ValueSpec).Names[0] = name.(*ast.Ident)
	return ret
}`,
	"mktype": `:macro mktype(name, typ ast.Node) ast.Node {
	ret := ~"{type FOO struct { X ~,typ; Y []~,typ }}
	ret.Specs[0].(*ast.TypeSpec).Name = name.(*ast.Ident)
	return ret
}`,
	"addto": `:macro addto(v, e ast.Node) ast.Node {
	return ~"{~,v += ~,e}
}`,
	"unless": `:macro unless(c, body ast.Node) ast.Node {
	return ~"{if !(~,c) { ~,body }}
}`,
	"mkconst": `:macro mkconst(a, b, e ast.Node) ast.Node {
	ret := ~"{const (
		FOO = ~,e
		BAR = ~,a * 2
	)}
	ret.Specs[0].(*ast.ValueSpec).Names[0] = a.(*ast.Ident)
	ret.Specs[1].(*ast.ValueSpec).Names[0] = b.(*ast.Ident)
	return ret
}`,
	"mkgetter": `:macro mkgetter(name, e ast.Node) ast.Node {
	ret := ~"{
		~func FOO() int {
			emit(~,e)
			return ~,e
		}
	}
	ret.Name = name.(*ast.Ident)
	return ret
}`,
}

// macroConst: macros generating const declarations are generated only while finding C39-2 is absent from the tree
var macroConst = false

func (g *pgen) genMacroCall(defined map[string]bool) {
	r := g.r
	n := g.id()
	need := func(m string) {
		if !defined[m] {
			defined[m] = true
			g.add("macrodef", macroDefs[m], "", "")
		}
	}
	atom := func() string {
		switch r.Intn(3) {
		case 0:
			return fmt.Sprint(1 + r.Intn(9))
		case 1:
			if len(g.consts) > 0 {
				return g.consts[r.Intn(len(g.consts))]
			}
		}
		return fmt.Sprint(2 + r.Intn(5))
	}
	which := r.Intn(6)
	if macroConst && r.Chance(1, 5) {
		which = 100
	}
	switch which {
	case 100:
		need("mkconst")
		c, d := fmt.Sprintf("MK%d", n), fmt.Sprintf("MK%dx", n)
		e := fmt.Sprint(1 + r.Intn(9))
		g.add("macrocall", fmt.Sprintf("mkconst; %s; %s; %s", c, d, e), fmt.Sprintf("const (\n\t%s = %s\n\t%s = %s * 2\n)", c, e, d, c), c)
		a := fmt.Sprintf("arr%d", g.id())
		g.decl("var", fmt.Sprintf("var %s [%s]int", a, d), a)
		g.prints = append(g.prints, fmt.Sprintf("fmt.Println(%q, %s, len(%s))", c, c, a))
		g.consts = append(g.consts, c)
	case 0:
		need("mkfun")
		f := fmt.Sprintf("mf%d", n)
		typ := []string{"int", "float64", "int64", "uint8"}[r.Intn(4)]
		k := atom()
		if r.Chance(1, 4) {
			k = fmt.Sprintf("(%s + 1)", k)
		}
		g.add("macrocall", fmt.Sprintf("mkfun; %s; %s; %s", f, typ, k), fmt.Sprintf("func %s(n %s) %s {\n\treturn n * %s\n}", f, typ, typ, k), f)
		g.prints = append(g.prints, fmt.Sprintf("fmt.Println(%q, %s(3))", f, f))
	case 1:
		need("mkvar")
		v := g.newInt()
		e := g.intInit(1)
		g.add("macrocall", fmt.Sprintf("mkvar; %s; %s", v, e), fmt.Sprintf("var %s = %s", v, e), v)
		g.ints = append(g.ints, v)
	case 2:
		need("mktype")
		t := fmt.Sprintf("P%d", n)
		typ := []string{"int", "string", "float64", "bool"}[r.Intn(4)]
		g.add("macrocall", fmt.Sprintf("mktype; %s; %s", t, typ), fmt.Sprintf("type %s struct {\n\tX %s\n\tY []%s\n}", t, typ, typ), t)
		g.prints = append(g.prints, fmt.Sprintf("fmt.Println(%q, %s{})", t, t))
	case 3:
		need("mkgetter")
		f := fmt.Sprintf("get%d", n)
		e := g.intInit(1)
		g.add("macrocall", fmt.Sprintf("mkgetter; %s; %s", f, e), fmt.Sprintf("func %s() int {\n\temit(%s)\n\treturn %s\n}", f, e, e), f)
		g.rd = append(g.rd, f)
	default:
		// macro calls inside a function body
		need("addto")
		need("unless")
		f := fmt.Sprintf("mb%d", n)
		e1, c, e2 := "n * "+atom(), fmt.Sprintf("n > %d", r.Intn(6)), atom()
		src := fmt.Sprintf("func %s(n int) (r int) {\n\taddto; r; %s\n\tunless; %s; emit(r + %s)\n\taddto; r; %s\n\treturn r\n}", f, e1, c, e2, e2)
		exp := fmt.Sprintf("func %s(n int) (r int) {\n\tr += %s\n\tif !(%s) {\n\t\temit(r + %s)\n\t}\n\tr += %s\n\treturn r\n}", f, e1, c, e2, e2)
		g.add("macrocall", src, exp, f)
		g.prints = append(g.prints, fmt.Sprintf("fmt.Println(%q, %s(%d), %s(%d))", f, f, r.Intn(5), f, 5+r.Intn(5)))
	}
}

// ---------------------------------------------------------------- whole program

func genProg(r *vh.Rng, idx int, class string, trueMain bool, size int) *prog {
	g := &pgen{r: r, class: class, feat: map[string]int{}}
	p := &prog{Idx: idx, Class: class, Pkg: fmt.Sprintf("q%d", idx), Main: "Main"}
	if trueMain {
		p.Pkg, p.Main = "main", "main"
	}
	g.genImports(false)
	nImportItems := len(g.items)
	g.decl("var", "var trace []int", "trace")
	g.decl("func", emitDecl, "emit")
	g.decl("func", emitvDecl, "emitv")
	defined := map[string]bool{}
	if class == "macro" {
		g.add("forced", ":import \"go/ast\"", "", "")
	}
	n := size/2 + r.Intn(size)
	for i := 0; i < n; i++ {
		switch x := r.Intn(20); {
		case x < 4:
			g.genType()
		case x < 7:
			g.genConst()
		case x < 12:
			g.genVar(class == "ext" && r.Chance(2, 3))
		case x < 17:
			g.genFunc()
		default:
			switch class {
			case "ext":
				g.genStmt()
			case "macro":
				g.genMacroCall(defined)
			default:
				g.genFunc()
			}
		}
	}
	if class == "macro" {
		for i := 0; i < 2+r.Intn(3); i++ {
			g.genMacroCall(defined)
		}
	}
	if class == "ext" {
		for i := 0; i < 1+r.Intn(3); i++ {
			g.genStmt()
		}
	}
	// entry function
	var body []string
	body = append(body, g.prints...)
	body = append(body, `fmt.Println("trace", trace)`)
	if len(g.ints) > 0 {
		body = append(body, fmt.Sprintf("fmt.Println(%q, %s)", "ints", strings.Join(g.ints, ", ")))
	}
	if len(g.consts) > 0 {
		body = append(body, fmt.Sprintf("fmt.Println(%q, %s)", "consts", strings.Join(g.consts, ", ")))
	}
	g.decl("main", fmt.Sprintf("func %s() {\n%s\n}", p.Main, strings.Join(indent(body), "\n")), p.Main)

	// order: package clause, imports, then the rest shuffled.  Macro definitions must precede their calls and
	// (class ext) statements/defines must follow what they refer to only in the *expected* program's terms:
	// in the written file all declarations precede the trailing init(), and package-level initialisation is by
	// dependency, so any order of declarations is valid Go.  Top-level := and statements keep their relative order.
	imports := g.items[:nImportItems]
	rest := append([]item(nil), g.items[nImportItems:]...)
	movable := func(it item) bool {
		switch it.Kind {
		case "macrodef", "forced", "macrocall", "define", "stmt", "expr":
			return false
		}
		return true
	}
	// shuffle only the movable items among the positions they occupy... (keeps macro definitions before calls)
	var pos []int
	for i, it := range rest {
		if movable(it) {
			pos = append(pos, i)
		}
	}
	perm := append([]int(nil), pos...)
	for i := len(perm) - 1; i > 0; i-- {
		j := r.Intn(i + 1)
		perm[i], perm[j] = perm[j], perm[i]
	}
	shuffled := append([]item(nil), rest...)
	for k, i := range pos {
		shuffled[i] = rest[perm[k]]
	}
	p.Items = append(p.Items, item{Kind: "package", Src: "package " + p.Pkg, Key: p.Pkg})
	if class == "ext" && len(imports) > 1 && r.Chance(1, 2) {
		// gomacro accepts an import after other declarations; the writer moves it to the top
		late := imports[len(imports)-1]
		p.Items = append(p.Items, imports[:len(imports)-1]...)
		k := r.Intn(len(shuffled) + 1)
		p.Items = append(p.Items, shuffled[:k]...)
		p.Items = append(p.Items, late)
		p.Items = append(p.Items, shuffled[k:]...)
		g.feat["import-late"]++
	} else {
		p.Items = append(p.Items, imports...)
		p.Items = append(p.Items, shuffled...)
	}
	// layout of the file (2/3 of the programs: not the canonical "item, blank line" layout)
	if r.Chance(2, 3) {
		p.Sep = []string{"\n\n", "\n", "\n\n\n", "\n\n"}[r.Intn(4)]
		fe := fileEnds[r.Intn(len(fileEnds))]
		p.End = fe.end
		g.feat["file-end:"+fe.name]++
		if p.Sep == "\n" {
			g.feat["file-sep:single-newline"]++
		}
	} else {
		g.feat["file-end:blank-line"]++
	}
	p.Feat = g.feat
	return p
}

// c39: preprocessor mode (gomacro -m -w): cmd/cmd.go Cmd.Main/EvalFile/EvalDir, base/global.go Globals.CollectAst/CollectNode/
// WriteDeclsToFile, base/output/write_decl.go Output.WriteDeclsToStream, fast/repl.go Interp.Parse (collect phase).
//
// Random programs (prog.go) are written as .gomacro sources and preprocessed exactly as `gomacro -m -w -f FILE` (or DIR) does,
// by calling cmd.Cmd.Main with those arguments.  Direct oracles (never the Coq model):
//
//	(1) the written .go file parses with go/parser and its imports / declarations are, position-insensitively, those of the
//	    expected Go program (class go: the source itself; ext/macro: the program assembled by the generator);
//	(2) the written file, compiled by the Go toolchain (batched, module with `go 1.18`), behaves as the expected program;
//	(3) class macro: the written declarations are the declarations obtained by Comp.Parse (ParseBytes + MacroExpandCodewalk) in
//	    a second, normally evaluating interpreter, printed with the standard go/printer.
//
// Correspondence: the top-level node kinds (gomacro parser + macro expansion in the second interpreter) are written to
// cases_NNN.v together with the observed package name and the identities of the written imports / declarations / statements;
// C39.Model evaluates Cmd.Main on the same encoded arguments.
package main

import (
	"bytes"
	"fmt"
	"go/ast"
	"go/parser"
	"go/printer"
	"go/token"
	"os"
	"os/exec"
	"path/filepath"
	"reflect"
	"regexp"
	"sort"
	"strconv"
	"strings"
	"time"

	"github.com/cosmos72/gomacro/ast2"
	"github.com/cosmos72/gomacro/cmd"
	"github.com/cosmos72/gomacro/fast"
	"verifh/vh"
)

// ---------------------------------------------------------------- position-insensitive dump of go/ast nodes

var posType = reflect.TypeOf(token.NoPos)

// trivialBlock: a one-statement block in statement position that macro expansion unwraps (base.UnwrapTrivialAst:
// the block is kept when its only statement declares something)
func trivialBlock(v reflect.Value) (ast.Stmt, bool) {
	if b, ok := v.Interface().(*ast.BlockStmt); ok && b != nil && len(b.List) == 1 {
		switch c := b.List[0].(type) {
		case *ast.DeclStmt:
			return nil, false
		case *ast.AssignStmt:
			if c.Tok == token.DEFINE {
				return nil, false
			}
		}
		return b.List[0], true
	}
	return nil, false
}

func dumpVal(sb *strings.Builder, v reflect.Value) { dumpVal2(sb, v, true) }

func dumpVal2(sb *strings.Builder, v reflect.Value, unwrap bool) {
	switch v.Kind() {
	case reflect.Interface, reflect.Ptr:
		if v.IsNil() {
			sb.WriteString("nil")
			return
		}
		if v.Kind() == reflect.Interface && unwrap {
			if inner, ok := trivialBlock(v); ok {
				dumpVal2(sb, reflect.ValueOf(&inner).Elem(), true)
				return
			}
		}
		dumpVal(sb, v.Elem())
	case reflect.Struct:
		t := v.Type()
		switch x := v.Interface().(type) {
		case ast.Ident:
			sb.WriteString("Ident:" + x.Name)
			return
		case ast.BasicLit:
			sb.WriteString("Lit:" + x.Value)
			return
		case ast.CommentGroup, ast.Object, ast.Scope:
			sb.WriteString("-")
			return
		case ast.BlockStmt:
			// { { a; b } } is { a; b } (a block whose only statement is a block)
			for len(x.List) == 1 {
				inner, ok := x.List[0].(*ast.BlockStmt)
				if !ok {
					break
				}
				x = *inner
			}
			v = reflect.ValueOf(x)
		case ast.ParenExpr:
			// redundant parentheses carry no meaning (the tree shape does): (a) and a are the same expression
			dumpVal(sb, reflect.ValueOf(x.X))
			return
		}
		sb.WriteString(t.Name() + "{")
		for i := 0; i < t.NumField(); i++ {
			f := t.Field(i)
			if f.Type == posType {
				if t.Name() == "CallExpr" && f.Name == "Ellipsis" {
					fmt.Fprintf(sb, "Ellipsis:%v ", v.Field(i).Int() != 0)
				}
				continue
			}
			switch f.Name {
			case "Doc", "Comment", "Comments", "Obj", "Scope", "Unresolved", "Incomplete":
				continue
			}
			sb.WriteString(f.Name + ":")
			if f.Name == "Else" && !v.Field(i).IsNil() {
				// else { if c { } } is else if c { }: macro expansion unwraps the one-statement block and the printer
				// can write the if statement after else without braces (any other statement gets its braces back)
				if b, ok := v.Field(i).Interface().(*ast.BlockStmt); ok && b != nil && len(b.List) == 1 {
					// else { { if c { } } }: the inner one-statement blocks are unwrapped first
					only := b.List[0]
					for {
						st, triv := trivialBlock(reflect.ValueOf(only))
						if !triv {
							break
						}
						only = st
					}
					if inner, ok := only.(*ast.IfStmt); ok {
						dumpVal2(sb, reflect.ValueOf(inner), true)
						sb.WriteString(" ")
						continue
					}
				}
			}
			dumpVal2(sb, v.Field(i), f.Name != "Else")
			sb.WriteString(" ")
		}
		sb.WriteString("}")
	case reflect.Slice:
		sb.WriteString("[")
		for i := 0; i < v.Len(); i++ {
			dumpVal(sb, v.Index(i))
			sb.WriteString(",")
		}
		sb.WriteString("]")
	case reflect.String:
		fmt.Fprintf(sb, "%q", v.String())
	case reflect.Bool:
		fmt.Fprint(sb, v.Bool())
	default:
		fmt.Fprint(sb, v.Interface())
	}
}

func dump(n interface{}) string {
	var sb strings.Builder
	dumpVal(&sb, reflect.ValueOf(n))
	return sb.String()
}

// stdPrint renders a node with the standard go/printer (positions of nodes built by macros are meaningless: fresh FileSet)
func stdPrint(n ast.Node) (s string, err error) {
	defer func() {
		if r := recover(); r != nil {
			err = fmt.Errorf("go/printer panic: %v", r)
		}
	}()
	var buf bytes.Buffer
	cfg := printer.Config{Mode: printer.UseSpaces | printer.TabIndent, Tabwidth: 8}
	err = cfg.Fprint(&buf, token.NewFileSet(), n)
	return buf.String(), err
}

// parseDecls parses a Go file and returns the dumps of its declarations
func parseDecls(src string) ([]ast.Decl, string, error) {
	f, err := parser.ParseFile(token.NewFileSet(), "x.go", src, 0)
	if err != nil {
		return nil, "", err
	}
	return f.Decls, f.Name.Name, nil
}

// norm: print a declaration / statement / expression with go/printer, reparse it with go/parser, dump it
func norm(n ast.Node) string {
	txt, err := stdPrint(n)
	if err != nil {
		return "UNPRINTABLE:" + err.Error()
	}
	switch n.(type) {
	case ast.Decl:
		ds, _, err := parseDecls("package p\n" + txt + "\n")
		if err != nil && hasHeaderLiteral(n) {
			// go/printer does not write the parentheses a composite literal needs in an if/for/switch/range header when
			// the tree has no ParenExpr (macro expansion removed them): no text normalisation for such a declaration,
			// the dump of the tree itself is compared
			return dump(n)
		}
		if err != nil || len(ds) != 1 {
			return "UNPARSEABLE:" + txt
		}
		return dump(ds[0])
	case ast.Stmt, ast.Expr:
		ds, _, err := parseDecls("package p\nfunc _() {\n" + txt + "\n}\n")
		if err != nil || len(ds) != 1 {
			return "UNPARSEABLE:" + txt
		}
		body := ds[0].(*ast.FuncDecl).Body.List
		if len(body) != 1 {
			return "UNPARSEABLE:" + txt
		}
		return dump(body[0])
	}
	return "OTHER:" + txt
}

// hasHeaderLiteral: n contains a composite literal of a named type in the header of an if/for/switch/range statement
func hasHeaderLiteral(n ast.Node) bool {
	found := false
	lit := func(x ast.Node) {
		if x == nil || reflect.ValueOf(x).IsNil() {
			return
		}
		ast.Inspect(x, func(y ast.Node) bool {
			if c, ok := y.(*ast.CompositeLit); ok {
				switch c.Type.(type) {
				case *ast.Ident, *ast.SelectorExpr:
					found = true
				}
			}
			return !found
		})
	}
	ast.Inspect(n, func(x ast.Node) bool {
		switch s := x.(type) {
		case *ast.IfStmt:
			lit(s.Init)
			lit(s.Cond)
		case *ast.ForStmt:
			lit(s.Init)
			lit(s.Cond)
			lit(s.Post)
		case *ast.SwitchStmt:
			lit(s.Init)
			lit(s.Tag)
		case *ast.TypeSwitchStmt:
			lit(s.Init)
			lit(s.Assign)
		case *ast.RangeStmt:
			lit(s.X)
		}
		return !found
	})
	return found
}

// ---------------------------------------------------------------- encoding of the parsed (and macro-expanded) forms for the model

type encoder struct {
	next   int
	lookup map[string][]int // normalised dump -> ids of the nodes that are collected with that dump
	kinds  map[string]int
}

func (e *encoder) id(dumpKey string) int {
	e.next++
	if dumpKey != "" {
		e.lookup[dumpKey] = append(e.lookup[dumpKey], e.next)
	}
	return e.next
}

func coqOptStr(ok bool, s string) string {
	if !ok {
		return "None"
	}
	return "(Some " + vh.CoqStr(s) + ")"
}

func (e *encoder) node(n ast.Node) string {
	switch n := n.(type) {
	case *ast.GenDecl:
		tok := map[token.Token]string{token.IMPORT: "TImport", token.PACKAGE: "TPackage", token.TYPE: "TType", token.VAR: "TVar", token.CONST: "TConst"}[n.Tok]
		if tok == "" {
			tok = "TOther"
		}
		e.kinds["GenDecl:"+n.Tok.String()]++
		pkg, ok := "", false
		if len(n.Specs) == 1 {
			if vs, isv := n.Specs[0].(*ast.ValueSpec); isv && len(vs.Names) == 1 {
				pkg, ok = vs.Names[0].Name, true
			}
		}
		key := ""
		if n.Tok != token.PACKAGE {
			key = norm(n)
		}
		return fmt.Sprintf("NGenDecl %s %s %d", tok, coqOptStr(ok, pkg), e.id(key))
	case *ast.FuncDecl:
		if n.Recv == nil {
			e.kinds["FuncDecl:func"]++
			return fmt.Sprintf("NFuncDecl None %d", e.id(norm(n)))
		}
		if len(n.Recv.List) == 0 {
			e.kinds["FuncDecl:macro"]++
			return fmt.Sprintf("NFuncDecl (Some 0%%nat) %d", e.id(""))
		}
		e.kinds["FuncDecl:method"]++
		return fmt.Sprintf("NFuncDecl (Some %d%%nat) %d", len(n.Recv.List), e.id(norm(n)))
	case ast.Spec:
		k, tok := "SpOther", token.ILLEGAL
		switch n.(type) {
		case *ast.ImportSpec:
			k, tok = "SpImport", token.IMPORT
		case *ast.TypeSpec:
			k, tok = "SpType", token.TYPE
		case *ast.ValueSpec:
			k, tok = "SpValue", token.VAR
		}
		e.kinds["Spec:"+k]++
		return fmt.Sprintf("NSpec %s %d", k, e.id(norm(&ast.GenDecl{Tok: tok, Specs: []ast.Spec{n}})))
	case ast.Decl:
		e.kinds["OtherDecl"]++
		return fmt.Sprintf("NOtherDecl %d", e.id(norm(n)))
	case *ast.AssignStmt:
		if n.Tok == token.DEFINE {
			e.kinds["Assign:define"]++
			allIdent := true
			var idents []*ast.Ident
			for _, l := range n.Lhs {
				if id, ok := l.(*ast.Ident); ok {
					idents = append(idents, id)
				} else {
					allIdent = false
				}
			}
			key := ""
			if allIdent {
				// what Go means by the same variables declared at package level
				key = norm(&ast.GenDecl{Tok: token.VAR, Specs: []ast.Spec{&ast.ValueSpec{Names: idents, Values: n.Rhs}}})
			}
			return fmt.Sprintf("NAssign true %v %d", allIdent, e.id(key))
		}
		e.kinds["Assign:other"]++
		return fmt.Sprintf("NAssign false true %d", e.id(norm(n)))
	case ast.Stmt:
		e.kinds["Stmt"]++
		return fmt.Sprintf("NStmt %d", e.id(norm(n)))
	case ast.Expr:
		if u, ok := n.(*ast.UnaryExpr); ok && u.Op == token.PACKAGE && u.X != nil {
			if id, ok := u.X.(*ast.Ident); ok {
				e.kinds["Expr:package"]++
				return fmt.Sprintf("NExpr %s %d", coqOptStr(true, id.Name), e.id(""))
			}
		}
		e.kinds["Expr"]++
		return fmt.Sprintf("NExpr None %d", e.id(norm(&ast.ExprStmt{X: n})))
	}
	e.kinds["Unknown"]++
	return fmt.Sprintf("NUnknown %d", e.id(""))
}

func (e *encoder) form(f ast2.Ast) string {
	switch f := f.(type) {
	case ast2.AstWithNode:
		return "FNode (" + e.node(f.Node()) + ")"
	case ast2.AstWithSlice:
		var xs []string
		for i := 0; i < f.Size(); i++ {
			xs = append(xs, e.form(f.Get(i)))
		}
		return "FSlice " + vh.CoqList(xs, "form")
	}
	return "FOther"
}

// ---------------------------------------------------------------- running gomacro

type outcome struct {
	written string // content of the written .go file ("" if none)
	diag    string // anything gomacro printed
	err     string
}

var reflectWarn = regexp.MustCompile(`(?m)^// warning: skipping import of func reflect\.TypeFor.*\n`)

func newCmd(buf *bytes.Buffer) *cmd.Cmd {
	c := cmd.New()
	g := &c.Interp.Comp.Globals
	g.Stdout, g.Stderr = buf, buf
	return c
}

// preprocess runs `gomacro -m -w -f ARG` in-process (ARG: a file or a directory)
func preprocess(c *cmd.Cmd, buf *bytes.Buffer, arg string) (diag string, err string) {
	buf.Reset()
	if p := vh.Catch(func() {
		if e := c.Main([]string{"-m", "-w", "-f", arg}); e != nil {
			err = e.Error()
		}
	}); p != nil {
		err = fmt.Sprint("panic: ", p)
	}
	return reflectWarn.ReplaceAllString(buf.String(), ""), err
}

// expand: the second interpreter (evaluating normally): forced chunks are evaluated, the others parsed + macroexpanded
func expandItems(ir *fast.Interp, p *prog, e *encoder) (chunks []string, decls []string, imports []string, stmts []string, err string) {
	for _, it := range p.Items {
		if it.Kind == "forced" || it.Kind == "macrodef" {
			if perr := vh.Catch(func() { ir.Eval(it.Src[1:]) }); perr != nil {
				return nil, nil, nil, nil, fmt.Sprint("second interpreter rejects ", it.Src, ": ", perr)
			}
			chunks = append(chunks, "CForced")
			continue
		}
		var form ast2.Ast
		if perr := vh.Catch(func() { form = ir.Comp.Parse(it.Src) }); perr != nil {
			return nil, nil, nil, nil, fmt.Sprint("second interpreter cannot parse/expand ", it.Src, ": ", perr)
		}
		if form == nil {
			chunks = append(chunks, "CSrc (FSlice (@nil form))")
			continue
		}
		chunks = append(chunks, "CSrc ("+e.form(form)+")")
		// the expanded declarations in text form (for oracle 3)
		var walk func(f ast2.Ast)
		walk = func(f ast2.Ast) {
			switch f := f.(type) {
			case ast2.AstWithNode:
				switch n := f.Node().(type) {
				case *ast.GenDecl:
					switch n.Tok {
					case token.IMPORT:
						imports = append(imports, norm(n))
					case token.PACKAGE:
					default:
						decls = append(decls, norm(n))
					}
				case *ast.FuncDecl:
					if n.Recv == nil || len(n.Recv.List) != 0 {
						decls = append(decls, norm(n))
					}
				case *ast.ImportSpec:
					imports = append(imports, norm(&ast.GenDecl{Tok: token.IMPORT, Specs: []ast.Spec{n}}))
				case *ast.TypeSpec:
					decls = append(decls, norm(&ast.GenDecl{Tok: token.TYPE, Specs: []ast.Spec{n}}))
				case *ast.ValueSpec:
					// a bare ValueSpec reaches the collector when macro expansion splices the Specs of a GenDecl:
					// the keyword (var/const) is no longer known there
					decls = append(decls, norm(&ast.GenDecl{Tok: token.VAR, Specs: []ast.Spec{n}}))
				case *ast.AssignStmt:
					if n.Tok == token.DEFINE {
						var ids []*ast.Ident
						for _, l := range n.Lhs {
							ids = append(ids, l.(*ast.Ident))
						}
						decls = append(decls, norm(&ast.GenDecl{Tok: token.VAR, Specs: []ast.Spec{&ast.ValueSpec{Names: ids, Values: n.Rhs}}}))
					} else {
						stmts = append(stmts, norm(n))
					}
				case ast.Stmt:
					stmts = append(stmts, norm(n))
				case ast.Expr:
					stmts = append(stmts, norm(&ast.ExprStmt{X: n}))
				}
			case ast2.AstWithSlice:
				for i := 0; i < f.Size(); i++ {
					walk(f.Get(i))
				}
			}
		}
		walk(form)
	}
	return
}

// ---------------------------------------------------------------- compiled-Go oracle (batched)

type unit struct {
	p        *prog
	expected string
	written  string
	dead     string // non-empty: excluded from the build (reason)
}

func goEnv() []string {
	return append(os.Environ(), "GOFLAGS=-mod=mod", "GOPROXY=off", "GOSUMDB=off", "GOTOOLCHAIN=local", "CGO_ENABLED=0")
}

func runTimeout(c *exec.Cmd, d time.Duration) (string, error) {
	var out bytes.Buffer
	c.Stdout, c.Stderr = &out, &out
	if err := c.Start(); err != nil {
		return "", err
	}
	done := make(chan error, 1)
	go func() { done <- c.Wait() }()
	select {
	case err := <-done:
		return out.String(), err
	case <-time.After(d):
		c.Process.Kill()
		return out.String(), fmt.Errorf("timeout after %v", d)
	}
}

var pkgErr = regexp.MustCompile(`(?m)^(?:# oracle/|)([ow])/q(\d+)[/\s:]`)

// buildAndRun compiles the expected (o/) and written (w/) library programs into one binary and returns the output
// of each Main(); a written file that does not compile is reported in badW and the build is retried without it.
func buildAndRun(a *vh.Args, batch int, units []*unit) (outs map[string]string, badW map[int]string, fatal error) {
	dir := a.Path(fmt.Sprintf("oracle/b%03d", batch))
	os.RemoveAll(dir)
	os.MkdirAll(dir, 0o755)
	os.WriteFile(filepath.Join(dir, "go.mod"), []byte("module oracle\n\ngo 1.18\n"), 0o644)
	badW = map[int]string{}
	for _, u := range units {
		for tag, txt := range map[string]string{"o": u.expected, "w": u.written} {
			d := filepath.Join(dir, tag, u.p.Pkg)
			os.MkdirAll(d, 0o755)
			os.WriteFile(filepath.Join(d, u.p.Pkg+".go"), []byte(txt), 0o644)
		}
	}
	for round := 0; round < 8; round++ {
		var sb strings.Builder
		sb.WriteString("package main\n\nimport (\n\t\"fmt\"\n")
		for _, u := range units {
			if u.dead == "" {
				fmt.Fprintf(&sb, "\to%d \"oracle/o/%s\"\n\tw%d \"oracle/w/%s\"\n", u.p.Idx, u.p.Pkg, u.p.Idx, u.p.Pkg)
			}
		}
		sb.WriteString(")\n\nfunc run(tag string, id int, f func()) {\n\tfmt.Printf(\"\\n#### %s %d\\n\", tag, id)\n\tdefer func() {\n\t\tif r := recover(); r != nil {\n\t\t\tfmt.Println(\"PANIC\", r)\n\t\t}\n\t}()\n\tf()\n}\n\nfunc main() {\n")
		for _, u := range units {
			if u.dead == "" {
				fmt.Fprintf(&sb, "\trun(\"o\", %d, o%d.Main)\n\trun(\"w\", %d, w%d.Main)\n", u.p.Idx, u.p.Idx, u.p.Idx, u.p.Idx)
			}
		}
		sb.WriteString("}\n")
		os.WriteFile(filepath.Join(dir, "main.go"), []byte(sb.String()), 0o644)
		c := exec.Command("go", "build", "-gcflags=-N -l", "-o", "oracle.bin", ".")
		c.Dir, c.Env = dir, goEnv()
		out, err := runTimeout(c, 15*time.Minute)
		if err == nil {
			break
		}
		progress := false
		for _, m := range pkgErr.FindAllStringSubmatch(out, -1) {
			id, _ := strconv.Atoi(m[2])
			for _, u := range units {
				if u.p.Idx == id && u.dead == "" {
					if m[1] == "o" {
						return nil, nil, fmt.Errorf("generator bug: expected program %d does not compile:\n%s\n%s", id, tail(out, 1500), u.expected)
					}
					u.dead = "compile"
					badW[id] = firstLines(out, fmt.Sprintf("w/q%d/", id), 4)
					progress = true
				}
			}
		}
		if !progress {
			return nil, nil, fmt.Errorf("go build of oracle batch %d failed: %v\n%s", batch, err, tail(out, 3000))
		}
	}
	c := exec.Command(filepath.Join(dir, "oracle.bin"))
	out, err := runTimeout(c, 3*time.Minute)
	if err != nil {
		return nil, nil, fmt.Errorf("oracle batch %d run: %v\n%s", batch, err, tail(out, 2000))
	}
	outs = map[string]string{}
	for _, blk := range strings.Split(out, "\n#### ")[1:] {
		nl := strings.IndexByte(blk, '\n')
		if nl < 0 {
			continue
		}
		outs[blk[:nl]] = blk[nl+1:]
	}
	return outs, badW, nil
}

// true main packages: built as executables, one pair per program
func buildMains(a *vh.Args, units []*unit) (outs map[string]string, badW map[int]string, fatal error) {
	outs, badW = map[string]string{}, map[int]string{}
	for _, u := range units {
		for tag, txt := range map[string]string{"o": u.expected, "w": u.written} {
			d := a.Path(fmt.Sprintf("oracle/main%d/%s", u.p.Idx, tag))
			os.MkdirAll(d, 0o755)
			os.WriteFile(filepath.Join(d, "go.mod"), []byte("module oracle\n\ngo 1.18\n"), 0o644)
			os.WriteFile(filepath.Join(d, "main.go"), []byte(txt), 0o644)
			c := exec.Command("go", "build", "-gcflags=-N -l", "-o", "prog.bin", ".")
			c.Dir, c.Env = d, goEnv()
			out, err := runTimeout(c, 10*time.Minute)
			if err != nil {
				if tag == "o" {
					return nil, nil, fmt.Errorf("generator bug: expected main program %d does not compile:\n%s", u.p.Idx, tail(out, 1500))
				}
				badW[u.p.Idx] = tail(out, 400)
				continue
			}
			out, err = runTimeout(exec.Command(filepath.Join(d, "prog.bin")), time.Minute)
			if err != nil {
				out += "\nEXIT " + err.Error()
			}
			outs[fmt.Sprintf("%s %d", tag, u.p.Idx)] = out
		}
	}
	return
}

func firstLines(s, containing string, n int) string {
	var out []string
	for _, l := range strings.Split(s, "\n") {
		if strings.Contains(l, containing) {
			out = append(out, l)
			if len(out) == n {
				break
			}
		}
	}
	return strings.Join(out, "\n")
}

func tail(s string, n int) string {
	if len(s) > n {
		return s[len(s)-n:]
	}
	return s
}

// ---------------------------------------------------------------- observation of a written file

type observed struct {
	pkg     string
	imports []string // dumps
	decls   []string
	stmts   []string // dumps of the statements of the trailing init() wrapper
}

// observe parses the written file.  nStmts>0 tells that the writer appended its init() wrapper (the source had statements).
func observe(written string, hasStmts bool) (*observed, error) {
	ds, pkg, err := parseDecls(written)
	if err != nil {
		return nil, err
	}
	o := &observed{pkg: pkg}
	for i, d := range ds {
		if gd, ok := d.(*ast.GenDecl); ok && gd.Tok == token.IMPORT {
			o.imports = append(o.imports, dump(d))
			continue
		}
		if fd, ok := d.(*ast.FuncDecl); ok && hasStmts && i == len(ds)-1 && fd.Name.Name == "init" && fd.Recv == nil {
			for _, s := range fd.Body.List {
				o.stmts = append(o.stmts, dump(s))
			}
			continue
		}
		o.decls = append(o.decls, dump(d))
	}
	return o, nil
}

func firstDiff(w, e *observed) string {
	if w.pkg != e.pkg {
		return "package " + w.pkg + " vs " + e.pkg
	}
	for _, pr := range []struct {
		what string
		a, b []string
	}{{"import", w.imports, e.imports}, {"declaration", w.decls, e.decls}, {"statement", w.stmts, e.stmts}} {
		for i := 0; i < len(pr.a) || i < len(pr.b); i++ {
			x, y := "(missing)", "(missing)"
			if i < len(pr.a) {
				x = pr.a[i]
			}
			if i < len(pr.b) {
				y = pr.b[i]
			}
			if x != y {
				k := 0
				for k < len(x) && k < len(y) && x[k] == y[k] {
					k++
				}
				lo := k - 60
				if lo < 0 {
					lo = 0
				}
				return fmt.Sprintf("%s #%d: written ...%s  expected ...%s", pr.what, i, clip(x[lo:], 200), clip(y[lo:], 200))
			}
		}
	}
	return ""
}

func clip(s string, n int) string {
	if len(s) > n {
		return s[:n]
	}
	return s
}

func idsOf(dumps []string, lookup map[string][]int, used map[int]bool) []string {
	var out []string
	for _, d := range dumps {
		id := 0
		for _, c := range lookup[d] {
			if !used[c] {
				id = c
				used[c] = true
				break
			}
		}
		out = append(out, fmt.Sprintf("%d", id))
	}
	return out
}

func coqZList(xs []string) string {
	if len(xs) == 0 {
		return "(@nil Z)"
	}
	return "[" + strings.Join(xs, ";") + "]%Z"
}

// ---------------------------------------------------------------- main

type job struct {
	p       *prog
	dirMode int // 0: single file argument; k>0: k-th file (1-based, name order) of a directory argument
	group   int
	srcPath string
	outPath string
}

func main() {
	a := vh.ParseArgs()
	rng := vh.NewRng(a.Seed)
	rep := vh.NewReport(a, "random programs of 15-60 top-level items: package clause, 1-5 import declarations (single/grouped/aliased/blank), type (struct with tags, named, grouped, interface, embedded, alias), "+
		"const (typed, iota groups, multi-name, multi-line), var (typed, multi-name, multi-value call, grouped, blank, forward references resolved by Go's initialisation order), functions whose bodies come from the C05 statement generator "+
		"(loops, switch, labels, goto, range, select, type switch, closures), recursion, variadics, closures, defer/recover, methods (value and pointer receivers), several init functions; "+
		"class go (60%): valid Go source, oracle = the source compiled; class ext (20%): top-level :=, statements, expression statements, late imports, oracle = var/init() rendering by the generator; "+
		"class macro (20%): :import/:macro definitions and macro calls generating func/var/type declarations and statements inside bodies, oracle = the generator's expansion + Comp.Parse of a second interpreter printed with go/printer. "+
		"Each source is preprocessed by cmd.Cmd.Main(-m -w -f ARG); 1 in 8 groups of programs is passed as a directory argument (EvalDir; three files, at most one of class macro: the files of a directory are one interpreter session and a macro is defined once). The written file must parse, have the expected imports/declarations (position-insensitive AST dump), "+
		"compile and print the same output as the expected program (libraries batched into one binary; a few true `package main` programs built as executables). "+
		"File layout (2/3 of the programs): items separated by one, two or three newlines; the last item is followed by a blank line, one newline, NOTHING (last byte of the file is not a newline: the line reader delivers the last chunk together with io.EOF), spaces, a line/block/same-line comment without final newline, or a semicolon. "+
		"Non-trivial: >= 8 collected declarations of >= 3 kinds and non-empty program output; distinct by SHA-256 of the source. corpus/C39 (exact inputs of findings) runs first. "+
		"Multi-file histories (history.go; 8 quick / 64 thorough): one directory and ONE Cmd through 2-4 runs (Cmd.Main -m -w [-f] DIR, EvalDir, EvalFilesAndDirs and EvalFile in shuffled order) with sources added between runs, hand-made outputs that exist already (skipped without -f, overwritten with -f), sources with a rejected chunk between good ones; after every run each output that had to be left alone is byte-identical and each written output has the imports/declarations of ITS OWN source; final outputs also go to the compiled-Go oracle.")
	wd := vh.NewWatchdog(rep, 10*time.Minute)
	wd.Beat("start")
	t0 := time.Now()
	phase := func(name string) {
		fmt.Fprintf(os.Stderr, "[c39] %-28s %6.1fs\n", name, time.Since(t0).Seconds())
	}

	nprog, nmain, size := 66, 1, 14
	if a.Thorough() {
		// 10x the quick tier: the compiled-Go oracle builds two packages per program (expected / written), about 0.7 s each on
		// a loaded 16-core machine, and one executable pair per true main program
		nprog, nmain, size = 660, 4, 22
	}
	if a.N > 0 {
		nprog = a.N
	}

	// ---- part 0: corpus (directory-mode input of finding C39-1)
	dirOK := true
	if vdir := os.Getenv("VERIF_DIR"); vdir != "" {
		cdir := filepath.Join(vdir, "corpus", "C39", "dirmode")
		files, _ := filepath.Glob(filepath.Join(cdir, "*.gomacro"))
		sort.Strings(files)
		if len(files) > 0 {
			work := a.Path("src/corpus_dirmode")
			os.RemoveAll(work)
			os.MkdirAll(work, 0o755)
			var input []string
			for _, f := range files {
				b, _ := os.ReadFile(f)
				os.WriteFile(filepath.Join(work, filepath.Base(f)), b, 0o644)
				input = append(input, filepath.Base(f)+":\n"+string(b))
			}
			var buf bytes.Buffer
			c := newCmd(&buf)
			diag, perr := preprocess(c, &buf, work)
			// predicate: every written file has exactly the imports of its own source
			for _, f := range files {
				src, _ := os.ReadFile(f)
				wpath := filepath.Join(work, strings.TrimSuffix(filepath.Base(f), ".gomacro")+".go")
				w, _ := os.ReadFile(wpath)
				so, err1 := observe(string(src), false)
				wo, err2 := observe(string(w), false)
				if perr != "" || err1 != nil || err2 != nil || strings.Join(so.imports, "|") != strings.Join(wo.imports, "|") {
					dirOK = false
					rep.Fail(vh.Failure{Key: "corpus:dir-mode-imports-accumulate", What: "gomacro -m -w DIR: a written file does not have the imports of its own source (imports of the files processed before it are copied into it; unused imports do not compile)",
						Input: input, Got: string(w) + diag + perr, Want: "imports of " + filepath.Base(f) + " only"})
					break
				}
			}
			rep.Extra["corpus_dirmode_ok"] = dirOK
			rep.Dist("corpus:dirmode")
		}
	}

	// ---- part 0b: corpus (macro generating a const declaration, finding C39-2)
	constOK := true
	if vdir := os.Getenv("VERIF_DIR"); vdir != "" {
		cdir := filepath.Join(vdir, "corpus", "C39", "macro_const")
		src, err1 := os.ReadFile(filepath.Join(cdir, "a.gomacro"))
		exp, err2 := os.ReadFile(filepath.Join(cdir, "expected.go.txt"))
		if err1 == nil && err2 == nil {
			work := a.Path("src/corpus_macro_const")
			os.RemoveAll(work)
			os.MkdirAll(work, 0o755)
			os.WriteFile(filepath.Join(work, "a.gomacro"), src, 0o644)
			var buf bytes.Buffer
			c := newCmd(&buf)
			diag, perr := preprocess(c, &buf, filepath.Join(work, "a.gomacro"))
			w, _ := os.ReadFile(filepath.Join(work, "a.go"))
			wo, e1 := observe(string(w), false)
			eo, e2 := observe(string(exp), false)
			if perr != "" || e1 != nil || e2 != nil || strings.Join(wo.decls, "|") != strings.Join(eo.decls, "|") {
				constOK = false
				rep.Fail(vh.Failure{Key: "corpus:macro-generated-const-becomes-var", What: "a macro that returns a const declaration: the written file declares a variable (MacroExpand1 splices the Specs of the returned GenDecl, the keyword is lost; `var arr [K]int` no longer compiles)",
					Input: string(src), Got: string(w) + diag + perr, Want: string(exp)})
			}
			rep.Extra["corpus_macro_const_ok"] = constOK
			rep.Dist("corpus:macro_const")
		}
	}
	macroConst = constOK

	// ---- part 0c: corpus (needed parentheses, finding C25-6: macro expansion removes every ParenExpr, the printer must
	// write back those the grammar needs).  The source is plain Go: the written file must have its declarations.
	if vdir := os.Getenv("VERIF_DIR"); vdir != "" {
		src, err := os.ReadFile(filepath.Join(vdir, "corpus", "C39", "needed_parens", "a.gomacro"))
		if err == nil {
			work := a.Path("src/corpus_needed_parens")
			os.RemoveAll(work)
			os.MkdirAll(work, 0o755)
			os.WriteFile(filepath.Join(work, "a.gomacro"), src, 0o644)
			var buf bytes.Buffer
			c := newCmd(&buf)
			diag, perr := preprocess(c, &buf, filepath.Join(work, "a.gomacro"))
			w, _ := os.ReadFile(filepath.Join(work, "a.go"))
			wo, e1 := observe(string(w), false)
			eo, e2 := observe(string(src), false)
			parensOK := perr == "" && e1 == nil && e2 == nil && strings.Join(wo.decls, "|") == strings.Join(eo.decls, "|")
			if !parensOK {
				got := string(w) + diag + perr
				if e1 != nil {
					got = e1.Error() + "\n" + got
				}
				rep.Fail(vh.Failure{Key: "corpus:needed-parentheses-dropped", What: "gomacro -m -w on plain Go: parentheses the grammar needs (composite literal in an if/for/switch/range header, conversion to <-chan T, chan (<-chan T)) are missing in the written file: it does not parse or means something else",
					Input: string(src), Got: got, Want: string(src)})
			}
			rep.Extra["corpus_needed_parens_ok"] = parensOK
			rep.Dist("corpus:needed_parens")
		}
	}

	phase("corpus done")
	// ---- generate
	var jobs []*job
	// the files of one directory argument are one session of one interpreter (a directory is one package): a valid
	// directory defines each macro once, so at most one program of class macro (they share the macro names addto, unless,
	// mkfun, ... and the `:import "go/ast"`) goes into a directory group; further ones become class ext
	macroInGroup := false
	mk := func(idx int, trueMain bool) *prog {
		class := "go"
		switch x := rng.Intn(10); {
		case x >= 8:
			class = "macro"
		case x >= 6:
			class = "ext"
		}
		if class == "macro" {
			if macroInGroup {
				class = "ext"
			}
			macroInGroup = true
		}
		return genProg(rng.Fork(), idx, class, trueMain, size)
	}
	group := 0
	for i := 0; i < nprog; {
		group++
		macroInGroup = false
		if dirOK && rng.Chance(1, 8) && i+3 <= nprog {
			for k := 1; k <= 3; k++ {
				jobs = append(jobs, &job{p: mk(i, false), dirMode: k, group: group})
				i++
			}
			continue
		}
		jobs = append(jobs, &job{p: mk(i, false), group: group})
		i++
	}
	for k := 0; k < nmain; k++ {
		group++
		macroInGroup = false
		jobs = append(jobs, &job{p: mk(nprog+k, true), group: group})
	}

	// ---- write sources
	for _, j := range jobs {
		d := a.Path(fmt.Sprintf("src/g%04d", j.group))
		os.MkdirAll(d, 0o755)
		base := fmt.Sprintf("f%d_%s", j.dirMode, j.p.Pkg)
		j.srcPath = filepath.Join(d, base+".gomacro")
		j.outPath = filepath.Join(d, base+".go")
		os.WriteFile(j.srcPath, []byte(j.p.source()), 0o644)
	}

	// ---- run gomacro in preprocessor mode
	var buf bytes.Buffer
	var c *cmd.Cmd
	diags := map[int]string{}
	uses := 0
	for i := 0; i < len(jobs); i++ {
		j := jobs[i]
		wd.Beat(j.p)
		if c == nil || uses >= 12 || j.p.Class == "macro" {
			c = newCmd(&buf)
			uses = 0
		}
		uses++
		if j.dirMode == 0 {
			d, e := preprocess(c, &buf, j.srcPath)
			diags[j.p.Idx] = d + e
			if j.p.Class == "macro" {
				c = nil
			}
			continue
		}
		// a directory argument: the three files of the group
		d, e := preprocess(c, &buf, filepath.Dir(j.srcPath))
		for k := 0; k < 3; k++ {
			diags[jobs[i+k].p.Idx] = d + e
			if jobs[i+k].p.Class == "macro" {
				c = nil
			}
		}
		i += 2
		rep.Dist("argument:directory")
	}

	phase("preprocessing done")
	// ---- multi-file histories on one Cmd (history.go): outputs that exist already, -f, re-runs, failing files
	nhist, maxHistUnits := 8, 16
	if a.Thorough() {
		nhist, maxHistUnits = 64, 96
	}
	histUnits := runHistories(a, rep, wd, nhist, size/2)
	if len(histUnits) > maxHistUnits {
		histUnits = histUnits[:maxHistUnits]
	}
	rep.Extra["histories"] = nhist
	phase("histories done")
	// ---- per program: oracles 1 and 3, encoding
	header := "From Coq Require Import List NArith ZArith Bool.\nFrom Verif Require Import Common.GoStr C39.Model.\nImport ListNotations.\nOpen Scope Z_scope."
	cw := vh.NewCases(a, header, "case", "mismatches", 18)
	var libUnits, mainUnits []*unit
	unitOf := map[int]*unit{}
	var ir2 *fast.Interp
	ir2uses := 0
	type groupEnc struct {
		files []string
		obs   []string
	}
	genc := map[int]*groupEnc{}
	var gorder []int
	for _, j := range jobs {
		p := j.p
		wd.Beat(p)
		src := p.source()
		fail := func(what string, got, want interface{}) {
			rep.Fail(vh.Failure{Key: "src:" + src, What: what, Input: map[string]interface{}{"source": src, "class": p.Class, "directory_argument_position": j.dirMode}, Got: got, Want: want})
		}
		rep.Dist("class:" + p.Class)
		for k, n := range p.Feat {
			if !strings.HasPrefix(k, "body:") {
				rep.Dist("item:" + k)
			} else if n > 0 {
				rep.Dist(k)
			}
		}
		if d := diags[p.Idx]; strings.TrimSpace(d) != "" {
			fail("gomacro -m -w printed a diagnostic / returned an error on a valid source", d, "")
		}
		wb, err := os.ReadFile(j.outPath)
		if err != nil {
			fail("no file written", err.Error(), j.outPath)
			continue
		}
		written := string(wb)
		expected := p.expected()
		hasStmts := false
		for _, it := range p.Items {
			if it.Kind == "stmt" || it.Kind == "expr" {
				hasStmts = true
			}
		}
		// oracle 1: parses, same package / imports / declarations as the expected program
		wo, err := observe(written, hasStmts)
		if err != nil {
			fail("written file does not parse (go/parser)", err.Error()+"\n"+written, "")
			continue
		}
		eo, err := observe(expected, hasStmts)
		if err != nil {
			fmt.Fprintln(os.Stderr, "generator bug: expected program does not parse:", err, "\n", expected)
			os.Exit(2)
		}
		same := wo.pkg == eo.pkg && strings.Join(wo.imports, "\n") == strings.Join(eo.imports, "\n") &&
			strings.Join(wo.decls, "\n") == strings.Join(eo.decls, "\n") && strings.Join(wo.stmts, "\n") == strings.Join(eo.stmts, "\n")
		if !same {
			fail("imports / declarations of the written file differ from the expected program (position-insensitive AST comparison)",
				map[string]interface{}{"first_difference": firstDiff(wo, eo), "written": written}, expected)
		}
		// second interpreter: encoding + oracle 3
		if ir2 == nil || ir2uses >= 12 || p.Class == "macro" {
			ir2 = fast.New()
			ir2.Comp.Globals.Stdout, ir2.Comp.Globals.Stderr = &bytes.Buffer{}, &bytes.Buffer{}
			ir2uses = 0
		}
		ir2uses++
		enc := &encoder{lookup: map[string][]int{}, kinds: map[string]int{}}
		chunks, xdecls, ximports, xstmts, xerr := expandItems(ir2, p, enc)
		if p.Class == "macro" {
			ir2 = nil
		}
		if xerr != "" {
			fail("second interpreter (normal evaluation) fails on the source", xerr, "")
			continue
		}
		if strings.Join(wo.imports, "\n") != strings.Join(ximports, "\n") || strings.Join(wo.decls, "\n") != strings.Join(xdecls, "\n") ||
			strings.Join(wo.stmts, "\n") != strings.Join(xstmts, "\n") {
			fail("written declarations differ from the macro-expanded declarations (Comp.Parse of a second interpreter, printed with go/printer)",
				map[string]interface{}{"first_difference": firstDiff(wo, &observed{pkg: wo.pkg, imports: ximports, decls: xdecls, stmts: xstmts}), "written": written}, "")
		}
		for k, n := range enc.kinds {
			for ; n > 0; n-- {
				rep.Dist("node:" + k)
			}
		}
		// correspondence case (one per group: a directory argument is one call of Cmd.Main)
		used := map[int]bool{}
		obs := fmt.Sprintf("mkOut %s %s %s %s", vh.CoqStr(wo.pkg), coqZList(idsOf(wo.imports, enc.lookup, used)), coqZList(idsOf(wo.decls, enc.lookup, used)), coqZList(idsOf(wo.stmts, enc.lookup, used)))
		ge := genc[j.group]
		if ge == nil {
			ge = &groupEnc{}
			genc[j.group] = ge
			gorder = append(gorder, j.group)
		}
		ge.files = append(ge.files, vh.CoqList(chunks, "chunk"))
		ge.obs = append(ge.obs, "("+obs+")")

		u := &unit{p: p, expected: expected, written: written}
		unitOf[p.Idx] = u
		if p.Main == "main" {
			mainUnits = append(mainUnits, u)
		} else {
			libUnits = append(libUnits, u)
		}
		kindsSeen := map[string]bool{}
		for _, it := range p.Items {
			kindsSeen[it.Kind] = true
		}
		rep.Count(src, len(wo.decls) >= 8 && len(kindsSeen) >= 5)
		rep.Dist(fmt.Sprintf("decls:%d-%d", len(wo.decls)/10*10, len(wo.decls)/10*10+9))
		if p.Idx%29 == 3 {
			rep.Sample(map[string]interface{}{"class": p.Class, "source": src, "written": written})
		}
		rep.CaseInput(j.group, map[string]interface{}{"source": src, "class": p.Class, "directory_argument_position": j.dirMode, "written": written})
	}
	for _, gidx := range gorder {
		ge := genc[gidx]
		cw.Add(fmt.Sprintf("mkCase %d [%s] [%s]", gidx, strings.Join(ge.files, "; "), strings.Join(ge.obs, "; ")))
	}
	cw.Close()

	libUnits = append(libUnits, histUnits...)
	phase("ast oracles + encoding done")
	// ---- oracle 2: compile and run
	const per = 150
	for b := 0; b*per < len(libUnits); b++ {
		hi := (b + 1) * per
		if hi > len(libUnits) {
			hi = len(libUnits)
		}
		wd.Beat(fmt.Sprintf("oracle batch %d", b))
		outs, badW, err := buildAndRun(a, b, libUnits[b*per:hi])
		if err != nil {
			fmt.Fprintln(os.Stderr, err)
			os.Exit(2)
		}
		judge(rep, libUnits[b*per:hi], outs, badW)
	}
	phase("library batch done")
	if len(mainUnits) > 0 {
		wd.Beat("main programs")
		outs, badW, err := buildMains(a, mainUnits)
		if err != nil {
			fmt.Fprintln(os.Stderr, err)
			os.Exit(2)
		}
		judge(rep, mainUnits, outs, badW)
		rep.Extra["true_main_programs"] = len(mainUnits)
	}
	phase("all done")
	rep.Extra["programs"] = len(jobs)
	rep.Write()
}

func judge(rep *vh.Report, units []*unit, outs map[string]string, badW map[int]string) {
	for _, u := range units {
		src := u.p.source()
		in := map[string]interface{}{"source": src, "class": u.p.Class}
		if msg, bad := badW[u.p.Idx]; bad {
			rep.Fail(vh.Failure{Key: "src:" + src, What: "the written file does not compile", Input: in, Got: msg + "\n" + u.written})
			continue
		}
		o, ok1 := outs[fmt.Sprintf("o %d", u.p.Idx)]
		w, ok2 := outs[fmt.Sprintf("w %d", u.p.Idx)]
		if !ok1 || !ok2 {
			rep.Fail(vh.Failure{Key: "src:" + src, What: "no output from the compiled programs", Input: in})
			continue
		}
		if o != w {
			rep.Fail(vh.Failure{Key: "src:" + src, What: "the compiled written file behaves differently from the expected program", Input: in, Got: w, Want: o})
		}
		if strings.TrimSpace(o) == "" {
			rep.Dist("output:empty")
		} else {
			rep.Dist("output:nonempty")
		}
	}
}

// history.go: multi-file HISTORIES on one cmd.Cmd (seeded miss C39-skipped-file-leaks-decls).
//
// The main stream preprocesses every source with `-m -w -f` on a fresh directory: no file is ever skipped and no file ever
// fails, so whatever Cmd.EvalFile leaves in Globals.Imports/Declarations/Statements on its early returns is never seen.
// Here one directory lives through several steps on ONE Cmd, as when a user re-runs `gomacro -m -w DIR` after adding a source:
//
//	add       a new valid source (name chosen so that it sorts before, between or after the existing ones)
//	add-bad   a source with a chunk the parser rejects between valid declarations (gomacro prints the error and goes on:
//	          nothing is required of the output of that source, everything of the outputs of its neighbours)
//	stale     a hand-made .go output is put next to a source (exists already: skipped without -f, overwritten with -f)
//	run       the directory is preprocessed, with or without -f, through one of the four entry points
//	          Cmd.Main(-m -w [-f] DIR), Cmd.EvalDir(DIR), Cmd.EvalFilesAndDirs(files in a shuffled order),
//	          Cmd.EvalFile file by file
//
// File system model (documented behaviour of -w / -f, nothing else): the files are visited in name order (argument order for
// EvalFilesAndDirs / EvalFile); a source whose output exists is left alone without -f; otherwise its output is (re)written.
// Direct oracle, after every run and for every source of the directory: an output the model says was left alone is
// byte-identical to what it was; an output the model says was written parses and has the package, imports, declarations and
// init() statements of ITS OWN source (same position-insensitive AST comparison as the main stream); the final outputs are
// also handed to the compiled-Go oracle (compile + run against the source).
package main

import (
	"bytes"
	"fmt"
	"os"
	"path/filepath"
	"sort"
	"strings"

	"github.com/cosmos72/gomacro/base"
	"github.com/cosmos72/gomacro/cmd"

	"verifh/vh"
)

type hfile struct {
	name string // base name without extension
	p    *prog  // the valid program
	bad  bool   // source = a prefix of p's items + a chunk that does not parse
	src  string
}

type hstep struct {
	Op    string   `json:"op"`
	File  string   `json:"file,omitempty"`
	Via   string   `json:"via,omitempty"`
	Force bool     `json:"force,omitempty"`
	Order []string `json:"order,omitempty"`
	Diag  string   `json:"gomacro_printed,omitempty"`
}

const staleText = "package stale\n\n// written by hand before gomacro ran\n"

// badSource: the first items of a valid program, then a chunk the parser rejects, then the rest
func badSource(p *prog, r *vh.Rng) string {
	k := 2 + r.Intn(len(p.Items)-2)
	var sb strings.Builder
	for i, it := range p.Items {
		if i == k {
			sb.WriteString("func broken( {\n\n")
		}
		sb.WriteString(it.Src + "\n\n")
	}
	return sb.String()
}

func setPreprocessOptions(c *cmd.Cmd, force bool) {
	// what Cmd.Main does for `-m -w [-f]` before it reaches the first file argument
	if c.Interp == nil {
		c.Init()
	}
	g := &c.Interp.Comp.Globals
	c.WriteDeclsAndStmts = true
	c.OverwriteFiles = force
	g.Options |= base.OptCollectDeclarations | base.OptCollectStatements
	g.Options &^= base.OptShowPrompt | base.OptShowEval | base.OptShowEvalType
	g.Options |= base.OptMacroExpandOnly
}

// runHistories: nh histories; returns the units (final outputs) for the compiled-Go oracle
func runHistories(a *vh.Args, rep *vh.Report, wd *vh.Watchdog, nh int, size int) []*unit {
	var units []*unit
	idx := 500000
	for h := 0; h < nh; h++ {
		r := vh.NewRng(a.Seed*7919 + uint64(h)*104729 + 39)
		dir := a.Path(fmt.Sprintf("src/hist%03d", h))
		os.RemoveAll(dir)
		os.MkdirAll(dir, 0o755)
		var buf bytes.Buffer
		c := newCmd(&buf)
		var files []*hfile
		var steps []hstep
		outs := map[string]string{} // model: name -> content of the output ("" and absent: none)
		fresh := map[string]bool{}  // outputs written by gomacro at some step (content = own source)
		usedNames := map[string]bool{}
		failed := false
		wd.Beat(fmt.Sprintf("history %d", h))

		addFile := func(bad bool) {
			idx++
			class := "go"
			if r.Chance(1, 4) {
				class = "ext"
			}
			p := genProg(r.Fork(), idx, class, false, size)
			var name string
			for {
				name = fmt.Sprintf("%c%d_%s", 'a'+rune(r.Intn(6)), r.Intn(10), p.Pkg)
				if !usedNames[name[:2]] {
					usedNames[name[:2]] = true
					break
				}
			}
			f := &hfile{name: name, p: p, bad: bad, src: p.source()}
			if bad {
				f.src = badSource(p, r)
			}
			files = append(files, f)
			sort.Slice(files, func(i, j int) bool { return files[i].name < files[j].name })
			os.WriteFile(filepath.Join(dir, name+".gomacro"), []byte(f.src), 0o644)
			op := "add"
			if bad {
				op = "add-bad"
			}
			steps = append(steps, hstep{Op: op, File: name + ".gomacro"})
			rep.Dist("history:" + op)
		}
		stale := func() {
			var cand []*hfile
			for _, f := range files {
				if _, ok := outs[f.name]; !ok {
					cand = append(cand, f)
				}
			}
			if len(cand) == 0 {
				return
			}
			f := cand[r.Intn(len(cand))]
			os.WriteFile(filepath.Join(dir, f.name+".go"), []byte(staleText), 0o644)
			outs[f.name] = staleText
			steps = append(steps, hstep{Op: "stale", File: f.name + ".go"})
			rep.Dist("history:stale-output")
		}
		inputOf := func() map[string]interface{} {
			srcs := map[string]string{}
			for _, f := range files {
				srcs[f.name+".gomacro"] = f.src
			}
			return map[string]interface{}{"directory": srcs, "steps": steps, "stale_output_text": staleText,
				"note": "one cmd.Cmd for all steps; direct calls (EvalDir/EvalFilesAndDirs/EvalFile) are made with WriteDeclsAndStmts=true, OverwriteFiles=force and the options Main sets for -m -w"}
		}
		run := func() {
			force := r.Chance(1, 3)
			via := []string{"Main", "EvalDir", "EvalFilesAndDirs", "EvalFile"}[r.Intn(4)]
			order := make([]*hfile, len(files))
			copy(order, files)
			st := hstep{Op: "run", Via: via, Force: force}
			if via == "EvalFilesAndDirs" || via == "EvalFile" {
				for i := len(order) - 1; i > 0; i-- {
					j := r.Intn(i + 1)
					order[i], order[j] = order[j], order[i]
				}
				for _, f := range order {
					st.Order = append(st.Order, f.name+".gomacro")
				}
			}
			buf.Reset()
			perr := vh.Catch(func() {
				switch via {
				case "Main":
					args := []string{"-m", "-w"}
					if force {
						args = append(args, "-f")
					}
					c.Main(append(args, dir))
				case "EvalDir":
					setPreprocessOptions(c, force)
					c.EvalDir(dir)
				case "EvalFilesAndDirs":
					setPreprocessOptions(c, force)
					var paths []string
					for _, f := range order {
						paths = append(paths, filepath.Join(dir, f.name+".gomacro"))
					}
					c.EvalFilesAndDirs(paths...)
				case "EvalFile":
					setPreprocessOptions(c, force)
					for _, f := range order {
						c.EvalFile(filepath.Join(dir, f.name+".gomacro"))
					}
				}
			})
			st.Diag = clip(reflectWarn.ReplaceAllString(buf.String(), ""), 600)
			if perr != nil {
				st.Diag += fmt.Sprint(" panic: ", perr)
			}
			steps = append(steps, st)
			rep.Dist("history:run-via-" + via)
			if force {
				rep.Dist("history:run-with-f")
			}
			// model of the file system effect
			written := map[string]bool{}
			for _, f := range order {
				if f.bad {
					rep.Dist("history:failing-file-visited")
				}
				if _, exists := outs[f.name]; exists && !force {
					rep.Dist("history:skipped-existing-output")
					continue
				}
				written[f.name] = true
			}
			// oracle
			for _, f := range files {
				path := filepath.Join(dir, f.name+".go")
				b, err := os.ReadFile(path)
				got := string(b)
				fail := func(what string, g, w interface{}) {
					if !failed {
						in := inputOf()
						in["checked_file"] = f.name + ".go"
						rep.Fail(vh.Failure{Key: fmt.Sprintf("history:%d:%d", a.Seed, h), What: what, Input: in, Got: g, Want: w})
					}
					failed = true
				}
				if !written[f.name] {
					old, had := outs[f.name]
					switch {
					case !had && err == nil:
						fail("multi-file history: an output appeared for a source that was not visited", got, "no file")
					case had && (err != nil || got != old):
						fail("multi-file history: an existing output that must be left alone (no -f) changed", got, old)
					}
					continue
				}
				if err != nil {
					if !f.bad {
						fail("multi-file history: no output written for a valid source", err.Error(), f.p.expected())
					}
					continue
				}
				outs[f.name] = got
				if f.bad {
					// the declarations before / after the rejected chunk: nothing is required of this output
					continue
				}
				fresh[f.name] = true
				hasStmts := false
				for _, it := range f.p.Items {
					if it.Kind == "stmt" || it.Kind == "expr" {
						hasStmts = true
					}
				}
				wo, err1 := observe(got, hasStmts)
				if err1 != nil {
					fail("multi-file history: written file does not parse (go/parser)", err1.Error()+"\n"+got, f.p.expected())
					continue
				}
				eo, err2 := observe(f.p.expected(), hasStmts)
				if err2 != nil {
					fmt.Fprintln(os.Stderr, "generator bug: expected program does not parse:", err2)
					os.Exit(2)
				}
				if wo.pkg != eo.pkg || strings.Join(wo.imports, "\n") != strings.Join(eo.imports, "\n") ||
					strings.Join(wo.decls, "\n") != strings.Join(eo.decls, "\n") || strings.Join(wo.stmts, "\n") != strings.Join(eo.stmts, "\n") {
					fail("multi-file history: the written file does not have the imports / declarations of ITS OWN source (position-insensitive AST comparison)",
						map[string]interface{}{"first_difference": firstDiff(wo, eo), "written": got}, f.p.expected())
				}
			}
		}

		// ---- the history
		n0 := 2 + r.Intn(3)
		badAt := -1
		if r.Chance(1, 3) {
			badAt = r.Intn(n0)
		}
		for i := 0; i < n0; i++ {
			addFile(i == badAt)
		}
		if r.Chance(1, 2) {
			stale()
		}
		run()
		for round, rounds := 0, 1+r.Intn(3); round < rounds; round++ {
			switch r.Intn(4) {
			case 0:
				stale()
			case 1:
				addFile(r.Chance(1, 4))
			default:
				addFile(false)
			}
			run()
		}
		canon := ""
		for _, f := range files {
			canon += f.src
		}
		rep.Count(fmt.Sprintf("history %v %s", steps, canon), len(files) >= 3)
		if h == 0 {
			rep.Sample(inputOf())
		}
		// final outputs written by gomacro: compiled-Go oracle
		if !failed {
			for _, f := range files {
				if fresh[f.name] && !f.bad {
					units = append(units, &unit{p: f.p, expected: f.p.expected(), written: outs[f.name]})
				}
			}
		}
	}
	return units
}

// c31: stage 1 of the C31 harness.  The direct oracle needs every table symbol referenced BY NAME from compiled Go
// (func pointers, variable addresses, typed constants, reflect.Types); that table is generated per run by
// translators/tr_imports from go/types' view of the packages (build/C31/oracle/symtab.go).  This command builds the
// oracle module (main = verifh/c31core.Main(Symtab), linked against $VERIF_REPO) and runs it with the same arguments;
// the stage-2 process writes cases*.v and report.json.
package main

import (
	"fmt"
	"os"
	"os/exec"
	"path/filepath"

	"verifh/vh"
)

func main() {
	a := vh.ParseArgs()
	odir := a.Path("oracle")
	bin := filepath.Join(odir, "c31oracle")
	fail := func(what, detail string) {
		rep := vh.NewReport(a, "stage 1 failed: "+what)
		rep.Fail(vh.Failure{Key: "c31:stage1:" + what, What: what, Input: odir, Got: detail})
		rep.Write()
		os.Exit(0)
	}
	if _, err := os.Stat(filepath.Join(odir, "symtab.go")); err != nil {
		fmt.Println("c31: no oracle module (pre_step tr_imports did not run?):", err)
		os.Exit(2)
	}
	build := exec.Command("go", "build", "-tags", "verif", "-o", bin, ".")
	build.Dir = odir
	build.Env = append(os.Environ(), "GOFLAGS=-mod=mod", "GOPROXY=off", "GOSUMDB=off", "GOTOOLCHAIN=local")
	if out, err := build.CombinedOutput(); err != nil {
		// the symbol table is built from go/types' view, so a compile error here means the tables name something
		// that compiled Go does not have
		s := string(out)
		if len(s) > 3000 {
			s = s[:3000]
		}
		fail("oracle module does not compile", s)
	}
	run := exec.Command(bin, os.Args[1:]...)
	run.Stdout, run.Stderr = os.Stdout, os.Stderr
	run.Env = os.Environ()
	if err := run.Run(); err != nil {
		fmt.Println("c31: stage 2 failed:", err)
		os.Exit(1)
	}
}

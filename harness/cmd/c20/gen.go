// generator shared in spirit with cmd/c21 (copied: both are package main); adapted for C20:
// macro-free code at depth 0 with redundant parentheses / trivial blocks, and macro calls in statement lists.
package main

import (
	"fmt"
	"strings"

	"verifh/vh"
)

func pick(rng *vh.Rng, kinds ...string) string { return "v" + fmt.Sprint(rng.Intn(3)) }

// ---------------------------------------------------------------- template generator (source text)
type gen struct {
	base   int  // quasiquote depth at which nested quote forms may start (0 for C20)
	parens bool // emit redundant parentheses and one-statement blocks
	macros bool // emit macro calls; unquote bodies are code, not variables
	rng    *vh.Rng
	qd     int // current quasiquote depth (number of enclosing ~quasiquote minus ~unquote)
	maxqd  int
	nunq   int // evaluated unquotes emitted
	ncalls int // macro calls emitted
	labels int
}

var idents = []string{"a", "b", "c", "d", "e", "n", "i", "j", "xs", "ys", "t", "z"}
var types = []string{"int", "string", "[]int", "map[string]int", "*T", "chan int", "<-chan T", "[4]byte", "func(int) string", "struct{ A int; B, C string }", "interface{ M(int) string }", "pkg.T"}

func (g *gen) id() string { return idents[g.rng.Intn(len(idents))] }
func (g *gen) typ() string {
	if g.qd >= 1 && g.rng.Chance(1, 6) {
		return g.unq("expr", false)
	}
	return types[g.rng.Intn(len(types))]
}

// unq emits an unquote form valid at the current depth in a position expecting `want`
// ("expr", "stmt": single; with list=true the position is a list element and splices are allowed).
func (g *gen) unq(want string, list bool) string {
	save := g.qd
	defer func() { g.qd = save }()
	// chain down to an evaluated variable, or stop early with a non-evaluated body
	op := "~unquote"
	splice := list && g.rng.Chance(1, 2)
	if splice {
		op = "~unquote_splice"
	}
	if g.qd == 1 {
		g.nunq++
		g.qd = 0
		if list && g.rng.Chance(1, 2) {
			return op + "{" + g.stmtList(1, 3, false) + "}"
		}
		return op + "{" + g.expr(1) + "}"
	}
	// depth > 1
	g.qd--
	full := g.rng.Chance(2, 3) // continue the chain down to an evaluation
	if full {
		if list {
			// the inner form is the sole statement of the body: it may splice (results are distributed)
			return op + "{" + g.unqNested(want) + "}"
		}
		return op + "{" + g.unqNestedSingle() + "}"
	}
	if g.rng.Chance(1, 4) {
		return op + "{" + g.expr(1) + "; " + g.expr(1) + "}"
	}
	return op + "{" + g.expr(1) + "}"
}

// unqNested: body of an unquote at depth>1 in a list position: another unquote form that may splice
func (g *gen) unqNested(want string) string {
	if want == "case" {
		want = "stmt"
	}
	return g.unqK(want, true)
}
func (g *gen) unqNestedSingle() string { return g.unqK("expr", false) }

// unqK: like unq but values restricted to what both interpreters treat alike under nested unquotes
// (no block-valued / declaration-valued variables: known finding C21-nested-block)
func (g *gen) unqK(want string, list bool) string {
	if g.qd == 1 {
		g.nunq++
		save := g.qd
		g.qd = 0
		defer func() { g.qd = save }()
		return "~unquote{" + g.stmtList(1, 2, false) + "}"
	}
	save := g.qd
	defer func() { g.qd = save }()
	g.qd--
	op := "~unquote"
	if list && g.rng.Chance(1, 3) {
		op = "~unquote_splice"
	}
	return op + "{" + g.unqK(want, list) + "}"
}

func (g *gen) nested(body func() string) string {
	save := g.qd
	defer func() { g.qd = save }()
	if g.rng.Chance(1, 5) {
		return "~quote{" + body() + "}"
	}
	g.qd++
	return "~quasiquote{" + body() + "}"
}

func (g *gen) exprList(d, max int, allowSplice bool) string {
	n := g.rng.Intn(max + 1)
	var parts []string
	for i := 0; i < n; i++ {
		if g.qd >= 1 && allowSplice && g.rng.Chance(1, 3) {
			parts = append(parts, g.unq("expr", true))
		} else {
			parts = append(parts, g.expr(d))
		}
	}
	return strings.Join(parts, ", ")
}

func (g *gen) primary(d int) string {
	switch g.rng.Intn(7) {
	case 0:
		return fmt.Sprint(g.rng.Intn(100))
	case 1:
		return []string{`"s"`, "'c'", "1.5", "2i", "`raw`"}[g.rng.Intn(5)]
	default:
		return g.id()
	}
}

func (g *gen) expr(d int) string {
	if g.parens && d > 0 && g.rng.Chance(1, 8) {
		return "(" + g.expr(d-1) + ")"
	}
	if g.qd >= 1 && g.rng.Chance(1, 5) {
		return g.unq("expr", false)
	}
	if d <= 0 {
		return g.primary(d)
	}
	if g.qd >= g.base && g.qd < g.maxqd && g.rng.Chance(1, 5) {
		return g.nested(func() string {
			if g.rng.Chance(1, 3) {
				return g.stmtList(d-1, 2, true)
			}
			return g.expr(d - 1)
		})
	}
	switch g.rng.Intn(16) {
	case 0:
		return g.operand(d-1) + []string{" + ", " * ", " && ", " == ", " << ", " &^ "}[g.rng.Intn(6)] + g.operand(d-1)
	case 1:
		return []string{"-", "!", "&", "*", "<-", "^"}[g.rng.Intn(6)] + g.operand(d-1)
	case 2:
		ell := ""
		args := g.exprList(d-1, 3, true)
		if args != "" && g.rng.Chance(1, 6) {
			ell = "..."
		}
		return g.operand(d-1) + "(" + args + ell + ")"
	case 3:
		return g.operand(d-1) + "." + g.id()
	case 4:
		return g.operand(d-1) + "[" + g.expr(d-1) + "]"
	case 5:
		switch g.rng.Intn(3) {
		case 0:
			return g.operand(d-1) + "[" + g.expr(d-1) + ":]"
		case 1:
			return g.operand(d-1) + "[:" + g.expr(d-1) + "]"
		}
		return g.operand(d-1) + "[" + g.expr(d-1) + ":" + g.expr(d-1) + ":" + g.expr(d-1) + "]"
	case 6:
		return g.operand(d-1) + ".(" + g.typ() + ")"
	case 7:
		return "[]int{" + g.exprList(d-1, 3, true) + "}"
	case 8:
		return "map[string]T{" + `"k": ` + g.expr(d-1) + ", " + g.id() + ": " + g.expr(d-1) + "}"
	case 9:
		return "T{A: " + g.expr(d-1) + "}"
	case 10:
		return "func(" + g.id() + " " + g.typ() + ", r ..." + types[g.rng.Intn(3)] + ") (" + g.typ() + ", error) { " + g.stmtList(d-1, 2, true) + " }"
	case 11:
		return "func() { " + g.stmtList(d-1, 2, true) + " }"
	case 12:
		return "[]" + g.typ() + "{}"
	default:
		return g.primary(d)
	}
}

// operand: an expression that needs no parentheses as operand (templates contain no ParenExpr: known finding C21-paren)
func (g *gen) operand(d int) string {
	if g.parens && d > 0 && g.rng.Chance(1, 8) {
		return "((" + g.expr(d-1) + "))"
	}
	if g.qd >= 1 && g.rng.Chance(1, 5) {
		return g.unq("expr", false)
	}
	if d > 0 && g.rng.Chance(1, 3) {
		switch g.rng.Intn(3) {
		case 0:
			return g.operand(d-1) + "(" + g.exprList(d-1, 2, true) + ")"
		case 1:
			return g.operand(d-1) + "." + g.id()
		default:
			return g.operand(d-1) + "[" + g.expr(d-1) + "]"
		}
	}
	return g.primary(d)
}

func (g *gen) block(d int) string { return "{ " + g.stmtList(d, 3, true) + " }" }

func (g *gen) stmtList(d, max int, allowEmpty bool) string {
	n := g.rng.Intn(max + 1)
	if n == 0 && !allowEmpty {
		n = 1
	}
	var parts []string
	for i := 0; i < n; i++ {
		if g.macros && g.rng.Chance(1, 3) {
			m := macroDefs[g.rng.Intn(len(macroDefs))]
			g.ncalls++
			parts = append(parts, m.name)
			for j := 0; j < m.argn; j++ {
				switch g.rng.Intn(4) {
				case 0:
					parts = append(parts, g.expr(d-1))
				case 1:
					parts = append(parts, "{ "+g.stmtList(d-1, 2, false)+"; "+g.simpleStmt(0)+" }")
				default:
					parts = append(parts, g.stmt(d-1))
				}
			}
			continue
		}
		if g.qd >= 1 && g.rng.Chance(1, 4) {
			parts = append(parts, g.unq("stmt", true))
		} else {
			parts = append(parts, g.stmt(d))
		}
	}
	if g.macros && len(parts) > 0 && parts[0] == "mn" {
		// a list that expands to nothing crashes when it is a case body (known finding C20-empty-expansion-case-body)
		parts = append(parts, g.simpleStmt(0))
	}
	if g.macros && len(parts) == 1 {
		parts = append(parts, g.simpleStmt(0)) // a macro call is never the only statement of a block (known finding C20-sole-macro-call)
	}
	return strings.Join(parts, "; ")
}

func (g *gen) simpleStmt(d int) string {
	switch g.rng.Intn(5) {
	case 0:
		return g.id() + " := " + g.expr(d)
	case 1:
		return g.id() + "++"
	case 2:
		return g.id() + " = " + g.expr(d)
	default:
		return g.operand(d) + "(" + g.exprList(d, 2, true) + ")"
	}
}

func (g *gen) stmt(d int) string {
	if d <= 0 {
		return g.simpleStmt(0)
	}
	if g.parens && g.rng.Chance(1, 10) {
		switch g.rng.Intn(3) {
		case 0:
			return "{ " + g.stmt(d-1) + " }"
		case 1:
			return "{ { " + g.stmt(d-1) + " } }"
		default:
			return "{ " + g.id() + " := " + g.expr(d-1) + " }" // must stay a block
		}
	}
	if g.qd >= g.base && g.qd < g.maxqd && g.rng.Chance(1, 4) {
		return g.nested(func() string {
			if g.rng.Chance(1, 2) {
				return g.stmtList(d-1, 3, true)
			}
			return g.expr(d - 1)
		})
	}
	switch g.rng.Intn(24) {
	case 0:
		return g.id() + ", " + g.id() + " := " + g.expr(d-1) + ", " + g.expr(d-1)
	case 1:
		return g.operand(d-1) + ", " + g.id() + " = " + g.expr(d-1) + ", " + g.expr(d-1)
	case 2:
		return g.id() + []string{" += ", " -= ", " |= ", " <<= "}[g.rng.Intn(4)] + g.expr(d-1)
	case 3:
		return g.id() + []string{"++", "--"}[g.rng.Intn(2)]
	case 4:
		s := "if "
		if g.rng.Chance(1, 3) {
			s += g.simpleStmt(d-1) + "; "
		}
		s += g.expr(d-1) + " " + g.block(d-1)
		switch g.rng.Intn(3) {
		case 0:
			s += " else " + g.block(d-1)
		case 1:
			s += " else if " + g.expr(d-1) + " " + g.block(d-1)
		}
		return s
	case 5:
		switch g.rng.Intn(3) {
		case 0:
			return "for " + g.block(d-1)
		case 1:
			return "for " + g.expr(d-1) + " " + g.block(d-1)
		}
		return "for i := 0; i < " + g.expr(d-1) + "; i++ " + g.block(d-1)
	case 6:
		switch g.rng.Intn(3) {
		case 0:
			return "for k, v := range " + g.expr(d-1) + " " + g.block(d-1)
		case 1:
			return "for k = range " + g.expr(d-1) + " " + g.block(d-1)
		}
		return "for range " + g.operand(d-1) + " " + g.block(d-1)
	case 7:
		s := "switch "
		if g.rng.Chance(1, 3) {
			s += g.simpleStmt(d-1) + "; "
		}
		if g.rng.Chance(2, 3) {
			s += g.operand(d-1) + " "
		}
		s += "{ "
		if g.qd >= 1 && g.rng.Chance(1, 3) {
			s += g.unq("case", true)
		} else {
			n := g.rng.Intn(3)
			for i := 0; i < n; i++ {
				cl := g.exprList(d-1, 2, true)
				if cl == "" {
					cl = g.expr(d - 1)
				}
				s += "case " + cl + ": " + g.stmtList(d-1, 2, true) + "; "
			}
			if g.rng.Bool() {
				s += "default: " + g.stmtList(d-1, 2, true)
			}
		}
		return s + " }"
	case 8:
		return "switch y := " + g.operand(d-1) + ".(type) { case int, string: " + g.stmtList(d-1, 2, true) + "; default: " + g.stmtList(d-1, 1, true) + " }"
	case 9:
		return "select { case " + g.id() + " <- " + g.expr(d-1) + ": " + g.stmtList(d-1, 2, true) + "; case v, ok := <-" + g.operand(d-1) + ": " + g.stmtList(d-1, 2, true) + "; default: " + g.stmtList(d-1, 1, true) + " }"
	case 10:
		return "return " + g.exprList(d-1, 3, true)
	case 11:
		return []string{"break", "continue", "goto L", "break L", "fallthrough"}[g.rng.Intn(5)]
	case 12:
		g.labels++
		return fmt.Sprintf("L%d: %s", g.labels, g.stmt(d-1))
	case 13:
		return "go " + g.operand(d-1) + "(" + g.exprList(d-1, 2, true) + ")"
	case 14:
		return "defer " + g.operand(d-1) + "(" + g.exprList(d-1, 2, true) + ")"
	case 15:
		return "{ " + g.stmtList(d-1, 3, true) + "; " + g.stmt(d-1) + "; " + g.stmt(d-1) + " }" // >= 2 statements
	case 16:
		switch g.rng.Intn(4) {
		case 0:
			return "var " + g.id() + " " + g.typ()
		case 1:
			return "var " + g.id() + ", " + g.id() + " " + g.typ() + " = " + g.expr(d-1) + ", " + g.expr(d-1)
		case 2:
			return "var " + g.id() + " = " + g.expr(d-1)
		}
		return "var ( " + g.id() + " = " + g.expr(d-1) + "; " + g.id() + " " + g.typ() + " )"
	case 17:
		return "const " + g.id() + " = " + g.expr(d-1)
	case 18:
		if g.rng.Bool() {
			return "type " + strings.ToUpper(g.id()) + " " + g.typ()
		}
		return "type " + strings.ToUpper(g.id()) + " = " + g.typ()
	case 19:
		return g.id() + " <- " + g.expr(d-1)
	default:
		return g.simpleStmt(d - 1)
	}
}

func (g *gen) program() string {
	g.qd = 0
	return "{ " + g.stmtList(3, 4, false) + "; " + g.stmt(2) + " }"
}

func (g *gen) template() string {
	g.qd = 1
	var body string
	switch g.rng.Intn(4) {
	case 0:
		body = g.expr(3)
	case 1:
		body = g.stmt(3)
	default:
		body = g.stmtList(2, 3, false)
	}
	if g.rng.Chance(1, 12) {
		return "~quote{" + body + "}"
	}
	return "~quasiquote{" + body + "}"
}

// c20: macro expansion code walk (fast Comp.MacroExpandNodeCodewalk and classic Env.MacroExpandCodewalk).
// Stream A (macro-free): random programs covering every node kind the parser accepts, with redundant parentheses,
//
//	one-statement blocks, nested ~quote / ~quasiquote / ~unquote forms; direct oracle: the output equals the input
//	after removing ParenExpr/ExprStmt/DeclStmt wrappers and one-statement blocks without declaration (norm2 on both
//	sides), nothing is reported as expanded, fast == classic.
//
// Stream B (macros): the same grammar plus calls of 7 macros with 0..3 parameters returning a node, an argument, two
//
//	values, nothing, a list, a list that starts with another macro call; direct oracle: fast == classic and both equal
//	the reference expander below (on norm2-normalised trees).
//
// Correspondence: cases_NNN.v = input, observed outputs; evaluated by coq/C20/Model.v (walk) with the same macro table.
package main

import (
	"fmt"
	"go/ast"
	"io"
	"os"
	"strings"
	"time"

	"github.com/cosmos72/gomacro/classic"
	"github.com/cosmos72/gomacro/fast"
	etoken "github.com/cosmos72/gomacro/go/etoken"
	"verifh/vh"
)

type macroDef struct {
	name string
	argn int
	src  string
	cst  string // name of the variable holding the constant result, if any
}

var macroDefs = []macroDef{
	{"m0", 0, "~macro m0() interface{} { return ~quote{zz(0)} }", "zz(0)"},
	{"m1", 1, "~macro m1(a interface{}) interface{} { return a }", ""},
	{"m2", 2, "~macro m2(a, b interface{}) (interface{}, interface{}) { return b, a }", ""},
	{"m3", 3, "~macro m3(a, b, c interface{}) interface{} { return b }", ""},
	{"mn", 1, "~macro mn(a interface{}) { }", ""},
	{"ml", 0, "~macro ml() interface{} { return ~quote{p1; p2(); p3++} }", "p1; p2(); p3++"},
	{"mre", 0, "~macro mre() interface{} { return ~quote{m0; tl} }", "m0; tl"},
}

func macroByName(n string) *macroDef {
	for i := range macroDefs {
		if macroDefs[i].name == n {
			return &macroDefs[i]
		}
	}
	return nil
}

var (
	tQUOTE  = fmt.Sprint(int(etoken.QUOTE))
	tQQ     = fmt.Sprint(int(etoken.QUASIQUOTE))
	tUNQ    = fmt.Sprint(int(etoken.UNQUOTE))
	tSPLICE = fmt.Sprint(int(etoken.UNQUOTE_SPLICE))
	tMACRO  = fmt.Sprint(int(etoken.MACRO))
	tDEFINE = "47"
)

func isWrapper(t *vh.R) bool {
	return t != nil && !t.Slice && (t.Tag == "ExprStmt" || t.Tag == "ParenExpr" || t.Tag == "DeclStmt") && len(t.Kids) == 1 && t.Kids[0] != nil
}

func quoteForm(t *vh.R) (string, *vh.R) {
	if t == nil || t.Slice || t.Tag != "UnaryExpr" || len(t.Atoms) != 1 || len(t.Kids) != 1 {
		return "", nil
	}
	op := t.Atoms[0]
	if op != tQUOTE && op != tQQ && op != tUNQ && op != tSPLICE && op != tMACRO {
		return "", nil
	}
	fl := t.Kids[0]
	if fl == nil || fl.Tag != "FuncLit" || len(fl.Kids) != 2 || fl.Kids[1] == nil {
		return "", nil
	}
	return op, fl.Kids[1]
}

func mkQ(op string, elems []*vh.R) *vh.R {
	return &vh.R{Tag: "UnaryExpr", Atoms: []string{op}, Kids: []*vh.R{{Tag: "FuncLit", Kids: []*vh.R{
		{Tag: "FuncType", Kids: []*vh.R{{Slice: true, Tag: "SFieldList"}, nil}},
		{Slice: true, Tag: "SBlock", Kids: elems}}}}}
}

func keepsBlock(c *vh.R) bool { // the statement of a one-statement block that must stay a block
	if c == nil {
		return true
	}
	if c.Slice && c.Tag == "SGenDecl" {
		return true
	}
	if !c.Slice && (c.Tag == "FuncDecl" || c.Tag == "DeclStmt") {
		return true
	}
	return !c.Slice && c.Tag == "AssignStmt" && len(c.Atoms) > 0 && c.Atoms[0] == tDEFINE
}

// norm2: the "redundant wrappers" of the property: ParenExpr / ExprStmt / DeclStmt and one-statement blocks
// without declaration are erased everywhere (bottom-up), empty bare slices = nil
func norm2(t *vh.R) *vh.R {
	if t == nil {
		return nil
	}
	for isWrapper(t) {
		t = t.Kids[0]
	}
	out := &vh.R{Slice: t.Slice, Tag: t.Tag, Atoms: t.Atoms}
	for _, k := range t.Kids {
		out.Kids = append(out.Kids, norm2(k))
	}
	if out.Slice && out.Tag == "SBlock" && len(out.Kids) == 1 && !keepsBlock(out.Kids[0]) {
		return out.Kids[0]
	}
	return out.Canon()
}

// ---------------------------------------------------------------- reference expander (on norm2 trees)
type refx struct {
	consts map[string]*vh.R // constant results of m0, ml, mre (norm2)
	steps  int
}

func identName(t *vh.R) string {
	if t != nil && !t.Slice && t.Tag == "Ident" && len(t.Atoms) == 1 {
		return strings.TrimPrefix(t.Atoms[0], "s:")
	}
	return ""
}

func (x *refx) apply(m *macroDef, args []*vh.R) []*vh.R {
	switch m.name {
	case "m0", "ml", "mre":
		return []*vh.R{x.consts[m.name]}
	case "m1":
		return []*vh.R{args[0]}
	case "m2":
		return []*vh.R{args[1], args[0]}
	case "m3":
		return []*vh.R{args[1]}
	}
	return nil
}

type refFail string

// scanOnce: one MacroExpand1 pass over a list
func (x *refx) scanOnce(elems []*vh.R) ([]*vh.R, bool) {
	var out []*vh.R
	expanded := false
	for i := 0; i < len(elems); i++ {
		m := macroByName(identName(elems[i]))
		if m == nil {
			out = append(out, elems[i])
			continue
		}
		if len(elems)-i-1 < m.argn {
			panic(refFail("not enough arguments"))
		}
		for _, r := range x.apply(m, elems[i+1:i+1+m.argn]) {
			if r.Slice && r.Tag == "SBlock" { // a block result is spread; (a declaration reaches the macro wrapped in a DeclStmt)
				out = append(out, r.Kids...)
			} else {
				out = append(out, r)
			}
		}
		i += m.argn
		expanded = true
	}
	return out, expanded
}

func (x *refx) walk(t *vh.R, qd int) *vh.R {
	if t == nil {
		return nil
	}
	x.steps++
	if x.steps > 100000 {
		panic(refFail("reference expander does not terminate"))
	}
	if op, body := quoteForm(t); op != "" {
		switch op {
		case tQUOTE:
			if qd == 0 {
				return t
			}
		case tQQ:
			qd++
		case tUNQ, tSPLICE:
			qd--
		}
		nb := x.walk(body, qd)
		var elems []*vh.R
		if nb != nil && nb.Slice && nb.Tag == "SBlock" {
			elems = nb.Kids
		} else if nb != nil {
			elems = []*vh.R{nb}
		}
		if op == tMACRO {
			return norm2(&vh.R{Slice: true, Tag: "SBlock", Kids: elems})
		}
		return mkQ(op, elems)
	}
	kids := t.Kids
	if t.Slice && qd <= 0 {
		for {
			var e bool
			kids, e = x.scanOnce(kids)
			if !e {
				break
			}
			x.steps++
			if x.steps > 100000 {
				panic(refFail("reference expander does not terminate"))
			}
		}
	}
	out := &vh.R{Slice: t.Slice, Tag: t.Tag, Atoms: t.Atoms}
	for _, k := range kids {
		out.Kids = append(out.Kids, x.walk(k, qd))
	}
	if t.Slice && t.Tag == "SBlock" && len(out.Kids) == 0 && len(t.Kids) > 0 {
		return &vh.R{Tag: "EmptyStmt", Atoms: []string{"0"}}
	}
	return out
}

func (x *refx) expand(t *vh.R) (res *vh.R, err string) {
	defer func() {
		if p := recover(); p != nil {
			if e, ok := p.(refFail); ok {
				err = string(e)
				return
			}
			panic(p)
		}
	}()
	x.steps = 0
	// a body of a quote form that becomes a single element is still a list: normalise again at the end
	return norm2(x.walk(t, 0)), ""
}

// refApplicable: the reference works on normalised trees, where { { a; b } } and { a; b } coincide; as a macro
// argument they do not (the outer block is spread, the inner one stays), so such inputs are checked by
// fast == classic and by the model only.  The same holds for { { x := e } } and { x := e }: norm2 keeps the block of
// a lone declaration, so both normalise to the same tree (first met by the thorough tier:
// `{ m1; { { e := j } }; ... }` - gomacro returns `{ e := j }`, the reference spread the block and returned `e := j`).
func refApplicable(t *vh.R) bool {
	ok := true
	t.Walk(func(x *vh.R) {
		if x.Slice && x.Tag == "SBlock" && len(x.Kids) == 1 {
			k := x.Kids[0]
			for isWrapper(k) {
				k = k.Kids[0]
			}
			if k != nil && k.Slice && k.Tag == "SBlock" && (len(k.Kids) != 1 || keepsBlock(norm2(k.Kids[0]))) {
				ok = false
			}
		}
	})
	return ok
}

// ---------------------------------------------------------------- main
func oneLine(p interface{}) string {
	s := strings.Join(strings.Fields(fmt.Sprint(p)), " ")
	if len(s) > 200 {
		s = s[:200]
	}
	return s
}

type caseIn struct {
	Src    string `json:"src"`
	Stream string `json:"stream"`
}

func main() {
	a := vh.ParseArgs()
	rng := vh.NewRng(a.Seed)
	rep := vh.NewReport(a, "stream A: random macro-free programs (statement/expression grammar covering every go/ast node kind the parser accepts in a block, redundant parentheses, one-statement blocks incl. { x := e }, nested ~quote/~quasiquote/~unquote forms) through Comp.MacroExpandNodeCodewalk and classic Env.MacroExpandCodewalk; "+
		"stream B: the same grammar plus calls of macros m0() m1(a) m2(a,b) m3(a,b,c) mn(a) ml() mre() (returning a constant node, an argument, two values, nothing, a 3-element list, a list starting with another macro call) at random positions of statement lists at any nesting level, inside ~quote (must stay) and inside ~unquote bodies of ~quasiquote; arguments are expressions, statements or blocks that may contain further calls; "+
		"a macro call is never the only statement of a block (known finding C20-sole-macro-call, replayed from the corpus stream); non-trivial = the input contains a trivial wrapper that must be stripped (A) / a macro call (B); distinct by SHA-256 of the source")
	fi := fast.New()
	ci := classic.New()
	fi.Comp.Globals.Stdout, fi.Comp.Globals.Stderr = io.Discard, io.Discard
	ci.Globals.Stdout, ci.Globals.Stderr = io.Discard, io.Discard
	in := vh.NewInterner()
	rx := &refx{consts: map[string]*vh.R{}}
	var tbl []string
	for _, m := range macroDefs {
		if p := vh.Catch(func() { fi.Eval(m.src); ci.Eval(m.src) }); p != nil {
			fmt.Fprintln(os.Stderr, "macro definition failed:", m.src, p)
			os.Exit(2)
		}
		var fn string
		switch m.name {
		case "m1":
			fn = "fun args => args"
		case "m2":
			fn = "fun args => rev args"
		case "m3":
			fn = "fun args => match args with [_; b; _] => [b] | _ => [] end"
		case "mn":
			fn = "fun _ => []"
		default:
			vals, _ := fi.Eval("~quote{" + m.cst + "}")
			c := vh.FromNode(vals[0].Interface().(ast.Node))
			rx.consts[m.name] = norm2(c)
			fn = "fun _ => [" + in.Coq(c) + "]"
		}
		tbl = append(tbl, fmt.Sprintf("if N.eqb n %s then Some (%d%%nat, %s)", in.AtomN(m.name), m.argn, fn))
	}
	header := "From Coq Require Import List NArith ZArith.\nFrom Verif Require Import Common.Rose C21.Model C20.Model.\nImport ListNotations.\nOpen Scope Z_scope.\n" +
		"Definition macros0 (n : N) : option (nat * (list tree -> list tree)) :=\n  " + strings.Join(tbl, "\n  else ") + "\n  else None."
	perShard := 50
	if a.Thorough() {
		perShard = 110
	}
	cw := vh.NewCases(a, header, "case", "mismatches macros0", perShard)
	wd := vh.NewWatchdog(rep, 180*time.Second) // generous: the shared machine reaches load 100+; a real hang is still reported

	idx := 0
	runCase := func(src, stream, knownKey string, hasMacros bool) {
		wd.Beat(src)
		cin := caseIn{src, stream}
		fail := func(what string, got, want interface{}) {
			key := src
			if knownKey != "" {
				key = knownKey
			}
			rep.Fail(vh.Failure{Key: key, What: what, Input: cin, Got: got, Want: want})
		}
		var node ast.Node
		if p := vh.Catch(func() {
			nodes := fi.Comp.ParseBytes([]byte(src))
			if len(nodes) == 1 {
				node = nodes[0]
			}
		}); p != nil || node == nil {
			rep.Dist("generator:unparsable")
			return
		}
		tin := vh.FromNode(node)
		idx++
		// the walk must not modify its input: parse again for the second interpreter and compare afterwards
		var fo, co ast.Node
		var fexp, cexp bool
		var fe, ce string
		if p := vh.Catch(func() { fo, fexp = fi.Comp.MacroExpandNodeCodewalk(node) }); p != nil {
			fe = oneLine(p)
		}
		if !vh.Equal(tin, vh.FromNode(node)) {
			fail("fast: the walk modified its input tree", vh.FromNode(node).String(), tin.String())
		}
		var node2 ast.Node
		vh.Catch(func() { node2 = ci.ParseBytes([]byte(src))[0] })
		if p := vh.Catch(func() { co, cexp = ci.MacroExpandCodewalk(node2) }); p != nil {
			ce = oneLine(p)
		}
		var fr, cr *vh.R
		if fe == "" {
			fr = vh.FromNode(fo)
		} else {
			fail("fast interpreter failed", fe, nil)
		}
		if ce == "" {
			cr = vh.FromNode(co)
		} else {
			fail("classic interpreter failed", ce, nil)
		}
		if fr != nil && cr != nil && (!vh.Equal(fr, cr) || fexp != cexp) {
			fail("fast output != classic output", fmt.Sprint(fexp, " ", fr), fmt.Sprint(cexp, " ", cr))
		}
		nin := norm2(tin)
		if !hasMacros {
			for who, o := range map[string]*vh.R{"fast": fr, "classic": cr} {
				if o != nil && !vh.Equal(norm2(o), nin) {
					fail(who+": macro-free code changed by the walk (beyond trivial wrappers)", norm2(o).String(), nin.String())
				}
			}
			if fexp || cexp {
				fail("macro-free code reported as expanded", fmt.Sprint(fexp, cexp), "false")
			}
		} else {
			want, rerr := rx.expand(nin)
			if !refApplicable(tin) {
				rep.Dist("reference-not-applicable:block-in-block")
			} else if rerr != "" {
				rep.Dist("generator:reference-undefined:" + rerr)
			} else {
				for who, o := range map[string]*vh.R{"fast": fr, "classic": cr} {
					if o != nil && !vh.Equal(norm2(o), want) {
						fail(who+": expansion != reference expander", norm2(o).String(), want.String())
					}
				}
			}
		}
		// property predicate: no macro call is left where expansion applies (outside ~quote, inside ~unquote)
		if hasMacros && fr != nil {
			left := ""
			var scanLeft func(t *vh.R, qd int)
			scanLeft = func(t *vh.R, qd int) {
				if t == nil {
					return
				}
				if op, _ := quoteForm(t); op != "" {
					switch op {
					case tQUOTE:
						if qd == 0 {
							return
						}
					case tQQ:
						qd++
					case tUNQ, tSPLICE:
						qd--
					}
				}
				if qd <= 0 && macroByName(identName(t)) != nil {
					left = identName(t)
				}
				for _, k := range t.Kids {
					scanLeft(k, qd)
				}
			}
			scanLeft(fr, 0)
			if left != "" {
				fail("a macro call is left unexpanded in the output: "+left, fr.String(), nil)
			}
		}
		if (fr == nil || !fr.HasNilElem()) && (cr == nil || !cr.HasNilElem()) && !tin.HasNilElem() {
			cw.Add(fmt.Sprintf("mkCase %d %s %s %s %s", idx, in.Coq(tin), in.CoqOpt(fr), in.CoqOpt(cr), vh.CoqBool(fexp)))
			rep.CaseInput(idx, cin)
		}
		wrappers, calls := 0, 0
		tin.Walk(func(x *vh.R) {
			rep.Dist("kind:" + x.Tag)
			if isWrapper(x) && x.Tag == "ParenExpr" {
				wrappers++
			}
			if x.Slice && x.Tag == "SBlock" && len(x.Kids) == 1 {
				wrappers++
			}
			if macroByName(identName(x)) != nil {
				calls++
				rep.Dist("macro:" + identName(x))
			}
		})
		rep.Dist("stream:" + stream)
		rep.Count(src, (hasMacros && calls > 0) || (!hasMacros && wrappers > 0))
		if idx%37 == 3 {
			rep.Sample(map[string]string{"src": src, "fast": fr.String()})
		}
	}

	corpus := []struct {
		src, key string
		macros   bool
	}{
		{"{ if x { m0 }; y }", "C20-sole-macro-call", true},
		{"{ switch { case 1: mn; a }; y }", "C20-empty-expansion-case-body", true},
		{"{ m3; 1; v; 3; w }", "", true},
		{"{ m3; 1; { m3; 2; 3; 4 }; 5; w }", "", true},
		{"{ a; mre; b }", "", true},
		{"{ ~quote{m0; x}; m0; y }", "", true},
		{"{ ~quasiquote{m0; x; ~unquote{m1; y; z}}; w }", "", true},
		{"{ f(m0, 1); mn; gone; ml; w }", "", true},
		{"{ ~quasiquote{a; ~quote{b; ~unquote{m1; c; d}}}; w }", "", true},
		{"{ ~quasiquote{~quote{~unquote{m0; e}}; ~quasiquote{~unquote{~unquote{ml; g}}}}; w }", "", true},
		{"{ m1; return 7; m1; var k int; w }", "C20-result-return-dissolved", true},
		{"{ ((a)); { b }; { c := 1 }; { { d } }; e }", "", false},
	}
	for _, c := range corpus {
		runCase(c.src, "corpus", c.key, c.macros)
	}
	n := 150
	if a.Thorough() {
		// 2 x 6000 programs would be 240 case files of 50; 2 x 1600 in files of 110: ~29 files
		n = 1600
	}
	if a.N > 0 {
		n = a.N
	}
	for k := 0; k < 2*n; k++ {
		g := &gen{rng: rng.Fork(), maxqd: k % 3, base: 0, parens: true, macros: k%2 == 1}
		src := g.program()
		if len(src) > 1200 {
			rep.Dist("generator:too-long")
			continue
		}
		if g.macros {
			runCase(src, "B:macros", "", true)
		} else {
			runCase(src, "A:macro-free", "", false)
		}
	}
	cw.Close()
	rep.Write()
}

package main

// part C: AssignableTo / ConvertibleTo / Comparable / Implements on ordered pairs, against reflect
// (and the fork's go/types predicates on the go/types side against reflect).

import (
	"bufio"
	"bytes"
	"fmt"
	"io"
	"os"
	r "reflect"
	"sort"
	"strings"
	"time"

	"github.com/cosmos72/gomacro/go/types"
	"verifh/vh"
)

type namedBytes []byte
type namedStruct struct{ A int }
type namedStruct2 struct{ A int }
type namedChan chan int
type namedFunc func(int) string
type stringer interface{ String() string }

// twin named struct types (identical underlying types) and named composites over them: the conversion / assignability
// rules that mention "unnamed" or "identical underlying types" must tell them apart
type namedPtr1 *namedStruct
type namedPtr2 *namedStruct2
type namedPtr1b *namedStruct
type namedPtrPtr1 **namedStruct
type namedSlice1 []namedStruct
type namedSlice2 []namedStruct2
type namedArr1 [2]namedStruct
type namedArr2 [2]namedStruct2
type namedMap1 map[string]namedStruct
type namedMap2 map[string]namedStruct2
type namedChan1 chan namedStruct
type namedChan2 chan namedStruct2
type namedFunc1 func(namedStruct) *namedStruct
type namedFunc2 func(namedStruct2) *namedStruct2
type namedTagged struct {
	A int `t:"1"`
}
type namedPtrTagged *namedTagged
type namedInt1 int
type namedInt2 int
type namedPtrInt1 *namedInt1
type namedPtrInt2 *namedInt2

func (h *H) handPicked() []ty {
	vals := []interface{}{
		0, int8(0), int64(0), uint(0), uint8(0), float32(0), 0.0, complex64(0), "", false, 'x',
		[]byte(nil), []rune(nil), []int(nil), [4]byte{}, [4]int{}, (*[4]byte)(nil), (*[4]int)(nil), namedBytes(nil),
		struct{ A int }{}, namedStruct{}, namedStruct2{}, (*namedStruct)(nil), (*struct{ A int })(nil),
		struct {
			A int `t:"1"`
		}{},
		make(chan int), make(<-chan int), make(chan<- int), namedChan(nil),
		func(int) string { return "" }, namedFunc(nil), func(...int) {}, func([]int) {},
		map[string]int(nil), map[string]interface{}(nil),
		time.Duration(0), time.Time{}, (*time.Time)(nil), time.Month(0),
		bytes.Buffer{}, (*bytes.Buffer)(nil), (*os.File)(nil), (*bufio.Reader)(nil), (*bufio.ReadWriter)(nil), (*strings.Reader)(nil),
		fmt.Errorf("x"), os.ErrNotExist, (*os.PathError)(nil),
		r.Int, r.ValueOf(0),
		// twins and composites over them, named and unnamed
		(*namedStruct2)(nil), namedPtr1(nil), namedPtr2(nil), namedPtr1b(nil), namedPtrPtr1(nil), (**namedStruct)(nil), (**namedStruct2)(nil), (*namedPtr1)(nil),
		namedSlice1(nil), namedSlice2(nil), []namedStruct(nil), []namedStruct2(nil),
		namedArr1{}, namedArr2{}, [2]namedStruct{}, [2]namedStruct2{},
		namedMap1(nil), namedMap2(nil), map[string]namedStruct(nil), map[string]namedStruct2(nil),
		namedChan1(nil), namedChan2(nil), (chan namedStruct)(nil), (chan namedStruct2)(nil), (<-chan namedStruct)(nil),
		namedFunc1(nil), namedFunc2(nil), (func(namedStruct) *namedStruct)(nil), (func(namedStruct2) *namedStruct2)(nil),
		namedTagged{}, (*namedTagged)(nil), namedPtrTagged(nil),
		namedInt1(0), namedInt2(0), (*namedInt1)(nil), (*namedInt2)(nil), namedPtrInt1(nil), namedPtrInt2(nil), (*int)(nil),
	}
	ifaces := []r.Type{
		r.TypeOf((*error)(nil)).Elem(), r.TypeOf((*interface{})(nil)).Elem(), r.TypeOf((*io.Reader)(nil)).Elem(),
		r.TypeOf((*io.Writer)(nil)).Elem(), r.TypeOf((*io.ReadWriter)(nil)).Elem(), r.TypeOf((*io.ReadCloser)(nil)).Elem(),
		r.TypeOf((*fmt.Stringer)(nil)).Elem(), r.TypeOf((*stringer)(nil)).Elem(), r.TypeOf((*io.ByteScanner)(nil)).Elem(),
		r.TypeOf((*r.Type)(nil)).Elem(), r.TypeOf((*interface{ Read([]byte) (int, error) })(nil)).Elem(),
		r.TypeOf((*interface{ Len() int })(nil)).Elem(),
	}
	var out []ty
	for _, x := range vals {
		rt := r.TypeOf(x)
		out = append(out, ty{h.from(rt, "hand"), rt, printR(rt)})
	}
	for _, rt := range ifaces {
		out = append(out, ty{h.from(rt, "hand"), rt, printR(rt)})
	}
	return out
}

func (h *H) partC(rng *vh.Rng) {
	sample := h.handPicked()
	sample = append(sample, h.predSample...)
	// plus a PRNG choice of the types met in part A
	nA := 60
	if h.a.Thorough() {
		nA = 400
	}
	for i := 0; i < nA && len(h.sample) > 0; i++ {
		p := h.sample[rng.Intn(len(h.sample))]
		sample = append(sample, ty{p.t, p.rt, printR(p.rt)})
	}
	// dedupe by reflect type
	seen := map[r.Type]bool{}
	var ts []ty
	for _, x := range sample {
		if x.t != nil && !seen[x.rt] && !isGenericInstance(x.rt) {
			seen[x.rt] = true
			ts = append(ts, x)
		}
	}
	sort.SliceStable(ts, func(i, j int) bool { return false })
	h.rep.Extra["partC_types"] = len(ts)
	pairs := 0
	for _, x := range ts {
		if x.t.Comparable() != x.rt.Comparable() {
			h.fail("Comparable", x.rt, "partC", x.t.Comparable(), x.rt.Comparable())
		}
		if got, want := types.Comparable(x.t.GoType()), x.rt.Comparable(); got != want {
			h.fail("go/types Comparable vs reflect", x.rt, "partC", got, want)
		}
		for _, y := range ts {
			h.wd.Beat(x.desc + " -> " + y.desc)
			pairs++
			key := x.desc + " -> " + y.desc
			h.rep.Count(key, x.rt != y.rt)
			pf := func(what string, got, want bool) {
				if got != want {
					h.nfail[what]++
					if h.nfail[what] <= 8 {
						h.rep.Fail(vh.Failure{Key: what + ": " + key, What: what, Input: map[string]string{"from": x.desc, "to": y.desc}, Got: got, Want: want})
					}
				}
			}
			var a1, c1 bool
			if e := vh.Catch(func() { a1 = x.t.AssignableTo(y.t); c1 = x.t.ConvertibleTo(y.t) }); e != nil {
				h.fail("AssignableTo/ConvertibleTo panicked", x.rt, key, fmt.Sprint(e), nil)
				continue
			}
			a2, c2 := x.rt.AssignableTo(y.rt), x.rt.ConvertibleTo(y.rt)
			pf("AssignableTo vs reflect", a1, a2)
			// Documented difference: the Go specification (and go/types) allow pointer/uintptr <-> unsafe.Pointer
			// conversions; reflect.Type.ConvertibleTo answers false because Value.Convert cannot perform them.
			if unsafeConv(x.rt, y.rt) && !c2 {
				c2 = true
				h.stats["unsafe_pointer_conversions_decided_by_spec"]++
			}
			pf("ConvertibleTo vs reflect", c1, c2)
			// the go/types side alone.  Documented difference: the fork predates Go 1.17/1.20 slice -> array(pointer)
			// conversions (xreflect answers those through reflect).
			var a3, c3 bool
			if e := vh.Catch(func() {
				a3 = types.AssignableTo(x.t.GoType(), y.t.GoType())
				c3 = types.ConvertibleTo(x.t.GoType(), y.t.GoType())
			}); e != nil {
				h.fail("go/types predicate panicked", x.rt, key, fmt.Sprint(e), nil)
				continue
			}
			pf("go/types AssignableTo vs reflect", a3, a2)
			if !sliceToArrayConv(x.rt, y.rt) {
				pf("go/types ConvertibleTo vs reflect", c3, c2)
			} else {
				h.stats["slice_to_array_conversions_skipped_on_gotypes_side"]++
			}
			if y.rt.Kind() == r.Interface {
				var i1 bool
				if e := vh.Catch(func() { i1 = x.t.Implements(y.t) }); e != nil {
					h.fail("Implements panicked", x.rt, key, fmt.Sprint(e), nil)
					continue
				}
				pf("Implements vs reflect", i1, x.rt.Implements(y.rt))
				if gi, ok := y.t.GoType().Underlying().(*types.Interface); ok {
					pf("go/types Implements vs reflect", types.Implements(x.t.GoType(), gi), x.rt.Implements(y.rt))
				}
				h.rep.Dist("implements:" + fmt.Sprint(i1))
			}
			h.rep.Dist("assignable:" + fmt.Sprint(a1))
			h.rep.Dist("convertible:" + fmt.Sprint(c1))
		}
	}
	h.rep.Extra["partC_pairs"] = pairs
}

func unsafeConv(x, y r.Type) bool {
	ok := func(k r.Kind) bool { return k == r.Ptr || k == r.Uintptr || k == r.UnsafePointer }
	return (x.Kind() == r.UnsafePointer && ok(y.Kind())) || (y.Kind() == r.UnsafePointer && ok(x.Kind()))
}

func sliceToArrayConv(x, y r.Type) bool {
	if x.Kind() != r.Slice {
		return false
	}
	if y.Kind() == r.Array {
		return true
	}
	return y.Kind() == r.Ptr && y.Elem().Kind() == r.Array
}

package main

// Loading of the go/types descriptions the universe merges with reflect types.
//
// In production xreflect.Universe loads a package lazily with importer.Default(), which runs
// `go list -export` once per package (2–5 s each: 158 import tables ≈ 7 minutes).  The harness obtains the same
// export data with ONE `go list -export -deps` call, reads it with the same gc importer
// (importer.ForCompiler(fset, "gc", lookup)), converts it with the universe's own Converter (exactly what
// Importer.ImportFrom does: imp.Converter.Package(pkg)) and registers it with Universe.CachePackage.
// Unknown packages then fail fast (zero Importer) and are approximated from reflection, as in production when the
// importer cannot find a package.

import (
	"fmt"
	"go/importer"
	"go/token"
	gotypes "go/types"
	"io"
	"os"
	"os/exec"
	"path/filepath"
	"sort"
	"strings"

	"github.com/cosmos72/gomacro/go/types"
	xr "github.com/cosmos72/gomacro/xreflect"
)

func verifDir() string {
	if d := os.Getenv("VERIF_DIR"); d != "" {
		return d
	}
	return "/verif"
}

// exportFiles returns import path -> export data file for pattern and all its dependencies.
func exportFiles(patterns ...string) (map[string]string, error) {
	args := append([]string{"list", "-export", "-deps", "-f", "{{.ImportPath}}={{.Export}}"}, patterns...)
	cmd := exec.Command("go", args...)
	cmd.Dir = filepath.Join(verifDir(), "harness")
	cmd.Stderr = os.Stderr
	out, err := cmd.Output()
	if err != nil {
		return nil, fmt.Errorf("go list -export: %v", err)
	}
	m := map[string]string{}
	for _, line := range strings.Split(string(out), "\n") {
		i := strings.IndexByte(line, '=')
		if i <= 0 || i == len(line)-1 {
			continue
		}
		m[line[:i]] = line[i+1:]
	}
	return m, nil
}

type stdLoader struct {
	files map[string]string
	imp   gotypes.Importer
	pkgs  map[string]*gotypes.Package
}

func newStdLoader(files map[string]string) *stdLoader {
	l := &stdLoader{files: files, pkgs: map[string]*gotypes.Package{}}
	l.imp = importer.ForCompiler(token.NewFileSet(), "gc", func(path string) (io.ReadCloser, error) {
		f, ok := files[path]
		if !ok {
			return nil, fmt.Errorf("no export data for %q", path)
		}
		return os.Open(f)
	})
	return l
}

func (l *stdLoader) load(path string) (*gotypes.Package, error) {
	if p := l.pkgs[path]; p != nil {
		return p, nil
	}
	p, err := l.imp.Import(path)
	if err == nil {
		l.pkgs[path] = p
	}
	return p, err
}

// newUniverse builds a universe whose package cache holds every package of `files`, converted by the
// universe's own Converter.
func catch(f func()) (p interface{}) {
	defer func() { p = recover() }()
	f()
	return nil
}

// packages whose conversion panicked (C30 reports them; here they are left to the reflect approximation)
var crashed []string

func newUniverse(l *stdLoader) (*xr.Universe, int) {
	v := xr.NewUniverse()
	imp := &xr.Importer{} // no underlying importer: Import of an unknown path fails at once
	imp.Converter.Init(types.Universe)
	v.Importer = imp
	var paths []string
	for p := range l.files {
		paths = append(paths, p)
	}
	sort.Strings(paths)
	n := 0
	devnull, _ := os.OpenFile(os.DevNull, os.O_WRONLY, 0)
	saved := os.Stdout
	os.Stdout = devnull // Converter prints "// warning: skipping import of <generic declaration>" lines
	for _, p := range paths {
		if p == "unsafe" {
			continue
		}
		gp, err := l.load(p)
		if err != nil || gp == nil {
			continue
		}
		// A panic escaping Converter.Package leaves the converter unusable (its queue of pending method sets is never
		// emptied: every later call panics again).  Try each package on a throw-away converter first and leave the
		// packages that panic to the reflect approximation (C30 reports them).
		var trial types.Converter
		trial.Init(types.Universe)
		if e := catch(func() { trial.Package(gp) }); e != nil {
			crashed = append(crashed, p)
			continue
		}
		var pkg *types.Package
		if e := catch(func() { pkg = imp.Converter.Package(gp) }); e != nil {
			crashed = append(crashed, p+" (shared converter)")
			continue
		}
		if pkg != nil {
			v.CachePackage(pkg)
			n++
		}
	}
	os.Stdout = saved
	devnull.Close()
	return v, n
}

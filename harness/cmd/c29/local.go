package main

// part F: named types DECLARED IN THIS BINARY's package main (unknown to every importer: their method sets can only come from
// the reflect scan of Universe.addmethods), for every underlying kind x receiver pattern (pointer receivers only / value
// receivers only / mixed) x the way the type is FIRST met by Universe.FromReflectType (by value; as field, element, key,
// parameter or result type of an unnamed composite; through *T first).  Each (kind, pattern, path) uses its own type, because
// the universe caches.  Oracle: the generic part A inspection (h.check: method sets of T against reflect's method sets of T
// and *T, lookups, canonicity, ...).  Generated once by a script; plain Go declarations.

import r "reflect"

type locIntPVal int

func (x *locIntPVal) Inc()        {}
func (x *locIntPVal) Get(int) int { return 0 }

type locIntPFld int

func (x *locIntPFld) Inc()        {}
func (x *locIntPFld) Get(int) int { return 0 }

type locIntPElm int

func (x *locIntPElm) Inc()        {}
func (x *locIntPElm) Get(int) int { return 0 }

type locIntPKey int

func (x *locIntPKey) Inc()        {}
func (x *locIntPKey) Get(int) int { return 0 }

type locIntPPar int

func (x *locIntPPar) Inc()        {}
func (x *locIntPPar) Get(int) int { return 0 }

type locIntPRes int

func (x *locIntPRes) Inc()        {}
func (x *locIntPRes) Get(int) int { return 0 }

type locIntPPtrFirst int

func (x *locIntPPtrFirst) Inc()        {}
func (x *locIntPPtrFirst) Get(int) int { return 0 }

type locIntPArrElm int

func (x *locIntPArrElm) Inc()        {}
func (x *locIntPArrElm) Get(int) int { return 0 }

type locIntPChnElm int

func (x *locIntPChnElm) Inc()        {}
func (x *locIntPChnElm) Get(int) int { return 0 }

type locIntPMapElm int

func (x *locIntPMapElm) Inc()        {}
func (x *locIntPMapElm) Get(int) int { return 0 }

type locIntPFld2 int

func (x *locIntPFld2) Inc()        {}
func (x *locIntPFld2) Get(int) int { return 0 }

type locIntVVal int

func (x locIntVVal) Inc()        {}
func (x locIntVVal) Get(int) int { return 0 }

type locIntVFld int

func (x locIntVFld) Inc()        {}
func (x locIntVFld) Get(int) int { return 0 }

type locIntVElm int

func (x locIntVElm) Inc()        {}
func (x locIntVElm) Get(int) int { return 0 }

type locIntVKey int

func (x locIntVKey) Inc()        {}
func (x locIntVKey) Get(int) int { return 0 }

type locIntVPar int

func (x locIntVPar) Inc()        {}
func (x locIntVPar) Get(int) int { return 0 }

type locIntVRes int

func (x locIntVRes) Inc()        {}
func (x locIntVRes) Get(int) int { return 0 }

type locIntVPtrFirst int

func (x locIntVPtrFirst) Inc()        {}
func (x locIntVPtrFirst) Get(int) int { return 0 }

type locIntVArrElm int

func (x locIntVArrElm) Inc()        {}
func (x locIntVArrElm) Get(int) int { return 0 }

type locIntVChnElm int

func (x locIntVChnElm) Inc()        {}
func (x locIntVChnElm) Get(int) int { return 0 }

type locIntVMapElm int

func (x locIntVMapElm) Inc()        {}
func (x locIntVMapElm) Get(int) int { return 0 }

type locIntVFld2 int

func (x locIntVFld2) Inc()        {}
func (x locIntVFld2) Get(int) int { return 0 }

type locIntMVal int

func (x *locIntMVal) Inc()       {}
func (x locIntMVal) Get(int) int { return 0 }

type locIntMFld int

func (x *locIntMFld) Inc()       {}
func (x locIntMFld) Get(int) int { return 0 }

type locIntMElm int

func (x *locIntMElm) Inc()       {}
func (x locIntMElm) Get(int) int { return 0 }

type locIntMKey int

func (x *locIntMKey) Inc()       {}
func (x locIntMKey) Get(int) int { return 0 }

type locIntMPar int

func (x *locIntMPar) Inc()       {}
func (x locIntMPar) Get(int) int { return 0 }

type locIntMRes int

func (x *locIntMRes) Inc()       {}
func (x locIntMRes) Get(int) int { return 0 }

type locIntMPtrFirst int

func (x *locIntMPtrFirst) Inc()       {}
func (x locIntMPtrFirst) Get(int) int { return 0 }

type locIntMArrElm int

func (x *locIntMArrElm) Inc()       {}
func (x locIntMArrElm) Get(int) int { return 0 }

type locIntMChnElm int

func (x *locIntMChnElm) Inc()       {}
func (x locIntMChnElm) Get(int) int { return 0 }

type locIntMMapElm int

func (x *locIntMMapElm) Inc()       {}
func (x locIntMMapElm) Get(int) int { return 0 }

type locIntMFld2 int

func (x *locIntMFld2) Inc()       {}
func (x locIntMFld2) Get(int) int { return 0 }

type locStrPVal string

func (x *locStrPVal) Inc()        {}
func (x *locStrPVal) Get(int) int { return 0 }

type locStrPFld string

func (x *locStrPFld) Inc()        {}
func (x *locStrPFld) Get(int) int { return 0 }

type locStrPElm string

func (x *locStrPElm) Inc()        {}
func (x *locStrPElm) Get(int) int { return 0 }

type locStrPKey string

func (x *locStrPKey) Inc()        {}
func (x *locStrPKey) Get(int) int { return 0 }

type locStrPPar string

func (x *locStrPPar) Inc()        {}
func (x *locStrPPar) Get(int) int { return 0 }

type locStrPRes string

func (x *locStrPRes) Inc()        {}
func (x *locStrPRes) Get(int) int { return 0 }

type locStrPPtrFirst string

func (x *locStrPPtrFirst) Inc()        {}
func (x *locStrPPtrFirst) Get(int) int { return 0 }

type locStrPArrElm string

func (x *locStrPArrElm) Inc()        {}
func (x *locStrPArrElm) Get(int) int { return 0 }

type locStrPChnElm string

func (x *locStrPChnElm) Inc()        {}
func (x *locStrPChnElm) Get(int) int { return 0 }

type locStrPMapElm string

func (x *locStrPMapElm) Inc()        {}
func (x *locStrPMapElm) Get(int) int { return 0 }

type locStrPFld2 string

func (x *locStrPFld2) Inc()        {}
func (x *locStrPFld2) Get(int) int { return 0 }

type locStrVVal string

func (x locStrVVal) Inc()        {}
func (x locStrVVal) Get(int) int { return 0 }

type locStrVFld string

func (x locStrVFld) Inc()        {}
func (x locStrVFld) Get(int) int { return 0 }

type locStrVElm string

func (x locStrVElm) Inc()        {}
func (x locStrVElm) Get(int) int { return 0 }

type locStrVKey string

func (x locStrVKey) Inc()        {}
func (x locStrVKey) Get(int) int { return 0 }

type locStrVPar string

func (x locStrVPar) Inc()        {}
func (x locStrVPar) Get(int) int { return 0 }

type locStrVRes string

func (x locStrVRes) Inc()        {}
func (x locStrVRes) Get(int) int { return 0 }

type locStrVPtrFirst string

func (x locStrVPtrFirst) Inc()        {}
func (x locStrVPtrFirst) Get(int) int { return 0 }

type locStrVArrElm string

func (x locStrVArrElm) Inc()        {}
func (x locStrVArrElm) Get(int) int { return 0 }

type locStrVChnElm string

func (x locStrVChnElm) Inc()        {}
func (x locStrVChnElm) Get(int) int { return 0 }

type locStrVMapElm string

func (x locStrVMapElm) Inc()        {}
func (x locStrVMapElm) Get(int) int { return 0 }

type locStrVFld2 string

func (x locStrVFld2) Inc()        {}
func (x locStrVFld2) Get(int) int { return 0 }

type locStrMVal string

func (x *locStrMVal) Inc()       {}
func (x locStrMVal) Get(int) int { return 0 }

type locStrMFld string

func (x *locStrMFld) Inc()       {}
func (x locStrMFld) Get(int) int { return 0 }

type locStrMElm string

func (x *locStrMElm) Inc()       {}
func (x locStrMElm) Get(int) int { return 0 }

type locStrMKey string

func (x *locStrMKey) Inc()       {}
func (x locStrMKey) Get(int) int { return 0 }

type locStrMPar string

func (x *locStrMPar) Inc()       {}
func (x locStrMPar) Get(int) int { return 0 }

type locStrMRes string

func (x *locStrMRes) Inc()       {}
func (x locStrMRes) Get(int) int { return 0 }

type locStrMPtrFirst string

func (x *locStrMPtrFirst) Inc()       {}
func (x locStrMPtrFirst) Get(int) int { return 0 }

type locStrMArrElm string

func (x *locStrMArrElm) Inc()       {}
func (x locStrMArrElm) Get(int) int { return 0 }

type locStrMChnElm string

func (x *locStrMChnElm) Inc()       {}
func (x locStrMChnElm) Get(int) int { return 0 }

type locStrMMapElm string

func (x *locStrMMapElm) Inc()       {}
func (x locStrMMapElm) Get(int) int { return 0 }

type locStrMFld2 string

func (x *locStrMFld2) Inc()       {}
func (x locStrMFld2) Get(int) int { return 0 }

type locFltPVal float64

func (x *locFltPVal) Inc()        {}
func (x *locFltPVal) Get(int) int { return 0 }

type locFltPFld float64

func (x *locFltPFld) Inc()        {}
func (x *locFltPFld) Get(int) int { return 0 }

type locFltPElm float64

func (x *locFltPElm) Inc()        {}
func (x *locFltPElm) Get(int) int { return 0 }

type locFltPKey float64

func (x *locFltPKey) Inc()        {}
func (x *locFltPKey) Get(int) int { return 0 }

type locFltPPar float64

func (x *locFltPPar) Inc()        {}
func (x *locFltPPar) Get(int) int { return 0 }

type locFltPRes float64

func (x *locFltPRes) Inc()        {}
func (x *locFltPRes) Get(int) int { return 0 }

type locFltPPtrFirst float64

func (x *locFltPPtrFirst) Inc()        {}
func (x *locFltPPtrFirst) Get(int) int { return 0 }

type locFltPArrElm float64

func (x *locFltPArrElm) Inc()        {}
func (x *locFltPArrElm) Get(int) int { return 0 }

type locFltPChnElm float64

func (x *locFltPChnElm) Inc()        {}
func (x *locFltPChnElm) Get(int) int { return 0 }

type locFltPMapElm float64

func (x *locFltPMapElm) Inc()        {}
func (x *locFltPMapElm) Get(int) int { return 0 }

type locFltPFld2 float64

func (x *locFltPFld2) Inc()        {}
func (x *locFltPFld2) Get(int) int { return 0 }

type locFltVVal float64

func (x locFltVVal) Inc()        {}
func (x locFltVVal) Get(int) int { return 0 }

type locFltVFld float64

func (x locFltVFld) Inc()        {}
func (x locFltVFld) Get(int) int { return 0 }

type locFltVElm float64

func (x locFltVElm) Inc()        {}
func (x locFltVElm) Get(int) int { return 0 }

type locFltVKey float64

func (x locFltVKey) Inc()        {}
func (x locFltVKey) Get(int) int { return 0 }

type locFltVPar float64

func (x locFltVPar) Inc()        {}
func (x locFltVPar) Get(int) int { return 0 }

type locFltVRes float64

func (x locFltVRes) Inc()        {}
func (x locFltVRes) Get(int) int { return 0 }

type locFltVPtrFirst float64

func (x locFltVPtrFirst) Inc()        {}
func (x locFltVPtrFirst) Get(int) int { return 0 }

type locFltVArrElm float64

func (x locFltVArrElm) Inc()        {}
func (x locFltVArrElm) Get(int) int { return 0 }

type locFltVChnElm float64

func (x locFltVChnElm) Inc()        {}
func (x locFltVChnElm) Get(int) int { return 0 }

type locFltVMapElm float64

func (x locFltVMapElm) Inc()        {}
func (x locFltVMapElm) Get(int) int { return 0 }

type locFltVFld2 float64

func (x locFltVFld2) Inc()        {}
func (x locFltVFld2) Get(int) int { return 0 }

type locFltMVal float64

func (x *locFltMVal) Inc()       {}
func (x locFltMVal) Get(int) int { return 0 }

type locFltMFld float64

func (x *locFltMFld) Inc()       {}
func (x locFltMFld) Get(int) int { return 0 }

type locFltMElm float64

func (x *locFltMElm) Inc()       {}
func (x locFltMElm) Get(int) int { return 0 }

type locFltMKey float64

func (x *locFltMKey) Inc()       {}
func (x locFltMKey) Get(int) int { return 0 }

type locFltMPar float64

func (x *locFltMPar) Inc()       {}
func (x locFltMPar) Get(int) int { return 0 }

type locFltMRes float64

func (x *locFltMRes) Inc()       {}
func (x locFltMRes) Get(int) int { return 0 }

type locFltMPtrFirst float64

func (x *locFltMPtrFirst) Inc()       {}
func (x locFltMPtrFirst) Get(int) int { return 0 }

type locFltMArrElm float64

func (x *locFltMArrElm) Inc()       {}
func (x locFltMArrElm) Get(int) int { return 0 }

type locFltMChnElm float64

func (x *locFltMChnElm) Inc()       {}
func (x locFltMChnElm) Get(int) int { return 0 }

type locFltMMapElm float64

func (x *locFltMMapElm) Inc()       {}
func (x locFltMMapElm) Get(int) int { return 0 }

type locFltMFld2 float64

func (x *locFltMFld2) Inc()       {}
func (x locFltMFld2) Get(int) int { return 0 }

type locSlcPVal []int

func (x *locSlcPVal) Inc()        {}
func (x *locSlcPVal) Get(int) int { return 0 }

type locSlcPFld []int

func (x *locSlcPFld) Inc()        {}
func (x *locSlcPFld) Get(int) int { return 0 }

type locSlcPElm []int

func (x *locSlcPElm) Inc()        {}
func (x *locSlcPElm) Get(int) int { return 0 }

type locSlcPPar []int

func (x *locSlcPPar) Inc()        {}
func (x *locSlcPPar) Get(int) int { return 0 }

type locSlcPRes []int

func (x *locSlcPRes) Inc()        {}
func (x *locSlcPRes) Get(int) int { return 0 }

type locSlcPPtrFirst []int

func (x *locSlcPPtrFirst) Inc()        {}
func (x *locSlcPPtrFirst) Get(int) int { return 0 }

type locSlcPArrElm []int

func (x *locSlcPArrElm) Inc()        {}
func (x *locSlcPArrElm) Get(int) int { return 0 }

type locSlcPChnElm []int

func (x *locSlcPChnElm) Inc()        {}
func (x *locSlcPChnElm) Get(int) int { return 0 }

type locSlcPMapElm []int

func (x *locSlcPMapElm) Inc()        {}
func (x *locSlcPMapElm) Get(int) int { return 0 }

type locSlcPFld2 []int

func (x *locSlcPFld2) Inc()        {}
func (x *locSlcPFld2) Get(int) int { return 0 }

type locSlcVVal []int

func (x locSlcVVal) Inc()        {}
func (x locSlcVVal) Get(int) int { return 0 }

type locSlcVFld []int

func (x locSlcVFld) Inc()        {}
func (x locSlcVFld) Get(int) int { return 0 }

type locSlcVElm []int

func (x locSlcVElm) Inc()        {}
func (x locSlcVElm) Get(int) int { return 0 }

type locSlcVPar []int

func (x locSlcVPar) Inc()        {}
func (x locSlcVPar) Get(int) int { return 0 }

type locSlcVRes []int

func (x locSlcVRes) Inc()        {}
func (x locSlcVRes) Get(int) int { return 0 }

type locSlcVPtrFirst []int

func (x locSlcVPtrFirst) Inc()        {}
func (x locSlcVPtrFirst) Get(int) int { return 0 }

type locSlcVArrElm []int

func (x locSlcVArrElm) Inc()        {}
func (x locSlcVArrElm) Get(int) int { return 0 }

type locSlcVChnElm []int

func (x locSlcVChnElm) Inc()        {}
func (x locSlcVChnElm) Get(int) int { return 0 }

type locSlcVMapElm []int

func (x locSlcVMapElm) Inc()        {}
func (x locSlcVMapElm) Get(int) int { return 0 }

type locSlcVFld2 []int

func (x locSlcVFld2) Inc()        {}
func (x locSlcVFld2) Get(int) int { return 0 }

type locSlcMVal []int

func (x *locSlcMVal) Inc()       {}
func (x locSlcMVal) Get(int) int { return 0 }

type locSlcMFld []int

func (x *locSlcMFld) Inc()       {}
func (x locSlcMFld) Get(int) int { return 0 }

type locSlcMElm []int

func (x *locSlcMElm) Inc()       {}
func (x locSlcMElm) Get(int) int { return 0 }

type locSlcMPar []int

func (x *locSlcMPar) Inc()       {}
func (x locSlcMPar) Get(int) int { return 0 }

type locSlcMRes []int

func (x *locSlcMRes) Inc()       {}
func (x locSlcMRes) Get(int) int { return 0 }

type locSlcMPtrFirst []int

func (x *locSlcMPtrFirst) Inc()       {}
func (x locSlcMPtrFirst) Get(int) int { return 0 }

type locSlcMArrElm []int

func (x *locSlcMArrElm) Inc()       {}
func (x locSlcMArrElm) Get(int) int { return 0 }

type locSlcMChnElm []int

func (x *locSlcMChnElm) Inc()       {}
func (x locSlcMChnElm) Get(int) int { return 0 }

type locSlcMMapElm []int

func (x *locSlcMMapElm) Inc()       {}
func (x locSlcMMapElm) Get(int) int { return 0 }

type locSlcMFld2 []int

func (x *locSlcMFld2) Inc()       {}
func (x locSlcMFld2) Get(int) int { return 0 }

type locArrPVal [2]int

func (x *locArrPVal) Inc()        {}
func (x *locArrPVal) Get(int) int { return 0 }

type locArrPFld [2]int

func (x *locArrPFld) Inc()        {}
func (x *locArrPFld) Get(int) int { return 0 }

type locArrPElm [2]int

func (x *locArrPElm) Inc()        {}
func (x *locArrPElm) Get(int) int { return 0 }

type locArrPKey [2]int

func (x *locArrPKey) Inc()        {}
func (x *locArrPKey) Get(int) int { return 0 }

type locArrPPar [2]int

func (x *locArrPPar) Inc()        {}
func (x *locArrPPar) Get(int) int { return 0 }

type locArrPRes [2]int

func (x *locArrPRes) Inc()        {}
func (x *locArrPRes) Get(int) int { return 0 }

type locArrPPtrFirst [2]int

func (x *locArrPPtrFirst) Inc()        {}
func (x *locArrPPtrFirst) Get(int) int { return 0 }

type locArrPArrElm [2]int

func (x *locArrPArrElm) Inc()        {}
func (x *locArrPArrElm) Get(int) int { return 0 }

type locArrPChnElm [2]int

func (x *locArrPChnElm) Inc()        {}
func (x *locArrPChnElm) Get(int) int { return 0 }

type locArrPMapElm [2]int

func (x *locArrPMapElm) Inc()        {}
func (x *locArrPMapElm) Get(int) int { return 0 }

type locArrPFld2 [2]int

func (x *locArrPFld2) Inc()        {}
func (x *locArrPFld2) Get(int) int { return 0 }

type locArrVVal [2]int

func (x locArrVVal) Inc()        {}
func (x locArrVVal) Get(int) int { return 0 }

type locArrVFld [2]int

func (x locArrVFld) Inc()        {}
func (x locArrVFld) Get(int) int { return 0 }

type locArrVElm [2]int

func (x locArrVElm) Inc()        {}
func (x locArrVElm) Get(int) int { return 0 }

type locArrVKey [2]int

func (x locArrVKey) Inc()        {}
func (x locArrVKey) Get(int) int { return 0 }

type locArrVPar [2]int

func (x locArrVPar) Inc()        {}
func (x locArrVPar) Get(int) int { return 0 }

type locArrVRes [2]int

func (x locArrVRes) Inc()        {}
func (x locArrVRes) Get(int) int { return 0 }

type locArrVPtrFirst [2]int

func (x locArrVPtrFirst) Inc()        {}
func (x locArrVPtrFirst) Get(int) int { return 0 }

type locArrVArrElm [2]int

func (x locArrVArrElm) Inc()        {}
func (x locArrVArrElm) Get(int) int { return 0 }

type locArrVChnElm [2]int

func (x locArrVChnElm) Inc()        {}
func (x locArrVChnElm) Get(int) int { return 0 }

type locArrVMapElm [2]int

func (x locArrVMapElm) Inc()        {}
func (x locArrVMapElm) Get(int) int { return 0 }

type locArrVFld2 [2]int

func (x locArrVFld2) Inc()        {}
func (x locArrVFld2) Get(int) int { return 0 }

type locArrMVal [2]int

func (x *locArrMVal) Inc()       {}
func (x locArrMVal) Get(int) int { return 0 }

type locArrMFld [2]int

func (x *locArrMFld) Inc()       {}
func (x locArrMFld) Get(int) int { return 0 }

type locArrMElm [2]int

func (x *locArrMElm) Inc()       {}
func (x locArrMElm) Get(int) int { return 0 }

type locArrMKey [2]int

func (x *locArrMKey) Inc()       {}
func (x locArrMKey) Get(int) int { return 0 }

type locArrMPar [2]int

func (x *locArrMPar) Inc()       {}
func (x locArrMPar) Get(int) int { return 0 }

type locArrMRes [2]int

func (x *locArrMRes) Inc()       {}
func (x locArrMRes) Get(int) int { return 0 }

type locArrMPtrFirst [2]int

func (x *locArrMPtrFirst) Inc()       {}
func (x locArrMPtrFirst) Get(int) int { return 0 }

type locArrMArrElm [2]int

func (x *locArrMArrElm) Inc()       {}
func (x locArrMArrElm) Get(int) int { return 0 }

type locArrMChnElm [2]int

func (x *locArrMChnElm) Inc()       {}
func (x locArrMChnElm) Get(int) int { return 0 }

type locArrMMapElm [2]int

func (x *locArrMMapElm) Inc()       {}
func (x locArrMMapElm) Get(int) int { return 0 }

type locArrMFld2 [2]int

func (x *locArrMFld2) Inc()       {}
func (x locArrMFld2) Get(int) int { return 0 }

type locMapPVal map[string]int

func (x *locMapPVal) Inc()        {}
func (x *locMapPVal) Get(int) int { return 0 }

type locMapPFld map[string]int

func (x *locMapPFld) Inc()        {}
func (x *locMapPFld) Get(int) int { return 0 }

type locMapPElm map[string]int

func (x *locMapPElm) Inc()        {}
func (x *locMapPElm) Get(int) int { return 0 }

type locMapPPar map[string]int

func (x *locMapPPar) Inc()        {}
func (x *locMapPPar) Get(int) int { return 0 }

type locMapPRes map[string]int

func (x *locMapPRes) Inc()        {}
func (x *locMapPRes) Get(int) int { return 0 }

type locMapPPtrFirst map[string]int

func (x *locMapPPtrFirst) Inc()        {}
func (x *locMapPPtrFirst) Get(int) int { return 0 }

type locMapPArrElm map[string]int

func (x *locMapPArrElm) Inc()        {}
func (x *locMapPArrElm) Get(int) int { return 0 }

type locMapPChnElm map[string]int

func (x *locMapPChnElm) Inc()        {}
func (x *locMapPChnElm) Get(int) int { return 0 }

type locMapPMapElm map[string]int

func (x *locMapPMapElm) Inc()        {}
func (x *locMapPMapElm) Get(int) int { return 0 }

type locMapPFld2 map[string]int

func (x *locMapPFld2) Inc()        {}
func (x *locMapPFld2) Get(int) int { return 0 }

type locMapVVal map[string]int

func (x locMapVVal) Inc()        {}
func (x locMapVVal) Get(int) int { return 0 }

type locMapVFld map[string]int

func (x locMapVFld) Inc()        {}
func (x locMapVFld) Get(int) int { return 0 }

type locMapVElm map[string]int

func (x locMapVElm) Inc()        {}
func (x locMapVElm) Get(int) int { return 0 }

type locMapVPar map[string]int

func (x locMapVPar) Inc()        {}
func (x locMapVPar) Get(int) int { return 0 }

type locMapVRes map[string]int

func (x locMapVRes) Inc()        {}
func (x locMapVRes) Get(int) int { return 0 }

type locMapVPtrFirst map[string]int

func (x locMapVPtrFirst) Inc()        {}
func (x locMapVPtrFirst) Get(int) int { return 0 }

type locMapVArrElm map[string]int

func (x locMapVArrElm) Inc()        {}
func (x locMapVArrElm) Get(int) int { return 0 }

type locMapVChnElm map[string]int

func (x locMapVChnElm) Inc()        {}
func (x locMapVChnElm) Get(int) int { return 0 }

type locMapVMapElm map[string]int

func (x locMapVMapElm) Inc()        {}
func (x locMapVMapElm) Get(int) int { return 0 }

type locMapVFld2 map[string]int

func (x locMapVFld2) Inc()        {}
func (x locMapVFld2) Get(int) int { return 0 }

type locMapMVal map[string]int

func (x *locMapMVal) Inc()       {}
func (x locMapMVal) Get(int) int { return 0 }

type locMapMFld map[string]int

func (x *locMapMFld) Inc()       {}
func (x locMapMFld) Get(int) int { return 0 }

type locMapMElm map[string]int

func (x *locMapMElm) Inc()       {}
func (x locMapMElm) Get(int) int { return 0 }

type locMapMPar map[string]int

func (x *locMapMPar) Inc()       {}
func (x locMapMPar) Get(int) int { return 0 }

type locMapMRes map[string]int

func (x *locMapMRes) Inc()       {}
func (x locMapMRes) Get(int) int { return 0 }

type locMapMPtrFirst map[string]int

func (x *locMapMPtrFirst) Inc()       {}
func (x locMapMPtrFirst) Get(int) int { return 0 }

type locMapMArrElm map[string]int

func (x *locMapMArrElm) Inc()       {}
func (x locMapMArrElm) Get(int) int { return 0 }

type locMapMChnElm map[string]int

func (x *locMapMChnElm) Inc()       {}
func (x locMapMChnElm) Get(int) int { return 0 }

type locMapMMapElm map[string]int

func (x *locMapMMapElm) Inc()       {}
func (x locMapMMapElm) Get(int) int { return 0 }

type locMapMFld2 map[string]int

func (x *locMapMFld2) Inc()       {}
func (x locMapMFld2) Get(int) int { return 0 }

type locFunPVal func(int) string

func (x *locFunPVal) Inc()        {}
func (x *locFunPVal) Get(int) int { return 0 }

type locFunPFld func(int) string

func (x *locFunPFld) Inc()        {}
func (x *locFunPFld) Get(int) int { return 0 }

type locFunPElm func(int) string

func (x *locFunPElm) Inc()        {}
func (x *locFunPElm) Get(int) int { return 0 }

type locFunPPar func(int) string

func (x *locFunPPar) Inc()        {}
func (x *locFunPPar) Get(int) int { return 0 }

type locFunPRes func(int) string

func (x *locFunPRes) Inc()        {}
func (x *locFunPRes) Get(int) int { return 0 }

type locFunPPtrFirst func(int) string

func (x *locFunPPtrFirst) Inc()        {}
func (x *locFunPPtrFirst) Get(int) int { return 0 }

type locFunPArrElm func(int) string

func (x *locFunPArrElm) Inc()        {}
func (x *locFunPArrElm) Get(int) int { return 0 }

type locFunPChnElm func(int) string

func (x *locFunPChnElm) Inc()        {}
func (x *locFunPChnElm) Get(int) int { return 0 }

type locFunPMapElm func(int) string

func (x *locFunPMapElm) Inc()        {}
func (x *locFunPMapElm) Get(int) int { return 0 }

type locFunPFld2 func(int) string

func (x *locFunPFld2) Inc()        {}
func (x *locFunPFld2) Get(int) int { return 0 }

type locFunVVal func(int) string

func (x locFunVVal) Inc()        {}
func (x locFunVVal) Get(int) int { return 0 }

type locFunVFld func(int) string

func (x locFunVFld) Inc()        {}
func (x locFunVFld) Get(int) int { return 0 }

type locFunVElm func(int) string

func (x locFunVElm) Inc()        {}
func (x locFunVElm) Get(int) int { return 0 }

type locFunVPar func(int) string

func (x locFunVPar) Inc()        {}
func (x locFunVPar) Get(int) int { return 0 }

type locFunVRes func(int) string

func (x locFunVRes) Inc()        {}
func (x locFunVRes) Get(int) int { return 0 }

type locFunVPtrFirst func(int) string

func (x locFunVPtrFirst) Inc()        {}
func (x locFunVPtrFirst) Get(int) int { return 0 }

type locFunVArrElm func(int) string

func (x locFunVArrElm) Inc()        {}
func (x locFunVArrElm) Get(int) int { return 0 }

type locFunVChnElm func(int) string

func (x locFunVChnElm) Inc()        {}
func (x locFunVChnElm) Get(int) int { return 0 }

type locFunVMapElm func(int) string

func (x locFunVMapElm) Inc()        {}
func (x locFunVMapElm) Get(int) int { return 0 }

type locFunVFld2 func(int) string

func (x locFunVFld2) Inc()        {}
func (x locFunVFld2) Get(int) int { return 0 }

type locFunMVal func(int) string

func (x *locFunMVal) Inc()       {}
func (x locFunMVal) Get(int) int { return 0 }

type locFunMFld func(int) string

func (x *locFunMFld) Inc()       {}
func (x locFunMFld) Get(int) int { return 0 }

type locFunMElm func(int) string

func (x *locFunMElm) Inc()       {}
func (x locFunMElm) Get(int) int { return 0 }

type locFunMPar func(int) string

func (x *locFunMPar) Inc()       {}
func (x locFunMPar) Get(int) int { return 0 }

type locFunMRes func(int) string

func (x *locFunMRes) Inc()       {}
func (x locFunMRes) Get(int) int { return 0 }

type locFunMPtrFirst func(int) string

func (x *locFunMPtrFirst) Inc()       {}
func (x locFunMPtrFirst) Get(int) int { return 0 }

type locFunMArrElm func(int) string

func (x *locFunMArrElm) Inc()       {}
func (x locFunMArrElm) Get(int) int { return 0 }

type locFunMChnElm func(int) string

func (x *locFunMChnElm) Inc()       {}
func (x locFunMChnElm) Get(int) int { return 0 }

type locFunMMapElm func(int) string

func (x *locFunMMapElm) Inc()       {}
func (x locFunMMapElm) Get(int) int { return 0 }

type locFunMFld2 func(int) string

func (x *locFunMFld2) Inc()       {}
func (x locFunMFld2) Get(int) int { return 0 }

type locChnPVal chan int

func (x *locChnPVal) Inc()        {}
func (x *locChnPVal) Get(int) int { return 0 }

type locChnPFld chan int

func (x *locChnPFld) Inc()        {}
func (x *locChnPFld) Get(int) int { return 0 }

type locChnPElm chan int

func (x *locChnPElm) Inc()        {}
func (x *locChnPElm) Get(int) int { return 0 }

type locChnPKey chan int

func (x *locChnPKey) Inc()        {}
func (x *locChnPKey) Get(int) int { return 0 }

type locChnPPar chan int

func (x *locChnPPar) Inc()        {}
func (x *locChnPPar) Get(int) int { return 0 }

type locChnPRes chan int

func (x *locChnPRes) Inc()        {}
func (x *locChnPRes) Get(int) int { return 0 }

type locChnPPtrFirst chan int

func (x *locChnPPtrFirst) Inc()        {}
func (x *locChnPPtrFirst) Get(int) int { return 0 }

type locChnPArrElm chan int

func (x *locChnPArrElm) Inc()        {}
func (x *locChnPArrElm) Get(int) int { return 0 }

type locChnPChnElm chan int

func (x *locChnPChnElm) Inc()        {}
func (x *locChnPChnElm) Get(int) int { return 0 }

type locChnPMapElm chan int

func (x *locChnPMapElm) Inc()        {}
func (x *locChnPMapElm) Get(int) int { return 0 }

type locChnPFld2 chan int

func (x *locChnPFld2) Inc()        {}
func (x *locChnPFld2) Get(int) int { return 0 }

type locChnVVal chan int

func (x locChnVVal) Inc()        {}
func (x locChnVVal) Get(int) int { return 0 }

type locChnVFld chan int

func (x locChnVFld) Inc()        {}
func (x locChnVFld) Get(int) int { return 0 }

type locChnVElm chan int

func (x locChnVElm) Inc()        {}
func (x locChnVElm) Get(int) int { return 0 }

type locChnVKey chan int

func (x locChnVKey) Inc()        {}
func (x locChnVKey) Get(int) int { return 0 }

type locChnVPar chan int

func (x locChnVPar) Inc()        {}
func (x locChnVPar) Get(int) int { return 0 }

type locChnVRes chan int

func (x locChnVRes) Inc()        {}
func (x locChnVRes) Get(int) int { return 0 }

type locChnVPtrFirst chan int

func (x locChnVPtrFirst) Inc()        {}
func (x locChnVPtrFirst) Get(int) int { return 0 }

type locChnVArrElm chan int

func (x locChnVArrElm) Inc()        {}
func (x locChnVArrElm) Get(int) int { return 0 }

type locChnVChnElm chan int

func (x locChnVChnElm) Inc()        {}
func (x locChnVChnElm) Get(int) int { return 0 }

type locChnVMapElm chan int

func (x locChnVMapElm) Inc()        {}
func (x locChnVMapElm) Get(int) int { return 0 }

type locChnVFld2 chan int

func (x locChnVFld2) Inc()        {}
func (x locChnVFld2) Get(int) int { return 0 }

type locChnMVal chan int

func (x *locChnMVal) Inc()       {}
func (x locChnMVal) Get(int) int { return 0 }

type locChnMFld chan int

func (x *locChnMFld) Inc()       {}
func (x locChnMFld) Get(int) int { return 0 }

type locChnMElm chan int

func (x *locChnMElm) Inc()       {}
func (x locChnMElm) Get(int) int { return 0 }

type locChnMKey chan int

func (x *locChnMKey) Inc()       {}
func (x locChnMKey) Get(int) int { return 0 }

type locChnMPar chan int

func (x *locChnMPar) Inc()       {}
func (x locChnMPar) Get(int) int { return 0 }

type locChnMRes chan int

func (x *locChnMRes) Inc()       {}
func (x locChnMRes) Get(int) int { return 0 }

type locChnMPtrFirst chan int

func (x *locChnMPtrFirst) Inc()       {}
func (x locChnMPtrFirst) Get(int) int { return 0 }

type locChnMArrElm chan int

func (x *locChnMArrElm) Inc()       {}
func (x locChnMArrElm) Get(int) int { return 0 }

type locChnMChnElm chan int

func (x *locChnMChnElm) Inc()       {}
func (x locChnMChnElm) Get(int) int { return 0 }

type locChnMMapElm chan int

func (x *locChnMMapElm) Inc()       {}
func (x locChnMMapElm) Get(int) int { return 0 }

type locChnMFld2 chan int

func (x *locChnMFld2) Inc()       {}
func (x locChnMFld2) Get(int) int { return 0 }

type locStcPVal struct{ A int }

func (x *locStcPVal) Inc()        {}
func (x *locStcPVal) Get(int) int { return 0 }

type locStcPFld struct{ A int }

func (x *locStcPFld) Inc()        {}
func (x *locStcPFld) Get(int) int { return 0 }

type locStcPElm struct{ A int }

func (x *locStcPElm) Inc()        {}
func (x *locStcPElm) Get(int) int { return 0 }

type locStcPKey struct{ A int }

func (x *locStcPKey) Inc()        {}
func (x *locStcPKey) Get(int) int { return 0 }

type locStcPPar struct{ A int }

func (x *locStcPPar) Inc()        {}
func (x *locStcPPar) Get(int) int { return 0 }

type locStcPRes struct{ A int }

func (x *locStcPRes) Inc()        {}
func (x *locStcPRes) Get(int) int { return 0 }

type locStcPPtrFirst struct{ A int }

func (x *locStcPPtrFirst) Inc()        {}
func (x *locStcPPtrFirst) Get(int) int { return 0 }

type locStcPArrElm struct{ A int }

func (x *locStcPArrElm) Inc()        {}
func (x *locStcPArrElm) Get(int) int { return 0 }

type locStcPChnElm struct{ A int }

func (x *locStcPChnElm) Inc()        {}
func (x *locStcPChnElm) Get(int) int { return 0 }

type locStcPMapElm struct{ A int }

func (x *locStcPMapElm) Inc()        {}
func (x *locStcPMapElm) Get(int) int { return 0 }

type locStcPFld2 struct{ A int }

func (x *locStcPFld2) Inc()        {}
func (x *locStcPFld2) Get(int) int { return 0 }

type locStcVVal struct{ A int }

func (x locStcVVal) Inc()        {}
func (x locStcVVal) Get(int) int { return 0 }

type locStcVFld struct{ A int }

func (x locStcVFld) Inc()        {}
func (x locStcVFld) Get(int) int { return 0 }

type locStcVElm struct{ A int }

func (x locStcVElm) Inc()        {}
func (x locStcVElm) Get(int) int { return 0 }

type locStcVKey struct{ A int }

func (x locStcVKey) Inc()        {}
func (x locStcVKey) Get(int) int { return 0 }

type locStcVPar struct{ A int }

func (x locStcVPar) Inc()        {}
func (x locStcVPar) Get(int) int { return 0 }

type locStcVRes struct{ A int }

func (x locStcVRes) Inc()        {}
func (x locStcVRes) Get(int) int { return 0 }

type locStcVPtrFirst struct{ A int }

func (x locStcVPtrFirst) Inc()        {}
func (x locStcVPtrFirst) Get(int) int { return 0 }

type locStcVArrElm struct{ A int }

func (x locStcVArrElm) Inc()        {}
func (x locStcVArrElm) Get(int) int { return 0 }

type locStcVChnElm struct{ A int }

func (x locStcVChnElm) Inc()        {}
func (x locStcVChnElm) Get(int) int { return 0 }

type locStcVMapElm struct{ A int }

func (x locStcVMapElm) Inc()        {}
func (x locStcVMapElm) Get(int) int { return 0 }

type locStcVFld2 struct{ A int }

func (x locStcVFld2) Inc()        {}
func (x locStcVFld2) Get(int) int { return 0 }

type locStcMVal struct{ A int }

func (x *locStcMVal) Inc()       {}
func (x locStcMVal) Get(int) int { return 0 }

type locStcMFld struct{ A int }

func (x *locStcMFld) Inc()       {}
func (x locStcMFld) Get(int) int { return 0 }

type locStcMElm struct{ A int }

func (x *locStcMElm) Inc()       {}
func (x locStcMElm) Get(int) int { return 0 }

type locStcMKey struct{ A int }

func (x *locStcMKey) Inc()       {}
func (x locStcMKey) Get(int) int { return 0 }

type locStcMPar struct{ A int }

func (x *locStcMPar) Inc()       {}
func (x locStcMPar) Get(int) int { return 0 }

type locStcMRes struct{ A int }

func (x *locStcMRes) Inc()       {}
func (x locStcMRes) Get(int) int { return 0 }

type locStcMPtrFirst struct{ A int }

func (x *locStcMPtrFirst) Inc()       {}
func (x locStcMPtrFirst) Get(int) int { return 0 }

type locStcMArrElm struct{ A int }

func (x *locStcMArrElm) Inc()       {}
func (x locStcMArrElm) Get(int) int { return 0 }

type locStcMChnElm struct{ A int }

func (x *locStcMChnElm) Inc()       {}
func (x locStcMChnElm) Get(int) int { return 0 }

type locStcMMapElm struct{ A int }

func (x *locStcMMapElm) Inc()       {}
func (x locStcMMapElm) Get(int) int { return 0 }

type locStcMFld2 struct{ A int }

func (x *locStcMFld2) Inc()       {}
func (x locStcMFld2) Get(int) int { return 0 }

func localRoots() []r.Type {
	return []r.Type{
		r.TypeOf((*locIntPVal)(nil)).Elem(),
		r.TypeOf(struct{ C locIntPFld }{}),
		r.TypeOf([]locIntPElm(nil)),
		r.TypeOf(map[locIntPKey]int(nil)),
		r.TypeOf((func(locIntPPar))(nil)),
		r.TypeOf((func() locIntPRes)(nil)),
		r.TypeOf((*locIntPPtrFirst)(nil)),
		r.TypeOf([1]locIntPArrElm{}),
		r.TypeOf((chan locIntPChnElm)(nil)),
		r.TypeOf(map[int]locIntPMapElm(nil)),
		r.TypeOf(struct {
			A int
			C struct{ D []locIntPFld2 }
		}{}),
		r.TypeOf((*locIntVVal)(nil)).Elem(),
		r.TypeOf(struct{ C locIntVFld }{}),
		r.TypeOf([]locIntVElm(nil)),
		r.TypeOf(map[locIntVKey]int(nil)),
		r.TypeOf((func(locIntVPar))(nil)),
		r.TypeOf((func() locIntVRes)(nil)),
		r.TypeOf((*locIntVPtrFirst)(nil)),
		r.TypeOf([1]locIntVArrElm{}),
		r.TypeOf((chan locIntVChnElm)(nil)),
		r.TypeOf(map[int]locIntVMapElm(nil)),
		r.TypeOf(struct {
			A int
			C struct{ D []locIntVFld2 }
		}{}),
		r.TypeOf((*locIntMVal)(nil)).Elem(),
		r.TypeOf(struct{ C locIntMFld }{}),
		r.TypeOf([]locIntMElm(nil)),
		r.TypeOf(map[locIntMKey]int(nil)),
		r.TypeOf((func(locIntMPar))(nil)),
		r.TypeOf((func() locIntMRes)(nil)),
		r.TypeOf((*locIntMPtrFirst)(nil)),
		r.TypeOf([1]locIntMArrElm{}),
		r.TypeOf((chan locIntMChnElm)(nil)),
		r.TypeOf(map[int]locIntMMapElm(nil)),
		r.TypeOf(struct {
			A int
			C struct{ D []locIntMFld2 }
		}{}),
		r.TypeOf((*locStrPVal)(nil)).Elem(),
		r.TypeOf(struct{ C locStrPFld }{}),
		r.TypeOf([]locStrPElm(nil)),
		r.TypeOf(map[locStrPKey]int(nil)),
		r.TypeOf((func(locStrPPar))(nil)),
		r.TypeOf((func() locStrPRes)(nil)),
		r.TypeOf((*locStrPPtrFirst)(nil)),
		r.TypeOf([1]locStrPArrElm{}),
		r.TypeOf((chan locStrPChnElm)(nil)),
		r.TypeOf(map[int]locStrPMapElm(nil)),
		r.TypeOf(struct {
			A int
			C struct{ D []locStrPFld2 }
		}{}),
		r.TypeOf((*locStrVVal)(nil)).Elem(),
		r.TypeOf(struct{ C locStrVFld }{}),
		r.TypeOf([]locStrVElm(nil)),
		r.TypeOf(map[locStrVKey]int(nil)),
		r.TypeOf((func(locStrVPar))(nil)),
		r.TypeOf((func() locStrVRes)(nil)),
		r.TypeOf((*locStrVPtrFirst)(nil)),
		r.TypeOf([1]locStrVArrElm{}),
		r.TypeOf((chan locStrVChnElm)(nil)),
		r.TypeOf(map[int]locStrVMapElm(nil)),
		r.TypeOf(struct {
			A int
			C struct{ D []locStrVFld2 }
		}{}),
		r.TypeOf((*locStrMVal)(nil)).Elem(),
		r.TypeOf(struct{ C locStrMFld }{}),
		r.TypeOf([]locStrMElm(nil)),
		r.TypeOf(map[locStrMKey]int(nil)),
		r.TypeOf((func(locStrMPar))(nil)),
		r.TypeOf((func() locStrMRes)(nil)),
		r.TypeOf((*locStrMPtrFirst)(nil)),
		r.TypeOf([1]locStrMArrElm{}),
		r.TypeOf((chan locStrMChnElm)(nil)),
		r.TypeOf(map[int]locStrMMapElm(nil)),
		r.TypeOf(struct {
			A int
			C struct{ D []locStrMFld2 }
		}{}),
		r.TypeOf((*locFltPVal)(nil)).Elem(),
		r.TypeOf(struct{ C locFltPFld }{}),
		r.TypeOf([]locFltPElm(nil)),
		r.TypeOf(map[locFltPKey]int(nil)),
		r.TypeOf((func(locFltPPar))(nil)),
		r.TypeOf((func() locFltPRes)(nil)),
		r.TypeOf((*locFltPPtrFirst)(nil)),
		r.TypeOf([1]locFltPArrElm{}),
		r.TypeOf((chan locFltPChnElm)(nil)),
		r.TypeOf(map[int]locFltPMapElm(nil)),
		r.TypeOf(struct {
			A int
			C struct{ D []locFltPFld2 }
		}{}),
		r.TypeOf((*locFltVVal)(nil)).Elem(),
		r.TypeOf(struct{ C locFltVFld }{}),
		r.TypeOf([]locFltVElm(nil)),
		r.TypeOf(map[locFltVKey]int(nil)),
		r.TypeOf((func(locFltVPar))(nil)),
		r.TypeOf((func() locFltVRes)(nil)),
		r.TypeOf((*locFltVPtrFirst)(nil)),
		r.TypeOf([1]locFltVArrElm{}),
		r.TypeOf((chan locFltVChnElm)(nil)),
		r.TypeOf(map[int]locFltVMapElm(nil)),
		r.TypeOf(struct {
			A int
			C struct{ D []locFltVFld2 }
		}{}),
		r.TypeOf((*locFltMVal)(nil)).Elem(),
		r.TypeOf(struct{ C locFltMFld }{}),
		r.TypeOf([]locFltMElm(nil)),
		r.TypeOf(map[locFltMKey]int(nil)),
		r.TypeOf((func(locFltMPar))(nil)),
		r.TypeOf((func() locFltMRes)(nil)),
		r.TypeOf((*locFltMPtrFirst)(nil)),
		r.TypeOf([1]locFltMArrElm{}),
		r.TypeOf((chan locFltMChnElm)(nil)),
		r.TypeOf(map[int]locFltMMapElm(nil)),
		r.TypeOf(struct {
			A int
			C struct{ D []locFltMFld2 }
		}{}),
		r.TypeOf((*locSlcPVal)(nil)).Elem(),
		r.TypeOf(struct{ C locSlcPFld }{}),
		r.TypeOf([]locSlcPElm(nil)),
		r.TypeOf((func(locSlcPPar))(nil)),
		r.TypeOf((func() locSlcPRes)(nil)),
		r.TypeOf((*locSlcPPtrFirst)(nil)),
		r.TypeOf([1]locSlcPArrElm{}),
		r.TypeOf((chan locSlcPChnElm)(nil)),
		r.TypeOf(map[int]locSlcPMapElm(nil)),
		r.TypeOf(struct {
			A int
			C struct{ D []locSlcPFld2 }
		}{}),
		r.TypeOf((*locSlcVVal)(nil)).Elem(),
		r.TypeOf(struct{ C locSlcVFld }{}),
		r.TypeOf([]locSlcVElm(nil)),
		r.TypeOf((func(locSlcVPar))(nil)),
		r.TypeOf((func() locSlcVRes)(nil)),
		r.TypeOf((*locSlcVPtrFirst)(nil)),
		r.TypeOf([1]locSlcVArrElm{}),
		r.TypeOf((chan locSlcVChnElm)(nil)),
		r.TypeOf(map[int]locSlcVMapElm(nil)),
		r.TypeOf(struct {
			A int
			C struct{ D []locSlcVFld2 }
		}{}),
		r.TypeOf((*locSlcMVal)(nil)).Elem(),
		r.TypeOf(struct{ C locSlcMFld }{}),
		r.TypeOf([]locSlcMElm(nil)),
		r.TypeOf((func(locSlcMPar))(nil)),
		r.TypeOf((func() locSlcMRes)(nil)),
		r.TypeOf((*locSlcMPtrFirst)(nil)),
		r.TypeOf([1]locSlcMArrElm{}),
		r.TypeOf((chan locSlcMChnElm)(nil)),
		r.TypeOf(map[int]locSlcMMapElm(nil)),
		r.TypeOf(struct {
			A int
			C struct{ D []locSlcMFld2 }
		}{}),
		r.TypeOf((*locArrPVal)(nil)).Elem(),
		r.TypeOf(struct{ C locArrPFld }{}),
		r.TypeOf([]locArrPElm(nil)),
		r.TypeOf(map[locArrPKey]int(nil)),
		r.TypeOf((func(locArrPPar))(nil)),
		r.TypeOf((func() locArrPRes)(nil)),
		r.TypeOf((*locArrPPtrFirst)(nil)),
		r.TypeOf([1]locArrPArrElm{}),
		r.TypeOf((chan locArrPChnElm)(nil)),
		r.TypeOf(map[int]locArrPMapElm(nil)),
		r.TypeOf(struct {
			A int
			C struct{ D []locArrPFld2 }
		}{}),
		r.TypeOf((*locArrVVal)(nil)).Elem(),
		r.TypeOf(struct{ C locArrVFld }{}),
		r.TypeOf([]locArrVElm(nil)),
		r.TypeOf(map[locArrVKey]int(nil)),
		r.TypeOf((func(locArrVPar))(nil)),
		r.TypeOf((func() locArrVRes)(nil)),
		r.TypeOf((*locArrVPtrFirst)(nil)),
		r.TypeOf([1]locArrVArrElm{}),
		r.TypeOf((chan locArrVChnElm)(nil)),
		r.TypeOf(map[int]locArrVMapElm(nil)),
		r.TypeOf(struct {
			A int
			C struct{ D []locArrVFld2 }
		}{}),
		r.TypeOf((*locArrMVal)(nil)).Elem(),
		r.TypeOf(struct{ C locArrMFld }{}),
		r.TypeOf([]locArrMElm(nil)),
		r.TypeOf(map[locArrMKey]int(nil)),
		r.TypeOf((func(locArrMPar))(nil)),
		r.TypeOf((func() locArrMRes)(nil)),
		r.TypeOf((*locArrMPtrFirst)(nil)),
		r.TypeOf([1]locArrMArrElm{}),
		r.TypeOf((chan locArrMChnElm)(nil)),
		r.TypeOf(map[int]locArrMMapElm(nil)),
		r.TypeOf(struct {
			A int
			C struct{ D []locArrMFld2 }
		}{}),
		r.TypeOf((*locMapPVal)(nil)).Elem(),
		r.TypeOf(struct{ C locMapPFld }{}),
		r.TypeOf([]locMapPElm(nil)),
		r.TypeOf((func(locMapPPar))(nil)),
		r.TypeOf((func() locMapPRes)(nil)),
		r.TypeOf((*locMapPPtrFirst)(nil)),
		r.TypeOf([1]locMapPArrElm{}),
		r.TypeOf((chan locMapPChnElm)(nil)),
		r.TypeOf(map[int]locMapPMapElm(nil)),
		r.TypeOf(struct {
			A int
			C struct{ D []locMapPFld2 }
		}{}),
		r.TypeOf((*locMapVVal)(nil)).Elem(),
		r.TypeOf(struct{ C locMapVFld }{}),
		r.TypeOf([]locMapVElm(nil)),
		r.TypeOf((func(locMapVPar))(nil)),
		r.TypeOf((func() locMapVRes)(nil)),
		r.TypeOf((*locMapVPtrFirst)(nil)),
		r.TypeOf([1]locMapVArrElm{}),
		r.TypeOf((chan locMapVChnElm)(nil)),
		r.TypeOf(map[int]locMapVMapElm(nil)),
		r.TypeOf(struct {
			A int
			C struct{ D []locMapVFld2 }
		}{}),
		r.TypeOf((*locMapMVal)(nil)).Elem(),
		r.TypeOf(struct{ C locMapMFld }{}),
		r.TypeOf([]locMapMElm(nil)),
		r.TypeOf((func(locMapMPar))(nil)),
		r.TypeOf((func() locMapMRes)(nil)),
		r.TypeOf((*locMapMPtrFirst)(nil)),
		r.TypeOf([1]locMapMArrElm{}),
		r.TypeOf((chan locMapMChnElm)(nil)),
		r.TypeOf(map[int]locMapMMapElm(nil)),
		r.TypeOf(struct {
			A int
			C struct{ D []locMapMFld2 }
		}{}),
		r.TypeOf((*locFunPVal)(nil)).Elem(),
		r.TypeOf(struct{ C locFunPFld }{}),
		r.TypeOf([]locFunPElm(nil)),
		r.TypeOf((func(locFunPPar))(nil)),
		r.TypeOf((func() locFunPRes)(nil)),
		r.TypeOf((*locFunPPtrFirst)(nil)),
		r.TypeOf([1]locFunPArrElm{}),
		r.TypeOf((chan locFunPChnElm)(nil)),
		r.TypeOf(map[int]locFunPMapElm(nil)),
		r.TypeOf(struct {
			A int
			C struct{ D []locFunPFld2 }
		}{}),
		r.TypeOf((*locFunVVal)(nil)).Elem(),
		r.TypeOf(struct{ C locFunVFld }{}),
		r.TypeOf([]locFunVElm(nil)),
		r.TypeOf((func(locFunVPar))(nil)),
		r.TypeOf((func() locFunVRes)(nil)),
		r.TypeOf((*locFunVPtrFirst)(nil)),
		r.TypeOf([1]locFunVArrElm{}),
		r.TypeOf((chan locFunVChnElm)(nil)),
		r.TypeOf(map[int]locFunVMapElm(nil)),
		r.TypeOf(struct {
			A int
			C struct{ D []locFunVFld2 }
		}{}),
		r.TypeOf((*locFunMVal)(nil)).Elem(),
		r.TypeOf(struct{ C locFunMFld }{}),
		r.TypeOf([]locFunMElm(nil)),
		r.TypeOf((func(locFunMPar))(nil)),
		r.TypeOf((func() locFunMRes)(nil)),
		r.TypeOf((*locFunMPtrFirst)(nil)),
		r.TypeOf([1]locFunMArrElm{}),
		r.TypeOf((chan locFunMChnElm)(nil)),
		r.TypeOf(map[int]locFunMMapElm(nil)),
		r.TypeOf(struct {
			A int
			C struct{ D []locFunMFld2 }
		}{}),
		r.TypeOf((*locChnPVal)(nil)).Elem(),
		r.TypeOf(struct{ C locChnPFld }{}),
		r.TypeOf([]locChnPElm(nil)),
		r.TypeOf(map[locChnPKey]int(nil)),
		r.TypeOf((func(locChnPPar))(nil)),
		r.TypeOf((func() locChnPRes)(nil)),
		r.TypeOf((*locChnPPtrFirst)(nil)),
		r.TypeOf([1]locChnPArrElm{}),
		r.TypeOf((chan locChnPChnElm)(nil)),
		r.TypeOf(map[int]locChnPMapElm(nil)),
		r.TypeOf(struct {
			A int
			C struct{ D []locChnPFld2 }
		}{}),
		r.TypeOf((*locChnVVal)(nil)).Elem(),
		r.TypeOf(struct{ C locChnVFld }{}),
		r.TypeOf([]locChnVElm(nil)),
		r.TypeOf(map[locChnVKey]int(nil)),
		r.TypeOf((func(locChnVPar))(nil)),
		r.TypeOf((func() locChnVRes)(nil)),
		r.TypeOf((*locChnVPtrFirst)(nil)),
		r.TypeOf([1]locChnVArrElm{}),
		r.TypeOf((chan locChnVChnElm)(nil)),
		r.TypeOf(map[int]locChnVMapElm(nil)),
		r.TypeOf(struct {
			A int
			C struct{ D []locChnVFld2 }
		}{}),
		r.TypeOf((*locChnMVal)(nil)).Elem(),
		r.TypeOf(struct{ C locChnMFld }{}),
		r.TypeOf([]locChnMElm(nil)),
		r.TypeOf(map[locChnMKey]int(nil)),
		r.TypeOf((func(locChnMPar))(nil)),
		r.TypeOf((func() locChnMRes)(nil)),
		r.TypeOf((*locChnMPtrFirst)(nil)),
		r.TypeOf([1]locChnMArrElm{}),
		r.TypeOf((chan locChnMChnElm)(nil)),
		r.TypeOf(map[int]locChnMMapElm(nil)),
		r.TypeOf(struct {
			A int
			C struct{ D []locChnMFld2 }
		}{}),
		r.TypeOf((*locStcPVal)(nil)).Elem(),
		r.TypeOf(struct{ C locStcPFld }{}),
		r.TypeOf([]locStcPElm(nil)),
		r.TypeOf(map[locStcPKey]int(nil)),
		r.TypeOf((func(locStcPPar))(nil)),
		r.TypeOf((func() locStcPRes)(nil)),
		r.TypeOf((*locStcPPtrFirst)(nil)),
		r.TypeOf([1]locStcPArrElm{}),
		r.TypeOf((chan locStcPChnElm)(nil)),
		r.TypeOf(map[int]locStcPMapElm(nil)),
		r.TypeOf(struct {
			A int
			C struct{ D []locStcPFld2 }
		}{}),
		r.TypeOf((*locStcVVal)(nil)).Elem(),
		r.TypeOf(struct{ C locStcVFld }{}),
		r.TypeOf([]locStcVElm(nil)),
		r.TypeOf(map[locStcVKey]int(nil)),
		r.TypeOf((func(locStcVPar))(nil)),
		r.TypeOf((func() locStcVRes)(nil)),
		r.TypeOf((*locStcVPtrFirst)(nil)),
		r.TypeOf([1]locStcVArrElm{}),
		r.TypeOf((chan locStcVChnElm)(nil)),
		r.TypeOf(map[int]locStcVMapElm(nil)),
		r.TypeOf(struct {
			A int
			C struct{ D []locStcVFld2 }
		}{}),
		r.TypeOf((*locStcMVal)(nil)).Elem(),
		r.TypeOf(struct{ C locStcMFld }{}),
		r.TypeOf([]locStcMElm(nil)),
		r.TypeOf(map[locStcMKey]int(nil)),
		r.TypeOf((func(locStcMPar))(nil)),
		r.TypeOf((func() locStcMRes)(nil)),
		r.TypeOf((*locStcMPtrFirst)(nil)),
		r.TypeOf([1]locStcMArrElm{}),
		r.TypeOf((chan locStcMChnElm)(nil)),
		r.TypeOf(map[int]locStcMMapElm(nil)),
		r.TypeOf(struct {
			A int
			C struct{ D []locStcMFld2 }
		}{}),
	}
}

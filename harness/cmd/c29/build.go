package main

// part B: composites built with the universe constructors, in lock step with reflect's own constructors.

import (
	"bytes"
	"fmt"
	"io"
	r "reflect"
	"time"
	"unsafe"

	xr "github.com/cosmos72/gomacro/xreflect"
	"verifh/vh"
)

type ty struct {
	t    xr.Type
	rt   r.Type
	desc string // constructor term
}

func (h *H) baseSet() []ty {
	rts := []r.Type{
		r.TypeOf(false), r.TypeOf(0), r.TypeOf(uint8(0)), r.TypeOf(""), r.TypeOf(0.0), r.TypeOf(complex128(0)),
		r.TypeOf(unsafe.Pointer(nil)),
		r.TypeOf((*error)(nil)).Elem(), r.TypeOf((*interface{})(nil)).Elem(),
		r.TypeOf(time.Duration(0)), r.TypeOf(time.Time{}), r.TypeOf(bytes.Buffer{}), r.TypeOf((*io.Reader)(nil)).Elem(),
	}
	var out []ty
	for _, rt := range rts {
		out = append(out, ty{h.from(rt, "base"), rt, printR(rt)})
	}
	return out
}

type ctor struct {
	desc string
	x    func() xr.Type // universe constructor
	r    func() r.Type  // reflect constructor on the reflect types of the components
}

// ctors enumerates the constructor applications with one argument from `from` and the others from base
func (h *H) ctors(x ty, base []ty) []ctor {
	v := h.v
	var cs []ctor
	add := func(desc string, fx func() xr.Type, fr func() r.Type) { cs = append(cs, ctor{desc, fx, fr}) }
	add("Ptr("+x.desc+")", func() xr.Type { return v.PtrTo(x.t) }, func() r.Type { return r.PtrTo(x.rt) })
	add("Slice("+x.desc+")", func() xr.Type { return v.SliceOf(x.t) }, func() r.Type { return r.SliceOf(x.rt) })
	for _, n := range []int{0, 3} {
		n := n
		add(fmt.Sprintf("Array(%d,%s)", n, x.desc), func() xr.Type { return v.ArrayOf(n, x.t) }, func() r.Type { return r.ArrayOf(n, x.rt) })
	}
	for _, d := range []r.ChanDir{r.BothDir, r.RecvDir, r.SendDir} {
		d := d
		add(fmt.Sprintf("Chan(%v,%s)", d, x.desc), func() xr.Type { return v.ChanOf(d, x.t) }, func() r.Type { return r.ChanOf(d, x.rt) })
	}
	for i, b := range base {
		b := b
		if b.rt.Comparable() {
			add("Map("+b.desc+","+x.desc+")", func() xr.Type { return v.MapOf(b.t, x.t) }, func() r.Type { return r.MapOf(b.rt, x.rt) })
		}
		if x.rt.Comparable() && i%5 == 1 {
			add("Map("+x.desc+","+b.desc+")", func() xr.Type { return v.MapOf(x.t, b.t) }, func() r.Type { return r.MapOf(x.rt, b.rt) })
		}
		if i%4 == 3 {
			add("Func(["+b.desc+","+x.desc+"],["+b.desc+"])",
				func() xr.Type { return v.FuncOf([]xr.Type{b.t, x.t}, []xr.Type{b.t}, false) },
				func() r.Type { return r.FuncOf([]r.Type{b.rt, x.rt}, []r.Type{b.rt}, false) })
			add("Struct(A "+b.desc+" `k:\"v\"`; B "+x.desc+")",
				func() xr.Type {
					return v.StructOf([]xr.StructField{{Name: "A", Type: b.t, Tag: `k:"v"`}, {Name: "B", Type: x.t}})
				},
				func() r.Type {
					return r.StructOf([]r.StructField{{Name: "A", Type: b.rt, Tag: `k:"v"`}, {Name: "B", Type: x.rt}})
				})
		}
	}
	add("Func(["+x.desc+"],[])", func() xr.Type { return v.FuncOf([]xr.Type{x.t}, nil, false) }, func() r.Type { return r.FuncOf([]r.Type{x.rt}, nil, false) })
	add("Func([],["+x.desc+"])", func() xr.Type { return v.FuncOf(nil, []xr.Type{x.t}, false) }, func() r.Type { return r.FuncOf(nil, []r.Type{x.rt}, false) })
	add("Func([..."+x.desc+"],[])", func() xr.Type { return v.FuncOf([]xr.Type{v.SliceOf(x.t)}, nil, true) }, func() r.Type { return r.FuncOf([]r.Type{r.SliceOf(x.rt)}, nil, true) })
	add("Struct(A "+x.desc+")", func() xr.Type { return v.StructOf([]xr.StructField{{Name: "A", Type: x.t}}) },
		func() r.Type { return r.StructOf([]r.StructField{{Name: "A", Type: x.rt}}) })
	return cs
}

// apply runs one constructor application through the oracle; returns the new type
func (h *H) apply(c ctor, k int) (ty, bool) {
	h.wd.Beat(c.desc)
	var rt r.Type
	if e := vh.Catch(func() { rt = c.r() }); e != nil {
		return ty{}, false // reflect refuses the type (e.g. oversize): not a case
	}
	var t1, t2, tf xr.Type
	fromFirst := k%2 == 1
	e := vh.Catch(func() {
		if fromFirst {
			tf = h.v.FromReflectType(rt)
		}
		t1 = c.x()
		t2 = c.x()
		if !fromFirst {
			tf = h.v.FromReflectType(rt)
		}
	})
	if e != nil {
		h.fail("constructor panicked", rt, c.desc, fmt.Sprint(e), nil)
		return ty{}, false
	}
	h.stats["partB_types"]++
	if h.id(t1) != h.id(t2) {
		h.fail("canonicity: same constructor call twice gives two objects", rt, c.desc, nil, nil)
	}
	if h.id(t1) != h.id(tf) {
		h.fail("canonicity: constructor and FromReflectType give two objects", rt, c.desc, fmt.Sprint("fromReflectFirst=", fromFirst), nil)
	}
	if t1.ReflectType() != rt {
		h.fail("constructor: reflect type differs from reflect's own constructor", rt, c.desc, fmt.Sprint(t1.ReflectType()), fmt.Sprint(rt))
	}
	if !h.seen[rt] {
		h.seen[rt] = true
		if e := vh.Catch(func() { h.check(rt, t1, c.desc) }); e != nil {
			h.fail("panic while inspecting type", rt, c.desc, fmt.Sprint(e), nil)
		}
		h.drain()
	}
	return ty{t1, rt, c.desc}, true
}

func (h *H) partB(rng *vh.Rng) {
	base := h.baseSet()
	level := base
	all := append([]ty(nil), base...)
	k := 0
	depth := 2
	for d := 1; d <= depth; d++ {
		var next []ty
		for _, x := range level {
			for _, c := range h.ctors(x, base) {
				k++
				if y, ok := h.apply(c, k); ok {
					next = append(next, y)
				}
			}
		}
		h.rep.Extra[fmt.Sprintf("partB_depth%d", d)] = len(next)
		level = next
		all = append(all, next...)
	}
	if h.a.Thorough() {
		// depth 3: a PRNG sample of the depth-3 applications (the full set is ~25x depth 2)
		n := 40000
		if h.a.N > 0 {
			n = h.a.N
		}
		cnt := 0
		for i := 0; i < n; i++ {
			x := level[rng.Intn(len(level))]
			cs := h.ctors(x, base)
			k++
			if _, ok := h.apply(cs[rng.Intn(len(cs))], k); ok {
				cnt++
			}
		}
		h.rep.Extra["partB_depth3_sampled"] = cnt
	}
	// keep some for the predicate matrix
	for i, x := range all {
		if i < len(base) || i%37 == 0 {
			h.predSample = append(h.predSample, x)
		}
	}
}

package main

// Two printers producing the SAME canonical text for a reflect.Type and for a (fork) go/types.Type:
// named types are leaves "pkgpath.Name", parameter names are dropped, a method receiver is the first parameter,
// unexported field/method names are qualified by their package path, embedded fields are marked "~",
// interface methods are sorted by qualified name.  Equal text <=> the two sides denote the same type term.

import (
	"fmt"
	"go/ast"
	r "reflect"
	"sort"
	"strings"

	"github.com/cosmos72/gomacro/go/types"
)

func qual(pkgpath, name string) string {
	if pkgpath == "" {
		return name
	}
	return pkgpath + "." + name
}

func fieldName(name, pkgpath string) string {
	if ast.IsExported(name) {
		return name
	}
	return pkgpath + "·" + name
}

// stripTypeArgs: "Pointer[os.dirInfo]" -> "Pointer".  Instances of generic types are outside the property (the fork
// predates generics; see known finding C29-1): they are compared by their generic name only and not inspected.
func stripTypeArgs(name string) string {
	if i := strings.IndexByte(name, '['); i >= 0 {
		return name[:i]
	}
	return name
}

func isGenericInstance(rt r.Type) bool { return strings.IndexByte(rt.Name(), '[') >= 0 }

// ---------- reflect side ----------
func printR(rt r.Type) string {
	if rt == nil {
		return "<nil>"
	}
	if rt.Name() != "" {
		if rt.Kind() == r.UnsafePointer && rt.PkgPath() == "unsafe" {
			return "unsafe.Pointer"
		}
		return qual(rt.PkgPath(), stripTypeArgs(rt.Name()))
	}
	return printRU(rt)
}

// printRU prints the structure of rt itself (ignoring its name, if any)
func printRU(rt r.Type) string {
	switch rt.Kind() {
	case r.Array:
		return fmt.Sprintf("[%d]%s", rt.Len(), printR(rt.Elem()))
	case r.Slice:
		return "[]" + printR(rt.Elem())
	case r.Ptr:
		return "*" + printR(rt.Elem())
	case r.Map:
		return "map[" + printR(rt.Key()) + "]" + printR(rt.Elem())
	case r.Chan:
		switch rt.ChanDir() {
		case r.RecvDir:
			return "<-chan " + printR(rt.Elem())
		case r.SendDir:
			return "chan<- " + printR(rt.Elem())
		}
		return "chan (" + printR(rt.Elem()) + ")"
	case r.Func:
		return printRFunc(rt, 0)
	case r.Struct:
		var sb strings.Builder
		sb.WriteString("struct{")
		for i, n := 0, rt.NumField(); i < n; i++ {
			f := rt.Field(i)
			if i > 0 {
				sb.WriteString("; ")
			}
			if f.Anonymous {
				sb.WriteString("~")
			}
			sb.WriteString(fieldName(f.Name, f.PkgPath))
			sb.WriteString(" ")
			sb.WriteString(printR(f.Type))
			if f.Tag != "" {
				fmt.Fprintf(&sb, " %q", string(f.Tag))
			}
		}
		sb.WriteString("}")
		return sb.String()
	case r.Interface:
		var ms []string
		for i, n := 0, rt.NumMethod(); i < n; i++ {
			m := rt.Method(i)
			ms = append(ms, fieldName(m.Name, m.PkgPath)+" "+printRFunc(m.Type, 0))
		}
		sort.Strings(ms)
		return "interface{" + strings.Join(ms, "; ") + "}"
	case r.UnsafePointer:
		return "unsafe.Pointer"
	default:
		return rt.Kind().String() // basic kinds: the kind name is the predeclared type name
	}
}

// printRFunc prints a func type skipping the first `skip` parameters
func printRFunc(rt r.Type, skip int) string {
	var in, out []string
	for i, n := skip, rt.NumIn(); i < n; i++ {
		s := printR(rt.In(i))
		if rt.IsVariadic() && i == n-1 {
			s = "..." + printR(rt.In(i).Elem())
		}
		in = append(in, s)
	}
	for i, n := 0, rt.NumOut(); i < n; i++ {
		out = append(out, printR(rt.Out(i)))
	}
	return "func(" + strings.Join(in, ", ") + ") (" + strings.Join(out, ", ") + ")"
}

// ---------- go/types (fork) side ----------
func pkgPathOf(p *types.Package) string {
	if p == nil {
		return ""
	}
	return p.Path()
}

func printG(gt types.Type) string {
	switch t := gt.(type) {
	case nil:
		return "<nil>"
	case *types.Named:
		o := t.Obj()
		return qual(pkgPathOf(o.Pkg()), o.Name())
	case *types.Basic:
		if t.Kind() == types.UnsafePointer {
			return "unsafe.Pointer"
		}
		if int(t.Kind()) < len(types.Typ) && types.Typ[t.Kind()] != nil {
			return types.Typ[t.Kind()].Name() // byte -> uint8, rune -> int32
		}
		return t.Name()
	}
	return printGU(gt)
}

func printGU(gt types.Type) string {
	switch t := gt.(type) {
	case *types.Named:
		return printGU(t.Underlying())
	case *types.Basic:
		return printG(t)
	case *types.Array:
		return fmt.Sprintf("[%d]%s", t.Len(), printG(t.Elem()))
	case *types.Slice:
		return "[]" + printG(t.Elem())
	case *types.Pointer:
		return "*" + printG(t.Elem())
	case *types.Map:
		return "map[" + printG(t.Key()) + "]" + printG(t.Elem())
	case *types.Chan:
		switch t.Dir() {
		case types.RecvOnly:
			return "<-chan " + printG(t.Elem())
		case types.SendOnly:
			return "chan<- " + printG(t.Elem())
		}
		return "chan (" + printG(t.Elem()) + ")"
	case *types.Signature:
		return printGSig(t, true)
	case *types.Struct:
		var sb strings.Builder
		sb.WriteString("struct{")
		for i, n := 0, t.NumFields(); i < n; i++ {
			f := t.Field(i)
			if i > 0 {
				sb.WriteString("; ")
			}
			if f.Anonymous() {
				sb.WriteString("~")
			}
			sb.WriteString(fieldName(f.Name(), pkgPathOf(f.Pkg())))
			sb.WriteString(" ")
			sb.WriteString(printG(f.Type()))
			if tag := t.Tag(i); tag != "" {
				fmt.Fprintf(&sb, " %q", tag)
			}
		}
		sb.WriteString("}")
		return sb.String()
	case *types.Interface:
		var ms []string
		for i, n := 0, t.NumMethods(); i < n; i++ {
			m := t.Method(i)
			ms = append(ms, fieldName(m.Name(), pkgPathOf(m.Pkg()))+" "+printGSig(m.Type().(*types.Signature), false))
		}
		sort.Strings(ms)
		return "interface{" + strings.Join(ms, "; ") + "}"
	case *types.Tuple:
		var xs []string
		for i := 0; i < t.Len(); i++ {
			xs = append(xs, printG(t.At(i).Type()))
		}
		return "(" + strings.Join(xs, ", ") + ")"
	}
	return fmt.Sprintf("?%T", gt)
}

func printGSig(s *types.Signature, withRecv bool) string {
	var in, out []string
	if withRecv && s.Recv() != nil {
		in = append(in, printG(s.Recv().Type()))
	}
	if p := s.Params(); p != nil {
		for i, n := 0, p.Len(); i < n; i++ {
			x := printG(p.At(i).Type())
			if s.Variadic() && i == n-1 {
				if sl, ok := p.At(i).Type().(*types.Slice); ok {
					x = "..." + printG(sl.Elem())
				} else {
					x = "...?" + x
				}
			}
			in = append(in, x)
		}
	}
	if p := s.Results(); p != nil {
		for i, n := 0, p.Len(); i < n; i++ {
			out = append(out, printG(p.At(i).Type()))
		}
	}
	return "func(" + strings.Join(in, ", ") + ") (" + strings.Join(out, ", ") + ")"
}

// hasParamNames reports whether the printed form of gt (go/types style) would mention parameter names
func hasParamNames(gt types.Type, depth int) bool {
	if depth > 6 {
		return false
	}
	switch t := gt.(type) {
	case *types.Array:
		return hasParamNames(t.Elem(), depth+1)
	case *types.Slice:
		return hasParamNames(t.Elem(), depth+1)
	case *types.Pointer:
		return hasParamNames(t.Elem(), depth+1)
	case *types.Chan:
		return hasParamNames(t.Elem(), depth+1)
	case *types.Map:
		return hasParamNames(t.Key(), depth+1) || hasParamNames(t.Elem(), depth+1)
	case *types.Struct:
		for i := 0; i < t.NumFields(); i++ {
			if hasParamNames(t.Field(i).Type(), depth+1) {
				return true
			}
		}
	case *types.Interface:
		for i := 0; i < t.NumMethods(); i++ {
			if hasParamNames(t.Method(i).Type(), depth+1) {
				return true
			}
		}
	case *types.Signature:
		for _, tu := range []*types.Tuple{t.Params(), t.Results()} {
			if tu == nil {
				continue
			}
			for i := 0; i < tu.Len(); i++ {
				if tu.At(i).Name() != "" || hasParamNames(tu.At(i).Type(), depth+1) {
					return true
				}
			}
		}
	}
	return false
}

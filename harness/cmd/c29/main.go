// c29: xreflect canonical types against reflect (direct oracle) + construction histories for the Coq model.
//
//	part A  every type reachable from imports.Packages (all Types entries and the types of all Binds, walked
//	        through elem/key/field/param/result/method-parameter types): kind, size, alignment, string, fields, method
//	        sets, element/key types, canonicity (from reflect twice, from components), field/method lookup (twice:
//	        cache) against reflect
//	part B  bounded-exhaustive composites built with the universe constructors over a base set
//	part C  predicates AssignableTo / ConvertibleTo / Comparable / Implements on ordered pairs against reflect and
//	        the fork's go/types
//	part D  construction histories -> observed object identities, written as Coq cases for coq/C29/Model.v
package main

import (
	"fmt"
	"os"
	r "reflect"
	"sort"
	"time"

	"github.com/cosmos72/gomacro/imports"
	"verifh/vh"
)

func main() {
	a := vh.ParseArgs()
	rng := vh.NewRng(a.Seed)
	rep := vh.NewReport(a, "part A: every reflect.Type reachable from the 158 precompiled import tables (imports.Packages: all Types entries, types of all Binds; "+
		"walked transitively through elem/key/field/param/result/method types) converted with Universe.FromReflectType - exhaustive; "+
		"part B: composites built with PtrTo/SliceOf/ArrayOf/ChanOf/MapOf/FuncOf/StructOf over a base set, bounded-exhaustive to depth 2 (quick) / 3 sampled (thorough); "+
		"part C: predicates on all ordered pairs of a type sample (hand-picked compiled types incl. twin named structs and named/unnamed pointer, slice, array, map, chan, func types over them); part D: PRNG construction histories over term ids; "+
		"part E: PRNG families of declared types (3..6 structs embedding earlier ones by value or pointer, 1..2 diamonds = one type reached through two embedded fields at equal depth 2..4 - or unequal depth - by value or pointer, skewed embeddings, twins = distinct named types with identical underlying types (also up to tags), named and aliased pointer/slice/array/map/chan/func/struct composites over them, named basics, methods with value/pointer receivers) declared in a gomacro interpreter and type-checked by the toolchain's go/types: "+
		"FieldByName/MethodByName of every struct x every pool name (twice) against go/types.LookupFieldOrMethod, Identical/AssignableTo/ConvertibleTo/Comparable of the fork's go/types and of xreflect on every ordered pair against the toolchain's go/types (xreflect Assignable/Convertible only where its reflect shortcut does not fire: known class C29-K1). "+
		"part F: ~290 named types declared in the harness' own package main (no importer knows them: method sets come from the reflect scan only) = 9 underlying kinds (int,string,float64,slice,array,map,func,chan,struct) x receiver pattern (pointer receivers only / value receivers only / mixed) x first access path (by value, as field / nested field / slice, array, chan, map element / map key / parameter / result of an unnamed composite, through *T first), inspected like part A; "+
		"A case is one type (A,B,F), one ordered pair (C) or one history (D); non-trivial = composite kind (A,B), pair of different types (C), history with a repeated term (D); distinct by SHA-256 of the canonical type text")
	wd := vh.NewWatchdog(rep, 180*time.Second)
	wd.Beat("setup: go list -export")
	t0 := time.Now()
	files, err := exportFiles("./cmd/c29") // every package linked into this binary, hence every package that registered an import table
	if err != nil {
		fmt.Fprintln(os.Stderr, err)
		os.Exit(2)
	}
	l := newStdLoader(files)
	wd.Beat("setup: convert packages")
	v, npk := newUniverse(l)
	rep.Extra["packages_preloaded"] = npk
	rep.Extra["packages_whose_conversion_panicked"] = crashed
	rep.Extra["setup_s"] = time.Since(t0).Seconds()

	h := &H{a: a, rep: rep, v: v, seen: map[r.Type]bool{}, nfail: map[string]int{}, wd: wd, stats: map[string]int{}}

	// ---------------- part A
	var paths []string
	for p := range imports.Packages {
		paths = append(paths, p)
	}
	sort.Strings(paths)
	roots := 0
	for _, p := range paths {
		pkg := imports.Packages[p]
		var names []string
		for k := range pkg.Types {
			names = append(names, k)
		}
		sort.Strings(names)
		for _, k := range names {
			rt := pkg.Types[k]
			if rt == nil {
				continue
			}
			roots++
			h.enqueue(rt, h.from(rt, p+"."+k), p+"."+k)
		}
		names = names[:0]
		for k := range pkg.Binds {
			names = append(names, k)
		}
		sort.Strings(names)
		for _, k := range names {
			val := pkg.Binds[k]
			if !val.IsValid() {
				continue
			}
			roots++
			h.enqueue(val.Type(), h.from(val.Type(), p+"."+k), p+"."+k)
		}
		h.drain()
	}
	rep.Extra["partA_roots"] = roots
	rep.Extra["partA_types"] = h.stats["types"]
	rep.Extra["partA_s"] = time.Since(t0).Seconds()

	// ---------------- part F (local.go): named types of this binary's package main, unknown to the importer, first met by value / as component / by pointer
	nloc := h.stats["types"]
	for _, rt := range localRoots() {
		o := "local:" + printR(rt)
		h.enqueue(rt, h.from(rt, o), o)
		h.drain()
	}
	rep.Extra["partF_types"] = h.stats["types"] - nloc
	rep.Extra["partF_s"] = time.Since(t0).Seconds()

	// ---------------- part B
	h.partB(rng)
	rep.Extra["partB_s"] = time.Since(t0).Seconds()
	// ---------------- part C
	h.partC(rng)
	rep.Extra["partC_s"] = time.Since(t0).Seconds()
	// ---------------- part D
	cw := vh.NewCases(a, "From Coq Require Import List NArith ZArith Bool.\nFrom Verif Require Import C29.Model.\nImport ListNotations.", "case", "mismatches", map[bool]int{false: 40, true: 100}[a.Thorough()])
	h.partD(rng.Fork(), cw)
	cw.Close()
	rep.Extra["partD_s"] = time.Since(t0).Seconds()
	// ---------------- part E
	h.partE(rng.Fork())
	rep.Extra["partE_s"] = time.Since(t0).Seconds()
	for k, n := range h.stats {
		rep.Extra["stat_"+k] = n
	}
	for k, n := range h.nfail {
		rep.Extra["failcount_"+k] = n
	}
	rep.Exhaustive = true
	rep.Write()
}

package main

// part E: families of DECLARED types.  A PRNG family of package-level type declarations (struct types with plain and
// embedded fields - by value and by pointer, diamonds = the same type reached through two embedded fields at equal
// depth, skewed = the same type at two depths -, twins = distinct named types with identical underlying types (also up
// to struct tags), named pointer / slice / array / map / chan / func / basic types over them, methods with value and
// pointer receivers, aliases of unnamed composites) is declared in a gomacro interpreter (the types are built by the
// interpreter with Universe.NamedOf / SetUnderlying / StructOf / AddMethod) AND type-checked by the go/types of the Go
// toolchain (the oracle; reflect cannot see interpreted named types).  Compared:
//
//	lookups     Type.FieldByName / MethodByName (twice: cache) of every named struct type x every name of the family's
//	            pools against go/types.LookupFieldOrMethod: found (same index path) / ambiguous / not found
//	predicates  on every ordered pair of the family's types: the fork's go/types Identical / AssignableTo /
//	            ConvertibleTo / Comparable on the interpreter's go/types terms against the toolchain's go/types;
//	            xreflect's IdenticalTo / Comparable always, AssignableTo / ConvertibleTo whenever the reflect shortcut of
//	            xreflect (rtype.AssignableTo / ConvertibleTo answers true at once) does not fire
//
// Known class (proposed finding C29-K1, key below): interpreted named types are represented by the reflect.Type of their
// underlying type, so distinct named types with identical underlying types are mutually assignable for xreflect (and for
// the interpreter: `var a S1; var b S2 = a` compiles).  Pairs where xreflect says true through the reflect shortcut and
// go/types says false are counted (extra.partE_known_class_pairs) and reported under that key only.

import (
	"crypto/sha256"
	"encoding/hex"
	"encoding/json"
	"fmt"
	"go/ast"
	"go/parser"
	"go/token"
	gotypes "go/types"
	"io"
	"os"
	"path/filepath"
	r "reflect"
	"sort"
	"strings"

	"github.com/cosmos72/gomacro/fast"
	"github.com/cosmos72/gomacro/go/types"
	xr "github.com/cosmos72/gomacro/xreflect"
	"verifh/vh"
)

const knownTwinKey = "C29-K1:interpreted-named-types-sharing-a-reflect-type-are-mutually-assignable"

type family struct {
	Name    string   `json:"name"`
	Types   []string `json:"types"`   // type declarations (one source, evaluated together)
	Methods []string `json:"methods"` // method declarations, evaluated one by one
	names   []string // declared type names (named types and aliases), declaration order
	structs []string // named struct types
	pool    []string // field and method names to look up
	digest  string
	sfields map[string][]fieldEnt // struct -> its fields in declaration order
	smeths  map[string][]methEnt  // named type -> its methods in declaration order
}

type fieldEnt struct {
	src, name string
	emb       string // "" (plain field) or the embedded struct's name
	ptr       bool   // embedded by pointer
}
type methEnt struct {
	name string
	ptr  bool
}

type famGen struct {
	r       *vh.Rng
	f       *family
	under   map[string]string // named type -> source of its underlying type
	isStruc map[string]bool
	fields  map[string][]string // struct -> names of its direct fields (incl. embedded type names)
	n       int
}

var fieldPool = []string{"X", "Y", "Z", "W"}
var methPool = []string{"M", "N", "Get", "Put"}
var leafTypes = []string{"int", "string", "[]int", "float64", "*int", "map[string]int", "func(int) int", "[2]uint8", "bool"}

func (g *famGen) fresh(prefix string) string {
	g.n++
	return fmt.Sprintf("%s%d", prefix, g.n)
}

func (g *famGen) decl(name, under string) {
	g.f.Types = append(g.f.Types, "type "+name+" "+under)
	g.f.names = append(g.f.names, name)
	g.under[name] = under
}

// structDecl declares a struct with the given embedded types (source of each: T or *T) and random plain fields
func (g *famGen) structDecl(name string, emb []string, nplain int) {
	r := g.r
	used := map[string]bool{}
	var ents []fieldEnt
	for _, e := range emb {
		base := strings.TrimPrefix(e, "*")
		if used[base] {
			continue
		}
		used[base] = true
		ents = append(ents, fieldEnt{src: e, name: base, emb: base, ptr: e != base})
	}
	for i := 0; i < nplain; i++ {
		fn := fieldPool[r.Intn(len(fieldPool))]
		if used[fn] {
			continue
		}
		used[fn] = true
		f := fn + " " + leafTypes[r.Intn(len(leafTypes))]
		if r.Chance(1, 6) {
			f += fmt.Sprintf(" `k:\"%s\"`", fn)
		}
		ents = append(ents, fieldEnt{src: f, name: fn})
	}
	// a field that only this struct has: distinct struct types stay non-identical unless declared as twins
	u := "U" + name
	ents = append(ents, fieldEnt{src: u + " int8", name: u})
	for i := len(ents) - 1; i > 0; i-- {
		j := r.Intn(i + 1)
		ents[i], ents[j] = ents[j], ents[i]
	}
	var fs, names []string
	for _, e := range ents {
		fs = append(fs, e.src)
		names = append(names, e.name)
	}
	g.decl(name, "struct { "+strings.Join(fs, "; ")+" }")
	g.isStruc[name] = true
	g.fields[name] = names
	g.f.sfields[name] = ents
	g.f.structs = append(g.f.structs, name)
}

func (g *famGen) embedOf(t string) string {
	if g.r.Chance(1, 3) {
		return "*" + t
	}
	return t
}

func (g *famGen) method(t string) {
	r := g.r
	name := methPool[r.Intn(len(methPool))]
	for _, f := range g.fields[t] {
		if f == name {
			return
		}
	}
	key := t + "." + name
	for _, m := range g.f.Methods {
		if strings.Contains(m, " "+t+") "+name+"(") || strings.Contains(m, "*"+t+") "+name+"(") {
			return
		}
	}
	_ = key
	recv := t
	if r.Chance(2, 5) {
		recv = "*" + t
	}
	g.f.Methods = append(g.f.Methods, fmt.Sprintf("func (r %s) %s() int { return %d }", recv, name, len(g.f.Methods)))
	g.f.smeths[t] = append(g.f.smeths[t], methEnt{name, recv != t})
}

func genFamily(r *vh.Rng, name string) *family {
	g := &famGen{r: r, f: &family{Name: name, sfields: map[string][]fieldEnt{}, smeths: map[string][]methEnt{}}, under: map[string]string{}, isStruc: map[string]bool{}, fields: map[string][]string{}}
	p := name + "_"
	// ---- plain hierarchy: each struct embeds 0..3 earlier structs
	ns := 3 + r.Intn(4)
	var ss []string
	for i := 0; i < ns; i++ {
		s := g.fresh(p + "S")
		var emb []string
		for j, ne := 0, r.Intn(4); j < ne && len(ss) > 0; j++ {
			emb = append(emb, g.embedOf(ss[r.Intn(len(ss))]))
		}
		g.structDecl(s, emb, r.Intn(3))
		ss = append(ss, s)
	}
	// ---- diamonds: Core reached through two different embedded fields at the same depth (1..3 levels below the
	// siblings), by value or by pointer; and skewed: the same type at two different depths
	for d, nd := 0, 1+r.Intn(2); d < nd; d++ {
		core := g.fresh(p + "Core")
		var emb []string
		if r.Chance(1, 3) {
			emb = append(emb, g.embedOf(ss[r.Intn(len(ss))]))
		}
		g.structDecl(core, emb, 1+r.Intn(3))
		left, right := core, core
		depth := 1 + r.Intn(3)
		ldepth, rdepth := depth, depth
		if r.Chance(1, 4) {
			rdepth = depth + 1 // not a diamond at equal depth: the shallower path wins
		}
		for l := 0; l < ldepth; l++ {
			n := g.fresh(p + "L")
			g.structDecl(n, []string{g.embedOf(left)}, r.Intn(2))
			left = n
		}
		for l := 0; l < rdepth; l++ {
			n := g.fresh(p + "R")
			g.structDecl(n, []string{g.embedOf(right)}, r.Intn(2))
			right = n
		}
		top := g.fresh(p + "Dia")
		emb = []string{g.embedOf(left), g.embedOf(right)}
		if r.Chance(1, 3) {
			emb = append(emb, g.embedOf(ss[r.Intn(len(ss))]))
		}
		g.structDecl(top, emb, r.Intn(2))
		sk := g.fresh(p + "Skew")
		g.structDecl(sk, []string{g.embedOf(core), g.embedOf(left)}, r.Intn(2))
		ss = append(ss, core, top, sk)
	}
	// ---- twins: distinct named types with the underlying type of an earlier one (exactly, or up to tags)
	var twins [][2]string
	for i, nt := 0, 1+r.Intn(3); i < nt; i++ {
		a := g.f.structs[r.Intn(len(g.f.structs))]
		b := g.fresh(p + "Tw")
		u := g.under[a]
		if r.Chance(1, 3) {
			if strings.Contains(u, "`") {
				u = strings.ReplaceAll(u, "`k:", "`j:")
			} else {
				u = strings.Replace(u, " int8", " int8 `t:\"w\"`", 1)
			}
		}
		g.decl(b, u)
		g.isStruc[b] = true
		g.fields[b] = g.fields[a]
		g.f.sfields[b] = g.f.sfields[a]
		g.f.structs = append(g.f.structs, b)
		twins = append(twins, [2]string{a, b})
	}
	// ---- named composites over the structs; for twins the same constructor over both
	ctors := []func(t string) string{
		func(t string) string { return "*" + t },
		func(t string) string { return "[]" + t },
		func(t string) string { return "[2]" + t },
		func(t string) string { return "map[string]" + t },
		func(t string) string { return "chan " + t },
		func(t string) string { return "<-chan " + t },
		func(t string) string { return "func(" + t + ") *" + t },
		func(t string) string { return "**" + t },
		func(t string) string { return "struct { F " + t + " }" },
	}
	var comps []string
	for _, tw := range twins {
		for k, nk := 0, 1+r.Intn(3); k < nk; k++ {
			c := ctors[r.Intn(len(ctors))]
			for _, t := range tw {
				n := g.fresh(p + "N")
				g.decl(n, c(t))
				comps = append(comps, n)
				if r.Chance(1, 2) {
					al := g.fresh(p + "A")
					g.f.Types = append(g.f.Types, "type "+al+" = "+c(t))
					g.f.names = append(g.f.names, al)
				}
			}
		}
	}
	for k, nk := 0, 2+r.Intn(4); k < nk; k++ {
		t := g.f.structs[r.Intn(len(g.f.structs))]
		c := ctors[r.Intn(len(ctors))]
		n := g.fresh(p + "N")
		g.decl(n, c(t))
		comps = append(comps, n)
		if r.Chance(1, 2) {
			// a second named type over the same expression, and the unnamed expression itself
			n2 := g.fresh(p + "N")
			g.decl(n2, c(t))
			comps = append(comps, n2)
		}
		al := g.fresh(p + "A")
		g.f.Types = append(g.f.Types, "type "+al+" = "+c(t))
		g.f.names = append(g.f.names, al)
	}
	// named types over named composites (pointer to named pointer, slice of named slice) and named basics
	for k, nk := 0, r.Intn(3); k < nk && len(comps) > 0; k++ {
		n := g.fresh(p + "N")
		g.decl(n, ctors[r.Intn(3)](comps[r.Intn(len(comps))]))
	}
	for _, b := range []string{"int", "int", "string", "float64"} {
		if r.Chance(1, 2) {
			g.decl(g.fresh(p+"B"), b)
		}
	}
	// the unnamed struct type of some struct (identical to its underlying type)
	for k := 0; k < 2; k++ {
		a := g.f.structs[r.Intn(len(g.f.structs))]
		al := g.fresh(p + "A")
		g.f.Types = append(g.f.Types, "type "+al+" = "+g.under[a])
		g.f.names = append(g.f.names, al)
	}
	// ---- methods
	for _, s := range g.f.structs {
		for k, nk := 0, r.Intn(3); k < nk; k++ {
			if r.Chance(1, 2) {
				g.method(s)
			}
		}
	}
	for _, n := range g.f.names {
		if u := g.under[n]; u != "" && !g.isStruc[n] && !strings.HasPrefix(u, "*") && r.Chance(1, 5) {
			g.method(n)
		}
	}
	// ---- names to look up
	seen := map[string]bool{}
	for _, n := range append(append([]string{}, fieldPool...), methPool...) {
		seen[n] = true
		g.f.pool = append(g.f.pool, n)
	}
	for _, s := range g.f.structs {
		for _, f := range g.fields[s] {
			if !seen[f] {
				seen[f] = true
				g.f.pool = append(g.f.pool, f)
			}
		}
	}
	g.f.pool = append(g.f.pool, "NoSuchName")
	return g.f
}

func (f *family) source() string {
	return "package main\n\n" + strings.Join(f.Types, "\n") + "\n\n" + strings.Join(f.Methods, "\n") + "\n"
}

// id: short digest of the family's source (canonical form of its cases)
func (f *family) id() string {
	if f.digest == "" {
		sum := sha256.Sum256([]byte(f.source()))
		f.digest = hex.EncodeToString(sum[:8])
	}
	return f.digest
}

// the toolchain's go/types on the family
func (f *family) check() (*gotypes.Package, error) {
	fset := token.NewFileSet()
	file, err := parser.ParseFile(fset, f.Name+".go", f.source(), 0)
	if err != nil {
		return nil, err
	}
	conf := gotypes.Config{}
	return conf.Check("main", fset, []*ast.File{file}, nil)
}

func stdType(pkg *gotypes.Package, name string) gotypes.Type {
	o := pkg.Scope().Lookup(name)
	if o == nil {
		panic("go/types: no type " + name)
	}
	return gotypes.Unalias(o.Type())
}

func (h *H) efail(f *family, what, subject string, got, want interface{}) {
	h.nfail["partE:"+what]++
	if h.nfail["partE:"+what] > 6 {
		return
	}
	h.rep.Fail(vh.Failure{Key: "partE:" + what + ": " + subject, What: what + " (declared type family; oracle: go/types of the Go toolchain)",
		Input: map[string]interface{}{"family": f, "subject": subject}, Got: got, Want: want})
}

func (h *H) partE(rng *vh.Rng) {
	nF := 30
	if h.a.Thorough() {
		nF = 120 // 300 families were 60 lookup case files (5 families, ~600 KB, ~25 s each); now 12 files of 10 families
	}
	// status of the proposed known finding
	status := ""
	if b, err := os.ReadFile(filepath.Join(verifDir(), "known_findings.json")); err == nil {
		var kf struct {
			Findings []struct{ Property, Status, Key string } `json:"findings"`
		}
		if json.Unmarshal(b, &kf) == nil {
			for _, x := range kf.Findings {
				if x.Property == "C29" && x.Key == knownTwinKey {
					status = x.Status
				}
			}
		}
	}
	h.replayKnownTwin(status)
	h.caseIdx = 100000
	var ir *fast.Interp
	knownPairs := 0
	for i := 0; i < nF; i++ {
		f := genFamily(rng.Fork(), fmt.Sprintf("F%d", i))
		h.wd.Beat("partE family " + f.Name)
		pkg, err := f.check()
		if err != nil {
			fmt.Fprintf(os.Stderr, "generator bug: family %s does not type-check: %v\n%s\n", f.Name, err, f.source())
			os.Exit(2)
		}
		if ir == nil || i%8 == 0 {
			ir = fast.New()
			ir.Comp.Globals.Stdout = io.Discard
			ir.Comp.Globals.Stderr = io.Discard
		}
		if e := vh.Catch(func() {
			ir.Eval(strings.Join(f.Types, "\n"))
			for _, m := range f.Methods {
				ir.Eval(m)
			}
		}); e != nil {
			h.efail(f, "gomacro rejects declarations that go/types accepts", f.Name, fmt.Sprint(e), nil)
			ir = nil
			continue
		}
		h.stats["partE_families"]++
		ts := map[string]xr.Type{}
		ok := true
		for _, n := range f.names {
			t := ir.Comp.TryResolveType(n)
			if t == nil {
				h.efail(f, "declared type not found in the interpreter", n, nil, nil)
				ok = false
				break
			}
			ts[n] = t
		}
		if !ok {
			continue
		}
		h.familyLookups(f, pkg, ts)
		knownPairs += h.familyPredicates(f, pkg, ts, status)
	}
	// the observed lookups, for the lookup model (shards of 5 families; 10 in the thorough tier)
	per := 5
	if h.a.Thorough() {
		per = 10
	}
	for i := 0; i*per < len(h.lookupCases); i++ {
		hi := (i + 1) * per
		if hi > len(h.lookupCases) {
			hi = len(h.lookupCases)
		}
		txt := "From Coq Require Import List NArith ZArith Bool.\nFrom Verif Require Import C09.Model.\nImport ListNotations.\nOpen Scope Z_scope.\n" +
			"Definition cases : list case := [\n " + strings.Join(h.lookupCases[i*per:hi], ";\n ") + "\n].\n" +
			"Definition verif_mismatches : list Z := Eval vm_compute in mismatches cases.\nPrint verif_mismatches.\n"
		if err := os.WriteFile(h.a.Path(fmt.Sprintf("cases_lookup_%03d.v", i)), []byte(txt), 0o644); err != nil {
			panic(err)
		}
	}
	h.rep.Extra["partE_lookup_model_cases"] = len(h.lookupCases)
	h.rep.Extra["partE_known_class_pairs"] = knownPairs
	h.rep.Extra["partE_known_class_status"] = status
}

// coqPath: a StructField.Index / Method.FieldIndex as a Coq term
func coqPath(p []int) string {
	if len(p) == 0 {
		return "(@nil Z)"
	}
	var ss []string
	for _, x := range p {
		ss = append(ss, fmt.Sprint(x))
	}
	return "[" + strings.Join(ss, ";") + "]%Z"
}

// lookupEnv: the struct types of the family as an environment of Verif.C09.Model (type id = position in f.structs;
// names are numbered by nid)
func (f *family) lookupEnv(nid func(string) int) string {
	idx := map[string]int{}
	for i, s := range f.structs {
		idx[s] = i
	}
	var ts []string
	for _, s := range f.structs {
		var fs []string
		for _, e := range f.sfields[s] {
			ft := "FInt"
			if e.emb != "" {
				if e.ptr {
					ft = fmt.Sprintf("(FPtr %d)", idx[e.emb])
				} else {
					ft = fmt.Sprintf("(FVal %d)", idx[e.emb])
				}
			}
			fs = append(fs, fmt.Sprintf("mkField %d%%N %s", nid(e.name), ft))
		}
		var ms []string
		for _, m := range f.smeths[s] {
			ms = append(ms, fmt.Sprintf("(%d%%N, %s)", nid(m.name), vh.CoqBool(m.ptr)))
		}
		ts = append(ts, fmt.Sprintf("mkT %d%%N (KStruct %s) %s", nid(s), vh.CoqList(fs, "field"), vh.CoqList(ms, "(N * bool)")))
	}
	return vh.CoqList(ts, "tdef")
}

func (h *H) familyLookups(f *family, pkg *gotypes.Package, ts map[string]xr.Type) {
	ids := map[string]int{}
	nid := func(n string) int {
		if v, ok := ids[n]; ok {
			return v
		}
		ids[n] = len(ids)
		return ids[n]
	}
	var cops, couts []string
	complete := true
	defer func() {
		// correspondence with the lookup model (coq/C09/Model.v): the observed answers of this family
		if complete {
			h.lookupCases = append(h.lookupCases, fmt.Sprintf("mkCase %d %s\n  %s\n  %s", h.caseIdx, f.lookupEnv(nid), vh.CoqList(cops, "op"), vh.CoqList(couts, "out")))
			h.rep.CaseInput(h.caseIdx, map[string]interface{}{"part": "E", "family": f})
			h.caseIdx++
		}
	}()
	for k, s := range f.structs {
		st := stdType(pkg, s)
		t := ts[s]
		for _, name := range f.pool {
			obj, index, _ := gotypes.LookupFieldOrMethod(st, true, pkg, name)
			cls := "none"
			switch obj.(type) {
			case *gotypes.Var:
				cls = "field"
			case *gotypes.Func:
				cls = "method"
			default:
				if index != nil {
					cls = "ambiguous"
				}
			}
			h.stats["partE_lookups"]++
			h.rep.Dist("partE lookup:" + cls)
			if len(index) > 1 {
				h.rep.Dist(fmt.Sprintf("partE lookup depth:%d", len(index)-1))
			}
			h.rep.Count("E|"+f.id()+"|"+s+"."+name, cls == "ambiguous" || len(index) > 1)
			subject := s + "." + name
			for rep := 0; rep < 2; rep++ { // the second answer comes from the cache
				var fld xr.StructField
				var mtd xr.Method
				var fc, mc int
				if e := vh.Catch(func() { fld, fc = t.FieldByName(name, "main"); mtd, mc = t.MethodByName(name, "main") }); e != nil {
					h.efail(f, "FieldByName/MethodByName panicked", subject, fmt.Sprint(e), nil)
					complete = false
					break
				}
				cops = append(cops, fmt.Sprintf("OLookF %d %d%%N", k, nid(name)), fmt.Sprintf("OLookM %d %d%%N", k, nid(name)))
				couts = append(couts, fmt.Sprintf("RF %d %s", fc, coqPath(fld.Index)), fmt.Sprintf("RM %d %s %s", mc, coqPath(mtd.FieldIndex), vh.CoqZ(int64(mtd.Index))))
				got := fmt.Sprintf("fields=%d %v methods=%d %v rep=%d", fc, fld.Index, mc, mtd.FieldIndex, rep)
				want := fmt.Sprintf("%s %v", cls, index)
				bad := false
				switch cls {
				case "field":
					bad = fc != 1 || fmt.Sprint(fld.Index) != fmt.Sprint(index) || mc != 0 && len(mtd.FieldIndex)+1 <= len(index)
				case "method":
					bad = mc != 1 || fmt.Sprint(mtd.FieldIndex) != fmt.Sprint(index[:len(index)-1]) || fc != 0 && len(fld.Index) <= len(index)
				case "none":
					bad = fc != 0 || mc != 0
				case "ambiguous":
					// the name pools of fields and methods are disjoint: the ambiguity is among fields or among methods
					bad = !(fc > 1 && mc == 0 || mc > 1 && fc == 0)
				}
				if bad {
					h.efail(f, "FieldByName/MethodByName differ from go/types.LookupFieldOrMethod", subject, got, want)
					break
				}
			}
		}
	}
}

func (h *H) familyPredicates(f *family, pkg *gotypes.Package, ts map[string]xr.Type, status string) (known int) {
	names := append([]string{}, f.names...)
	sort.Strings(names)
	for _, a := range names {
		ta, sa := ts[a], stdType(pkg, a)
		if got, want := ta.Comparable(), gotypes.Comparable(sa); got != want {
			h.efail(f, "Comparable", a, got, want)
		}
		for _, b := range names {
			tb, sb := ts[b], stdType(pkg, b)
			subject := a + " -> " + b
			h.stats["partE_pairs"]++
			wantI, wantA, wantC := gotypes.Identical(sa, sb), gotypes.AssignableTo(sa, sb), gotypes.ConvertibleTo(sa, sb)
			h.rep.Count("E|"+f.id()+"|"+subject, a != b)
			h.rep.Dist(fmt.Sprintf("partE pair: identical=%v assignable=%v convertible=%v", wantI, wantA, wantC))
			// the fork's go/types on the interpreter's terms
			var gi, ga, gc bool
			if e := vh.Catch(func() {
				gi = types.Identical(ta.GoType(), tb.GoType())
				ga = types.AssignableTo(ta.GoType(), tb.GoType())
				gc = types.ConvertibleTo(ta.GoType(), tb.GoType())
			}); e != nil {
				h.efail(f, "go/types (fork) predicate panicked", subject, fmt.Sprint(e), nil)
				continue
			}
			if gi != wantI {
				h.efail(f, "go/types (fork) Identical", subject, gi, wantI)
			}
			if ga != wantA {
				h.efail(f, "go/types (fork) AssignableTo", subject, ga, wantA)
			}
			if gc != wantC && !sliceToArrayConv(ta.ReflectType(), tb.ReflectType()) {
				h.efail(f, "go/types (fork) ConvertibleTo", subject, gc, wantC)
			}
			// xreflect
			var xi, xa, xc bool
			if e := vh.Catch(func() { xi = ta.IdenticalTo(tb); xa = ta.AssignableTo(tb); xc = ta.ConvertibleTo(tb) }); e != nil {
				h.efail(f, "xreflect predicate panicked", subject, fmt.Sprint(e), nil)
				continue
			}
			if xi != wantI {
				h.efail(f, "IdenticalTo", subject, xi, wantI)
			}
			ra, rb := ta.ReflectType(), tb.ReflectType()
			shortA, shortC := false, false
			if ra != nil && rb != nil && ra.Kind() != r.Invalid && rb.Kind() != r.Invalid {
				vh.Catch(func() { shortA = ra.AssignableTo(rb); shortC = ra.ConvertibleTo(rb) })
			}
			if xa != wantA {
				if shortA && xa {
					known++
					h.knownTwin(f, status, "AssignableTo", subject)
				} else {
					h.efail(f, "AssignableTo", subject, xa, wantA)
				}
			}
			if xc != wantC && !sliceToArrayConv(ra, rb) {
				if shortC && xc {
					known++
					h.knownTwin(f, status, "ConvertibleTo", subject)
				} else {
					h.efail(f, "ConvertibleTo", subject, xc, wantC)
				}
			}
		}
	}
	return known
}

// knownTwin: a pair of the known class: counted only (the exact recorded input is replayed by replayKnownTwin)
func (h *H) knownTwin(f *family, status, pred, subject string) {
	h.rep.Dist("partE known class (reflect shortcut): " + pred)
}

// replayKnownTwin replays corpus/C29/known-twin-assignable.txt.  While it still fails it is reported under the key of
// the finding once that key is registered in known_findings.json; until then extra.proposed_finding_reproduced says so.
func (h *H) replayKnownTwin(status string) {
	ir := fast.New()
	ir.Comp.Globals.Stdout = io.Discard
	ir.Comp.Globals.Stderr = io.Discard
	var got [4]bool
	compiled := false
	e := vh.Catch(func() {
		ir.Eval("type S1 struct{ V int }\ntype S2 struct{ V int }\ntype P1 *S1\ntype P2 *S2")
		t := ir.Comp.TryResolveType
		got = [4]bool{t("S1").AssignableTo(t("S2")), t("S1").IdenticalTo(t("S2")), t("P1").AssignableTo(t("P2")), t("P1").ConvertibleTo(t("P2"))}
		compiled = vh.Catch(func() { ir.Eval("var a S1\nvar b S2 = a") }) == nil
	})
	still := e == nil && (got[0] || got[2] || got[3] || compiled)
	h.rep.Extra["proposed_finding_reproduced:"+knownTwinKey] = still
	if e != nil || got[1] {
		h.rep.Fail(vh.Failure{Key: "partE:corpus known-twin-assignable", What: "replay of corpus/C29/known-twin-assignable.txt panicked or S1 is identical to S2", Got: fmt.Sprint(e, got)})
		return
	}
	if still && status != "" {
		h.rep.Fail(vh.Failure{Key: knownTwinKey, What: "distinct interpreted named types with identical underlying types are mutually assignable (xreflect AssignableTo/ConvertibleTo, `var b S2 = a`)",
			Input: "corpus/C29/known-twin-assignable.txt", Got: fmt.Sprintf("S1->S2 assignable=%v, P1->P2 assignable=%v convertible=%v, `var b S2 = a` compiles=%v", got[0], got[2], got[3], compiled), Want: "false false false false"})
	}
}

package main

// part D: construction histories -> observed object identities, as Coq cases for coq/C29/Model.v.
// Direct oracle on every history: two results are the same object  <=>  reflect's own (canonical) types of the two
// denoted terms are equal.

import (
	"bytes"
	"fmt"
	"io"
	r "reflect"
	"strings"
	"time"

	xr "github.com/cosmos72/gomacro/xreflect"
	"verifh/vh"
)

var histBasics = []r.Kind{r.Bool, r.Int, r.Uint8, r.String, r.Float64}
var histNamed = []r.Type{
	r.TypeOf(time.Duration(0)), r.TypeOf(time.Time{}), r.TypeOf(bytes.Buffer{}), r.TypeOf((*io.Reader)(nil)).Elem(),
	r.TypeOf((*error)(nil)).Elem(),
}
var fieldNames = []string{"A", "B", "C"}
var fieldTags = []string{"", `k:"v"`}

// a term of the model's language together with reflect's type for it
type term struct {
	coq string
	rt  r.Type
}

func basicTerm(i int) term {
	k := histBasics[i]
	return term{fmt.Sprintf("(TBasic %d%%N)", int(k)), xr.ReflectBasicTypes[k]}
}
func namedTerm(i int) term { return term{fmt.Sprintf("(TNamed %d%%N)", i), histNamed[i]} }

func coqNats(xs []int) string {
	if len(xs) == 0 {
		return "(@nil nat)"
	}
	var s []string
	for _, x := range xs {
		s = append(s, fmt.Sprint(x))
	}
	return "[" + strings.Join(s, ";") + "]"
}
func coqTerms(ts []term) string {
	if len(ts) == 0 {
		return "(@nil term)"
	}
	var s []string
	for _, x := range ts {
		s = append(s, x.coq)
	}
	return "[" + strings.Join(s, ";") + "]"
}

// randTerm builds a random term (depth <= d) and reflect's type for it
func randTerm(rng *vh.Rng, d int) term {
	if d == 0 || rng.Intn(4) == 0 {
		if rng.Bool() {
			return basicTerm(rng.Intn(len(histBasics)))
		}
		return namedTerm(rng.Intn(len(histNamed)))
	}
	switch rng.Intn(8) {
	case 0:
		e := randTerm(rng, d-1)
		return term{"(TPtr " + e.coq + ")", r.PtrTo(e.rt)}
	case 1:
		e := randTerm(rng, d-1)
		return term{"(TSlice " + e.coq + ")", r.SliceOf(e.rt)}
	case 2:
		e := randTerm(rng, d-1)
		n := rng.Intn(3)
		return term{fmt.Sprintf("(TArray %d%%Z %s)", n, e.coq), r.ArrayOf(n, e.rt)}
	case 3:
		e := randTerm(rng, d-1)
		dir := 1 + rng.Intn(3)
		return term{fmt.Sprintf("(TChan %d%%N %s)", dir, e.coq), r.ChanOf(r.ChanDir(dir), e.rt)}
	case 4:
		k := randTerm(rng, d-1)
		for !k.rt.Comparable() {
			k = randTerm(rng, 0)
		}
		e := randTerm(rng, d-1)
		return term{"(TMap " + k.coq + " " + e.coq + ")", r.MapOf(k.rt, e.rt)}
	case 5, 6:
		var ins, outs []term
		for i, n := 0, rng.Intn(3); i < n; i++ {
			ins = append(ins, randTerm(rng, d-1))
		}
		for i, n := 0, rng.Intn(3); i < n; i++ {
			outs = append(outs, randTerm(rng, d-1))
		}
		va := len(ins) > 0 && ins[len(ins)-1].rt.Kind() == r.Slice && rng.Bool()
		return term{"(TFunc " + coqTerms(ins) + " " + coqTerms(outs) + " " + vh.CoqBool(va) + ")", r.FuncOf(rts(ins), rts(outs), va)}
	default:
		n := 1 + rng.Intn(3)
		var fs []string
		var rf []r.StructField
		for i := 0; i < n; i++ {
			e := randTerm(rng, d-1)
			tag := rng.Intn(2)
			fs = append(fs, fmt.Sprintf("(%d%%N, %s)", i*2+tag, e.coq))
			rf = append(rf, r.StructField{Name: fieldNames[i], Type: e.rt, Tag: r.StructTag(fieldTags[tag])})
		}
		return term{"(TStruct [" + strings.Join(fs, ";") + "])", r.StructOf(rf)}
	}
}

func rts(ts []term) []r.Type {
	out := make([]r.Type, len(ts))
	for i, t := range ts {
		out[i] = t.rt
	}
	return out
}

type hres struct {
	t  xr.Type
	rt r.Type // reflect's own type for the denoted term
}

func (h *H) partD(rng *vh.Rng, cw *vh.Cases) {
	n := 250
	if h.a.Thorough() {
		n = 2000 // (5000 histories were 125 case files of 40, ~10 s each on the loaded machine; see main.go for the file size)
	}
	if h.a.N > 0 {
		n = h.a.N
	}
	for idx := 0; idx < n; idx++ {
		// fresh universe (own type caches) sharing the converted packages
		v := xr.NewUniverse()
		v.Packages = h.v.Packages
		v.Importer = h.v.Importer
		var res []hres
		var ops []string
		var descr []string
		nops := 6 + rng.Intn(30)
		repeated := false
		for len(ops) < nops {
			var coq string
			var t xr.Type
			var rt r.Type
			pick := func() int { return rng.Intn(len(res)) }
			kind := rng.Intn(12)
			if len(res) == 0 && kind >= 2 && kind != 11 {
				kind = rng.Intn(2)
			}
			if len(ops) > 2 && rng.Intn(4) == 0 {
				// repeat an earlier op verbatim: must return the same object
				j := rng.Intn(len(ops))
				ops = append(ops, ops[j])
				descr = append(descr, descr[j])
				var t2 xr.Type
				if e := vh.Catch(func() { t2 = h.replay(v, descr[j], res) }); e != nil || t2 == nil {
					h.fail("history: repeated op panicked", res[j].rt, descr[j], fmt.Sprint(e), nil)
					return
				}
				res = append(res, hres{t2, res[j].rt})
				repeated = true
				continue
			}
			var d string
			e := vh.Catch(func() {
				switch kind {
				case 0:
					i := rng.Intn(len(histBasics))
					coq, d = fmt.Sprintf("OBase %d%%N", int(histBasics[i])), fmt.Sprintf("base %d", i)
				case 1:
					i := rng.Intn(len(histNamed))
					coq, d = fmt.Sprintf("ONamed %d%%N", i), fmt.Sprintf("named %d", i)
				case 2:
					i := pick()
					coq, d = fmt.Sprintf("OPtr %d", i), fmt.Sprintf("ptr %d", i)
				case 3:
					i := pick()
					coq, d = fmt.Sprintf("OSlice %d", i), fmt.Sprintf("slice %d", i)
				case 4:
					i, n := pick(), rng.Intn(3)
					coq, d = fmt.Sprintf("OArray %d%%Z %d", n, i), fmt.Sprintf("array %d %d", n, i)
				case 5:
					i, dir := pick(), 1+rng.Intn(3)
					coq, d = fmt.Sprintf("OChan %d%%N %d", dir, i), fmt.Sprintf("chan %d %d", dir, i)
				case 6:
					k, e := pick(), pick()
					for tries := 0; !res[k].rt.Comparable() && tries < 20; tries++ {
						k = pick()
					}
					if !res[k].rt.Comparable() {
						return
					}
					coq, d = fmt.Sprintf("OMap %d %d", k, e), fmt.Sprintf("map %d %d", k, e)
				case 7, 8:
					var ins, outs []int
					for i, n := 0, rng.Intn(3); i < n; i++ {
						ins = append(ins, pick())
					}
					for i, n := 0, rng.Intn(3); i < n; i++ {
						outs = append(outs, pick())
					}
					va := len(ins) > 0 && res[ins[len(ins)-1]].rt.Kind() == r.Slice && rng.Bool()
					coq = fmt.Sprintf("OFunc %s %s %s", coqNats(ins), coqNats(outs), vh.CoqBool(va))
					d = fmt.Sprintf("func %v %v %v", ins, outs, va)
				case 9, 10:
					n := 1 + rng.Intn(3)
					var fs []string
					d = "struct"
					for i := 0; i < n; i++ {
						j, tag := pick(), rng.Intn(2)
						fs = append(fs, fmt.Sprintf("(%d%%N, %d)", i*2+tag, j))
						d += fmt.Sprintf(" %d:%d", i*2+tag, j)
					}
					coq = "OStruct [" + strings.Join(fs, ";") + "]"
				default:
					tm := randTerm(rng, 3)
					coq, d = "OFrom "+tm.coq, "from"
					rt = tm.rt
				}
				if coq == "" {
					return
				}
				if d == "from" {
					t = v.FromReflectType(rt)
				} else {
					t, rt = h.replay2(v, d, res)
				}
			})
			if e != nil {
				h.fail("history: op panicked", nil, d, fmt.Sprint(e), nil)
				return
			}
			if coq == "" || t == nil {
				continue
			}
			if d == "from" {
				d = "from#" + fmt.Sprint(len(res)) // replayed through the recorded reflect type
			}
			ops = append(ops, coq)
			descr = append(descr, d)
			res = append(res, hres{t, rt})
		}
		// observations + direct oracle
		var obs []string
		for i, x := range res {
			first := i
			for j := 0; j < i; j++ {
				if h.id(res[j].t) == h.id(x.t) {
					first = j
					break
				}
			}
			for j := 0; j < i; j++ {
				if (h.id(res[j].t) == h.id(x.t)) != (res[j].rt == x.rt) {
					h.nfail["history identity"]++
					if h.nfail["history identity"] <= 5 {
						h.rep.Fail(vh.Failure{Key: "history: object identity differs from type identity: " + strings.Join(descr[:i+1], "; "),
							What: "canonicity over a construction history", Input: descr[:i+1],
							Got: fmt.Sprintf("result %d and %d same object: %v", j, i, h.id(res[j].t) == h.id(x.t)), Want: fmt.Sprintf("same reflect type: %v", res[j].rt == x.rt)})
					}
				}
			}
			ok := x.t.ReflectType() == x.rt
			if !ok {
				h.fail("history: reflect type of the result differs from reflect's own constructor", x.rt, descr[i], fmt.Sprint(x.t.ReflectType()), fmt.Sprint(x.rt))
			}
			obs = append(obs, fmt.Sprintf("(%d%%Z, %s)", first, vh.CoqBool(ok)))
		}
		cw.Add(fmt.Sprintf("mkCase %d%%Z [%s] [%s]", idx, strings.Join(ops, "; "), strings.Join(obs, "; ")))
		h.rep.Count("hist:"+strings.Join(ops, ";"), repeated)
		h.rep.Dist(fmt.Sprintf("history_len:%d-%d", len(ops)/10*10, len(ops)/10*10+9))
		h.rep.CaseInput(idx, descr)
		h.stats["partD_histories"]++
		h.stats["partD_ops"] += len(ops)
	}
}

// replay2 executes the constructor op described by d on v; returns the result and reflect's own type for it
func (h *H) replay2(v *xr.Universe, d string, res []hres) (xr.Type, r.Type) {
	f := strings.Fields(d)
	atoi := func(s string) int {
		var n int
		fmt.Sscan(strings.Trim(s, "[],"), &n)
		return n
	}
	switch f[0] {
	case "base":
		rt := xr.ReflectBasicTypes[histBasics[atoi(f[1])]]
		return v.FromReflectType(rt), rt
	case "named":
		rt := histNamed[atoi(f[1])]
		return v.FromReflectType(rt), rt
	case "ptr":
		x := res[atoi(f[1])]
		return v.PtrTo(x.t), r.PtrTo(x.rt)
	case "slice":
		x := res[atoi(f[1])]
		return v.SliceOf(x.t), r.SliceOf(x.rt)
	case "array":
		n, x := atoi(f[1]), res[atoi(f[2])]
		return v.ArrayOf(n, x.t), r.ArrayOf(n, x.rt)
	case "chan":
		dir, x := r.ChanDir(atoi(f[1])), res[atoi(f[2])]
		return v.ChanOf(dir, x.t), r.ChanOf(dir, x.rt)
	case "map":
		k, e := res[atoi(f[1])], res[atoi(f[2])]
		return v.MapOf(k.t, e.t), r.MapOf(k.rt, e.rt)
	case "func":
		// func [i j] [k] va  (fmt of []int)
		s := d[len("func "):]
		parts := strings.SplitN(s, "] [", 2)
		insS := strings.Trim(parts[0], "[] ")
		rest := strings.SplitN(parts[1], "]", 2)
		outsS := strings.TrimSpace(rest[0])
		va := strings.TrimSpace(rest[1]) == "true"
		var in, out []xr.Type
		var rin, rout []r.Type
		for _, w := range strings.Fields(insS) {
			in, rin = append(in, res[atoi(w)].t), append(rin, res[atoi(w)].rt)
		}
		for _, w := range strings.Fields(outsS) {
			out, rout = append(out, res[atoi(w)].t), append(rout, res[atoi(w)].rt)
		}
		return v.FuncOf(in, out, va), r.FuncOf(rin, rout, va)
	case "struct":
		var fs []xr.StructField
		var rf []r.StructField
		for _, w := range f[1:] {
			var id, j int
			fmt.Sscanf(w, "%d:%d", &id, &j)
			fs = append(fs, xr.StructField{Name: fieldNames[id/2], Type: res[j].t, Tag: r.StructTag(fieldTags[id%2])})
			rf = append(rf, r.StructField{Name: fieldNames[id/2], Type: res[j].rt, Tag: r.StructTag(fieldTags[id%2])})
		}
		return v.StructOf(fs), r.StructOf(rf)
	}
	panic("bad op " + d)
}

func (h *H) replay(v *xr.Universe, d string, res []hres) xr.Type {
	if strings.HasPrefix(d, "from#") {
		var j int
		fmt.Sscanf(d, "from#%d", &j)
		return v.FromReflectType(res[j].rt)
	}
	t, _ := h.replay2(v, d, res)
	return t
}

package main

// Direct oracle: an xreflect.Type against the reflect.Type it was made from (reflect's own answers are the oracle).

import (
	"fmt"
	"go/ast"
	r "reflect"
	"regexp"
	"sort"
	"strings"

	"github.com/cosmos72/gomacro/go/types"
	xr "github.com/cosmos72/gomacro/xreflect"
	"verifh/vh"
)

type idkey struct{}

type pair struct {
	rt     r.Type
	t      xr.Type
	origin string
}

type H struct {
	a          *vh.Args
	rep        *vh.Report
	v          *xr.Universe
	nextID     int
	seen       map[r.Type]bool
	queue      []pair
	nfail      map[string]int
	wd         *vh.Watchdog
	stats      map[string]int
	sample     []pair // types kept for the predicate matrix
	pkgRepl    *strings.Replacer
	predSample []ty
	// part E: cases for the lookup model (Verif.C09.Model), numbered after the cases of part D
	lookupCases []string
	caseIdx     int
}

// id returns the identity of the object behind t (xreflect.Type is a func value and cannot be compared with ==;
// the per-object user data carries a tag instead).
func (h *H) id(t xr.Type) int {
	if t == nil {
		return 0
	}
	if d, ok := t.GetUserData(idkey{}); ok {
		return d.(int)
	}
	h.nextID++
	t.SetUserData(idkey{}, h.nextID)
	return h.nextID
}

func (h *H) fail(what string, rt r.Type, origin string, got, want interface{}) {
	h.nfail[what]++
	if h.nfail[what] > 6 { // keep a few per category
		return
	}
	name := "<nil>"
	if rt != nil {
		name = printR(rt)
	}
	h.rep.Fail(vh.Failure{Key: what + ": " + name, What: what, Input: map[string]string{"type": name, "reached_from": origin}, Got: got, Want: want})
}

var rePath = regexp.MustCompile(`[A-Za-z0-9_.\-]+/`)

// normString removes the documented formatting differences between reflect.Type.String and go/types' TypeString:
// package qualifier (name vs full path) and blanks around braces.
func (h *H) normString(s string) string {
	if h.pkgRepl == nil {
		var ps []string
		for p := range h.v.Packages {
			ps = append(ps, p)
		}
		sort.Slice(ps, func(i, j int) bool { return len(ps[i]) > len(ps[j]) || (len(ps[i]) == len(ps[j]) && ps[i] < ps[j]) })
		var oldnew []string
		for _, p := range ps {
			if pk := h.v.Packages[p]; pk != nil && strings.Contains(p, "/") {
				oldnew = append(oldnew, p+".", pk.Name()+".")
			}
		}
		h.pkgRepl = strings.NewReplacer(oldnew...)
	}
	s = h.pkgRepl.Replace(s)
	s = rePath.ReplaceAllString(s, "")
	s = strings.ReplaceAll(s, "interface {", "interface{")
	s = strings.ReplaceAll(s, "struct {", "struct{")
	s = strings.ReplaceAll(s, "{ ", "{")
	s = strings.ReplaceAll(s, " }", "}")
	return s
}

func (h *H) enqueue(rt r.Type, t xr.Type, origin string) {
	if rt == nil || t == nil || h.seen[rt] {
		return
	}
	h.seen[rt] = true
	if isGenericInstance(rt) {
		h.stats["skipped_generic_instances"]++
		return
	}
	h.queue = append(h.queue, pair{rt, t, origin})
}

func (h *H) drain() {
	for len(h.queue) > 0 {
		p := h.queue[0]
		h.queue = h.queue[1:]
		h.wd.Beat(printR(p.rt))
		if e := vh.Catch(func() { h.check(p.rt, p.t, p.origin) }); e != nil {
			h.fail("panic while inspecting type", p.rt, p.origin, fmt.Sprint(e), nil)
		}
	}
}

// from converts rt with the universe, catching panics
func (h *H) from(rt r.Type, origin string) xr.Type {
	var t xr.Type
	if e := vh.Catch(func() { t = h.v.FromReflectType(rt) }); e != nil {
		h.fail("FromReflectType panicked", rt, origin, fmt.Sprint(e), nil)
		return nil
	}
	return t
}

// same checks that child (obtained from the xreflect side) is the canonical object for rchild
func (h *H) same(what string, rt r.Type, rchild r.Type, child xr.Type, origin string) {
	if isGenericInstance(rchild) {
		h.stats["skipped_generic_instance_components"]++
		return
	}
	u := h.from(rchild, origin)
	if u == nil || child == nil {
		if rchild != nil {
			h.fail(what+": nil component", rt, origin, fmt.Sprint(child == nil, u == nil), nil)
		}
		return
	}
	if h.id(u) != h.id(child) {
		h.fail(what+": component is not the canonical object of its reflect type", rt, origin,
			fmt.Sprintf("%v <%v>", child, child.ReflectType()), fmt.Sprintf("%v <%v>", u, u.ReflectType()))
	}
	h.enqueue(rchild, child, printR(rt))
}

func (h *H) check(rt r.Type, t xr.Type, origin string) {
	h.stats["types"]++
	k := rt.Kind()
	h.rep.Dist("kind:" + k.String())
	named := rt.Name() != ""
	if named {
		h.rep.Dist("named")
	}
	nontrivial := k == r.Struct || k == r.Func || k == r.Interface || k == r.Map || k == r.Ptr || k == r.Slice || k == r.Array || k == r.Chan
	h.rep.Count(printR(rt), nontrivial)
	if h.stats["types"]%997 == 5 {
		h.rep.Sample(map[string]string{"type": rt.String(), "xreflect": t.String()})
	}

	// ---- kind, reflect type, size, alignment
	if t.Kind() != k {
		h.fail("Kind", rt, origin, t.Kind().String(), k.String())
		return
	}
	if t.ReflectType() != rt {
		h.fail("ReflectType() of FromReflectType(rt) differs from rt", rt, origin, fmt.Sprint(t.ReflectType()), fmt.Sprint(rt))
	}
	if t.Size() != rt.Size() || t.Align() != rt.Align() || t.FieldAlign() != rt.FieldAlign() {
		h.fail("Size/Align/FieldAlign", rt, origin, fmt.Sprint(t.Size(), t.Align(), t.FieldAlign()), fmt.Sprint(rt.Size(), rt.Align(), rt.FieldAlign()))
	}
	if t.Named() != named || t.Name() != rt.Name() || (named && k != r.UnsafePointer && t.PkgPath() != rt.PkgPath()) {
		h.fail("Name/PkgPath", rt, origin, fmt.Sprint(t.Named(), " ", t.PkgPath(), ".", t.Name()), fmt.Sprint(named, " ", rt.PkgPath(), ".", rt.Name()))
	}
	// ---- the go/types term and the reflect term denote the same type
	gt := t.GoType()
	if a, b := printG(gt), printR(rt); a != b {
		h.fail("go/types term differs from reflect term", rt, origin, a, b)
	}
	if a, b := printGU(gt), printRU(rt); a != b {
		h.fail("underlying go/types term differs from reflect structure", rt, origin, a, b)
	}
	// ---- String, modulo documented formatting; only when go/types has no parameter names to print
	if !hasParamNames(gt, 0) {
		h.stats["string_compared"]++
		if a, b := h.normString(t.String()), h.normString(rt.String()); a != b {
			h.fail("String", rt, origin, a, b)
		}
	}
	if t.Comparable() != rt.Comparable() {
		h.fail("Comparable", rt, origin, t.Comparable(), rt.Comparable())
	}
	// ---- canonicity: converting again returns the same object
	id0 := h.id(t)
	if u := h.from(rt, origin); u != nil && h.id(u) != id0 {
		h.fail("canonicity: FromReflectType twice gives two objects", rt, origin, nil, nil)
	}

	switch k {
	case r.Array:
		if t.Len() != rt.Len() {
			h.fail("Len", rt, origin, t.Len(), rt.Len())
		}
		h.same("Elem", rt, rt.Elem(), t.Elem(), origin)
		if !named {
			h.canon(rt, t, origin, func() xr.Type { return h.v.ArrayOf(rt.Len(), h.from(rt.Elem(), origin)) })
		}
	case r.Slice:
		h.same("Elem", rt, rt.Elem(), t.Elem(), origin)
		if !named {
			h.canon(rt, t, origin, func() xr.Type { return h.v.SliceOf(h.from(rt.Elem(), origin)) })
		}
	case r.Ptr:
		h.same("Elem", rt, rt.Elem(), t.Elem(), origin)
		if !named {
			h.canon(rt, t, origin, func() xr.Type { return h.v.PtrTo(h.from(rt.Elem(), origin)) })
		}
	case r.Chan:
		if t.ChanDir() != rt.ChanDir() {
			h.fail("ChanDir", rt, origin, t.ChanDir().String(), rt.ChanDir().String())
		}
		h.same("Elem", rt, rt.Elem(), t.Elem(), origin)
		if !named {
			h.canon(rt, t, origin, func() xr.Type { return h.v.ChanOf(rt.ChanDir(), h.from(rt.Elem(), origin)) })
		}
	case r.Map:
		h.same("Key", rt, rt.Key(), t.Key(), origin)
		h.same("Elem", rt, rt.Elem(), t.Elem(), origin)
		if !named {
			h.canon(rt, t, origin, func() xr.Type { return h.v.MapOf(h.from(rt.Key(), origin), h.from(rt.Elem(), origin)) })
		}
	case r.Func:
		if t.NumIn() != rt.NumIn() || t.NumOut() != rt.NumOut() || t.IsVariadic() != rt.IsVariadic() {
			h.fail("NumIn/NumOut/IsVariadic", rt, origin, fmt.Sprint(t.NumIn(), t.NumOut(), t.IsVariadic()), fmt.Sprint(rt.NumIn(), rt.NumOut(), rt.IsVariadic()))
			return
		}
		var in, out []xr.Type
		for i := 0; i < rt.NumIn(); i++ {
			h.same(fmt.Sprintf("In(%d)", i), rt, rt.In(i), t.In(i), origin)
			in = append(in, h.from(rt.In(i), origin))
		}
		for i := 0; i < rt.NumOut(); i++ {
			h.same(fmt.Sprintf("Out(%d)", i), rt, rt.Out(i), t.Out(i), origin)
			out = append(out, h.from(rt.Out(i), origin))
		}
		if !named {
			h.canon(rt, t, origin, func() xr.Type { return h.v.FuncOf(in, out, rt.IsVariadic()) })
		}
	case r.Struct:
		h.checkStruct(rt, t, origin)
	case r.Interface:
		h.checkInterface(rt, t, origin)
	}
	if named && k != r.Interface {
		h.checkMethods(rt, t, origin)
	}
	if k == r.Struct || (k == r.Ptr && rt.Elem().Kind() == r.Struct) {
		h.checkLookup(rt, t, origin)
	}
	if len(h.sample) < 4000 && (h.stats["types"]%7 == 0) {
		h.sample = append(h.sample, pair{rt, t, origin})
	}
}

// canon: building the same unnamed type from its components yields the same object
func (h *H) canon(rt r.Type, t xr.Type, origin string, build func() xr.Type) {
	var u xr.Type
	if e := vh.Catch(func() { u = build() }); e != nil {
		h.fail("constructor panicked on the components of a type made from reflect", rt, origin, fmt.Sprint(e), nil)
		return
	}
	h.stats["canon_components"]++
	if u == nil || h.id(u) != h.id(t) {
		h.fail("canonicity: constructor on the components returns a different object than FromReflectType", rt, origin,
			fmt.Sprintf("%v <%v>", u, u.ReflectType()), fmt.Sprintf("%v <%v>", t, t.ReflectType()))
	}
}

func (h *H) checkStruct(rt r.Type, t xr.Type, origin string) {
	n := rt.NumField()
	if t.NumField() != n {
		h.fail("NumField", rt, origin, t.NumField(), n)
		return
	}
	allExported := true
	var fields []xr.StructField
	for i := 0; i < n; i++ {
		rf := rt.Field(i)
		f := t.Field(i)
		fpkg := ""
		if f.Pkg != nil && !ast.IsExported(f.Name) {
			fpkg = f.Pkg.Path()
		}
		if f.Name != rf.Name || f.Offset != rf.Offset || f.Anonymous != rf.Anonymous || f.Tag != rf.Tag ||
			len(f.Index) != 1 || f.Index[0] != i || fpkg != rf.PkgPath {
			h.fail("Field name/offset/embedded/tag/index/pkg", rt, origin,
				fmt.Sprint(i, " ", f.Name, " ", f.Offset, " ", f.Anonymous, " ", f.Tag, " ", f.Index, " ", fpkg),
				fmt.Sprint(i, " ", rf.Name, " ", rf.Offset, " ", rf.Anonymous, " ", rf.Tag, " ", rf.Index, " ", rf.PkgPath))
		}
		h.same(fmt.Sprintf("Field(%d).Type", i), rt, rf.Type, f.Type, origin)
		if rf.Anonymous || rf.PkgPath != "" {
			allExported = false
		}
		fields = append(fields, xr.StructField{Name: rf.Name, Type: h.from(rf.Type, origin), Tag: rf.Tag})
	}
	// reflect.StructOf cannot make embedded or unexported fields: the constructor path is comparable only otherwise
	if rt.Name() == "" && allExported {
		h.canon(rt, t, origin, func() xr.Type { return h.v.StructOf(fields) })
	}
}

func (h *H) checkInterface(rt r.Type, t xr.Type, origin string) {
	n := rt.NumMethod()
	if t.NumMethod() != n {
		h.fail("NumMethod (interface)", rt, origin, t.NumMethod(), n)
		return
	}
	var a, b []string
	for i := 0; i < n; i++ {
		rm := rt.Method(i)
		var m xr.Method
		if e := vh.Catch(func() { m = t.Method(i) }); e != nil {
			h.fail("Method(i) panicked (interface)", rt, origin, fmt.Sprint(e), nil)
			return
		}
		b = append(b, fieldName(rm.Name, rm.PkgPath)+" "+printRFunc(rm.Type, 0))
		sig := "?"
		if m.GoFun != nil {
			sig = printGSig(m.GoFun.Type().(*types.Signature), false)
		}
		mp := ""
		if m.Pkg != nil {
			mp = m.Pkg.Path()
		}
		a = append(a, fieldName(m.Name, mp)+" "+sig)
		// the method type carries the interface as receiver (first parameter)
		if m.Type != nil && ast.IsExported(rm.Name) {
			if m.Type.NumIn() != rm.Type.NumIn()+1 || m.Type.NumOut() != rm.Type.NumOut() || m.Type.IsVariadic() != rm.Type.IsVariadic() {
				h.fail("interface method type arity", rt, origin, fmt.Sprint(m.Name, m.Type), fmt.Sprint(rm.Type))
			}
			for j := 0; j < rm.Type.NumIn(); j++ {
				h.enqueue(rm.Type.In(j), h.from(rm.Type.In(j), origin), printR(rt))
			}
			for j := 0; j < rm.Type.NumOut(); j++ {
				h.enqueue(rm.Type.Out(j), h.from(rm.Type.Out(j), origin), printR(rt))
			}
		}
	}
	// same order too: both sides sort interface methods (exported names first in neither)
	if strings.Join(a, ";") != strings.Join(b, ";") {
		sa, sb := append([]string(nil), a...), append([]string(nil), b...)
		sort.Strings(sa)
		sort.Strings(sb)
		if strings.Join(sa, ";") != strings.Join(sb, ";") {
			h.fail("interface method set", rt, origin, a, b)
		} else {
			h.stats["interface_method_order_differs"]++
		}
	}
	for i := 0; i < n; i++ {
		rm := rt.Method(i)
		for rep := 0; rep < 2; rep++ { // second call is answered by the cache
			m, cnt := t.MethodByName(rm.Name, rm.PkgPath)
			if cnt != 1 || m.Name != rm.Name {
				h.fail("MethodByName (interface)", rt, origin, fmt.Sprint(rm.Name, " count=", cnt, " rep=", rep), 1)
			}
		}
	}
}

// checkMethods: named non-interface type.  xreflect lists the explicitly declared methods (value and pointer receiver,
// exported and unexported); reflect lists the exported method set (including promoted methods).
func (h *H) checkMethods(rt r.Type, t xr.Type, origin string) {
	if rt.Kind() == r.Ptr {
		return
	}
	pt := r.PtrTo(rt)
	n := t.NumMethod()
	declared := map[string]bool{}
	for i := 0; i < n; i++ {
		var m xr.Method
		if e := vh.Catch(func() { m = t.Method(i) }); e != nil {
			h.fail("Method(i) panicked", rt, origin, fmt.Sprint(i, " ", e), nil)
			return
		}
		if !ast.IsExported(m.Name) {
			continue
		}
		declared[m.Name] = true
		rm, ok := pt.MethodByName(m.Name)
		if !ok {
			h.fail("explicit exported method unknown to reflect", rt, origin, m.Name, nil)
			continue
		}
		// receiver kind: pointer receiver <=> not in the value method set
		sig := m.GoFun.Type().(*types.Signature)
		_, isPtr := sig.Recv().Type().(*types.Pointer)
		_, inValue := rt.MethodByName(m.Name)
		if rt.Kind() != r.Interface && isPtr == inValue {
			h.fail("method receiver kind vs reflect value method set", rt, origin, fmt.Sprint(m.Name, " ptrRecv=", isPtr), fmt.Sprint("inValueSet=", inValue))
		}
		want := printRFunc(rm.Type, 1)
		if got := printGSig(sig, false); got != want {
			h.fail("method signature", rt, origin, m.Name+" "+got, want)
		}
		if m.Type != nil {
			if m.Type.NumIn() != rm.Type.NumIn() || m.Type.NumOut() != rm.Type.NumOut() || m.Type.IsVariadic() != rm.Type.IsVariadic() {
				h.fail("method type arity", rt, origin, fmt.Sprint(m.Name, " ", m.Type), fmt.Sprint(rm.Type))
			}
		}
		for j := 1; j < rm.Type.NumIn(); j++ {
			h.enqueue(rm.Type.In(j), h.from(rm.Type.In(j), origin), printR(rt))
		}
		for j := 0; j < rm.Type.NumOut(); j++ {
			h.enqueue(rm.Type.Out(j), h.from(rm.Type.Out(j), origin), printR(rt))
		}
	}
	// every method of reflect's exported method set of *T is found by name exactly once (declared or promoted)
	for i := 0; i < pt.NumMethod(); i++ {
		rm := pt.Method(i)
		h.stats["methods_looked_up"]++
		for rep := 0; rep < 2; rep++ {
			var m xr.Method
			var cnt int
			if e := vh.Catch(func() { m, cnt = t.MethodByName(rm.Name, "") }); e != nil {
				h.fail("MethodByName panicked", rt, origin, fmt.Sprint(rm.Name, " ", e), nil)
				break
			}
			if cnt != 1 || m.Name != rm.Name {
				h.fail("MethodByName: method of reflect's method set not found exactly once", rt, origin, fmt.Sprint(rm.Name, " count=", cnt, " rep=", rep), 1)
				break
			}
			if len(m.FieldIndex) == 0 != declared[rm.Name] {
				h.fail("MethodByName: declared vs promoted", rt, origin, fmt.Sprint(rm.Name, " FieldIndex=", m.FieldIndex), fmt.Sprint("declared=", declared[rm.Name]))
				break
			}
		}
	}
	// a name that reflect does not know is not found (exported names only: reflect hides unexported methods)
	for _, name := range []string{"NoSuchMethodXyz", "String_", "Zz"} {
		if _, ok := pt.MethodByName(name); ok {
			continue
		}
		if _, cnt := t.MethodByName(name, ""); cnt != 0 {
			h.fail("MethodByName finds a method reflect does not have", rt, origin, fmt.Sprint(name, " count=", cnt), 0)
		}
	}
}

// all (possibly promoted) field names of a struct type, to any depth
func collectFieldNames(rt r.Type, depth int, seen map[r.Type]bool, out map[[2]string]bool) {
	if rt.Kind() == r.Ptr {
		rt = rt.Elem()
	}
	if rt.Kind() != r.Struct || seen[rt] || depth > 6 {
		return
	}
	seen[rt] = true
	for i := 0; i < rt.NumField(); i++ {
		f := rt.Field(i)
		out[[2]string{f.Name, f.PkgPath}] = true
		if f.Anonymous {
			collectFieldNames(f.Type, depth+1, seen, out)
		}
	}
}

// checkLookup: FieldByName (twice: the second answer comes from the cache) against reflect.Type.FieldByName
func (h *H) checkLookup(rt r.Type, t xr.Type, origin string) {
	st := rt
	if st.Kind() == r.Ptr {
		st = st.Elem()
	}
	if st.Kind() != r.Struct || t.Kind() != r.Struct {
		return // xreflect.FieldByName is defined on struct types only
	}
	names := map[[2]string]bool{}
	collectFieldNames(st, 0, map[r.Type]bool{}, names)
	names[[2]string{"NoSuchFieldXyz", ""}] = true
	var keys [][2]string
	for k := range names {
		keys = append(keys, k)
	}
	sort.Slice(keys, func(i, j int) bool { return keys[i][0]+"\x00"+keys[i][1] < keys[j][0]+"\x00"+keys[j][1] })
	for _, nk := range keys {
		name, pkg := nk[0], nk[1]
		if name == "_" {
			continue
		}
		// reflect.FieldByName matches by name only; restrict to names that are unambiguous across packages
		rf, ok := st.FieldByNameFunc(func(s string) bool { return s == name })
		if ok && rf.PkgPath != pkg {
			continue
		}
		h.stats["fields_looked_up"]++
		for rep := 0; rep < 2; rep++ {
			var f xr.StructField
			var cnt int
			if e := vh.Catch(func() { f, cnt = t.FieldByName(name, pkg) }); e != nil {
				h.fail("FieldByName panicked", rt, origin, fmt.Sprint(name, " ", e), nil)
				break
			}
			if ok != (cnt == 1) {
				h.fail("FieldByName found/ambiguous", rt, origin, fmt.Sprint(name, " count=", cnt, " rep=", rep), fmt.Sprint("reflect ok=", ok))
				break
			}
			if !ok {
				continue
			}
			if f.Name != rf.Name || fmt.Sprint(f.Index) != fmt.Sprint(rf.Index) || f.Anonymous != rf.Anonymous {
				h.fail("FieldByName name/index/embedded", rt, origin, fmt.Sprint(name, " ", f.Name, f.Index, f.Anonymous, " rep=", rep), fmt.Sprint(rf.Name, rf.Index, rf.Anonymous))
				break
			}
			if len(rf.Index) == 1 && f.Offset != rf.Offset {
				h.fail("FieldByName offset", rt, origin, fmt.Sprint(name, " ", f.Offset), rf.Offset)
				break
			}
			if isGenericInstance(rf.Type) {
				continue
			}
			if u := h.from(rf.Type, origin); u != nil && f.Type != nil && h.id(u) != h.id(f.Type) {
				h.fail("FieldByName type is not the canonical object", rt, origin, fmt.Sprint(name, " ", f.Type), fmt.Sprint(u))
				break
			}
		}
	}
}

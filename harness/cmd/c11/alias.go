// c11, value semantics of the conversion interpreted value -> compiled interface (the closure returned by
// fast.Comp.converterToProxy + xreflect.MakeInterfaceHeader): every EXECUTION of a conversion yields its own interface
// value holding a COPY of the converted value, exactly as in compiled Go.
//
// Two PRNG program families, both compared with the same program compiled by go build:
//
//	aliasProg: a pool of addressable places of interpreted types (struct / array variables, slice elements, struct fields,
//	  pointees) and a pool of compiled-interface variables (fmt.Stringer, error, sort.Interface, []fmt.Stringer, []error);
//	  a random sequence of  convert (assignment, explicit conversion, return of a helper called several times, append
//	  inside a loop over a slice) / mutate the original place / use the interface (compiled helper, method call through
//	  the interface, type assertion back);
//	multiSite: ONE conversion site (return statement of a constructor, append argument / map store / channel send inside a
//	  loop) executed 2..4 times with different values, all results kept alive and used afterwards (io.MultiReader over
//	  collected readers, errors compared and printed, two sort.Interface / heap.Interface values from one constructor).
//
// Avoided classes (recorded findings): fmt verbs applied by compiled code to a fmt.Stringer proxy of a type that ALSO has an
// Error method (the proxy carries only the methods of its interface: class of known finding C11-2) - Stringers are read
// with s.String() only; type assertion from one compiled interface to another (e.(fmt.Stringer)) and conversion of an
// interpreted-interface value to a compiled interface (proposed known findings C11-4, C11-5).
package main

import (
	"fmt"
	"sort"
	"strconv"
	"strings"

	"github.com/cosmos72/gomacro/fast"
	"verifh/vh"
)

const aliasHelperSrc = `
func joinStringers(ss []fmt.Stringer) string {
	out := ""
	for _, s := range ss {
		out += s.String() + "/" + strconv.Itoa(len(s.String())) + ","
	}
	return out
}
func strOf(s fmt.Stringer) string { return s.String() + "#" + strconv.Itoa(len(s.String())) }
func joinErrors(es []error) string {
	out := ""
	for _, e := range es {
		out += e.Error() + fmt.Sprintf("/%v,", e)
	}
	return out
}
func sortedState(q sort.Interface) string { return fmt.Sprint(q.Len(), sort.IsSorted(q), q.Len() > 1 && q.Less(0, 1)) }
`

func joinStringers(ss []fmt.Stringer) string {
	out := ""
	for _, s := range ss {
		out += s.String() + "/" + strconv.Itoa(len(s.String())) + ","
	}
	return out
}
func strOf(s fmt.Stringer) string { return s.String() + "#" + strconv.Itoa(len(s.String())) }
func joinErrors(es []error) string {
	out := ""
	for _, e := range es {
		out += e.Error() + fmt.Sprintf("/%v,", e)
	}
	return out
}
func sortedState(q sort.Interface) string {
	return fmt.Sprint(q.Len(), sort.IsSorted(q), q.Len() > 1 && q.Less(0, 1))
}

func (g *gen) sLit() string {
	return fmt.Sprintf("S_%s{%d, %s}", g.k, g.r.Intn(90), strconv.Quote(string(rune('a'+g.r.Intn(26)))))
}
func (g *gen) aLit() string {
	return fmt.Sprintf("A_%s{%d, %d, %d}", g.k, g.r.Intn(9), g.r.Intn(9), g.r.Intn(9))
}

func (g *gen) aliasProg() prog {
	k := g.k
	decl := strings.ReplaceAll(`type S_K struct { A int; B string }
func (s S_K) String() string { return "S<" + strconv.Itoa(s.A) + "," + s.B + ">" }
func (s S_K) Error() string { return "E" + strconv.Itoa(s.A) + s.B }
type A_K [3]int
func (a A_K) String() string { return fmt.Sprint("A", a[0], a[1], a[2]) }
func (a A_K) Len() int { return len(a) }
func (a A_K) Less(i, j int) bool { return a[i] < a[j] }
func (a A_K) Swap(i, j int) { a[i], a[j] = a[j], a[i] }
type H_K struct { In S_K; Arr A_K }
func toStr_K(x S_K) fmt.Stringer { return x }
func toErr_K(x S_K) error { return x }
func arrStr_K(x A_K) fmt.Stringer { return x }
func mkS_K(a int, b string) S_K { return S_K{a, b} }
`, "K", k)
	var b strings.Builder
	w := func(f string, a ...interface{}) { fmt.Fprintf(&b, f+"\n", a...) }
	w("s0, s1 := %s, %s", g.sLit(), g.sLit())
	w("a0 := %s", g.aLit())
	w("ss := []S_%s{%s, %s, %s}", k, g.sLit(), g.sLit(), g.sLit())
	w("h := H_%s{%s, %s}", k, g.sLit(), g.aLit())
	w("ps := &s1")
	w("var i0, i1, i2 fmt.Stringer = %s, %s, %s", g.sLit(), g.aLit(), g.sLit())
	w("var e0, e1 error = %s, %s", g.sLit(), g.sLit())
	w("var q0 sort.Interface = %s", g.aLit())
	w("var ifs []fmt.Stringer\nvar ers []error")
	sPlaces := []string{"s0", "s1", "ss[0]", "ss[1]", "ss[2]", "h.In", "*ps"}
	aPlaces := []string{"a0", "h.Arr"}
	iv := func() string { return fmt.Sprintf("i%d", g.r.Intn(3)) }
	ev := func() string { return fmt.Sprintf("e%d", g.r.Intn(2)) }
	pick := func(xs []string) string { return xs[g.r.Intn(len(xs))] }
	convS := func() { // a struct value -> fmt.Stringer / error
		src := pick(sPlaces)
		switch g.r.Intn(12) {
		case 0:
			src = "&" + strings.TrimPrefix(src, "*") // a pointer: aliasing is what Go does too
			if strings.HasPrefix(src, "&ps") {
				src = "ps"
			}
		case 1:
			src = fmt.Sprintf("mkS_%s(%d, \"m\")", k, g.r.Intn(90)) // not addressable
		}
		ptr := strings.HasPrefix(src, "&") || src == "ps"
		switch x := g.r.Intn(9); {
		case x < 2:
			w("%s = %s", iv(), src)
		case x == 2:
			w("%s = fmt.Stringer(%s)", iv(), src)
		case x == 3 && !ptr:
			w("%s = toStr_%s(%s)", iv(), k, src)
		case x == 4:
			w("%s = %s", ev(), src)
		case x == 5 && !ptr:
			w("%s = toErr_%s(%s)", ev(), k, src)
		case x == 6:
			w("ifs = append(ifs, %s)", src)
		case x == 7:
			w("ers = append(ers, %s)", src)
		default:
			w("%s = error(%s)", ev(), src)
		}
	}
	convA := func() { // an array value -> fmt.Stringer / sort.Interface
		src := pick(aPlaces)
		switch g.r.Intn(5) {
		case 0:
			w("%s = %s", iv(), src)
		case 1:
			w("%s = arrStr_%s(%s)", iv(), k, src)
		case 2:
			w("ifs = append(ifs, %s)", src)
		case 3:
			w("q0 = sort.Interface(%s)", src)
		default:
			w("q0 = %s", src)
		}
	}
	loopConv := func() { // one site, several executions, addressable operands
		switch g.r.Intn(5) {
		case 0:
			w("for j := range ss { ifs = append(ifs, ss[j]) }")
		case 1:
			w("for _, v := range ss { ifs = append(ifs, v) }")
		case 2:
			w("for j := range ss { ers = append(ers, toErr_%s(ss[j])) }", k)
		case 3:
			w("for j := 0; j < 2; j++ { ifs = append(ifs, toStr_%s(ss[j+1])) }", k)
		default:
			w("for j := 0; j < 3; j++ { a0[0] = j; ifs = append(ifs, a0) }")
		}
	}
	mutate := func() {
		n := g.r.Intn(90) + 100
		switch g.r.Intn(12) {
		case 0, 1:
			w("%s.A = %d", strings.TrimPrefix(pick(sPlaces), "*"), n)
		case 2:
			w("%s.B = \"z%d\"", strings.TrimPrefix(pick(sPlaces), "*"), n)
		case 3:
			w("%s = %s", pick(sPlaces), g.sLit())
		case 4:
			w("%s.A++", strings.TrimPrefix(pick(sPlaces), "*"))
		case 5, 6:
			w("%s[%d] = %d", pick(aPlaces), g.r.Intn(3), n)
		case 7:
			w("%s = %s", pick(aPlaces), g.aLit())
		case 8:
			w("for j := range ss { ss[j].A += %d }", n)
		case 9:
			w("s0, s1 = s1, s0")
		case 10:
			w("h = H_%s{%s, %s}", k, g.sLit(), g.aLit())
		default:
			w("ps.B += \"!\"")
		}
	}
	use := func() {
		switch g.r.Intn(11) {
		case 0, 1:
			w("out += strOf(%s) + \";\"", iv())
		case 2:
			w("out += %s.String() + \";\"", iv())
		case 3:
			w("out += callError(%s) + \";\"", ev())
		case 4:
			w("out += %s.Error() + \";\"", ev())
		case 5:
			w("out += sortedState(q0) + fmt.Sprint(sort.IsSorted(q0), q0.Less(0, 2)) + \";\"")
		case 6:
			w("out += joinStringers(ifs) + \";\"")
		case 7:
			w("out += joinErrors(ers) + \";\"")
		case 8:
			w("if v, ok := %s.(S_%s); ok { out += \"is\" + strconv.Itoa(v.A) + v.B + \";\" }", iv(), k)
		case 9:
			w("if v, ok := %s.(A_%s); ok { out += fmt.Sprint(\"ia\", v[0], v[1], v[2], \";\") }", iv(), k)
		default:
			w("if v, ok := %s.(S_%s); ok { out += \"es\" + strconv.Itoa(v.A) + v.B + \";\" }", ev(), k)
		}
	}
	nconv := 0
	for n := 6 + g.r.Intn(10); n > 0; n-- {
		switch x := g.r.Intn(10); {
		case x < 2:
			convS()
			nconv++
		case x == 2:
			convA()
			nconv++
		case x == 3:
			loopConv()
			nconv++
		case x < 7 && nconv > 0:
			mutate()
		default:
			use()
		}
	}
	// every interface value is used at the end, after all mutations
	w("out += strOf(i0) + strOf(i1) + strOf(i2) + callError(e0) + callError(e1) + sortedState(q0) + joinStringers(ifs) + joinErrors(ers)")
	w("out += fmt.Sprint(s0.A, s0.B, s1.A, s1.B, a0[0], a0[1], a0[2], ss[0].A, ss[1].A, ss[2].A, h.In.A, h.Arr[0], ps.A)")
	return prog{Kind: "value-semantics/convert-mutate-use", Decls: decl, Body: b.String()}
}

func (g *gen) words(n int) []string {
	ws := make([]string, n)
	for i := range ws {
		ws[i] = g.word() + string(rune('a'+i))
	}
	return ws
}

func quoteAll(ws []string) string {
	q := make([]string, len(ws))
	for i, s := range ws {
		q[i] = strconv.Quote(s)
	}
	return strings.Join(q, ", ")
}

func (g *gen) multiSite() prog {
	k := g.k
	n := 2 + g.r.Intn(3)
	ptr := g.r.Bool()
	amp := ""
	if ptr {
		amp = "&"
	}
	switch g.r.Intn(7) {
	case 0: // errors from one constructor, kept and compared
		recv := "e E_" + k
		if ptr && g.r.Bool() {
			recv = "e *E_" + k
		}
		decl := fmt.Sprintf("type E_%s struct { N int; S string }\nfunc (%s) Error() string { return \"E\" + strconv.Itoa(e.N) + e.S }\nfunc newErr_%s(n int, s string) error { return %sE_%s{n, s} }\n", k, recv, k, amp, k)
		body := fmt.Sprintf("var es []error\nfor i, s := range []string{%s} { es = append(es, newErr_%s(i+%d, s)) }\n", quoteAll(g.words(n)), k, g.r.Intn(50))
		body += "out = joinErrors(es) + callError(es[0]) + es[len(es)-1].Error() + fmt.Sprint(es[0] == es[1], es[0] == es[0], errors.Is(es[1], es[1]), errors.Is(es[0], es[1]))"
		return prog{Kind: "same-site/constructor-errors", Decls: decl, Body: body}
	case 1: // readers collected in a loop
		decl := fmt.Sprintf(`type R_%s struct { data []byte; chunk int }
func (r *R_%s) Read(p []byte) (int, error) {
	if len(r.data) == 0 { return 0, io.EOF }
	n := r.chunk
	if n > len(p) { n = len(p) }
	if n > len(r.data) { n = len(r.data) }
	copy(p, r.data[:n])
	r.data = r.data[n:]
	return n, nil
}
func newR_%s(s string, c int) io.Reader { return &R_%s{[]byte(s), c} }
`, k, k, k, k)
		mk := fmt.Sprintf("&R_%s{[]byte(w + \" \"), %d}", k, 1+g.r.Intn(4))
		if g.r.Bool() {
			mk = fmt.Sprintf("newR_%s(w + \" \", %d)", k, 1+g.r.Intn(4))
		}
		body := fmt.Sprintf("var rs []io.Reader\nfor _, w := range []string{%s} { rs = append(rs, %s) }\nb, err := ioutil.ReadAll(io.MultiReader(rs...))\nout = fmt.Sprint(string(b), err, len(rs))", quoteAll(g.words(n)), mk)
		if g.r.Bool() {
			body += "\nb2, err2 := ioutil.ReadAll(rs[0])\nout += fmt.Sprint(len(b2), err2)"
		}
		return prog{Kind: "same-site/loop-readers", Decls: decl, Body: body}
	case 2: // two sort.Interface values from one helper
		decl := fmt.Sprintf("type By_%s []int\nfunc (b By_%s) Len() int { return len(b) }\nfunc (b By_%s) Less(i, j int) bool { return %s }\nfunc (b By_%s) Swap(i, j int) { b[i], b[j] = b[j], b[i] }\nfunc by_%s(v []int) sort.Interface { return By_%s(v) }\n",
			k, k, k, g.less("b[i]", "b[j]"), k, k, k)
		body := fmt.Sprintf("xs, ys, zs := %s, %s, %s\nx, y, z := by_%s(xs), by_%s(ys), by_%s(zs)\nsort.Sort(x)\nsort.Sort(sort.Reverse(y))\nsort.Stable(z)\nout = fmt.Sprint(xs, ys, zs, x.Len(), y.Len(), z.Len(), sort.IsSorted(x), sort.IsSorted(z))",
			g.ints(2+g.r.Intn(8)), g.ints(2+g.r.Intn(8)), g.ints(g.r.Intn(5)), k, k, k)
		return prog{Kind: "same-site/constructor-sort.Interface", Decls: decl, Body: body}
	case 3: // two heaps from one constructor
		decl := fmt.Sprintf(`type H_%s []int
func (h H_%s) Len() int { return len(h) }
func (h H_%s) Less(i, j int) bool { return %s }
func (h H_%s) Swap(i, j int) { h[i], h[j] = h[j], h[i] }
func (h *H_%s) Push(x interface{}) { *h = append(*h, x.(int)) }
func (h *H_%s) Pop() interface{} { old := *h; n := len(old); x := old[n-1]; *h = old[:n-1]; return x }
func newHeap_%s(v []int) heap.Interface { h := H_%s(v); heap.Init(&h); return &h }
`, k, k, k, g.less("h[i]", "h[j]"), k, k, k, k, k)
		body := fmt.Sprintf("h1, h2 := newHeap_%s(%s), newHeap_%s(%s)\n", k, g.ints(1+g.r.Intn(6)), k, g.ints(1+g.r.Intn(6)))
		for i := 0; i < 3+g.r.Intn(4); i++ {
			h := []string{"h1", "h2"}[g.r.Intn(2)]
			if g.r.Bool() {
				body += fmt.Sprintf("heap.Push(%s, %d)\n", h, g.r.Intn(41)-20)
			} else {
				body += fmt.Sprintf("if %s.Len() > 0 { out += fmt.Sprint(heap.Pop(%s).(int), \" \") }\n", h, h)
			}
		}
		body += "out += fmt.Sprint(h1.Len(), h2.Len())\nfor h1.Len() > 0 { out += fmt.Sprint(\" a\", heap.Pop(h1).(int)) }\nfor h2.Len() > 0 { out += fmt.Sprint(\" b\", heap.Pop(h2).(int)) }"
		return prog{Kind: "same-site/constructor-heap.Interface", Decls: decl, Body: body}
	case 4: // map store in a loop
		decl := fmt.Sprintf("type T_%s struct { A int; B string }\nfunc (t T_%s) String() string { return \"T<\" + strconv.Itoa(t.A) + \",\" + t.B + \">\" }\n", k, k)
		body := fmt.Sprintf("m := map[string]fmt.Stringer{}\nks := []string{%s}\nfor i, w := range ks { m[w] = %sT_%s{i, w} }\nfor _, w := range ks { out += callString(m[w]) + m[w].String() }", quoteAll(g.words(n)), amp, k)
		return prog{Kind: "same-site/loop-map-store", Decls: decl, Body: body}
	case 5: // channel send in a loop
		decl := fmt.Sprintf("type E_%s struct { N int }\nfunc (e E_%s) Error() string { return \"E\" + strconv.Itoa(e.N) }\n", k, k)
		body := fmt.Sprintf("ch := make(chan error, %d)\nfor i := 0; i < %d; i++ { ch <- %sE_%s{i * %d} }\nclose(ch)\nfor e := range ch { out += callError(e) + \";\" }", n, n, amp, k, 1+g.r.Intn(9))
		return prog{Kind: "same-site/loop-channel-send", Decls: decl, Body: body}
	default: // closure called repeatedly, results in a fixed-size array and a struct field
		decl := fmt.Sprintf("type T_%s struct { A int; B string }\nfunc (t T_%s) String() string { return \"T<\" + strconv.Itoa(t.A) + \",\" + t.B + \">\" }\ntype Box_%s struct { S fmt.Stringer; N int }\n", k, k, k)
		body := fmt.Sprintf("mk := func(a int, b string) fmt.Stringer { return %sT_%s{a, b} }\nvar arr [%d]fmt.Stringer\nvar boxes []Box_%s\nfor i := range arr { arr[i] = mk(i+%d, \"q\"); boxes = append(boxes, Box_%s{mk(i*7, \"r\"), i}) }\nout = joinStringers(arr[:])\nfor _, b := range boxes { out += callString(b.S) + strconv.Itoa(b.N) }",
			amp, k, n, k, g.r.Intn(30), k)
		return prog{Kind: "same-site/closure-results-kept", Decls: decl, Body: body}
	}
}

// ---------- correspondence for coq/C11/Model.v crun/cread (conversion closure) ----------
// One conversion site inside a loop is executed once per CConv operation on an addressable operand (vs[i]); CSet operations
// assign to the variables in between; at the end every interface value produced is read by calling its method.
// Direct oracle: the same operation list executed natively (compiled Go) on a native type.

type nativeC struct{ A int }

func (c nativeC) String() string { return strconv.Itoa(c.A) }
func (c nativeC) Error() string  { return strconv.Itoa(c.A) }

func nativeConvRun(vars []int, ops [][3]int) []string {
	vs := make([]nativeC, len(vars))
	for i, v := range vars {
		vs[i].A = v
	}
	var outs []fmt.Stringer
	for _, o := range ops {
		if o[0] == 0 {
			var s fmt.Stringer = vs[o[1]]
			outs = append(outs, s)
		} else {
			vs[o[1]].A = o[2]
		}
	}
	var res []string
	for _, s := range outs {
		res = append(res, s.String())
	}
	return res
}

func convCases(cw *vh.Cases, rep *vh.Report, ir *fast.Interp, rng *vh.Rng, n int) {
	for c := 0; c < n; c++ {
		k := fmt.Sprintf("cv%d", c)
		nv := 1 + rng.Intn(3)
		vars := make([]int, nv)
		var cvars []string
		for i := range vars {
			vars[i] = rng.Intn(50)
			cvars = append(cvars, strconv.Itoa(vars[i]))
		}
		var ops [][3]int
		var cops, gops []string
		nconv := 0
		for i := 2 + rng.Intn(8); i > 0; i-- {
			x := rng.Intn(nv)
			if rng.Intn(5) < 3 {
				ops = append(ops, [3]int{0, x, 0})
				cops = append(cops, fmt.Sprintf("CConv %d", x))
				nconv++
			} else {
				v := 100 + rng.Intn(900)
				ops = append(ops, [3]int{1, x, v})
				cops = append(cops, fmt.Sprintf("CSet %d %d", x, v))
			}
			gops = append(gops, fmt.Sprintf("{%d, %d, %d}", ops[len(ops)-1][0], ops[len(ops)-1][1], ops[len(ops)-1][2]))
		}
		iface, meth := "fmt.Stringer", "String"
		if rng.Intn(3) == 0 {
			iface, meth = "error", "Error"
		}
		site := []string{
			"var s " + iface + " = vs[o[1]]\n\t\t\touts = append(outs, s)",
			"s := " + iface + "(vs[o[1]])\n\t\t\touts = append(outs, s)",
			"outs = append(outs, to_" + k + "(&vs[o[1]]))",
			"outs = append(outs, nil)\n\t\t\touts[len(outs)-1] = vs[o[1]]",
		}[rng.Intn(4)]
		src := fmt.Sprintf(`type C_%s struct{ A int }
func (c C_%s) %s() string { return strconv.Itoa(c.A) }
func to_%s(p *C_%s) %s { return *p }
func run_%s() string {
	vs := make([]C_%s, %d)
	for i, v := range []int{%s} { vs[i].A = v }
	var outs []%s
	for _, o := range [][3]int{%s} {
		if o[0] == 0 {
			%s
		} else {
			vs[o[1]].A = o[2]
		}
	}
	res := ""
	for _, s := range outs { res += s.%s() + "," }
	return res
}
`, k, k, meth, k, k, iface, k, k, nv, strings.Join(cvars, ", "), iface, strings.Join(gops, ", "), site, meth)
		input := map[string]interface{}{"source": src, "call": "run_" + k + "()"}
		var got string
		perr := vh.Catch(func() {
			ir.Eval(src)
			v, _ := ir.Eval1("run_" + k + "()")
			got = v.ReflectValue().String()
		})
		want := nativeConvRun(vars, ops)
		idx := 200000 + c
		obs := []string{}
		if perr != nil {
			rep.Fail(vh.Failure{Key: "c11:conv:" + src, What: "conversion-site program fails in the interpreter", Input: input, Got: fmt.Sprint(perr), Want: want})
			got = "999999," // the case is still written: the model will not agree either
		}
		for _, f := range strings.Split(strings.TrimSuffix(got, ","), ",") {
			if f != "" {
				if _, err := strconv.ParseUint(f, 10, 32); err != nil {
					f = "999999"
				}
				obs = append(obs, f)
			}
		}
		if perr == nil && strings.Join(obs, ",") != strings.Join(want, ",") {
			rep.Fail(vh.Failure{Key: "c11:conv:" + src, What: "interface values produced by one conversion site do not hold the values converted (compiled Go: each conversion copies the value into its own interface value)", Input: input, Got: obs, Want: want})
		}
		cw.Add(fmt.Sprintf("XC (mkCCase %d %s %s %s)", idx, vh.CoqList(cvars, "N"), vh.CoqList(cops, "cop"), vh.CoqList(obs, "N")))
		rep.CaseInput(idx, input)
		rep.Count("conv|"+src, nconv >= 2)
		rep.Dist("conversion-site:" + iface)
	}
}

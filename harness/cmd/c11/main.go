// c11: interop of interpreted functions / types with compiled code.
//
// (1) direct oracle: PRNG-generated programs route interpreted closures and interpreted types (converted to compiled
//
//	interfaces: sort.Interface, heap.Interface, io.Reader, io.Writer, fmt.Stringer, error) through compiled standard
//	library entry points and compiled helpers, including callbacks invoked from goroutines the interpreter did not start
//	(time.AfterFunc, a compiled parallelMap); every program is also compiled with `go build` (one batched module,
//	go 1.18) and the printed results are compared.
//
// (2) correspondence for coq/C11/Model.v (fill): interpreted types are converted to compiled interfaces and every field
//
//	of the resulting proxy struct is called to see WHICH interpreted method was stored there; cases*.v.
package main

import (
	"crypto/sha256"
	"encoding/hex"
	"encoding/json"
	"fmt"
	"io"
	"os"
	"os/exec"
	"path/filepath"
	"reflect"
	"sort"
	"strconv"
	"strings"
	"sync"
	"time"

	"github.com/cosmos72/gomacro/fast"
	"github.com/cosmos72/gomacro/imports"
	"verifh/c31core"
	"verifh/vh"
)

// ---------- compiled helpers: the same source is pasted into the oracle program ----------
const helperSrc = `
func parallelMap(f func(int) int, xs []int) []int {
	out := make([]int, len(xs))
	var wg sync.WaitGroup
	for i := range xs {
		wg.Add(1)
		go func(i int) { defer wg.Done(); out[i] = f(xs[i]) }(i)
	}
	wg.Wait()
	return out
}
func callString(s fmt.Stringer) string { return fmt.Sprintf("%v|%s|%d", s, s, len(s.String())) }
func callError(e error) string       { return fmt.Sprint(e) + "|" + e.Error() + "|" + fmt.Sprintf("%v", fmt.Errorf("w: %w", e)) }
func applyN(f func(string) string, s string, n int) string {
	for i := 0; i < n; i++ {
		s = f(s)
	}
	return s
}
func inGoroutine(f func() string) string {
	ch := make(chan string)
	go func() { ch <- f() }()
	return <-ch
}
`

func parallelMap(f func(int) int, xs []int) []int {
	out := make([]int, len(xs))
	var wg sync.WaitGroup
	for i := range xs {
		wg.Add(1)
		go func(i int) { defer wg.Done(); out[i] = f(xs[i]) }(i)
	}
	wg.Wait()
	return out
}
func callString(s fmt.Stringer) string { return fmt.Sprintf("%v|%s|%d", s, s, len(s.String())) }
func callError(e error) string {
	return fmt.Sprint(e) + "|" + e.Error() + "|" + fmt.Sprintf("%v", fmt.Errorf("w: %w", e))
}
func applyN(f func(string) string, s string, n int) string {
	for i := 0; i < n; i++ {
		s = f(s)
	}
	return s
}
func inGoroutine(f func() string) string {
	ch := make(chan string)
	go func() { ch <- f() }()
	return <-ch
}

const importSrc = `import (
	"bufio"
	"bytes"
	"container/heap"
	"errors"
	"fmt"
	"io"
	"io/ioutil"
	"math"
	"sort"
	"strconv"
	"strings"
	"sync"
	"time"
)`

type prog struct {
	Name  string `json:"name"`
	Kind  string `json:"kind"`
	Key   string `json:"key,omitempty"`
	Decls string `json:"decls"`
	Body  string `json:"body"`
}

func (p prog) funcSrc() string {
	return fmt.Sprintf("%s\nfunc run_%s() (out string) {\n%s\nreturn\n}\n", p.Decls, p.Name, p.Body)
}

// ---------- generators ----------
type gen struct {
	r *vh.Rng
	k string
}

func (g *gen) ints(n int) string {
	var s []string
	for i := 0; i < n; i++ {
		s = append(s, strconv.Itoa(g.r.Intn(41)-20))
	}
	return "[]int{" + strings.Join(s, ", ") + "}"
}
func (g *gen) word() string {
	alpha := "abc xyz,AB-"
	b := make([]byte, g.r.Intn(14))
	for i := range b {
		b[i] = alpha[g.r.Intn(len(alpha))]
	}
	return string(b)
}
func (g *gen) less(a, b string) string {
	m := 2 + g.r.Intn(4)
	switch g.r.Intn(4) {
	case 0:
		return fmt.Sprintf("%s < %s", a, b)
	case 1:
		return fmt.Sprintf("%s > %s", a, b)
	case 2:
		return fmt.Sprintf("(%s%%%d+%d)%%%d < (%s%%%d+%d)%%%d", a, m, m, m, b, m, m, m)
	}
	return fmt.Sprintf("%s*%s < %s*%s || (%s*%s == %s*%s && %s < %s)", a, a, b, b, a, a, b, b, a, b)
}

func (g *gen) sortSlice() prog {
	fn := []string{"sort.Slice", "sort.SliceStable"}[g.r.Intn(2)]
	body := fmt.Sprintf("xs := %s\n%s(xs, func(i, j int) bool { return %s })\nout = fmt.Sprint(xs, sort.SliceIsSorted(xs, func(i, j int) bool { return xs[i] < xs[j] }))",
		g.ints(g.r.Intn(14)), fn, g.less("xs[i]", "xs[j]"))
	if g.r.Chance(1, 3) {
		body += fmt.Sprintf("\nn := sort.Search(len(xs), func(i int) bool { return xs[i] >= %d })\nout += fmt.Sprint(n)", g.r.Intn(20)-10)
	}
	return prog{Kind: "sort.Slice", Body: body}
}

func (g *gen) sortInterface() prog {
	k := g.k
	structy := g.r.Bool()
	ptrVar := g.r.Bool()        // the variable holds *T (value-receiver methods through a pointer: class of fixed finding F1)
	ptrRecv := g.r.Chance(1, 3) // pointer receivers (then the variable must be a pointer)
	recv, acc := "b By_"+k, "b"
	var decl string
	if structy {
		decl = fmt.Sprintf("type By_%s struct { v []int; calls int }\n", k)
		acc = "b.v"
	} else {
		decl = fmt.Sprintf("type By_%s []int\n", k)
		ptrRecv = false
	}
	if ptrRecv {
		recv, ptrVar = "b *By_"+k, true
	}
	decl += fmt.Sprintf("func (%s) Len() int { return len(%s) }\nfunc (%s) Less(i, j int) bool { return %s }\nfunc (%s) Swap(i, j int) { %s[i], %s[j] = %s[j], %s[i] }\n",
		recv, acc, recv, g.less(acc+"[i]", acc+"[j]"), recv, acc, acc, acc, acc)
	lit := fmt.Sprintf("By_%s(%s)", k, g.ints(g.r.Intn(12)))
	if structy {
		lit = fmt.Sprintf("By_%s{v: %s}", k, g.ints(g.r.Intn(12)))
	}
	v := "x"
	body := "x := " + lit + "\n"
	if ptrVar {
		body = "x0 := " + lit + "\nx := &x0\n"
	}
	call := []string{"sort.Sort(%s)", "sort.Stable(%s)", "sort.Sort(sort.Reverse(%s))", "var si sort.Interface = %s\nsort.Sort(si)"}[g.r.Intn(4)]
	body += fmt.Sprintf(call, v) + "\n"
	if ptrVar {
		body += "out = fmt.Sprint(*x, sort.IsSorted(x))"
	} else {
		body += "out = fmt.Sprint(x, sort.IsSorted(x))"
	}
	return prog{Kind: "sort.Interface", Decls: decl, Body: body}
}

func (g *gen) stringsFuncs() prog {
	sh := g.r.Intn(5)
	drop := string(rune('a' + g.r.Intn(3)))
	s := strconv.Quote(g.word() + g.word())
	var body string
	switch g.r.Intn(6) {
	case 0:
		body = fmt.Sprintf("sh := rune(%d)\nout = strings.Map(func(r rune) rune { if r == '%s' { return -1 }; return r + sh }, %s)", sh, drop, s)
	case 1:
		body = fmt.Sprintf("out = fmt.Sprintf(\"%%q\", strings.FieldsFunc(%s, func(r rune) bool { return r == ' ' || r == ',' || r == '%s' }))", s, drop)
	case 2:
		body = fmt.Sprintf("out = fmt.Sprint(strings.IndexFunc(%s, func(r rune) bool { return r >= 'x' }), strings.TrimFunc(%s, func(r rune) bool { return r < 'b' }))", s, s)
	case 3:
		body = fmt.Sprintf("n := 0\nout = string(bytes.Map(func(r rune) rune { n++; if n%%%d == 0 { return '_' }; return r }, []byte(%s))) + fmt.Sprint(n)", 2+g.r.Intn(3), s)
	case 4:
		body = fmt.Sprintf("out = applyN(func(s string) string { return strings.ToUpper(s[:len(s)/2]) + s[len(s)/2:] + \"%s\" }, %s, %d)", drop, s, g.r.Intn(4))
	default:
		body = fmt.Sprintf("out = strings.Repeat(%s, %d) + strconv.Itoa(strings.Count(%s, \"%s\")) + strconv.Quote(strings.Join(strings.Split(%s, \" \"), \"|\")) + fmt.Sprint(math.Max(%d, %d.5), sort.SearchInts([]int{1, 3, 5, 7}, %d))",
			s, g.r.Intn(3), s, drop, s, g.r.Intn(9), g.r.Intn(9), g.r.Intn(9))
	}
	return prog{Kind: "func-callback/compiled-call", Body: body}
}

func (g *gen) stringerError() prog {
	k := g.k
	ptrRecv, ptrVar := g.r.Bool(), g.r.Bool()
	if ptrRecv {
		ptrVar = true
	}
	recv := "t T_" + k
	if ptrRecv {
		recv = "t *T_" + k
	}
	lit := fmt.Sprintf("T_%s{%d, %s}", k, g.r.Intn(100), strconv.Quote(g.word()))
	if ptrVar {
		lit = "&" + lit
	}
	if g.r.Bool() {
		decl := fmt.Sprintf("type T_%s struct { A int; B string }\nfunc (%s) String() string { return fmt.Sprintf(\"T<%%d,%%s>\", t.A, t.B) }\n", k, recv)
		return prog{Kind: "fmt.Stringer", Decls: decl, Body: fmt.Sprintf("var s fmt.Stringer = %s\nout = callString(s) + s.String()", lit)}
	}
	decl := fmt.Sprintf("type T_%s struct { A int; B string }\nfunc (%s) Error() string { return \"E\" + strconv.Itoa(t.A) + t.B }\n", k, recv)
	return prog{Kind: "error", Decls: decl, Body: fmt.Sprintf("var e error = %s\nw := errors.Unwrap(nil)\nout = callError(e) + fmt.Sprint(errors.Is(e, e), w == nil)", lit)}
}

func (g *gen) readerWriter() prog {
	k := g.k
	data := strconv.Quote(g.word() + g.word() + g.word())
	chunk := 1 + g.r.Intn(5)
	decl := fmt.Sprintf(`type R_%s struct { data []byte; chunk int; calls int }
func (r *R_%s) Read(p []byte) (int, error) {
	r.calls++
	if len(r.data) == 0 { return 0, io.EOF }
	n := r.chunk
	if n > len(p) { n = len(p) }
	if n > len(r.data) { n = len(r.data) }
	copy(p, r.data[:n])
	r.data = r.data[n:]
	return n, nil
}
type W_%s struct { parts []string; limit int }
func (w *W_%s) Write(p []byte) (int, error) {
	if w.limit > 0 && len(w.parts) >= w.limit { return 0, errors.New("full") }
	w.parts = append(w.parts, string(p))
	return len(p), nil
}
`, k, k, k, k)
	var body string
	mk := fmt.Sprintf("r := &R_%s{data: []byte(%s), chunk: %d}\n", k, data, chunk)
	switch g.r.Intn(6) {
	case 0:
		body = mk + "var buf bytes.Buffer\nn, err := io.Copy(&buf, r)\nout = fmt.Sprint(n, err, buf.String(), r.calls > 0)"
	case 1:
		body = mk + "b, err := ioutil.ReadAll(r)\nout = fmt.Sprint(string(b), err)"
	case 2:
		body = mk + fmt.Sprintf("p := make([]byte, %d)\nn, err := io.ReadFull(r, p)\nout = fmt.Sprint(n, err, string(p[:n]), r.calls)", g.r.Intn(12))
	case 3:
		body = mk + "br := bufio.NewReader(r)\ns, err := br.ReadString(' ')\nout = fmt.Sprintf(\"%q %v\", s, err)"
	case 4:
		body = fmt.Sprintf("w := &W_%s{limit: %d}\nn, err := fmt.Fprintf(w, \"%%d-%%s\", %d, %s)\nm, err2 := io.WriteString(w, %s)\nout = fmt.Sprint(n, err, m, err2, len(w.parts), strings.Join(w.parts, \"/\"))",
			k, g.r.Intn(3), g.r.Intn(1000), data, data)
	default:
		body = mk + fmt.Sprintf("w := &W_%s{}\nn, err := io.Copy(w, r)\nout = fmt.Sprint(n, err, strings.Join(w.parts, \"/\"), r.calls)", k)
	}
	return prog{Kind: "io.Reader/io.Writer", Decls: decl, Body: body}
}

func (g *gen) goroutines() prog {
	m := 1 + g.r.Intn(7)
	n := 1 + g.r.Intn(12)
	switch g.r.Intn(4) {
	case 0:
		return prog{Kind: "foreign-goroutine", Body: fmt.Sprintf("k := %d\nout = fmt.Sprint(parallelMap(func(x int) int { s := 0; for i := 0; i <= x; i++ { s += i * k }; return s }, %s))", m, g.ints(n))}
	case 1:
		return prog{Kind: "foreign-goroutine", Body: fmt.Sprintf("var wg sync.WaitGroup\nvar mu sync.Mutex\ntot := 0\nfor i := 1; i <= %d; i++ {\n i := i\n wg.Add(1)\n time.AfterFunc(0, func() { mu.Lock(); tot += i * %d; mu.Unlock(); wg.Done() })\n}\nwg.Wait()\nout = fmt.Sprint(tot)", n, m)}
	case 2:
		return prog{Kind: "foreign-goroutine", Body: fmt.Sprintf("var once sync.Once\nc := 0\nfor i := 0; i < %d; i++ { once.Do(func() { c += %d }) }\nout = inGoroutine(func() string { return fmt.Sprint(c, strings.Repeat(\"z\", c)) })", n, m)}
	}
	return prog{Kind: "foreign-goroutine", Body: fmt.Sprintf("res := parallelMap(func(x int) int { xs := []int{x, %d, -x}; sort.Slice(xs, func(i, j int) bool { return xs[i] < xs[j] }); return xs[0]*100 + xs[2] }, %s)\nout = fmt.Sprint(res)", m, g.ints(n))}
}

func (g *gen) heapProg() prog {
	k := g.k
	decl := fmt.Sprintf(`type H_%s []int
func (h H_%s) Len() int { return len(h) }
func (h H_%s) Less(i, j int) bool { return %s }
func (h H_%s) Swap(i, j int) { h[i], h[j] = h[j], h[i] }
func (h *H_%s) Push(x interface{}) { *h = append(*h, x.(int)) }
func (h *H_%s) Pop() interface{} { old := *h; n := len(old); x := old[n-1]; *h = old[:n-1]; return x }
`, k, k, k, g.less("h[i]", "h[j]"), k, k, k)
	body := fmt.Sprintf("h0 := H_%s(%s)\nh := &h0\nheap.Init(h)\n", k, g.ints(1+g.r.Intn(8)))
	for i := 0; i < 2+g.r.Intn(4); i++ {
		if g.r.Bool() {
			body += fmt.Sprintf("heap.Push(h, %d)\n", g.r.Intn(41)-20)
		} else {
			body += "if h.Len() > 0 { out += fmt.Sprint(heap.Pop(h), \" \") }\n"
		}
	}
	body += "out += fmt.Sprint(*h)"
	return prog{Kind: "heap.Interface", Decls: decl, Body: body}
}

// ---------- interpreter / oracle ----------
func newInterp() *fast.Interp {
	ir := fast.New()
	ir.Comp.Globals.Stdout, ir.Comp.Globals.Stderr = io.Discard, io.Discard
	ir.DeclFunc("parallelMap", parallelMap)
	ir.DeclFunc("callString", callString)
	ir.DeclFunc("callError", callError)
	ir.DeclFunc("applyN", applyN)
	ir.DeclFunc("inGoroutine", inGoroutine)
	ir.DeclFunc("joinStringers", joinStringers)
	ir.DeclFunc("joinErrors", joinErrors)
	ir.DeclFunc("sortedState", sortedState)
	ir.DeclFunc("strOf", strOf)
	declPanicHelpers(ir)
	ir.Eval(importSrc)
	return ir
}

func runInterp(ir *fast.Interp, p prog) string {
	var out string
	if x := vh.Catch(func() {
		ir.Eval(p.funcSrc())
		v, _ := ir.Eval1("run_" + p.Name + "()")
		out = v.ReflectValue().String()
	}); x != nil {
		return "PANIC: " + fmt.Sprint(x)
	}
	return out
}

func runOracle(a *vh.Args, repo string, progs []prog) ([]string, error) {
	dir := a.Path("oracle_c11")
	os.MkdirAll(dir, 0o755)
	var sb strings.Builder
	sb.WriteString("// GENERATED by harness/cmd/c11: the same programs, compiled.\npackage main\n\n" + importSrc + "\nimport \"encoding/json\"\nimport \"os\"\n\n")
	sb.WriteString("var _ = bufio.NewReader\nvar _ = bytes.Map\nvar _ = heap.Init\nvar _ = errors.New\nvar _ = io.EOF\nvar _ = ioutil.ReadAll\nvar _ = math.Max\nvar _ = sort.Sort\nvar _ = strconv.Itoa\nvar _ = strings.Map\nvar _ sync.Once\nvar _ = time.AfterFunc\nvar _ = fmt.Sprint\n")
	sb.WriteString(helperSrc)
	sb.WriteString(aliasHelperSrc)
	sb.WriteString(panicHelperSrc)
	for _, p := range progs {
		sb.WriteString("\n// ---- " + p.Name + " (" + p.Kind + ")\n" + p.funcSrc())
	}
	sb.WriteString("\nfunc safe(f func() string) (s string) {\n\tdefer func() { if r := recover(); r != nil { s = \"PANIC: \" + fmt.Sprint(r) } }()\n\treturn f()\n}\n\nfunc main() {\n\tres := []string{\n")
	for _, p := range progs {
		sb.WriteString("\t\tsafe(run_" + p.Name + "),\n")
	}
	sb.WriteString("\t}\n\tjson.NewEncoder(os.Stdout).Encode(res)\n}\n")
	if err := os.WriteFile(filepath.Join(dir, "main.go"), []byte(sb.String()), 0o644); err != nil {
		return nil, err
	}
	os.WriteFile(filepath.Join(dir, "go.mod"), []byte("module c11oracle\n\ngo 1.18\n"), 0o644)
	env := append(os.Environ(), "GOFLAGS=-mod=mod", "GOPROXY=off", "GOSUMDB=off", "GOTOOLCHAIN=local")
	b := exec.Command("go", "build", "-o", "c11oracle", ".")
	b.Dir, b.Env = dir, env
	if o, err := b.CombinedOutput(); err != nil {
		return nil, fmt.Errorf("go build: %v\n%s", err, o)
	}
	r := exec.Command(filepath.Join(dir, "c11oracle"))
	r.Dir = dir
	o, err := r.Output()
	if err != nil {
		return nil, fmt.Errorf("oracle run: %v", err)
	}
	var res []string
	if err := json.Unmarshal(o, &res); err != nil {
		return nil, err
	}
	return res, nil
}

func loadCorpus() []prog {
	dir := os.Getenv("VERIF_DIR")
	if dir == "" {
		dir = "/verif"
	}
	files, _ := filepath.Glob(filepath.Join(dir, "corpus", "C11", "*.prog"))
	sort.Strings(files)
	var ps []prog
	for i, f := range files {
		b, err := os.ReadFile(f)
		if err != nil {
			continue
		}
		s := string(b)
		p := prog{Name: fmt.Sprintf("corpus%d", i), Kind: "corpus:" + filepath.Base(f)}
		if j := strings.Index(s, "// key: "); j >= 0 {
			p.Key = strings.Fields(s[j+8:])[0]
		}
		d := strings.Index(s, "//decls\n")
		bd := strings.Index(s, "//body\n")
		if d < 0 || bd < 0 {
			continue
		}
		p.Decls, p.Body = s[d+8:bd], s[bd+7:]
		ps = append(ps, p)
	}
	return ps
}

// ---------- (2) vtable correspondence ----------
type isig struct {
	pkg, name string
	methods   []string // "Name(params) results" sorted by name = reflect order
}

var ifaces = []isig{
	{"io", "Reader", []string{"Read(p []byte) (n int, err error)"}},
	{"io", "Closer", []string{"Close() (err error)"}},
	{"io", "ReadWriteCloser", []string{"Close() (err error)", "Read(p []byte) (n int, err error)", "Write(p []byte) (n int, err error)"}},
	{"io", "ByteScanner", []string{"ReadByte() (b byte, err error)", "UnreadByte() (err error)"}},
	{"io", "ReadSeeker", []string{"Read(p []byte) (n int, err error)", "Seek(offset int64, whence int) (n int64, err error)"}},
	{"io", "ReaderAt", []string{"ReadAt(p []byte, off int64) (n int, err error)"}},
	{"fmt", "Stringer", []string{"String() (s string)"}},
	{"sort", "Interface", []string{"Len() (n int)", "Less(i, j int) (b bool)", "Swap(i, j int)"}},
	{"container/heap", "Interface", []string{"Len() (n int)", "Less(i, j int) (b bool)", "Pop() (x interface{})", "Push(x interface{})", "Swap(i, j int)"}},
	{"flag", "Value", []string{"Set(s string) (err error)", "String() (s string)"}},
}

var lastTag int

func mname(sig string) string { return sig[:strings.IndexByte(sig, '(')] }

func vtableCases(cw *vh.Cases, rep *vh.Report, ir *fast.Interp, rng *vh.Rng, n int) {
	ir.DeclFunc("rec", func(t int) { lastTag = t })
	ir.Eval(`import "flag"`)
	ids := map[string]int{}
	id := func(s string) int {
		if _, ok := ids[s]; !ok {
			ids[s] = len(ids) + 1
		}
		return ids[s]
	}
	for c := 0; c < n; c++ {
		is := ifaces[rng.Intn(len(ifaces))]
		k := fmt.Sprintf("v%d", c)
		tag := 1
		type decl struct {
			recv, sig string
			tag       int
		}
		var ds []decl
		var tm []string
		drop := -1
		if rng.Chance(1, 6) {
			drop = rng.Intn(len(is.methods))
		}
		ambig := -1
		if rng.Chance(1, 8) {
			ambig = rng.Intn(len(is.methods))
		}
		ptrRecv := rng.Chance(1, 3)
		for i, m := range is.methods {
			switch {
			case i == drop:
			case i == ambig:
				ds = append(ds, decl{"A_" + k, m, tag}, decl{"B_" + k, m, tag + 1})
				tm = append(tm, fmt.Sprintf("(%d,%d)", id(mname(m)), tag), fmt.Sprintf("(%d,%d)", id(mname(m)), tag+1))
				tag += 2
			default:
				ds = append(ds, decl{"T_" + k, m, tag})
				tm = append(tm, fmt.Sprintf("(%d,%d)", id(mname(m)), tag))
				tag++
			}
		}
		for e := 0; e < rng.Intn(3); e++ {
			m := fmt.Sprintf("Extra%d(i int) (n int)", rng.Intn(4))
			dup := false
			for _, d := range ds {
				dup = dup || mname(d.sig) == mname(m)
			}
			if !dup {
				ds = append(ds, decl{"T_" + k, m, tag})
				tm = append(tm, fmt.Sprintf("(%d,%d)", id(mname(m)), tag))
				tag++
			}
		}
		// declaration order is irrelevant to MethodByName: shuffle
		for i := len(ds) - 1; i > 0; i-- {
			j := rng.Intn(i + 1)
			ds[i], ds[j] = ds[j], ds[i]
		}
		src := fmt.Sprintf("type A_%s struct{}\ntype B_%s struct{}\ntype T_%s struct { A_%s; B_%s; x int }\n", k, k, k, k, k)
		for _, d := range ds {
			star := ""
			if ptrRecv && d.recv == "T_"+k {
				star = "*"
			}
			src += fmt.Sprintf("func (t %s%s) %s { rec(%d); return }\n", star, d.recv, d.sig, d.tag)
		}
		alias := is.pkg[strings.LastIndexByte(is.pkg, '/')+1:]
		src += fmt.Sprintf("var %s %s.%s = &T_%s{}\n", k, alias, is.name, k)
		var ims []string
		for _, m := range is.methods {
			ims = append(ims, strconv.Itoa(id(mname(m))))
		}
		obs := "ObsError"
		input := map[string]interface{}{"interface": is.pkg + "." + is.name, "source": src}
		perr := vh.Catch(func() { ir.Eval(src) })
		if perr == nil {
			var tags []string
			bad := vh.Catch(func() {
				v, _ := ir.Eval1(k)
				rv := v.ReflectValue()
				for rv.Kind() == reflect.Interface {
					rv = rv.Elem()
				}
				want := imports.Packages[is.pkg].Proxies[is.name]
				if rv.Kind() != reflect.Ptr || rv.Type().Elem() != want {
					panic(fmt.Sprintf("value is %v, not a pointer to the proxy %v", rv.Type(), want))
				}
				st := rv.Elem()
				for f := 1; f < st.NumField(); f++ {
					fn := st.Field(f)
					args := []reflect.Value{st.Field(0)}
					for j := 1; j < fn.Type().NumIn(); j++ {
						args = append(args, reflect.Zero(fn.Type().In(j)))
					}
					lastTag = 0
					fn.Call(args)
					tags = append(tags, strconv.Itoa(lastTag))
				}
			})
			if bad != nil {
				rep.Fail(vh.Failure{Key: "c11:vtable:" + src, What: "cannot read the proxy fields back", Input: input, Got: fmt.Sprint(bad)})
				continue
			}
			obs = "ObsSlots " + vh.CoqList(tags, "N")
			// direct oracle (property predicate on the implementation's own output): slot i holds the method named like interface method i
			for i, m := range is.methods {
				wantTag := 0
				for _, d := range ds {
					if mname(d.sig) == mname(m) {
						wantTag = d.tag
					}
				}
				if i >= len(tags) || tags[i] != strconv.Itoa(wantTag) {
					rep.Fail(vh.Failure{Key: "c11:vtable:" + src, What: "proxy field " + mname(m) + "_ does not hold the interpreted method " + mname(m), Input: input, Got: tags, Want: wantTag})
				}
			}
		} else if drop < 0 && ambig < 0 {
			rep.Fail(vh.Failure{Key: "c11:vtable:" + src, What: "conversion of a type with all methods to the compiled interface fails", Input: input, Got: fmt.Sprint(perr)})
		}
		idx := 100000 + c
		cw.Add(fmt.Sprintf("XV (mkCase %d %s %s (%s))", idx, vh.CoqList(ims, "N"), vh.CoqList(tm, "(N * N)"), obs))
		rep.CaseInput(idx, input)
		rep.Count("vtable|"+src, len(is.methods) > 1 || drop >= 0 || ambig >= 0)
		rep.Dist(map[bool]string{true: "vtable:converted", false: "vtable:rejected"}[perr == nil])
	}
}

func main() {
	a := vh.ParseArgs()
	rng := vh.NewRng(a.Seed)
	rep := vh.NewReport(a, "PRNG programs from 10 template families (value semantics of conversions to compiled interfaces [alias.go]: random sequences of convert / mutate the original place / use over addressable struct and array values (variables, slice elements, fields, pointees), conversions by assignment, explicit conversion, helper return, append in a loop; "+
		"one conversion site executed 2..4 times with all results kept alive: constructor returning error / sort.Interface / heap.Interface called repeatedly, io.Readers collected in a loop for io.MultiReader, map store / channel send / closure results in a loop; "+
		"sort.Slice/SliceStable/Search with interpreted less; interpreted sort.Interface incl. pointer variables with value receivers, "+
		"sort.Reverse; strings.Map/FieldsFunc/IndexFunc/TrimFunc, bytes.Map, compiled helper applying an interpreted func; fmt.Stringer and error through compiled helpers taking that interface type; "+
		"interpreted io.Reader through io.Copy/ioutil.ReadAll/io.ReadFull/bufio, interpreted io.Writer through fmt.Fprintf/io.WriteString/io.Copy; heap.Interface; callbacks run on goroutines not started by the interpreter: "+
		"compiled parallelMap, time.AfterFunc, sync.Once, compiled inGoroutine; 60 (thorough 1200) programs whose callbacks PANIC for some arguments (string/int/error values, division by zero, at call depth 0..3) on goroutines started by the compiled helper goEach "+
		"(one at a time, goroutine started by a goroutine, caller's goroutine) and recover through a deferred top-level function, deferred closure, deferred method, a top-level callee's defer, a closure callback deferring a top-level function, re-panic in a deferred closure + top-level recover, or not at all (the helper reports the escaping panic); compiled std functions called with interpreted arguments), each run in the interpreter and compiled with go build (go 1.18 module), outputs compared; "+
		"avoided class (known finding c11:proxy-unwrapped-into-empty-interface): a proxied interpreted value passed to a compiled parameter of type interface{}; corpus programs run first. "+
		"Plus every method of every P_* proxy of imports.Packages called through its interface with PRNG arguments (recording closures in the fields). Plus vtable cases: random interpreted method sets converted to 10 compiled interfaces, every proxy field called to identify the stored method (model: coq/C11 fill). Plus conversion-site cases (model: coq/C11 crun/cread): ONE conversion site in a loop executed once per CConv operation on an addressable slice element, CSet operations assign to the elements in between, every interface value produced is read at the end; oracle: the same operation list run natively; non-trivial when the site is executed >= 2 times. "+
		"A program is non-trivial when at least one interpreted function or method was invoked by compiled code (all templates); distinct by SHA-256 of the source")
	nProg, nVt := 180, 150
	if a.Thorough() {
		nProg, nVt = 4500, 2500
	}
	if a.N > 0 {
		nProg = a.N
	}
	progs := loadCorpus()
	nCorpus := len(progs)
	for i := 0; i < nProg; i++ {
		g := &gen{r: rng, k: fmt.Sprintf("p%d", i)}
		var p prog
		switch x := rng.Intn(24); {
		case x >= 20:
			p = g.aliasProg()
		case x >= 16:
			p = g.multiSite()
		case x < 2:
			p = g.sortSlice()
		case x < 5:
			p = g.sortInterface()
		case x < 7:
			p = g.stringsFuncs()
		case x < 9:
			p = g.stringerError()
		case x < 12:
			p = g.readerWriter()
		case x < 14:
			p = g.goroutines()
		default:
			p = g.heapProg()
		}
		p.Name = g.k
		progs = append(progs, p)
	}
	// callbacks that panic and recover on goroutines created by compiled code (gopanic.go); own PRNG: the programs above keep their seeds
	nPanic := 60
	if a.Thorough() {
		nPanic = 1200
	}
	prng := vh.NewRng(a.Seed*104729 + 11)
	for i := 0; i < nPanic; i++ {
		g := &gen{r: prng, k: fmt.Sprintf("q%d", i)}
		p := g.goroutinePanics()
		p.Name = g.k
		progs = append(progs, p)
	}
	want, err := runOracle(a, os.Getenv("VERIF_REPO"), progs)
	if err != nil {
		fmt.Println("c11: compiled oracle failed:", err)
		os.Exit(2)
	}
	ir := newInterp()
	wd := vh.NewWatchdog(rep, 300*time.Second) // started after the go build of the oracle and the imports (slow on a loaded machine)
	for i, p := range progs {
		wd.Beat(p)
		got := runInterp(ir, p)
		h := sha256.Sum256([]byte(p.funcSrc()))
		rep.Count(hex.EncodeToString(h[:]), true)
		rep.Dist(p.Kind)
		if i%17 == 3 {
			rep.Sample(map[string]string{"program": p.funcSrc(), "output": got})
		}
		if got != want[i] {
			key := p.Key
			if key == "" {
				key = "c11:program:" + p.funcSrc()
			}
			rep.Fail(vh.Failure{Key: key, What: "interpreted program and compiled program print different results (" + p.Kind + ")", Input: p, Got: got, Want: want[i]})
		}
	}
	cw := vh.NewCases(a, "From Coq Require Import List NArith ZArith.\nFrom Verif Require Import C11.Model.\nImport ListNotations.\nOpen Scope N_scope.", "xcase", "xmismatches", 250)
	vtableCases(cw, rep, ir, rng, nVt)
	nConv := 120
	if a.Thorough() {
		nConv = 2500
	}
	convCases(cw, rep, ir, rng.Fork(), nConv)
	cw.Close()
	// every method of every proxy struct called through its interface with PRNG arguments on recording closures (shared with C31)
	rep.Extra["proxies_exercised"] = c31core.ExerciseProxies(rep, a, rng.Fork())
	rep.Extra["corpus_programs"] = nCorpus
	rep.Extra["generated_programs"] = nProg + nPanic
	rep.Write()
}

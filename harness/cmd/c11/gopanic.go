// Callbacks that panic and recover, invoked from goroutines created by COMPILED code (c11 template family "foreign-goroutine-panic").
//
// The compiled helper goEach calls the interpreted callback for every element, each call on a goroutine the helper starts
// (one at a time, from a goroutine started by a goroutine; all at once is supported by the helper but not generated, see goroutinePanics) or - control - on the caller's goroutine, and
// reports per element either the result or the panic that escaped the callback.  The callbacks panic for some arguments
// (explicit panic with string / int / error values, integer division by zero) at a PRNG call depth and recover (or not)
// through: a deferred TOP-LEVEL function calling recover(), a deferred closure, a deferred method of a top-level type,
// a top-level function called by the callback that has the deferred recover itself, a closure callback deferring a
// top-level function, a deferred closure that re-panics followed by a top-level recover, or nothing (the panic escapes
// to the helper).  Oracle: the same program compiled by go build.
package main

import (
	"fmt"
	"sync"

	"github.com/cosmos72/gomacro/fast"
)

const panicHelperSrc = `
func goEach(f func(int) int, xs []int, mode int) []string {
	out := make([]string, len(xs))
	one := func(i int) {
		defer func() {
			if r := recover(); r != nil {
				out[i] = "escaped:" + fmt.Sprint(r)
			}
		}()
		out[i] = fmt.Sprint(f(xs[i]))
	}
	var wg sync.WaitGroup
	for i := range xs {
		switch mode {
		case 0: // one goroutine at a time
			wg.Add(1)
			go func(i int) { defer wg.Done(); one(i) }(i)
			wg.Wait()
		case 1: // all at once
			wg.Add(1)
			go func(i int) { defer wg.Done(); one(i) }(i)
		case 2: // goroutine started by a goroutine
			wg.Add(1)
			go func(i int) {
				var wg2 sync.WaitGroup
				wg2.Add(1)
				go func() { defer wg2.Done(); one(i) }()
				wg2.Wait()
				wg.Done()
			}(i)
			wg.Wait()
		default: // caller's goroutine
			one(i)
		}
	}
	wg.Wait()
	return out
}
`

func goEach(f func(int) int, xs []int, mode int) []string {
	out := make([]string, len(xs))
	one := func(i int) {
		defer func() {
			if r := recover(); r != nil {
				out[i] = "escaped:" + fmt.Sprint(r)
			}
		}()
		out[i] = fmt.Sprint(f(xs[i]))
	}
	var wg sync.WaitGroup
	for i := range xs {
		switch mode {
		case 0: // one goroutine at a time
			wg.Add(1)
			go func(i int) { defer wg.Done(); one(i) }(i)
			wg.Wait()
		case 1: // all at once
			wg.Add(1)
			go func(i int) { defer wg.Done(); one(i) }(i)
		case 2: // goroutine started by a goroutine
			wg.Add(1)
			go func(i int) {
				var wg2 sync.WaitGroup
				wg2.Add(1)
				go func() { defer wg2.Done(); one(i) }()
				wg2.Wait()
				wg.Done()
			}(i)
			wg.Wait()
		default: // caller's goroutine
			one(i)
		}
	}
	wg.Wait()
	return out
}

func declPanicHelpers(ir *fast.Interp) {
	ir.DeclFunc("goEach", goEach)
}

// goroutinePanics: see the file comment
func (g *gen) goroutinePanics() prog {
	k := g.k
	m1, m2, m3 := 2+g.r.Intn(4), 2+g.r.Intn(4), 2+g.r.Intn(4)
	depth := g.r.Intn(4)
	tag := 1000 * (1 + g.r.Intn(9))
	// mode 1 (all callbacks at once) is NOT generated: concurrent panicking callbacks intermittently fail on the unchanged
	// tree (about 1 run in 4: one element reports "escaped:runtime error: invalid memory address or nil pointer dereference"
	// where Go recovers; see fixes/C11-final-known-findings.proposed.json) - not reproducible enough for a corpus entry
	mode := []int{0, 2, 3}[g.r.Intn(3)]
	n := 2 + g.r.Intn(6)
	xs := "[]int{"
	for i := 0; i < n; i++ {
		if i > 0 {
			xs += ", "
		}
		xs += fmt.Sprint(g.r.Intn(24))
	}
	xs += "}"
	decl := fmt.Sprintf(`func rec_%[1]s(out *int, tag int) {
	if r := recover(); r != nil {
		*out = tag + len(fmt.Sprint(r))
	}
}
type T_%[1]s struct{ tag int }
func (t T_%[1]s) rec(out *int) {
	if r := recover(); r != nil {
		*out = -t.tag - len(fmt.Sprint(r))
	}
}
func boom_%[1]s(x, d int) int {
	if d > 0 {
		return boom_%[1]s(x, d-1) + 1
	}
	if x%%%[2]d == 0 {
		panic(fmt.Sprint("p", x))
	}
	if x%%%[3]d == 1 {
		panic(x)
	}
	if x%%7 == 3 {
		panic(errors.New("e" + strconv.Itoa(x)))
	}
	return 1000 / (x %% %[4]d)
}
`, k, m1, m2, m3)
	call := fmt.Sprintf("ret = -1\n\tret = boom_%s(x, %d)\n\treturn ret", k, depth)
	cb := "cb_" + k
	body := ""
	variant := g.r.Intn(8)
	switch variant {
	case 0, 1: // deferred top-level function (twice as likely: the class of the gap)
		decl += fmt.Sprintf("func cb_%s(x int) (ret int) {\n\tdefer rec_%s(&ret, %d)\n\t%s\n}\n", k, k, tag, call)
	case 2: // deferred closure
		decl += fmt.Sprintf("func cb_%s(x int) (ret int) {\n\tdefer func() {\n\t\tif r := recover(); r != nil {\n\t\t\tret = %d + len(fmt.Sprint(r))\n\t\t}\n\t}()\n\t%s\n}\n", k, tag, call)
	case 3: // deferred method of a top-level type
		decl += fmt.Sprintf("func cb_%s(x int) (ret int) {\n\tt := T_%s{%d}\n\tdefer t.rec(&ret)\n\t%s\n}\n", k, k, tag, call)
	case 4: // no recovery: the panic escapes to the compiled helper
		decl += fmt.Sprintf("func cb_%s(x int) (ret int) {\n\t%s\n}\n", k, call)
	case 5: // closure callback deferring a top-level function
		body = fmt.Sprintf("tag := %d\ncbl := func(x int) (ret int) {\n\tdefer rec_%s(&ret, tag+x)\n\t%s\n}\n", tag, k, call)
		cb = "cbl"
	case 6: // the recovering defer lives in a top-level function called by the callback
		decl += fmt.Sprintf("func mid_%s(x int) (ret int) {\n\tdefer rec_%s(&ret, %d)\n\t%s\n}\nfunc cb_%s(x int) int {\n\treturn mid_%s(x)*2 + 1\n}\n", k, k, tag, call, k, k)
	default: // a deferred closure re-panics with another value, a top-level function recovers that one
		decl += fmt.Sprintf("func cb_%s(x int) (ret int) {\n\tdefer rec_%s(&ret, %d)\n\tdefer func() {\n\t\tif r := recover(); r != nil {\n\t\t\tpanic(fmt.Sprint(\"again:\", r))\n\t\t}\n\t}()\n\t%s\n}\n", k, k, tag, call)
	}
	body += fmt.Sprintf("out = fmt.Sprint(goEach(%s, %s, %d))", cb, xs, mode)
	return prog{Kind: "foreign-goroutine-panic", Decls: decl, Body: body}
}

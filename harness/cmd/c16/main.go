// c16: out-of-order package-level declarations in ONE fast.Interp.Eval vs compiled Go.
//
// Inputs: random valid declaration sets (const / var / type / func; references through initialisers, var types,
// composite literals, conversions, struct fields, array lengths, function bodies incl. self recursion, function
// literals, and an optional side-effecting counter that makes the initialisation ORDER observable), each written
// in several random textual orders; plus sets with an initialisation cycle; plus the corpus.
// Direct oracles (never the Coq model):
//   (1) every name has the value the same text has when compiled by `go build` (batched module build/C16/oracle, go 1.18);
//   (2) [diagnostic only, see finding C16-6] the order in which dep.Sorter emits the initialised variables vs go/types Info.InitOrder;
//   (3) a set go/types accepts is never rejected (declaration loop or any other error);
//       a set go/types rejects with an initialization cycle is rejected by gomacro as well.
// Correspondence: Coq `go_init_order` (Go spec order on the Deps dep.Scope itself extracts) = dep.Sorter's output.
package main

import (
	"bytes"
	"encoding/json"
	"fmt"
	"go/ast"
	goparser "go/parser"
	"go/token"
	"go/types"
	"io"
	"os"
	"os/exec"
	"path/filepath"
	"reflect"
	"sort"
	"strings"
	"time"

	"github.com/cosmos72/gomacro/base/dep"
	"github.com/cosmos72/gomacro/fast"
	"github.com/cosmos72/gomacro/go/etoken"
	"github.com/cosmos72/gomacro/go/parser"
	"verifh/vh"
)

// ---------- generator ----------

type ent struct {
	Kind  string // const var func type
	Name  string
	Text  string   // full declaration
	Refs  []int    // entities referenced
	Show  string   // expression printed to observe the value ("" for types)
	Shape string   // var/const: int named struct array
	TName string   // var: name of its declared type
	Init  bool     // var has an initialiser
	Keyed bool     // var: Text ends with a KEYED struct literal `T{...}` (more `field: value` pairs can be appended)
	Deep  bool     // type: refers to other declarations from INSIDE an anonymous struct/func/map/chan type literal (scope depth >= 2)
}

// avoidDeepRef: set by the canary in main while finding C16-11 reproduces (a reference at scope depth >= 2, e.g. from inside an
// anonymous struct type literal, to a name declared EARLIER in the text is dropped by dep.Scope.isLocal - the root of C16-2):
// every permutation then puts a Deep type declaration before the names it uses, as it does for function declarations.
var avoidDeepRef bool

// addAnonRefs appends 2..4 type declarations that refer to the mutually recursive struct types of the set (Shape "cyc") from
// inside anonymous struct / func / map / chan / slice type literals, and variables of those types. Only observations that do
// not read a by-value field of a forward-declared type are shown (known finding C16-8 class).
func addAnonRefs(es []ent, r *vh.Rng) []ent {
	var cyc []int
	for i, e := range es {
		if e.Kind == "type" && e.Shape == "cyc" {
			cyc = append(cyc, i)
		}
	}
	if len(cyc) < 2 {
		return es
	}
	type tmpl struct {
		text  string // %[1]s type name, %[2]s %[3]s two types of the cycle
		nrefs int
		shows []string // %[1]s variable name
		lit   string   // optional keyed literal body for a second variable, %[1]s type name
		lshow string
	}
	tmpls := []tmpl{
		{"type %[1]s struct { f struct { x *%[2]s }; k int }", 1, []string{"%[1]s.f.x == nil", "%[1]s.k"}, "%[1]s{k: 4}", "%[1]s.k + 1"},
		{"type %[1]s struct { f func() %[2]s; k int }", 1, []string{"%[1]s.f == nil"}, "%[1]s{k: 5}", "%[1]s.k"},
		{"type %[1]s struct { f func(%[2]s) *%[3]s; k int }", 2, []string{"%[1]s.f == nil"}, "", ""},
		{"type %[1]s struct { f map[int]struct { x *%[2]s } }", 1, []string{"len(%[1]s.f)"}, "%[1]s{f: map[int]struct { x *%[2]s }{1: {}}}", "len(%[1]s.f)"},
		{"type %[1]s struct { f chan struct { x *%[2]s } }", 1, []string{"%[1]s.f == nil"}, "", ""},
		{"type %[1]s func(struct { x %[2]s }) %[3]s", 2, []string{"%[1]s == nil"}, "", ""},
		{"type %[1]s []struct { x *%[2]s }", 1, []string{"len(%[1]s)"}, "", ""},
		{"type %[1]s map[string]func(%[2]s) *%[3]s", 2, []string{"len(%[1]s)"}, "", ""},
		{"type %[1]s struct { f struct { x %[2]s }; k int }", 1, []string{"%[1]s.k"}, "%[1]s{k: 8}", "%[1]s.k"},
		{"type %[1]s struct { f struct { g struct { x *%[2]s; y []%[3]s } }; k int }", 2, []string{"%[1]s.f.g.x == nil", "%[1]s.k"}, "", ""},
	}
	for k, n := 0, 2+r.Intn(3); k < n; k++ {
		t := tmpls[r.Intn(len(tmpls))]
		a, b := cyc[r.Intn(len(cyc))], cyc[r.Intn(len(cyc))]
		name := fmt.Sprintf("W%d", k)
		refs := []int{a}
		if t.nrefs == 2 {
			refs = append(refs, b)
		}
		ti := len(es)
		es = append(es, ent{Kind: "type", Name: name, Shape: "anon", Deep: true, Refs: refs,
			Text: fmt.Sprintf(t.text, name, es[a].Name, es[b].Name)})
		var sh []string
		for _, x := range t.shows {
			sh = append(sh, fmt.Sprintf(x, "Z"+name))
		}
		es = append(es, ent{Kind: "var", Name: "Z" + name, Refs: []int{ti}, Shape: "anon", TName: name,
			Text: "var Z" + name + " " + name, Show: sh[0]})
		for _, x := range sh[1:] { // further observations of the same variable
			es = append(es, ent{Kind: "var", Name: "Z" + name, Shape: "anon", TName: name, Text: "", Show: x})
		}
		if t.lit != "" && r.Bool() {
			es = append(es, ent{Kind: "var", Name: "U" + name, Init: true, Refs: append([]int{ti}, refs...), Shape: "anon", TName: name,
				Text: "var U" + name + " = " + fmt.Sprintf(t.lit, name, es[a].Name), Show: fmt.Sprintf(t.lshow, "U"+name)})
		}
	}
	return es
}

type declSet struct {
	Ents   []ent
	Cyclic bool
}

func intExpr(e ent, r *vh.Rng) string {
	switch e.Kind {
	case "const":
		return e.Name
	case "func":
		return fmt.Sprintf("%s(%d)", e.Name, r.Intn(4))
	case "var":
		switch e.Shape {
		case "named":
			return "int(" + e.Name + ")"
		case "struct":
			return e.Name + ".a"
		case "array":
			return "len(" + e.Name + ")"
		}
		return e.Name
	}
	return "0"
}

func genSet(r *vh.Rng, withCounter bool) declSet {
	s, _ := genSetK(r, withCounter, nil, false)
	return s
}

// genSetK: force != nil repeats the KIND choice of every declaration of an earlier set (so that the new set declares the same
// names with other shapes / initialisers); forceCycle always adds the family of mutually recursive struct types.
// Returns the kind choices made.
func genSetK(r *vh.Rng, withCounter bool, force []int, forceCycle bool) (declSet, []int) {
	n := 3 + r.Intn(6)
	if force != nil {
		n = len(force)
	}
	var choices []int
	var es []ent
	pick := func(ok func(ent) bool) (int, bool) {
		var c []int
		for i, e := range es {
			if ok(e) {
				c = append(c, i)
			}
		}
		if len(c) == 0 {
			return 0, false
		}
		return c[r.Intn(len(c))], true
	}
	counter := -1
	next := -1
	if withCounter {
		es = append(es, ent{Kind: "var", Name: "Cnt", Text: fmt.Sprintf("var Cnt = %d", r.Intn(5)), Show: "Cnt", Shape: "int", Init: true})
		counter = 0
		es = append(es, ent{Kind: "func", Name: "Next", Text: "func Next(p int) int { Cnt += p + 1; return Cnt }", Refs: []int{0}, Show: ""})
		next = 1
	}
	_ = counter
	for k := 0; k < n; k++ {
		i := len(es)
		id := string(rune('a' + k))
		var e ent
		inConst := false // a constant initialiser cannot hold a map / array literal
		terms := func(max int, ok func(ent) bool) (string, []int) {
			var ts []string
			var refs []int
			ts = append(ts, fmt.Sprint(1+r.Intn(9)))
			for t := 0; t < max; t++ {
				if j, found := pick(ok); found && r.Chance(3, 4) {
					x := intExpr(es[j], r)
					if r.Chance(1, 4) {
						x = x + "*" + fmt.Sprint(2+r.Intn(2))
					} else if (es[j].Kind == "const" || es[j].Kind == "var") && es[j].Shape == "int" && es[j].Name != "Cnt" && !inConst && r.Chance(1, 6) {
						// identifier key of a map / array literal: an expression, i.e. a reference (known finding C16-10: scope.go
						// ignores every identifier key, so it is only generated next to another reference to the same name)
						if es[j].Kind == "const" && r.Bool() {
							x = fmt.Sprintf("[...]int{%s: %d}[%s]", es[j].Name, 1+r.Intn(9), es[j].Name)
						} else {
							x = fmt.Sprintf("map[int]int{%s: %d}[%s]", es[j].Name, 1+r.Intn(9), es[j].Name)
						}
					}
					ts = append(ts, x)
					refs = append(refs, j)
				}
			}
			return strings.Join(ts, " + "), refs
		}
		choice := r.Intn(10)
		if force != nil {
			choice = force[k]
		}
		choices = append(choices, choice)
		switch choice {
		case 0, 1: // const
			inConst = true
			x, refs := terms(2, func(e ent) bool { return e.Kind == "const" })
			inConst = false
			e = ent{Kind: "const", Name: "K" + id, Text: "const K" + id + " = " + x, Refs: refs, Show: "K" + id, Shape: "int"}
		case 2, 3: // type
			name := "T" + id
			switch r.Intn(3) {
			case 0:
				if j, ok := pick(func(e ent) bool { return e.Kind == "type" && e.Shape == "named" }); ok && r.Bool() {
					e = ent{Kind: "type", Name: name, Text: "type " + name + " " + es[j].Name, Refs: []int{j}, Shape: "named"}
				} else {
					e = ent{Kind: "type", Name: name, Text: "type " + name + " int", Shape: "named"}
				}
			case 1:
				b := "int"
				var refs []int
				if j, ok := pick(func(e ent) bool { return e.Kind == "type" && e.Shape == "named" }); ok {
					b = es[j].Name
					refs = append(refs, j)
				}
				e = ent{Kind: "type", Name: name, Text: "type " + name + " struct { a int; b " + b + " }", Refs: refs, Shape: "struct", TName: b}
			case 2:
				if j, ok := pick(func(e ent) bool { return e.Kind == "const" }); ok {
					e = ent{Kind: "type", Name: name, Text: "type " + name + " [" + es[j].Name + "]int", Refs: []int{j}, Shape: "array"}
				} else {
					e = ent{Kind: "type", Name: name, Text: "type " + name + " [3]int", Shape: "array"}
				}
			}
		case 4, 5: // func
			name := "F" + id
			x, refs := terms(3, func(e ent) bool { return e.Kind != "type" && e.Name != "Next" && e.Name != "Cnt" })
			body := "return p + " + x
			switch r.Intn(4) {
			case 0:
				body = "if p > 2 { return " + name + "(p-1) + 1 }; " + body
			case 1:
				body = "t0 := " + x + "; if p > 100 { return t0 }; return p + t0"
			}
			e = ent{Kind: "func", Name: name, Text: "func " + name + "(p int) int { " + body + " }", Refs: refs, Show: name + "(3)"}
		default: // var
			name := "V" + id
			// Cnt is only touched through Next(): an expression that both reads Cnt and calls Next() has no specified value in Go
			ok := func(e ent) bool { return e.Kind != "type" && e.Name != "Next" && e.Name != "Cnt" }
			x, refs := terms(3, ok)
			if next >= 0 && r.Chance(1, 2) {
				x += fmt.Sprintf(" + Next(%d)", r.Intn(3))
				refs = append(refs, next)
			}
			if r.Chance(1, 5) {
				x = "func() int { return " + x + " }()"
			}
			e = ent{Kind: "var", Name: name, Refs: refs, Show: name, Shape: "int", Init: true}
			if j, found := pick(func(e ent) bool { return e.Kind == "type" }); found && r.Chance(1, 2) {
				t := es[j]
				e.Refs = append(e.Refs, j)
				e.Shape, e.TName = t.Shape, t.Name
				switch t.Shape {
				case "named":
					if r.Bool() {
						e.Text = "var " + name + " " + t.Name + " = " + t.Name + "(" + x + ")"
					} else {
						e.Text = "var " + name + " = " + t.Name + "(" + x + ")"
					}
				case "struct":
					b := "0"
					if t.TName != "int" {
						b = t.TName + "(2)"
					}
					e.Text = "var " + name + " = " + t.Name + "{a: " + x + ", b: " + b + "}"
					e.Keyed = true
				case "array":
					if r.Bool() {
						e.Text = "var " + name + " " + t.Name
						e.Refs = []int{j}
						e.Init = false
					} else {
						e.Text = "var " + name + " = " + t.Name + "{0: " + x + "}"
					}
				}
			} else {
				e.Text = "var " + name + " = " + x
			}
		}
		_ = i
		es = append(es, e)
	}
	if !withCounter && (forceCycle || r.Chance(1, 2)) {
		es = addTypeCycle(es, r)
	}
	es = addKeyCollisions(es, r)
	return declSet{Ents: es}, choices
}

// addKeyCollisions: struct FIELDS named like package-level declarations of the same set (variables, functions, types,
// constants - also ones that depend on the declaration holding the literal), used as KEYS of keyed struct literals.
// A key of a struct literal is a field name, never a reference: no entry is added to Refs.
//   - declared struct types (plain and mutually recursive) get 1..2 extra int fields named like random declarations; the
//     keyed literals of those types set them and the variables are read back;
//   - int initialisers and function bodies get a keyed literal of an ANONYMOUS struct type whose field is named like a
//     random declaration.
func addKeyCollisions(es []ent, r *vh.Rng) []ent {
	var names []string
	for _, e := range es {
		if e.Name != "Cnt" && e.Name != "Next" {
			names = append(names, e.Name)
		}
	}
	if len(names) == 0 {
		return es
	}
	for ti := range es {
		t := &es[ti]
		if t.Kind != "type" || (t.Shape != "struct" && t.Shape != "cyc") || !strings.HasSuffix(t.Text, " }") || !r.Chance(2, 3) {
			continue
		}
		positional := false // a positional literal lists every field: such types keep their fields
		for _, v := range es {
			positional = positional || (v.Kind == "var" && v.TName == t.Name && !v.Keyed && strings.Contains(v.Text, "= "+t.Name+"{"))
		}
		if positional {
			continue
		}
		var extra []string
		for k := 1 + r.Intn(2); k > 0; k-- {
			c := names[r.Intn(len(names))]
			dup := false
			for _, x := range extra {
				dup = dup || x == c
			}
			if !dup {
				extra = append(extra, c)
			}
		}
		for _, c := range extra {
			t.Text = strings.TrimSuffix(t.Text, " }") + "; " + c + " int }"
		}
		for vi := range es {
			v := &es[vi]
			if v.Kind != "var" || v.TName != t.Name || !v.Keyed || !strings.HasSuffix(v.Text, "}") {
				continue
			}
			for _, c := range extra {
				if r.Chance(3, 4) {
					v.Text = strings.TrimSuffix(v.Text, "}") + fmt.Sprintf(", %s: %d}", c, 1+r.Intn(50))
					if t.Shape == "cyc" {
						v.Show += " + " + v.Name + "." + c // Show is an int expression; plain struct variables are shown whole
					}
				}
			}
		}
	}
	for i := range es {
		e := &es[i]
		c := names[r.Intn(len(names))]
		lit := fmt.Sprintf("struct{ %s int }{%s: %d}.%s", c, c, 1+r.Intn(9), c)
		switch {
		case e.Kind == "var" && e.Shape == "int" && e.Init && e.Name != "Cnt" && !strings.HasSuffix(e.Text, "()") && r.Chance(1, 3):
			e.Text += " + " + lit
		case e.Kind == "func" && e.Name != "Next" && r.Chance(1, 4):
			e.Text = strings.Replace(e.Text, ") int { ", ") int { _ = "+lit+"; ", 1)
		}
	}
	return es
}

// addTypeCycle appends a family of 2..3 mutually recursive struct types (a TYPE cycle is valid Go: dep.Sorter emits a
// forward declaration, the reflect types of the others contain xreflect.Forward) linked through pointer / slice / map
// fields, and variables of those types: zero values, keyed and positional composite literals that do and do not set
// the link field, links to other variables of the family.  Every variable is read back (int field, through the link,
// link == nil).  Avoided (known finding C16-8): the slice/map link of a ZERO-valued variable is never read.
func addTypeCycle(es []ent, r *vh.Rng) []ent {
	m := 2 + r.Intn(2)
	base := len(es)
	tname := func(i int) string { return "R" + string(rune('a'+i%m)) }
	links := make([]string, m)
	for i := 0; i < m; i++ {
		links[i] = []string{"*%s", "*%s", "[]*%s", "map[int]*%s", "[]%s"}[r.Intn(5)]
	}
	links[r.Intn(m)] = "*%s" // at least one pointer link
	// a third field whose NAME varies between sets (histories redefine the family with other shapes: a member compiled
	// against a stale version of its neighbour then lacks the field)
	xf := make([]string, m)
	for i := 0; i < m; i++ {
		xf[i] = fmt.Sprintf("e%d", r.Intn(3))
		es = append(es, ent{Kind: "type", Name: tname(i), Shape: "cyc", Refs: []int{base + (i+1)%m},
			Text: fmt.Sprintf("type %s struct { l %s; n int; %s int }", tname(i), fmt.Sprintf(links[i], tname(i+1)), xf[i])})
	}
	for i := 0; i < m; i++ {
		t, tn := tname(i), tname(i+1)
		k := 1 + r.Intn(90)
		zero := len(es)
		// a keyed literal that does not set the link: the variable other literals point to
		es = append(es, ent{Kind: "var", Name: "L" + t, Init: true, Refs: []int{base + i}, Shape: "cyc", TName: t, Keyed: true,
			Text: fmt.Sprintf("var L%s = %s{n: %d, %s: %d}", t, t, k, xf[i], k+7), Show: "L" + t + ".n + L" + t + "." + xf[i]})
		_ = zero
		switch r.Intn(3) {
		case 0:
			sh := "Z" + t + ".n"
			if links[i] == "*%s" {
				sh = "Z" + t + ".l == nil"
			}
			es = append(es, ent{Kind: "var", Name: "Z" + t, Refs: []int{base + i}, Shape: "cyc", TName: t,
				Text: fmt.Sprintf("var Z%s %s", t, t), Show: sh})
		case 1:
			// the link field is set: keyed or positional
			var lit, sh string
			xn := xf[(i+1)%m] // the neighbour's varying field, set and read through the link
			switch links[i] {
			case "*%s":
				lit, sh = fmt.Sprintf("&%s{n: %d, %s: 5}", tn, k+1, xn), ".l.n"
			case "[]*%s":
				lit, sh = fmt.Sprintf("[]*%s{{n: %d, %s: 5}, nil}", tn, k+1, xn), ".l[0].n"
			case "map[int]*%s":
				lit, sh = fmt.Sprintf("map[int]*%s{3: {n: %d, %s: 5}}", tn, k+1, xn), ".l[3].n"
			default:
				lit, sh = fmt.Sprintf("[]%s{{n: %d, %s: 5}, {}}", tn, k+1, xn), ".l[0].n"
			}
			shx := strings.TrimSuffix(sh, "n") + xn
			txt := fmt.Sprintf("var P%s = %s{l: %s, n: %d}", t, t, lit, k+2)
			keyed := true
			if r.Bool() {
				txt = fmt.Sprintf("var P%s = %s{%s, %d, %d}", t, t, lit, k+2, k+4)
				keyed = false
			}
			es = append(es, ent{Kind: "var", Name: "P" + t, Init: true, Refs: []int{base + i, base + (i+1)%m}, Shape: "cyc", TName: t, Keyed: keyed,
				Text: txt, Show: "P" + t + sh + " + P" + t + ".n + P" + t + shx})
		default:
			if links[i] != "*%s" {
				break
			}
			// link to ANOTHER variable of the family: declared somewhere else in the text (its own index is base+m+...)
			target := -1
			for j, e := range es {
				if e.Kind == "var" && e.Name == "L"+tn {
					target = j
				}
			}
			txt := fmt.Sprintf("var Q%s = %s{&L%s, %d, %d}", t, t, tn, k+3, k+5)
			refs := []int{base + i}
			if target < 0 {
				// L<next> is declared later in this family: forward reference to a variable
				txt = fmt.Sprintf("var Q%s = &%s{n: %d}", t, t, k+3)
				es = append(es, ent{Kind: "var", Name: "Q" + t, Init: true, Refs: refs, Shape: "cyc", TName: t, Text: txt, Show: "Q" + t + ".n"})
				break
			}
			es = append(es, ent{Kind: "var", Name: "Q" + t, Init: true, Refs: append(refs, target), Shape: "cyc", TName: t,
				Text: txt, Show: "Q" + t + ".l.n * 2 + Q" + t + ".n"})
		}
	}
	return es
}

// genCyclic: a set with an initialisation cycle through variables and a function
func genCyclic(r *vh.Rng) declSet {
	s := genSet(r, false)
	base := len(s.Ents)
	switch r.Intn(3) {
	case 0:
		s.Ents = append(s.Ents,
			ent{Kind: "var", Name: "Vp", Text: "var Vp = Vq + 1", Refs: []int{base + 1}, Show: "Vp", Init: true},
			ent{Kind: "var", Name: "Vq", Text: "var Vq = Vp * 2", Refs: []int{base}, Show: "Vq", Init: true})
	case 1:
		s.Ents = append(s.Ents,
			ent{Kind: "func", Name: "Fr", Text: "func Fr(p int) int { return p + Vp }", Refs: []int{base + 1}, Show: "Fr(1)"},
			ent{Kind: "var", Name: "Vp", Text: "var Vp = Vq + 1", Refs: []int{base + 2}, Show: "Vp", Init: true},
			ent{Kind: "var", Name: "Vq", Text: "var Vq = Fr(1)", Refs: []int{base}, Show: "Vq", Init: true})
	case 2:
		s.Ents = append(s.Ents,
			ent{Kind: "var", Name: "Vp", Text: "var Vp = func() int { return Vp + 1 }()", Refs: []int{base}, Show: "Vp", Init: true})
	}
	s.Cyclic = true
	return s
}

// permute: a random textual order in which every function declaration precedes everything it references
// (known-finding class F2: a reference from a function declaration to an earlier-declared name is dropped)
func permute(s declSet, r *vh.Rng) []int {
	n := len(s.Ents)
	order := make([]int, n)
	for i := range order {
		order[i] = i
	}
	for i := n - 1; i > 0; i-- {
		j := r.Intn(i + 1)
		order[i], order[j] = order[j], order[i]
	}
	for iter := 0; iter < 4*n*n; iter++ {
		pos := make([]int, n)
		for p, e := range order {
			pos[e] = p
		}
		moved := false
		for _, f := range order {
			if s.Ents[f].Kind != "func" && !(s.Ents[f].Deep && avoidDeepRef) {
				continue
			}
			m := pos[f]
			for _, ref := range s.Ents[f].Refs {
				if ref != f && pos[ref] < m {
					m = pos[ref]
				}
			}
			if m < pos[f] {
				// move f to position m
				var o []int
				for _, e := range order {
					if e == f {
						continue
					}
					if pos[e] == m {
						o = append(o, f)
					}
					o = append(o, e)
				}
				order = o
				moved = true
				break
			}
		}
		if !moved {
			break
		}
	}
	return order
}

// declLevelVarOrder: the order in which the initialised variables come out when "earliest ready declaration" is applied to
// ALL declarations (consts, types and funcs included) using the generator's own reference lists
func declLevelVarOrder(s declSet, order []int) []string {
	done := map[int]bool{}
	var vars []string
	for len(done) < len(order) {
		progress := false
		for _, i := range order {
			if done[i] {
				continue
			}
			ready := true
			for _, r := range s.Ents[i].Refs {
				if r != i && !done[r] {
					ready = false
				}
			}
			if ready {
				done[i] = true
				if s.Ents[i].Kind == "var" && s.Ents[i].Init {
					vars = append(vars, s.Ents[i].Name)
				}
				progress = true
				break
			}
		}
		if !progress {
			return nil
		}
	}
	return vars
}

func text(s declSet, order []int) string {
	var l []string
	for _, i := range order {
		if s.Ents[i].Text != "" { // show-only entries (a second observation of a variable) have no declaration
			l = append(l, s.Ents[i].Text)
		}
	}
	return strings.Join(l, "\n")
}

// ---------- go/types ----------

type goInfo struct {
	Err       string
	Cycle     bool
	InitOrder []string
}

func typeCheck(src string) goInfo {
	fset := token.NewFileSet()
	f, err := goparser.ParseFile(fset, "p.go", "package p\n"+src, 0)
	if err != nil {
		return goInfo{Err: "parse: " + err.Error()}
	}
	info := &types.Info{}
	var first error
	conf := types.Config{Error: func(e error) {
		if first == nil {
			first = e
		}
	}}
	conf.Check("p", fset, []*ast.File{f}, info)
	if first != nil {
		m := first.Error()
		return goInfo{Err: m, Cycle: strings.Contains(m, "initialization cycle") || strings.Contains(m, "invalid recursive type") || strings.Contains(m, "refers to itself")}
	}
	var g goInfo
	for _, in := range info.InitOrder {
		for _, v := range in.Lhs {
			g.InitOrder = append(g.InitOrder, v.Name())
		}
	}
	return g
}

// ---------- gomacro ----------

type evalResult struct {
	Err    string            `json:"err,omitempty"`
	PreErr string            `json:"pre_err,omitempty"` // history: the FIRST evaluation failed (reported by the plain stream, not here)
	Links  []typeLink        `json:"links,omitempty"`   // history: struct types of the last evaluation, see typeLinks
	Loop   bool              `json:"loop,omitempty"`
	Values map[string]string `json:"values,omitempty"`
}

func evalGomacro(pre, src string, shows []string) (res evalResult) {
	ir := fast.New()
	ir.Comp.Globals.Stdout = io.Discard
	ir.Comp.Globals.Stderr = io.Discard
	if pre != "" {
		if p := vh.Catch(func() { ir.Eval(pre) }); p != nil {
			res.PreErr = strings.ReplaceAll(fmt.Sprint(p), "\n", " | ")
		}
	}
	if p := vh.Catch(func() { ir.Eval(src) }); p != nil {
		res.Err = strings.ReplaceAll(fmt.Sprint(p), "\n", " | ")
		res.Loop = strings.Contains(res.Err, "declaration loop")
		return
	}
	if pre != "" {
		res.Links = typeLinks(ir, src)
	}
	res.Values = map[string]string{}
	for _, sh := range shows {
		if p := vh.Catch(func() {
			if x, typed := typedShow[sh]; typed { // CGROUP stream: type and value (compiled Go prints fmt.Sprintf("%T=%v", x, x))
				vals, ts := ir.Eval(x)
				if len(vals) == 1 && len(ts) == 1 && vals[0].IsValid() && ts[0] != nil {
					tn := ts[0].Name()
					if tn == "" {
						tn = ts[0].String()
					}
					res.Values[sh] = fmt.Sprintf("%s=%v", tn, vals[0].Interface())
				} else {
					res.Values[sh] = "<none>"
				}
				return
			}
			vals, _ := ir.Eval(sh)
			if len(vals) > 0 && vals[0].IsValid() {
				res.Values[sh] = fmt.Sprintf("%v", vals[0].Interface())
			} else {
				res.Values[sh] = "<none>"
			}
		}); p != nil {
			res.Values[sh] = "PANIC " + strings.ReplaceAll(fmt.Sprint(p), "\n", " | ")
		}
	}
	return
}

// typeLink: the struct type Type (as bound in Comp.Types after the evaluation) has a field whose type refers, through
// pointers / slices / arrays / maps, to a named type called Ref that the same source declares; Current tells whether that
// type is identical to the type NOW bound to the name Ref.  Go: a declaration refers to the types of its own package
// as declared by this source, so Current must be true for every link.
type typeLink struct {
	Type    string `json:"type"`
	Field   string `json:"field"`
	Ref     string `json:"ref"`
	Current bool   `json:"current"`
}

func declaredTypes(src string) []string {
	fset := token.NewFileSet()
	f, err := goparser.ParseFile(fset, "p.go", "package p\n"+src, 0)
	if err != nil {
		return nil
	}
	var names []string
	for _, d := range f.Decls {
		if gd, ok := d.(*ast.GenDecl); ok && gd.Tok == token.TYPE {
			for _, sp := range gd.Specs {
				names = append(names, sp.(*ast.TypeSpec).Name.Name)
			}
		}
	}
	sort.Strings(names)
	return names
}

func typeLinks(ir *fast.Interp, src string) (links []typeLink) {
	names := declaredTypes(src)
	declared := map[string]bool{}
	for _, n := range names {
		declared[n] = true
	}
	for _, n := range names {
		vh.Catch(func() {
			t := ir.Comp.Types[n]
			if t == nil || t.Kind() != reflect.Struct {
				return
			}
			for i := 0; i < t.NumField(); i++ {
				f := t.Field(i)
				ft := f.Type
				for depth := 0; ft != nil && depth < 8; depth++ {
					k := ft.Kind()
					if ft.Named() || !(k == reflect.Ptr || k == reflect.Slice || k == reflect.Array || k == reflect.Map) {
						break
					}
					ft = ft.Elem()
				}
				if ft == nil || !ft.Named() || !declared[ft.Name()] {
					continue
				}
				cur := ir.Comp.Types[ft.Name()]
				links = append(links, typeLink{Type: n, Field: f.Name, Ref: ft.Name(), Current: cur != nil && ft.IdenticalTo(cur)})
			}
		})
	}
	return
}

// histItems: the TypeFwd / Type elements of the sorter's output as items of the Coq history model (coq/C16/HistModel.v);
// references = the Deps that name a type declared by the same source
func histItems(out []outDecl) string {
	isType := map[string]bool{}
	for _, d := range out {
		if d.Kind == "Type" {
			isType[d.Name] = true
		}
	}
	var items []string
	for _, d := range out {
		switch d.Kind {
		case "TypeFwd":
			items = append(items, "IFwd "+vh.CoqStr(d.Name))
		case "Type":
			var refs []string
			for _, x := range d.Deps {
				if isType[x] {
					refs = append(refs, vh.CoqStr(x))
				}
			}
			items = append(items, "IType "+vh.CoqStr(d.Name)+" "+vh.CoqList(refs, "str"))
		}
	}
	return vh.CoqList(items, "item")
}

// ---------- dep.Sorter observation + model case (as in cmd/c17, declaration runs only) ----------

type outDecl struct {
	Kind string   `json:"k"`
	Name string   `json:"n"`
	Pos  int      `json:"p"`
	Deps []string `json:"d,omitempty"`
}

func coqDecl(kind, name string, pos int, deps []string) string {
	var ds []string
	for _, d := range deps {
		ds = append(ds, vh.CoqStr(d))
	}
	return fmt.Sprintf("(mkDecl K%s %s %d%%N %s)", kind, vh.CoqStr(name), pos, vh.CoqList(ds, "str"))
}

func sorterRun(src string) (out []outDecl, loop bool, other string, model string) {
	var p parser.Parser
	p.Init(etoken.NewFileSet(), "c16.go", 0, []byte(src))
	nodes, err := p.Parse()
	if err != nil {
		return nil, false, "parse: " + err.Error(), ""
	}
	if pv := vh.Catch(func() {
		s := dep.NewSorter()
		s.LoadNodes(nodes)
		for _, d := range s.All() {
			out = append(out, outDecl{d.Kind.String(), d.Name, int(d.Pos), append([]string(nil), d.Deps...)})
		}
	}); pv != nil {
		out = nil
		if strings.Contains(fmt.Sprint(pv), "declaration loop") {
			loop = true
		} else {
			other = fmt.Sprint(pv)
		}
	}
	if pv := vh.Catch(func() {
		sc := dep.NewScope(nil)
		sc.Nodes(append([]ast.Node(nil), nodes...))
		list := sc.Decls.List()
		sort.SliceStable(list, func(a, b int) bool { return list[a].Pos < list[b].Pos })
		var ds []string
		for _, d := range list {
			ds = append(ds, coqDecl(d.Kind.String(), d.Name, int(d.Pos), d.Deps))
		}
		model = vh.CoqList(ds, "decl")
	}); pv != nil {
		other = "dep.Scope: " + fmt.Sprint(pv)
	}
	return
}

// ---------- compiled-Go oracle ----------

type variant struct {
	ID     int
	Set    int
	Src    string
	Shows  []string
	Origin string
	Key    string
	Pre    string // history: evaluated first, in the SAME interpreter (Src then redefines its names)
}

func buildOracle(dir string, vs []variant) (map[int]map[string]string, error) {
	os.RemoveAll(dir)
	if err := os.MkdirAll(dir, 0o755); err != nil {
		return nil, err
	}
	os.WriteFile(filepath.Join(dir, "go.mod"), []byte("module oracle\n\ngo 1.18\n"), 0o644)
	var imports, calls strings.Builder
	for _, v := range vs {
		pkg := fmt.Sprintf("c%05d", v.ID)
		os.MkdirAll(filepath.Join(dir, pkg), 0o755)
		var sb strings.Builder
		sb.WriteString("package " + pkg + "\n\nimport \"fmt\"\n\nvar _ = fmt.Sprint\n\n" + v.Src + "\n\nfunc Values() []string {\n\treturn []string{\n")
		for _, sh := range v.Shows {
			sb.WriteString("\t\tfmt.Sprintf(\"%v\", " + sh + "),\n")
		}
		sb.WriteString("\t}\n}\n")
		os.WriteFile(filepath.Join(dir, pkg, "x.go"), []byte(sb.String()), 0o644)
		fmt.Fprintf(&imports, "\t%q\n", "oracle/"+pkg)
		fmt.Fprintf(&calls, "\tout[%d] = %s.Values()\n", v.ID, pkg)
	}
	main := "package main\n\nimport (\n\t\"encoding/json\"\n\t\"os\"\n" + imports.String() + ")\n\nfunc main() {\n\tout := map[int][]string{}\n" + calls.String() + "\tjson.NewEncoder(os.Stdout).Encode(out)\n}\n"
	os.WriteFile(filepath.Join(dir, "main.go"), []byte(main), 0o644)
	env := append(os.Environ(), "GOFLAGS=-mod=mod", "GOPROXY=off", "GOSUMDB=off", "GOTOOLCHAIN=local", "GO111MODULE=on")
	cmd := exec.Command("go", "build", "-o", "oracle.bin", ".")
	cmd.Dir, cmd.Env = dir, env
	if b, err := cmd.CombinedOutput(); err != nil {
		return nil, fmt.Errorf("go build: %v\n%s", err, b)
	}
	run := exec.Command(filepath.Join(dir, "oracle.bin"))
	run.Dir = dir
	var stdout bytes.Buffer
	run.Stdout = &stdout
	if err := run.Run(); err != nil {
		return nil, fmt.Errorf("oracle run: %v", err)
	}
	raw := map[int][]string{}
	if err := json.Unmarshal(stdout.Bytes(), &raw); err != nil {
		return nil, err
	}
	res := map[int]map[string]string{}
	for _, v := range vs {
		m := map[string]string{}
		for i, sh := range v.Shows {
			if i < len(raw[v.ID]) {
				m[sh] = raw[v.ID][i]
				if _, typed := typedShow[sh]; typed { // %T of a declared type: drop the package qualifier
					m[sh] = strings.TrimPrefix(m[sh], fmt.Sprintf("c%05d.", v.ID))
				}
			}
		}
		res[v.ID] = m
	}
	return res, nil
}

type corpusEntry struct {
	Src   string   `json:"src"`
	Key   string   `json:"key"`
	Shows []string `json:"shows"`
	// Defer: the exact input of a finding that is not yet registered in known_findings.json; while its key is not registered
	// a failure is listed in report.json extra "deferred_corpus_failures" instead of being reported
	Defer bool `json:"defer_until_registered"`
}

// registeredKeys: the keys recorded for property C16 in $VERIF_DIR/known_findings.json
func registeredKeys(dir string) map[string]bool {
	out := map[string]bool{}
	var kf struct {
		Findings []struct {
			Property string   `json:"property"`
			Key      string   `json:"key"`
			Other    []string `json:"other_keys"`
		} `json:"findings"`
	}
	if b, err := os.ReadFile(filepath.Join(dir, "known_findings.json")); err == nil && json.Unmarshal(b, &kf) == nil {
		for _, f := range kf.Findings {
			if f.Property == "C16" {
				out[f.Key] = true
				for _, k := range f.Other {
					out[k] = true
				}
			}
		}
	}
	return out
}

// the exact input of finding C16-11 (corpus/C16/13-known-type-reference-inside-anonymous-type-literal.json)
const deepRefCanary = "type NodeB struct { Back *NodeA }\ntype NodeA struct { Next *NodeB }\ntype P struct { First struct { X NodeA } }"

func main() {
	a := vh.ParseArgs()
	rng := vh.NewRng(a.Seed)
	rep := vh.NewReport(a, "random valid sets of 3..10 package-level declarations (const/var/type/func; acyclic references through initialisers, "+
		"conversions, composite literals, var types, struct fields, array lengths, function bodies with self recursion, function literals; "+
		"half of the sets without counter also declare 2..3 MUTUALLY RECURSIVE struct types (pointer / []*T / map[int]*T / []T links) with zero-valued variables and variables built by keyed and positional composite literals "+
		"that set / do not set the link or point to another variable of the family, all read back (the slice/map link of a zero-valued variable is never read: known finding C16-8); "+
		"1/3 of the sets use a side-effecting counter Next() so that the initialisation order is observable), each evaluated by ONE fast.Interp.Eval "+
		"in 3 (quick) / 5 (thorough) random textual orders and compiled by go build in the same orders; plus sets with an initialisation cycle "+
		"(checked against go/types); plus the corpus. "+
		"Struct FIELDS are named like package-level declarations of the same set (vars, funcs, types, consts; declared struct types incl. the recursive family, and anonymous struct types inside int initialisers and function bodies) "+
		"and keyed struct literals use those names as keys (field names, never references); identifier keys of map/array literals (references) only next to another reference to the same name (known finding C16-10). "+
		"ANON (30 quick / 300 thorough sets, own PRNG stream): a set with a family of mutually recursive struct types plus 2..4 type declarations that refer to the family from INSIDE anonymous struct/func/map/chan/slice type literals "+
		"(scope depth >= 2; nested up to 3 levels, by value and through pointers) and zero-valued / keyed-literal variables of those types, read back without touching a by-value field of a forward-declared type; "+
		"while finding C16-11 reproduces (canary = its exact input) every permutation puts such a type declaration before the names it uses. "+
		"HISTORIES (40 quick / 400 thorough): a set with a family of mutually recursive types is evaluated, then a REDEFINING set (same names and kinds, other shapes/links/field names/initialisers, again with a type cycle; every 5th: the same set in another order) "+
		"is evaluated in the SAME interpreter and every name is compared with compiled Go of the second set alone. Excluded classes (known findings): locals/parameters named like a declaration (#1), "+
		"a function declaration that refers to a name declared earlier in the text (#2; every permutation puts a function before the names it uses), "+
		"mutually recursive functions (#3), methods used by initialisers (C16-4), side-effecting sets whose declaration-level variable order differs from Go's variable-level order (C16-6). non-trivial = at least one reference between declarations; "+
		"CGROUP (40 quick / 400 thorough sets, own PRNG stream, regenerated until go/types accepts): a random set plus 1..2 parenthesised const GROUPS of 3..7 specs mixing typed specs (narrow ints, floats, rune/byte, string, named types of the set), "+
		"untyped specs with explicit values (ints up to 1<<40, floats, runes, strings, iota expressions, references to earlier constants) and implicit-repetition specs, 1..2 names per spec; every constant is observed with %T=%v, "+
		"and through constant expressions / variables / function bodies where untypedness matters (K/2, K*1000/8, K+0.5, K/4.0, K*K/7, conversions). "+
		"distinct by SHA-256 of the permuted text.")
	cw := vh.NewCases(a, "From Coq Require Import List NArith ZArith.\nFrom Verif Require Import Common.GoStr C17.Model C16.Model.\nImport ListNotations.\nOpen Scope Z_scope.", "case", "mismatches", 250)

	nSets, nPerm, nCyc, nHist := 70, 3, 40, 40
	nAnon := 30
	nGroup := 40
	if a.Thorough() {
		nGroup = 400
		nSets, nPerm, nCyc, nHist = 500, 5, 150, 400
		nAnon = 300
	}
	avoidDeepRef = vh.Catch(func() {
		ir := fast.New()
		ir.Comp.Globals.Stdout, ir.Comp.Globals.Stderr = io.Discard, io.Discard
		ir.Eval(deepRefCanary)
	}) != nil
	rep.Extra["defect_present:reference-from-anonymous-type-literal-to-earlier-name-dropped(C16-11)"] = avoidDeepRef
	registered := registeredKeys(os.Getenv("VERIF_DIR"))
	deferKey := map[string]bool{}
	deferred := []string{}
	if a.N > 0 {
		nSets = a.N
	}
	var vs []variant
	fail := func(v variant, what string, got, want interface{}) {
		key := v.Key
		if key == "" {
			key = v.Src
		}
		in := map[string]interface{}{"src": v.Src, "origin": v.Origin, "key": v.Key}
		if v.Pre != "" {
			in["evaluated_before_in_the_same_interpreter"] = v.Pre
			if v.Key == "" {
				key = v.Pre + "\n----\n" + v.Src
			}
		}
		if deferKey[key] && !registered[key] {
			deferred = append(deferred, fmt.Sprintf("%s: %s: got %v want %v", key, what, got, want))
			return
		}
		rep.Fail(vh.Failure{Key: key, What: what, Input: in, Got: got, Want: want})
	}
	// corpus first
	files, _ := filepath.Glob(filepath.Join(os.Getenv("VERIF_DIR"), "corpus", "C16", "*.json"))
	sort.Strings(files)
	for _, f := range files {
		b, err := os.ReadFile(f)
		var c corpusEntry
		if err == nil && json.Unmarshal(b, &c) == nil && c.Src != "" {
			vs = append(vs, variant{ID: len(vs), Set: -1, Src: c.Src, Shows: c.Shows, Origin: "corpus", Key: c.Key})
			if c.Defer && c.Key != "" {
				deferKey[c.Key] = true
			}
		}
	}
	cyclicFrom := map[int]bool{}
	excluded6 := 0
	arng := vh.NewRng(a.Seed*7919 + 16) // own PRNG stream of the ANON sets: the streams above keep their seeds
	for si := 0; si < nSets+nCyc+nAnon; si++ {
		var s declSet
		if si < nSets {
			s = genSet(rng, si%3 == 0)
		} else if si < nSets+nCyc {
			s = genCyclic(rng)
		} else {
			s, _ = genSetK(arng, false, nil, true)
			s.Ents = addAnonRefs(s.Ents, arng)
		}
		var shows []string
		for _, e := range s.Ents {
			if e.Show != "" {
				shows = append(shows, e.Show)
			}
		}
		seen := map[string]bool{}
		for k := 0; k < nPerm; k++ {
			prng := rng
			if si >= nSets+nCyc {
				prng = arng
			}
			perm := permute(s, prng)
			src := text(s, perm)
			if seen[src] {
				continue
			}
			seen[src] = true
			if si < nSets && si%3 == 0 {
				// side effects make the order observable: skip the known-finding class C16-6 (declaration-level order of the
				// variables differs from Go's variable-level order because a variable waits for a later const/type/func)
				if gi := typeCheck(src); gi.Err == "" && strings.Join(declLevelVarOrder(s, perm), " ") != strings.Join(gi.InitOrder, " ") {
					excluded6++
					continue
				}
			}
			v := variant{ID: len(vs), Set: si, Src: src, Shows: shows, Origin: "random-valid"}
			if s.Cyclic {
				v.Origin = "random-cyclic"
				cyclicFrom[v.ID] = true
			}
			if si >= nSets+nCyc {
				rep.Dist("set:with-references-from-anonymous-type-literals")
			}
			vs = append(vs, v)
		}
	}
	// HISTORIES: a set with a family of mutually recursive types is evaluated, then a REDEFINING set (the same names and kinds,
	// other shapes / links / initialisers, again with a type cycle; or the very same set in another textual order) is
	// evaluated in the SAME interpreter.  Both sets are counter-free (pure), so after the second evaluation every name must
	// have the value compiled Go gives the second set alone.
	for h := 0; h < nHist; h++ {
		s1, choices := genSetK(rng, false, nil, true)
		var s2 declSet
		mode := "redefine-other-shapes"
		if h%5 == 4 {
			s2, mode = s1, "redefine-same-set-other-order"
		} else {
			s2, _ = genSetK(rng, false, choices, true)
		}
		var shows []string
		for _, e := range s2.Ents {
			if e.Show != "" {
				shows = append(shows, e.Show)
			}
		}
		vs = append(vs, variant{ID: len(vs), Set: nSets + nCyc + h, Src: text(s2, permute(s2, rng)), Shows: shows,
			Origin: "history:" + mode, Pre: text(s1, permute(s1, rng))})
		vs[len(vs)-1].Set += nAnon
	}
	// CGROUP (cgroup.go): sets with parenthesised const groups mixing typed / untyped-explicit / implicit-repetition specs and
	// uses that make the (un)typedness of every constant observable; own PRNG stream; sets go/types rejects (a value that
	// overflows the narrow type picked for it) are regenerated
	grng := vh.NewRng(a.Seed*104729 + 1601)
	for gk := 0; gk < nGroup; gk++ {
		var s declSet
		valid := false
		for try := 0; try < 30 && !valid; try++ {
			s, _ = genSetK(grng, false, nil, false)
			s.Ents = addConstGroups(s.Ents, grng)
			id := make([]int, len(s.Ents))
			for i := range id {
				id[i] = i
			}
			// the observed expressions are compiled by the oracle too (as arguments of fmt.Sprintf): they must be valid Go as well
			// (e.g. `K + 0.5` for a K that is typed by implicit repetition, `K*K/7` overflowing int are not)
			use := []string{"func verifShowUse(xs ...interface{}) {}", "func verifShows() {"}
			for _, e := range s.Ents {
				if e.Show == "" {
					continue
				}
				x := e.Show
				if tx, typed := typedShow[x]; typed {
					x = tx
				}
				use = append(use, "\tverifShowUse("+x+")")
			}
			use = append(use, "}")
			valid = typeCheck(text(s, id)+"\n"+strings.Join(use, "\n")).Err == ""
		}
		if !valid {
			rep.Dist("cgroup:no-valid-set-in-30-tries")
			continue
		}
		var shows []string
		for _, e := range s.Ents {
			if e.Show != "" {
				shows = append(shows, e.Show)
			}
		}
		seen := map[string]bool{}
		for k := 0; k < nPerm; k++ {
			src := text(s, permute(s, grng))
			if seen[src] {
				continue
			}
			seen[src] = true
			rep.Dist("set:with-const-groups")
			vs = append(vs, variant{ID: len(vs), Set: nSets + nCyc + nAnon + nHist + gk, Src: src, Shows: shows, Origin: "random-valid"})
		}
	}
	// go/types on every variant; only accepted ones are compiled
	infos := make([]goInfo, len(vs))
	var compile []variant
	for i, v := range vs {
		infos[i] = typeCheck(v.Src)
		if infos[i].Err == "" {
			compile = append(compile, v)
		} else if v.Origin == "random-valid" || strings.HasPrefix(v.Origin, "history:") {
			fail(v, "harness: generated set is not valid Go", infos[i].Err, nil)
		} else if v.Origin == "random-cyclic" && !infos[i].Cycle {
			fail(v, "harness: cyclic set rejected by go/types for another reason", infos[i].Err, nil)
		}
	}
	t0 := time.Now()
	oracle := map[int]map[string]string{}
	os.RemoveAll(a.Path("oracle"))
	for k := 0; k*300 < len(compile); k++ { // batches of 300 packages per `go build`
		hi := (k + 1) * 300
		if hi > len(compile) {
			hi = len(compile)
		}
		part, err := buildOracle(a.Path(fmt.Sprintf("oracle/b%02d", k)), compile[k*300:hi])
		if err != nil {
			rep.Fail(vh.Failure{Key: "harness:oracle-build", What: "compiled-Go oracle did not build/run", Got: err.Error()})
			continue
		}
		for id, m := range part {
			oracle[id] = m
		}
	}
	rep.Extra["oracle_build_seconds"] = int(time.Since(t0).Seconds())
	wd := vh.NewWatchdog(rep, 180*time.Second)
	idx := 0
	var histCases []string
	os.Remove(a.Path("cases_hist.v"))
	for i, v := range vs {
		wd.Beat(v)
		gi := infos[i]
		res := evalGomacro(v.Pre, v.Src, v.Shows)
		out, loop, other, model := sorterRun(v.Src)
		if v.Pre != "" {
			if gp := typeCheck(v.Pre); gp.Err != "" {
				fail(v, "harness: first set of the history is not valid Go", gp.Err, nil)
			}
			if res.PreErr != "" {
				rep.Dist("history:first-evaluation-failed")
			}
			stale := false
			for _, l := range res.Links {
				if !l.Current && !stale {
					stale = true
					fail(v, "a redefined type refers to a STALE version of a type redefined by the same evaluation (field "+l.Type+"."+l.Field+" -> "+l.Ref+")", res.Links, "every link identical to the type now bound to the name")
				}
			}
			rep.Dist(fmt.Sprintf("history:type-links-observed:%d", min(len(res.Links), 6)))
			// model case (coq/C16/HistModel.v): both sorter outputs -> the same link verdicts
			out1, loop1, other1, _ := sorterRun(v.Pre)
			if res.PreErr == "" && res.Err == "" && !loop1 && other1 == "" && !loop && other == "" {
				var obs []string
				for _, l := range res.Links {
					obs = append(obs, fmt.Sprintf("(%s, %s, %s)", vh.CoqStr(l.Type), vh.CoqStr(l.Ref), vh.CoqBool(l.Current)))
				}
				hidx := 100000 + len(histCases)
				histCases = append(histCases, fmt.Sprintf("mkHCase %d [%s; %s] %s", hidx, histItems(out1), histItems(out), vh.CoqList(obs, "(str * str * bool)")))
				rep.CaseInput(hidx, map[string]interface{}{"src": v.Src, "origin": v.Origin, "evaluated_before_in_the_same_interpreter": v.Pre, "links": res.Links})
			}
		}
		nrefs := strings.Count(model, "[") // rough: any dependency list
		rep.Count(v.Src, nrefs > 0)
		rep.Dist("origin:" + v.Origin)
		if strings.Contains(v.Src, "type Ra struct") {
			rep.Dist("set:with-mutually-recursive-struct-types")
		}
		switch {
		case gi.Err == "":
			rep.Dist("go:accepted")
			if res.Err != "" {
				what := "valid Go declaration set rejected by gomacro"
				if res.Loop {
					what = "valid Go declaration set rejected as declaration loop"
				}
				fail(v, what, res.Err, "accepted by go/types and go build")
				rep.Dist("gomacro:error")
				break
			}
			rep.Dist("gomacro:ok")
			want, have := oracle[v.ID]
			if !have {
				rep.Dist("go:no-oracle-values(batch failed)")
			}
			for _, sh := range v.Shows {
				if have && res.Values[sh] != want[sh] {
					fail(v, "value differs from compiled Go: "+sh, res.Values[sh], want[sh])
					break
				}
			}
			// (2) order of initialised variables vs go/types InitOrder
			if other == "" && !loop {
				inited := map[string]bool{}
				for _, n := range gi.InitOrder {
					inited[n] = true
				}
				var got []string
				for _, d := range out {
					if (d.Kind == "Var" || d.Kind == "VarMulti") && inited[d.Name] {
						got = append(got, d.Name)
					}
				}
				// diagnostic only (the property speaks about values): known finding C16-6
				if strings.Join(got, " ") != strings.Join(gi.InitOrder, " ") {
					rep.Dist("var-order:differs-from-go/types-InitOrder")
				} else {
					rep.Dist("var-order:equals-go/types-InitOrder")
				}
			}
		case gi.Cycle:
			rep.Dist("go:cycle")
			if res.Err == "" {
				fail(v, "initialisation cycle accepted by gomacro", res.Values, gi.Err)
				rep.Dist("gomacro:ok")
			} else if res.Loop {
				rep.Dist("gomacro:declaration-loop")
			} else {
				rep.Dist("gomacro:other-error")
			}
		default:
			rep.Dist("go:other-error")
		}
		dupNames := false
		seenName := map[string]bool{}
		for _, d := range out {
			if seenName[d.Name] {
				dupNames = true // e.g. several `var _`: outside the premise (distinct names) of the Go-order theorem, see C16-5
			}
			seenName[d.Name] = true
		}
		if !dupNames && (other == "" && model != "" && gi.Err == "" || gi.Cycle && other == "") {
			obs := "ObsLoop"
			if !loop {
				var ds []string
				for _, d := range out {
					ds = append(ds, coqDecl(d.Kind, d.Name, d.Pos, d.Deps))
				}
				obs = "(ObsOk " + vh.CoqList(ds, "decl") + ")"
			}
			cw.Add(fmt.Sprintf("mkCase %d %s %s", idx, model, obs))
			rep.CaseInput(idx, map[string]interface{}{"src": v.Src, "origin": v.Origin, "evaluated_before_in_the_same_interpreter": v.Pre})
			idx++
		}
		if i%53 == 7 {
			rep.Sample(map[string]interface{}{"src": v.Src, "evaluated_before_in_the_same_interpreter": v.Pre, "gomacro": res, "go": oracle[v.ID], "init_order": gi.InitOrder})
		}
	}
	cw.Close()
	if len(histCases) > 0 {
		body := "From Coq Require Import List NArith ZArith.\nFrom Verif Require Import Common.GoStr C16.HistModel.\nImport ListNotations.\nOpen Scope Z_scope.\n" +
			"Definition cases : list hcase := [\n " + strings.Join(histCases, ";\n ") + "\n].\n" +
			"Definition verif_mismatches : list Z := Eval vm_compute in hist_mismatches cases.\nPrint verif_mismatches.\n"
		os.WriteFile(a.Path("cases_hist.v"), []byte(body), 0o644)
	}
	rep.Extra["deferred_corpus_failures"] = deferred
	rep.Extra["history_model_cases"] = len(histCases)
	rep.Extra["variants_compiled_by_go_build"] = len(compile)
	rep.Extra["declaration_sets"] = nSets + nCyc + nAnon
	rep.Extra["excluded_by_known_finding_class_C16_6"] = excluded6
	rep.Write()
}

func min(a, b int) int {
	if a < b {
		return a
	}
	return b
}

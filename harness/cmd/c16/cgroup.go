// CGROUP stream of c16: parenthesised const GROUPS mixing typed specs, untyped specs with explicit values and
// implicit-repetition specs (with and without iota), followed by uses in which the (un)typedness of every constant is
// observable: %T of the constant, integer vs float division, arithmetic that overflows a narrow type, mixed-kind
// arithmetic, narrow-typed variables initialised from the constant.  Oracle: the same text compiled by go build.
package main

import (
	"fmt"
	"strings"

	"verifh/vh"
)

// typedShow: observation (as compiled by the oracle) -> the expression whose TYPE and value it prints; gomacro evaluates the
// expression itself and prints the name of the type Eval returns
var typedShow = map[string]string{}

func typeShow(x string) string {
	sh := fmt.Sprintf(`fmt.Sprintf("%%T=%%v", %s, %s)`, x, x)
	typedShow[sh] = x
	return sh
}

// addConstGroups appends 1..2 const groups (one ent holding the whole group, show-only ents for the observations) and the
// variables / functions that use their constants.  The caller filters the set through go/types (a narrow type may overflow).
func addConstGroups(es []ent, r *vh.Rng) []ent {
	var outerConst, namedTypes []int
	for i, e := range es {
		if e.Kind == "const" && e.Shape == "int" && e.Text != "" {
			outerConst = append(outerConst, i)
		}
		if e.Kind == "type" && e.Shape == "named" {
			namedTypes = append(namedTypes, i)
		}
	}
	numTypes := []string{"int8", "uint8", "int16", "uint16", "int32", "int64", "uint", "float32", "float64", "rune", "byte"}
	for g, ng := 0, 1+r.Intn(2); g < ng; g++ {
		type cinfo struct {
			name  string
			class string // "untyped" "typed" "string"
		}
		var consts []cinfo
		var lines []string
		refs := map[int]bool{}
		class := ""      // class of the current (explicit or repeated) value list
		haveVal := false // an earlier spec has values: implicit repetition allowed
		width := 1       // names per spec of the current value list
		nspec := 3 + r.Intn(5)
		for k := 0; k < nspec; k++ {
			mk := func() string {
				n := fmt.Sprintf("G%c%d", 'a'+g, len(consts))
				return n
			}
			choice := r.Intn(10)
			if !haveVal && choice >= 7 {
				choice = r.Intn(7)
			}
			value := func(cl string) string {
				if cl == "string" {
					return []string{`"s"`, `"ab"`, `"x" + "yz"`}[r.Intn(3)]
				}
				switch r.Intn(8) {
				case 0:
					return "iota"
				case 1:
					return fmt.Sprintf("iota + %d", 1+r.Intn(9))
				case 2:
					return fmt.Sprintf("iota * %d", 2+r.Intn(9))
				case 3:
					return "1 << iota"
				case 4:
					if len(consts) > 0 && r.Bool() { // an earlier constant of the same group
						return consts[r.Intn(len(consts))].name + " + 1"
					}
					if len(outerConst) > 0 {
						j := outerConst[r.Intn(len(outerConst))]
						refs[j] = true
						return es[j].Name + " + 2"
					}
					return "5"
				case 5:
					if cl == "untyped" {
						return []string{"1000", "70000", "300", "1 << 40", "2.5", "'a'", "7.0", "1e3"}[r.Intn(8)]
					}
					return fmt.Sprint(100 + r.Intn(100))
				}
				return fmt.Sprint(1 + r.Intn(9))
			}
			switch {
			case choice < 3: // typed spec with explicit values
				t := numTypes[r.Intn(len(numTypes))]
				cl := "typed"
				if len(namedTypes) > 0 && r.Chance(1, 4) {
					j := namedTypes[r.Intn(len(namedTypes))]
					t = es[j].Name
					refs[j] = true
				} else if r.Chance(1, 8) {
					t, cl = "string", "string"
				}
				width = 1
				if r.Chance(1, 5) {
					width = 2
				}
				var ns, vs []string
				for w := 0; w < width; w++ {
					vs = append(vs, value(cl))
				}
				for w := 0; w < width; w++ {
					n := mk()
					ns = append(ns, n)
					consts = append(consts, cinfo{n, cl})
				}
				lines = append(lines, "\t"+strings.Join(ns, ", ")+" "+t+" = "+strings.Join(vs, ", "))
				class, haveVal = cl, true
			case choice < 7: // untyped spec with explicit values
				cl := "untyped"
				if r.Chance(1, 8) {
					cl = "string"
				}
				width = 1
				if r.Chance(1, 5) {
					width = 2
				}
				var ns, vs []string
				for w := 0; w < width; w++ {
					vs = append(vs, value(cl))
				}
				for w := 0; w < width; w++ {
					n := mk()
					ns = append(ns, n)
					consts = append(consts, cinfo{n, cl})
				}
				lines = append(lines, "\t"+strings.Join(ns, ", ")+" = "+strings.Join(vs, ", "))
				class, haveVal = cl, true
			default: // implicit repetition of the previous value list (and of its type, if any)
				var ns []string
				for w := 0; w < width; w++ {
					n := mk()
					ns = append(ns, n)
					consts = append(consts, cinfo{n, class})
				}
				lines = append(lines, "\t"+strings.Join(ns, ", "))
			}
		}
		gi := len(es)
		var rl []int
		for j := range es {
			if refs[j] {
				rl = append(rl, j)
			}
		}
		es = append(es, ent{Kind: "const", Name: consts[0].name, Shape: "group", Refs: rl,
			Text: "const (\n" + strings.Join(lines, "\n") + "\n)", Show: typeShow(consts[0].name)})
		for _, c := range consts[1:] {
			es = append(es, ent{Kind: "const", Name: c.name, Shape: "group", Show: typeShow(c.name)})
		}
		// uses
		for _, c := range consts {
			if !r.Chance(2, 3) {
				continue
			}
			var x string
			switch c.class {
			case "string":
				x = []string{c.name + ` + "!"`, "len(" + c.name + ")"}[r.Intn(2)]
			case "typed":
				x = []string{c.name + " / 2", c.name + " + 1", "float64(" + c.name + ") / 4", c.name + " * 3 / 2"}[r.Intn(4)]
			default:
				x = []string{c.name + " / 2", c.name + " * 1000 / 8", c.name + " + 0.5", c.name + " / 4.0", "float32(" + c.name + ") / 8",
					c.name + " * " + c.name + " / 7", "1 / (" + c.name + " + 1.0)"}[r.Intn(7)]
			}
			switch r.Intn(3) {
			case 0: // observed directly (constant expression)
				es = append(es, ent{Kind: "const", Name: c.name, Shape: "group", Show: typeShow(x)})
			case 1:
				n := "U" + c.name
				es = append(es, ent{Kind: "var", Name: n, Shape: "group", Init: true, Refs: []int{gi}, Text: "var " + n + " = " + x,
					Show: typeShow(n)})
			case 2:
				if c.class == "string" {
					continue
				}
				n := "H" + c.name
				es = append(es, ent{Kind: "func", Name: n, Refs: []int{gi}, Show: n + "(3)",
					Text: "func " + n + "(p int) int { q := " + x + "; return p + int(q) }"})
			}
		}
	}
	return es
}

// chains: bounded-exhaustive stream of directly nested unquote chains.
//
// For every quasiquote nesting depth D (1..maxD), every chain length L (1..D) and EVERY operator sequence of
// length L over {~unquote, ~unquote_splice} (2^L sequences, each operator spelled in its long or short form),
// the chain  op1{op2{...opL{BODY}}}  is placed in every kind of list position of the innermost quasiquote:
// statement list, call arguments, composite-literal elements, return results, case body, block of an if.
// L == D: the chain reaches an evaluation (BODY is a bound variable; a list when opL is a splice, so the
// remaining outer operators op1..op(L-1) are re-wrapped around every element: base.MakeNestedQuote /
// DuplicateNestedUnquotes); L < D: the chain stops early and BODY stays quoted.
// The enclosing quasiquotes carry sibling statements so that every level is a real list.
package main

import (
	"fmt"
	"strings"

	"verifh/vh"
)

type chainCase struct {
	src  string
	desc string
}

var chainPositions = []struct {
	name string
	expr bool // the chain stands in an expression list (values must be expressions)
	fmt  string
}{
	{"stmts", false, "a; %s; b"},
	{"stmts-first", false, "%s; z"},
	{"call-args", true, "f(a, %s, b)"},
	{"call-last", true, "g.h(%s)"},
	{"composite", true, "[]int{1, %s}"},
	{"return", true, "return %s, n"},
	{"case-body", false, "switch { case x: %s; y }"},
	{"if-block", false, "if c { d(); %s }"},
	{"func-body", false, "func() { %s; t() }"},
}

func chainOp(splice, short bool) (open, close string) {
	switch {
	case splice && short:
		return "~,@", ""
	case splice:
		return "~unquote_splice{", "}"
	case short:
		return "~,", ""
	}
	return "~unquote{", "}"
}

// chainText renders op1{op2{...{body}}}; bit i of ops = operator i is a splice, bit i of shorts = short spelling
func chainText(L int, ops, shorts uint, body string) string {
	var open, cl []string
	for i := 0; i < L; i++ {
		o, c := chainOp(ops>>uint(i)&1 == 1, shorts>>uint(i)&1 == 1)
		open, cl = append(open, o), append([]string{c}, cl...)
	}
	return strings.Join(open, "") + body + strings.Join(cl, "")
}

func isIdent(s string) bool {
	for _, c := range s {
		if !(c == '_' || c >= 'a' && c <= 'z' || c >= 'A' && c <= 'Z' || c >= '0' && c <= '9') {
			return false
		}
	}
	return s != ""
}

func opsName(L int, ops uint) string {
	var s []string
	for i := 0; i < L; i++ {
		if ops>>uint(i)&1 == 1 {
			s = append(s, "S")
		} else {
			s = append(s, "U")
		}
	}
	return strings.Join(s, "")
}

// wrapLevels nests `inner` (text of the innermost quasiquote body) into D quasiquotes, with siblings at every level
func wrapLevels(rng *vh.Rng, D int, inner string) string {
	body := inner
	for lvl := D; lvl >= 1; lvl-- {
		q := "~quasiquote{" + body + "}"
		if lvl == 1 {
			return q
		}
		switch rng.Intn(4) {
		case 0:
			body = q
		case 1:
			body = fmt.Sprintf("m%d; %s", lvl, q)
		case 2:
			body = fmt.Sprintf("%s; n%d()", q, lvl)
		default:
			body = fmt.Sprintf("k%d = 1; %s; r%d", lvl, q, lvl)
		}
	}
	return body
}

var chainSpliceVals = []string{"le2", "le3", "le1", "le0"}
var chainExprVals = []string{"x1", "x2", "x3", "x4", "x5"}
var chainEarlyBodies = []string{"w", "w + 1", "v.f(2)", "w; u"}

func genChains(rng *vh.Rng, maxD int, perCombo int, shortForms bool) []chainCase {
	var out []chainCase
	n := 0
	for D := 1; D <= maxD; D++ {
		for L := 1; L <= D; L++ {
			for ops := uint(0); ops < 1<<uint(L); ops++ {
				lastSplice := ops>>uint(L-1)&1 == 1
				for _, pos := range chainPositions {
					for rpt := 0; rpt < perCombo; rpt++ {
						n++
						var body string
						switch {
						case L < D:
							body = chainEarlyBodies[n%len(chainEarlyBodies)]
							if pos.expr && strings.Contains(body, ";") {
								body = "w"
							}
						case lastSplice:
							body = chainSpliceVals[n%len(chainSpliceVals)]
						default:
							body = chainExprVals[n%len(chainExprVals)]
						}
						shorts := uint(0)
						if shortForms && rng.Chance(1, 3) {
							shorts = uint(rng.Intn(1 << uint(L)))
							if !isIdent(body) {
								shorts &^= 1 << uint(L-1) // `~,w + 1` / `~,v.f(2)` would parse as (~,w) + 1 / (~,v).f(2)
							}
						}
						ch := chainText(L, ops, shorts, body)
						src := wrapLevels(rng, D, fmt.Sprintf(pos.fmt, ch))
						out = append(out, chainCase{src, fmt.Sprintf("D%d:L%d:%s:%s", D, L, opsName(L, ops), pos.name)})
					}
				}
			}
		}
	}
	return out
}

// c21: quote / quasiquote in the fast and the classic interpreter.
// For every generated template (source text with ~quote / ~quasiquote / ~unquote / ~unquote_splice):
//
//	direct oracles (never the Coq model):
//	  O1  fast tree == classic tree (strict, position-insensitive structural equality on go/ast)
//	  O2  both == reference substitution computed here on wrapper-normalised trees
//	  O3  freshness: the same compiled form evaluated twice/thrice returns trees that share no node except
//	      nodes of the unquoted values, and mutating the first result changes neither the second nor a third
//	correspondence: cases_NNN.v = template + environment + observed trees as Rose terms, evaluated by coq/C21/Model.v
package main

import (
	"fmt"
	"go/ast"
	"io"
	"os"
	r "reflect"
	"strings"
	"time"

	"github.com/cosmos72/gomacro/classic"
	"github.com/cosmos72/gomacro/fast"
	etoken "github.com/cosmos72/gomacro/go/etoken"
	"verifh/vh"
)

// ---------------------------------------------------------------- bound variables
type binding struct {
	name, src, kind string // kind: expr stmt exprs stmts cases blockval
}

var bindings = []binding{
	{"x1", "~quote{p + q}", "expr"},
	{"x2", "~quote{f(1, w)}", "expr"},
	{"x3", `~quote{"str"}`, "expr"},
	{"x4", "~quote{a.b[2]}", "expr"},
	{"x5", "~quote{func(i int) int { return i }}", "expr"},
	{"s1", "~quote{u = 1}", "stmt"},
	{"s2", "~quote{if c { d() }}", "stmt"},
	{"s3", "~quote{for { break }}", "stmt"},
	{"s4", "~quote{var dd int}", "stmt"}, // a GenDecl
	{"le0", "~quote{{}}", "exprs"},
	{"le1", "~quote{{k}}", "exprs"},
	{"le2", "~quote{a; b}", "exprs"},
	{"le3", "~quote{g(2); 7; h.i}", "exprs"},
	{"ls2", "~quote{v := 1; v++}", "stmts"},
	{"ls3", "~quote{m[1] = 2; go run(); return}", "stmts"},
	{"lc2", "~quote{case 1: a; case 2, 3: b; c}", "cases"},
	{"bv", "~quote{y1; y2}", "blockval"},
}

func pick(rng *vh.Rng, kinds ...string) string {
	var c []string
	for _, b := range bindings {
		for _, k := range kinds {
			if b.kind == k {
				c = append(c, b.name)
			}
		}
	}
	return c[rng.Intn(len(c))]
}

// ---------------------------------------------------------------- template generator (source text)
type gen struct {
	rng    *vh.Rng
	qd     int // current quasiquote depth (number of enclosing ~quasiquote minus ~unquote)
	maxqd  int
	nunq   int // evaluated unquotes emitted
	labels int
}

var idents = []string{"a", "b", "c", "d", "e", "n", "i", "j", "xs", "ys", "t", "z"}
var types = []string{"int", "string", "[]int", "map[string]int", "*T", "chan int", "<-chan T", "[4]byte", "func(int) string", "struct{ A int; B, C string }", "interface{ M(int) string }", "pkg.T"}

func (g *gen) id() string { return idents[g.rng.Intn(len(idents))] }
func (g *gen) typ() string {
	if g.qd >= 1 && g.rng.Chance(1, 6) {
		return g.unq("expr", false)
	}
	return types[g.rng.Intn(len(types))]
}

// unq emits an unquote form valid at the current depth in a position expecting `want`
// ("expr", "stmt": single; with list=true the position is a list element and splices are allowed).
func (g *gen) unq(want string, list bool) string {
	save := g.qd
	defer func() { g.qd = save }()
	// chain down to an evaluated variable, or stop early with a non-evaluated body
	op := "~unquote"
	splice := list && g.rng.Chance(1, 2)
	if splice {
		op = "~unquote_splice"
	}
	if g.qd == 1 {
		g.nunq++
		var v string
		switch {
		case splice && want == "expr":
			v = pick(g.rng, "exprs")
		case splice && want == "case":
			v = pick(g.rng, "cases")
		case splice:
			v = pick(g.rng, "exprs", "stmts")
		case want == "stmt" && g.rng.Chance(1, 2):
			v = pick(g.rng, "stmt", "blockval")
		default:
			v = pick(g.rng, "expr")
		}
		if g.rng.Chance(1, 3) {
			if splice {
				return "~,@" + v
			}
			return "~," + v
		}
		return op + "{" + v + "}"
	}
	// depth > 1
	g.qd--
	full := g.rng.Chance(2, 3) // continue the chain down to an evaluation
	if full {
		if list {
			// the inner form is the sole statement of the body: it may splice (results are distributed)
			return op + "{" + g.unqNested(want) + "}"
		}
		return op + "{" + g.unqNestedSingle() + "}"
	}
	if g.rng.Chance(1, 4) {
		return op + "{" + g.expr(1) + "; " + g.expr(1) + "}"
	}
	return op + "{" + g.expr(1) + "}"
}

// unqNested: body of an unquote at depth>1 in a list position: another unquote form that may splice
func (g *gen) unqNested(want string) string {
	if want == "case" {
		want = "stmt"
	}
	return g.unqK(want, true)
}
func (g *gen) unqNestedSingle() string { return g.unqK("expr", false) }

// unqK: like unq but values restricted to what both interpreters treat alike under nested unquotes
// (no block-valued / declaration-valued variables: known finding C21-nested-block)
func (g *gen) unqK(want string, list bool) string {
	if g.qd == 1 {
		g.nunq++
		if list && g.rng.Chance(1, 2) {
			if want == "expr" {
				return "~unquote_splice{" + pick(g.rng, "exprs") + "}"
			}
			return "~unquote_splice{" + []string{"le1", "le2", "le3", "le0"}[g.rng.Intn(4)] + "}"
		}
		return "~unquote{" + pick(g.rng, "expr") + "}"
	}
	save := g.qd
	defer func() { g.qd = save }()
	g.qd--
	op := "~unquote"
	if list && g.rng.Chance(1, 3) {
		op = "~unquote_splice"
	}
	return op + "{" + g.unqK(want, list) + "}"
}

func (g *gen) nested(body func() string) string {
	save := g.qd
	defer func() { g.qd = save }()
	if g.rng.Chance(1, 5) {
		return "~quote{" + body() + "}"
	}
	g.qd++
	return "~quasiquote{" + body() + "}"
}

func (g *gen) exprList(d, max int, allowSplice bool) string {
	n := g.rng.Intn(max + 1)
	var parts []string
	for i := 0; i < n; i++ {
		if g.qd >= 1 && allowSplice && g.rng.Chance(1, 3) {
			parts = append(parts, g.unq("expr", true))
		} else {
			parts = append(parts, g.expr(d))
		}
	}
	return strings.Join(parts, ", ")
}

func (g *gen) primary(d int) string {
	switch g.rng.Intn(7) {
	case 0:
		return fmt.Sprint(g.rng.Intn(100))
	case 1:
		return []string{`"s"`, "'c'", "1.5", "2i", "`raw`"}[g.rng.Intn(5)]
	default:
		return g.id()
	}
}

func (g *gen) expr(d int) string {
	if g.qd >= 1 && g.rng.Chance(1, 5) {
		return g.unq("expr", false)
	}
	if d <= 0 {
		return g.primary(d)
	}
	if g.qd >= 1 && g.qd < g.maxqd && g.rng.Chance(1, 5) {
		return g.nested(func() string {
			if g.rng.Chance(1, 3) {
				return g.stmtList(d-1, 2, true)
			}
			return g.expr(d - 1)
		})
	}
	switch g.rng.Intn(16) {
	case 0:
		return g.operand(d-1) + []string{" + ", " * ", " && ", " == ", " << ", " &^ "}[g.rng.Intn(6)] + g.operand(d-1)
	case 1:
		return []string{"-", "!", "&", "*", "<-", "^"}[g.rng.Intn(6)] + g.operand(d-1)
	case 2:
		ell := ""
		args := g.exprList(d-1, 3, true)
		if args != "" && g.rng.Chance(1, 6) {
			ell = "..."
		}
		return g.operand(d-1) + "(" + args + ell + ")"
	case 3:
		return g.operand(d-1) + "." + g.id()
	case 4:
		return g.operand(d-1) + "[" + g.expr(d-1) + "]"
	case 5:
		switch g.rng.Intn(3) {
		case 0:
			return g.operand(d-1) + "[" + g.expr(d-1) + ":]"
		case 1:
			return g.operand(d-1) + "[:" + g.expr(d-1) + "]"
		}
		return g.operand(d-1) + "[" + g.expr(d-1) + ":" + g.expr(d-1) + ":" + g.expr(d-1) + "]"
	case 6:
		return g.operand(d-1) + ".(" + g.typ() + ")"
	case 7:
		return "[]int{" + g.exprList(d-1, 3, true) + "}"
	case 8:
		return "map[string]T{" + `"k": ` + g.expr(d-1) + ", " + g.id() + ": " + g.expr(d-1) + "}"
	case 9:
		return "T{A: " + g.expr(d-1) + "}"
	case 10:
		return "func(" + g.id() + " " + g.typ() + ", r ..." + types[g.rng.Intn(3)] + ") (" + g.typ() + ", error) { " + g.stmtList(d-1, 2, true) + " }"
	case 11:
		return "func() { " + g.stmtList(d-1, 2, true) + " }"
	case 12:
		return "[]" + g.typ() + "{}"
	default:
		return g.primary(d)
	}
}

// operand: an expression that needs no parentheses as operand (templates contain no ParenExpr: known finding C21-paren)
func (g *gen) operand(d int) string {
	if g.qd >= 1 && g.rng.Chance(1, 5) {
		return g.unq("expr", false)
	}
	if d > 0 && g.rng.Chance(1, 3) {
		switch g.rng.Intn(3) {
		case 0:
			return g.operand(d-1) + "(" + g.exprList(d-1, 2, true) + ")"
		case 1:
			return g.operand(d-1) + "." + g.id()
		default:
			return g.operand(d-1) + "[" + g.expr(d-1) + "]"
		}
	}
	return g.primary(d)
}

func (g *gen) block(d int) string { return "{ " + g.stmtList(d, 3, true) + " }" }

func (g *gen) stmtList(d, max int, allowEmpty bool) string {
	n := g.rng.Intn(max + 1)
	if n == 0 && !allowEmpty {
		n = 1
	}
	var parts []string
	for i := 0; i < n; i++ {
		if g.qd >= 1 && g.rng.Chance(1, 4) {
			parts = append(parts, g.unq("stmt", true))
		} else {
			parts = append(parts, g.stmt(d))
		}
	}
	return strings.Join(parts, "; ")
}

func (g *gen) simpleStmt(d int) string {
	switch g.rng.Intn(5) {
	case 0:
		return g.id() + " := " + g.expr(d)
	case 1:
		return g.id() + "++"
	case 2:
		return g.id() + " = " + g.expr(d)
	default:
		return g.operand(d) + "(" + g.exprList(d, 2, true) + ")"
	}
}

func (g *gen) stmt(d int) string {
	if d <= 0 {
		return g.simpleStmt(0)
	}
	if g.qd >= 1 && g.qd < g.maxqd && g.rng.Chance(1, 4) {
		return g.nested(func() string {
			if g.rng.Chance(1, 2) {
				return g.stmtList(d-1, 3, true)
			}
			return g.expr(d - 1)
		})
	}
	switch g.rng.Intn(24) {
	case 0:
		return g.id() + ", " + g.id() + " := " + g.expr(d-1) + ", " + g.expr(d-1)
	case 1:
		return g.operand(d-1) + ", " + g.id() + " = " + g.expr(d-1) + ", " + g.expr(d-1)
	case 2:
		return g.id() + []string{" += ", " -= ", " |= ", " <<= "}[g.rng.Intn(4)] + g.expr(d-1)
	case 3:
		return g.id() + []string{"++", "--"}[g.rng.Intn(2)]
	case 4:
		s := "if "
		if g.rng.Chance(1, 3) {
			s += g.simpleStmt(d-1) + "; "
		}
		s += g.expr(d-1) + " " + g.block(d-1)
		switch g.rng.Intn(3) {
		case 0:
			s += " else " + g.block(d-1)
		case 1:
			s += " else if " + g.expr(d-1) + " " + g.block(d-1)
		}
		return s
	case 5:
		switch g.rng.Intn(3) {
		case 0:
			return "for " + g.block(d-1)
		case 1:
			return "for " + g.expr(d-1) + " " + g.block(d-1)
		}
		return "for i := 0; i < " + g.expr(d-1) + "; i++ " + g.block(d-1)
	case 6:
		switch g.rng.Intn(3) {
		case 0:
			return "for k, v := range " + g.expr(d-1) + " " + g.block(d-1)
		case 1:
			return "for k = range " + g.expr(d-1) + " " + g.block(d-1)
		}
		return "for range " + g.operand(d-1) + " " + g.block(d-1)
	case 7:
		s := "switch "
		if g.rng.Chance(1, 3) {
			s += g.simpleStmt(d-1) + "; "
		}
		if g.rng.Chance(2, 3) {
			s += g.operand(d-1) + " "
		}
		s += "{ "
		if g.qd >= 1 && g.rng.Chance(1, 3) {
			s += g.unq("case", true)
		} else {
			n := g.rng.Intn(3)
			for i := 0; i < n; i++ {
				cl := g.exprList(d-1, 2, true)
				if cl == "" {
					cl = g.expr(d - 1)
				}
				s += "case " + cl + ": " + g.stmtList(d-1, 2, true) + "; "
			}
			if g.rng.Bool() {
				s += "default: " + g.stmtList(d-1, 2, true)
			}
		}
		return s + " }"
	case 8:
		return "switch y := " + g.operand(d-1) + ".(type) { case int, string: " + g.stmtList(d-1, 2, true) + "; default: " + g.stmtList(d-1, 1, true) + " }"
	case 9:
		return "select { case " + g.id() + " <- " + g.expr(d-1) + ": " + g.stmtList(d-1, 2, true) + "; case v, ok := <-" + g.operand(d-1) + ": " + g.stmtList(d-1, 2, true) + "; default: " + g.stmtList(d-1, 1, true) + " }"
	case 10:
		return "return " + g.exprList(d-1, 3, true)
	case 11:
		return []string{"break", "continue", "goto L", "break L", "fallthrough"}[g.rng.Intn(5)]
	case 12:
		g.labels++
		return fmt.Sprintf("L%d: %s", g.labels, g.stmt(d-1))
	case 13:
		return "go " + g.operand(d-1) + "(" + g.exprList(d-1, 2, true) + ")"
	case 14:
		return "defer " + g.operand(d-1) + "(" + g.exprList(d-1, 2, true) + ")"
	case 15:
		return "{ " + g.stmtList(d-1, 3, true) + "; " + g.stmt(d-1) + "; " + g.stmt(d-1) + " }" // >= 2 statements
	case 16:
		switch g.rng.Intn(4) {
		case 0:
			return "var " + g.id() + " " + g.typ()
		case 1:
			return "var " + g.id() + ", " + g.id() + " " + g.typ() + " = " + g.expr(d-1) + ", " + g.expr(d-1)
		case 2:
			return "var " + g.id() + " = " + g.expr(d-1)
		}
		return "var ( " + g.id() + " = " + g.expr(d-1) + "; " + g.id() + " " + g.typ() + " )"
	case 17:
		return "const " + g.id() + " = " + g.expr(d-1)
	case 18:
		if g.rng.Bool() {
			return "type " + strings.ToUpper(g.id()) + " " + g.typ()
		}
		return "type " + strings.ToUpper(g.id()) + " = " + g.typ()
	case 19:
		return g.id() + " <- " + g.expr(d-1)
	default:
		return g.simpleStmt(d - 1)
	}
}

func (g *gen) template() string {
	g.qd = 1
	var body string
	switch g.rng.Intn(4) {
	case 0:
		body = g.expr(3)
	case 1:
		body = g.stmt(3)
	default:
		body = g.stmtList(2, 3, false)
	}
	if g.rng.Chance(1, 12) {
		return "~quote{" + body + "}"
	}
	return "~quasiquote{" + body + "}"
}

// ---------------------------------------------------------------- reference substitution (on normalised trees)
func isWrapper(t *vh.R) bool {
	return t != nil && !t.Slice && (t.Tag == "ExprStmt" || t.Tag == "ParenExpr" || t.Tag == "DeclStmt") && len(t.Kids) == 1 && t.Kids[0] != nil
}

// norm removes ExprStmt / ParenExpr / DeclStmt wrappers everywhere and canonicalises empty bare slices
func norm(t *vh.R) *vh.R {
	if t == nil {
		return nil
	}
	for isWrapper(t) {
		t = t.Kids[0]
	}
	out := &vh.R{Slice: t.Slice, Tag: t.Tag, Atoms: t.Atoms}
	for _, k := range t.Kids {
		out.Kids = append(out.Kids, norm(k))
	}
	return out.Canon()
}

var (
	tQUOTE  = fmt.Sprint(int(etoken.QUOTE))
	tQQ     = fmt.Sprint(int(etoken.QUASIQUOTE))
	tUNQ    = fmt.Sprint(int(etoken.UNQUOTE))
	tSPLICE = fmt.Sprint(int(etoken.UNQUOTE_SPLICE))
)

// quoteForm recognises op(func(){body}) and returns op and the body block
func quoteForm(t *vh.R) (string, *vh.R) {
	if t == nil || t.Slice || t.Tag != "UnaryExpr" || len(t.Atoms) != 1 || len(t.Kids) != 1 {
		return "", nil
	}
	op := t.Atoms[0]
	if op != tQUOTE && op != tQQ && op != tUNQ && op != tSPLICE {
		return "", nil
	}
	fl := t.Kids[0]
	if fl == nil || fl.Tag != "FuncLit" || len(fl.Kids) != 2 || fl.Kids[1] == nil {
		return "", nil
	}
	return op, fl.Kids[1]
}

func mkQ(op string, elems []*vh.R) *vh.R {
	return &vh.R{Tag: "UnaryExpr", Atoms: []string{op}, Kids: []*vh.R{{Tag: "FuncLit", Kids: []*vh.R{
		{Tag: "FuncType", Kids: []*vh.R{{Slice: true, Tag: "SFieldList"}, nil}},
		{Slice: true, Tag: "SBlock", Kids: elems}}}}}
}

type refErr string

// ref returns the list of trees the (normalised) form t stands for at depth d
func ref(d int, t *vh.R, env map[string]*vh.R) []*vh.R {
	if op, body := quoteForm(t); op != "" {
		elems := body.Kids
		switch op {
		case tQUOTE:
			return []*vh.R{mkQ(op, refList(d, elems, env))}
		case tQQ:
			return []*vh.R{mkQ(op, refList(d+1, elems, env))}
		default:
			if d == 1 {
				if len(elems) != 1 || elems[0].Tag != "Ident" {
					panic(refErr("unquote body is not a variable"))
				}
				v := env[strings.TrimPrefix(elems[0].Atoms[0], "s:")]
				if v == nil {
					panic(refErr("unbound " + elems[0].Atoms[0]))
				}
				if op == tUNQ {
					return []*vh.R{v}
				}
				if !v.Slice {
					panic(refErr("splice of a non-list"))
				}
				return v.Kids
			}
			if len(elems) == 1 {
				var out []*vh.R
				for _, x := range ref(d-1, elems[0], env) {
					out = append(out, mkQ(op, []*vh.R{x}))
				}
				return out
			}
			return []*vh.R{mkQ(op, refList(d-1, elems, env))}
		}
	}
	out := &vh.R{Slice: t.Slice, Tag: t.Tag, Atoms: t.Atoms}
	if t.Slice {
		out.Kids = refList(d, t.Kids, env)
		return []*vh.R{out}
	}
	for _, k := range t.Kids {
		if k == nil {
			out.Kids = append(out.Kids, nil)
			continue
		}
		rs := ref(d, k, env)
		if len(rs) != 1 {
			panic(refErr("splice in a non-list position"))
		}
		out.Kids = append(out.Kids, rs[0])
	}
	return []*vh.R{out}
}

func refList(d int, elems []*vh.R, env map[string]*vh.R) []*vh.R {
	var out []*vh.R
	for _, e := range elems {
		out = append(out, ref(d, e, env)...)
	}
	return out
}

// refTop: expected (normalised) value of the whole ~quote{..} / ~quasiquote{..} form
func refTop(t *vh.R, env map[string]*vh.R) (res *vh.R, err string) {
	defer func() {
		if p := recover(); p != nil {
			if e, ok := p.(refErr); ok {
				err = string(e)
				return
			}
			panic(p)
		}
	}()
	op, body := quoteForm(t)
	elems := body.Kids
	var rs []*vh.R
	if op == tQUOTE {
		rs = elems
	} else {
		rs = refList(1, elems, env)
	}
	switch {
	case len(elems) == 0:
		return &vh.R{Tag: "EmptyStmt", Atoms: []string{"0"}}, ""
	case len(elems) == 1:
		if o, _ := quoteForm(elems[0]); op == tQQ && o == tSPLICE {
			return norm(&vh.R{Slice: true, Tag: "SBlock", Kids: rs}), ""
		}
		if len(rs) != 1 {
			return nil, "single form with several results"
		}
		return norm(rs[0]), ""
	}
	return norm(&vh.R{Slice: true, Tag: "SBlock", Kids: rs}), ""
}

// ---------------------------------------------------------------- running the interpreters
type interps struct {
	fi *fast.Interp
	ci *classic.Interp
}

func newInterps() *interps {
	fi := fast.New()
	ci := classic.New()
	fi.Comp.Globals.Stdout, fi.Comp.Globals.Stderr = io.Discard, io.Discard
	ci.Globals.Stdout, ci.Globals.Stderr = io.Discard, io.Discard
	return &interps{fi, ci}
}

func (ip *interps) fastEval(src string) (n ast.Node, err string) {
	if p := vh.Catch(func() {
		vals, _ := ip.fi.Eval(src)
		if len(vals) > 0 && vals[0].IsValid() && vals[0].CanInterface() {
			n, _ = vals[0].Interface().(ast.Node)
		}
	}); p != nil {
		return nil, oneLine(p)
	}
	if n == nil {
		return nil, "no ast.Node result"
	}
	return n, ""
}

func (ip *interps) classicEval(src string) (n ast.Node, err string) {
	if p := vh.Catch(func() {
		v, _ := ip.ci.Eval(src)
		if v.IsValid() && v.CanInterface() {
			n, _ = v.Interface().(ast.Node)
		}
	}); p != nil {
		return nil, oneLine(p)
	}
	if n == nil {
		return nil, "no ast.Node result"
	}
	return n, ""
}

func oneLine(p interface{}) string {
	s := strings.Join(strings.Fields(fmt.Sprint(p)), " ")
	if len(s) > 200 {
		s = s[:200]
	}
	return s
}

func (ip *interps) parseTemplate(src string) (t *vh.R, err string) {
	if p := vh.Catch(func() {
		nodes := ip.fi.Comp.ParseBytes([]byte(src))
		if len(nodes) != 1 {
			err = fmt.Sprintf("parsed to %d nodes", len(nodes))
			return
		}
		n := nodes[0]
		if es, ok := n.(*ast.ExprStmt); ok {
			n = es.X
		}
		t = vh.FromNode(n)
	}); p != nil {
		return nil, oneLine(p)
	}
	return t, err
}

// pointers of all nodes reachable from n
func nodeSet(n ast.Node, into map[ast.Node]bool) {
	ast.Inspect(n, func(x ast.Node) bool {
		if x != nil && !(r.ValueOf(x).Kind() == r.Ptr && r.ValueOf(x).IsNil()) {
			into[x] = true
		}
		return true
	})
}

// mutate renames / rewrites every leaf that is not part of an unquoted value
func mutate(n ast.Node, keep map[ast.Node]bool) {
	ast.Inspect(n, func(x ast.Node) bool {
		if x == nil || keep[x] {
			return !keep[x]
		}
		switch y := x.(type) {
		case *ast.Ident:
			y.Name = "MUTATED"
		case *ast.BasicLit:
			y.Value = "424242"
		case *ast.BlockStmt:
			y.List = append(y.List, &ast.EmptyStmt{})
		}
		return true
	})
}

// avoidedClass: input classes of the known findings (replayed from the corpus stream, not generated)
func avoidedClass(tmpl *vh.R, env map[string]*vh.R) string {
	cls := ""
	top := true
	tmpl.Walk(func(x *vh.R) {
		if !x.Slice && x.Tag == "ParenExpr" {
			cls = "paren"
		}
		if op, body := quoteForm(x); op != "" {
			if !top && len(body.Kids) == 0 {
				cls = "nested-empty-body"
			}
			if !top && len(body.Kids) == 1 {
				// known finding C21-nested-block: a re-quoted form whose body is ONE statement that is (or evaluates to) a block:
				// a literal block, or ~unquote{v} of a block-valued variable
				e := body.Kids[0]
				for isWrapper(e) {
					e = e.Kids[0]
				}
				if e != nil && e.Slice && e.Tag == "SBlock" {
					cls = "nested-block"
				}
				if o, b := quoteForm(e); o == tUNQ && len(b.Kids) == 1 {
					v := b.Kids[0]
					for isWrapper(v) {
						v = v.Kids[0]
					}
					if v != nil && v.Tag == "Ident" && len(v.Atoms) == 1 {
						if val := env[strings.TrimPrefix(v.Atoms[0], "s:")]; val != nil && val.Slice {
							cls = "nested-block"
						}
					}
				}
			}
			if top && op == tQQ && len(body.Kids) == 1 {
				e := body.Kids[0]
				for isWrapper(e) {
					e = e.Kids[0]
				}
				if o, b := quoteForm(e); o == tSPLICE && len(b.Kids) == 1 {
					v := b.Kids[0]
					for isWrapper(v) {
						v = v.Kids[0]
					}
					if v.Tag == "Ident" {
						if val := env[strings.TrimPrefix(v.Atoms[0], "s:")]; val != nil && len(val.Kids) < 2 {
							cls = "top-splice-short"
						}
					}
				}
			}
			top = false
		}
	})
	return cls
}

type caseIn struct {
	Src    string `json:"src"`
	Stream string `json:"stream"`
}

func main() {
	a := vh.ParseArgs()
	rng := vh.NewRng(a.Seed)
	rep := vh.NewReport(a, "templates = random source text ~quasiquote{..} (1/12 ~quote{..}) over a statement/expression grammar covering every go/ast node kind the parser accepts in quoted code, "+
		"nesting depth 1..3 (~quasiquote/~quote inside), ~unquote / ~unquote_splice (long and ~, ~,@ forms) at random expression, type, statement, call-argument, composite-element, return-result, assignment, case-list, case-body, switch-body and block positions, "+
		"bodies = variables pre-bound with ~quote to 17 known trees (expressions, statements, declaration, empty/1/2/3-element lists, case clauses, a block); nested chains ~unquote{~unquote_splice{..}} of every operator mix down to an evaluation or stopping early; "+
		"stream chains (bounded-exhaustive, before the random stream): for every quasiquote depth D in 1..3 (1..4 thorough), every chain length L in 1..D and every one of the 2^L operator sequences over {~unquote, ~unquote_splice} (long and ~, ~,@ spellings), "+
		"the directly nested chain op1{..opL{body}} in each of 9 list positions (statement list first/middle, call arguments middle/sole, composite elements, return results, case body, if block, function body) of the innermost quasiquote, "+
		"body = a 0/1/2/3-element list variable when opL splices and L = D (the outer operators are re-wrapped around every element), an expression variable otherwise, a quoted expression when L < D; enclosing quasiquotes carry sibling statements; "+
		"avoided input classes (known findings, replayed from the corpus stream): ParenExpr in templates, block-/declaration-valued variables and a literal block as sole statement under nested unquotes/quasiquotes, label: declaration; "+
		"non-trivial = at least one evaluated unquote; distinct by SHA-256 of the source")
	for name, want := range map[string][2]int{"QUOTE": {int(etoken.QUOTE), 128}, "QUASIQUOTE": {int(etoken.QUASIQUOTE), 129}, "UNQUOTE": {int(etoken.UNQUOTE), 130}, "UNQUOTE_SPLICE": {int(etoken.UNQUOTE_SPLICE), 131}, "MACRO": {int(etoken.MACRO), 132}} {
		if want[0] != want[1] {
			rep.Fail(vh.Failure{Key: "token:" + name, What: "token value differs from the constant in coq/C21/Model.v", Got: want[0], Want: want[1]})
		}
	}
	ip := newInterps()
	env := map[string]*vh.R{}         // normalised values, for the reference
	envRaw := map[string]*vh.R{}      // exact values, for the Coq model
	valueNodes := map[ast.Node]bool{} // pointers of the bound values in either interpreter
	for _, b := range bindings {
		src := b.name + " := " + b.src
		if p := vh.Catch(func() { ip.fi.Eval(src); ip.ci.Eval(src) }); p != nil {
			fmt.Fprintln(os.Stderr, "binding failed:", src, p)
			os.Exit(2)
		}
		fv, e1 := ip.fastEval(b.name)
		cv, e2 := ip.classicEval(b.name)
		if e1 != "" || e2 != "" || !vh.Equal(vh.FromNode(fv), vh.FromNode(cv)) {
			rep.Fail(vh.Failure{Key: "binding:" + b.name, What: "~quote value differs between fast and classic", Input: src, Got: e1 + vh.FromNode(fv).String(), Want: e2 + vh.FromNode(cv).String()})
			continue
		}
		envRaw[b.name] = vh.FromNode(fv)
		env[b.name] = norm(envRaw[b.name])
		nodeSet(fv, valueNodes)
		nodeSet(cv, valueNodes)
	}

	in := vh.NewInterner()
	var envCoq []string
	for _, b := range bindings {
		if v := envRaw[b.name]; v != nil {
			envCoq = append(envCoq, "("+in.AtomN(b.name)+", "+in.Coq(v)+")")
		}
	}
	header := "From Coq Require Import List NArith ZArith.\nFrom Verif Require Import Common.Rose C21.Model.\nImport ListNotations.\nOpen Scope Z_scope.\n" +
		"Definition env0 : list (N * tree) := " + vh.CoqList(envCoq, "(N * tree)") + "."
	perShard := 70
	if a.Thorough() {
		perShard = 140
	}
	cw := vh.NewCases(a, header, "case", "mismatches", perShard)
	wd := vh.NewWatchdog(rep, 180*time.Second) // generous: the shared machine reaches load 100+; a real hang is still reported

	idx := 0
	runCase := func(src, stream, knownKey string, strict bool) {
		wd.Beat(src)
		ci := caseIn{src, stream}
		fail := func(what string, got, want interface{}) {
			key := src
			if knownKey != "" {
				key = knownKey
			}
			rep.Fail(vh.Failure{Key: key, What: what, Input: ci, Got: got, Want: want})
		}
		tmpl, perr := ip.parseTemplate(src)
		if perr != "" {
			rep.Dist("generator:unparsable")
			if stream != "random" {
				fail("corpus template does not parse", perr, nil)
			}
			return
		}
		if cls := avoidedClass(tmpl, envRaw); cls != "" && stream != "corpus" {
			rep.Dist("generator:avoided-known-class:" + cls)
			return
		}
		idx++
		// evaluate through a compiled function (same form evaluated three times) and directly
		fn := fmt.Sprintf("func qqf%d() interface{} { return %s }", idx, src)
		call := fmt.Sprintf("qqf%d()", idx)
		var f1, f2, f3, c1, c2, c3, fd, cd ast.Node
		var fe, ce string
		if p := vh.Catch(func() { ip.fi.Eval(fn) }); p != nil {
			fe = oneLine(p)
		} else {
			f1, fe = ip.fastEval(call)
			f2, _ = ip.fastEval(call)
			fd, _ = ip.fastEval(src)
		}
		if p := vh.Catch(func() { ip.ci.Eval(fn) }); p != nil {
			ce = oneLine(p)
		} else {
			c1, ce = ip.classicEval(call)
			c2, _ = ip.classicEval(call)
			cd, _ = ip.classicEval(src)
		}
		var fr, cr *vh.R
		if fe == "" {
			fr = vh.FromNode(f1)
		}
		if ce == "" {
			cr = vh.FromNode(c1)
		}
		// O1 fast == classic, strictly
		switch {
		case fe != "" || ce != "":
			if fe != "" {
				fail("fast interpreter failed", fe, nil)
			}
			if ce != "" {
				fail("classic interpreter failed", ce, nil)
			}
		case !vh.Equal(fr, cr):
			fail("fast tree != classic tree", fr.String(), cr.String())
		}
		if fe == "" && fd != nil && !vh.Equal(fr, vh.FromNode(fd)) {
			fail("fast: form inside a function != form evaluated directly", fr.String(), vh.FromNode(fd).String())
		}
		if ce == "" && cd != nil && !vh.Equal(cr, vh.FromNode(cd)) {
			fail("classic: form inside a function != form evaluated directly", cr.String(), vh.FromNode(cd).String())
		}
		// O2 reference substitution
		want, rerr := refTop(norm(tmpl), env)
		if rerr != "" {
			rep.Dist("generator:reference-undefined")
			if strict {
				fail("reference substitution undefined: "+rerr, nil, nil)
			}
		} else {
			if fe == "" && !vh.Equal(norm(fr), want) {
				fail("fast tree != reference substitution (wrappers normalised)", norm(fr).String(), want.String())
			}
			if ce == "" && !vh.Equal(norm(cr), want) {
				fail("classic tree != reference substitution (wrappers normalised)", norm(cr).String(), want.String())
			}
		}
		// O3 freshness
		isQuote := strings.HasPrefix(src, "~quote")
		fresh := func(who string, r1, r2 ast.Node, again func() (ast.Node, string)) {
			if r1 == nil || r2 == nil || isQuote {
				return
			}
			s1, s2 := map[ast.Node]bool{}, map[ast.Node]bool{}
			nodeSet(r1, s1)
			nodeSet(r2, s2)
			shared := 0
			for n := range s1 {
				if s2[n] && !valueNodes[n] {
					shared++
				}
			}
			before := vh.FromNode(r2)
			mutate(r1, valueNodes)
			r3, _ := again()
			if shared > 0 || !vh.Equal(before, vh.FromNode(r2)) || r3 == nil || !vh.Equal(before, vh.FromNode(r3)) {
				k := knownKey
				if k == "" && who == "classic" {
					k = "C21-classic-shares-template-nodes"
				}
				if k == "" {
					k = src
				}
				got := fmt.Sprintf("%d shared nodes; second result after mutating the first: %s", shared, vh.FromNode(r2))
				rep.Fail(vh.Failure{Key: k, What: who + ": evaluating the same quasiquote twice returns aliased trees", Input: ci, Got: got, Want: before.String()})
			}
		}
		fresh("fast", f1, f2, func() (ast.Node, string) { return ip.fastEval(call) })
		fresh("classic", c1, c2, func() (ast.Node, string) { return ip.classicEval(call) })
		_, _ = f3, c3

		// correspondence case
		if !(fr != nil && fr.HasNilElem()) && !(cr != nil && cr.HasNilElem()) {
			cw.Add(fmt.Sprintf("mkCase %d %s env0 %s %s", idx, in.Coq(tmpl), in.CoqOpt(fr), in.CoqOpt(cr)))
			rep.CaseInput(idx, ci)
		}
		// statistics
		nunq, maxd := 0, 1
		var depthOf func(t *vh.R, d int)
		depthOf = func(t *vh.R, d int) {
			if t == nil {
				return
			}
			if op, _ := quoteForm(t); op != "" {
				switch op {
				case tQQ:
					d++
				case tUNQ, tSPLICE:
					d--
					if d == 0 {
						nunq++
						rep.Dist("evaluated:" + map[string]string{tUNQ: "unquote", tSPLICE: "unquote_splice"}[op])
					}
				}
				if d > maxd {
					maxd = d
				}
			}
			for _, k := range t.Kids {
				depthOf(k, d)
			}
		}
		depthOf(tmpl, 0)
		tmpl.Walk(func(x *vh.R) {
			if x.Slice {
				for _, k := range x.Kids {
					for isWrapper(k) {
						k = k.Kids[0]
					}
					if op, _ := quoteForm(k); op == tSPLICE || op == tUNQ {
						rep.Dist("unquote-in-list:" + x.Tag)
					}
				}
			}
			rep.Dist("kind:" + x.Tag)
		})
		rep.Dist(fmt.Sprintf("depth:%d", maxd))
		rep.Dist("stream:" + stream)
		rep.Count(src, nunq > 0)
		if idx%41 == 5 {
			rep.Sample(map[string]string{"src": src, "fast": fr.String()})
		}
	}

	// corpus: exact inputs of the known findings and regression cases (run first)
	corpus := []struct{ src, key string }{
		{"~quasiquote{(x); y}", "C21-paren"},
		{"~quasiquote{~quasiquote{1; ~unquote{~unquote{bv}}}}", "C21-nested-block"},
		{"~quasiquote{L: var v = 1}", "C21-classic-labeled-decl"},
		{"~quasiquote{x + 1}", "C21-classic-shares-template-nodes"},
		{"~quasiquote{g(~,@le0)}", "C21-fast-empty-splice"},
		{"~quasiquote{~unquote_splice{le1}}", "C21-top-splice-short"},
		{"~quasiquote{~quote{}}", "C21-nested-empty-body"},
		{"~quasiquote{~quote{var x int}}", "C21-fast-nested-decl-body"},
		{"~quasiquote{~quasiquote{1; ~unquote{2}; ~unquote{~unquote_splice{le2}}}}", ""},
		{"~quasiquote{~quasiquote{1; ~unquote_splice{~unquote_splice{le2}}}}", ""},
		{"~quasiquote{~quasiquote{~quasiquote{1; ~unquote{~unquote{~unquote_splice{le3}}}}}}", ""},
		{"~quasiquote{~quasiquote{g(~unquote{w + ~unquote{x1}})}}", ""},
		{"~quasiquote{f(~,@le2, 2)}", ""},
		{"~quote{a; b}", ""},
	}
	for _, c := range corpus {
		runCase(c.src, "corpus", c.key, false)
	}
	// chains: every operator sequence of directly nested unquotes at every depth, in every list position (chains.go);
	// its generator has its own stream derived from the seed, so the random stream below is the same with and without it
	maxD, perCombo := 3, 1
	if a.Thorough() {
		maxD, perCombo = 4, 2
	}
	for _, c := range genChains(vh.NewRng(a.Seed*0x9E3779B1+0xC21), maxD, perCombo, true) {
		before := idx
		runCase(c.src, "chains", "", true)
		if idx != before {
			rep.Dist("chain:" + c.desc[:strings.LastIndex(c.desc, ":")])
		}
	}
	n := 350
	if a.Thorough() {
		// 12000 + chains(4,4) = 13000 cases in 186 case files took > 35 min of coqc on the loaded machine;
		// 10x the quick tier in files of 140 cases: ~31 files
		n = 3500
	}
	if a.N > 0 {
		n = a.N
	}
	for k := 0; k < n; k++ {
		g := &gen{rng: rng.Fork(), maxqd: 1 + k%3}
		src := g.template()
		if len(src) > 1500 {
			rep.Dist("generator:too-long")
			continue
		}
		runCase(src, "random", "", true)
	}
	cw.Close()
	rep.Write()
}

// c38: the classic interpreter (classic/*.go: Env.EvalAst, statement.go, for.go, switch.go, call.go, function.go,
// binaryexpr.go, declaration.go ...) against compiled Go on its documented subset.
//
// Two program families, both evaluated by classic.Interp.Eval (declarations one by one, then a call of the entry
// function) and by the Go toolchain (all programs of a run batched into one `go 1.18` module = DIRECT ORACLE):
//
//	minigo : structured control-flow programs over int variables from the C05 generator (gen05.go) restricted to the
//	         documented subset (no goto, no labels, no channels / select / type switch); those inside MiniGo also go,
//	         with the trace and final values classic produced, to cases_NNN.v where the Coq reference semantics
//	         (MiniGo.Sem, which is the model of direct AST evaluation) must reproduce them  [correspondence];
//	typed  : snippets over int, float64, string, bool, slices, maps, structs, pointers, functions, closures, recursion,
//	         switch / range / break / continue, defer / recover (snip.go).
//
// Observables: the trace of emit/emitf/emits/emitb calls (values rendered by the harness / the oracle program with
// the same format verbs) and whether a panic escapes the entry function.
package main

import (
	"bytes"
	"encoding/json"
	"fmt"
	"io"
	"os"
	"os/exec"
	"path/filepath"
	r "reflect"
	"regexp"
	"sort"
	"strconv"
	"strings"
	"time"

	"github.com/cosmos72/gomacro/classic"
	"verifh/vh"
)

// ---------------------------------------------------------------- a program as both sides see it

type unit struct {
	Idx     int      `json:"idx"`
	Family  string   `json:"family"`
	Decls   []string `json:"decls"` // top-level declarations, in evaluation order
	Entry   string   `json:"entry"` // name of the entry function (no arguments, no results)
	Class   []string `json:"class,omitempty"`
	mini    *program
	isolated string // corpus file to evaluate in a child process (may hang)
	corpus  string // key of the finding this exact input belongs to
	what    string
}

func (u *unit) source() string { return strings.Join(u.Decls, "\n\n") }

type obs struct {
	Trace []string `json:"trace"`
	Err   string   `json:"err,omitempty"` // "", "panic", "compile_error", "hang"
}

func (o obs) String() string { return strings.Join(o.Trace, " ") + " |" + o.Err }

// ---------------------------------------------------------------- classic interpreter

type interp struct {
	ir    *classic.Interp
	trace []string
}

func fmtF(f float64) string { return "f:" + strconv.FormatFloat(f, 'g', -1, 64) }

func newInterp() *interp {
	it := &interp{}
	it.ir = classic.New()
	it.ir.Stdout, it.ir.Stderr = io.Discard, io.Discard
	def := func(name string, f interface{}) { it.ir.DefineFunc(name, r.TypeOf(f), r.ValueOf(f)) }
	def("emit", func(k int) { it.trace = append(it.trace, "i:"+strconv.Itoa(k)) })
	def("emitf", func(f float64) { it.trace = append(it.trace, fmtF(f)) })
	def("emits", func(s string) { it.trace = append(it.trace, "s:"+strconv.Quote(s)) })
	def("emitb", func(b bool) { it.trace = append(it.trace, "b:"+strconv.FormatBool(b)) })
	it.ir.Eval(`import "fmt"`)
	if warmStack {
		// finding corpus:recover-lost-when-call-stack-grows is open: the generated programs avoid its class (a defer / recover
		// that runs while classic's call stack slice is reallocated) by growing the slice once, before any program runs
		it.ir.Eval("func warm_stack(k int) int {\n\tif k > 0 {\n\t\treturn warm_stack(k-1) + 1\n\t}\n\treturn 0\n}")
		it.ir.Eval("warm_stack(200)")
	}
	return it
}

// warmStack: set while the corpus input of finding corpus:recover-lost-when-call-stack-grows still fails (never for the corpus replays)
var warmStack bool

// runClassic evaluates the declarations and the entry call; a watchdog goroutine reports a hang
func (it *interp) runClassic(u *unit) (o obs) {
	it.trace = nil
	for _, d := range u.Decls {
		if p := vh.Catch(func() { it.ir.Eval(d) }); p != nil {
			return obs{Trace: []string{}, Err: "compile_error"}
		}
	}
	if p := vh.Catch(func() { it.ir.Eval(u.Entry + "()") }); p != nil {
		o.Err = "panic"
	}
	o.Trace = append([]string{}, it.trace...)
	return o
}

// ---------------------------------------------------------------- compiled-Go oracle

const oraclePrelude = `package main

import (
	"fmt"
	"strconv"
)

var trace []string

func emit(k int)      { trace = append(trace, "i:"+strconv.Itoa(k)) }
func emitf(f float64) { trace = append(trace, "f:"+strconv.FormatFloat(f, 'g', -1, 64)) }
func emits(s string)  { trace = append(trace, "s:"+strconv.Quote(s)) }
func emitb(b bool)    { trace = append(trace, "b:"+strconv.FormatBool(b)) }

func run(id int, f func()) {
	trace = trace[:0]
	defer func() {
		tag := "R"
		if r := recover(); r != nil {
			tag = "P"
		}
		fmt.Print("#### ", id, " ", tag)
		for _, t := range trace {
			fmt.Print("\x00", t)
		}
		fmt.Print("\n")
	}()
	f()
}

var _ = fmt.Sprint
`

func oracle(a *vh.Args, units []*unit, batch int) (map[int]obs, error) {
	dir := a.Path(fmt.Sprintf("oracle/b%03d", batch))
	os.RemoveAll(dir)
	os.MkdirAll(dir, 0o755)
	var sb strings.Builder
	sb.WriteString(oraclePrelude)
	for _, u := range units {
		sb.WriteString("\n" + u.source() + "\n")
	}
	sb.WriteString("\nfunc main() {\n")
	for _, u := range units {
		fmt.Fprintf(&sb, "\trun(%d, %s)\n", u.Idx, u.Entry)
	}
	sb.WriteString("}\n")
	if err := os.WriteFile(filepath.Join(dir, "main.go"), []byte(sb.String()), 0o644); err != nil {
		return nil, err
	}
	os.WriteFile(filepath.Join(dir, "go.mod"), []byte("module oracle\n\ngo 1.18\n"), 0o644)
	env := append(os.Environ(), "GOFLAGS=-mod=mod", "GOPROXY=off", "GOSUMDB=off", "GOTOOLCHAIN=local", "CGO_ENABLED=0")
	cmd := exec.Command("go", "build", "-gcflags=-N -l", "-o", "oracle.bin", ".")
	cmd.Dir, cmd.Env = dir, env
	if out, err := cmd.CombinedOutput(); err != nil {
		return nil, fmt.Errorf("go build of oracle batch %d failed: %v\n%s", batch, err, tail(string(out), 3000))
	}
	run := exec.Command(filepath.Join(dir, "oracle.bin"))
	var out bytes.Buffer
	run.Stdout, run.Stderr = &out, &out
	if err := run.Start(); err != nil {
		return nil, err
	}
	done := make(chan error, 1)
	go func() { done <- run.Wait() }()
	select {
	case err := <-done:
		if err != nil {
			return nil, fmt.Errorf("oracle batch %d run: %v\n%s", batch, err, tail(out.String(), 2000))
		}
	case <-time.After(180 * time.Second):
		run.Process.Kill()
		return nil, fmt.Errorf("oracle batch %d did not terminate", batch)
	}
	res := map[int]obs{}
	for _, line := range strings.Split(out.String(), "\n") {
		if !strings.HasPrefix(line, "#### ") {
			continue
		}
		parts := strings.Split(line[5:], "\x00")
		head := strings.Fields(parts[0])
		if len(head) != 2 {
			continue
		}
		id, _ := strconv.Atoi(head[0])
		o := obs{Trace: append([]string{}, parts[1:]...)}
		if head[1] == "P" {
			o.Err = "panic"
		}
		res[id] = o
	}
	return res, nil
}

func tail(s string, n int) string {
	if len(s) > n {
		return s[len(s)-n:]
	}
	return s
}

// ---------------------------------------------------------------- Coq rendering

func coqZs(xs []int) string {
	if len(xs) == 0 {
		return "(@nil Z)"
	}
	var sb strings.Builder
	sb.WriteString("[")
	for i, x := range xs {
		if i > 0 {
			sb.WriteString(";")
		}
		if x < 0 {
			fmt.Fprintf(&sb, "(%d)", x)
		} else {
			fmt.Fprintf(&sb, "%d", x)
		}
	}
	sb.WriteString("]%Z")
	return sb.String()
}

func intTrace(tr []string) ([]int, bool) {
	out := []int{}
	for _, t := range tr {
		if !strings.HasPrefix(t, "i:") {
			return nil, false
		}
		k, err := strconv.Atoi(t[2:])
		if err != nil {
			return nil, false
		}
		out = append(out, k)
	}
	return out, true
}

// ---------------------------------------------------------------- corpus: exact inputs of findings

type corpusEntry struct {
	Key   string   `json:"key"`
	What  string   `json:"what"`
	Decls []string `json:"decls"`
	Entry string   `json:"entry"`
	Avoid string   `json:"avoid"` // generator class switched off while this input fails
	Hang  bool     `json:"hang_risk"`
	path  string
}

func loadCorpus() []corpusEntry {
	var out []corpusEntry
	if dir := os.Getenv("VERIF_DIR"); dir != "" {
		files, _ := filepath.Glob(filepath.Join(dir, "corpus", "C38", "*.json"))
		sort.Strings(files)
		for _, f := range files {
			var e corpusEntry
			if b, err := os.ReadFile(f); err == nil && json.Unmarshal(b, &e) == nil && e.Entry != "" {
				e.path = f
				out = append(out, e)
			}
		}
	}
	return out
}

var bareReturn = regexp.MustCompile(`(?m)\breturn$`)

// replayOne: `c38 -replay corpus.json` evaluates one corpus entry with the classic interpreter and prints the observation
// (used for inputs that may hang: the parent kills the process)
func replayOne(path string) {
	var e corpusEntry
	b, err := os.ReadFile(path)
	if err != nil || json.Unmarshal(b, &e) != nil || e.Entry == "" {
		fmt.Println(`{"trace":[],"err":"bad replay file"}`)
		return
	}
	it := newInterp()
	o := it.runClassic(&unit{Decls: e.Decls, Entry: e.Entry})
	out, _ := json.Marshal(o)
	fmt.Println(string(out))
}

func runIsolated(path string, limit time.Duration) obs {
	c := exec.Command(os.Args[0], "-replay", path)
	var out bytes.Buffer
	c.Stdout = &out
	if err := c.Start(); err != nil {
		return obs{Trace: []string{}, Err: "cannot start"}
	}
	done := make(chan error, 1)
	go func() { done <- c.Wait() }()
	select {
	case <-done:
	case <-time.After(limit):
		c.Process.Kill()
		return obs{Trace: []string{}, Err: "hang"}
	}
	var o obs
	lines := strings.Split(strings.TrimSpace(out.String()), "\n")
	if json.Unmarshal([]byte(lines[len(lines)-1]), &o) != nil {
		return obs{Trace: []string{}, Err: "no output"}
	}
	if o.Trace == nil {
		o.Trace = []string{}
	}
	return o
}

// ---------------------------------------------------------------- main

func main() {
	a := vh.ParseArgs()
	if a.Replay != "" {
		replayOne(a.Replay)
		return
	}
	rng := vh.NewRng(a.Seed)
	rep := vh.NewReport(a, "family minigo (45%): random structured programs func p() (v0..v3 int) from the C05 generator restricted to the classic interpreter's documented subset "+
		"(emit/assign/if-else(-if)/for (3-clause with := header variable, cond-only, infinite)/unlabelled break,continue/switch (tagged with constant and expression cases, tagless, default anywhere, fallthrough)/blocks with locals/return; "+
		"40% of them also range over slice/array/string/map, closures capturing for/range variables, if/switch with init; no goto, no labels, no channels); "+
		"family typed (55%): 2-5 parametrised snippets per program (each in its own block, 1 in 4 run twice inside a loop) over int (all operators, op-assign, wrap-around), bool, float64, string (concat, index, slice, range, compare), "+
		"slices (append, aliasing, copy, nested, swap), maps (insert/delete/comma-ok/op-assign/range/nil map/struct and slice values), structs (copy, compare, pointers, nested, slices and maps of structs, range copies), "+
		"functions (multiple/named results, variadic, recursion, mutual recursion), function values and closures (counters, composition, per-loop variables), pointers and linked nodes, methods, constants and iota, shadowing, "+
		"switch forms, loops, defer order, defer/recover of explicit and run-time panics, re-panic. Oracle: the same declarations compiled by go1.23 in a `go 1.18` module, all programs of the run in one binary. "+
		"Observable: trace of emit/emitf/emits/emitb calls + whether a panic escapes. Non-trivial: trace of >= 3 events; distinct by SHA-256 of the source. "+
		"corpus/C38/*.json (exact inputs of findings) run first, each in a fresh interpreter; while such an input still fails its snippet class is switched off in the generator "+
		"(class stack-growth: every interpreter of the generated programs first runs a recursion of depth 200, so no defer/recover runs while the call stack slice is reallocated; "+
		"class methods-twice: at most one `methods` snippet per program, i.e. no two named types with identical struct types and equal method names).")
	wd := vh.NewWatchdog(rep, 10*time.Minute) // generous: one beat covers a whole `go build` of an oracle batch, which takes minutes on a loaded machine

	nprog, maxDepth := 220, 5
	if a.Thorough() {
		nprog, maxDepth = 6000, 7
	}
	if a.N > 0 {
		nprog = a.N
	}
	only := os.Getenv("C38_ONLY") // development aid: only this snippet class

	var units []*unit
	idx := 0
	// ---- corpus first
	corpus := loadCorpus()
	for _, e := range corpus {
		u := &unit{Idx: idx, Family: "corpus", Decls: e.Decls, Entry: e.Entry, corpus: e.Key, what: e.What, Class: []string{e.Avoid}}
		if e.Hang {
			u.isolated = e.path
		}
		units = append(units, u)
		idx++
	}
	ncorpus := len(units)

	// classic on the corpus inputs decides which generator classes are off; the oracle batch comes later, so run a
	// preliminary oracle batch for the corpus alone
	skip := map[string]bool{}
	if ncorpus > 0 {
		want, err := oracle(a, units, 999)
		if err != nil {
			fmt.Fprintln(os.Stderr, err)
			os.Exit(2)
		}
		for _, u := range units {
			wd.Beat(u)
			var got obs
			if u.isolated != "" {
				got = runIsolated(u.isolated, 6*time.Second)
			} else {
				got = newInterp().runClassic(u)
			}
			w := want[u.Idx]
			if got.String() != w.String() {
				rep.Fail(vh.Failure{Key: u.corpus, What: u.what, Input: u.source() + "\n" + u.Entry + "()", Got: got, Want: w})
				for _, c := range u.Class {
					if c != "" {
						skip[c] = true
					}
				}
				rep.Extra["finding_present:"+u.corpus] = true
			} else {
				rep.Extra["finding_present:"+u.corpus] = false
			}
			rep.Dist("family:corpus")
		}
	}
	var skipped []string
	for c := range skip {
		skipped = append(skipped, c)
	}
	sort.Strings(skipped)
	rep.Extra["generator_classes_off"] = skipped
	warmStack = skip["stack-growth"]

	// ---- generate
	for i := 0; i < nprog; i++ {
		if only == "" && rng.Chance(45, 100) && !skip["minigo"] {
			ext := rng.Chance(40, 100) && !skip["minigo-ext"]
			p := genProgram(rng.Fork(), 2+rng.Intn(maxDepth-1), ext, avoidSet{topGoto: true, noLabels: true, rangeKey: skip["range-key"]})
			p.Idx = idx
			name := fmt.Sprintf("p%d", idx)
			u := &unit{Idx: idx, Family: "minigo", Entry: "w" + name, mini: p}
			fsrc := fmt.Sprintf("func %s() (v0, v1, v2, v3 int) {\n%s\n}", name, p.Src)
			if skip["named-results"] {
				// finding open: results are declared as locals and every return names them
				body := bareReturn.ReplaceAllString(p.Src, "return v0, v1, v2, v3")
				fsrc = fmt.Sprintf("func %s() (int, int, int, int) {\n\tvar v0, v1, v2, v3 int\n%s\n}", name, body)
			}
			u.Decls = []string{
				fsrc,
				fmt.Sprintf("func w%s() {\n\ta, b, c, d := %s()\n\temit(a)\n\temit(b)\n\temit(c)\n\temit(d)\n}", name, name),
			}
			units = append(units, u)
		} else {
			tp := genTyped(rng.Fork(), idx, skip, only)
			units = append(units, &unit{Idx: idx, Family: "typed", Decls: tp.decls(), Entry: tp.entry(), Class: tp.Names})
		}
		idx++
	}

	// ---- compiled Go, in batches
	want := map[int]obs{}
	gen := units[ncorpus:]
	const per = 400
	for b := 0; b*per < len(gen); b++ {
		hi := (b + 1) * per
		if hi > len(gen) {
			hi = len(gen)
		}
		wd.Beat(fmt.Sprintf("oracle batch %d", b))
		res, err := oracle(a, gen[b*per:hi], b)
		if err != nil {
			fmt.Fprintln(os.Stderr, err)
			os.Exit(2)
		}
		for k, v := range res {
			want[k] = v
		}
	}

	// ---- classic
	header := "From Coq Require Import List ZArith.\nFrom Verif Require Import MiniGo.Syntax MiniGo.Sem C38.Model.\nImport ListNotations.\nOpen Scope nat_scope."
	cw := vh.NewCases(a, header, "case", "mismatches", 32)
	const maxCoq = 1024 // correspondence cases per run: <= 32 shards of 32 programs (a shard costs 15-40 s of coqc)
	it := newInterp()
	ncoq := 0
	for i, u := range gen {
		if i%60 == 59 {
			it = newInterp()
		}
		wd.Beat(u)
		w, ok := want[u.Idx]
		if !ok {
			fmt.Fprintf(os.Stderr, "no oracle output for program %d\n", u.Idx)
			os.Exit(2)
		}
		got := it.runClassic(u)
		if got.String() != w.String() {
			what := "trace differs from compiled Go"
			switch {
			case got.Err == "compile_error":
				what = "classic rejects a declaration accepted by the Go compiler"
				it = newInterp()
			case got.Err != w.Err:
				what = "panic behaviour differs from compiled Go"
			}
			rep.Fail(vh.Failure{Key: "src:" + u.source(), What: what + " (" + strings.Join(u.Class, ",") + ")", Input: u.source() + "\n" + u.Entry + "()", Got: got, Want: w})
		}
		rep.Count(u.source(), len(w.Trace) >= 3)
		rep.Dist("family:" + u.Family)
		for _, c := range u.Class {
			rep.Dist("snippet:" + c)
		}
		rep.Dist(fmt.Sprintf("trace_len:%d-%d", len(w.Trace)/20*20, len(w.Trace)/20*20+19))
		if w.Err != "" {
			rep.Dist("outcome:" + w.Err)
		}
		if i%53 == 7 {
			rep.Sample(map[string]interface{}{"source": u.source(), "entry": u.Entry, "trace": w.Trace})
		}
		rep.CaseInput(u.Idx, map[string]interface{}{"source": u.source(), "entry": u.Entry, "go": w, "classic": got})
		if u.mini != nil {
			for k, n := range u.mini.Feat {
				if n > 0 {
					rep.Dist("construct:" + k)
				}
			}
			// correspondence: what classic did vs the Coq reference semantics
			if tr, isInt := intTrace(got.Trace); u.mini.Mini && isInt && got.Err == "" && len(tr) >= 4 && len(tr) <= 1500 && ncoq < maxCoq {
				ncoq++
				fuel := 600 + u.mini.Nodes + 4*len(tr)
				cw.Add(fmt.Sprintf("mkCase %d %d %s (N.to_nat %d) %s %s", u.Idx, nres, u.mini.Coq, fuel, coqZs(tr[:len(tr)-4]), coqZs(tr[len(tr)-4:])))
				rep.Dist("class:MiniGo")
			}
		}
	}
	cw.Close()
	rep.Extra["programs"] = len(gen)
	rep.Extra["corpus_inputs"] = ncorpus
	rep.Extra["coq_cases"] = ncoq
	rep.Write()
}

package main

// Typed programs for the classic interpreter's documented subset (differential only: they have no MiniGo term):
// default-typed int, float64, string, bool; slices, maps, plain structs of them; functions, closures, recursion;
// if / for / switch / range / break / continue; defer / recover.
//
// A program is a set of top-level declarations (types, functions) plus an entry function built from parametrised
// snippets.  Observable behaviour: the trace of emit / emitf / emits / emitb calls and whether a panic escapes.

import (
	"fmt"
	"strings"

	"verifh/vh"
)

type snippet struct {
	name string
	top  string // top-level declarations ("" = none); $n = unique suffix
	body string // statements of the entry function; $n, $a..$e = small random ints (>0), $z may be 0
}

var snippets = []snippet{
	{"int-arith", "", `a$n, b$n := $a, $b
emit(a$n + b$n*$c)
emit(a$n / b$n)
emit(a$n % b$n)
emit(-a$n - b$n)
emit(a$n << 2)
emit((a$n * 37) >> 1)
emit(a$n&b$n | $d ^ a$n)
emit(a$n &^ b$n)
emit((0 - a$n*7) / 2)
emit((0 - a$n*7) % 3)`},
	{"int-opassign", "", `a$n := $a
a$n += $b
emit(a$n)
a$n *= 3
a$n -= $c
emit(a$n)
a$n /= 2
a$n %= 7
emit(a$n)
a$n <<= 3
a$n |= 5
a$n &= 29
a$n ^= $d
emit(a$n)
a$n++
a$n--
a$n--
emit(a$n)`},
	{"int-wrap", "", `w$n := 1 << 62
w$n *= 4
emit(w$n)
v$n := 9223372036854775807
v$n += $a
emitb(v$n < 0)`},
	{"bool-ops", "", `a$n, b$n := $a, $b
t$n := a$n < b$n
emitb(t$n && b$n != $c || !(a$n >= $d))
emitb(!t$n)
emitb(t$n == (a$n <= b$n))
if t$n && a$n > 0 {
	emit(1)
} else if !t$n {
	emit(2)
} else {
	emit(3)
}`},
	{"float-arith", "", `f$n, g$n := $a.5, 0.25
emitf(f$n*g$n + 2)
emitf(f$n / g$n)
emitf(f$n - g$n*3)
emitb(f$n > g$n)
i$n := $b
emitf(float64(i$n) / 2)
emit(int(f$n * 3))
f$n += 0.5
f$n *= 2
f$n -= g$n
f$n /= 4
emitf(f$n)
emitf(-f$n)`},
	{"string-ops", "", `s$n := "héllo$a"
t$n := s$n + "!"
emits(t$n)
emit(len(s$n))
emits(s$n[1:4])
emits(s$n[2:])
emit(int(s$n[0]))
emitb(s$n < t$n)
emitb(s$n == "héllo$a")
emitb(s$n != t$n)
for i$n, r$n := range s$n {
	emit(i$n*1000 + int(r$n))
}
s$n += "x"
emits(s$n)
u$n := ""
for k$n := 0; k$n < $b; k$n++ {
	u$n += "ab"
}
emits(u$n)`},
	{"slice-basic", "", `xs$n := []int{3, 1, $a}
xs$n = append(xs$n, 4, $b)
emit(len(xs$n))
emit(xs$n[1] + xs$n[4])
ys$n := xs$n[1:3]
ys$n[0] = 9
emit(xs$n[1])
emit(len(ys$n))
emit(cap(ys$n))
zs$n := make([]int, 2, 5)
emit(copy(zs$n, xs$n))
emit(zs$n[0] + zs$n[1])
emit(cap(zs$n))
for i$n, x$n := range xs$n {
	emit(i$n*10 + x$n)
}
for i$n := range xs$n {
	xs$n[i$n] *= 2
}
emits(fmt.Sprint(xs$n))
var ns$n []int
emitb(ns$n == nil)
ns$n = append(ns$n, $c)
emit(len(ns$n))
xs$n[0], xs$n[1] = xs$n[1], xs$n[0]
emits(fmt.Sprint(xs$n[:2]))`},
	{"slice-alias", "", `a$n := make([]int, 0, 4)
b$n := append(a$n, 1)
c$n := append(a$n, $a)
emit(b$n[0])
emit(c$n[0])
d$n := append(b$n[:1], 7, 8, 9, 10)
d$n[0] = 55
emit(b$n[0])
emit(len(d$n))`},
	{"slice-nested", "", `m$n := [][]int{[]int{1, 2}, []int{3}, []int{}}
m$n[2] = append(m$n[2], $a)
m$n[0][1] += $b
t$n := 0
for _, row$n := range m$n {
	for _, x$n := range row$n {
		t$n += x$n
	}
}
emit(t$n)
emits(fmt.Sprint(m$n))
ss$n := []string{"b", "a"}
ss$n = append(ss$n, "c")
emits(ss$n[0] + ss$n[2])
fs$n := []float64{1.5, 2}
fs$n[1] /= 4
emitf(fs$n[0] + fs$n[1])`},
	{"map-basic", "", `m$n := map[string]int{"a": 1, "b": $a}
m$n["c"] = 3
delete(m$n, "a")
v$n, ok$n := m$n["a"]
emit(v$n)
emitb(ok$n)
w$n, ok2$n := m$n["b"]
emit(w$n)
emitb(ok2$n)
emit(len(m$n))
m$n["b"] += 5
m$n["z"]++
emit(m$n["b"] + m$n["z"])
sum$n := 0
for k$n, x$n := range m$n {
	sum$n += len(k$n)*100 + x$n
}
emit(sum$n)
emits(fmt.Sprint(m$n))
var nm$n map[string]int
emit(nm$n["q"])
emit(len(nm$n))
emitb(nm$n == nil)
if x$n, found$n := m$n["c"]; found$n {
	emit(x$n)
} else {
	emit(-1)
}`},
	{"map-kinds", "", `a$n := map[int]string{1: "x", $a + 1: "y"}
a$n[9] = a$n[1] + a$n[$a+1]
emits(a$n[9])
emit(len(a$n))
b$n := map[string][]int{}
b$n["k"] = append(b$n["k"], $b)
b$n["k"] = append(b$n["k"], 2)
emit(len(b$n["k"]))
emit(len(b$n["none"]))
c$n := map[string]float64{"h": 0.5}
c$n["h"] *= 3
emitf(c$n["h"])
d$n := map[string]bool{"t": true}
emitb(d$n["t"])
emitb(d$n["f"])
e$n := make(map[int]int)
for i$n := 0; i$n < 5; i$n++ {
	e$n[i$n%3] += i$n
}
emit(e$n[0]*100 + e$n[1]*10 + e$n[2])`},
	{"struct-basic", `type P$n struct {
	X int
	S string
	F float64
	B bool
}`, `p$n := P$n{$a, "a", 2.5, true}
q$n := p$n
q$n.X = 7
emit(p$n.X)
emit(q$n.X)
emitb(p$n == q$n)
q$n.X = $a
emitb(p$n == q$n)
pp$n := &p$n
pp$n.X++
pp$n.S += "z"
emit(p$n.X)
emits(p$n.S)
r$n := P$n{S: "k"}
emit(r$n.X)
emitb(r$n.B)
emits(fmt.Sprint(p$n))
var z$n P$n
emitf(z$n.F)
z$n.F = p$n.F * 2
emitf(z$n.F)`},
	{"struct-nested", `type I$n struct {
	A, B int
}
type O$n struct {
	In I$n
	Xs []int
	M  map[string]int
	N  string
}`, `o$n := O$n{In: I$n{1, $a}, Xs: []int{1}, M: map[string]int{}, N: "n"}
o$n.In.A += $b
o$n.Xs = append(o$n.Xs, o$n.In.B)
o$n.M["k"] = o$n.In.A
c$n := o$n
c$n.In.B = 100
c$n.Xs[0] = 50
emit(o$n.In.B)
emit(o$n.Xs[0])
emit(o$n.M["k"])
ps$n := []I$n{I$n{1, 2}, I$n{3, 4}}
ps$n[0].A = $c
for _, e$n := range ps$n {
	e$n.B = 100
}
emit(ps$n[0].A + ps$n[0].B + ps$n[1].B)
for i$n := range ps$n {
	ps$n[i$n].B++
}
emit(ps$n[1].B)
ms$n := map[string]I$n{"a": I$n{5, 6}}
emit(ms$n["a"].B)
t$n := ms$n["a"]
t$n.A = 9
ms$n["a"] = t$n
emit(ms$n["a"].A)
ptr$n := &ps$n[1]
ptr$n.A = 77
emit(ps$n[1].A)
emits(fmt.Sprint(o$n.In, ps$n))`},
	{"func-basic", `func add$n(a, b int) int { return a + b*$a }
func divmod$n(a, b int) (int, int) { return a / b, a % b }
func sum$n(xs ...int) int {
	t := 0
	for _, x := range xs {
		t += x
	}
	return t
}
func fact$n(k int) int {
	if k <= 1 {
		return 1
	}
	return k * fact$n(k-1)
}
func fib$n(k int) int {
	if k < 2 {
		return k
	}
	return fib$n(k-1) + fib$n(k-2)
}
func swap$n(a, b string) (string, string) { return b, a }`, `emit(add$n(2, 3))
q$n, r$n := divmod$n(17, $c)
emit(q$n*100 + r$n)
emit(sum$n())
emit(sum$n(1, 2, $a))
emit(sum$n([]int{4, 5, 6}...))
emit(fact$n(6))
emit(fib$n(10))
u$n, v$n := swap$n("l", "r")
emits(u$n + v$n)
emit(add$n(add$n(1, 2), sum$n(3, 4)))`},
	{"func-values", `func apply$n(f func(int) int, x int) int { return f(f(x)) }
func counter$n(start int) func() int {
	c := start
	return func() int {
		c += $a
		return c
	}
}
func compose$n(f, g func(int) int) func(int) int {
	return func(x int) int { return f(g(x)) }
}`, `dbl$n := func(x int) int { return x * 2 }
emit(dbl$n(3))
emit(apply$n(dbl$n, $b))
c1$n, c2$n := counter$n(0), counter$n(100)
c1$n()
emit(c1$n())
emit(c2$n())
emit(c1$n())
inc$n := func(x int) int { return x + 1 }
emit(compose$n(dbl$n, inc$n)(5))
emit(compose$n(inc$n, dbl$n)(5))
acc$n := 0
add$n := func(k int) { acc$n += k }
add$n(3)
add$n($c)
emit(acc$n)
emit(func(a, b int) int { return a - b }(9, $d))
var fs$n []func() int
for i$n := 0; i$n < 3; i$n++ {
	fs$n = append(fs$n, func() int { return i$n * 10 })
}
for _, f$n := range fs$n {
	emit(f$n())
}
var gs$n []func() int
for _, x$n := range []int{5, 6, 7} {
	y$n := x$n
	gs$n = append(gs$n, func() int { return x$n*100 + y$n })
}
for _, g$n := range gs$n {
	emit(g$n())
}`},
	{"mutual-recursion", `func even$n(k int) bool {
	if k == 0 {
		return true
	}
	return odd$n(k - 1)
}
func odd$n(k int) bool {
	if k == 0 {
		return false
	}
	return even$n(k - 1)
}`, `emitb(even$n($a))
emitb(odd$n($a))
emitb(even$n(10))`},
	{"defer-order", `func dord$n() int {
	x := 1
	defer func() {
		emit(x)
	}()
	for i := 0; i < 3; i++ {
		defer emit(100 + i)
	}
	defer func(k int) { emit(k) }(x * 7)
	x = 3
	return x * $a
}`, `emit(dord$n())`},
	{"defer-arg-var", `func darg$n(k int) int {
	x := k
	defer emit(x)
	x = 9
	return x
}`, `emit(darg$n($a))`},
	{"named-results", `func named$n(a int) (r int, s string) {
	r = a * 2
	if a > $b {
		s = "big"
		return
	}
	return r + 1, "small"
}
func dres$n() (r int) {
	defer func() {
		r += 10
	}()
	return $a
}`, `x$n, s$n := named$n($d)
emit(x$n)
emits(s$n)
emit(dres$n())`},
	{"defer-recover", `func safe$n(d int) {
	defer func() {
		e := recover()
		_, isErr := e.(error)
		emitb(isErr)
		emit(-1)
	}()
	emit(d)
	emit(100 / d)
}
func thrower$n(k int) {
	defer emit(70 + k)
	if k > $a {
		panic("boom")
	}
	emit(60 + k)
}
func catcher$n(k int) {
	defer func() {
		e := recover()
		emits(fmt.Sprint("caught:", e))
	}()
	thrower$n(k)
	emits("fine")
}`, `safe$n(0)
safe$n(5)
catcher$n(1)
catcher$n(9)`},
	{"recover-results", `func rres$n(k int) int {
	defer func() {
		recover()
	}()
	if k > 2 {
		panic("boom")
	}
	return k + $a
}`, `emit(rres$n(1))
emit(rres$n(5))`},
	{"recover-neq-nil", `func rneq$n(d int) {
	defer func() {
		if e := recover(); e != nil {
			emit(-1)
		}
	}()
	emit(100 / d)
}`, `rneq$n($a)
rneq$n(0)`},
	{"recover-runtime", `func idx$n(xs []int, i int) {
	defer func() {
		recover()
		emit(-2)
	}()
	emit(xs[i])
}
func nilmap$n() {
	defer func() {
		e := recover()
		_, isErr := e.(error)
		emitb(isErr)
	}()
	var m map[string]int
	m["x"] = 1
	emit(1)
}
func first$n() { panic("first") }
func again$n(e interface{}) { panic(fmt.Sprint(e, "+again")) }
func repanic$n() {
	defer func() {
		e := recover()
		emits(fmt.Sprint(e))
	}()
	defer func() {
		e := recover()
		again$n(e)
	}()
	first$n()
}
func norecover$n() {
	defer func() {
		e := recover()
		emits(fmt.Sprint(e))
	}()
	emits("x")
}`, `idx$n([]int{1, 2, 3}, 1)
idx$n([]int{1, 2, 3}, $a+2)
nilmap$n()
repanic$n()
norecover$n()`},
	{"panic-own-recover", `func pown$n() {
	defer func() {
		e := recover()
		emits(fmt.Sprint(e))
	}()
	panic("z$a")
}`, `pown$n()
emit(1)`},
	{"recover-as-argument", `func rarg$n() {
	defer func() {
		emits(fmt.Sprint(recover()))
	}()
	emits("x")
}`, `rarg$n()`},
	{"index-panic-value", `func ipv$n(xs []int, i int) {
	defer func() {
		e := recover()
		_, isErr := e.(error)
		emitb(isErr)
	}()
	emit(xs[i])
}`, `ipv$n([]int{1, 2}, $a+1)`},
	{"elided-lit", `type EL$n struct{ A, B int }`, `m$n := [][]int{{1, $a}, {3}, {}}
emit(len(m$n) + m$n[0][1])
ps$n := []EL$n{{1, 2}, {3, $b}}
emit(ps$n[1].B)
ms$n := map[string]EL$n{"a": {5, 6}}
emit(ms$n["a"].B)`},
	{"switch-forms", "", `for i$n := 0; i$n < 6; i$n++ {
	switch i$n {
	case 0:
		emit(10)
		fallthrough
	case 1, 2:
		emit(20 + i$n)
	case $a + 2:
		emit(30)
		if i$n > 2 {
			break
		}
		emit(31)
	default:
		emit(40)
		continue
	}
	emit(50 + i$n)
}
s$n := "b"
switch s$n + "x" {
case "ax":
	emit(1)
case "bx":
	emit(2)
default:
	emit(3)
}
k$n := $b
switch {
case k$n > 5:
	emit(100)
case k$n > 2:
	emit(200)
default:
	emit(300)
}
switch j$n := k$n * 2; {
case j$n%4 == 0:
	emit(j$n)
default:
	emit(-j$n)
}
switch f$n := 1.5; f$n {
case 1.5:
	emit(15)
}`},
	{"loops", "", `t$n := 0
for i$n := 0; i$n < 5; i$n++ {
	if i$n == $a {
		continue
	}
	for j$n := 0; j$n < 5; j$n++ {
		if j$n > i$n {
			break
		}
		t$n += i$n*10 + j$n
	}
}
emit(t$n)
n$n := $b + 3
for n$n > 0 {
	n$n -= 2
}
emit(n$n)
c$n := 0
for {
	c$n++
	if c$n >= $c {
		break
	}
}
emit(c$n)
for i$n := range []int{7, 8} {
	emit(i$n)
}
for _, ch$n := range "ab" {
	emit(int(ch$n))
}
var arr$n [3]int
for i$n := range arr$n {
	arr$n[i$n] = i$n * i$n
}
emit(arr$n[2] + len(arr$n))`},
	{"shadowing", "", `x$n := 1
{
	x$n := 2
	x$n++
	emit(x$n)
}
emit(x$n)
if x$n := 10; x$n > 5 {
	emit(x$n)
}
f$n := func() int {
	x$n := 50
	return x$n
}
emit(f$n() + x$n)
g$n := func() { x$n = $a }
g$n()
emit(x$n)
var y$n int
y$n, z$n := 3, 4
emit(y$n + z$n)
a$n, b$n := 1, 2
a$n, b$n = b$n, a$n+b$n
emit(a$n*10 + b$n)`},
	{"consts", `const c$n = 10
const s$n = "k"
const (
	ka$n = iota * 2
	kb$n
	kc$n
)
const f$n float64 = 2.5`, `emit(c$n * 2)
emits(s$n + s$n)
emit(ka$n + kb$n*10 + kc$n*100)
emitf(f$n * 2)
var v$n int = c$n
emit(v$n + $a)
const loc$n = 7
emit(loc$n % 4)`},
	{"pointers", `func inc$n(p *int) { *p += $a }
type PT$n struct{ V int }`, `v$n := 1
p$n := &v$n
*p$n = 5
inc$n(p$n)
inc$n(&v$n)
emit(v$n)
np$n := new(int)
*np$n += $b
emit(*np$n)
a$n := &PT$n{V: 1}
b$n := a$n
b$n.V = $c
emit(a$n.V)
emitb(a$n == b$n)
c$n := *a$n
c$n.V++
emit(a$n.V*100 + c$n.V)`},
	{"methods", `type C$n struct{ N int }

func (c C$n) Get() int   { return c.N * $a }
func (c *C$n) Inc(k int) { c.N += k }
func (c C$n) Set(k int)  { c.N = k }`, `c$n := C$n{1}
c$n.Inc(4)
c$n.Set(100)
emit(c$n.Get())
pc$n := &c$n
pc$n.Inc(1)
emit(pc$n.Get())`},
}

type tprog struct {
	Idx   int      `json:"idx"`
	Top   string   `json:"top"`
	Body  string   `json:"body"`
	Names []string `json:"snippets"`
}

func (p *tprog) entry() string { return fmt.Sprintf("t%d", p.Idx) }
func (p *tprog) decls() []string {
	var ds []string
	if p.Top != "" {
		ds = splitDecls(p.Top)
	}
	return append(ds, fmt.Sprintf("func t%d() {\n%s\n}", p.Idx, p.Body))
}

// splitDecls cuts a column-0 formatted source into its top-level declarations
func splitDecls(src string) []string {
	var out []string
	var cur []string
	flush := func() {
		if len(cur) > 0 {
			out = append(out, strings.Join(cur, "\n"))
			cur = nil
		}
	}
	for _, l := range strings.Split(src, "\n") {
		if l == "" {
			continue
		}
		starts := strings.HasPrefix(l, "func ") || strings.HasPrefix(l, "type ") || strings.HasPrefix(l, "const ") || strings.HasPrefix(l, "var ")
		if starts {
			flush()
		}
		cur = append(cur, l)
	}
	flush()
	return out
}

func instantiate(r *vh.Rng, txt string, n int) string {
	rep := strings.NewReplacer(
		"$n", fmt.Sprintf("_%d", n),
		"$a", fmt.Sprint(1+r.Intn(6)), "$b", fmt.Sprint(1+r.Intn(6)), "$c", fmt.Sprint(1+r.Intn(6)),
		"$d", fmt.Sprint(1+r.Intn(6)), "$e", fmt.Sprint(1+r.Intn(6)))
	return rep.Replace(txt)
}

// genTyped: 2..5 snippets; skip = names of snippet classes to avoid (open findings)
func genTyped(r *vh.Rng, idx int, skip map[string]bool, only string) *tprog {
	p := &tprog{Idx: idx}
	var tops, bodies []string
	k := 2 + r.Intn(4)
	if only != "" {
		k = 1
	}
	for i := 0; i < k; i++ {
		var sn snippet
		for {
			sn = snippets[r.Intn(len(snippets))]
			if only != "" {
				for _, s := range snippets {
					if s.name == only {
						sn = s
					}
				}
			}
			if skip["methods-twice"] && sn.name == "methods" && only == "" {
				// finding corpus:methods-shared-by-identical-struct-types is open: one `methods` snippet per program
				dup := false
				for _, nm := range p.Names {
					dup = dup || nm == "methods"
				}
				if dup {
					continue
				}
			}
			if !skip[sn.name] || only != "" {
				break
			}
		}
		n := idx*10 + i
		fr := r.Fork()
		fr2 := *fr
		if sn.top != "" {
			tops = append(tops, instantiate(fr, sn.top, n))
		}
		// the same parameter values in the declarations and in the body
		body := instantiate(&fr2, sn.body, n)
		if only == "" && r.Chance(1, 4) {
			// run the snippet twice inside a loop: declarations are re-executed in a fresh scope
			body = fmt.Sprintf("for rep_%d := 0; rep_%d < 2; rep_%d++ {\n%s\n}", n, n, n, strings.Join(indent(strings.Split(body, "\n")), "\n"))
		} else {
			body = "{\n" + strings.Join(indent(strings.Split(body, "\n")), "\n") + "\n}"
		}
		bodies = append(bodies, strings.Join(indent(strings.Split(body, "\n")), "\n"))
		p.Names = append(p.Names, sn.name)
	}
	p.Top = strings.Join(tops, "\n")
	p.Body = strings.Join(bodies, "\n")
	return p
}

// canon.go: canonical rendering of results and panic classes.
// This file is compiled into the c02 harness AND copied verbatim (go:embed) into the generated compiled-Go
// oracle program, so both sides format values with literally the same code.
package main

import (
	"fmt"
	"math"
	"strings"
)

// all NaNs are canonicalised: sign and payload of a NaN result are not defined by Go and differ between two
// compilations of the same expression.
func canonF32(f float32) string {
	if f != f {
		return "7fc00000"
	}
	return fmt.Sprintf("%08x", math.Float32bits(f))
}

func canonF64(f float64) string {
	if f != f {
		return "7ff8000000000001"
	}
	return fmt.Sprintf("%016x", math.Float64bits(f))
}

// canonValue: integers %d, bool %t, strings %q, floats / complex as IEEE bit patterns in hex.
func canonValue(v interface{}) string {
	switch x := v.(type) {
	case bool:
		return fmt.Sprintf("%t", x)
	case int, int8, int16, int32, int64, uint, uint8, uint16, uint32, uint64, uintptr:
		return fmt.Sprintf("%d", x)
	case string:
		return fmt.Sprintf("%q", x)
	case float32:
		return "f32:" + canonF32(x)
	case float64:
		return "f64:" + canonF64(x)
	case complex64:
		return "c64:" + canonF32(real(x)) + "," + canonF32(imag(x))
	case complex128:
		return "c128:" + canonF64(real(x)) + "," + canonF64(imag(x))
	}
	return fmt.Sprintf("?%T:%v", v, v)
}

// classifyPanic maps a recovered panic to the small enum used for comparison.
func classifyPanic(p interface{}) string {
	s := fmt.Sprint(p)
	switch {
	case strings.Contains(s, "divide by zero"):
		return "panic:div0"
	case strings.Contains(s, "negative shift amount"):
		return "panic:negshift"
	}
	return "panic:other(" + s + ")"
}

// cases.go: corpus programs (exact inputs of recorded findings) and the Coq correspondence cases.
package main

import (
	"verifh/vh"
)

// corpus: programs replayed first (minimised past failures)
func (g *Gen) corpus() {
}

// writeCases: integer cases on variable places as Coq terms (cases_NNN.v)
func (g *Gen) writeCases(a *vh.Args, rep *vh.Report) int {
	return 0
}

// cases.go: corpus programs (exact inputs of recorded findings) and the Coq correspondence cases.
package main

import (
	"fmt"
	"os"
	"path/filepath"
	"strconv"
	"strings"

	"verifh/vh"
)

func kindByName(n string) *Kind {
	for _, k := range kinds {
		if k.Name == n {
			return k
		}
	}
	panic("unknown kind " + n)
}

// corpus: the exact inputs of the recorded findings, replayed first (program, operand kind, class key)
func (g *Gen) corpus() {
	type item struct{ name, kind, src, class string }
	items := []item{
		{"xor-field", "uint8", `func(a uint8) string { var s struct{ X uint8 }; s.X = a; s.X ^= 1; return show(s.X) }`, "finding:place-xor-shift-dispatch"},
		{"shl-deref", "int", `func(a int) string { x := a; p := &x; *p <<= 3; return show(x) }`, "finding:place-xor-shift-dispatch"},
		{"shr-elem", "int16", `func(a int16) string { s := []int16{a}; s[0] >>= 2; return show(s[0]) }`, "finding:place-xor-shift-dispatch"},
		{"float-mul-zero", "float64", `func(a float64) string { x := a; x *= 0; return show(x) }`, "finding:const-shortcut-nonint"},
		{"float-add-zero", "float64", `func(a float64) string { x := a; x += 0; return show(x) }`, "finding:const-shortcut-nonint"},
		{"float-quo-zero", "float32", `func(a float32) string { x := a; x /= 0; return show(x) }`, "finding:const-shortcut-nonint"},
		{"quo-maxuint64", "uint64", `func(a uint64) string { x := a; x /= 18446744073709551615; return show(x) }`, "finding:quo-maxuint64"},
		{"quopow2-boxed", "int", `func(a int) string { x1_int = a; x1_int /= 8; return show(x1_int) }`, "finding:quopow2-varbind"},
		{"map-noop", "int", `func(a int) string { m := map[string]int{}; m["z"] += 0; return show(len(m), a) }`, "finding:map-noop-store"},
		{"map-quo-missing", "int32", `func(a int32) string { m := map[string]int32{}; m["z"] /= 64; return show(len(m), m["z"], a) }`, "finding:map-missing-key-panic"},
		{"blank-both", "int", `func(a int) string { b := a; _, _ = a, b; return show(1) }`, "finding:assign2-blank"},
		{"blank-first", "int", `func(a int) string { x, y := a, a+1; _, x = x, y; return show(x) }`, "finding:assign2-blank"},
	}
	for _, it := range items {
		k := kindByName(it.kind)
		f := &Fn{Mode: "F", Op: "corpus", K: k, KV: k, Place: "corpus-" + it.name, Rhs: "V", Params: []*Kind{k}, Src: it.src, Class: it.class}
		f.Rows = g.rows1(k, f.Key(-1), 6)
		g.add(f)
	}
	// minimised past failures: corpus/C02/*.go.txt, one function literal `func(a K) string {...}` per file, first line `// kind: K`
	dir := filepath.Join(os.Getenv("VERIF_DIR"), "corpus", "C02")
	if os.Getenv("VERIF_DIR") == "" {
		dir = "/verif/corpus/C02"
	}
	files, _ := filepath.Glob(filepath.Join(dir, "*.go.txt"))
	for _, fn := range files {
		b, err := os.ReadFile(fn)
		if err != nil {
			continue
		}
		lines := strings.SplitN(string(b), "\n", 2)
		if len(lines) < 2 || !strings.HasPrefix(lines[0], "// kind: ") {
			continue
		}
		k := kindByName(strings.TrimSpace(strings.TrimPrefix(lines[0], "// kind: ")))
		f := &Fn{Mode: "F", Op: "corpus", K: k, KV: k, Place: "corpus-" + filepath.Base(fn), Rhs: "V", Params: []*Kind{k}, Src: strings.TrimSpace(strings.ReplaceAll(lines[1], "\n", " "))}
		f.Rows = g.rows1(k, f.Key(-1), 6)
		g.add(f)
	}
}

var coqOp = map[string]string{"+=": "Add", "-=": "Sub", "*=": "Mul", "/=": "Quo", "%=": "Rem", "&=": "And", "|=": "Or", "^=": "Xor", "&^=": "AndNot", "<<=": "Shl", ">>=": "Shr"}

func coqInt(k *Kind, u uint64) string {
	if k.Cat == cInt {
		return vh.CoqZ(int64(u))
	}
	return strconv.FormatUint(u, 10) + "%Z"
}

// writeCases: integer cases on variable places as Coq terms
//
//	mkCase idx (KOp Add | KSet | KInc | KDec) kind class hops (RConst | RExpr) old operand obs
//
// obs = what GOMACRO left in the variable (ObsVal z) or the run-time panic; evaluated in Coq by the Go specification
// (Common.GoInt through Sem.go_binop / go_shift) and by the regenerated table row of that (operator, kind, hops, class)
func (g *Gen) writeCases(a *vh.Args, rep *vh.Report) int {
	header := "From Coq Require Import List NArith ZArith.\nFrom Verif Require Import Common.GoStr GoLite.Syntax GoLite.Sem C01.Model C02.Model.\nAdd LoadPath \".\" as Gen.\nFrom Gen Require Gen_var_ops Gen_var_set Gen_var_shifts.\nImport ListNotations.\nOpen Scope Z_scope.\nDefinition tables := Gen_var_ops.table ++ Gen_var_set.table ++ Gen_var_shifts.table."
	if stale, _ := filepath.Glob(a.Path("cases_*.v")); len(stale) > 0 {
		for _, f := range stale {
			os.Remove(f)
		}
	}
	cases := vh.NewCases(a, header, "case", "mismatches tables", 650)
	idx := 0
	// one operand row per program in both tiers: the thorough tier has 4.5 times the programs (every place shape for every
	// operator / kind / constant), i.e. about 19 000 cases = 30 shards of 20-40 s of coqc; 4 rows each would be 156 shards
	per := 1
	for _, f := range g.fns {
		if f.Coq == nil || f.K == nil || !f.K.IsInt() || f.gm == nil || f.ExpectCE || f.Class != "" {
			continue
		}
		var st string
		switch f.Op {
		case "=":
			st = "KSet"
		case "++":
			st = "KInc"
		case "--":
			st = "KDec"
		default:
			op, ok := coqOp[f.Op]
			if !ok {
				continue
			}
			st = "(KOp " + op + ")"
		}
		shift := f.Op == "<<=" || f.Op == ">>="
		rhs := "RExpr"
		if f.Rhs == "C" {
			rhs = "RConst"
		}
		picked := 0
		for j := 0; j < len(f.Rows) && picked < per; j++ {
			row := (f.ID + j*7) % len(f.Rows)
			old := f.Rows[row][0]
			// operand
			var v string
			switch {
			case f.Op == "++" || f.Op == "--":
				v = "VUnit"
			case f.Rhs == "C":
				c, err := strconv.ParseInt(f.CText, 10, 64)
				cu := uint64(c)
				if err != nil {
					u, err2 := strconv.ParseUint(f.CText, 10, 64)
					if err2 != nil {
						continue
					}
					cu = u
				}
				if shift {
					v = "(VInt GUint64 " + strconv.FormatUint(cu, 10) + "%Z)"
				} else {
					v = "(VInt " + coqKind(f.K) + " " + coqInt(f.K, f.K.norm(cu)) + ")"
				}
			default:
				ov := f.Rows[row][1]
				if shift {
					if ov.K.Cat == cInt && int64(ov.U) < 0 {
						continue // negative signed count: Expr.AsUint64 panics (C01)
					}
					v = "(VInt GUint64 " + strconv.FormatUint(ov.U, 10) + "%Z)"
				} else {
					v = coqVal(ov)
				}
			}
			// observation
			var obs string
			o := f.gm[row]
			switch {
			case o == "panic:div0":
				obs = "(ObsPanic PDiv0)"
			case strings.HasPrefix(o, "v:"):
				parts := strings.Split(strings.TrimPrefix(o, "v:"), " ")
				if len(parts) < 3 {
					continue
				}
				if f.K.Cat == cInt {
					z, err := strconv.ParseInt(parts[1], 10, 64)
					if err != nil {
						continue
					}
					obs = "(ObsVal " + vh.CoqZ(z) + ")"
				} else {
					z, err := strconv.ParseUint(parts[1], 10, 64)
					if err != nil {
						continue
					}
					obs = "(ObsVal " + strconv.FormatUint(z, 10) + "%Z)"
				}
			default:
				continue
			}
			cl := "CInt"
			if f.Coq.class == "VarBind" {
				cl = "CVal"
			}
			cases.Add(fmt.Sprintf("mkCase %d %s %s %s %s %s %s %s %s", idx, st, coqKind(f.K), cl, f.Coq.hops, rhs, coqInt(f.K, old.U), v, obs))
			rep.CaseInput(idx, map[string]string{"func": f.Src, "toplevel_statement": f.TStmt, "operands": f.rowText(row), "place": f.Place, "gomacro": o})
			idx++
			picked++
		}
	}
	cases.Close()
	return idx
}

// gen.go: generation of the test programs (function literals) of the c02 harness.
package main

import (
	"fmt"
	"regexp"
	"sort"
	"strconv"
	"strings"

	"verifh/vh"
)

// Fn: one test program.  Mode "F": Src is a function literal `func(params) string` compiled ONCE by gomacro
// (Interp.Eval -> Interface()) and by go build, and called on every row of Rows.  Mode "T" (statement at the top
// level of the interpreter, the only way to reach the upn=0 closures on globals): gomacro compiles TSet (function
// literal that stores the operands into globals), TStmt (Interp.Compile, run with RunExpr per row) and TGet
// (function literal returning the canonical string); the oracle compiles Src = the three glued into one literal.
type Fn struct {
	ID       int
	Mode     string
	Src      string
	Params   []*Kind
	Rows     [][]Val
	TSet     string
	TStmt    string
	TGet     string
	Op       string // "=", "+=", ..., "<<=", "++", "--", "multi", "seq"
	K        *Kind  // kind of the target place (nil for multi / seq)
	KV       *Kind  // kind of the right operand (shift count kind for shifts)
	Place    string
	Rhs      string // "V" variable, "G" logged function call, "C" constant
	CText    string // constant text
	Class    string // "" or the key of a recorded finding class
	Coq      *coqInfo
	seqClass string
	// results
	ExpectCE bool
	CEMsg    string
	gmErr    string
	gm       []string
}

type coqInfo struct {
	class string // IntBind | VarBind
	hops  string // H0 H1 H2 HFile HLoop
	cval  *Val   // constant operand (nil: expression)
}

func (f *Fn) Key(row int) string {
	s := f.Op + " " + kname(f.K) + " " + f.Place + " rhs=" + f.Rhs
	if f.Rhs == "C" {
		s += ":" + f.CText
	} else if f.KV != nil && f.KV != f.K {
		s += ":" + f.KV.Name
	}
	if row >= 0 && row < len(f.Rows) {
		s += " " + f.rowText(row)
	}
	return s
}
func kname(k *Kind) string {
	if k == nil {
		return "-"
	}
	return k.Name
}
func (f *Fn) rowText(row int) string {
	if row < 0 || row >= len(f.Rows) {
		return ""
	}
	var ps []string
	for _, v := range f.Rows[row] {
		ps = append(ps, v.Key())
	}
	return strings.Join(ps, ", ")
}

// neighbours: the values stored in the places before and after the target
func neighbours(k *Kind) (string, string) {
	switch k.Cat {
	case cBool:
		return "true", "true"
	case cInt:
		return "-1", fmt.Sprint(int64(k.norm(0x5555555555555555)))
	case cUint:
		return fmt.Sprint(k.maxU()), fmt.Sprint(k.norm(0x5555555555555555))
	case cFloat:
		return "1.5", "-2.25"
	case cComplex:
		return "(1.5-2.25i)", "(3+4i)"
	}
	return `"L"`, `"R"`
}

var varPlaces = []string{"local", "cap1", "cap2", "cap3", "cap4", "glob0", "glob1", "glob2", "glob3", "glob4", "boxed0", "boxed1", "boxed2", "boxed3", "boxed4"}
var fullPlaces = []string{"ptr", "slicef", "mapf", "pfield"}
var rotPlaces = []string{"ptrf", "arr", "arrf", "slice", "map", "mapmiss", "mapintf", "mff", "field", "fieldf", "nest", "blk2"}

func isVarPlace(p string) bool {
	for _, q := range varPlaces {
		if p == q {
			return true
		}
	}
	return p == "blk2"
}

// build renders the program for one statement on one place.
//
//	stmt(target) gives the statement text; uses names: v (right operand parameter), g() (logged call returning v)
//	nparams: 1 (a) or 2 (a, v)
func build(place string, k, kv *Kind, stmt func(target string) string, nparams int, useG bool) *Fn {
	K := k.Name
	n0, n1 := neighbours(k)
	f := &Fn{Mode: "F", K: k, KV: kv, Place: place}
	f.Params = []*Kind{k}
	sig := "a " + K
	if nparams == 2 {
		f.Params = append(f.Params, kv)
		if kv == k {
			sig = "a, v " + K
		} else {
			sig += ", v " + kv.Name
		}
	}
	helpers := ""
	if useG && nparams == 2 {
		helpers += "g := func() " + kv.Name + ` { lg += "g"; return v }; `
	}
	// d nested function literals WITHOUT locals of their own: each adds exactly one Env between the statement and the
	// variable (a function literal that declares locals gets two: one for its parameters, one for its body), so the
	// statement is compiled with upn = d (+ the frames of the enclosing function, see below)
	wrap := func(d int, s string) string {
		for i := d; i >= 1; i-- {
			s = "func() { " + s + " }()"
		}
		return s
	}
	body := func(pre, st, res string) string {
		return "func(" + sig + ") string { var lg string; " + helpers + pre + st + "; return show(" + res + ", lg) }"
	}
	locals := fmt.Sprintf("var x0 %s = %s; var x %s = a; var x1 %s = %s; ", K, n0, K, K, n1)
	switch {
	case place == "local":
		f.Src = body(locals, stmt("x"), "x0, x, x1")
	case strings.HasPrefix(place, "cap"):
		d := int(place[3] - '0')
		f.Src = body(locals, wrap(d, stmt("x")), "x0, x, x1")
	case place == "blk2":
		// two nested blocks with locals of their own inside the function body
		f.Src = body(locals, fmt.Sprintf("{ var e1 %s = a; _ = e1; { var e2 %s = a; _ = e2; %s } }", K, K, stmt("x")), "x0, x, x1")
	case strings.HasPrefix(place, "glob") || strings.HasPrefix(place, "boxed"):
		pfx, d := "g", int(place[4]-'0')
		if place[0] == 'b' {
			pfx, d = "x", int(place[5]-'0')
		}
		t0, t1, t2 := pfx+"0_"+K, pfx+"1_"+K, pfx+"2_"+K
		set := fmt.Sprintf("%s = %s; %s = a; %s = %s; ", t0, n0, t1, t2, n1)
		res := t0 + ", " + t1 + ", " + t2
		if d == 0 {
			// statement at top level: operands through the globals pv_<kind>
			f.Mode = "T"
			st := stmt(t1)
			if nparams == 2 {
				set += "pv_" + kv.Name + " = v; "
				st = strings.ReplaceAll(st, "§v", "pv_"+kv.Name)
			}
			f.TSet = "func(" + sig + ") string { " + set + "return \"\" }"
			f.TStmt = st
			f.TGet = "func() string { return show(" + res + `, "") }`
			f.Src = "func(" + sig + ") string { " + set + st + "; return show(" + res + `, "") }`
			return f
		}
		if !useG {
			// no locals in the outer function: it has ONE Env (parameters), so a global is upn = d frames up
			// (d = 1, 2: Outer / Outer.Outer; d >= 3: upn == c.Depth-1, the FileEnv closures)
			f.Src = "func(" + sig + ") string { " + set + wrap(d-1, stmt(t1)) + "; return show(" + res + `, "") }`
		} else {
			f.Src = body(set, wrap(d-1, stmt(t1)), res)
		}
	case place == "ptr":
		f.Src = body(locals+"p := &x; ", stmt("*p"), "x0, x, x1")
	case place == "ptrf":
		f.Src = body(locals+"pf := func() *"+K+` { lg += "p"; return &x }; `, stmt("*pf()"), "x0, x, x1")
	case place == "arr":
		f.Src = body(fmt.Sprintf("arr := [3]%s{%s, a, %s}; ", K, n0, n1), stmt("arr[1]"), "arr[0], arr[1], arr[2]")
	case place == "arrf":
		f.Src = body(fmt.Sprintf("arr := [3]%s{%s, a, %s}; f := func() int { lg += \"f\"; return 1 }; ", K, n0, n1), stmt("arr[f()]"), "arr[0], arr[1], arr[2]")
	case place == "slice":
		f.Src = body(fmt.Sprintf("sl := []%s{%s, a, %s}; ", K, n0, n1), stmt("sl[1]"), "sl[0], sl[1], sl[2]")
	case place == "slicef":
		f.Src = body(fmt.Sprintf("sl := []%s{%s, a, %s}; f := func() int { lg += \"f\"; return 1 }; ", K, n0, n1), stmt("sl[f()]"), "sl[0], sl[1], sl[2]")
	case place == "map":
		f.Src = body(fmt.Sprintf("m := map[string]%s{\"p\": %s, \"k\": a, \"q\": %s}; ", K, n0, n1), stmt(`m["k"]`), `m["p"], m["k"], m["q"], len(m)`)
	case place == "mapf":
		f.Src = body(fmt.Sprintf("m := map[string]%s{\"p\": %s, \"k\": a, \"q\": %s}; kf := func() string { lg += \"k\"; return \"k\" }; ", K, n0, n1), stmt(`m[kf()]`), `m["p"], m["k"], m["q"], len(m)`)
	case place == "mapmiss":
		f.Src = body(fmt.Sprintf("m := map[string]%s{\"p\": %s, \"q\": %s}; _ = a; kf := func() string { lg += \"k\"; return \"z\" }; ", K, n0, n1), stmt(`m[kf()]`), `m["p"], m["z"], m["q"], len(m)`)
	case place == "mapintf":
		f.Src = body(fmt.Sprintf("m := map[int8]%s{-1: %s, 7: a, 8: %s}; kf := func() int8 { lg += \"k\"; return 7 }; ", K, n0, n1), stmt(`m[kf()]`), `m[-1], m[7], m[8], len(m)`)
	case place == "mff":
		f.Src = body(fmt.Sprintf("m := map[string]%s{\"p\": %s, \"k\": a, \"q\": %s}; mf := func() map[string]%s { lg += \"m\"; return m }; kf := func() string { lg += \"k\"; return \"k\" }; ", K, n0, n1, K), stmt(`mf()[kf()]`), `m["p"], m["k"], m["q"], len(m)`)
	case place == "field":
		f.Src = body(fmt.Sprintf("var s struct{ A, X, B %s }; s.A = %s; s.X = a; s.B = %s; ", K, n0, n1), stmt("s.X"), "s.A, s.X, s.B")
	case place == "pfield":
		f.Src = body(fmt.Sprintf("var s struct{ A, X, B %s }; s.A = %s; s.X = a; s.B = %s; ps := &s; ", K, n0, n1), stmt("ps.X"), "s.A, s.X, s.B")
	case place == "fieldf":
		f.Src = body(fmt.Sprintf("type S struct{ A, X, B %s }; s := S{%s, a, %s}; sf := func() *S { lg += \"s\"; return &s }; ", K, n0, n1), stmt("sf().X"), "s.A, s.X, s.B")
	case place == "nest":
		f.Src = body(fmt.Sprintf("type S struct{ A, X, B %s }; ss := []S{{}, {%s, a, %s}}; f := func() int { lg += \"f\"; return 1 }; ", K, n0, n1), stmt("ss[f()].X"), "ss[1].A, ss[1].X, ss[1].B, ss[0].X")
	default:
		panic("unknown place " + place)
	}
	f.Src = strings.ReplaceAll(f.Src, "§v", "v")
	return f
}

// ---------------------------------------------------------------- operators
var arithOps = []string{"+", "-", "*", "/"}
var intOps = []string{"+", "-", "*", "/", "%", "&", "|", "^", "&^"}

func opsFor(k *Kind) []string {
	switch k.Cat {
	case cInt, cUint:
		return intOps
	case cFloat, cComplex:
		return arithOps
	case cString:
		return []string{"+"}
	}
	return nil
}

// constants for `place op= C` : generic ones cover the ordinary closure, special ones the shortcuts
func genericConst(k *Kind, op string) string {
	switch k.Cat {
	case cInt, cUint:
		return "3"
	case cFloat:
		return "2.5"
	case cComplex:
		return "(2.5+1i)"
	case cString:
		return `"yz"`
	}
	return "true"
}

func specialConsts(k *Kind, op string) []string {
	switch k.Cat {
	case cInt, cUint:
		cs := []string{"0", "1", "2", "8", "64", fmt.Sprint(k.maxU())}
		if k.Cat == cInt {
			cs = append(cs, "-1", "-2", "-8", fmt.Sprint(int64(k.minU())), fmt.Sprint(int64(k.minU())/2), fmt.Sprint(int64(k.maxU())/2+1))
		} else {
			cs = append(cs, fmt.Sprint(k.maxU()/2+1), fmt.Sprint(k.maxU()-1))
		}
		return cs
	case cFloat:
		return []string{"0", "1", "-1", "2", "-8", "0.5"}
	case cComplex:
		return []string{"0", "1", "-1", "2", "1i", "(0+0i)"}
	case cString:
		return []string{`""`}
	}
	return nil
}

func setConsts(k *Kind) []string {
	switch k.Cat {
	case cBool:
		return []string{"true", "false"}
	case cInt:
		return []string{"0", "7", "-1", fmt.Sprint(int64(k.minU())), fmt.Sprint(k.maxU())}
	case cUint:
		return []string{"0", "7", fmt.Sprint(k.maxU())}
	case cFloat:
		return []string{"0", "-2.5", "1e30"}
	case cComplex:
		return []string{"0", "(1.5-2i)", "3i"}
	}
	return []string{`""`, `"héllo\x00"`}
}

// ---------------------------------------------------------------- rows
func (g *Gen) rows1(k *Kind, key string, n int) [][]Val {
	r := g.rngFor(key)
	var out [][]Val
	p := g.pool(k)
	// boundary values first, then pool / random
	base := []Val{}
	switch k.Cat {
	case cInt, cUint:
		base = append(base, Val{K: k, U: k.minU()}, Val{K: k, U: k.maxU()}, iv(k, 0), iv(k, 1), uv(k, ^uint64(0)), iv(k, 5), Val{K: k, U: k.norm(k.minU() + 1)})
	case cBool:
		base = append(base, bv(false), bv(true))
	default:
		for i := 0; i < len(p) && i < 8; i++ {
			base = append(base, p[i])
		}
	}
	for _, v := range base {
		if len(out) < n {
			out = append(out, []Val{v})
		}
	}
	for len(out) < n {
		if r.Bool() {
			out = append(out, []Val{g.poolVal(k, r)})
		} else {
			out = append(out, []Val{g.randVal(k, r)})
		}
	}
	return out
}

func (g *Gen) rows2(k, kv *Kind, op string, key string, n int) [][]Val {
	r := g.rngFor(key)
	var out [][]Val
	add := func(a, v Val) {
		if len(out) < n {
			out = append(out, []Val{a, v})
		}
	}
	if op == "<<" || op == ">>" {
		cs := shiftCounts(k.Bits, kv)
		for i, c := range cs {
			var a Val
			switch i % 4 {
			case 0:
				a = Val{K: k, U: k.minU()}
			case 1:
				a = uv(k, ^uint64(0))
			case 2:
				a = Val{K: k, U: k.maxU()}
			default:
				a = g.randVal(k, r)
			}
			add(a, c)
		}
		for len(out) < n {
			out = append(out, []Val{g.randVal(k, r), iv(kv, int64(r.Intn(k.Bits+2)))})
		}
		return out
	}
	if k.IsInt() && kv == k {
		min, max, m1, z, one := Val{K: k, U: k.minU()}, Val{K: k, U: k.maxU()}, uv(k, ^uint64(0)), iv(k, 0), iv(k, 1)
		add(min, m1)
		add(max, one)
		add(min, one)
		add(max, max)
		add(iv(k, 7), z)
		add(min, min)
		add(m1, iv(k, 2))
		add(z, max)
	} else if kv == k {
		p := g.pool(k)
		for i := 0; i < 6 && i < len(p); i++ {
			add(p[i], p[(i*5+1)%len(p)])
		}
	}
	for len(out) < n {
		var a, v Val
		if r.Bool() {
			a = g.poolVal(k, r)
		} else {
			a = g.randVal(k, r)
		}
		if r.Bool() {
			v = g.poolVal(kv, r)
		} else {
			v = g.randVal(kv, r)
		}
		out = append(out, []Val{a, v})
	}
	return out
}

// ---------------------------------------------------------------- enumeration
func (g *Gen) add(f *Fn) *Fn {
	f.ID = len(g.fns)
	f.Class = findingClass(f)
	g.fns = append(g.fns, f)
	return f
}

func coqPlace(place string, k *Kind) *coqInfo {
	// storage class and the case of the `switch upn` that the statement closure is taken from
	class := "IntBind"
	if k.Cat == cString || strings.HasPrefix(place, "boxed") {
		class = "VarBind"
	}
	switch place {
	case "local", "glob0", "boxed0":
		return &coqInfo{class: class, hops: "H0"}
	case "cap1", "glob1", "boxed1":
		return &coqInfo{class: class, hops: "H1"}
	case "cap2", "glob2", "boxed2", "blk2":
		return &coqInfo{class: class, hops: "H2"}
	case "cap3", "cap4":
		return &coqInfo{class: class, hops: "HLoop"}
	case "glob3", "glob4", "boxed3", "boxed4":
		return &coqInfo{class: class, hops: "HFile"}
	}
	return nil
}

func (g *Gen) nrows(quick, thorough int) int {
	if g.a.N > 0 {
		return g.a.N
	}
	if g.thorough {
		return thorough
	}
	return quick
}

func (g *Gen) placesFor(full bool) []string {
	ps := append([]string{}, varPlaces...)
	ps = append(ps, fullPlaces...)
	if full || g.thorough {
		return append(ps, rotPlaces...)
	}
	// one of the remaining shapes, rotating
	g.rot++
	return append(ps, rotPlaces[g.rot%len(rotPlaces)])
}

func (g *Gen) enumerate() {
	numeric := func(k *Kind) bool { return k.Cat != cBool && k.Cat != cString }
	for _, k := range kinds {
		k := k
		// ---- x = e
		for _, place := range g.placesFor(false) {
			f := build(place, k, k, func(t string) string { return t + " = §v" }, 2, false)
			f.Op, f.Rhs, f.Coq = "=", "V", coqPlace(place, k)
			f.Rows = g.rows2(k, k, "=", f.Key(-1), g.nrows(6, 24))
			g.add(f)
			if !isVarPlace(place) {
				f := build(place, k, k, func(t string) string { return t + " = g()" }, 2, true)
				f.Op, f.Rhs = "=", "G"
				f.Rows = g.rows2(k, k, "=", f.Key(-1), g.nrows(4, 16))
				g.add(f)
			}
			cs := setConsts(k)
			g.rot++
			c := cs[g.rot%len(cs)]
			f = build(place, k, k, func(t string) string { return t + " = " + c }, 1, false)
			f.Op, f.Rhs, f.CText, f.Coq = "=", "C", c, coqPlace(place, k)
			f.Rows = g.rows1(k, f.Key(-1), g.nrows(3, 8))
			g.add(f)
		}
		// blank identifier
		{
			f := build("local", k, k, func(t string) string { return "_ = g()" }, 2, true)
			f.Op, f.Rhs, f.Place = "=", "G", "blank"
			f.Rows = g.rows2(k, k, "=", f.Key(-1), g.nrows(3, 8))
			g.add(f)
			c := setConsts(k)[0]
			f = build("local", k, k, func(t string) string { return "_ = " + k.Name + "(" + c + ")" }, 1, false)
			f.Op, f.Rhs, f.CText, f.Place = "=", "C", c, "blank"
			f.Rows = g.rows1(k, f.Key(-1), 2)
			g.add(f)
		}
		// ---- x op= e
		for _, op := range opsFor(k) {
			op := op
			for _, place := range g.placesFor(false) {
				f := build(place, k, k, func(t string) string { return t + " " + op + "= §v" }, 2, false)
				f.Op, f.Rhs, f.Coq = op+"=", "V", coqPlace(place, k)
				f.Rows = g.rows2(k, k, op, f.Key(-1), g.nrows(10, 40))
				g.add(f)
				if !isVarPlace(place) {
					f := build(place, k, k, func(t string) string { return t + " " + op + "= g()" }, 2, true)
					f.Op, f.Rhs = op+"=", "G"
					f.Rows = g.rows2(k, k, op, f.Key(-1), g.nrows(4, 16))
					g.add(f)
				}
				c := genericConst(k, op)
				f = build(place, k, k, func(t string) string { return t + " " + op + "= " + c }, 1, false)
				f.Op, f.Rhs, f.CText, f.Coq = op+"=", "C", c, coqPlace(place, k)
				f.Rows = g.rows1(k, f.Key(-1), g.nrows(8, 24))
				g.add(f)
			}
			// special constants: rotate through the places (every place in the thorough tier)
			all := append(append(append([]string{}, varPlaces...), fullPlaces...), rotPlaces...)
			for _, c := range specialConsts(k, op) {
				c := c
				ps := []string{}
				if g.thorough {
					ps = all
				} else {
					g.rot++
					ps = []string{varPlaces[g.rot%len(varPlaces)], all[len(varPlaces)+g.rot%(len(all)-len(varPlaces))]}
				}
				for _, place := range ps {
					f := build(place, k, k, func(t string) string { return t + " " + op + "= " + c }, 1, false)
					f.Op, f.Rhs, f.CText, f.Coq = op+"=", "C", c, coqPlace(place, k)
					f.Rows = g.rows1(k, f.Key(-1), g.nrows(8, 24))
					g.add(f)
				}
			}
		}
		// ---- shifts
		if k.IsInt() {
			ik := intKinds()
			for _, op := range []string{"<<", ">>"} {
				op := op
				for _, place := range g.placesFor(false) {
					g.rot++
					kc := ik[g.rot%len(ik)]
					f := build(place, k, kc, func(t string) string { return t + " " + op + "= §v" }, 2, false)
					f.Op, f.Rhs, f.Coq = op+"=", "V", coqPlace(place, k)
					f.Rows = g.rows2(k, kc, op, f.Key(-1), g.nrows(10, 32))
					g.add(f)
					cs := []string{"0", "1", "3", fmt.Sprint(k.Bits - 1), fmt.Sprint(k.Bits), fmt.Sprint(k.Bits + 1), "64", "65", "200"}
					c := cs[g.rot%len(cs)]
					f = build(place, k, k, func(t string) string { return t + " " + op + "= " + c }, 1, false)
					f.Op, f.Rhs, f.CText, f.Coq = op+"=", "C", c, coqPlace(place, k)
					f.Rows = g.rows1(k, f.Key(-1), g.nrows(6, 16))
					g.add(f)
				}
				// every count kind on a few places; negative constant count (compile error)
				for i, kc := range ik {
					place := []string{"local", "cap3", "glob1", "boxed2", "slicef", "mapf", "pfield"}[i%7]
					f := build(place, k, kc, func(t string) string { return t + " " + op + "= g()" }, 2, true)
					f.Op, f.Rhs = op+"=", "G"
					f.Rows = g.rows2(k, kc, op, f.Key(-1), g.nrows(10, 32))
					g.add(f)
				}
				f := build("local", k, k, func(t string) string { return t + " " + op + "= -1" }, 1, false)
				f.Op, f.Rhs, f.CText = op+"=", "C", "-1"
				f.Rows = g.rows1(k, f.Key(-1), 2)
				g.add(f)
			}
		}
		// ---- x++ x--
		if numeric(k) {
			for _, op := range []string{"++", "--"} {
				op := op
				for _, place := range g.placesFor(false) {
					f := build(place, k, k, func(t string) string { return t + op }, 1, false)
					f.Op, f.Rhs, f.Coq = op, "C", coqPlace(place, k)
					f.CText = "1"
					f.Rows = g.rows1(k, f.Key(-1), g.nrows(8, 24))
					g.add(f)
				}
			}
		}
	}
	g.multi()
	g.sequences()
}

// findingClass: syntactic classes of inputs with a recorded genuine defect (see fixes/C02-*.msg); all failures of a class
// share the key "finding:<name>".  The programs are still generated, run and compared: once the fix is in the tree the
// class simply stops failing.
func isPow2Text(c string) bool {
	c = strings.TrimPrefix(c, "-")
	u, err := strconv.ParseUint(c, 10, 64)
	return err == nil && u >= 2 && u&(u-1) == 0
}

func findingClass(f *Fn) string {
	if f.Class != "" {
		return f.Class
	}
	nonInt := f.K != nil && (f.K.Cat == cFloat || f.K.Cat == cComplex)
	place := f.Op != "multi" && f.Op != "seq" && !isVarPlace(f.Place) && f.Place != "blank"
	switch {
	case f.Op == "multi":
		switch {
		case f.Place == "blank-first", f.Place == "blank-second", f.Place == "blank-both", f.Place == "blank-both-calls",
			f.Place == "toplevel-3", f.Place == "toplevel-4":
			return "finding:assign2-blank"
		}
	case f.Op == "seq":
		if f.seqClass != "" {
			return f.seqClass
		}
	case place && (f.Op == "^=" || f.Op == "<<=" || f.Op == ">>="):
		return "finding:place-xor-shift-dispatch"
	case f.Rhs == "C" && nonInt && (f.Op == "+=" || f.Op == "*=" || f.Op == "/=") &&
		(f.CText == "0" || f.CText == "1" || f.CText == "-1" || f.CText == "(0+0i)"):
		return "finding:const-shortcut-nonint"
	case f.Rhs == "C" && f.Op == "/=" && f.K.Cat == cUint && f.K.Bits == 64 && f.CText == "18446744073709551615" && isVarPlace(f.Place):
		return "finding:quo-maxuint64"
	case f.Rhs == "C" && f.Op == "/=" && f.K.IsInt() && strings.HasPrefix(f.Place, "boxed") && isPow2Text(f.CText):
		return "finding:quopow2-varbind"
	case f.Rhs == "C" && f.Place == "mapmiss" && f.Op == "/=" && f.K.IsInt() && isPow2Text(f.CText) && !strings.HasPrefix(f.CText, "-"):
		return "finding:map-missing-key-panic"
	case f.Rhs == "C" && f.Place == "mapmiss" && f.K.IsInt():
		noop := map[string][]string{"+=": {"0"}, "-=": {"0"}, "*=": {"1"}, "/=": {"1"}, "|=": {"0"}, "^=": {"0"}, "&^=": {"0"}, "&=": {"-1", "18446744073709551615"}, "<<=": {"0"}, ">>=": {"0"}}
		for _, c := range noop[f.Op] {
			if f.CText == c {
				return "finding:map-noop-store"
			}
		}
	case f.Rhs == "C" && f.Place == "mapmiss" && f.K.Cat == cString && f.Op == "+=" && f.CText == `""`:
		return "finding:map-noop-store"
	}
	return ""
}

// ---------------------------------------------------------------- multi-assignments
func (g *Gen) multi() {
	type tmpl struct {
		name string
		src  func(K string, n0, n1 string) string // function literal with parameters (a, v K)
		ks   []string
	}
	all := []string{"int", "int8", "uint16", "uint64", "float64", "complex128", "string", "bool", "float32", "uint8"}
	ints := []string{"int", "int8", "uint16", "int64", "uint8"}
	tm := []tmpl{
		{"swap-local", func(K, n0, n1 string) string {
			return "func(a, v " + K + ") string { var lg string; x, y := a, v; x, y = y, x; return show(x, y, lg) }"
		}, all},
		{"rot3-local", func(K, n0, n1 string) string {
			return "func(a, v " + K + ") string { var lg string; x, y, z := a, v, " + K + "(" + n0 + "); x, y, z = y, z, x; return show(x, y, z, lg) }"
		}, all},
		{"swap-cap2", func(K, n0, n1 string) string {
			return "func(a, v " + K + ") string { var lg string; x, y := a, v; func() { var d " + K + " = a; _ = d; func() { x, y = y, x }() }(); return show(x, y, lg) }"
		}, all},
		{"swap-cap3-mixed", func(K, n0, n1 string) string {
			return "func(a, v " + K + ") string { var lg string; x := a; func() { y := v; func() { func() { x, y = y, x }() }(); lg += show(y) }(); return show(x, lg) }"
		}, all},
		{"swap-global", func(K, n0, n1 string) string {
			return "func(a, v " + K + ") string { g0_" + K + " = a; g1_" + K + " = v; g0_" + K + ", g1_" + K + " = g1_" + K + ", g0_" + K + "; return show(g0_" + K + ", g1_" + K + ") }"
		}, all},
		{"swap-boxed-global", func(K, n0, n1 string) string {
			return "func(a, v " + K + ") string { x0_" + K + " = a; g1_" + K + " = v; x0_" + K + ", g1_" + K + " = g1_" + K + ", x0_" + K + "; return show(x0_" + K + ", g1_" + K + ") }"
		}, all},
		{"swap-slice-elems", func(K, n0, n1 string) string {
			return "func(a, v " + K + ") string { var lg string; s := []" + K + "{a, v, " + K + "(" + n1 + ")}; s[0], s[1] = s[1], s[0]; s[1], s[2] = s[2], s[1]; return show(s[0], s[1], s[2], lg) }"
		}, all},
		{"swap-slice-logged", func(K, n0, n1 string) string {
			return "func(a, v " + K + ") string { var lg string; s := []" + K + "{a, v}; i := func(n int) int { lg += show(n); return n }; s[i(0)], s[i(1)] = s[i(1)], s[i(0)]; return show(s[0], s[1], lg) }"
		}, all},
		{"swap-map-elems", func(K, n0, n1 string) string {
			return "func(a, v " + K + ") string { var lg string; m := map[string]" + K + "{\"a\": a, \"b\": v}; k := func(s string) string { lg += s; return s }; m[k(\"a\")], m[k(\"b\")] = m[k(\"b\")], m[k(\"a\")]; return show(m[\"a\"], m[\"b\"], len(m), lg) }"
		}, all},
		{"swap-fields", func(K, n0, n1 string) string {
			return "func(a, v " + K + ") string { var lg string; type S struct{ A, B " + K + " }; var s S; s.A, s.B = a, v; p := &s; p.A, s.B = s.B, p.A; return show(s.A, s.B, lg) }"
		}, all},
		{"swap-ptrs", func(K, n0, n1 string) string {
			return "func(a, v " + K + ") string { var lg string; x, y := a, v; p, q := &x, &y; *p, *q = *q, *p; return show(x, y, lg) }"
		}, all},
		{"var-place-mixed", func(K, n0, n1 string) string {
			return "func(a, v " + K + ") string { var lg string; x := a; s := []" + K + "{v}; x, s[0] = s[0], x; return show(x, s[0], lg) }"
		}, all},
		{"place-var-mixed", func(K, n0, n1 string) string {
			return "func(a, v " + K + ") string { var lg string; x := a; s := []" + K + "{v}; s[0], x = x, s[0]; return show(x, s[0], lg) }"
		}, all},
		{"blank-first", func(K, n0, n1 string) string {
			return "func(a, v " + K + ") string { var lg string; x, y := a, v; _, x = x, y; return show(x, y, lg) }"
		}, all},
		{"blank-second", func(K, n0, n1 string) string {
			return "func(a, v " + K + ") string { var lg string; x, y := a, v; y, _ = x, y; return show(x, y, lg) }"
		}, all},
		{"blank-both", func(K, n0, n1 string) string {
			return "func(a, v " + K + ") string { var lg string; x, y := a, v; _, _ = x, y; return show(x, y, lg) }"
		}, all},
		{"blank-both-calls", func(K, n0, n1 string) string {
			return "func(a, v " + K + ") string { var lg string; f := func(s string, z " + K + ") " + K + " { lg += s; return z }; _, _ = f(\"1\", a), f(\"2\", v); return show(lg) }"
		}, all},
		{"blank-three", func(K, n0, n1 string) string {
			return "func(a, v " + K + ") string { var lg string; x, y := a, v; _, x, _ = y, y, x; return show(x, y, lg) }"
		}, all},
		{"multi-call", func(K, n0, n1 string) string {
			return "func(a, v " + K + ") string { var lg string; f := func() (" + K + ", " + K + ") { lg += \"f\"; return v, a }; x, y := a, v; x, y = f(); return show(x, y, lg) }"
		}, all},
		{"multi-call-places", func(K, n0, n1 string) string {
			return "func(a, v " + K + ") string { var lg string; f := func() (" + K + ", " + K + ", string) { lg += \"f\"; return v, a, \"s\" }; s := []" + K + "{a}; m := map[int]" + K + "{}; i := func() int { lg += \"i\"; return 0 }; var t string; s[i()], m[i()], t = f(); return show(s[0], m[0], t, lg) }"
		}, all},
		{"multi-call-blank", func(K, n0, n1 string) string {
			return "func(a, v " + K + ") string { var lg string; f := func() (" + K + ", " + K + ") { lg += \"f\"; return v, a }; x := a; _, x = f(); return show(x, lg) }"
		}, all},
		{"const-rhs", func(K, n0, n1 string) string {
			return "func(a, v " + K + ") string { var lg string; x, y := a, v; x, y = " + K + "(" + n0 + "), " + K + "(" + n1 + "); return show(x, y, lg) }"
		}, all},
		{"const-and-var", func(K, n0, n1 string) string {
			return "func(a, v " + K + ") string { var lg string; x, y := a, v; x, y = " + K + "(" + n0 + "), x; return show(x, y, lg) }"
		}, all},
		// the examples of the Go specification (Assignments)
		{"spec-i-xi", func(K, n0, n1 string) string {
			return "func(a, v " + K + ") string { i := 0; x := []" + K + "{a, a, a}; i, x[i] = 1, v; return show(i, x[0], x[1], x[2]) }"
		}, ints},
		{"spec-xi-i", func(K, n0, n1 string) string {
			return "func(a, v " + K + ") string { i := 0; x := []" + K + "{a, a, a}; x[i], i = v, 2; return show(i, x[0], x[1], x[2]) }"
		}, ints},
		{"spec-x0-x0", func(K, n0, n1 string) string {
			return "func(a, v " + K + ") string { x := []" + K + "{a, a, a}; x[0], x[0] = a, v; return show(x[0], x[1], x[2]) }"
		}, ints},
		{"spec-ptr", func(K, n0, n1 string) string {
			return "func(a, v " + K + ") string { type P struct{ X " + K + " }; p := &P{a}; q := &P{}; old := p; p.X, p = v, q; return show(old.X, q.X, p == q) }"
		}, ints},
		{"spec-deref-ptr", func(K, n0, n1 string) string {
			return "func(a, v " + K + ") string { x, y := a, a; p := &x; *p, p = v, &y; return show(x, y, p == &y) }"
		}, ints},
		{"ai-i-swap", func(K, n0, n1 string) string {
			return "func(a, v " + K + ") string { s := []int{2, 0, 1}; i := 1; _, _ = a, v; s[i], i = i, s[i]; return show(i, s[0], s[1], s[2]) }"
		}, []string{"int"}},
		{"mk-k-swap", func(K, n0, n1 string) string {
			return "func(a, v " + K + ") string { m := map[" + K + "]" + K + "{a: v}; k := a; m[k], k = k, m[k]; return show(k, m[a], len(m)) }"
		}, ints},
		{"i-ai-logged", func(K, n0, n1 string) string {
			return "func(a, v " + K + ") string { var lg string; s := []" + K + "{a, a}; i := 0; f := func(n string, z " + K + ") " + K + " { lg += n; return z }; ix := func() int { lg += \"i\"; return i }; i, s[ix()] = 1, f(\"f\", v); return show(i, s[0], s[1], lg) }"
		}, ints},
		{"mixed-kinds", func(K, n0, n1 string) string {
			return "func(a, v " + K + ") string { var s string = \"s\"; var f float64 = 1.5; x := a; x, s, f = v, s+\"t\", f*2; return show(x, s, f) }"
		}, ints},
		{"four-way", func(K, n0, n1 string) string {
			return "func(a, v " + K + ") string { w, x, y, z := a, v, a+1, v+1; w, x, y, z = z, y, x, w; return show(w, x, y, z) }"
		}, ints},
		{"opassign-after-swap", func(K, n0, n1 string) string {
			return "func(a, v " + K + ") string { x, y := a, v; x, y = y, x; x += y; y, x = x, y; y -= x; return show(x, y) }"
		}, ints},
	}
	// Go's two-phase rule with operands that are NOT of a basic kind: the operands of index expressions, map keys and
	// pointer indirections on the left (and the map / slice / pointer itself) are evaluated first, then the assignments
	// are carried out - so when the variable used as key / index holder / container is itself assigned by the same
	// statement (before or after the element, directly, through a closure, from a multi-valued call), the element
	// that is stored is the one designated by the OLD value.  Key kinds: struct, array, pointer, interface (the kinds
	// the interpreter keeps as addressable reflect.Values); K = kind of the components.
	keyable := []string{"int", "int8", "uint16", "uint64", "string", "bool", "uint8", "float64"}
	type keyKind struct{ name, decl, T, k0, k1, showk string }
	keyKinds := func(K string) []keyKind {
		return []keyKind{
			{"struct", "type S struct{ A, B " + K + " }; ", "S", "S{a, v}", "S{v, a}", "k.A, k.B"},
			{"array", "", "[2]" + K, "[2]" + K + "{a, v}", "[2]" + K + "{v, a}", "k[0], k[1]"},
			{"pointer", "x, y := a, v; ", "*" + K, "&x", "&y", "*k, k == &x, k == &y"},
			{"interface", "", "interface{}", "interface{}(a)", "interface{}([1]" + K + "{v})", "k == interface{}(a), k == interface{}([1]" + K + "{v})"},
			{"nested", "type S struct{ A [2]" + K + "; P *" + K + " }; x := a; ", "S", "S{[2]" + K + "{a, v}, &x}", "S{[2]" + K + "{v, a}, nil}", "k.A[0], k.A[1], k.P == &x"},
		}
	}
	for ki := 0; ki < 5; ki++ {
		ki := ki
		kkn := keyKinds("int")[ki].name
		res := func(kk keyKind) string {
			return "return show(" + kk.showk + ", len(m), m[" + kk.k0 + "], m[" + kk.k1 + "]) }"
		}
		pre := func(K string) (keyKind, string) {
			kk := keyKinds(K)[ki]
			return kk, "func(a, v " + K + ") string { " + kk.decl + "m := map[" + kk.T + "]string{}; k := " + kk.k0 + "; "
		}
		tm = append(tm,
			tmpl{"key-" + kkn + "-then-elem", func(K, n0, n1 string) string {
				kk, h := pre(K)
				return h + "k, m[k] = " + kk.k1 + ", \"x\"; " + res(kk)
			}, keyable},
			tmpl{"elem-then-key-" + kkn, func(K, n0, n1 string) string {
				kk, h := pre(K)
				return h + "m[k], k = \"x\", " + kk.k1 + "; " + res(kk)
			}, keyable},
			tmpl{"key-" + kkn + "-elem-call", func(K, n0, n1 string) string {
				kk, h := pre(K)
				return h + "f := func() (" + kk.T + ", string) { return " + kk.k1 + ", \"x\" }; k, m[k] = f(); " + res(kk)
			}, keyable},
			tmpl{"key-" + kkn + "-elem-captured", func(K, n0, n1 string) string {
				kk, h := pre(K)
				return h + "func() { var d " + K + " = a; _ = d; func() { k, m[k] = " + kk.k1 + ", \"x\" }() }(); " + res(kk)
			}, keyable},
			tmpl{"keys-" + kkn + "-rotate", func(K, n0, n1 string) string {
				kk, h := pre(K)
				return h + "j := " + kk.k1 + "; j, k, m[k], m[j] = k, j, \"x\", \"y\"; " + "return show(" + kk.showk + ", j == " + kk.k0 + ", len(m), m[" + kk.k0 + "], m[" + kk.k1 + "]) }"
			}, keyable},
			tmpl{"map-and-key-" + kkn + "-then-elem", func(K, n0, n1 string) string {
				kk, h := pre(K)
				return h + "om, n := m, map[" + kk.T + "]string{}; m, k, m[k] = n, " + kk.k1 + ", \"x\"; " + "return show(" + kk.showk + ", len(m), len(om), len(n), om[" + kk.k0 + "], om[" + kk.k1 + "]) }"
			}, keyable},
			tmpl{"opkey-" + kkn + "-elem-then-key", func(K, n0, n1 string) string {
				kk, h := pre(K)
				return h + "c := map[" + kk.T + "]int{}; c[k], k = c[k]+1, " + kk.k1 + "; c[k], k = c[k]+5, " + kk.k0 + "; " + "return show(" + kk.showk + ", len(c), c[" + kk.k0 + "], c[" + kk.k1 + "], len(m)) }"
			}, keyable},
		)
	}
	tm = append(tm,
		tmpl{"field-key-then-elem", func(K, n0, n1 string) string {
			return "func(a, v " + K + ") string { type S struct{ A, B " + K + " }; m := map[" + K + "]string{}; k := S{a, v}; k, m[k.A] = S{v, a}, \"x\"; return show(k.A, k.B, len(m), m[a], m[v]) }"
		}, keyable},
		tmpl{"elem-then-field-key", func(K, n0, n1 string) string {
			return "func(a, v " + K + ") string { type S struct{ A, B " + K + " }; m := map[" + K + "]string{}; k := S{a, v}; m[k.A], k = \"x\", S{v, a}; return show(k.A, k.B, len(m), m[a], m[v]) }"
		}, keyable},
		tmpl{"array-elem-key-then-elem", func(K, n0, n1 string) string {
			return "func(a, v " + K + ") string { m := map[" + K + "]string{}; k := [2]" + K + "{a, v}; k, m[k[1]] = [2]" + K + "{v, a}, \"x\"; return show(k[0], k[1], len(m), m[a], m[v]) }"
		}, keyable},
		tmpl{"deref-key-then-elem", func(K, n0, n1 string) string {
			return "func(a, v " + K + ") string { m := map[" + K + "]string{}; x, y := a, v; p := &x; p, m[*p] = &y, \"x\"; return show(*p, len(m), m[a], m[v]) }"
		}, keyable},
		tmpl{"struct-index-then-elem", func(K, n0, n1 string) string {
			return "func(a, v " + K + ") string { type I struct{ N int }; s := []" + K + "{a, a, a}; ix := I{0}; ix, s[ix.N] = I{2}, v; return show(ix.N, s[0], s[1], s[2]) }"
		}, keyable},
		tmpl{"elem-then-struct-index", func(K, n0, n1 string) string {
			return "func(a, v " + K + ") string { type I struct{ N int }; s := []" + K + "{a, a, a}; ix := I{0}; s[ix.N], ix = v, I{2}; return show(ix.N, s[0], s[1], s[2]) }"
		}, keyable},
		tmpl{"array-index-then-elem", func(K, n0, n1 string) string {
			return "func(a, v " + K + ") string { s := []" + K + "{a, a, a}; ia := [1]int{1}; ia, s[ia[0]] = [1]int{2}, v; return show(ia[0], s[0], s[1], s[2]) }"
		}, keyable},
		tmpl{"ptr-index-then-elem", func(K, n0, n1 string) string {
			return "func(a, v " + K + ") string { s := []" + K + "{a, a, a}; i, j := 0, 2; pi := &i; pi, s[*pi] = &j, v; return show(*pi, s[0], s[1], s[2]) }"
		}, keyable},
		tmpl{"slice-then-elem", func(K, n0, n1 string) string {
			return "func(a, v " + K + ") string { s, t := []" + K + "{a, a}, []" + K + "{a, a, a}; os := s; s, s[1] = t, v; return show(len(s), os[0], os[1], t[0], t[1]) }"
		}, keyable},
		tmpl{"elem-then-slice", func(K, n0, n1 string) string {
			return "func(a, v " + K + ") string { s, t := []" + K + "{a, a}, []" + K + "{a, a, a}; os := s; s[1], s = v, t; return show(len(s), os[0], os[1], t[0], t[1]) }"
		}, keyable},
		tmpl{"arrayptr-then-elem", func(K, n0, n1 string) string {
			return "func(a, v " + K + ") string { var x, y [2]" + K + "; p := &x; p, p[1] = &y, v; return show(p == &y, x[0], x[1], y[0], y[1]) }"
		}, keyable},
		tmpl{"structval-then-field", func(K, n0, n1 string) string {
			return "func(a, v " + K + ") string { type S struct{ A, B " + K + " }; s := S{a, a}; ps := &s; s, ps.B = S{v, v}, a; return show(s.A, s.B) }"
		}, keyable},
		tmpl{"iface-map-then-elem", func(K, n0, n1 string) string {
			return "func(a, v " + K + ") string { var k interface{} = a; m := map[interface{}]" + K + "{}; k, m[k] = [1]" + K + "{v}, v; _, ok := m[interface{}(a)]; return show(len(m), ok, m[interface{}(a)], k == interface{}([1]" + K + "{v})) }"
		}, keyable},
	)
	for _, t := range tm {
		for _, kn := range t.ks {
			var k *Kind
			for _, kk := range kinds {
				if kk.Name == kn {
					k = kk
				}
			}
			n0, n1 := neighbours(k)
			f := &Fn{Mode: "F", Op: "multi", K: k, KV: k, Place: t.name, Rhs: "V", Params: []*Kind{k, k}}
			f.Src = t.src(k.Name, n0, n1)
			f.Rows = g.rows2(k, k, "multi", f.Key(-1), g.nrows(5, 20))
			g.add(f)
		}
	}
	// top-level multi-assignment on globals (T mode)
	for _, kn := range all {
		var k *Kind
		for _, kk := range kinds {
			if kk.Name == kn {
				k = kk
			}
		}
		K := k.Name
		for i, st := range []string{
			"g0_" + K + ", g1_" + K + " = g1_" + K + ", g0_" + K,
			"x0_" + K + ", g1_" + K + " = g1_" + K + ", x0_" + K,
			"g0_" + K + ", x0_" + K + ", g1_" + K + " = x0_" + K + ", g1_" + K + ", g0_" + K,
			"_, g0_" + K + " = g0_" + K + ", g1_" + K,
			"_, _ = g0_" + K + ", g1_" + K,
		} {
			set := "g0_" + K + " = a; g1_" + K + " = v; x0_" + K + " = a; "
			res := "g0_" + K + ", g1_" + K + ", x0_" + K
			f := &Fn{Mode: "T", Op: "multi", K: k, KV: k, Place: fmt.Sprintf("toplevel-%d", i), Rhs: "V", Params: []*Kind{k, k}}
			f.TSet = "func(a, v " + K + ") string { " + set + "return \"\" }"
			f.TStmt = st
			f.TGet = "func() string { return show(" + res + ") }"
			f.Src = "func(a, v " + K + ") string { " + set + st + "; return show(" + res + ") }"
			f.Rows = g.rows2(k, k, "multi", f.Key(-1), g.nrows(4, 12))
			g.add(f)
		}
	}
}

// ---------------------------------------------------------------- random statement sequences
// A sequence program owns, for one integer kind K and one float kind: locals x, y (K), captured c (K, modified from a
// closure two levels down), u (other int kind), f (float64), s (string), a slice sl []K, a map m map[string]K,
// a struct st {A, B K}, a pointer p -> x.  Statements are drawn from assignments / compound assignments / inc-dec /
// shifts / swaps over these places; every index / key / pointer / rhs function logs its call.
func (g *Gen) sequences() {
	n := g.nrows(300, 3000)
	if g.a.N > 0 {
		n = 300
	}
	ik := intKinds()
	for i := 0; i < n; i++ {
		r := g.rngFor(fmt.Sprintf("seq%d", i))
		k := ik[r.Intn(len(ik))]
		u := ik[r.Intn(len(ik))]
		K, U := k.Name, u.Name
		var sb strings.Builder
		fmt.Fprintf(&sb, "func(a, v %s) string { var lg string; x, y, c := a, v, a; var u %s = %s(v); f := 1.5; s := \"s\"; ", K, U, U)
		fmt.Fprintf(&sb, "sl := []%s{a, v, 3}; m := map[string]%s{\"k\": a}; var st struct{ A, B %s }; st.A = v; p := &x; ", K, K, K)
		fmt.Fprintf(&sb, "ix := func(n int) int { lg += \"i\"; return n }; kf := func(z string) string { lg += \"k\"; return z }; pf := func() *%s { lg += \"p\"; return p }; gv := func(z %s) %s { lg += \"g\"; return z }; ", K, K, K)
		fmt.Fprintf(&sb, "g0_%s = v; x0_%s = a; _ = ix; _ = kf; _ = pf; _ = gv; ", K, K)
		places := []string{"x", "y", "c", "sl[ix(0)]", "sl[ix(2)]", "sl[1]", `m[kf("k")]`, `m[kf("n")]`, `m["k"]`, "st.A", "st.B", "*p", "*pf()", "g0_" + K, "x0_" + K}
		reads := []string{"x", "y", "c", "sl[1]", `m["k"]`, "st.A", "a", "v", "gv(3)", "gv(v)", "g0_" + K, "x0_" + K, "7", "1"}
		ops := []string{"+", "-", "*", "&", "|", "^", "&^"}
		ns := 4 + r.Intn(7)
		for j := 0; j < ns; j++ {
			pl := places[r.Intn(len(places))]
			rd := reads[r.Intn(len(reads))]
			var st string
			switch r.Intn(12) {
			case 0:
				st = pl + " = " + rd
			case 1, 2, 3:
				st = pl + " " + ops[r.Intn(len(ops))] + "= " + rd
			case 4:
				st = pl + " /= (" + rd + " | 1)"
			case 5:
				st = pl + " %= (" + rd + " | 1)"
			case 6:
				st = pl + []string{"++", "--"}[r.Intn(2)]
			case 7:
				st = pl + " " + []string{"<<", ">>"}[r.Intn(2)] + "= " + []string{"u & 7", "1", "uint8(v) & 15", fmt.Sprint(r.Intn(k.Bits + 2))}[r.Intn(4)]
			case 8:
				pl2 := places[r.Intn(len(places))]
				st = pl + ", " + pl2 + " = " + pl2 + ", " + pl
				if strings.Contains(pl, "(") || strings.Contains(pl2, "(") {
					// a logged function on both sides would be called twice by construction: use plain reads on the right
					st = pl + ", " + pl2 + " = " + rd + ", " + reads[r.Intn(7)]
				}
			case 9:
				st = "func() { var d " + K + " = 1; func() { c " + ops[r.Intn(len(ops))] + "= d + " + reads[r.Intn(8)] + " }() }()"
			case 10:
				st = "u " + ops[r.Intn(len(ops))] + "= " + U + "(" + reads[r.Intn(8)] + ")"
			case 11:
				st = []string{"f += float64(" + rd + ")", "f *= 0.5", "s += \"" + fmt.Sprint(j) + "\"", "f -= 0.25", "s = s + s"}[r.Intn(5)]
			}
			sb.WriteString(st + "; ")
		}
		sb.WriteString(`return show(x, y, c, u, f, s, sl[0], sl[1], sl[2], m["k"], m["n"], len(m), st.A, st.B, g0_` + K + `, x0_` + K + `, lg) }`)
		f := &Fn{Mode: "F", Op: "seq", K: k, KV: k, Place: fmt.Sprintf("seq%d", i), Rhs: "V", Params: []*Kind{k, k}}
		f.Src = sb.String()
		if seqPlaceXorShift.MatchString(f.Src) {
			f.seqClass = "finding:place-xor-shift-dispatch"
		}
		f.Rows = g.rows2(k, k, "seq", f.Key(-1), g.nrows(4, 8))
		g.add(f)
	}
}

// a sequence statement  <non-variable place> ^= | <<= | >>=  (class finding:place-xor-shift-dispatch)
var seqPlaceXorShift = regexp.MustCompile(`(sl\[[^;]*\]|m\[[^;]*\]|st\.[AB]|\*p|\*pf\(\)) (\^=|<<=|>>=) `)

func sortedKeys(m map[string]int) []string {
	var ks []string
	for k := range m {
		ks = append(ks, k)
	}
	sort.Strings(ks)
	return ks
}

var _ = vh.CoqZ

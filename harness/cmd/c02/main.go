// c02: differential harness "assignments and compound assignments on every kind of place behave as in Go".
//
// Every test program is ONE function literal `func(a K[, v KV]) string` that puts its operand a into a place of a
// given shape, executes the statement(s) under test and returns show(<all values of interest>, <call log>):
//
//	statement  x = e | x op= e (op in + - * / % & | ^ &^) | x <<= n, x >>= n (count of every integer kind, counts around
//	           the width) | x++ | x-- ; e = the parameter v, a logged call g(), or a constant (generic and the special
//	           ones 0, 1, -1, +-2^k, min, max that gomacro short-cuts)
//	kind       the 17 basic kinds (valid Go combinations only)
//	place      local | cap1..cap4 (captured 1..4 function levels up) | blk2 | glob0..4 (interpreter global used from
//	           nesting depth 0..4; depth 0 = statement at the top level) | boxed0..4 (global beyond IntBindMax =
//	           reflect.Value slot) | ptr ptrf (pointer, pointer returned by a logged function) | arr arrf slice slicef
//	           (index by constant / logged function) | map mapf mapmiss mapintf mff | field pfield fieldf nest | blank
//	           (the place before, the place itself and the place after it are returned: no neighbour may change)
//	multi      a, b = b, a and friends (locals, captured, globals, slice / map elements, fields, pointers, blanks,
//	           multi-valued calls, the examples of the Go specification), also at top level
//	seq        random sequences of 4..10 such statements over a fixed set of places, every index / key / pointer /
//	           operand function logging its call
//
// The function literal is compiled ONCE by the real interpreter (fast.Interp.Eval -> Interface(); top-level programs:
// Interp.Compile + RunExpr) and called on boundary and PRNG operand tuples; the SAME text is compiled by `go build`
// into a batched oracle program (<out>/oracle, go.mod `go 1.18`) and called on the same tuples.  The returned strings
// (canonical values + call log) must be equal; run-time panics are compared by class.  Programs rejected by go/types
// must be rejected by gomacro.  No model is consulted.  Integer cases on variable places are also written as Coq
// terms (cases_NNN.v) and evaluated by the Coq specification and the regenerated table rows.
package main

import (
	_ "embed"
	"encoding/json"
	"fmt"
	"go/ast"
	"go/parser"
	"go/token"
	"go/types"
	"io"
	"os"
	"os/exec"
	"path/filepath"
	"reflect"
	"sort"
	"strconv"
	"strings"
	"time"

	"github.com/cosmos72/gomacro/fast"
	"verifh/vh"
)

//go:embed canon.go
var canonSrc string

const showSrc = `
func show(xs ...interface{}) string {
	s := ""
	for i, x := range xs {
		if i > 0 {
			s += " "
		}
		s += canonValue(x)
	}
	return s
}
`

func show(xs ...interface{}) string {
	s := ""
	for i, x := range xs {
		if i > 0 {
			s += " "
		}
		s += canonValue(x)
	}
	return s
}

func globalDecls() string {
	var sb strings.Builder
	for _, k := range kinds {
		fmt.Fprintf(&sb, "var g0_%s, g1_%s, g2_%s, x0_%s, x1_%s, x2_%s, pv_%s %s\n", k.Name, k.Name, k.Name, k.Name, k.Name, k.Name, k.Name, k.Name)
	}
	return sb.String()
}

// typecheck marks the programs that go/types rejects (expected outcome: compile_error)
func (g *Gen) typecheck() error {
	var sb strings.Builder
	sb.WriteString("package p\nfunc show(xs ...interface{}) string { return \"\" }\n")
	sb.WriteString(globalDecls())
	first := strings.Count(sb.String(), "\n") + 1
	for _, f := range g.fns {
		fmt.Fprintf(&sb, "var _ = %s\n", f.Src)
	}
	fset := token.NewFileSet()
	file, err := parser.ParseFile(fset, "c02.go", sb.String(), 0)
	if err != nil {
		return fmt.Errorf("generated programs do not parse: %v", err)
	}
	conf := types.Config{GoVersion: "go1.18", Error: func(err error) {
		te, ok := err.(types.Error)
		if !ok || te.Soft {
			return
		}
		line := te.Fset.Position(te.Pos).Line
		if i := line - first; i >= 0 && i < len(g.fns) {
			if !g.fns[i].ExpectCE {
				g.fns[i].ExpectCE, g.fns[i].CEMsg = true, te.Msg
			}
		} else {
			fmt.Fprintln(os.Stderr, "c02: unexpected go/types error outside the program table:", err)
		}
	}}
	conf.Check("p", fset, []*ast.File{file}, nil)
	return nil
}

// ---------------------------------------------------------------- compiled-Go oracle
const oracleRuntime = `
type E1[A any] struct {
	id int
	s  []A
	f  func(A) string
}
type P2[A, B any] struct {
	a A
	b B
}
type E2[A, B any] struct {
	id int
	s  []P2[A, B]
	f  func(A, B) string
}

var out = bufio.NewWriterSize(os.Stdout, 1<<20)

func call1[A any](f func(A) string, a A) (s string) {
	defer func() {
		if p := recover(); p != nil {
			s = classifyPanic(p)
		}
	}()
	return "v:" + f(a)
}
func call2[A, B any](f func(A, B) string, a A, b B) (s string) {
	defer func() {
		if p := recover(); p != nil {
			s = classifyPanic(p)
		}
	}()
	return "v:" + f(a, b)
}
func run1[A any](t []E1[A]) {
	for _, e := range t {
		for j, a := range e.s {
			fmt.Fprintf(out, "%d %d %s\n", e.id, j, call1(e.f, a))
		}
	}
}
func run2[A, B any](t []E2[A, B]) {
	for _, e := range t {
		for j, p := range e.s {
			fmt.Fprintf(out, "%d %d %s\n", e.id, j, call2(e.f, p.a, p.b))
		}
	}
}
`

// oracleFnsPerProgram: the oracle is split into several `package main` programs (<dir>/pNN) of at most about this many
// function literals: one package of 50 000 literals (thorough tier) keeps a single, mostly single-threaded `compile`
// process busy for more than 45 minutes and 6 GB, whereas `go build ./...` compiles the programs in parallel.
const oracleFnsPerProgram = 2500

func (g *Gen) writeOracle(dir string) error {
	if err := os.RemoveAll(dir); err != nil {
		return err
	}
	if err := os.MkdirAll(filepath.Join(dir, "bin"), 0o755); err != nil {
		return err
	}
	if err := os.WriteFile(filepath.Join(dir, "go.mod"), []byte("module c02oracle\n\ngo 1.18\n"), 0o644); err != nil {
		return err
	}
	// a part = at most 700 rows of one table (a table = the programs with the same parameter types)
	type part struct {
		name, typ, run string
		rows           []string
		sets           []string
	}
	type table struct {
		name, typ, run string
		rows, sets     []string
	}
	tabs := map[string]*table{}
	var order []string
	for _, f := range g.fns {
		if f.ExpectCE {
			continue
		}
		var names []string
		for _, p := range f.Params {
			names = append(names, p.Name)
		}
		key := strings.Join(names, "_")
		t := tabs[key]
		if t == nil {
			t = &table{name: "t_" + key, run: fmt.Sprintf("run%d", len(f.Params)), typ: fmt.Sprintf("E%d[%s]", len(f.Params), strings.Join(names, ", "))}
			tabs[key] = t
			order = append(order, key)
		}
		t.rows = append(t.rows, fmt.Sprintf("\t{%d, s%d, %s},\n", f.ID, f.ID, f.Src))
		var set strings.Builder
		if len(f.Params) == 1 {
			fmt.Fprintf(&set, "var s%d = []%s{", f.ID, f.Params[0].Name)
			for i, r := range f.Rows {
				if i > 0 {
					set.WriteString(", ")
				}
				set.WriteString(r[0].DataLit())
			}
			set.WriteString("}\n")
		} else {
			fmt.Fprintf(&set, "var s%d = []P2[%s, %s]{", f.ID, f.Params[0].Name, f.Params[1].Name)
			for i, r := range f.Rows {
				if i > 0 {
					set.WriteString(", ")
				}
				set.WriteString("{" + r[0].DataLit() + ", " + r[1].DataLit() + "}")
			}
			set.WriteString("}\n")
		}
		t.sets = append(t.sets, set.String())
	}
	var parts []*part
	for _, key := range order {
		t := tabs[key]
		for i, n := 0, 0; i < len(t.rows); i, n = i+700, n+1 {
			j := i + 700
			if j > len(t.rows) {
				j = len(t.rows)
			}
			parts = append(parts, &part{name: fmt.Sprintf("%s_p%d", t.name, n), typ: t.typ, run: t.run, rows: t.rows[i:j], sets: t.sets[i:j]})
		}
	}
	// distribute the parts over the programs
	nprog := 0
	writeProgram := func(ps []*part) error {
		pdir := filepath.Join(dir, fmt.Sprintf("p%02d", nprog))
		nprog++
		if err := os.MkdirAll(pdir, 0o755); err != nil {
			return err
		}
		files := map[string]string{"canon.go": canonSrc}
		var sets, sb strings.Builder
		sets.WriteString("package main\n\nimport \"math\"\n\nvar _ = math.Pi\n\n")
		sb.WriteString("package main\n\nimport (\n\t\"bufio\"\n\t\"fmt\"\n\t\"os\"\n)\n")
		sb.WriteString(oracleRuntime)
		sb.WriteString(showSrc)
		sb.WriteString("\n" + globalDecls())
		sb.WriteString("\nfunc main() {\n")
		for _, p := range ps {
			fmt.Fprintf(&sb, "\t%s(%s)\n", p.run, p.name)
			for _, st := range p.sets {
				sets.WriteString(st)
			}
		}
		sb.WriteString("\tout.Flush()\n}\n")
		files["main.go"] = sb.String()
		files["sets.go"] = sets.String()
		for i, p := range ps {
			var fb strings.Builder
			fmt.Fprintf(&fb, "package main\n\nvar %s = []%s{\n", p.name, p.typ)
			for _, r := range p.rows {
				fb.WriteString(r)
			}
			fb.WriteString("}\n")
			files[fmt.Sprintf("fns_%03d.go", i)] = fb.String()
		}
		for name, content := range files {
			if err := os.WriteFile(filepath.Join(pdir, name), []byte(content), 0o644); err != nil {
				return err
			}
		}
		return nil
	}
	var cur []*part
	n := 0
	for _, p := range parts {
		if n > 0 && n+len(p.rows) > oracleFnsPerProgram {
			if err := writeProgram(cur); err != nil {
				return err
			}
			cur, n = nil, 0
		}
		cur = append(cur, p)
		n += len(p.rows)
	}
	if len(cur) > 0 {
		if err := writeProgram(cur); err != nil {
			return err
		}
	}
	return nil
}

type oracleResult struct {
	lines        map[[2]int]string
	buildS, runS float64
	err          error
	stderr       string
}

func goEnv() []string {
	return append(os.Environ(), "GOFLAGS=-mod=mod", "GOPROXY=off", "GOSUMDB=off", "GOTOOLCHAIN=local")
}

func runOracle(dir string) *oracleResult {
	res := &oracleResult{lines: map[[2]int]string{}}
	t0 := time.Now()
	// all programs <dir>/pNN of the module in one go build: the packages are compiled in parallel
	cmd := exec.Command("go", "build", "-o", filepath.Join(dir, "bin")+string(filepath.Separator), "./...")
	cmd.Dir, cmd.Env = dir, goEnv()
	if o, err := cmd.CombinedOutput(); err != nil {
		res.err, res.stderr = fmt.Errorf("go build of the oracle programs failed: %v", err), string(o)
		return res
	}
	res.buildS = time.Since(t0).Seconds()
	t0 = time.Now()
	progs, _ := filepath.Glob(filepath.Join(dir, "p[0-9]*"))
	sort.Strings(progs)
	if len(progs) == 0 {
		res.err = fmt.Errorf("no oracle program was written")
		return res
	}
	var o []byte
	for _, p := range progs {
		run := exec.Command(filepath.Join(dir, "bin", filepath.Base(p)))
		run.Dir = dir
		var eb strings.Builder
		run.Stderr = &eb
		po, err := run.Output()
		if err != nil {
			res.err, res.stderr = fmt.Errorf("the oracle program %s failed: %v", filepath.Base(p), err), eb.String()
			return res
		}
		o = append(o, po...)
	}
	res.runS = time.Since(t0).Seconds()
	os.WriteFile(filepath.Join(dir, "output.txt"), o, 0o644)
	for _, ln := range strings.Split(string(o), "\n") {
		if ln == "" {
			continue
		}
		parts := strings.SplitN(ln, " ", 3)
		if len(parts) != 3 {
			res.err = fmt.Errorf("malformed oracle line %q", ln)
			return res
		}
		id, e1 := strconv.Atoi(parts[0])
		row, e2 := strconv.Atoi(parts[1])
		if e1 != nil || e2 != nil {
			res.err = fmt.Errorf("malformed oracle line %q", ln)
			return res
		}
		res.lines[[2]int{id, row}] = parts[2]
	}
	return res
}

// ---------------------------------------------------------------- the gomacro side
type H struct {
	ir  *fast.Interp
	rep *vh.Report
	wd  *vh.Watchdog
}

func (h *H) eval(src string) (v interface{}, errs string) {
	p := vh.Catch(func() {
		vals, _ := h.ir.Eval(src)
		if len(vals) > 0 {
			v = vals[0].Interface()
		}
	})
	if p != nil {
		return nil, fmt.Sprint(p)
	}
	return v, ""
}

func (h *H) bindClass(name string) (fast.BindClass, bool) {
	b := h.ir.Comp.Binds[name]
	if b == nil {
		return 0, false
	}
	return b.Desc.Class(), true
}

// setupGlobals: g0_K g1_K g2_K pv_K (class IntBind except string), then filler globals until Env.Ints is exhausted
// (its address was taken, so it cannot grow: Comp.NewBind falls back to class VarBind), then x0_K x1_K x2_K (VarBind).
func (h *H) setupGlobals() error {
	h.ir.DeclFunc("show", show)
	for _, k := range kinds {
		for _, n := range []string{"g0_", "g1_", "g2_", "pv_"} {
			if _, err := h.eval("var " + n + k.Name + " " + k.Name); err != "" {
				return fmt.Errorf("declaring %s%s: %s", n, k.Name, err)
			}
			cl, ok := h.bindClass(n + k.Name)
			want := fast.IntBind
			if k.Cat == cString {
				want = fast.VarBind
			}
			if !ok || cl != want {
				return fmt.Errorf("global %s%s has bind class %v, expected %v", n, k.Name, cl, want)
			}
		}
	}
	if _, err := h.eval("var b0 int; pb0 := &b0"); err != "" {
		return fmt.Errorf("taking the address of a global: %s", err)
	}
	n := 0
	for ; ; n++ {
		if n > 5000 {
			return fmt.Errorf("no VarBind class after %d filler globals (IntBindMax=%d IntBindNum=%d)", n, h.ir.Comp.IntBindMax, h.ir.Comp.IntBindNum)
		}
		name := fmt.Sprintf("bx%d", n)
		filler := "complex128"
		if c := h.ir.Comp; c.IntBindMax != 0 && c.IntBindMax-c.IntBindNum < 2 {
			filler = "int"
		}
		if _, err := h.eval("var " + name + " " + filler); err != "" {
			return fmt.Errorf("declaring %s: %s", name, err)
		}
		if cl, _ := h.bindClass(name); cl == fast.VarBind {
			break
		}
	}
	h.rep.Extra["boxed_after_filler_globals"] = n
	h.rep.Extra["IntBindMax"] = h.ir.Comp.IntBindMax
	for _, k := range kinds {
		for _, nm := range []string{"x0_", "x1_", "x2_"} {
			if _, err := h.eval("var " + nm + k.Name + " " + k.Name); err != "" {
				return fmt.Errorf("declaring %s%s: %s", nm, k.Name, err)
			}
			if cl, ok := h.bindClass(nm + k.Name); !ok || cl != fast.VarBind {
				return fmt.Errorf("global %s%s has bind class %v, expected VarBind", nm, k.Name, cl)
			}
		}
	}
	return nil
}

func callS(fn reflect.Value, args []reflect.Value) (out string) {
	defer func() {
		if p := recover(); p != nil {
			out = classifyPanic(p)
		}
	}()
	r := fn.Call(args)
	if len(r) == 0 {
		return "v:"
	}
	return "v:" + r[0].String()
}

func (h *H) funcOf(src string, want string) (reflect.Value, string) {
	v, err := h.eval("(" + src + ")")
	if err != "" {
		return reflect.Value{}, err
	}
	fn := reflect.ValueOf(v)
	if !fn.IsValid() || fn.Kind() != reflect.Func {
		return reflect.Value{}, fmt.Sprintf("Eval returned %T, not a func", v)
	}
	if got := fn.Type().String(); got != want {
		return reflect.Value{}, "type of the interpreted function is " + got + ", expected " + want
	}
	return fn, ""
}

func (f *Fn) sigText(ret string) string {
	var ps []string
	for _, p := range f.Params {
		ps = append(ps, p.Name)
	}
	s := "func(" + strings.Join(ps, ", ") + ")"
	if ret != "" {
		s += " " + ret
	}
	return s
}

func (h *H) runFn(f *Fn) {
	h.wd.Beat(f.Key(-1) + " :: " + f.Src)
	args := make([]reflect.Value, len(f.Params))
	if f.Mode == "F" {
		fn, err := h.funcOf(f.Src, f.sigText("string"))
		if err != "" {
			f.gmErr = err
			return
		}
		f.gm = make([]string, len(f.Rows))
		for i, row := range f.Rows {
			for j := range row {
				args[j] = row[j].Reflect()
			}
			f.gm[i] = callS(fn, args)
		}
		return
	}
	set, err := h.funcOf(f.TSet, f.sigText("string")) // (a result-less func(complex128) hits an unrelated gomacro defect)
	if err != "" {
		f.gmErr = "setter: " + err
		return
	}
	get, err := h.funcOf(f.TGet, "func() string")
	if err != "" {
		f.gmErr = "getter: " + err
		return
	}
	var e *fast.Expr
	if p := vh.Catch(func() { e = h.ir.Compile(f.TStmt) }); p != nil {
		f.gmErr = fmt.Sprint(p)
		return
	}
	f.gm = make([]string, len(f.Rows))
	for i, row := range f.Rows {
		for j := range row {
			args[j] = row[j].Reflect()
		}
		if s := callS(set, args); s != "v:" {
			f.gm[i] = "setter " + s
			continue
		}
		if p := vh.Catch(func() {
			if e != nil {
				h.ir.RunExpr(e)
			}
		}); p != nil {
			f.gm[i] = classifyPanic(p)
			continue
		}
		f.gm[i] = callS(get, nil)
	}
}

func outcomeClass(s string) string {
	switch {
	case strings.HasPrefix(s, "v:"):
		return "value"
	case strings.HasPrefix(s, "panic:other"):
		return "panic:other"
	}
	return s
}

func main() {
	a := vh.ParseArgs()
	if strconv.IntSize != 64 {
		fmt.Fprintln(os.Stderr, "c02: the harness assumes 64-bit int/uint/uintptr")
		os.Exit(2)
	}
	rule := "one function literal per (statement x = e | x op= e | x <<= n | x >>= n | x++ | x--, kind of the 17 basic kinds, place local|cap1..4|blk2|glob0..4|boxed0..4|ptr|ptrf|arr|arrf|slice|slicef|map|mapf|mapmiss|mapintf|mff|field|pfield|fieldf|nest|blank, " +
		"right operand = variable | logged call | constant (generic and 0, 1, -1, +-2^k, min, max)), valid Go combinations only, every (operator, kind, variable place, const/expr) combination at least once and the other place shapes rotating in the quick tier; " +
		"plus multi-assignment programs (swaps / rotations over locals, captured variables, globals, slice and map elements, fields, pointers, blanks, multi-valued calls, the Go specification examples, also at top level; map elements keyed by struct / array / pointer / interface / nested-struct variables, index holders (struct field, array element, pointer) and containers (map, slice, array pointer, struct) that the same statement assigns before or after the element, directly, through a closure or from a multi-valued call) and random sequences of 4-10 statements; " +
		"each compiled ONCE in the real interpreter (top-level programs: Interp.Compile + RunExpr per tuple) and called on boundary (min, max, 0, +-1, min/-1, x/0, shift counts 0,1,w-1,w,w+1,63,64,65,255,-1,min; floats +-0, NaN, +-Inf ...) and PRNG operand tuples; " +
		"oracle = the same function literal compiled by go build (go 1.18 module) on the same tuples: the returned canonical string (place before, place, place after, call log; sequences: all variables) and the panic class must be equal; programs rejected by go/types must be rejected; " +
		"non-trivial = not all operands zero/false/empty; distinct by SHA-256 of (program key, operands)"
	rep := vh.NewReport(a, rule)
	wd := vh.NewWatchdog(rep, 10*time.Minute) // generous: under heavy machine load a single compile + call batch can take minutes
	tStart := time.Now()

	g := &Gen{a: a, thorough: a.Thorough(), pools: map[string][]Val{}}
	g.corpus()
	g.enumerate()
	if err := g.typecheck(); err != nil {
		fmt.Fprintln(os.Stderr, "c02:", err)
		os.Exit(2)
	}
	odir := a.Path("oracle")
	if err := g.writeOracle(odir); err != nil {
		fmt.Fprintln(os.Stderr, "c02: writing the oracle program:", err)
		os.Exit(2)
	}
	rep.Extra["generate_seconds"] = time.Since(tStart).Seconds()
	orc := make(chan *oracleResult, 1)
	go func() { orc <- runOracle(odir) }()

	ir := fast.New()
	ir.Comp.Globals.Stderr, ir.Comp.Globals.Stdout = io.Discard, io.Discard
	h := &H{ir: ir, rep: rep, wd: wd}
	wd.Beat("setup globals")
	if err := h.setupGlobals(); err != nil {
		fmt.Fprintln(os.Stderr, "c02: cannot set up the interpreter globals:", err)
		os.Exit(2)
	}
	tG := time.Now()
	for _, f := range g.fns {
		h.runFn(f)
	}
	rep.Extra["gomacro_seconds"] = time.Since(tG).Seconds()
	var res *oracleResult
	for waited := 0; res == nil; waited += 10 {
		wd.Beat("waiting for the oracle build")
		select {
		case res = <-orc:
		case <-time.After(10 * time.Second):
			if waited > 2400 {
				fmt.Fprintln(os.Stderr, "c02: HARNESS DEFECT: the oracle build/run did not finish within 40 minutes")
				os.Exit(2)
			}
		}
	}
	if res.err != nil {
		fmt.Fprintln(os.Stderr, "c02: HARNESS DEFECT:", res.err)
		fmt.Fprintln(os.Stderr, res.stderr)
		os.Exit(2)
	}
	rep.Extra["oracle_build_seconds"] = res.buildS
	rep.Extra["oracle_run_seconds"] = res.runS
	wd.Beat("compare")

	nfail := 0
	var allf *os.File
	classFail := map[string]int{}
	os.Remove(a.Path("failures_all.jsonl"))
	fail := func(f *Fn, row int, what string, got, want string) {
		nfail++
		in := map[string]interface{}{"func": f.Src, "operands": f.rowText(row), "op": f.Op, "kind": kname(f.K), "place": f.Place, "mode": f.Mode}
		if f.Mode == "T" {
			in["toplevel_statement"] = f.TStmt
		}
		fl := vh.Failure{Key: f.Key(row), What: what, Input: in, Got: got, Want: want}
		if f.Class != "" {
			classFail[f.Class]++
			fl.Key = f.Class
			fl.What += " [class " + f.Class + ": first failing case, see extra.class_failures and failures_all.jsonl]"
		}
		if f.Class == "" || classFail[f.Class] == 1 {
			rep.Fail(fl)
		}
		if nfail <= 20000 {
			if allf == nil {
				allf, _ = os.Create(a.Path("failures_all.jsonl"))
			}
			if allf != nil {
				b, _ := json.Marshal(fl)
				allf.Write(append(b, '\n'))
			}
		}
	}
	record := func(f *Fn, row int, outcome string) {
		nontrivial := false
		if row >= 0 {
			for _, v := range f.Rows[row] {
				if !v.IsZero() {
					nontrivial = true
				}
			}
		}
		rep.Count(f.Key(row), nontrivial)
		rep.Dist("op:" + f.Op)
		rep.Dist("kind:" + kname(f.K))
		pl := f.Place
		if f.Op == "seq" {
			pl = "seq"
		} else if f.Op == "multi" {
			pl = "multi"
		}
		rep.Dist("place:" + pl)
		rep.Dist("rhs:" + f.Rhs)
		rep.Dist("outcome:" + outcomeClass(outcome))
	}
	ncompiled, nce := 0, 0
	for _, f := range g.fns {
		if f.ExpectCE {
			nce++
			if f.gmErr == "" {
				fail(f, -1, "compiled Go (go/types) rejects the program ("+f.CEMsg+") but gomacro compiles it", "compiles", "compile_error")
			}
			record(f, -1, "compile_error")
			continue
		}
		ncompiled++
		if f.gmErr != "" {
			fail(f, -1, "gomacro rejects a program that compiled Go accepts", "compile_error: "+f.gmErr, "compiles")
			record(f, -1, "compile_error")
			continue
		}
		for i := range f.Rows {
			want, ok := res.lines[[2]int{f.ID, i}]
			if !ok {
				fmt.Fprintf(os.Stderr, "c02: HARNESS DEFECT: the oracle printed no line for program %d row %d (%s)\n", f.ID, i, f.Src)
				os.Exit(2)
			}
			if f.gm[i] != want {
				fail(f, i, "final values / call log differ from compiled Go", f.gm[i], want)
			}
			record(f, i, f.gm[i])
		}
	}
	ncases := g.writeCases(a, rep)
	if allf != nil {
		allf.Close()
	}
	rep.Extra["coq_cases"] = ncases
	rep.Extra["programs"] = len(g.fns)
	rep.Extra["programs_compiled_go"] = ncompiled
	rep.Extra["programs_expected_compile_error"] = nce
	rep.Extra["failures_total"] = nfail
	rep.Extra["class_failures"] = classFail
	rep.Extra["total_seconds"] = time.Since(tStart).Seconds()
	for _, f := range g.fns {
		if len(rep.Samples) >= 5 {
			break
		}
		if f.ID%1499 == 7 && f.gm != nil {
			rep.Sample(map[string]string{"func": f.Src, "operands": f.rowText(0), "gomacro": f.gm[0]})
		}
	}
	rep.Write()
}

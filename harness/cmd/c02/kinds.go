// kinds.go: the 17 basic kinds, operand values and value pools (same conventions as harness/cmd/c01).
package main

import (
	"fmt"
	"hash/fnv"
	"math"
	"reflect"
	"sort"
	"strconv"
	"strings"

	"verifh/vh"
)

var _ = strings.ToUpper

const (
	cBool = iota
	cInt
	cUint
	cFloat
	cComplex
	cString
)

type Kind struct {
	Name string
	Cat  int
	Bits int // integers: width (int, uint, uintptr = 64); float 32/64; complex 64/128
	RT   reflect.Type
}

var kinds = []*Kind{
	{"bool", cBool, 1, reflect.TypeOf(false)},
	{"int", cInt, 64, reflect.TypeOf(int(0))},
	{"int8", cInt, 8, reflect.TypeOf(int8(0))},
	{"int16", cInt, 16, reflect.TypeOf(int16(0))},
	{"int32", cInt, 32, reflect.TypeOf(int32(0))},
	{"int64", cInt, 64, reflect.TypeOf(int64(0))},
	{"uint", cUint, 64, reflect.TypeOf(uint(0))},
	{"uint8", cUint, 8, reflect.TypeOf(uint8(0))},
	{"uint16", cUint, 16, reflect.TypeOf(uint16(0))},
	{"uint32", cUint, 32, reflect.TypeOf(uint32(0))},
	{"uint64", cUint, 64, reflect.TypeOf(uint64(0))},
	{"uintptr", cUint, 64, reflect.TypeOf(uintptr(0))},
	{"float32", cFloat, 32, reflect.TypeOf(float32(0))},
	{"float64", cFloat, 64, reflect.TypeOf(float64(0))},
	{"complex64", cComplex, 64, reflect.TypeOf(complex64(0))},
	{"complex128", cComplex, 128, reflect.TypeOf(complex128(0))},
	{"string", cString, 0, reflect.TypeOf("")},
}

var kBool = kinds[0]

func (k *Kind) IsInt() bool  { return k.Cat == cInt || k.Cat == cUint }
func (k *Kind) Signed() bool { return k.Cat == cInt }

func intKinds() []*Kind {
	var out []*Kind
	for _, k := range kinds {
		if k.IsInt() {
			out = append(out, k)
		}
	}
	return out
}

// norm: canonical 64-bit representation of an integer of kind k (sign- or zero-extended)
func (k *Kind) norm(u uint64) uint64 {
	if k.Bits >= 64 {
		return u
	}
	m := uint64(1)<<uint(k.Bits) - 1
	u &= m
	if k.Cat == cInt && u>>uint(k.Bits-1) != 0 {
		u |= ^m
	}
	return u
}
func (k *Kind) minU() uint64 {
	if k.Cat == cInt {
		return k.norm(uint64(1) << uint(k.Bits-1))
	}
	return 0
}
func (k *Kind) maxU() uint64 {
	if k.Cat == cInt {
		return uint64(1)<<uint(k.Bits-1) - 1
	}
	return k.norm(^uint64(0))
}

// fits: the small constant i is representable in the integer kind k
func (k *Kind) fits(i int64) bool {
	if k.Cat == cInt {
		return k.Bits >= 64 || (i >= -(int64(1)<<uint(k.Bits-1)) && i <= int64(1)<<uint(k.Bits-1)-1)
	}
	return i >= 0 && (k.Bits >= 64 || uint64(i) <= k.maxU())
}

// Val: one operand or result value.  bool: U=0/1; integers: U=norm bits; floats: U=IEEE bits (float32: 32-bit pattern);
// complex: U=real bits, U2=imag bits; string: S.
type Val struct {
	K  *Kind
	U  uint64
	U2 uint64
	S  string
}

func iv(k *Kind, i int64) Val   { return Val{K: k, U: k.norm(uint64(i))} }
func uv(k *Kind, u uint64) Val  { return Val{K: k, U: k.norm(u)} }
func sv(s string) Val           { return Val{K: kinds[16], S: s} }
func bv(b bool) Val             { return Val{K: kBool, U: b2u(b)} }
func fv(k *Kind, f float64) Val { return Val{K: k, U: fbitsOf(k.Bits, f)} }
func b2u(b bool) uint64 {
	if b {
		return 1
	}
	return 0
}
func fbitsOf(bits int, f float64) uint64 {
	if bits == 32 {
		return uint64(math.Float32bits(float32(f)))
	}
	return math.Float64bits(f)
}
func fOf(bits int, u uint64) float64 {
	if bits == 32 {
		return float64(math.Float32frombits(uint32(u)))
	}
	return math.Float64frombits(u)
}

func (v Val) IsZero() bool {
	switch v.K.Cat {
	case cString:
		return v.S == ""
	case cFloat:
		return fOf(v.K.Bits, v.U) == 0
	case cComplex:
		return fOf(v.K.Bits/2, v.U) == 0 && fOf(v.K.Bits/2, v.U2) == 0
	}
	return v.U == 0
}

func (v Val) Reflect() reflect.Value {
	r := reflect.New(v.K.RT).Elem()
	switch v.K.Cat {
	case cBool:
		r.SetBool(v.U != 0)
	case cInt:
		r.SetInt(int64(v.U))
	case cUint:
		r.SetUint(v.U)
	case cFloat:
		r.SetFloat(fOf(v.K.Bits, v.U))
	case cComplex:
		r.SetComplex(complex(fOf(v.K.Bits/2, v.U), fOf(v.K.Bits/2, v.U2)))
	case cString:
		r.SetString(v.S)
	}
	return r
}

func valOf(k *Kind, r reflect.Value) Val {
	v := Val{K: k}
	switch k.Cat {
	case cBool:
		v.U = b2u(r.Bool())
	case cInt:
		v.U = uint64(r.Int())
	case cUint:
		v.U = r.Uint()
	case cFloat:
		v.U = fbitsOf(k.Bits, r.Float())
	case cComplex:
		c := r.Complex()
		v.U, v.U2 = fbitsOf(k.Bits/2, real(c)), fbitsOf(k.Bits/2, imag(c))
	case cString:
		v.S = r.String()
	}
	return v
}

func (v Val) dec() string {
	if v.K.Cat == cInt {
		return strconv.FormatInt(int64(v.U), 10)
	}
	return strconv.FormatUint(v.U, 10)
}

// DataLit: the literal written into the operand tables of the oracle program (element type is known from the table)
func (v Val) DataLit() string {
	fl := func(bits int, u uint64) string {
		if bits == 32 {
			return fmt.Sprintf("math.Float32frombits(%#x)", u)
		}
		return fmt.Sprintf("math.Float64frombits(%#x)", u)
	}
	switch v.K.Cat {
	case cBool:
		return vh.CoqBool(v.U != 0)
	case cInt, cUint:
		return v.dec()
	case cFloat:
		return fl(v.K.Bits, v.U)
	case cComplex:
		return "complex(" + fl(v.K.Bits/2, v.U) + ", " + fl(v.K.Bits/2, v.U2) + ")"
	}
	return strconv.Quote(v.S)
}

// Key: stable readable typed rendering (failure keys, inputs.jsonl); floats as bit patterns
func (v Val) Key() string {
	switch v.K.Cat {
	case cBool:
		return "bool(" + vh.CoqBool(v.U != 0) + ")"
	case cInt, cUint:
		return v.K.Name + "(" + v.dec() + ")"
	case cFloat:
		return fmt.Sprintf("%s(bits %#x)", v.K.Name, v.U)
	case cComplex:
		return fmt.Sprintf("%s(bits %#x,%#x)", v.K.Name, v.U, v.U2)
	}
	return "string(" + strconv.Quote(v.S) + ")"
}

// ---------------------------------------------------------------- Coq rendering (adjust here)

func coqKind(k *Kind) string { return "G" + strings.ToUpper(k.Name[:1]) + k.Name[1:] }

// coqVal: (VInt GInt8 (-5)%Z) | (VInt GUint64 18446744073709551615%Z) | (VBool true) | (VStr [97;98]%N)
func coqVal(v Val) string {
	switch v.K.Cat {
	case cBool:
		return "(VBool " + vh.CoqBool(v.U != 0) + ")"
	case cInt:
		return "(VInt " + coqKind(v.K) + " " + vh.CoqZ(int64(v.U)) + ")"
	case cUint:
		return "(VInt " + coqKind(v.K) + " " + strconv.FormatUint(v.U, 10) + "%Z)"
	case cString:
		return "(VStr " + vh.CoqStr(v.S) + ")"
	}
	panic("coqVal: kind " + v.K.Name + " is never written to Coq")
}

type Gen struct {
	a        *vh.Args
	thorough bool
	fns      []*Fn
	rot      int
	pools    map[string][]Val
}

func (g *Gen) rngFor(key string) *vh.Rng {
	h := fnv.New64a()
	h.Write([]byte(key))
	return vh.NewRng(g.a.Seed ^ h.Sum64())
}

var stringPool = []string{"", "a", "ab", "b", "\x00", "\xff", "héllo", "aa", "abc", "a\x00", "B", "\xf0\x9f\x98\x80"}

func (g *Gen) pool(k *Kind) []Val {
	if p, ok := g.pools[k.Name]; ok {
		return p
	}
	var out []Val
	switch k.Cat {
	case cBool:
		out = []Val{bv(false), bv(true)}
	case cInt, cUint:
		set := map[uint64]bool{}
		add := func(u uint64) { set[k.norm(u)] = true }
		add(0)
		add(1)
		add(^uint64(0))
		add(k.minU())
		add(k.maxU())
		add(k.minU() + 1)
		add(k.maxU() - 1)
		for b := 0; b < k.Bits; b++ {
			p := uint64(1) << uint(b)
			for _, u := range []uint64{p, p - 1, p + 1, -p, -p - 1, -p + 1} {
				add(u)
			}
		}
		var us []uint64
		for u := range set {
			us = append(us, u)
		}
		if k.Cat == cInt {
			sort.Slice(us, func(i, j int) bool { return int64(us[i]) < int64(us[j]) })
		} else {
			sort.Slice(us, func(i, j int) bool { return us[i] < us[j] })
		}
		for _, u := range us {
			out = append(out, Val{K: k, U: u})
		}
	case cFloat:
		out = floatPool(k)
	case cComplex:
		fk := kinds[12]
		if k.Bits == 128 {
			fk = kinds[13]
		}
		parts := floatPool(fk)
		for i := range parts {
			for _, j := range []int{0, 1, 2, 4, 5, 10, (i * 7) % len(parts)} {
				out = append(out, Val{K: k, U: parts[i].U, U2: parts[j].U})
			}
		}
	case cString:
		for _, s := range stringPool {
			out = append(out, sv(s))
		}
	}
	g.pools[k.Name] = out
	return out
}

func floatPool(k *Kind) []Val {
	fs := []float64{0, math.Copysign(0, -1), 1, -1, math.NaN(), math.Inf(1), math.Inf(-1), math.MaxFloat64, -math.MaxFloat64,
		math.SmallestNonzeroFloat64, 0.1, 1.0 / 3, 2, 0.5, 3, 1e-320, 16777217, 9007199254740993, -0.1, 1e30}
	if k.Bits == 32 {
		fs[7], fs[8], fs[9], fs[15] = math.MaxFloat32, -math.MaxFloat32, math.SmallestNonzeroFloat32, 1e-40
	}
	var out []Val
	for _, f := range fs {
		out = append(out, fv(k, f))
	}
	return out
}

func (g *Gen) randVal(k *Kind, r *vh.Rng) Val {
	switch k.Cat {
	case cBool:
		return bv(r.Bool())
	case cInt, cUint:
		return uv(k, r.U64())
	case cFloat:
		if k.Bits == 32 {
			return Val{K: k, U: r.U64() & 0xffffffff}
		}
		return Val{K: k, U: r.U64()}
	case cComplex:
		if k.Bits == 64 {
			return Val{K: k, U: r.U64() & 0xffffffff, U2: r.U64() & 0xffffffff}
		}
		return Val{K: k, U: r.U64(), U2: r.U64()}
	}
	n := r.Intn(9)
	b := make([]byte, n)
	for i := range b {
		b[i] = "ab\x00\xffz"[r.Intn(5)]
	}
	return sv(string(b))
}

func (g *Gen) poolVal(k *Kind, r *vh.Rng) Val {
	p := g.pool(k)
	return p[r.Intn(len(p))]
}

func zeroVal(k *Kind) Val { return Val{K: k} }

func (g *Gen) smallVal(k *Kind, r *vh.Rng) Val {
	if k.IsInt() {
		return iv(k, int64(1+r.Intn(10)))
	}
	return g.poolVal(k, r)
}

// shift counts around the width of the left operand: 0,1,w-1,w,w+1,63,64,65,255 and for signed count kinds -1 and min
func shiftCounts(w int, kb *Kind) []Val {
	var out []Val
	seen := map[uint64]bool{}
	add := func(v Val) {
		if !seen[v.U] {
			seen[v.U] = true
			out = append(out, v)
		}
	}
	for _, c := range []int64{0, 1, int64(w - 1), int64(w), int64(w + 1), 63, 64, 65, 255} {
		if kb.fits(c) {
			add(iv(kb, c))
		}
	}
	if kb.Signed() {
		add(iv(kb, -1))
		add(Val{K: kb, U: kb.minU()})
	}
	return out
}

// c33: goroutine identity and per-goroutine runtime records (fast.IrGlobals.gls, Run.goid, gls.GoID).
//
// Part A  gls.GoID(): constant within a goroutine (across yields, channel operations, sleeps, nested calls),
//         pairwise distinct among simultaneously live goroutines.
// Part B  deterministic schedules dictated through channels: interpreted goroutines (go statements),
//         foreign goroutines (started by compiled code, calling interpreted functions/closures) and the
//         goroutine that owns the interpreter execute call / return / spawn / make-closure / call-closure /
//         exit events in an order chosen by the PRNG; after every event the registry (hook VerifRegistry)
//         is snapshotted.  Direct oracles on the implementation's own output: owner(record used by the new
//         frame) == gls.GoID(); registry[g].owner == g; no record in use by two live goroutines; every
//         slow-path lookup of one goroutine returns the same record; GoID constant / distinct.
//         The histories + snapshots are written as Coq terms (cases_NNN.v) and evaluated by the model.
// Part C  stress: many short goroutines (go statements and foreign goroutines, sort.Slice callbacks)
//         calling interpreted closures with the ownership probe enabled, GOMAXPROCS variation, injected yields.
// Part D  replay of the two recorded observations (stale record seen by a reused identity; Eval from a
//         goroutine other than the creator): reported as failures only when listed in known_findings.json.
// With -race (thorough tier) the process re-executes itself with GORACE=log_path=... and every race report
// becomes a failure.
package main

import (
	"encoding/json"
	"fmt"
	"io"
	"os"
	"os/exec"
	"path/filepath"
	"runtime"
	"runtime/debug"
	"sort"
	"strings"
	"sync"
	"sync/atomic"
	"time"

	"github.com/cosmos72/gomacro/fast"
	"github.com/cosmos72/gomacro/gls"
	xr "github.com/cosmos72/gomacro/xreflect"
	"verifh/vh"
)

func funI2_I(interface{}, interface{}) interface{} { return nil }

const maxThr = 24
const nSlots = 4

type ackMsg struct {
	kind             string // enter fstart fexit
	me               int
	goid, run, owner uintptr
}
type cmd struct{ op, a int }

type tstate struct {
	kind     string // main go foreign
	goid     uintptr
	live     bool
	started  bool
	frames   []int // canonical record per active interpreted frame (innermost last)
	cmd      chan cmd
	slowSeen int // canonical record returned by the slow path in this incarnation (-1: none yet)
	litBase  bool // go func(m int){ node(m) }(c) / go rnode(c): the outermost frame is the literal / rnode
	recov    bool // started by go rnode(c): a panic in its frames is recovered by the goroutine's own function
}

type world struct {
	ir        *fast.Interp
	rep       *vh.Report
	thr       [maxThr]*tstate
	nthr      int
	ack       chan ackMsg
	nodeFn    func(int)
	clos      [nSlots]func(int)
	closRec   [nSlots]int
	recIdx    map[uintptr]int
	recFirst  map[int]int // canonical record -> first goroutine (thread index) seen using it
	recOwner  []uintptr
	idIdx     map[uintptr]int
	hist      []string // human readable history (failure input)
	steps     []string // Coq terms
	failed    bool
	caseIdx   int
	exitPolls int
	noWait    bool
}

var noWaitGlobal bool

// interpreted program: every frame runs the same command loop, reading (op, arg) from the driver.
// op 0 return; 1 call node; 2 go node(arg); 3 slot[arg] = closure made by mk (a frame of this goroutine);
// 4 call slot[arg]; 5 go func(m int){ node(m) }(arg); 6 runtime.Goexit() (the goroutine ends inside its interpreted frames:
// only deferred calls run); 7 panic(arg) (recovered by rnode, the function of the goroutine, when there is one);
// 8 go rnode(arg); anything else: no-op
func loopSrc(v string) string {
	return `for { op, a := next(` + v + `); if op == 0 { return } else if op == 1 { node(` + v + `) } else if op == 2 { go node(a) } else if op == 3 { put(a, mkv(` + v + `)) } else if op == 4 { get(a)(` + v + `) } else if op == 5 { go func(m int) { node(m) }(a) } else if op == 6 { runtime.Goexit() } else if op == 7 { panic(a) } else if op == 8 { go rnode(a) } }`
}

var progSrc = []string{
	`import "runtime"`,
	`var mkv func(int) func(int)`,
	`var nodev func(int)`,
	`func rnode(me int) { defer func() { recover() }(); nodev(me) }`,
	`func node(me int) { enter(me); ` + loopSrc("me") + ` }`,
	`func mk(me int) func(int) { enter(me); return func(m int) { enter(m); ` + loopSrc("m") + ` } }`,
	`mkv = mk`,
	`nodev = node`,
}

func newInterp() *fast.Interp {
	ir := fast.New()
	ir.Comp.Globals.Stderr = io.Discard
	ir.Comp.Globals.Stdout = io.Discard
	return ir
}

func (w *world) fail(what string, got, want interface{}) {
	w.failed = true
	h := append([]string(nil), w.hist...)
	w.rep.Fail(vh.Failure{Key: "sched:" + strings.Join(h, ","), What: what, Input: h, Got: got, Want: want})
}

func (w *world) rec(p uintptr, owner uintptr) int {
	if i, ok := w.recIdx[p]; ok {
		return i
	}
	i := len(w.recOwner)
	w.recIdx[p] = i
	w.recOwner = append(w.recOwner, owner)
	return i
}
func (w *world) id(g uintptr) int {
	if i, ok := w.idIdx[g]; ok {
		return i
	}
	i := len(w.idIdx)
	w.idIdx[g] = i
	return i
}

func (w *world) declare() {
	ir := w.ir
	enter := func(mev xr.Value, interpv xr.Value) xr.Value {
		in := interpv.Interface().(*fast.Interp)
		run, owner := in.VerifRunOf()
		w.ack <- ackMsg{"enter", mev.Interface().(int), gls.GoID(), run, owner}
		return xr.ValueOf(0)
	}
	ir.DeclEnvFunc("enter", fast.Function{Fun: enter, Type: ir.Comp.TypeOf(funI2_I)})
	ir.DeclFunc("next", func(me int) (int, int) {
		c := <-w.thr[me].cmd
		return c.op, c.a
	})
	ir.DeclFunc("put", func(k int, f func(int)) { w.clos[k] = f })
	ir.DeclFunc("get", func(k int) func(int) { return w.clos[k] })
	for _, src := range progSrc {
		ir.Eval(src)
	}
	vals, _ := ir.Eval("node")
	w.nodeFn = vals[0].Interface().(func(int))
}

// snapshot returns the registry as canonical (id, rec) pairs sorted by id, applying the direct oracle key == owner
func (w *world) snapshot() [][2]int {
	var out [][2]int
	for _, e := range w.ir.VerifRegistry() {
		if e.Goid != e.Owner {
			w.fail("registry[g] = r but r.owner != g", fmt.Sprintf("key %#x owner %#x", e.Goid, e.Owner), nil)
		}
		out = append(out, [2]int{w.id(e.Goid), w.rec(e.Run, e.Owner)})
	}
	sort.Slice(out, func(i, j int) bool { return out[i][0] < out[j][0] })
	return out
}

func (w *world) waitAck(kind string, me int) (ackMsg, bool) {
	select {
	case a := <-w.ack:
		if a.kind != kind || a.me != me {
			w.fail("unexpected event from the implementation", fmt.Sprint(a.kind, " ", a.me), fmt.Sprint(kind, " ", me))
			return a, false
		}
		return a, true
	case <-time.After(20 * time.Second):
		w.fail("no progress: goroutine did not reach the next probe", nil, fmt.Sprint(kind, " ", me))
		w.rep.Write()
		os.Exit(0)
	}
	return ackMsg{}, false
}

// onEnter applies the direct oracles to one frame-allocation probe and pushes the frame
func (w *world) onEnter(a ackMsg, viaOwner uintptr) {
	t := w.thr[a.me]
	if !t.started {
		t.started = true
		t.goid = a.goid
		for i := 0; i < w.nthr; i++ {
			if o := w.thr[i]; i != a.me && o.live && o.started && o.goid == a.goid {
				w.fail("two live goroutines observe the same gls.GoID()", fmt.Sprintf("%#x", a.goid), nil)
			}
		}
	} else if t.goid != a.goid {
		w.fail("gls.GoID() changed within one goroutine", fmt.Sprintf("%#x", a.goid), fmt.Sprintf("%#x", t.goid))
	}
	if a.owner != a.goid {
		w.fail("record used at frame allocation is owned by another identity", fmt.Sprintf("owner %#x", a.owner), fmt.Sprintf("goid %#x", a.goid))
	}
	r := w.rec(a.run, a.owner)
	for i := 0; i < w.nthr; i++ {
		if o := w.thr[i]; i != a.me && o.live {
			for _, f := range o.frames {
				if f == r {
					w.fail("one record is in use by two live goroutines", fmt.Sprint("record ", r, " goroutines ", i, " ", a.me), nil)
				}
			}
		}
	}
	if viaOwner != a.goid { // slow path (registry lookup): must be stable within the goroutine's life
		if t.slowSeen >= 0 && t.slowSeen != r {
			w.fail("registry lookup returned a different record for the same live goroutine", r, t.slowSeen)
		}
		t.slowSeen = r
		// the record a go statement creates for its goroutine is unregistered when that goroutine ends, however it ends
		if f, ok := w.recFirst[r]; ok && f != a.me && w.thr[f].kind == "go" {
			w.fail("registry lookup handed the record created for a go-statement goroutine (now gone) to another goroutine",
				fmt.Sprint("record ", r, " of goroutine ", f, " given to goroutine ", a.me), "a record of its own")
		}
	}
	if _, ok := w.recFirst[r]; !ok {
		w.recFirst[r] = a.me
	}
	t.frames = append(t.frames, r)
}

func coqPairs(p [][2]int) string {
	if len(p) == 0 {
		return "(@nil (nat*nat))"
	}
	var s []string
	for _, x := range p {
		s = append(s, fmt.Sprintf("(%d,%d)", x[0], x[1]))
	}
	return "[" + strings.Join(s, ";") + "]"
}

func (w *world) emit(hev []string, tops [][2]int) {
	reg := w.snapshot()
	w.steps = append(w.steps, fmt.Sprintf("(%s, mkObs %s %s)", vh.CoqList(hev, "hevent"), coqPairs(reg), coqPairs(tops)))
}

func (w *world) top(t int) [][2]int {
	f := w.thr[t].frames
	if len(f) == 0 {
		return nil
	}
	return [][2]int{{t, f[len(f)-1]}}
}

func (w *world) newThread(kind string) int {
	c := w.nthr
	w.thr[c] = &tstate{kind: kind, live: true, cmd: make(chan cmd), slowSeen: -1}
	w.nthr++
	return c
}

// send a command to thread t: interpreted frames read it through next(); a foreign goroutine outside
// interpreted code reads it in its compiled loop
func (w *world) send(t int, c cmd) { w.thr[t].cmd <- c }

func (w *world) foreignLoop(me int) {
	t := w.thr[me]
	w.ack <- ackMsg{kind: "fstart", me: me, goid: gls.GoID()}
	normal := false
	defer func() { // runtime.Goexit() inside an interpreted frame: only deferred calls run
		if !normal {
			w.ack <- ackMsg{kind: "fexit", me: me, goid: gls.GoID()}
		}
	}()
	for {
		c := <-t.cmd
		switch c.op {
		case 1:
			w.nodeFn(me)
		case 4:
			w.clos[c.a](me)
		case 0:
			normal = true
			w.ack <- ackMsg{kind: "fexit", me: me, goid: gls.GoID()}
			return
		}
	}
}

func (w *world) settle() {
	for i := 0; i < 4; i++ {
		runtime.Gosched()
	}
	time.Sleep(20 * time.Microsecond)
}

// waitUnregistered polls until no registry entry has the key goid (the deferred glsDel of a go-statement child);
// how = the way the goroutine ended
func (w *world) waitUnregistered(goid uintptr, how string) {
	deadline := time.Now().Add(1500 * time.Millisecond)
	for {
		found := false
		for _, e := range w.ir.VerifRegistry() {
			if e.Goid == goid {
				found = true
			}
		}
		if !found {
			return
		}
		if w.noWait || time.Now().After(deadline) {
			if !w.noWait {
				w.fail("the registry entry of a go-statement goroutine is still present 1.5 s after "+how+" (deferred glsDel)", fmt.Sprintf("key %#x", goid), "entry removed")
			}
			noWaitGlobal = true
			w.noWait = true
			return
		}
		w.exitPolls++
		runtime.Gosched()
		time.Sleep(10 * time.Microsecond)
	}
}


type action struct {
	kind string // call ret spawn spawnlit spawnrec mkclos callclos fspawn fexit goexit panic
	t, a int
}

func (w *world) depth(i int) int {
	d := len(w.thr[i].frames)
	if w.thr[i].kind == "main" {
		d-- // the top-level Env
	}
	return d
}

func (w *world) enabled(maxThreads int) []action {
	var acts []action
	liveN := 0
	for i := 0; i < w.nthr; i++ {
		if w.thr[i].live {
			liveN++
		}
	}
	canSpawn := liveN < 6 && w.nthr < maxThreads
	if canSpawn {
		acts = append(acts, action{"fspawn", 0, 0})
	}
	for i := 0; i < w.nthr; i++ {
		t := w.thr[i]
		if !t.live {
			continue
		}
		d := w.depth(i)
		if d < 4 {
			acts = append(acts, action{"call", i, 0})
			for k := 0; k < nSlots; k++ {
				if w.clos[k] != nil {
					acts = append(acts, action{"callclos", i, k})
				}
			}
		}
		if d == 0 { // only a foreign goroutine can be outside interpreted code
			acts = append(acts, action{"fexit", i, 0})
			continue
		}
		if !(t.kind == "main" && d == 1) {
			acts = append(acts, action{"ret", i, 0}, action{"ret", i, 0})
		}
		if canSpawn {
			acts = append(acts, action{"spawn", i, 0}, action{"spawnlit", i, 0}, action{"spawnrec", i, 0})
		}
		acts = append(acts, action{"mkclos", i, 0})
		// the goroutine ends inside its interpreted frames (not the creator of the interpreter: Eval would not return)
		if t.kind != "main" {
			acts = append(acts, action{"goexit", i, 0})
		}
		if t.kind == "go" && t.recov {
			acts = append(acts, action{"panic", i, 0})
		}
	}
	return acts
}

func (w *world) checkDistinct(c int, goid uintptr) {
	for i := 0; i < w.nthr; i++ {
		if o := w.thr[i]; i != c && o.live && o.started && o.goid == goid {
			w.fail("two live goroutines observe the same gls.GoID()", fmt.Sprintf("%#x", goid), nil)
		}
	}
}

func (w *world) perform(ac action, rng *vh.Rng) {
	t := ac.t
	switch ac.kind {
	case "fspawn":
		c := w.newThread("foreign")
		w.hist = append(w.hist, fmt.Sprintf("fspawn(%d)", c))
		go w.foreignLoop(c)
		a, _ := w.waitAck("fstart", c)
		th := w.thr[c]
		th.started, th.goid = true, a.goid
		w.checkDistinct(c, a.goid)
		w.emit([]string{fmt.Sprintf("HSpawnForeign %d %d", c, w.id(a.goid))}, nil)
	case "fexit":
		w.hist = append(w.hist, fmt.Sprintf("fexit(%d)", t))
		w.send(t, cmd{0, 0})
		a, _ := w.waitAck("fexit", t)
		if a.goid != w.thr[t].goid {
			w.fail("gls.GoID() changed within one goroutine", a.goid, w.thr[t].goid)
		}
		w.thr[t].live = false
		w.settle()
		w.emit([]string{fmt.Sprintf("HExit %d", t)}, nil)
	case "call":
		w.hist = append(w.hist, fmt.Sprintf("call(%d)", t))
		w.send(t, cmd{1, 0})
		if a, ok := w.waitAck("enter", t); ok {
			w.onEnter(a, w.recOwner[0])
		}
		w.emit([]string{fmt.Sprintf("HCall %d 0", t)}, w.top(t))
	case "callclos":
		w.hist = append(w.hist, fmt.Sprintf("callclos(%d,slot%d)", t, ac.a))
		ro := w.closRec[ac.a]
		w.send(t, cmd{4, ac.a})
		if a, ok := w.waitAck("enter", t); ok {
			w.onEnter(a, w.recOwner[ro])
		}
		w.emit([]string{fmt.Sprintf("HCall %d %d", t, ro)}, w.top(t))
	case "mkclos":
		k := rng.Intn(nSlots)
		w.hist = append(w.hist, fmt.Sprintf("mkclos(%d,slot%d)", t, k))
		th := w.thr[t]
		w.send(t, cmd{3, k})
		if a, ok := w.waitAck("enter", t); ok { // mk's frame: the closure is defined in it
			w.onEnter(a, w.recOwner[0])
		}
		tops := w.top(t)
		w.closRec[k] = th.frames[len(th.frames)-1]
		th.frames = th.frames[:len(th.frames)-1]
		w.send(t, cmd{9, 0}) // no-op round trip: put() has run when it is consumed
		w.emit([]string{fmt.Sprintf("HCall %d 0", t)}, tops)
		w.emit([]string{fmt.Sprintf("HReturn %d", t)}, w.top(t))
	case "ret":
		th := w.thr[t]
		w.hist = append(w.hist, fmt.Sprintf("ret(%d)", t))
		w.send(t, cmd{0, 0})
		th.frames = th.frames[:len(th.frames)-1]
		hev := []string{fmt.Sprintf("HReturn %d", t)}
		if th.kind == "go" && th.litBase && len(th.frames) == 1 {
			th.frames = th.frames[:0] // go func(m int){ node(m) }: the literal returns with node
			hev = append(hev, fmt.Sprintf("HReturn %d", t))
		}
		if len(th.frames) == 0 && th.kind == "go" {
			// the goroutine's function returned: deferred glsDel, then the goroutine is gone
			w.waitUnregistered(th.goid, "its function returned")
			th.live = false
			w.settle()
			hev = append(hev, fmt.Sprintf("HExit %d", t))
		}
		w.emit(hev, w.top(t))
	case "goexit", "panic":
		th := w.thr[t]
		w.hist = append(w.hist, fmt.Sprintf("%s(%d)", ac.kind, t))
		op, how := 6, "it called runtime.Goexit() inside its interpreted frames"
		if ac.kind == "panic" {
			op, how = 7, "a panic in its interpreted frames was recovered by the function of the goroutine, which then returned"
		}
		w.send(t, cmd{op, 0})
		th.frames = th.frames[:0]
		if th.kind == "foreign" {
			if a, _ := w.waitAck("fexit", t); a.goid != th.goid {
				w.fail("gls.GoID() changed within one goroutine", a.goid, th.goid)
			}
		} else {
			w.waitUnregistered(th.goid, how)
		}
		th.live = false
		w.settle()
		w.emit([]string{fmt.Sprintf("HGoexit %d", t)}, nil)
	case "spawn", "spawnlit", "spawnrec":
		c := w.newThread("go")
		w.hist = append(w.hist, fmt.Sprintf("%s(%d->%d)", ac.kind, t, c))
		op := 2
		if ac.kind == "spawnlit" {
			op = 5
		}
		if ac.kind == "spawnrec" {
			op = 8
			w.thr[c].recov = true
		}
		w.send(t, cmd{op, c})
		a, ok := w.waitAck("enter", c)
		if ok {
			w.checkDistinct(c, a.goid)
			w.onEnter(a, w.recOwner[0])
		}
		cid := w.id(a.goid)
		th := w.thr[c]
		if ac.kind == "spawnrec" && len(th.frames) > 0 {
			// go rnode(c): rnode's frame and the frame of node called by it both find the child's record in the registry
			r := th.frames[0]
			th.frames = []int{r, r}
			th.litBase = true
			w.emit([]string{fmt.Sprintf("HSpawnGo %d %d %d", t, c, cid), fmt.Sprintf("HCall %d 0", c), fmt.Sprintf("HCall %d 0", c)}, w.top(c))
		} else if ac.kind == "spawn" || len(th.frames) == 0 {
			w.emit([]string{fmt.Sprintf("HSpawnGo %d %d %d", t, c, cid), fmt.Sprintf("HCall %d 0", c)}, w.top(c))
		} else {
			// go func(m int){ node(m) }(c): the literal's frame uses env2.Run (the child's new record, fast path),
			// then node(m) goes through the registry
			r := th.frames[0]
			th.frames = []int{r, r}
			th.litBase = true
			w.emit([]string{fmt.Sprintf("HSpawnGo %d %d %d", t, c, cid), fmt.Sprintf("HCall %d %d", c, r), fmt.Sprintf("HCall %d 0", c)}, w.top(c))
		}
	}
}

// runCase runs one dictated schedule; the calling goroutine creates the interpreter and is goroutine 0 of the model
func runCase(rep *vh.Report, idx int, rng *vh.Rng, nsteps, maxThreads int) (string, []string, bool) {
	old := debug.SetGCPercent(-1) // addresses are used as identities within a case: keep them unique
	defer func() { debug.SetGCPercent(old); runtime.GC() }()
	w := &world{noWait: noWaitGlobal, rep: rep, ack: make(chan ackMsg, 16), recIdx: map[uintptr]int{}, recFirst: map[int]int{}, idIdx: map[uintptr]int{}, caseIdx: idx}
	w.ir = newInterp()
	w.declare()
	main := w.newThread("main")
	w.thr[main].started, w.thr[main].goid, w.thr[main].slowSeen = true, gls.GoID(), 0
	w.id(gls.GoID())
	// initial registry: exactly the creator's record
	init := w.snapshot()
	if len(init) != 1 || init[0] != [2]int{0, 0} {
		w.fail("initial registry is not {creator -> its record}", init, nil)
	}
	w.thr[main].frames = []int{0}
	done := make(chan bool)
	go func() {
		defer close(done)
		if a, ok := w.waitAck("enter", 0); ok {
			w.onEnter(a, w.recOwner[0])
		}
		w.emit([]string{"HCall 0 0"}, w.top(0))
		for i := 0; i < nsteps && !w.failed; i++ {
			acts := w.enabled(maxThreads)
			w.perform(acts[rng.Intn(len(acts))], rng)
		}
		// wind down: every goroutine returns from all its frames; foreign goroutines exit
		for i := w.nthr - 1; i >= 0; i-- {
			for w.thr[i].live && w.depth(i) > 0 && !(i == 0 && w.depth(i) == 1) {
				w.perform(action{"ret", i, 0}, rng)
			}
			if w.thr[i].live && w.thr[i].kind == "foreign" {
				w.perform(action{"fexit", i, 0}, rng)
			}
		}
		w.send(0, cmd{0, 0}) // node(0) returns, Eval returns
	}()
	w.ir.Eval("node(0)")
	<-done
	rep.Extra["exit_polls"] = w.exitPolls
	reuse := len(w.idIdx) < w.nthr
	return fmt.Sprintf("mkCase %d%%Z 0 %s", idx, vh.CoqList(w.steps, "(list hevent * obs)")), w.hist, reuse
}

// ---------------------------------------------------------------- part A: gls.GoID()
func partA(rep *vh.Report, rng *vh.Rng, rounds int) {
	reused, total := 0, 0
	seen := map[uintptr]bool{}
	for r := 0; r < rounds; r++ {
		k := 2 + rng.Intn(63)
		runtime.GOMAXPROCS([]int{1, 2, 4, 8}[rng.Intn(4)])
		ids := make([]uintptr, k)
		bad := make([]string, k)
		var wg, barrier sync.WaitGroup
		release := make(chan bool)
		wg.Add(k)
		barrier.Add(k)
		for i := 0; i < k; i++ {
			go func(i int) {
				defer wg.Done()
				id0 := gls.GoID()
				ids[i] = id0
				chk := func(where string) {
					if x := gls.GoID(); x != id0 && bad[i] == "" {
						bad[i] = fmt.Sprintf("%s: %#x then %#x", where, id0, x)
					}
				}
				runtime.Gosched()
				chk("after Gosched")
				barrier.Done()
				<-release // all k goroutines are live here
				chk("after channel receive")
				time.Sleep(time.Duration(1+i%7) * time.Microsecond)
				chk("after Sleep")
				var rec func(d int)
				rec = func(d int) {
					if d > 0 {
						var pad [256]byte // force some stack growth
						pad[d] = byte(d)
						rec(d - 1 + int(pad[0]))
					} else {
						chk("in nested call")
					}
				}
				rec(50)
				runtime.LockOSThread()
				chk("after LockOSThread")
				runtime.UnlockOSThread()
				chk("after UnlockOSThread")
			}(i)
		}
		barrier.Wait()
		// all k goroutines are live and have published their identity
		m := map[uintptr]int{}
		for i, id := range ids {
			if j, dup := m[id]; dup {
				rep.Fail(vh.Failure{Key: fmt.Sprintf("goid-dup:%d", k), What: "two live goroutines observe the same gls.GoID()", Input: k, Got: fmt.Sprint(i, " ", j)})
			}
			m[id] = i
			if id == 0 || id == gls.GoID() {
				rep.Fail(vh.Failure{Key: fmt.Sprintf("goid-zero-or-main:%d", k), What: "gls.GoID() of a live goroutine is 0 or equals another live goroutine's", Input: k})
			}
			total++
			if seen[id] {
				reused++
			}
			seen[id] = true
		}
		close(release)
		wg.Wait()
		for i, b := range bad {
			if b != "" {
				rep.Fail(vh.Failure{Key: fmt.Sprintf("goid-changed:%d:%d", k, i), What: "gls.GoID() changed within one goroutine", Input: k, Got: b})
			}
		}
		rep.Count(fmt.Sprintf("goid:%d:%d", r, k), true)
		rep.Dist("partA:goid_round")
	}
	rep.Extra["partA_goroutines"] = total
	rep.Extra["partA_identities_reused_across_rounds"] = reused
	runtime.GOMAXPROCS(runtime.NumCPU())
}

// ---------------------------------------------------------------- part C: stress
type stressWorld struct {
	ir                              *fast.Interp
	viol, shared, changed, calls    int64
	active                          sync.Map
	first                           atomic.Value
	workFn                          func(int) int
	srtFn                           func([]int)
	fanFn                           func(int, chan int)
	yield                           bool
}

// newStress(warm): with warm = true every interpreted call expression of the stress functions is executed once on
// the creator's goroutine before any other goroutine runs them.  gomacro caches the callee in variables captured by
// the compiled call expression (fast/call*ret*.go: cachedfunv, cachedfun), written without synchronisation on the
// first execution: two goroutines running the same call expression for the first time race on them (observation
// C33-callsite-cache-race, replayed by coldcall() in the -race build).  The generators avoid that class by warming.
func newStress(warm bool) *stressWorld {
	s := &stressWorld{ir: newInterp()}
	ir := s.ir
	chk := func(interpv xr.Value) xr.Value {
		in := interpv.Interface().(*fast.Interp)
		run, owner := in.VerifRunOf()
		me := gls.GoID()
		n := atomic.AddInt64(&s.calls, 1)
		if owner != me {
			if atomic.AddInt64(&s.viol, 1) == 1 {
				s.first.Store(fmt.Sprintf("owner %#x goid %#x", owner, me))
			}
		}
		if prev, loaded := s.active.LoadOrStore(run, me); loaded && prev.(uintptr) != me {
			atomic.AddInt64(&s.shared, 1)
		}
		if s.yield && n%3 == 0 {
			runtime.Gosched()
		}
		if gls.GoID() != me {
			atomic.AddInt64(&s.changed, 1)
		}
		s.active.Delete(run)
		return xr.ValueOf(0)
	}
	ir.DeclEnvFunc("chk", fast.Function{Fun: chk, Type: ir.Comp.TypeOf(func(interface{}) interface{} { return nil })})
	ir.Eval(`import "sort"`)
	ir.Eval(`func leaf(x int) int { chk(); return x + 1 }`)
	ir.Eval(`func work(n int) int { chk(); s := 0; for i := 0; i < n; i++ { j := i * 2; s += leaf(j); f := func() int { chk(); return s + 1 }; s = f() }; return s }`)
	ir.Eval(`func fan(n int, out chan int) { for i := 0; i < n; i++ { go func(k int) { out <- work(k) * 1000 + k }(i) } }`)
	ir.Eval(`func srt(xs []int) { sort.Slice(xs, func(i, j int) bool { chk(); return xs[i] < xs[j] }) }`)
	get := func(name string) interface{} {
		v, _ := ir.Eval(name)
		return v[0].Interface()
	}
	s.workFn = get("work").(func(int) int)
	s.srtFn = get("srt").(func([]int))
	s.fanFn = get("fan").(func(int, chan int))
	if warm {
		s.workFn(3)
		s.srtFn([]int{3, 1, 2})
		out := make(chan int, 1)
		s.fanFn(1, out) // one goroutine: the call expressions inside the go statement's function are warmed by a single executor
		<-out
		s.calls = 0
	}
	return s
}

// stress: hold = true keeps every goroutine started by compiled code alive until all of the round have finished
// their interpreted calls (then none of them can receive the identity of an exited one while the round runs, and
// the next round starts after wg.Wait(), i.e. ordered after every exit).  Used in the -race build: the record a
// compiled-code goroutine leaves registered (observation C33-stale-foreign-record, part D) is otherwise found by an
// unrelated later goroutine with the reused identity, which the race detector reports; that input class is
// replayed separately by churn().
func stress(rep *vh.Report, wd *vh.Watchdog, rng *vh.Rng, rounds, per int, hold bool) {
	s := newStress(true)
	tasks := 0
	for r := 0; r < rounds; r++ {
		wd.Beat(fmt.Sprint("stress round ", r))
		procs := []int{1, 2, 4, 8}[r%4]
		runtime.GOMAXPROCS(procs)
		s.yield = r%2 == 1
		var wg, fin sync.WaitGroup
		release := make(chan struct{})
		if !hold {
			close(release)
		}
		var wrong int64
		nfan := per / 2
		out := make(chan int, nfan)
		// foreign goroutines: interpreted functions called from goroutines started by compiled code
		for i := 0; i < per-nfan; i++ {
			wg.Add(1)
			k := rng.Intn(12)
			if i%4 == 3 {
				xs := make([]int, 3+rng.Intn(20))
				for j := range xs {
					xs[j] = rng.Intn(100)
				}
				fin.Add(1)
				go func() {
					defer wg.Done()
					s.srtFn(xs)
					if !sort.IntsAreSorted(xs) {
						atomic.AddInt64(&wrong, 1)
					}
					fin.Done()
					<-release
				}()
			} else {
				fin.Add(1)
				go func() {
					defer wg.Done()
					if s.workFn(k) != k*k+k {
						atomic.AddInt64(&wrong, 1)
					}
					fin.Done()
					<-release
				}()
			}
		}
		// go statements executed by interpreted code, started from the creator's goroutine (direct call)
		s.fanFn(nfan, out)
		for i := 0; i < nfan; i++ {
			v := <-out
			k := v % 1000
			if v/1000 != k*k+k {
				atomic.AddInt64(&wrong, 1)
			}
		}
		fin.Wait()
		if hold {
			close(release)
		}
		wg.Wait()
		tasks += per
		key := fmt.Sprintf("stress:round%d:procs%d:yield%v", r, procs, s.yield)
		if wrong != 0 {
			rep.Fail(vh.Failure{Key: key + ":result", What: "interpreted function computed a wrong result when run from concurrent goroutines", Input: key, Got: wrong, Want: 0})
		}
		rep.Count(key, true)
		rep.Dist(fmt.Sprintf("stress:GOMAXPROCS=%d", procs))
	}
	if s.viol != 0 {
		rep.Fail(vh.Failure{Key: "stress:ownership", What: "record used by a frame is owned by another identity (count)", Input: "stress", Got: fmt.Sprint(s.viol, " first: ", s.first.Load()), Want: 0})
	}
	if s.shared != 0 {
		rep.Fail(vh.Failure{Key: "stress:shared", What: "one record observed in use by two goroutines at once (count)", Input: "stress", Got: s.shared, Want: 0})
	}
	if s.changed != 0 {
		rep.Fail(vh.Failure{Key: "stress:goid", What: "gls.GoID() changed within one goroutine (count)", Input: "stress", Got: s.changed, Want: 0})
	}
	reg := s.ir.VerifRegistry()
	for _, e := range reg {
		if e.Goid != e.Owner {
			rep.Fail(vh.Failure{Key: "stress:registry", What: "registry[g] = r but r.owner != g", Input: "stress"})
		}
	}
	rep.Extra["stress_goroutines"] = tasks
	rep.Extra["stress_probe_calls"] = s.calls
	rep.Extra["stress_registry_entries_left"] = len(reg)
	runtime.GOMAXPROCS(runtime.NumCPU())
}

// ---------------------------------------------------------------- part D: recorded observations
const keyStale = "C33-stale-foreign-record"
const keyEvalOther = "C33-eval-other-goroutine"
const keyCold = "C33-callsite-cache-race"

func knownKeys() map[string]bool {
	out := map[string]bool{}
	b, err := os.ReadFile(filepath.Join(os.Getenv("VERIF_DIR"), "known_findings.json"))
	if err != nil {
		return out
	}
	var kf struct {
		Findings []struct{ Property, Key, Status string }
	}
	if json.Unmarshal(b, &kf) == nil {
		for _, f := range kf.Findings {
			if f.Property == "C33" && f.Status == "known" {
				out[f.Key] = true
			}
		}
	}
	return out
}

func partD(rep *vh.Report) {
	known := knownKeys()
	runtime.GOMAXPROCS(1)
	defer runtime.GOMAXPROCS(runtime.NumCPU())
	s := newStress(true)
	// D1: a goroutine started by compiled code calls an interpreted function and exits: its record stays
	// registered; a later goroutine that receives the same identity finds and uses that record
	stale := false
	creator := map[uintptr]uintptr{} // record -> identity... of the first goroutine that used it (all incarnations share the identity)
	usedBy := map[uintptr]int{}      // record -> number of distinct goroutines that found it already registered
	for i := 0; i < 50 && !stale; i++ {
		done := make(chan bool)
		go func() {
			defer close(done)
			me := gls.GoID()
			var before uintptr
			for _, e := range s.ir.VerifRegistry() {
				if e.Goid == me {
					before = e.Run
				}
			}
			s.workFn(1)
			var after uintptr
			for _, e := range s.ir.VerifRegistry() {
				if e.Goid == me {
					after = e.Run
				}
			}
			if before != 0 && before == after {
				usedBy[after]++
				stale = true
			}
			creator[after] = me
		}()
		<-done
		runtime.Gosched()
	}
	// D2: Eval on a goroutine other than the one that created the interpreter uses the creator's record
	before := s.viol
	done := make(chan bool)
	go func() { defer close(done); s.ir.Eval("chk()") }()
	<-done
	evalOther := s.viol != before
	rep.Extra["observations"] = map[string]interface{}{
		keyStale:     map[string]interface{}{"observed": stale, "what": "a goroutine started by compiled code calls an interpreted function and exits; a later goroutine with the reused identity finds the record of the exited one in IrGlobals.gls (getRun4Goid never unregisters)"},
		keyEvalOther: map[string]interface{}{"observed": evalOther, "what": "Interp.Eval on a goroutine other than the creator runs top-level code with the creator's Run (ir.env.Run is not looked up by identity)"},
	}
	if stale && known[keyStale] {
		rep.Fail(vh.Failure{Key: keyStale, What: "stale record of an exited goroutine found by a reused identity", Input: "go func(){ work(1) }() repeated"})
	}
	if evalOther && known[keyEvalOther] {
		rep.Fail(vh.Failure{Key: keyEvalOther, What: "top-level evaluation on another goroutine uses the creator's record", Input: `go func(){ ir.Eval("chk()") }()`})
	}
}

// ---------------------------------------------------------------- part E: endings of go-statement goroutines
// A go statement registers a record for its goroutine; however that goroutine ends (its function returns, runtime.Goexit()
// at any call depth or inside a nested closure, a panic recovered by the goroutine's own function) the registry must be
// left without an entry for its identity: a later goroutine that is given the same identity must not find it.
func partE(rep *vh.Report) {
	ir := newInterp()
	reached := make(chan uintptr, 4)
	ir.DeclFunc("reached", func() { reached <- gls.GoID() })
	for _, src := range []string{`import "runtime"`,
		`func ender(how, n int) { if n > 0 { ender(how, n-1); return }; reached(); if how == 1 { runtime.Goexit() } else if how == 2 { panic("x") } else if how == 3 { func() { runtime.Goexit() }() } }`,
		`func guarded(how, n int) { defer func() { recover() }(); ender(how, n) }`} {
		ir.Eval(src)
	}
	hows := []string{"return", "Goexit", "panic-recovered-in-goroutine", "Goexit-in-nested-closure"}
	for how := range hows {
		for _, depth := range []int{0, 1, 5} {
			for _, lit := range []bool{false, true} {
				stmt := fmt.Sprintf("go guarded(%d, %d)", how, depth)
				if lit {
					stmt = fmt.Sprintf("go func(h, n int) { guarded(h, n) }(%d, %d)", how, depth)
				}
				key := "ending:" + hows[how] + ":" + stmt
				if p := vh.Catch(func() { ir.Eval(stmt) }); p != nil {
					rep.Fail(vh.Failure{Key: key, What: "go statement failed", Input: stmt, Got: fmt.Sprint(p)})
					continue
				}
				var goid uintptr
				select {
				case goid = <-reached:
				case <-time.After(20 * time.Second):
					rep.Fail(vh.Failure{Key: key, What: "the goroutine started by the go statement never ran", Input: stmt})
					return
				}
				deadline := time.Now().Add(1500 * time.Millisecond)
				for {
					found := false
					for _, e := range ir.VerifRegistry() {
						found = found || e.Goid == goid
					}
					if !found {
						break
					}
					if time.Now().After(deadline) {
						rep.Fail(vh.Failure{Key: key, What: "the registry entry of a go-statement goroutine is still present 1.5 s after the goroutine ended (" + hows[how] + "): the next goroutine with this identity finds the dead goroutine's record",
							Input: map[string]interface{}{"program": []string{`import "runtime"`, "func ender(how, n int) {...; if how == 1 { runtime.Goexit() } ...}", "func guarded(how, n int) { defer func() { recover() }(); ender(how, n) }"}, "statement": stmt},
							Got: fmt.Sprintf("entry with key %#x present", goid), Want: "entry removed"})
						return // one report is enough; every further case would wait 1.5 s
					}
					runtime.Gosched()
					time.Sleep(20 * time.Microsecond)
				}
				rep.Count(key, how > 0)
				rep.Dist("partE:" + hows[how])
			}
		}
	}
}

// ---------------------------------------------------------------- main
func raceChild(a *vh.Args, mode, logp string) (error, []string) {
	old, _ := filepath.Glob(logp + ".*")
	for _, f := range old {
		os.Remove(f)
	}
	c := exec.Command(os.Args[0], os.Args[1:]...)
	c.Env = append(os.Environ(), "C33_CHILD="+mode, "GORACE=log_path="+logp+" halt_on_error=0 exitcode=0")
	c.Stdout, c.Stderr = os.Stdout, os.Stderr
	err := c.Run()
	files, _ := filepath.Glob(logp + ".*")
	var reports []string
	for _, f := range files {
		b, _ := os.ReadFile(f)
		for _, part := range strings.Split(string(b), "==================") {
			if strings.Contains(part, "DATA RACE") {
				reports = append(reports, strings.TrimSpace(part))
			}
		}
	}
	return err, reports
}

// churn replays, in a process of its own, the input class the -race stress avoids: goroutines started by compiled
// code call interpreted functions and exit with no synchronisation towards the goroutines started after them
func churn() {
	s := newStress(true)
	for r := 0; r < 4; r++ {
		var wg sync.WaitGroup
		for i := 0; i < 150; i++ {
			wg.Add(1)
			go func(k int) { defer wg.Done(); s.workFn(k % 7) }(i)
			if i%3 == 0 {
				runtime.Gosched()
			}
		}
		wg.Wait()
	}
}

// coldcall replays, in a process of its own, the other class the generators avoid: several goroutines execute the
// same interpreted call expressions for the first time concurrently (no warm-up); all goroutines stay alive until
// the end, so no identity is reused
func coldcall() {
	runtime.GOMAXPROCS(8)
	for r := 0; r < 40; r++ {
		s := newStress(false)
		var wg, fin sync.WaitGroup
		start, release := make(chan struct{}), make(chan struct{})
		for i := 0; i < 16; i++ {
			wg.Add(1)
			fin.Add(1)
			go func(k int) { defer wg.Done(); <-start; s.workFn(1); fin.Done(); <-release }(i) // work(1): every goroutine executes each call expression once (a later read by the same goroutine would hide its write from the detector)
		}
		close(start)
		fin.Wait()
		close(release)
		wg.Wait()
	}
}

func reexecWithRaceLog(a *vh.Args) {
	err, reports := raceChild(a, "1", a.Path("race"))
	errc, churnReports := raceChild(a, "churn", a.Path("race_churn"))
	errd, coldReports := raceChild(a, "coldcall", a.Path("race_coldcall"))
	if errc == nil {
		errc = errd
	}
	rp := a.Path("report.json")
	var m map[string]interface{}
	if b, e := os.ReadFile(rp); e == nil && json.Unmarshal(b, &m) == nil {
		fl, _ := m["failures"].([]interface{})
		first := func(r []string) string {
			txt := r[0]
			if len(txt) > 3000 {
				txt = txt[:3000]
			}
			return txt
		}
		if len(reports) > 0 {
			fl = append(fl, map[string]interface{}{"key": "race-detector", "what": fmt.Sprintf("%d data race report(s) from the Go race detector", len(reports)), "input": "see got", "got": first(reports)})
		}
		ex, _ := m["extra"].(map[string]interface{})
		if ex == nil {
			ex = map[string]interface{}{}
		}
		ex["race_reports_main"] = len(reports)
		ex["race_reports_churn_replay"] = len(churnReports)
		if len(churnReports) > 0 {
			ex["race_report_churn_first"] = first(churnReports)
			if knownKeys()[keyStale] {
				fl = append(fl, map[string]interface{}{"key": keyStale, "what": fmt.Sprintf("%d data race report(s): a goroutine started by compiled code uses the record left registered by an exited one with the same identity", len(churnReports)), "input": "churn(): go func(){ work(k) }() x150 x4 without synchronisation between exits and starts", "got": first(churnReports)})
			}
		}
		ex["race_reports_coldcall_replay"] = len(coldReports)
		if len(coldReports) > 0 {
			ex["race_report_coldcall_first"] = first(coldReports)
			if knownKeys()[keyCold] {
				fl = append(fl, map[string]interface{}{"key": keyCold, "what": fmt.Sprintf("%d data race report(s): two goroutines executing the same interpreted call expression for the first time write its callee cache (cachedfunv/cachedfun) concurrently", len(coldReports)), "input": "coldcall(): func leaf(x int) int {...}; func work(n int) int {... s += leaf(j) ...}; 8 goroutines call work concurrently on a fresh interpreter", "got": first(coldReports)})
			}
		}
		m["extra"] = ex
		m["failures"] = fl
		b, _ := json.MarshalIndent(m, "", " ")
		os.WriteFile(rp, b, 0o644)
	}
	if err != nil || errc != nil {
		fmt.Println("child:", err, errc)
		os.Exit(1)
	}
	os.Exit(0)
}

func main() {
	a := vh.ParseArgs()
	if raceEnabled && os.Getenv("C33_CHILD") == "" {
		reexecWithRaceLog(a)
	}
	if os.Getenv("C33_CHILD") == "churn" {
		churn()
		return
	}
	if os.Getenv("C33_CHILD") == "coldcall" {
		coldcall()
		return
	}
	rng := vh.NewRng(a.Seed)
	rep := vh.NewReport(a, "part A: rounds of 2..64 simultaneously live goroutines checking gls.GoID() constant (after Gosched, channel receive, Sleep, deep recursion, LockOSThread) and pairwise distinct; "+
		"part B: PRNG-dictated schedules (8..40 events: call, return, go statement with named function / function literal / a function that recovers panics, make closure, call closure made by another goroutine, foreign goroutine start/exit, "+
		"runtime.Goexit() inside the interpreted frames of a go-statement or foreign goroutine, panic recovered by the goroutine's own function) over <= 6 live goroutines, "+
		"registry snapshot after every event compared with the model, ownership/sharing/stability oracles on every frame allocation; a schedule is non-trivial when >= 2 goroutines besides the creator ran interpreted frames; distinct by SHA-256 of the event list; "+
		"part E: go statements (named function / literal) whose goroutine ends by return, runtime.Goexit() at call depth 0/1/5 or in a nested closure, or a recovered panic: the registry must lose the entry each time; "+
		"part C: stress rounds (GOMAXPROCS 1,2,4,8; yields injected in odd rounds) of goroutines from go statements and compiled code (incl. sort.Slice callbacks) with the ownership probe at every interpreted call; "+
		"avoided input classes (replayed in separate processes of the -race build, reported under their own keys): first concurrent execution of one call expression by several goroutines (call expressions are warmed on the creator's goroutine), and - in the -race build - compiled-code goroutines exiting while unrelated ones start (identity reuse finds the stale record)")
	limit := 180 * time.Second
	if raceEnabled {
		limit = 300 * time.Second
	}
	wd := vh.NewWatchdog(rep, limit)
	phase := map[string]float64{}
	t0 := time.Now()
	lap := func(name string) { phase[name] = time.Since(t0).Seconds(); t0 = time.Now() }

	nA, nB, nC, perC := 40, 64, 4, 200 // quick: about 15 s on an idle machine; the volume is in the thorough tier
	if a.Thorough() {
		nA, nB, nC, perC = 400, 4000, 40, 2000
	}
	if raceEnabled {
		nB, perC = nB/4, perC/2
	}
	if a.N > 0 {
		nB = a.N
	}
	wd.Beat("partA")
	partA(rep, rng.Fork(), nA)
	lap("partA")

	cw := vh.NewCases(a, "From Coq Require Import List ZArith.\nFrom Verif Require Import C33.Model.\nImport ListNotations.", "case", "mismatches", 16)
	rb := rng.Fork()
	reuseCases := 0
	for idx := 0; idx < nB; idx++ {
		wd.Beat(fmt.Sprint("schedule ", idx))
		runtime.GOMAXPROCS([]int{1, 2, 4, 8}[idx%4])
		nsteps := 8 + rb.Intn(33)
		term, hist, reuse := runCase(rep, idx, rb.Fork(), nsteps, maxThr-2)
		cw.Add(term)
		others := map[string]bool{}
		for _, h := range hist {
			if strings.HasPrefix(h, "call(") || strings.HasPrefix(h, "callclos(") || strings.HasPrefix(h, "spawn") {
				var t int
				fmt.Sscanf(h[strings.Index(h, "(")+1:], "%d", &t)
				if strings.HasPrefix(h, "spawn") {
					fmt.Sscanf(h[strings.Index(h, ">")+1:], "%d", &t)
				}
				if t != 0 {
					others[fmt.Sprint(t)] = true
				}
			}
		}
		rep.Count(strings.Join(hist, ","), len(others) >= 2)
		rep.Dist(fmt.Sprintf("schedule_len:%d-%d", len(hist)/10*10, len(hist)/10*10+9))
		for _, h := range hist {
			rep.Dist("event:" + h[:strings.Index(h, "(")])
		}
		if reuse {
			reuseCases++
		}
		if idx%61 == 2 {
			rep.Sample(hist)
		}
		rep.CaseInput(idx, hist)
	}
	cw.Close()
	rep.Extra["schedules_with_identity_reuse"] = reuseCases
	runtime.GOMAXPROCS(runtime.NumCPU())
	lap("partB")

	wd.Beat("stress")
	stress(rep, wd, rng.Fork(), nC, perC, raceEnabled)
	lap("stress")
	wd.Beat("partD")
	partD(rep)
	lap("partD")
	wd.Beat("partE")
	partE(rep)
	lap("partE")
	rep.Extra["phase_seconds"] = phase
	rep.Write()
}

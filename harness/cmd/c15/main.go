// c15: a failed evaluation leaves earlier definitions intact; a later redefinition does not change
// variables declared with the previous definition.
//
// Direct oracle (never the model): after EVERY input the harness probes every live name through Interp.Eval
// (`v`, `v.F<k>`, `v.M()`, `k`, `f()`, `T{}`: %T and %v, or "error").  After an input that fails to compile
// the whole snapshot must equal the snapshot taken before it and the compiled hook counter must not have
// moved (no code of the failed input ran).  After a successful input only the probes of the names it
// declares may change (to the values the generator wrote); in particular variables declared with the
// previous definition of a redefined type keep their type, fields, methods and values.
// (M): the bind-table observations are replayed by Verif.C14.Model (cfg fixed: restore on compile error),
// the named-type observations (object behind each type name and behind each variable's Bind.Type) by Verif.C15.Model.
package main

import (
	"encoding/json"
	"fmt"
	"io"
	"os"
	"path/filepath"
	"reflect"
	"sort"
	"strings"
	"time"
	"unsafe"

	"github.com/cosmos72/gomacro/fast"
	"verifh/vh"
)

var hookCounter int

type entity struct {
	id    int
	gm    string
	kind  string // var const func type hookvar
	typ   string // basic type name, or type entity name for struct vars
	tver  *tversion
	want  [2]string // expected %T %v of the main probe
	alive bool
}

// one definition of a named struct type
type tversion struct {
	name    string
	u       int    // field code: the struct is { F<u> <ftype> }
	ftype   string // int or string
	methods map[string]int
}

type gen struct {
	afterStale bool // the previous input failed leaving statements in the code buffer
	stmtOnly   bool // the input being generated holds statements only (no var/const/func/type declaration)
	r          *vh.Rng
	nextID     int
	ents       map[string]*entity // by gomacro name
	order      []string
	types      map[string]*tversion // current version per type name
	nextU      int
}

type decl struct {
	src    string
	c14    string // Coq stmt
	c15    string // Coq decl ("" none)
	apply  func() // generator-side effect when the input succeeds
	declID int
}

// Coq term of Verif.C15.Code.cdecl for a declaration given as source: compileDecl's Extra path (single var/const
// spec) or compileNode (everything else); hooks = hook() calls compiled before the declaration completes / fails
func cdeclOf(src string, hooks int, ok bool) string {
	path := "PNode"
	if strings.HasPrefix(src, "var ") || strings.HasPrefix(src, "const ") {
		path = "PExtra"
	}
	return fmt.Sprintf("mkCd %s %d %s", path, hooks, vh.CoqBool(ok))
}

type input struct {
	Src          string `json:"src"`
	Fails        bool   `json:"fails,omitempty"`
	c14          []string
	c15          []string
	cc           []string // Verif.C15.Code.cdecl per declaration
	apply        []func()
	decls        []int
	kinds        []string
	badDefine    bool // the failing item is a short variable declaration (see defineBad)
	nStmt, nDecl int  // valid items that are statements (:=, =, call) / declarations (var, const, func, type, method)
	hooks        int  // hook() calls the input executes if it compiles as a whole
	stale        bool // the failing declaration leaves statements in Comp.Code
}

type probe struct {
	Expr  string `json:"expr"`
	Want  string `json:"want"`
	WantT string `json:"want_type"`
}

type corpusHist struct {
	Key    string  `json:"key"`
	Steps  []input `json:"steps"`
	Probes []probe `json:"probes"`
	Known  bool    `json:"known,omitempty"`
	Note   string  `json:"note,omitempty"`
}

func (g *gen) id() int { g.nextID++; return g.nextID }

func (g *gen) live(kind string) []*entity {
	var out []*entity
	for _, n := range g.order {
		if e := g.ents[n]; e.alive && (kind == "" || e.kind == kind) {
			out = append(out, e)
		}
	}
	return out
}

func (g *gen) set(e *entity) {
	if _, ok := g.ents[e.gm]; !ok {
		g.order = append(g.order, e.gm)
	}
	e.alive = true
	g.ents[e.gm] = e
}

func lit(r *vh.Rng, t string) (string, string) {
	n := r.Intn(900) + 1
	switch t {
	case "int":
		return fmt.Sprint(n), fmt.Sprint(n)
	case "string":
		return fmt.Sprintf("\"s%d\"", n), fmt.Sprintf("s%d", n)
	case "float64":
		return fmt.Sprintf("%d.5", n), fmt.Sprintf("%d.5", n)
	case "bool":
		return fmt.Sprint(n%2 == 0), fmt.Sprint(n%2 == 0)
	}
	panic(t)
}

// Verif.C14.Model.kind: int, string are KInt1, KBox; other types carry an identity (slot reuse needs identical types)
func kindOfBasic(t string) string {
	switch t {
	case "string":
		return "KBox"
	case "float64":
		return "(KInt1T 1)"
	case "bool":
		return "(KInt1T 2)"
	}
	return "KInt1"
}

// identity of the function type func() <result> (KBoxT tag; struct types use 100 + field code)
func funcTag(result string) int {
	switch result {
	case "int":
		return 1
	case "string":
		return 2
	case "float64":
		return 3
	case "bool":
		return 4
	}
	return 5
}

var basics = []string{"int", "string", "float64", "bool"}

// a declaration of `name` (fresh when name == ""), of a random flavour; never a method
func (g *gen) valueDecl(name string, kind string) *decl {
	id := 0
	if name != "" {
		id = g.ents[name].id
	} else {
		id = g.id()
	}
	switch kind {
	case "var":
		if name == "" {
			name = fmt.Sprintf("v_%d", id)
		}
		ts := g.typeNames()
		if len(ts) > 0 && g.r.Chance(1, 3) {
			tn := pick(g.r, ts)
			tv := g.types[tn]
			l, w := lit(g.r, tv.ftype)
			e := &entity{id: id, gm: name, kind: "var", typ: tn, tver: tv, want: [2]string{"main." + tn, "{" + w + "}"}}
			return &decl{src: fmt.Sprintf("var %s = %s{F%d: %s}", name, tn, tv.u, l), c14: fmt.Sprintf("SVar %d (KBoxT %d) (EZ 0)", id, 100+tv.u),
				c15: fmt.Sprintf("DVar %d %d", id, g.ents[tn].id), apply: func() { g.set(e) }, declID: id}
		}
		t := pick(g.r, basics)
		l, w := lit(g.r, t)
		e := &entity{id: id, gm: name, kind: "var", typ: t, want: [2]string{t, w}}
		return &decl{src: fmt.Sprintf("var %s %s = %s", name, t, l), c14: fmt.Sprintf("SVar %d %s (EZ 0)", id, kindOfBasic(t)), apply: func() { g.set(e) }, declID: id}
	case "const":
		if name == "" {
			name = fmt.Sprintf("k_%d", id)
		}
		t := pick(g.r, []string{"int", "string"})
		l, w := lit(g.r, t)
		e := &entity{id: id, gm: name, kind: "const", typ: t, want: [2]string{t, w}}
		return &decl{src: fmt.Sprintf("const %s = %s", name, l), c14: fmt.Sprintf("SConst %d 0", id), apply: func() { g.set(e) }, declID: id}
	case "func":
		if name == "" {
			name = fmt.Sprintf("f_%d", id)
		}
		t := pick(g.r, []string{"int", "string", "float64"})
		l, w := lit(g.r, t)
		e := &entity{id: id, gm: name, kind: "func", typ: t, want: [2]string{t, w}}
		return &decl{src: fmt.Sprintf("func %s() %s { return %s }", name, t, l), c14: fmt.Sprintf("SFunc %d %d true", id, funcTag(t)), apply: func() { g.set(e) }, declID: id}
	case "type":
		if name == "" {
			name = fmt.Sprintf("T_%d", id)
		}
		g.nextU++
		tv := &tversion{name: name, u: g.nextU, ftype: pick(g.r, []string{"int", "string"}), methods: map[string]int{}}
		zero := "{0}"
		if tv.ftype == "string" {
			zero = "{}"
		}
		e := &entity{id: id, gm: name, kind: "type", tver: tv, want: [2]string{"main." + name, zero}}
		return &decl{src: fmt.Sprintf("type %s struct { F%d %s }", name, tv.u, tv.ftype), c14: "SNop", c15: fmt.Sprintf("DType %d %d", id, tv.u),
			apply: func() { g.set(e); g.types[name] = tv }}
	case "define":
		// top-level short variable declaration: a new variable, or the REDEFINITION of a live variable/constant/function
		// by a variable of any basic type.  The input holds no ast.Decl for it (an ast.AssignStmt)
		if name == "" {
			name = fmt.Sprintf("d_%d", id)
		}
		t := pick(g.r, basics)
		l, w := lit(g.r, t)
		e := &entity{id: id, gm: name, kind: "var", typ: t, want: [2]string{t, w}}
		return &decl{src: fmt.Sprintf("%s := %s", name, l), c14: fmt.Sprintf("SVar %d %s (EZ 0)", id, kindOfBasic(t)), apply: func() { g.set(e) }, declID: id}
	case "hook":
		name = fmt.Sprintf("h_%d", id)
		e := &entity{id: id, gm: name, kind: "hookvar", typ: "int"}
		return &decl{src: fmt.Sprintf("var %s = hook()", name), c14: fmt.Sprintf("SVar %d KInt1 (EZ 0)", id), c15: "DStmt", apply: func() { g.set(e) }, declID: id}
	}
	panic(kind)
}

// a top-level STATEMENT that is no declaration: assignment to a live variable of a basic type (its new value is what the
// probes must show afterwards - or the old one when the input fails to compile) or a call of the compiled hook
func (g *gen) stmtEntry(kind string) *decl {
	switch kind {
	case "assign":
		var cands []*entity
		for _, e := range g.live("var") {
			if e.tver == nil {
				cands = append(cands, e)
			}
		}
		if len(cands) == 0 {
			return nil
		}
		e := pick(g.r, cands)
		l, w := lit(g.r, e.typ)
		return &decl{src: fmt.Sprintf("%s = %s", e.gm, l), c14: fmt.Sprintf("SSet %d (EZ 0)", e.id), apply: func() { e.want[1] = w }}
	case "hookstmt":
		return &decl{src: "hook()", c14: "SNop", c15: "DStmt", apply: func() {}}
	}
	panic(kind)
}

// name declared / assigned by one generated top-level item ("" for a call statement), and its kind for the distribution
func itemName(src string) (name, kind string) {
	f := strings.Fields(strings.NewReplacer("(", " ", ")", " ").Replace(src))
	switch {
	case strings.HasPrefix(src, "func (t "):
		return f[3], "method"
	case strings.HasPrefix(src, "var ") || strings.HasPrefix(src, "const ") || strings.HasPrefix(src, "func ") || strings.HasPrefix(src, "type "):
		return f[1], f[0]
	case strings.Contains(src, " := "):
		return f[0], "define"
	case strings.Contains(src, " = "):
		return f[0], "assign"
	}
	return "", "call-statement"
}

func (g *gen) typeNames() []string {
	var out []string
	for n := range g.types {
		out = append(out, n)
	}
	sort.Strings(out)
	return out
}

func pick[T any](r *vh.Rng, l []T) T { return l[r.Intn(len(l))] }

// method declaration on the current version of a type (valid inputs only)
func (g *gen) methodDecl() *decl {
	ts := g.typeNames()
	if len(ts) == 0 {
		return nil
	}
	tn := pick(g.r, ts)
	tv := g.types[tn]
	var mname string
	var names []string
	for m := range tv.methods {
		names = append(names, m)
	}
	sort.Strings(names)
	mid := 0
	if len(names) > 0 && g.r.Chance(1, 3) {
		mname = pick(g.r, names) // redefinition of the method
		fmt.Sscanf(mname, "M_%d", &mid)
	} else {
		mid = g.id()
		mname = fmt.Sprintf("M_%d", mid)
	}
	v := g.r.Intn(900) + 1
	return &decl{src: fmt.Sprintf("func (t %s) %s() int { return %d }", tn, mname, v), c14: "SNop",
		c15: fmt.Sprintf("DMethod %d %d %d true", g.ents[tn].id, mid, v), apply: func() { tv.methods[mname] = v }}
}

// a random valid declaration: new name or redefinition
func (g *gen) randomDecl(allowMethod bool) *decl {
	x := g.r.Intn(100)
	redefine := g.r.Chance(2, 5)
	kind := "var"
	if g.stmtOnly {
		// an input without any ast.Decl: short variable declarations (mostly redefinitions), assignments, calls
		switch {
		case x < 60:
			kind = "define"
		case x < 85:
			if d := g.stmtEntry("assign"); d != nil {
				return d
			}
			kind = "define"
		default:
			return g.stmtEntry("hookstmt")
		}
		x = 0
	}
	switch {
	case kind == "define":
	case x < 30:
		kind = "var"
	case x < 38:
		kind = "define"
	case x < 50:
		kind = "const"
	case x < 63:
		kind = "func"
	case x < 76:
		kind = "type"
	case x < 84:
		kind = "hook"
	case x < 88:
		return g.stmtEntry("hookstmt")
	case x < 93:
		if d := g.stmtEntry("assign"); d != nil {
			return d
		}
		kind = "var"
	default:
		if allowMethod {
			if d := g.methodDecl(); d != nil {
				return d
			}
		}
		kind = "type"
	}
	if kind == "hook" {
		return g.valueDecl("", kind)
	}
	if redefine {
		// redefine an existing name with a declaration of the same or of another class
		var cands []*entity
		for _, e := range g.live("") {
			if e.kind != "hookvar" && (e.kind == "type") == (kind == "type") {
				cands = append(cands, e)
			}
		}
		if len(cands) > 0 {
			return g.valueDecl(pick(g.r, cands).gm, kind)
		}
	}
	return g.valueDecl("", kind)
}

func (g *gen) badDecl() (string, string) {
	id := g.id()
	switch g.r.Intn(7) {
	case 0:
		return fmt.Sprintf("var z_%d = undefined_%d", id, id), "SBad"
	case 1:
		return fmt.Sprintf("var z_%d int = \"s\"", id), "SBad"
	case 2:
		return fmt.Sprintf("func g_%d() int { return undefined_%d }", id, id), fmt.Sprintf("SFunc %d 1 false", id)
	case 3:
		return fmt.Sprintf("var z_%d Undefined_%d", id, id), "SBad"
	case 4:
		if fs := g.live("func"); len(fs) > 0 {
			// redefinition of an existing function whose body does not compile (DeclFunc's deferred restore)
			f := pick(g.r, fs)
			return fmt.Sprintf("func %s() bool { return undefined_%d }", f.gm, id), fmt.Sprintf("SFunc %d 4 false", f.id)
		}
		return fmt.Sprintf("var z_%d = 1 + \"a\"", id), "SBad"
	case 5:
		// assignment to a constant
		return fmt.Sprintf("func g_%d() { const c = 1; c = 3 }", id), fmt.Sprintf("SFunc %d 5 false", id)
	default:
		return fmt.Sprintf("type U_%d struct { x Undefined_%d }", id, id), "SBad"
	}
}

// a STATEMENT that fails to compile after part of it was appended to the top-level code buffer Comp.Code
// (the appended part calls hook() / declares variables): returns source and number of hook() calls appended
func (g *gen) staleBad() (string, int) {
	id := g.id()
	switch g.r.Intn(7) {
	case 0:
		return fmt.Sprintf("x_%d, y_%d := hook(), nil", id, id), 1
	case 1:
		return fmt.Sprintf("x_%d, y_%d, w_%d := hook(), hook(), nil", id, id, id), 2
	case 2:
		return fmt.Sprintf("for i := 0; i < hook(); i++ { undefined_%d() }", id), 1
	case 3:
		return fmt.Sprintf("{ w := hook(); undefined_%d(w) }", id), 1
	case 4:
		return fmt.Sprintf("if v := hook(); v > 0 { undefined_%d() }", id), 1
	case 5:
		if vs := g.live("var"); len(vs) > 0 {
			// redefinition of a live variable in the failing statement
			return fmt.Sprintf("%s, y_%d := hook(), nil", pick(g.r, vs).gm, id), 1
		}
		return fmt.Sprintf("{ w := hook(); w2 := hook(); undefined_%d(w, w2) }", id), 2
	default:
		return fmt.Sprintf("switch w := hook(); w { case 1: undefined_%d() }", id), 1
	}
}

// a top-level short variable declaration that fails to compile AFTER it declared its first name(s): mostly the
// REDEFINITION of a live variable / constant / function with a value of ANOTHER type (`x, y := "s", nil`); the failure is
// an untyped nil or an undefined identifier among the later operands.  Contains no ast.Decl and no hook() call.
func (g *gen) defineBad() string {
	id := g.id()
	name, old := fmt.Sprintf("x_%d", id), ""
	var cands []*entity
	for _, e := range g.live("") {
		if e.kind == "var" || e.kind == "const" || e.kind == "func" || e.kind == "hookvar" {
			cands = append(cands, e)
		}
	}
	if len(cands) > 0 && g.r.Chance(4, 5) {
		e := pick(g.r, cands)
		name, old = e.gm, e.typ
		if e.kind == "func" {
			old = "" // any variable type differs from a function type
		}
	}
	t := pick(g.r, basics)
	for t == old {
		t = pick(g.r, basics)
	}
	l, _ := lit(g.r, t)
	l2, _ := lit(g.r, pick(g.r, basics))
	switch g.r.Intn(5) {
	case 0:
		return fmt.Sprintf("%s, y_%d := %s, nil", name, id, l)
	case 1:
		return fmt.Sprintf("%s, y_%d := %s, undefined_%d", name, id, l, id)
	case 2:
		return fmt.Sprintf("%s, y_%d, w_%d := %s, %s, nil", name, id, id, l, l2)
	case 3:
		return fmt.Sprintf("y_%d, %s, w_%d := %s, %s, nil", id, name, id, l2, l)
	default:
		return fmt.Sprintf("%s, y_%d := %s, y_%d", name, id, l, id)
	}
}

func (g *gen) input(fails bool) *input {
	in := &input{Fails: fails}
	n := 1 + g.r.Intn(4)
	if !fails && g.r.Chance(1, 2) {
		n = 1
	}
	// failing inputs: 1/4 consist of the failing item ALONE; 1/3 hold statements only (no ast.Decl anywhere in the input)
	g.stmtOnly = false
	if fails {
		if g.r.Chance(1, 4) {
			n = 0
		}
		g.stmtOnly = g.r.Chance(1, 3)
	} else if g.r.Chance(1, 8) {
		g.stmtOnly = true
	}
	defer func() { g.stmtOnly = false }()
	// directly after an input that failed with statements left in the code buffer: mostly ONE var/const declaration
	// (Comp.Compile -> compileDecl's Extra path), the rest any input
	forceSingle := !fails && g.afterStale && g.r.Chance(3, 4)
	if forceSingle {
		n = 1
	}
	badAt := -1
	if fails {
		badAt = g.r.Intn(n + 1) // every position k, including first and last
		n++
	}
	var srcs []string
	used := map[string]bool{}
	typeDeclared := map[string]bool{}
	for i := 0; i < n; i++ {
		if i == badAt {
			if g.stmtOnly || g.r.Chance(1, 4) {
				var s string
				k := 0
				if g.r.Chance(2, 3) {
					s = g.defineBad()
				} else {
					s, k = g.staleBad()
				}
				srcs = append(srcs, s)
				in.c14 = append(in.c14, "SBad")
				in.c15 = append(in.c15, "DBad")
				in.cc = append(in.cc, cdeclOf(s, k, false))
				in.kinds = append(in.kinds, "bad")
				in.stale = true
				if k == 0 {
					in.badDefine = true
				}
				continue
			}
			if g.r.Chance(2, 5) {
				s, k := g.staleBad()
				srcs = append(srcs, s)
				in.c14 = append(in.c14, "SBad")
				in.c15 = append(in.c15, "DBad")
				in.cc = append(in.cc, cdeclOf(s, k, false))
				in.kinds = append(in.kinds, "bad")
				in.stale = true
				continue
			}
			s, c14 := g.badDecl()
			srcs = append(srcs, s)
			in.c14 = append(in.c14, c14)
			in.c15 = append(in.c15, "DBad")
			in.cc = append(in.cc, cdeclOf(s, 0, false))
			in.kinds = append(in.kinds, "bad")
			continue
		}
		var d *decl
		for try := 0; try < 20; try++ {
			if forceSingle {
				d = g.valueDecl("", pick(g.r, []string{"var", "var", "const", "hook"}))
				if vs := g.live("var"); len(vs) > 0 && !strings.Contains(d.src, "hook()") && g.r.Chance(1, 3) {
					d = g.valueDecl(pick(g.r, vs).gm, pick(g.r, []string{"var", "const"}))
				}
			} else {
				d = g.randomDecl(!fails)
			}
			nm, _ := itemName(d.src)
			if nm == "" {
				break // a call statement: declares nothing
			}
			// one declaration per name and input; a variable of a type (re)declared in the same input would
			// depend on the order chosen by the dependency sorter: not generated
			if used[nm] || (strings.Contains(d.src, "{F") && anyIn(typeDeclared, d.src)) || (strings.HasPrefix(d.src, "func (t ") && anyIn(typeDeclared, d.src)) {
				d = nil
				continue
			}
			used[nm] = true
			if strings.HasPrefix(d.src, "type ") {
				typeDeclared[nm] = true
				// a type redefined in an input that also declares (earlier) a variable/method of it: avoided above by order; avoid the converse
				for _, s := range srcs {
					if strings.Contains(s, " "+nm+"{") || strings.Contains(s, "(t "+nm+")") {
						d = nil
					}
				}
				if d == nil {
					delete(typeDeclared, nm)
					delete(used, nm)
					continue
				}
			}
			break
		}
		if d == nil {
			continue
		}
		srcs = append(srcs, d.src)
		in.c14 = append(in.c14, d.c14)
		if d.c15 != "" {
			in.c15 = append(in.c15, d.c15)
		}
		in.apply = append(in.apply, d.apply)
		in.decls = append(in.decls, d.declID)
		nh := strings.Count(d.src, "hook()")
		in.hooks += nh
		in.cc = append(in.cc, cdeclOf(d.src, nh, true))
		switch {
		case strings.HasPrefix(d.src, "func (t "):
			in.kinds = append(in.kinds, "method")
		case d.c15 == "DStmt":
			in.kinds = append(in.kinds, "hook-statement")
		default:
			_, k := itemName(d.src)
			in.kinds = append(in.kinds, k)
		}
		if _, k := itemName(d.src); k == "define" || k == "assign" || k == "call-statement" {
			in.nStmt++
			if fails {
				in.stale = true // code of a valid statement is in the buffer when a later item fails
			}
		} else {
			in.nDecl++
		}
	}
	in.Src = strings.Join(srcs, "; ")
	return in
}

func anyIn(m map[string]bool, s string) bool {
	for n := range m {
		if strings.Contains(s, n+"{") || strings.Contains(s, "(t "+n+")") {
			return true
		}
	}
	return false
}

// ---------------------------------------------------------------- the implementation side

func envOf(ir *fast.Interp) *fast.Env {
	f := reflect.ValueOf(ir).Elem().FieldByName("env")
	return (*fast.Env)(unsafe.Pointer(f.Pointer()))
}

func evalStr(ir *fast.Interp, src string) (string, string, bool) {
	var t, v string
	ok := true
	if p := vh.Catch(func() {
		vs, ts := ir.Eval(src)
		if len(vs) == 1 && vs[0].IsValid() && vs[0].CanInterface() {
			v = fmt.Sprintf("%v", vs[0].Interface())
			if ts[0] != nil {
				t = ts[0].String()
			}
		} else {
			t, v = "?", "<no value>"
		}
	}); p != nil {
		ok = false
		t, v = "error", "error"
	}
	return t, v, ok
}

type probeSpec struct {
	owner string // entity name
	expr  string
}

func (g *gen) probes() []probeSpec {
	var out []probeSpec
	for _, e := range g.live("") {
		switch e.kind {
		case "var":
			out = append(out, probeSpec{e.gm, e.gm})
			if e.tver != nil {
				out = append(out, probeSpec{e.gm, fmt.Sprintf("%s.F%d", e.gm, e.tver.u)})
				var ms []string
				for m := range e.tver.methods {
					ms = append(ms, m)
				}
				sort.Strings(ms)
				for _, m := range ms {
					out = append(out, probeSpec{e.gm + "." + m, e.gm + "." + m + "()"})
				}
			}
		case "const", "hookvar":
			out = append(out, probeSpec{e.gm, e.gm})
		case "func":
			out = append(out, probeSpec{e.gm, e.gm + "()"})
		case "type":
			out = append(out, probeSpec{e.gm, e.gm + "{}"})
		}
	}
	return out
}

func intsData(env *fast.Env) unsafe.Pointer {
	if cap(env.Ints) == 0 {
		return nil
	}
	return unsafe.Pointer(&env.Ints[:1][0])
}

func fieldCode(t interface{ NumField() int }, name func(int) string) int {
	if t.NumField() != 1 {
		return -1
	}
	var u int
	if _, err := fmt.Sscanf(name(0), "F%d", &u); err != nil {
		return -1
	}
	return u
}

func classCode(c fast.BindClass) int {
	switch c {
	case fast.IntBind:
		return 0
	case fast.VarBind:
		return 1
	case fast.FuncBind:
		return 2
	case fast.ConstBind:
		return 3
	}
	return 9
}

func newInterp() *fast.Interp {
	ir := fast.New()
	ir.Comp.Globals.Stderr = io.Discard
	ir.Comp.Globals.Stdout = io.Discard
	ir.DeclFunc("hook", func() int { hookCounter++; return hookCounter })
	return ir
}

func trunc(s string, n int) string {
	if len(s) > n {
		return s[:n] + "..."
	}
	return s
}

func main() {
	a := vh.ParseArgs()
	rng := vh.NewRng(a.Seed)
	rep := vh.NewReport(a, "histories of 12..40 inputs to one Interp (Compile, then RunExpr only if it compiled): valid inputs of 1..4 declarations "+
		"(var of 4 basic types or of a named struct type, const, func, type T struct{F<k> int|string}, method, var h = hook()) where 2/5 of the declarations REDEFINE a live name "+
		"(variable/constant/function by any of the three classes and any type; type by a new struct; method by a new body), interleaved (1/3) with inputs that FAIL to compile at the k-th "+
		"declaration for every k (undefined identifier, type mismatch, undefined type, function/type with a bad body, assignment to a constant, redefinition of an existing function with a bad body) "+
		"after/before valid declarations, redefinitions and hook() initialisers; 2/5 of the failing declarations are STATEMENTS that fail after part of them was appended to the top-level code buffer "+
		"(x, y := hook(), nil; for/if/switch/block with a hook() init statement and an undefined call in the body; also redefining a live variable), and the input after such a failure is (3/4) exactly ONE var/const declaration "+
		"(plain, of a named type, = hook(), or a redefinition: Comp.Compile -> compileDecl's single-spec path), else any input. Oracle: snapshot (%T,%v or error) of every live name's probes (v, v.F<k>, v.M(), k, f(), T{}) before vs after: "+
		"identical after a failed input + compiled hook counter unchanged; after a successful input the counter moved by exactly the input's own hook() calls (no code of an earlier failed input runs later) and only the probes of the names it declares change, to the generator's values "+
		"(variables of the previous definition of a redefined type keep type, field, methods, value). Since the C15 strengthening: declarations also come as top-level STATEMENTS - short variable declarations `x := lit` (new, or redefining a live variable/constant/function with any basic type), assignments `v = lit` to live variables and hook() call statements - "+
		"in valid and in failing inputs; 1/4 of the failing inputs are the failing item alone, 1/3 hold statements only (no ast.Decl in the whole input), and the failing item is then (2/3) a short variable declaration that REDEFINES a live name with another type and fails on a later operand "+
		"(`x, y := \"s\", nil`, `x, y := 1.5, undefined`, `y, x, w := 1, true, nil`, `x, y := 2, y`). "+
		"A method declared in a failing input is the known-finding class (not generated; corpus replays it). "+
		"corpus/C15/*.json (exact histories of DESIGN section 7 #10, #11 and of the findings repaired by C15-1/C15-2) run first. non-trivial: the history contains >=1 failing input that follows >=3 live names and >=1 redefinition; distinct by SHA-256 of the sources")
	wd := vh.NewWatchdog(rep, 10*time.Minute) // generous: go build of the oracle / the first fast.New() take minutes on a loaded machine

	// ---- part 0: corpus
	nCorpus := 0
	if dir := os.Getenv("VERIF_DIR"); dir != "" {
		files, _ := filepath.Glob(filepath.Join(dir, "corpus", "C15", "*.json"))
		sort.Strings(files)
		for _, f := range files {
			var h corpusHist
			b, err := os.ReadFile(f)
			if err != nil || json.Unmarshal(b, &h) != nil || len(h.Steps) == 0 {
				fmt.Fprintf(os.Stderr, "c15: cannot read corpus file %s\n", f)
				continue
			}
			nCorpus++
			name := strings.TrimSuffix(filepath.Base(f), ".json")
			key := "corpus:" + name
			if h.Key != "" {
				key = h.Key
			}
			wd.Beat(name)
			ir := newInterp()
			var srcs []string
			for _, s := range h.Steps {
				srcs = append(srcs, s.Src)
				before := hookCounter
				_, _, ok := evalStr(ir, s.Src)
				if ok == s.Fails {
					rep.Fail(vh.Failure{Key: key, What: "corpus step: unexpected compile status", Input: srcs, Got: ok, Want: !s.Fails})
				}
				if s.Fails && hookCounter != before {
					rep.Fail(vh.Failure{Key: key, What: "code of a failed input ran (hook counter moved)", Input: srcs, Got: hookCounter - before, Want: 0})
				}
				if want := strings.Count(s.Src, "hook()"); !s.Fails && ok && hookCounter-before != want {
					rep.Fail(vh.Failure{Key: key, What: "a successful input ran code it does not contain (hook counter moved by another amount than its hook() calls): code of an earlier failed input ran", Input: srcs, Got: hookCounter - before, Want: want})
				}
			}
			for _, p := range h.Probes {
				t, v, _ := evalStr(ir, p.Expr)
				if v != p.Want || (p.WantT != "" && t != p.WantT) {
					rep.Fail(vh.Failure{Key: key, What: "earlier definition not intact: probe " + p.Expr, Input: srcs, Got: t + " " + v, Want: p.WantT + " " + p.Want})
				}
			}
			rep.Count(strings.Join(srcs, "\n"), true)
			rep.Dist("history:corpus")
		}
	}

	// ---- part 1: generated histories
	nHist := 60
	if a.Thorough() {
		nHist = 1500
	}
	if a.N > 0 {
		nHist = a.N
	}
	header := "From Coq Require Import List ZArith Bool.\nFrom Verif Require Import C14.Model C15.Code C15.Model.\nImport ListNotations.\nOpen Scope Z_scope."
	cw := vh.NewCases(a, header, "case", "mismatches", (nHist+7)/8)
	for hi := 0; hi < nHist; hi++ {
		g := &gen{r: rng.Fork(), ents: map[string]*entity{}, types: map[string]*tversion{}}
		ir := newInterp()
		env := envOf(ir)
		hook0 := hookCounter
		n := 12 + g.r.Intn(29)
		var srcs []string
		var c14h, c14o, c15h, c15o, cch []string
		snapshot := map[string][2]string{}
		{
			// Interp.DeclFunc("hook", ...) is the first evaluation of every history (a FuncBind slot)
			c := ir.Comp
			c14h = append(c14h, "[SFunc 1000000 1 true]")
			c14o = append(c14o, fmt.Sprintf("mkObs 0 %d %d %d %d %d %d %d %s false (@nil (name * (Z * Z))) None", c.BindNum, c.IntBindNum, c.IntBindMax,
				cap(env.Vals), len(env.Vals), cap(env.Ints), len(env.Ints), vh.CoqBool(env.IntAddressTaken)))
			c15h = append(c15h, "(@nil decl)")
			c15o = append(c15o, "mkTobs true 0 (@nil (name * Z)) (@nil (name * Z))")
			cch = append(cch, "(@nil cdecl)")
		}
		nontriv, sawRedef, probed := false, false, false
		for si := 0; si < n; si++ {
			fails := si > 2 && g.r.Chance(1, 3)
			in := g.input(fails)
			if in.Src == "" {
				continue
			}
			srcs = append(srcs, in.Src)
			wd.Beat(map[string]interface{}{"history": hi, "step": si, "src": trunc(in.Src, 300)})
			key := fmt.Sprintf("gen:h%d:step%d", hi, si)
			fail := func(what string, got, want interface{}) {
				tail := srcs
				if len(tail) > 12 {
					tail = tail[len(tail)-12:]
				}
				rep.Fail(vh.Failure{Key: key, What: what, Input: map[string]interface{}{"history_tail": tail, "failing_input": in.Fails}, Got: got, Want: want})
			}
			hookBefore := hookCounter
			staleBefore := g.afterStale && !fails
			probedSince := probed
			intsBefore := intsData(env)
			nLive := len(g.live(""))
			// ---- evaluate: compile, then run only if it compiled
			status := 0
			var expr *fast.Expr
			if p := vh.Catch(func() { expr = ir.Compile(in.Src) }); p != nil {
				status = 1
			} else if p := vh.Catch(func() { ir.RunExpr(expr) }); p != nil {
				status = 3
				fail("run-time panic in a generated input", trunc(fmt.Sprint(p), 300), "none")
			}
			if fails != (status == 1) {
				fail("unexpected compile status", status, fails)
			}
			if status == 1 && hookCounter != hookBefore {
				fail("code of an input that failed to compile ran (compiled hook counter moved)", hookCounter-hookBefore, 0)
			}
			if status == 0 && hookCounter-hookBefore != in.hooks {
				fail("a successful input ran code it does not contain: compiled hook counter moved by another amount than the input's hook() calls (code of an earlier failed input ran)", hookCounter-hookBefore, in.hooks)
			}
			g.afterStale = status == 1 && (in.stale || g.afterStale)
			if in.stale {
				rep.Dist("failing-input:leaves-code-in-buffer")
			}
			if fails {
				if in.badDefine {
					rep.Dist("failing-input:bad-item-is-short-var-decl")
					for _, e := range g.live("") {
						if strings.Contains(in.Src, e.gm+",") {
							rep.Dist("failing-input:bad-short-var-decl-redefines-live-" + e.kind)
						}
					}
				}
				if in.nDecl == 0 && in.stale {
					rep.Dist("failing-input:statements-only(no-ast.Decl)")
				}
				if in.nDecl+in.nStmt == 0 {
					rep.Dist("failing-input:failing-item-alone")
				}
			}
			if status == 0 && staleBefore && !probedSince {
				rep.Dist(fmt.Sprintf("directly-after-stale-buffer:%d-decl-input:first-is-%s", len(in.kinds), in.kinds[0]))
			}
			if status == 0 {
				for _, ap := range in.apply {
					ap()
				}
				for _, k := range in.kinds {
					rep.Dist("decl:" + k)
				}
			} else {
				rep.Dist(fmt.Sprintf("failing-input:bad-at-%d-of-%d", indexOf(in.kinds, "bad")+1, len(in.kinds)))
				if nLive >= 3 && sawRedef {
					nontriv = true
				}
			}
			// ---- snapshot of every live name (direct oracle)
			declared := map[string]bool{}
			if status == 0 {
				for _, s := range strings.Split(in.Src, "; ") {
					switch nm, k := itemName(s); {
					case k == "method":
						declared["method:"+nm] = true
					case nm != "":
						declared[nm] = true
					}
				}
			}
			for _, d := range in.decls {
				_ = d
			}
			now := map[string][2]string{}
			// every probe is an Interp.Eval of an expression (compileNode: empties the code buffer). After a failure that
			// left statements in the buffer the snapshot is mostly SKIPPED, so that the next generated input is the first
			// thing compiled after the failure; the next snapshot is then compared with the one taken before the failure
			skipProbes := status == 1 && in.stale && g.r.Chance(3, 4)
			if skipProbes {
				rep.Dist("failing-input:leaves-code-in-buffer:no-probe-before-next-input")
			}
			for _, p := range g.probes() {
				if skipProbes {
					break
				}
				t, v, _ := evalStr(ir, p.expr)
				now[p.expr] = [2]string{t, v}
				old, had := snapshot[p.expr]
				owner := p.owner
				ownerDeclared := declared[owner] || declared[strings.SplitN(owner, ".", 2)[0]]
				if i := strings.Index(owner, "."); i > 0 && declared["method:"+owner[i+1:]] {
					ownerDeclared = true // the method was (re)declared: its new value is checked below
				}
				switch {
				case had && !ownerDeclared:
					if old != [2]string{t, v} {
						what := "earlier definition changed by a later successful input that does not declare it: probe " + p.expr
						if status == 1 {
							what = "earlier definition changed by an input that failed to compile: probe " + p.expr
						}
						fail(what, t+" "+v, old[0]+" "+old[1])
					}
				case ownerDeclared:
					sawRedef = sawRedef || had
					// value written by the generator
					e := g.ents[strings.SplitN(owner, ".", 2)[0]]
					switch {
					case strings.Contains(owner, "."): // method probe
						want := fmt.Sprint(e.tver.methods[owner[strings.Index(owner, ".")+1:]])
						if v != want || t != "int" {
							fail("method value after its declaration: "+p.expr, t+" "+v, "int "+want)
						}
					case p.expr == e.gm || p.expr == e.gm+"()" || p.expr == e.gm+"{}":
						if e.kind != "hookvar" && (e.want != [2]string{t, v}) {
							fail("value after declaration: "+p.expr, t+" "+v, e.want[0]+" "+e.want[1])
						}
						if e.kind == "hookvar" {
							// the value is the counter returned by one of THIS input's hook() calls
							var hv int
							if _, err := fmt.Sscan(v, &hv); err != nil || t != "int" || hv <= hookBefore || hv > hookBefore+in.hooks {
								fail("value of a variable initialised with hook(): "+p.expr, t+" "+v, fmt.Sprintf("int in (%d, %d]", hookBefore, hookBefore+in.hooks))
							}
						}
					}
				}
			}
			if !skipProbes {
				snapshot = now
			}
			probed = !skipProbes && len(now) > 0
			// ---- model observations
			c := ir.Comp
			var dl []string
			if status == 0 && len(in.decls) == 1 && in.decls[0] != 0 {
				for n, e := range g.ents {
					if e.id == in.decls[0] && e.alive {
						if b := c.Binds[n]; b != nil {
							dl = append(dl, fmt.Sprintf("(%d, (%d%%Z, %s))", e.id, classCode(b.Desc.Class()), vh.CoqZ(int64(b.Desc.Index()))))
						}
					}
				}
			}
			c14h = append(c14h, vh.CoqList(in.c14, "stmt"))
			c14o = append(c14o, fmt.Sprintf("mkObs %d %d %d %d %d %d %d %d %s %s %s None", status, c.BindNum, c.IntBindNum, c.IntBindMax,
				cap(env.Vals), len(env.Vals), cap(env.Ints), len(env.Ints), vh.CoqBool(env.IntAddressTaken), vh.CoqBool(intsData(env) != intsBefore), vh.CoqList(dl, "(name * (Z * Z))")))
			var tv, tt []string
			for _, e := range g.live("") {
				if e.kind == "var" && e.tver != nil {
					u := -1
					if b := c.Binds[e.gm]; b != nil && b.Type != nil && b.Type.Kind() == reflect.Struct {
						u = fieldCode(b.Type, func(i int) string { return b.Type.Field(i).Name })
					}
					tv = append(tv, fmt.Sprintf("(%d, %s)", e.id, vh.CoqZ(int64(u))))
				}
				if e.kind == "type" {
					u := -1
					if t := c.Types[e.gm]; t != nil && t.Kind() == reflect.Struct {
						u = fieldCode(t, func(i int) string { return t.Field(i).Name })
					}
					tt = append(tt, fmt.Sprintf("(%d, %s)", e.id, vh.CoqZ(int64(u))))
				}
			}
			c15h = append(c15h, vh.CoqList(in.c15, "decl"))
			cch = append(cch, vh.CoqList(in.cc, "cdecl"))
			c15o = append(c15o, fmt.Sprintf("mkTobs %s %d %s %s", vh.CoqBool(status == 0), hookCounter-hook0, vh.CoqList(tv, "(name * Z)"), vh.CoqList(tt, "(name * Z)")))
		}
		cw.Add(fmt.Sprintf("mkCase15 %d\n  %s\n  %s\n  %s\n  %s\n  %s", hi, vh.CoqList(c14h, "(list stmt)"), vh.CoqList(c14o, "obs"), vh.CoqList(c15h, "(list decl)"), vh.CoqList(c15o, "tobs"), vh.CoqList(cch, "(list cdecl)")))
		rep.CaseInput(hi, srcs)
		rep.Count(strings.Join(srcs, "\n"), nontriv)
		rep.Dist("history:generated")
		if hi%17 == 3 {
			rep.Sample(srcs[:minInt(len(srcs), 10)])
		}
	}
	cw.Close()
	rep.Extra["corpus_histories"] = nCorpus
	rep.Write()
}

func indexOf(l []string, s string) int {
	for i, x := range l {
		if x == s {
			return i
		}
	}
	return -1
}

func minInt(a, b int) int {
	if a < b {
		return a
	}
	return b
}

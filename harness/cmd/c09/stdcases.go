// c09 generator, part 4: type switches whose clauses mix COMPILED concrete types with the COMPILED interfaces they
// implement, in every order.
//
// fast/switch_type.go dispatches through a map reflect.Type -> clause (typeswitchGotoMap) built from the concrete case
// types; Go executes the FIRST clause, in source order, whose type matches: a concrete case that follows an interface
// case the value implements must lose against it.  The dispatch map is only built for >= 2 concrete cases of pairwise
// distinct reflect.Type, so the types here are compiled ones (time.Duration, time.Month, *os.PathError, *bytes.Buffer
// ...: one reflect.Type each) implementing fmt.Stringer / error / io.Writer / io.Reader; interpreted named types in a
// plain interface{} are known finding C09-10 and interpreted interface types never match compiled values (documented
// limitation), neither is generated.
//
// A site: `var e TAG = w_k` (TAG interface{} 2/3 of the time, else a compiled interface implemented by the value; nil
// values too), a switch of 3..7 clauses drawn from: the value's own type, the interfaces it implements, `interface{}`,
// other concrete types, other interfaces (only those go/types allows for the tag), 1/4 of the clauses listing 2..3
// types, `case nil` 1/6, default anywhere 1/2; shuffled.  With a bound variable the matching clause also shows
// x.String() / x.Error() / the value.  Oracle: go/types + compiled Go, like every site.
package main

import (
	"fmt"
	"strings"

	"github.com/cosmos72/gomacro/fast"
	"verifh/vh"
)

type stdType struct {
	expr  string
	impl  []string // compiled interfaces implemented (besides interface{})
	val   string   // a value ("" = only a case type)
	iface bool
}

var stdIfaces = []string{"fmt.Stringer", "error", "io.Writer", "io.Reader", "io.ByteReader", "io.StringWriter"}

var stdTypes = []stdType{
	{expr: "time.Duration", impl: []string{"fmt.Stringer"}, val: "time.Duration(1500)"},
	{expr: "time.Month", impl: []string{"fmt.Stringer"}, val: "time.Month(3)"},
	{expr: "time.Weekday", impl: []string{"fmt.Stringer"}, val: "time.Weekday(2)"},
	{expr: "time.Time", impl: []string{"fmt.Stringer"}, val: "time.Unix(0, 0).UTC()"},
	{expr: "*time.Location", impl: []string{"fmt.Stringer"}, val: "time.UTC"},
	{expr: "os.FileMode", impl: []string{"fmt.Stringer"}, val: "os.FileMode(0644)"},
	{expr: "*os.PathError", impl: []string{"error"}, val: "&os.PathError{Op: \"open\", Path: \"/x\", Err: os.ErrNotExist}"},
	{expr: "*os.LinkError", impl: []string{"error"}, val: "&os.LinkError{Op: \"link\", Old: \"a\", New: \"b\", Err: os.ErrExist}"},
	{expr: "*os.SyscallError", impl: []string{"error"}, val: "&os.SyscallError{Syscall: \"read\", Err: os.ErrClosed}"},
	{expr: "*strconv.NumError", impl: []string{"error"}, val: "&strconv.NumError{Func: \"Atoi\", Num: \"x\", Err: strconv.ErrSyntax}"},
	{expr: "*bytes.Buffer", impl: []string{"fmt.Stringer", "io.Writer", "io.Reader", "io.ByteReader", "io.StringWriter"}, val: "bytes.NewBufferString(\"buf\")"},
	{expr: "*strings.Builder", impl: []string{"fmt.Stringer", "io.Writer", "io.StringWriter"}, val: "new(strings.Builder)"},
	{expr: "*strings.Reader", impl: []string{"io.Reader", "io.ByteReader"}, val: "strings.NewReader(\"rd\")"},
	{expr: "*bytes.Reader", impl: []string{"io.Reader", "io.ByteReader"}},
	{expr: "int", val: "7"},
	{expr: "string", val: "\"s\""},
	{expr: "float64", val: "2.5"},
	{expr: "bool"},
	{expr: "[]int", val: "[]int{1, 2}"},
	{expr: "map[string]int"},
	{expr: "time.Duration", impl: []string{"fmt.Stringer"}, val: "time.Duration(0)"},
	{expr: "*os.PathError", impl: []string{"error"}, val: "(*os.PathError)(nil)"}, // typed nil pointer: still an error
}

func stdImplements(t stdType, ifc string) bool {
	return ifc == "interface{}" || contains(t.impl, ifc)
}

// stdNilMultiBroken: canary of the proposed finding corpus:typeswitch-nil-multitype-clause-with-interface (exact input in
// corpus/C09/19-*.json, fix in fixes/C09-9.diff): a NIL value switched over a clause listing several types one of which
// is an interface type panics in reflect.  While it reproduces, nil values get single-type clauses only.
func stdNilMultiBroken() bool {
	ir := fast.New()
	if _, e := evalStr(ir, "import \"fmt\""); e != nil {
		return true
	}
	if _, e := evalStr(ir, "func canary() string { var e interface{}; switch e.(type) { case fmt.Stringer, float64: return \"c0\" }; return \"none\" }"); e != nil {
		return true
	}
	out, e := evalStr(ir, "canary()")
	return e != nil || out != "none"
}

// genStdCaseProg returns a program without hierarchy (differential against go/types + compiled Go only)
func genStdCaseProg(r *vh.Rng, name string, nSites int, avoidNilMulti bool) *Prog {
	p := &Prog{Name: name, Comment: "type switches over compiled concrete types and the compiled interfaces they implement",
		Imports: []string{"bytes", "io", "os", "strings", "time"}}
	p.Types = append(p.Types, "type stdMark struct{}")
	p.Decls = append(p.Decls, "var trace int", "var _ io.Writer = os.Stderr")
	type val struct {
		name string
		t    stdType
	}
	var vals []val
	for _, t := range stdTypes {
		if t.val != "" {
			v := val{fmt.Sprintf("w%d", len(vals)), t}
			p.Vars = append(p.Vars, fmt.Sprintf("var %s %s = %s", v.name, t.expr, t.val))
			vals = append(vals, v)
		}
	}
	// distinct case types
	var concrete []stdType
	seenT := map[string]bool{}
	for _, t := range stdTypes {
		if !seenT[t.expr] {
			seenT[t.expr] = true
			concrete = append(concrete, t)
		}
	}
	for i := 0; i < nSites; i++ {
		v := vals[r.Intn(len(vals))]
		if r.Chance(2, 3) { // values that implement something are the interesting ones
			for len(v.t.impl) == 0 {
				v = vals[r.Intn(len(vals))]
			}
		}
		tag := "interface{}"
		if len(v.t.impl) > 0 && r.Chance(1, 3) {
			tag = v.t.impl[r.Intn(len(v.t.impl))]
		}
		dyn := v.name
		nilVal := false
		if r.Chance(1, 12) {
			dyn, nilVal = "nil", true
		}
		allowed := func(t stdType) bool { return stdImplements(t, tag) } // go/types: impossible type switch case otherwise
		// pool: own type, implemented interfaces, interface{}, other concrete types, other interfaces
		pool := []string{v.t.expr}
		pool = append(pool, v.t.impl...)
		if r.Chance(1, 3) {
			pool = append(pool, "interface{}")
		}
		var others []string
		for _, t := range concrete {
			if t.expr != v.t.expr && allowed(t) {
				others = append(others, t.expr)
			}
		}
		for _, ifc := range stdIfaces {
			if !contains(v.t.impl, ifc) && ifc != tag && r.Chance(1, 3) {
				others = append(others, ifc)
			}
		}
		for j := len(others) - 1; j > 0; j-- {
			k := r.Intn(j + 1)
			others[j], others[k] = others[k], others[j]
		}
		nOther := 1 + r.Intn(4)
		if nOther > len(others) {
			nOther = len(others)
		}
		pool = append(pool, others[:nOther]...)
		bind := r.Chance(1, 2)
		// known finding corpus:typeswitch-bound-var-default-nonempty-iface: a bound variable of a non-empty interface type
		// in default / nil / multi-type clauses: either bind or (default / nil / multi-type clauses) when the tag is not interface{}
		plain := tag == "interface{}"
		if r.Chance(1, 6) && (plain || !bind) {
			pool = append(pool, "nil")
		}
		// the tag type itself as a case is legal; keep it out (always matches non-nil) unless drawn as interface{}
		var cand []string
		seen := map[string]bool{}
		for _, c := range pool {
			if c != tag || c == "interface{}" {
				if !seen[c] {
					seen[c] = true
					cand = append(cand, c)
				}
			}
		}
		for j := len(cand) - 1; j > 0; j-- {
			k := r.Intn(j + 1)
			cand[j], cand[k] = cand[k], cand[j]
		}
		var clauses []string
		pos := 0
		for ci := 0; ci < len(cand); {
			nt := 1
			if r.Chance(1, 4) && (plain || !bind) {
				nt = 2 + r.Intn(2)
			}
			if nilVal && avoidNilMulti {
				nt = 1
			}
			var ts []string
			for ; nt > 0 && ci < len(cand); nt-- {
				ts = append(ts, cand[ci])
				ci++
			}
			body := fmt.Sprintf("return \"c%d\"", pos)
			if bind {
				switch {
				case len(ts) > 1 || ts[0] == "nil" || ts[0] == "interface{}":
					body = fmt.Sprintf("return fmt.Sprint(\"c%d|\", x)", pos)
				case ts[0] == "error":
					body = fmt.Sprintf("return \"c%d|\" + x.Error()", pos)
				case ts[0] == "fmt.Stringer":
					body = fmt.Sprintf("return \"c%d|\" + x.String()", pos)
				case strings.HasPrefix(ts[0], "io."):
					body = fmt.Sprintf("return fmt.Sprint(\"c%d|\", x != nil)", pos)
				default:
					body = fmt.Sprintf("return fmt.Sprintf(\"c%d|%%T|%%v\", x, x)", pos)
				}
			}
			clauses = append(clauses, fmt.Sprintf("case %s: %s", strings.Join(ts, ", "), body))
			pos++
		}
		if r.Chance(1, 2) && (plain || !bind) {
			at := r.Intn(len(clauses) + 1)
			d := "default: return \"default\""
			if bind {
				d = "default: return fmt.Sprint(\"default|\", x)"
			}
			clauses = append(clauses[:at], append([]string{d}, clauses[at:]...)...)
		}
		head := "switch e.(type)"
		if bind {
			head = "switch x := e.(type)"
		}
		vdesc := dyn
		if !nilVal {
			vdesc = v.t.val + ":" + v.t.expr
		}
		p.Sites = append(p.Sites, Site{ID: len(p.Sites), Kind: "std-switch", Phase: 1,
			Desc: "std switch " + tag + "(" + vdesc + ") {" + strings.Join(clauses, " ") + "}",
			Body: fmt.Sprintf("\tvar e %s = %s\n\t%s {\n\t%s\n\t}\n\treturn \"none\"", tag, dyn, head, strings.Join(clauses, "\n\t"))})
	}
	return p
}

// c09: methods, embedding, interfaces and type switches (xreflect/lookup.go, fast/selector.go, fast/interface.go,
// fast/switch_type.go).  For every random type hierarchy:
//
//	(S) direct oracles, never the Coq model: go/types (offline type-check of the generated package: accept/reject of every
//	    site, types.LookupFieldOrMethod for every (type, name)) and the same package compiled with `go build`
//	    (batched oracle module, go 1.18): outputs of every accepted site must be equal;
//	(M) the observations of xreflect Type.FieldByName / MethodByName and fast.Comp.TryLookupFieldOrMethod (count, index
//	    path, method index; before and after late method declarations, each lookup twice = cache hit) are written as Coq
//	    cases for Verif.C09.Model.
package main

import (
	"bytes"
	"encoding/json"
	"fmt"
	"go/ast"
	"go/importer"
	"go/parser"
	"go/token"
	"go/types"
	"io"
	"os"
	"os/exec"
	"path/filepath"
	"sort"
	"strings"
	"time"

	"github.com/cosmos72/gomacro/fast"
	xr "github.com/cosmos72/gomacro/xreflect"
	"verifh/vh"
)

// ---------- go/types side ----------
type checked struct {
	pkg      *types.Package
	siteErrs map[int][]string // errors inside func S<id>
	declErrs []string
}

var fset = token.NewFileSet()
var imp = importer.ForCompiler(fset, "source", nil)

func typecheck(p *Prog, withSites bool) *checked {
	only := map[int]bool{}
	if withSites {
		only = nil
	}
	src := p.goSource("h", only)
	res := &checked{siteErrs: map[int][]string{}}
	f, err := parser.ParseFile(fset, p.Name+".go", src, 0)
	if err != nil {
		res.declErrs = append(res.declErrs, "parse: "+err.Error())
		return res
	}
	type rng struct {
		lo, hi token.Pos
		id     int
	}
	var ranges []rng
	for _, d := range f.Decls {
		if fd, ok := d.(*ast.FuncDecl); ok && fd.Recv == nil && strings.HasPrefix(fd.Name.Name, "S") {
			var id int
			if _, e := fmt.Sscanf(fd.Name.Name, "S%d", &id); e == nil {
				ranges = append(ranges, rng{fd.Pos(), fd.End(), id})
			}
		}
	}
	conf := types.Config{Importer: imp, Error: func(e error) {
		te, ok := e.(types.Error)
		if !ok {
			res.declErrs = append(res.declErrs, e.Error())
			return
		}
		for _, r := range ranges {
			if te.Pos >= r.lo && te.Pos < r.hi {
				res.siteErrs[r.id] = append(res.siteErrs[r.id], te.Msg)
				return
			}
		}
		res.declErrs = append(res.declErrs, te.Msg)
	}}
	res.pkg, _ = conf.Check("h", fset, []*ast.File{f}, nil)
	return res
}

func named(pkg *types.Package, name string) types.Type {
	o := pkg.Scope().Lookup(name)
	if o == nil {
		panic("no type " + name)
	}
	return o.Type()
}

type lookupRes struct {
	cls   string // field method ambiguous none
	index []int
	obj   types.Object
}

func goLookup(pkg *types.Package, t types.Type, name string) lookupRes {
	obj, index, _ := types.LookupFieldOrMethod(t, true, pkg, name)
	switch o := obj.(type) {
	case *types.Var:
		return lookupRes{"field", index, o}
	case *types.Func:
		return lookupRes{"method", index, o}
	}
	if index != nil {
		return lookupRes{cls: "ambiguous"}
	}
	return lookupRes{cls: "none"}
}

// pathNames: the explicit selector path (names of the embedded fields, then the field) of a field index path
func pathNames(t types.Type, index []int) []string {
	var out []string
	for _, i := range index {
		if p, ok := t.Underlying().(*types.Pointer); ok {
			t = p.Elem()
		}
		st := t.Underlying().(*types.Struct)
		f := st.Field(i)
		out = append(out, f.Name())
		t = f.Type()
	}
	return out
}

func inMethodSet(t types.Type, name string, pkg *types.Package) bool {
	return types.NewMethodSet(t).Lookup(pkg, name) != nil
}

func declaredPtrRecv(f *types.Func) bool {
	recv := f.Type().(*types.Signature).Recv()
	if recv == nil {
		return false
	}
	_, ok := recv.Type().(*types.Pointer)
	return ok
}

// ---------- site generation (directed by go/types on the declarations only) ----------
func callParts(expr, name, extra string) (stmt, val string) {
	s := sigs[name]
	args := s.args
	if extra != "" {
		if args != "" {
			args = extra + ", " + args
		} else {
			args = extra
		}
	}
	if s.result == "" {
		return fmt.Sprintf("trace = 0; %s(%s)", expr, args), "trace"
	}
	return "", fmt.Sprintf("%s(%s)", expr, args)
}

func ret(stmts []string, vals []string) string {
	var ss []string
	for _, s := range stmts {
		if s != "" {
			ss = append(ss, s)
		}
	}
	ss = append(ss, "return fmt.Sprint("+strings.Join(vals, ", \"|\", ")+")")
	return "\t" + strings.Join(ss, "; ")
}

type siteGen struct {
	p   *Prog
	h   *Hier
	pkg *types.Package
	r   *vh.Rng
	rep *vh.Report
}

func (g *siteGen) add(kind, desc, body string, phase int) {
	g.p.Sites = append(g.p.Sites, Site{ID: len(g.p.Sites), Kind: kind, Desc: desc, Body: body, Phase: phase})
}

// printable projection of a field value of type ft reached by expression e
func fieldUse(h *Hier, e string, ft types.Type) string {
	ptr := false
	if p, ok := ft.(*types.Pointer); ok {
		ft = p.Elem()
		ptr = true
	}
	if b, ok := ft.(*types.Basic); ok && b.Kind() == types.Int {
		return e
	}
	n, ok := ft.(*types.Named)
	if !ok {
		return e
	}
	switch n.Underlying().(type) {
	case *types.Struct:
		return e + ".U" + n.Obj().Name()[1:]
	case *types.Interface:
		return e + " != nil"
	default:
		if ptr {
			return "int(*" + e + ")"
		}
		return "int(" + e + ")"
	}
}

func (g *siteGen) qnames() []string {
	var out []string
	out = append(out, methNames...)
	for k, td := range g.h.Types {
		out = append(out, td.Name)
		if td.Kind == KStruct {
			out = append(out, g.h.tagName(k))
		}
	}
	return out
}

func (g *siteGen) selectorSites() {
	r := g.r
	hasLate := len(g.p.Late) > 0
	for k, td := range g.h.Types {
		if td.Kind == KIface {
			continue
		}
		T := named(g.pkg, td.Name)
		deep := g.h.Shape == "deep"
		for _, name := range g.qnames() {
			lr := goLookup(g.pkg, T, name)
			depth := len(lr.index) - 1
			var prob int // out of 100
			switch {
			case deep && (k > 2 || depth < 4) && lr.cls != "ambiguous":
				// towers: the sites concentrate on names found >= 4 levels below the three top types
				prob = 2
			case deep && lr.cls == "ambiguous":
				prob = 6
			case lr.cls == "ambiguous":
				prob = 60
			case lr.cls == "none":
				prob = 4
			case depth >= 1:
				prob = 70
			default:
				prob = 25
			}
			if r.Intn(100) >= prob {
				continue
			}
			v, pv := "v"+td.Name, "p"+td.Name
			desc := func(form string) string { return fmt.Sprintf("%s %s.%s [%s]", form, td.Name, name, lr.cls) }
			switch lr.cls {
			case "field":
				ft := lr.obj.Type()
				recv := v
				form := "selv"
				if r.Chance(1, 3) {
					recv, form = pv, "selp"
				}
				g.add(form, desc(form), ret(nil, []string{fieldUse(g.h, recv+"."+name, ft)}), 1)
				if b, ok := ft.(*types.Basic); ok && b.Kind() == types.Int && depth >= 1 && r.Chance(1, 2) {
					// assignment through the promoted name, read back through the explicit path (and restored)
					full := recv + "." + strings.Join(pathNames(T, lr.index), ".")
					g.add("selset", desc("selset"), ret([]string{"old := " + full, recv + "." + name + " = 4242", "got := " + full, recv + "." + name + " = old"},
						[]string{"got", recv + "." + name}), 1)
				}
			case "method":
				fn := lr.obj.(*types.Func)
				forms := []string{"selv", "selp", "mval", "mvalp"}
				if td.Kind == KBasic && declaredPtrRecv(fn) {
					// known finding: a pointer-receiver method called on an addressable variable of a named non-struct type panics
					forms = []string{"selp", "mvalp"}
				}
				// known finding: a method expression is typed after the receiver of the DECLARED method
				// ((*T).m with value-receiver m gets func(T); T.m with a pointer-receiver m promoted through an embedded pointer gets func(*T))
				if inMethodSet(T, name, g.pkg) && !declaredPtrRecv(fn) {
					forms = append(forms, "mexprT") // T.m is valid Go only if m is in the method set of T
				}
				if declaredPtrRecv(fn) {
					forms = append(forms, "mexprP")
				}
				form := forms[r.Intn(len(forms))]
				var st, val string
				var pre string
				switch form {
				case "selv":
					st, val = callParts(v+"."+name, name, "")
				case "selp":
					st, val = callParts(pv+"."+name, name, "")
				case "mval":
					pre = "f := " + v + "." + name
					st, val = callParts("f", name, "")
				case "mvalp":
					pre = "f := " + pv + "." + name
					st, val = callParts("f", name, "")
				case "mexprT":
					pre = "f := " + td.Name + "." + name
					st, val = callParts("f", name, v)
				case "mexprP":
					pre = "f := (*" + td.Name + ")." + name
					st, val = callParts("f", name, pv)
				}
				g.add(form, desc(form), ret([]string{pre, st}, []string{val}), 1)
				if hasLate && r.Chance(1, 3) {
					// warm-up: the same selector compiled before the late methods exist (fills the lookup caches)
					g.add("warm", desc("warm"), ret([]string{pre, st}, []string{val}), 0)
				}
			default:
				g.add("selbad", desc("selbad"), ret(nil, []string{v + "." + name}), 1)
				if hasLate && lr.cls == "ambiguous" && r.Chance(1, 2) {
					st, val := callParts(v+"."+name, name, "")
					g.add("warm", desc("warm"), ret([]string{st}, []string{val}), 0)
				}
			}
		}
	}
}

type ifaceRef struct {
	expr    string // Go type expression
	methods []string
	std     bool
}

func (g *siteGen) ifaces() []ifaceRef {
	out := []ifaceRef{
		{"fmt.Stringer", []string{"String"}, true},
		{"error", []string{"Error"}, true},
		{"sort.Interface", []string{"Len", "Less", "Swap"}, true},
	}
	for _, td := range g.h.Types {
		if td.Kind == KIface {
			var ms []string
			for _, m := range td.Methods {
				ms = append(ms, m.Name)
			}
			out = append(out, ifaceRef{td.Name, ms, false})
		}
	}
	return out
}

func (g *siteGen) ifaceType(ir ifaceRef) types.Type {
	switch ir.expr {
	case "error":
		return types.Universe.Lookup("error").Type()
	case "fmt.Stringer", "sort.Interface":
		for _, im := range g.pkg.Imports() {
			if im.Name() == strings.Split(ir.expr, ".")[0] {
				return im.Scope().Lookup(strings.Split(ir.expr, ".")[1]).Type()
			}
		}
		panic("import not found " + ir.expr)
	}
	return named(g.pkg, ir.expr)
}

type srcRef struct {
	expr string
	typ  types.Type
	tdef int
	ptr  bool
}

func (g *siteGen) sources() []srcRef {
	var out []srcRef
	for k, td := range g.h.Types {
		if td.Kind == KIface {
			continue
		}
		T := named(g.pkg, td.Name)
		out = append(out, srcRef{"v" + td.Name, T, k, false}, srcRef{"p" + td.Name, types.NewPointer(T), k, true})
	}
	return out
}

func (g *siteGen) ifaceSites() {
	r := g.r
	for _, ifc := range g.ifaces() {
		it := g.ifaceType(ifc)
		for _, s := range g.sources() {
			ok := types.AssignableTo(s.typ, it)
			prob := 12
			if ok {
				prob = 45
			}
			if r.Intn(100) >= prob {
				continue
			}
			if ifc.std && g.h.touchesRecursive(s.tdef) {
				continue // documented limitation: recursive types are emulated (xreflect.Forward) and do not convert to compiled interfaces
			}
			var stmts, vals []string
			stmts = append(stmts, fmt.Sprintf("var i %s = %s", ifc.expr, s.expr))
			for _, m := range ifc.methods {
				st, val := callParts("i."+m, m, "")
				stmts = append(stmts, st)
				vals = append(vals, val)
			}
			// a Swap statement must precede reading trace: evaluate in order
			desc := fmt.Sprintf("assign %s = %s [%v]", ifc.expr, s.expr, ok)
			g.add("assign", desc, ret(stmts, vals), 1)
		}
	}
}

// candidate dynamic values for a tag of static type `tag` ("interface{}" or an interface)
func (g *siteGen) dynValues(tagExpr string, tagType types.Type) []string {
	var out []string
	for _, s := range g.sources() {
		if tagType == nil || types.AssignableTo(s.typ, tagType) {
			out = append(out, s.expr)
		}
	}
	out = append(out, "nil")
	if tagType == nil {
		out = append(out, "7", "\"s\"")
	}
	return out
}

func (g *siteGen) tags() (exprs []string, typs []types.Type, stds []bool) {
	exprs, typs, stds = []string{"interface{}"}, []types.Type{nil}, []bool{false}
	for _, ifc := range g.ifaces() {
		if ifc.expr == "sort.Interface" || ifc.expr == "error" {
			continue
		}
		exprs = append(exprs, ifc.expr)
		typs = append(typs, g.ifaceType(ifc))
		stds = append(stds, ifc.std)
	}
	return
}

type caseType struct {
	expr string
	typ  types.Type // nil for the nil case
	tag  string     // tag field usable on a bound variable ("" if none)
}

func (g *siteGen) caseTypes() []caseType {
	out := []caseType{{"nil", nil, ""}, {"int", types.Typ[types.Int], ""}, {"string", types.Typ[types.String], ""}}
	for k, td := range g.h.Types {
		if td.Kind == KIface {
			continue
		}
		T := named(g.pkg, td.Name)
		tag := ""
		if td.Kind == KStruct {
			tag = g.h.tagName(k)
		}
		out = append(out, caseType{td.Name, T, tag}, caseType{"*" + td.Name, types.NewPointer(T), ""})
	}
	return out
}

func (g *siteGen) possible(ct caseType, tagType types.Type) bool {
	if ct.typ == nil || tagType == nil {
		return true
	}
	return types.AssignableTo(ct.typ, tagType)
}

func (g *siteGen) dynOK(dyn string, std bool) bool {
	if !std || dyn == "nil" {
		return true
	}
	for _, s := range g.sources() {
		if s.expr == dyn {
			return !g.h.touchesRecursive(s.tdef)
		}
	}
	return true
}

func (g *siteGen) assertSites(n int) {
	r := g.r
	texprs, ttyps, tstd := g.tags()
	cts := g.caseTypes()[3:]
	for i := 0; i < n; i++ {
		ti := r.Intn(len(texprs))
		if r.Chance(1, 2) {
			ti = 0
		}
		dyns := g.dynValues(texprs[ti], ttyps[ti])
		dyn := dyns[r.Intn(len(dyns))]
		if !g.dynOK(dyn, tstd[ti]) {
			continue
		}
		ct := cts[r.Intn(len(cts))]
		if !g.possible(ct, ttyps[ti]) && !r.Chance(1, 5) {
			continue
		}
		// prefer the matching target half of the time
		if r.Chance(1, 2) {
			for _, c := range cts {
				if (dyn == "v"+c.expr) || (strings.HasPrefix(c.expr, "*") && dyn == "p"+c.expr[1:]) {
					if g.possible(c, ttyps[ti]) {
						ct = c
					}
				}
			}
		}
		decl := fmt.Sprintf("var e %s = %s", texprs[ti], dyn)
		desc := fmt.Sprintf("assert %s(%s).(%s)", texprs[ti], dyn, ct.expr)
		var use string
		switch {
		case ct.tag != "":
			use = "x." + ct.tag
		case strings.HasPrefix(ct.expr, "*"):
			use = "x != nil"
		default:
			use = "int(x)"
		}
		if r.Chance(2, 3) {
			g.add("assert2", desc+" commaok", ret([]string{decl, "x, ok := e.(" + ct.expr + ")"}, []string{"ok", use}), 1)
		} else {
			g.add("assert1", desc, ret([]string{decl, "x := e.(" + ct.expr + ")"}, []string{use}), 1)
		}
	}
}

func (g *siteGen) switchSites(n int) {
	r := g.r
	texprs, ttyps, tstd := g.tags()
	all := g.caseTypes()
	for i := 0; i < n; i++ {
		ti := r.Intn(len(texprs))
		if r.Chance(1, 2) {
			ti = 0
		}
		dyns := g.dynValues(texprs[ti], ttyps[ti])
		dyn := dyns[r.Intn(len(dyns))]
		if !g.dynOK(dyn, tstd[ti]) {
			continue
		}
		// candidate case types: possible ones (an impossible one rarely: both must reject)
		var cand []caseType
		for _, c := range all {
			if g.possible(c, ttyps[ti]) || r.Chance(1, 40) {
				cand = append(cand, c)
			}
		}
		for j := len(cand) - 1; j > 0; j-- {
			k := r.Intn(j + 1)
			cand[j], cand[k] = cand[k], cand[j]
		}
		nclause := 1 + r.Intn(4)
		defAt := -1
		if r.Chance(2, 3) {
			defAt = r.Intn(nclause + 1)
		}
		var clauses []string
		usesX := false
		ci := 0
		pos := 0
		for c := 0; c < nclause; c++ {
			if defAt == c {
				clauses = append(clauses, fmt.Sprintf("default: return \"d%d\"", pos))
				pos++
			}
			nt := 1
			if r.Chance(1, 3) {
				nt = 2 + r.Intn(2)
			}
			var ts []caseType
			for ; nt > 0 && ci < len(cand); nt-- {
				ts = append(ts, cand[ci])
				ci++
			}
			if len(ts) == 0 {
				break
			}
			var names []string
			for _, t := range ts {
				names = append(names, t.expr)
			}
			body := fmt.Sprintf("return \"c%d\"", pos)
			if len(ts) == 1 && ts[0].tag != "" && r.Chance(2, 3) && ti == 0 { // known finding: a bound variable of a non-empty interface type panics in default / multi-type clauses
				body = fmt.Sprintf("return fmt.Sprint(\"c%d:\", x.%s)", pos, ts[0].tag)
				usesX = true
			}
			clauses = append(clauses, fmt.Sprintf("case %s: %s", strings.Join(names, ", "), body))
			pos++
		}
		if defAt >= nclause || (defAt >= 0 && defAt >= len(clauses)) {
			clauses = append(clauses, fmt.Sprintf("default: return \"d%d\"", pos))
		}
		head := "switch e.(type)"
		if usesX {
			head = "switch x := e.(type)"
		}
		body := fmt.Sprintf("\tvar e %s = %s\n\t%s {\n\t%s\n\t}\n\treturn \"none\"", texprs[ti], dyn, head, strings.Join(clauses, "\n\t"))
		desc := fmt.Sprintf("switch %s(%s) {%s}", texprs[ti], dyn, strings.Join(clauses, " "))
		g.add("switch", desc, body, 1)
	}
}

// ---------- gomacro side ----------
type gmResult struct {
	compiled bool
	out      string
	err      string
}

func short(x interface{}) string {
	s := fmt.Sprint(x)
	if len(s) > 300 {
		s = s[:300]
	}
	return s
}

func evalStr(ir *fast.Interp, src string) (res string, perr interface{}) {
	perr = vh.Catch(func() {
		vals, _ := ir.Eval(src)
		if len(vals) > 0 {
			res = fmt.Sprint(vals[0].ReflectValue().Interface())
		}
	})
	return
}

type obsOp struct {
	coqOp, coqOut string
}

type runner struct {
	rep  *vh.Report
	wd   *vh.Watchdog
	seed uint64
}

func (rn *runner) key(p *Prog, s *Site) string {
	if s != nil && s.Key != "" {
		return s.Key
	}
	if s == nil {
		return fmt.Sprintf("seed%d/%s/decl", rn.seed, p.Name)
	}
	return fmt.Sprintf("seed%d/%s/%s", rn.seed, p.Name, s.Desc)
}

// names table for the Coq encoding
type nameTab struct {
	ids map[string]int
}

func (nt *nameTab) id(s string) int {
	if v, ok := nt.ids[s]; ok {
		return v
	}
	v := len(nt.ids)
	nt.ids[s] = v
	return v
}

func coqPath(p []int) string {
	if len(p) == 0 {
		return "(@nil Z)"
	}
	var ss []string
	for _, x := range p {
		ss = append(ss, fmt.Sprint(x))
	}
	return "[" + strings.Join(ss, ";") + "]%Z"
}

func (h *Hier) coqEnv(nt *nameTab) string {
	var ts []string
	for _, td := range h.Types {
		var kind string
		switch td.Kind {
		case KBasic:
			kind = "KBasic"
		case KIface:
			kind = "KIface"
		default:
			var fs []string
			for _, f := range td.Fields {
				var ft string
				switch f.Kind {
				case FInt:
					ft = "FInt"
				case FVal:
					ft = fmt.Sprintf("(FVal %d)", f.Ref)
				case FPtr:
					ft = fmt.Sprintf("(FPtr %d)", f.Ref)
				}
				fs = append(fs, fmt.Sprintf("mkField %d%%N %s", nt.id(f.Name), ft))
			}
			kind = "(KStruct " + vh.CoqList(fs, "field") + ")"
		}
		var ms []string
		for _, m := range td.Methods {
			if !m.Late {
				ms = append(ms, fmt.Sprintf("(%d%%N, %s)", nt.id(m.Name), vh.CoqBool(m.Ptr)))
			}
		}
		ts = append(ts, fmt.Sprintf("mkT %d%%N %s %s", nt.id(td.Name), kind, vh.CoqList(ms, "(N * bool)")))
	}
	return vh.CoqList(ts, "tdef")
}

// observe the three lookups on type k / name, twice (second = cache hit); the two must agree (direct oracle)
func (rn *runner) observe(ir *fast.Interp, p *Prog, pkg *types.Package, k int, name string, nt *nameTab, ops *[]obsOp, afterLate bool) {
	td := p.Hier.Types[k]
	t := ir.Comp.TryResolveType(td.Name)
	if t == nil {
		rn.rep.Fail(vh.Failure{Key: rn.key(p, nil), What: "type not declared in gomacro: " + td.Name, Input: p})
		return
	}
	type obs struct {
		fc     int
		fi     []int
		mc     int
		mi     []int
		midx   int
		sel    string
		selP   []int
		selIdx int
	}
	get := func() (o obs, perr interface{}) {
		perr = vh.Catch(func() {
			f, fc := t.FieldByName(name, "main")
			o.fc, o.fi = fc, append([]int(nil), f.Index...)
			m, mc := t.MethodByName(name, "main")
			o.mc, o.mi, o.midx = mc, append([]int(nil), m.FieldIndex...), m.Index
			if t.Kind() == xr.Struct {
				f, fok, m, mok, err := ir.Comp.TryLookupFieldOrMethod(t, name)
				switch {
				case err != nil:
					o.sel = "ambiguous"
				case fok:
					o.sel, o.selP = "field", append([]int(nil), f.Index...)
				case mok:
					o.sel, o.selP, o.selIdx = "method", append([]int(nil), m.FieldIndex...), m.Index
				default:
					o.sel = "none"
				}
			}
		})
		return
	}
	o1, e1 := get()
	o2, e2 := get()
	in := map[string]interface{}{"prog": p, "type": td.Name, "name": name, "after_late": afterLate}
	if e1 != nil || e2 != nil {
		rn.rep.Fail(vh.Failure{Key: rn.key(p, nil) + "/lookup/" + td.Name + "." + name, What: "xreflect lookup panicked", Input: in, Got: short(e1) + short(e2)})
		return
	}
	if fmt.Sprint(o1) != fmt.Sprint(o2) {
		rn.rep.Fail(vh.Failure{Key: rn.key(p, nil) + "/cache/" + td.Name + "." + name, What: "cached lookup differs from the first (uncached) lookup", Input: in, Got: fmt.Sprint(o2), Want: fmt.Sprint(o1)})
	}
	// (S) go/types on the whole program only applies once every method is declared
	if t.Kind() == xr.Struct && (afterLate || len(p.Late) == 0) {
		lr := goLookup(pkg, named(pkg, td.Name), name)
		bad := lr.cls != o1.sel
		if !bad && lr.cls == "field" && fmt.Sprint(lr.index) != fmt.Sprint(o1.selP) {
			bad = true
		}
		if !bad && lr.cls == "method" && fmt.Sprint(lr.index[:len(lr.index)-1]) != fmt.Sprint(o1.selP) {
			bad = true
		}
		if bad {
			rn.rep.Fail(vh.Failure{Key: rn.key(p, nil) + "/sel/" + td.Name + "." + name, What: "TryLookupFieldOrMethod differs from go/types.LookupFieldOrMethod", Input: in,
				Got: fmt.Sprint(o1.sel, o1.selP), Want: fmt.Sprint(lr.cls, lr.index)})
		}
		rn.rep.Count(fmt.Sprint(p.Hier, td.Name, name), lr.cls == "ambiguous" || len(lr.index) > 1)
		rn.rep.Dist("lookup:" + lr.cls)
		if len(lr.index) > 1 {
			rn.rep.Dist(fmt.Sprintf("lookup_depth:%d", len(lr.index)-1))
		}
	}
	nid := nt.id(name)
	*ops = append(*ops, obsOp{fmt.Sprintf("OLookF %d %d%%N", k, nid), fmt.Sprintf("RF %d %s", o1.fc, coqPath(o1.fi))})
	*ops = append(*ops, obsOp{fmt.Sprintf("OLookM %d %d%%N", k, nid), fmt.Sprintf("RM %d %s %s", o1.mc, coqPath(o1.mi), vh.CoqZ(int64(o1.midx)))})
	if t.Kind() == xr.Struct {
		var so string
		switch o1.sel {
		case "field":
			so = "SField " + coqPath(o1.selP)
		case "method":
			so = fmt.Sprintf("SMethod %s %s", coqPath(o1.selP), vh.CoqZ(int64(o1.selIdx)))
		case "ambiguous":
			so = "SAmbig"
		default:
			so = "SNone"
		}
		*ops = append(*ops, obsOp{fmt.Sprintf("OSel %d %d%%N", k, nid), "RS (" + so + ")"})
	}
}

func (rn *runner) runProg(p *Prog, ck *checked, results map[int]*gmResult, r *vh.Rng) (coqCase string, ok bool) {
	rep := rn.rep
	ir := fast.New()
	ir.Comp.Globals.Stdout = io.Discard
	ir.Comp.Globals.Stderr = io.Discard
	declFail := func(src string, e interface{}) {
		rep.Fail(vh.Failure{Key: rn.key(p, nil), What: "gomacro rejects a declaration accepted by go/types", Input: map[string]interface{}{"prog": p, "decl": src}, Got: short(e)})
	}
	rn.wd.Beat(p.Name)
	imports := "\"fmt\"; \"sort\"; \"strconv\""
	for _, im := range p.Imports {
		imports += fmt.Sprintf("; %q", im)
	}
	if _, e := evalStr(ir, "import ("+imports+")"); e != nil {
		declFail("import", e)
		return "", false
	}
	if _, e := evalStr(ir, strings.Join(p.Types, "\n")); e != nil {
		declFail(strings.Join(p.Types, "\n"), e)
		return "", false
	}
	for _, d := range append(append([]string{}, p.Decls...), p.Vars...) {
		if _, e := evalStr(ir, d); e != nil {
			declFail(d, e)
			return "", false
		}
	}
	runSite := func(s *Site) {
		rn.wd.Beat(map[string]interface{}{"prog": p, "site": s})
		res := &gmResult{}
		_, e := evalStr(ir, fmt.Sprintf("func S%d() string {\n%s\n}", s.ID, s.Body))
		if e != nil {
			res.err = short(e)
		} else {
			res.compiled = true
			out, e2 := evalStr(ir, fmt.Sprintf("S%d()", s.ID))
			if e2 != nil {
				res.out = "panic"
				res.err = short(e2)
			} else {
				res.out = out
			}
		}
		results[s.ID] = res
	}
	for i := range p.Sites {
		if p.Sites[i].Phase == 0 {
			runSite(&p.Sites[i])
		}
	}
	nt := &nameTab{ids: map[string]int{}}
	var ops []obsOp
	var env string
	var qn []string
	if p.Hier != nil {
		env = p.Hier.coqEnv(nt)
		g := &siteGen{h: p.Hier}
		qn = g.qnames()
		if len(p.Late) > 0 {
			// warm-up lookups on a sample of names before the late methods exist
			for k, td := range p.Hier.Types {
				if td.Kind == KIface {
					continue
				}
				for _, name := range qn {
					if r.Chance(1, 3) {
						rn.observe(ir, p, ck.pkg, k, name, nt, &ops, false)
					}
				}
			}
		}
	}
	for _, d := range p.Late {
		if _, e := evalStr(ir, d); e != nil {
			declFail(d, e)
			return "", false
		}
	}
	if p.Hier != nil {
		for k, td := range p.Hier.Types {
			for _, m := range td.Methods {
				if m.Late && td.Kind != KIface {
					ops = append(ops, obsOp{fmt.Sprintf("OAddM %d %d%%N %s", k, nt.id(m.Name), vh.CoqBool(m.Ptr)), "RUnit"})
				}
			}
		}
		for k, td := range p.Hier.Types {
			if td.Kind == KIface {
				continue
			}
			for _, name := range qn {
				if (p.Hier.Shape == "deep" || p.Hier.Shape == "diamond") && k > 2 && !r.Chance(1, 6) {
					continue // towers: every name on the three top types (deepest paths), a sample elsewhere
				}
				rn.observe(ir, p, ck.pkg, k, name, nt, &ops, true)
			}
		}
	}
	for i := range p.Sites {
		if p.Sites[i].Phase != 0 {
			runSite(&p.Sites[i])
		}
	}
	if p.Hier == nil {
		return "", true
	}
	var cops, couts []string
	for _, o := range ops {
		cops = append(cops, o.coqOp)
		couts = append(couts, o.coqOut)
	}
	return fmt.Sprintf("%s\n  %s\n  %s", env, vh.CoqList(cops, "op"), vh.CoqList(couts, "out")), true
}

// ---------- compiled-Go oracle ----------
func buildOracle(dir string, progs []*Prog, accepted map[string]map[int]bool) (map[string]map[int]string, error) {
	os.RemoveAll(dir)
	if err := os.MkdirAll(dir, 0o755); err != nil {
		return nil, err
	}
	os.WriteFile(filepath.Join(dir, "go.mod"), []byte("module oracle\n\ngo 1.18\n"), 0o644)
	var main bytes.Buffer
	main.WriteString("package main\n\nimport (\n\t\"fmt\"\n\t\"sort\"\n")
	for _, p := range progs {
		fmt.Fprintf(&main, "\t%s \"oracle/%s\"\n", p.Name, p.Name)
	}
	main.WriteString(")\n\nfunc call(f func() string) (s string) {\n\tdefer func() {\n\t\tif recover() != nil {\n\t\t\ts = \"panic\"\n\t\t}\n\t}()\n\treturn f()\n}\n\n")
	main.WriteString("func run(name string, sites map[int]func() string) {\n\tvar ids []int\n\tfor id := range sites {\n\t\tids = append(ids, id)\n\t}\n\tsort.Ints(ids)\n\tfor _, id := range ids {\n\t\tfmt.Printf(\"%s %d %q\\n\", name, id, call(sites[id]))\n\t}\n}\n\nfunc main() {\n")
	for _, p := range progs {
		os.MkdirAll(filepath.Join(dir, p.Name), 0o755)
		if err := os.WriteFile(filepath.Join(dir, p.Name, "p.go"), []byte(p.goSource(p.Name, accepted[p.Name])), 0o644); err != nil {
			return nil, err
		}
		fmt.Fprintf(&main, "\trun(%q, %s.Sites)\n", p.Name, p.Name)
	}
	main.WriteString("}\n")
	os.WriteFile(filepath.Join(dir, "main.go"), main.Bytes(), 0o644)
	cmd := exec.Command("go", "build", "-o", "oracle.bin", ".")
	cmd.Dir = dir
	cmd.Env = append(os.Environ(), "GOFLAGS=-mod=mod", "GOPROXY=off", "GOSUMDB=off", "GOTOOLCHAIN=local", "GOWORK=off")
	if out, err := cmd.CombinedOutput(); err != nil {
		return nil, fmt.Errorf("go build of the oracle module failed: %v\n%s", err, out)
	}
	run := exec.Command(filepath.Join(dir, "oracle.bin"))
	out, err := run.Output()
	if err != nil {
		return nil, fmt.Errorf("oracle run failed: %v", err)
	}
	res := map[string]map[int]string{}
	for _, line := range strings.Split(string(out), "\n") {
		var name, val string
		var id int
		if n, _ := fmt.Sscanf(line, "%s %d %q", &name, &id, &val); n == 3 {
			if res[name] == nil {
				res[name] = map[int]string{}
			}
			res[name][id] = val
		}
	}
	return res, nil
}

func main() {
	a := vh.ParseArgs()
	rng := vh.NewRng(a.Seed)
	rep := vh.NewReport(a, "part 0: corpus/C09/*.json (exact programs of past findings) run first; part 1: PRNG type hierarchies of 3..7 named types "+
		"(structs with a unique tag field, int fields X/Y/Z, 0..3 embedded fields by value (acyclic) or by pointer (cycles and self reference allowed), "+
		"named int types, interpreted interfaces; 0..4 methods per type from {X,Y,Z,M,N,String,Error,Len,Less,Swap} with value or pointer receiver, 1/6 of them "+
		"declared late = after warm-up lookups), each in a fresh interpreter; sites: selectors v.f / p.f / v.m() / p.m(), method values, method expressions T.m and (*T).m, "+
		"assignments of values and pointers to interpreted interfaces and to fmt.Stringer / error / sort.Interface, type assertions (single and comma-ok), type switches "+
		"(nil, default anywhere, several types per case); avoided classes: documented limitations (interface-to-interface assertions, recursive types converted to compiled interfaces), "+
		"invalid programs that gomacro accepts (pointer method on non-addressable value, T.m with pointer-receiver m: observation only), known findings "+
		"(named types of identical struct layout: every struct has a unique tag field; (*T).m with value-receiver m). "+
		"part 2: towers = 6..9 backbone structs each embedding the next (by value or pointer) next to 1..3 sibling structs (a third of them with an embedded child), names from the same small pools, values built completely: "+
		"lookups of every name on the three top types (paths up to 9 levels) and a sample elsewhere, selector sites on names found >= 4 levels deep, assignment through a promoted field read back through the explicit path (selset, all hierarchies); "+
		"part 2b: diamonds = a core struct (with a sub-core) reached from the top type through two different embedded fields at the same depth 2..4 (value or pointer embedding; every name of the core is ambiguous unless shadowed), a skewed type reaching the core at two depths and a lop-sided one (right chain one level longer): all names looked up on the three top types, selector sites as for towers; "+
		"part 3: twin types = 2..3 named types per kind (struct with value or pointer receivers, slice, map, func, chan, array, int16, string) sharing one underlying type and all implementing Sh/error/fmt.Stringer: "+
		"comma-ok and single-value assertions, classification through an interface parameter and type switches between twins (same reflect.Type, different identity), nil values included, tags Sh (interpreted), error, fmt.Stringer; "+
		"classes gated on known_findings.json (generated once registered as fixed): comma-ok between basic-kind twins, basic-kind argument to an interface parameter. "+
		"part 4: type switches over COMPILED concrete types (time.Duration/Month/Weekday/Time, *time.Location, os.FileMode, *os.PathError/LinkError/SyscallError, *strconv.NumError, *bytes.Buffer, *strings.Builder/Reader, int, string, float64, []int ...) and the COMPILED interfaces they implement "+
		"(fmt.Stringer, error, io.Writer/Reader/ByteReader/StringWriter, interface{}): tag interface{} or an implemented interface, 3..7 clauses in random order (own type, implemented interfaces, other types and interfaces, several types per clause, nil, default anywhere), bound variable half of the time, typed nil pointers and nil values; "+
		"One evaluation = one site (compile + run, compared with go/types accept/reject and the compiled-Go output) or one (type,name) lookup triple compared with go/types.LookupFieldOrMethod; "+
		"non-trivial = the name is found at depth >= 1 or is ambiguous, or the site is an interface/assertion/switch site; distinct by SHA-256 of hierarchy+site")
	rn := &runner{rep: rep, seed: a.Seed}
	// status of the C09 entries of known_findings.json (gates the pending corpus programs and the classes of twinOpts)
	status := map[string]string{}
	if dir := os.Getenv("VERIF_DIR"); dir != "" {
		if b, err := os.ReadFile(filepath.Join(dir, "known_findings.json")); err == nil {
			var kf struct {
				Findings []struct{ Property, Status, Key string } `json:"findings"`
			}
			if json.Unmarshal(b, &kf) == nil {
				for _, f := range kf.Findings {
					if f.Property == "C09" {
						status[f.Key] = f.Status
					}
				}
			}
		}
	}
	topts := twinOpts{BasicCommaOk: status["corpus:commaok-assert-basic-kind-twins"] == "fixed", BasicIfaceArg: status["corpus:basic-kind-arg-to-interface-param"] == "fixed"}
	rep.Extra["twin_classes_enabled"] = fmt.Sprintf("%+v", topts)

	var progs []*Prog
	// part 0: corpus
	nCorpus := 0
	if dir := os.Getenv("VERIF_DIR"); dir != "" {
		files, _ := filepath.Glob(filepath.Join(dir, "corpus", "C09", "*.json"))
		sort.Strings(files)
		for _, f := range files {
			var p Prog
			b, err := os.ReadFile(f)
			if err != nil || json.Unmarshal(b, &p) != nil {
				fmt.Fprintln(os.Stderr, "bad corpus file", f)
				os.Exit(2)
			}
			p.Name = fmt.Sprintf("c%03d", nCorpus)
			for i := range p.Sites {
				p.Sites[i].ID = i
			}
			progs = append(progs, &p)
			nCorpus++
		}
	}
	if a.Replay != "" {
		// replay of one recorded failure: {"failure": {"input": {types, decls, late, vars, site}}}
		var rp struct {
			Failure struct {
				Input struct {
					Types, Decls, Late, Vars []string
					Imports                  []string
					Site                     Site
				} `json:"input"`
			} `json:"failure"`
		}
		b, err := os.ReadFile(a.Replay)
		if err != nil || json.Unmarshal(b, &rp) != nil || len(rp.Failure.Input.Types) == 0 {
			fmt.Fprintln(os.Stderr, "bad replay file", a.Replay)
			os.Exit(2)
		}
		in := rp.Failure.Input
		in.Site.ID = 0
		in.Site.Phase = 1
		progs = []*Prog{{Name: "r000", Types: in.Types, Decls: in.Decls, Late: in.Late, Vars: in.Vars, Imports: in.Imports, Sites: []Site{in.Site}}}
		nCorpus = 1
	}
	nH := 40
	if a.Replay != "" {
		nH = 0
	}
	if a.Thorough() {
		nH = 700
	}
	if a.N > 0 && a.Replay == "" {
		nH = a.N
	}
	var checks []*checked
	for i := 0; i < nCorpus; i++ {
		checks = append(checks, nil)
	}
	for i := 0; i < nH; i++ {
		r := rng.Fork()
		h := genHier(r)
		p := h.prog(fmt.Sprintf("h%04d", i))
		ck := typecheck(p, false)
		if len(ck.declErrs) > 0 || len(ck.siteErrs) > 0 {
			fmt.Fprintf(os.Stderr, "generator bug: declarations of %s do not type-check: %v\n%s\n", p.Name, ck.declErrs, p.goSource("h", map[int]bool{}))
			os.Exit(2)
		}
		g := &siteGen{p: p, h: h, pkg: ck.pkg, r: r, rep: rep}
		if h.anyRecursive() {
			rep.Dist("hierarchy:recursive(lookups only)")
		} else {
			rep.Dist("hierarchy:non-recursive")
			g.selectorSites()
			g.ifaceSites()
			g.assertSites(8)
			g.switchSites(6)
		}
		progs = append(progs, p)
		checks = append(checks, nil)
	}
	// part 2: towers (embedding 6..9 levels deep, siblings at every level); part 3: twin types
	nDeep, nTwin := 6, 6
	if a.Thorough() {
		nDeep, nTwin = 80, 80
	}
	if a.Replay != "" {
		nDeep, nTwin = 0, 0
	}
	for i := 0; i < nDeep; i++ {
		r := rng.Fork()
		h := genDeepHier(r)
		p := h.prog(fmt.Sprintf("d%04d", i))
		ck := typecheck(p, false)
		if len(ck.declErrs) > 0 || len(ck.siteErrs) > 0 {
			fmt.Fprintf(os.Stderr, "generator bug: declarations of %s do not type-check: %v\n%s\n", p.Name, ck.declErrs, p.goSource("h", map[int]bool{}))
			os.Exit(2)
		}
		g := &siteGen{p: p, h: h, pkg: ck.pkg, r: r, rep: rep}
		rep.Dist("hierarchy:tower")
		g.selectorSites()
		g.ifaceSites()
		progs = append(progs, p)
		checks = append(checks, nil)
	}
	// part 2b: diamonds (one type reached through two embedded fields at equal depth 2..4)
	nDia := 6
	if a.Thorough() {
		nDia = 80
	}
	if a.Replay != "" {
		nDia = 0
	}
	for i := 0; i < nDia; i++ {
		r := rng.Fork()
		h := genDiamondHier(r)
		p := h.prog(fmt.Sprintf("m%04d", i))
		ck := typecheck(p, false)
		if len(ck.declErrs) > 0 || len(ck.siteErrs) > 0 {
			fmt.Fprintf(os.Stderr, "generator bug: declarations of %s do not type-check: %v\n%s\n", p.Name, ck.declErrs, p.goSource("h", map[int]bool{}))
			os.Exit(2)
		}
		g := &siteGen{p: p, h: h, pkg: ck.pkg, r: r, rep: rep}
		rep.Dist("hierarchy:diamond")
		g.selectorSites()
		g.ifaceSites()
		progs = append(progs, p)
		checks = append(checks, nil)
	}
	for i := 0; i < nTwin; i++ {
		p := genTwinProg(rng.Fork(), fmt.Sprintf("t%04d", i), topts)
		ck := typecheck(p, false)
		if len(ck.declErrs) > 0 {
			fmt.Fprintf(os.Stderr, "generator bug: declarations of %s do not type-check: %v\n%s\n", p.Name, ck.declErrs, p.goSource("h", map[int]bool{}))
			os.Exit(2)
		}
		rep.Dist("program:twin-types")
		progs = append(progs, p)
		checks = append(checks, nil)
	}
	// part 4: type switches over compiled concrete types and the compiled interfaces they implement (stdcases.go); own PRNG stream
	nStd, nStdSites := 3, 120
	if a.Thorough() {
		nStd = 40
	}
	if a.Replay != "" {
		nStd = 0
	}
	srng := vh.NewRng(a.Seed*7919 + 94)
	avoidNilMulti := nStd > 0 && stdNilMultiBroken()
	rep.Extra["defect_present:typeswitch-nil-multitype-clause-with-interface"] = avoidNilMulti
	for i := 0; i < nStd; i++ {
		p := genStdCaseProg(srng.Fork(), fmt.Sprintf("s%04d", i), nStdSites, avoidNilMulti)
		ck := typecheck(p, false)
		if len(ck.declErrs) > 0 {
			fmt.Fprintf(os.Stderr, "generator bug: declarations of %s do not type-check: %v\n%s\n", p.Name, ck.declErrs, p.goSource("h", map[int]bool{}))
			os.Exit(2)
		}
		rep.Dist("program:std-switch")
		progs = append(progs, p)
		checks = append(checks, nil)
	}
	if pf, err := os.Create(a.Path("progs.jsonl")); err == nil {
		for _, p := range progs {
			b, _ := json.Marshal(p)
			pf.Write(append(b, '\n'))
		}
		pf.Close()
	}
	// go/types decision for every site
	accepted := map[string]map[int]bool{}
	for i, p := range progs {
		ck := typecheck(p, true)
		if len(ck.declErrs) > 0 {
			fmt.Fprintf(os.Stderr, "declarations of %s do not type-check: %v\n", p.Name, ck.declErrs)
			os.Exit(2)
		}
		checks[i] = ck
		acc := map[int]bool{}
		for _, s := range p.Sites {
			if len(ck.siteErrs[s.ID]) == 0 {
				acc[s.ID] = true
			}
		}
		accepted[p.Name] = acc
	}
	// compiled oracle (batched)
	oracle, err := buildOracle(a.Path("oracle"), progs, accepted)
	if err != nil {
		fmt.Fprintln(os.Stderr, err)
		os.Exit(2)
	}
	// gomacro (the watchdog starts only now: the oracle build time depends on the machine load)
	rn.wd = vh.NewWatchdog(rep, 10*time.Minute) // generous: a fast.New() + compile under heavy machine load can take minutes
	cw := vh.NewCases(a, "From Coq Require Import List NArith ZArith Bool.\nFrom Verif Require Import C09.Model.\nImport ListNotations.\nOpen Scope Z_scope.", "case", "mismatches", 9)
	idx := 0
	for i, p := range progs {
		ck := checks[i]
		results := map[int]*gmResult{}
		cc, ok := rn.runProg(p, ck, results, rng.Fork())
		if !ok {
			continue
		}
		if cc != "" {
			// correspondence volume: every program in the quick tier, 1 in 3 in the thorough tier (a case costs 2-7 s of coqc:
			// about 290 cases = 32 shards instead of 144; the direct oracles judge every site of every program in both tiers)
			if !a.Thorough() || idx%3 == 0 {
				cw.Add(fmt.Sprintf("mkCase %d %s", idx, cc))
				rep.CaseInput(idx, p.Hier)
			}
			idx++
		}
		hb, _ := json.Marshal(p.Hier)
		for si := range p.Sites {
			s := &p.Sites[si]
			res := results[s.ID]
			if res == nil || s.Phase == 0 {
				continue
			}
			goOK := accepted[p.Name][s.ID]
			in := map[string]interface{}{"prog": p.Name, "types": p.Types, "decls": p.Decls, "late": p.Late, "vars": p.Vars, "imports": p.Imports, "site": s}
			siteFail := func(f vh.Failure) {
				if p.Pending && status[f.Key] == "" {
					rep.Extra["proposed_finding_reproduced:"+f.Key] = true
					return
				}
				rep.Fail(f)
			}
			rep.Dist("site:" + s.Kind)
			nontriv := s.Kind != "selv" && s.Kind != "selp" || strings.Contains(s.Desc, "ambiguous") || (p.Hier != nil && p.Hier.Shape != "")
			rep.Count(string(hb)+s.Desc+s.Body, nontriv)
			switch {
			case goOK && !res.compiled:
				siteFail(vh.Failure{Key: rn.key(p, s), What: "gomacro rejects a site that go/types accepts", Input: in, Got: res.err, Want: oracle[p.Name][s.ID]})
				rep.Dist("outcome:go-accept/gomacro-reject")
			case !goOK && res.compiled:
				siteFail(vh.Failure{Key: rn.key(p, s), What: "gomacro accepts a site that go/types rejects", Input: in, Got: res.out, Want: ck.siteErrs[s.ID]})
				rep.Dist("outcome:go-reject/gomacro-accept")
			case !goOK:
				rep.Dist("outcome:both-reject")
			default:
				want, have := oracle[p.Name][s.ID]
				if !have {
					siteFail(vh.Failure{Key: rn.key(p, s), What: "no oracle output", Input: in})
				} else if want != res.out {
					siteFail(vh.Failure{Key: rn.key(p, s), What: "output differs from compiled Go", Input: in, Got: res.out + " " + res.err, Want: want})
					rep.Dist("outcome:differ")
				} else if want == "panic" {
					rep.Dist("outcome:both-panic")
				} else {
					rep.Dist("outcome:equal")
				}
			}
			if (idx+si)%53 == 7 {
				rep.Sample(map[string]interface{}{"site": s.Desc, "body": s.Body, "go": oracle[p.Name][s.ID], "gomacro": res.out})
			}
		}
		if p.Hier != nil {
			rep.Dist(fmt.Sprintf("types:%d", len(p.Hier.Types)))
			d := 0
			for k := range p.Hier.Types {
				if x := p.Hier.depthOf(k, map[int]bool{}); x > d {
					d = x
				}
			}
			rep.Dist(fmt.Sprintf("embedding_depth:%d", d))
		}
	}
	cw.Close()
	rep.Extra["corpus_programs"] = nCorpus
	rep.Extra["hierarchies"] = nH
	rep.Write()
}

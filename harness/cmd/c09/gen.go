// c09 generator: random type hierarchies (struct embedding by value and by pointer, named non-struct types,
// interpreted interfaces), their Go source, and selector / interface / assertion / type-switch sites.
package main

import (
	"fmt"
	"sort"
	"strings"

	"verifh/vh"
)

// ---------- hierarchy ----------
const (
	KStruct = 0
	KBasic  = 1 // type Tk int
	KIface  = 2 // type Tk interface{...}
)
const (
	FInt = 0 // plain int field
	FVal = 1 // embedded by value
	FPtr = 2 // embedded by pointer
)

type Field struct {
	Name string `json:"n"`
	Kind int    `json:"k"`
	Ref  int    `json:"r,omitempty"`
}
type Method struct {
	Name string `json:"n"`
	Ptr  bool   `json:"p,omitempty"`
	Late bool   `json:"late,omitempty"` // declared after the warm-up lookups (cache invalidation)
}
type TypeDef struct {
	Name    string   `json:"name"`
	Kind    int      `json:"kind"`
	Fields  []Field  `json:"fields,omitempty"`
	Methods []Method `json:"methods,omitempty"` // for KIface: the interface's methods, sorted by name
}
type Hier struct {
	Types    []TypeDef `json:"types"`
	LitDepth int       `json:"litdepth,omitempty"` // pointer-embedded fields deeper than this stay nil in the values (0 = maxLitDepth)
	Shape    string    `json:"shape,omitempty"`    // "" (random graph) | "deep" (tower with siblings)
}

type sig struct {
	params, result, args string
}

var basicKinds = []string{"int8", "int16", "int32", "int64", "uint8", "uint16", "uint32", "uint64", "uint", "uintptr"}
var fieldNames = []string{"X", "Y", "Z"}
var methNames = []string{"X", "Y", "Z", "M", "N", "String", "Error", "Len", "Less", "Swap"}
var sigs = map[string]sig{
	"X": {"", "int", ""}, "Y": {"", "int", ""}, "Z": {"", "int", ""}, "M": {"", "int", ""}, "N": {"", "int", ""},
	"String": {"", "string", ""}, "Error": {"", "string", ""},
	"Len": {"", "int", ""}, "Less": {"i, j int", "bool", "1, 2"}, "Swap": {"i, j int", "", "1, 2"},
}

func nameIdx(n string) int {
	for i, m := range methNames {
		if m == n {
			return i
		}
	}
	return 99
}

func (h *Hier) tagName(k int) string { return fmt.Sprintf("U%d", k) }

// struct depth through embedding (value or pointer), cycles cut
func (h *Hier) depthOf(k int, seen map[int]bool) int {
	if seen[k] {
		return 0
	}
	seen[k] = true
	defer delete(seen, k)
	d := 0
	for _, f := range h.Types[k].Fields {
		if f.Kind != FInt {
			if x := 1 + h.depthOf(f.Ref, seen); x > d {
				d = x
			}
		}
	}
	return d
}

// recursive: the type reaches itself through fields
func (h *Hier) recursive(k int) bool {
	seen := map[int]bool{}
	var walk func(j int) bool
	walk = func(j int) bool {
		for _, f := range h.Types[j].Fields {
			if f.Kind == FInt {
				continue
			}
			if f.Ref == k {
				return true
			}
			if !seen[f.Ref] {
				seen[f.Ref] = true
				if walk(f.Ref) {
					return true
				}
			}
		}
		return false
	}
	return walk(k)
}

// touchesRecursive: k or something it embeds is recursive
func (h *Hier) touchesRecursive(k int) bool {
	seen := map[int]bool{}
	var walk func(j int) bool
	walk = func(j int) bool {
		if seen[j] {
			return false
		}
		seen[j] = true
		if h.recursive(j) {
			return true
		}
		for _, f := range h.Types[j].Fields {
			if f.Kind != FInt && walk(f.Ref) {
				return true
			}
		}
		return false
	}
	return walk(k)
}

func genHier(r *vh.Rng) *Hier {
	n := 3 + r.Intn(5)
	h := &Hier{}
	for k := 0; k < n; k++ {
		td := TypeDef{Name: fmt.Sprintf("T%d", k)}
		// the last types are more often leaves of other kinds
		switch x := r.Intn(12); {
		case k >= 2 && x == 0:
			td.Kind = KBasic
		case k >= 2 && x == 1:
			td.Kind = KIface
		}
		h.Types = append(h.Types, td)
	}
	for k := 0; k < n; k++ {
		td := &h.Types[k]
		switch td.Kind {
		case KIface:
			m := 1 + r.Intn(2)
			used := map[string]bool{}
			for len(td.Methods) < m {
				nm := methNames[r.Intn(5)] // X Y Z M N
				if !used[nm] {
					used[nm] = true
					td.Methods = append(td.Methods, Method{Name: nm})
				}
			}
			sort.Slice(td.Methods, func(i, j int) bool { return td.Methods[i].Name < td.Methods[j].Name })
			continue
		case KStruct:
			td.Fields = append(td.Fields, Field{Name: h.tagName(k), Kind: FInt})
			used := map[string]bool{}
			for i, nf := 0, r.Intn(3); i < nf; i++ {
				nm := fieldNames[r.Intn(len(fieldNames))]
				if !used[nm] {
					used[nm] = true
					td.Fields = append(td.Fields, Field{Name: nm, Kind: FInt})
				}
			}
			ne := r.Intn(4)
			if k == n-1 {
				ne = r.Intn(2)
			}
			for i := 0; i < ne; i++ {
				var ref, kind int
				if !r.Chance(1, 9) && k+1 < n {
					ref = k + 1 + r.Intn(n-k-1)
					kind = FVal
					if r.Chance(1, 3) && h.Types[ref].Kind != KIface {
						kind = FPtr
					}
				} else {
					// pointer embedding may point anywhere (cycles, self reference)
					if k+1 >= n && !r.Chance(1, 4) {
						continue
					}
					ref = r.Intn(n)
					kind = FPtr
					if h.Types[ref].Kind == KIface {
						continue
					}
				}
				nm := h.Types[ref].Name
				if used[nm] {
					continue
				}
				used[nm] = true
				td.Fields = append(td.Fields, Field{Name: nm, Kind: kind, Ref: ref})
			}
			// shuffle the fields after the tag
			fs := td.Fields[1:]
			for i := len(fs) - 1; i > 0; i-- {
				j := r.Intn(i + 1)
				fs[i], fs[j] = fs[j], fs[i]
			}
			// methods: names different from the direct field names (Go forbids field and method with the same name)
			musedNames := map[string]bool{}
			for i, nm := 0, r.Intn(4); i < nm; i++ {
				name := methNames[r.Intn(len(methNames))]
				if r.Chance(1, 2) {
					name = methNames[r.Intn(5)]
				}
				if used[name] || musedNames[name] {
					continue
				}
				musedNames[name] = true
				td.Methods = append(td.Methods, Method{Name: name, Ptr: r.Chance(2, 5), Late: r.Chance(1, 6)})
			}
		case KBasic:
			musedNames := map[string]bool{}
			for i, nm := 0, 1+r.Intn(3); i < nm; i++ {
				name := methNames[r.Intn(len(methNames))]
				if musedNames[name] {
					continue
				}
				musedNames[name] = true
				td.Methods = append(td.Methods, Method{Name: name, Ptr: r.Chance(1, 3), Late: r.Chance(1, 6)})
			}
		}
	}
	// one or two interpreted interfaces that nobody embeds, over the whole method pool
	for i, ni := 0, 1+r.Intn(2); i < ni; i++ {
		td := TypeDef{Name: fmt.Sprintf("T%d", len(h.Types)), Kind: KIface}
		used := map[string]bool{}
		for j, m := 0, 1+r.Intn(3); j < m; j++ {
			nm := methNames[r.Intn(len(methNames))]
			if !used[nm] {
				used[nm] = true
				td.Methods = append(td.Methods, Method{Name: nm})
			}
		}
		sort.Slice(td.Methods, func(i, j int) bool { return td.Methods[i].Name < td.Methods[j].Name })
		h.Types = append(h.Types, td)
	}
	// sometimes complete a type to a sort.Interface / Stringer implementer
	if r.Chance(1, 2) {
		k := r.Intn(n)
		td := &h.Types[k]
		if td.Kind != KIface {
			ptr := r.Chance(1, 3)
			for _, name := range []string{"Len", "Less", "Swap", "String"} {
				has := false
				for _, m := range td.Methods {
					if m.Name == name {
						has = true
					}
				}
				for _, f := range td.Fields {
					if f.Name == name {
						has = true
					}
				}
				if !has {
					p := ptr
					if r.Chance(1, 4) {
						p = !p
					}
					td.Methods = append(td.Methods, Method{Name: name, Ptr: p})
				}
			}
		}
	}
	return h
}

// genDeepHier: a tower of 6..9 backbone structs, each embedding the next one (by value or by pointer) next to
// 1..3 sibling structs (some with an embedded child of their own); int fields and methods from the small shared
// pools, so that names are found 5..9 levels deep, shadowed by shallower ones, or ambiguous between siblings.
// Acyclic: the values are built completely (no nil embedded pointers).
func genDeepHier(r *vh.Rng) *Hier {
	h := &Hier{LitDepth: 64, Shape: "deep"}
	levels := 6 + r.Intn(4)
	newStruct := func() int {
		k := len(h.Types)
		h.Types = append(h.Types, TypeDef{Name: fmt.Sprintf("T%d", k), Kind: KStruct})
		h.Types[k].Fields = append(h.Types[k].Fields, Field{Name: h.tagName(k), Kind: FInt})
		return k
	}
	embed := func(k, ref int) {
		kind := FVal
		if r.Chance(1, 3) {
			kind = FPtr
		}
		h.Types[k].Fields = append(h.Types[k].Fields, Field{Name: h.Types[ref].Name, Kind: kind, Ref: ref})
	}
	decorate := func(k int, fieldProb, methProb int) {
		td := &h.Types[k]
		used := map[string]bool{}
		for _, f := range td.Fields {
			used[f.Name] = true
		}
		for _, nm := range fieldNames {
			if r.Intn(100) < fieldProb && !used[nm] {
				used[nm] = true
				td.Fields = append(td.Fields, Field{Name: nm, Kind: FInt})
			}
		}
		for _, nm := range methNames[:7] { // X Y Z M N String Error
			if r.Intn(100) < methProb && !used[nm] {
				used[nm] = true
				td.Methods = append(td.Methods, Method{Name: nm, Ptr: r.Chance(2, 5), Late: r.Chance(1, 8)})
			}
		}
	}
	backbone := make([]int, levels)
	for l := range backbone {
		backbone[l] = newStruct()
	}
	for l, k := range backbone {
		var emb []int
		if l+1 < levels {
			emb = append(emb, backbone[l+1])
		}
		nsib := 1 + r.Intn(3)
		if l < 2 {
			nsib = r.Intn(2) // keep the shallow levels light: the deep names must stay visible
		}
		for i := 0; i < nsib; i++ {
			sib := newStruct()
			if r.Chance(1, 3) {
				child := newStruct()
				decorate(child, 30, 15)
				embed(sib, child)
			}
			decorate(sib, 35, 20)
			emb = append(emb, sib)
		}
		// siblings in random order around the backbone
		for i := len(emb) - 1; i > 0; i-- {
			j := r.Intn(i + 1)
			emb[i], emb[j] = emb[j], emb[i]
		}
		for _, ref := range emb {
			embed(k, ref)
		}
		// the shallow backbone levels declare few names of their own (they would shadow everything below)
		if l >= levels-3 {
			decorate(k, 35, 20)
		} else {
			decorate(k, 8, 6)
		}
	}
	// an interpreted interface over the method pool
	td := TypeDef{Name: fmt.Sprintf("T%d", len(h.Types)), Kind: KIface}
	td.Methods = append(td.Methods, Method{Name: methNames[r.Intn(5)]})
	h.Types = append(h.Types, td)
	return h
}

// genDiamondHier: one type (the core, with a sub-core of its own) reached from the top through TWO different embedded
// fields at the same depth 2..4 (by value or by pointer): by Go's rule every name of the core is ambiguous in the top
// type unless a shallower declaration shadows it; plus a "skewed" type that reaches the core at two different depths (the
// shallower path wins) and, half of the time, a lop-sided top whose right chain is one level longer (no ambiguity).
// Names from the small shared pools; acyclic: the values are built completely.
func genDiamondHier(r *vh.Rng) *Hier {
	h := &Hier{LitDepth: 64, Shape: "diamond"}
	newStruct := func() int {
		k := len(h.Types)
		h.Types = append(h.Types, TypeDef{Name: fmt.Sprintf("T%d", k), Kind: KStruct})
		h.Types[k].Fields = append(h.Types[k].Fields, Field{Name: h.tagName(k), Kind: FInt})
		return k
	}
	embed := func(k, ref int) {
		kind := FVal
		if r.Chance(1, 3) {
			kind = FPtr
		}
		h.Types[k].Fields = append(h.Types[k].Fields, Field{Name: h.Types[ref].Name, Kind: kind, Ref: ref})
	}
	decorate := func(k int, fieldProb, methProb int) {
		td := &h.Types[k]
		used := map[string]bool{}
		for _, f := range td.Fields {
			used[f.Name] = true
		}
		for _, nm := range fieldNames {
			if r.Intn(100) < fieldProb && !used[nm] {
				used[nm] = true
				td.Fields = append(td.Fields, Field{Name: nm, Kind: FInt})
			}
		}
		for _, nm := range methNames[:7] {
			if r.Intn(100) < methProb && !used[nm] {
				used[nm] = true
				td.Methods = append(td.Methods, Method{Name: nm, Ptr: r.Chance(2, 5), Late: r.Chance(1, 8)})
			}
		}
	}
	// the top types come first (the lookups and sites concentrate on the first types)
	top, skew, lop := newStruct(), newStruct(), newStruct()
	core, sub := newStruct(), newStruct()
	decorate(sub, 40, 25)
	embed(core, sub)
	decorate(core, 60, 40)
	depth := 1 + r.Intn(3)
	chain := func(n int) int {
		cur := core
		for l := 0; l < n; l++ {
			k := newStruct()
			embed(k, cur)
			decorate(k, 12, 10)
			cur = k
		}
		return cur
	}
	left, right, longer := chain(depth), chain(depth), chain(depth+1)
	embs := []int{left, right}
	if r.Chance(1, 3) {
		extra := newStruct()
		decorate(extra, 30, 20)
		embs = append(embs, extra)
	}
	for i := len(embs) - 1; i > 0; i-- {
		j := r.Intn(i + 1)
		embs[i], embs[j] = embs[j], embs[i]
	}
	for _, e := range embs {
		embed(top, e)
	}
	decorate(top, 6, 5)
	embed(skew, core)
	embed(skew, left)
	decorate(skew, 6, 5)
	embed(lop, left)
	embed(lop, longer)
	decorate(lop, 6, 5)
	td := TypeDef{Name: fmt.Sprintf("T%d", len(h.Types)), Kind: KIface}
	td.Methods = append(td.Methods, Method{Name: methNames[r.Intn(5)]})
	h.Types = append(h.Types, td)
	return h
}

// ---------- source ----------
func (h *Hier) typeSrc(k int) string {
	td := h.Types[k]
	switch td.Kind {
	case KBasic:
		// every named non-struct type gets its own underlying kind, never plain int (known finding: named types that
		// share the reflect.Type of another type are confused in type switches and assertions)
		return fmt.Sprintf("type %s %s", td.Name, basicKinds[k%len(basicKinds)])
	case KIface:
		var ms []string
		for _, m := range td.Methods {
			s := sigs[m.Name]
			ms = append(ms, fmt.Sprintf("%s(%s) %s", m.Name, s.params, s.result))
		}
		return fmt.Sprintf("type %s interface { %s }", td.Name, strings.Join(ms, "; "))
	}
	var fs []string
	for _, f := range td.Fields {
		switch f.Kind {
		case FInt:
			fs = append(fs, f.Name+" int")
		case FVal:
			fs = append(fs, h.Types[f.Ref].Name)
		case FPtr:
			fs = append(fs, "*"+h.Types[f.Ref].Name)
		}
	}
	return fmt.Sprintf("type %s struct { %s }", td.Name, strings.Join(fs, "; "))
}

func methodSrcFor(tname string, kind int, tag string, k int, m Method) string {
	s := sigs[m.Name]
	recv := tname
	tagx := "r." + tag
	if kind == KBasic {
		tagx = "int(r)"
	}
	if m.Ptr {
		recv = "*" + tname
		if kind == KBasic {
			tagx = "int(*r)"
		}
	}
	id := (k+1)*100000 + nameIdx(m.Name)*1000
	var body string
	switch s.result {
	case "int":
		body = fmt.Sprintf("return %d + %s", id, tagx)
	case "string":
		body = fmt.Sprintf("return \"%s.%s:\" + strconv.Itoa(%s)", tname, m.Name, tagx)
	case "bool":
		body = fmt.Sprintf("return i < j+%s", tagx)
	default:
		body = fmt.Sprintf("trace = %d + %s + i + j", id, tagx)
	}
	res := s.result
	if res != "" {
		res = " " + res
	}
	return fmt.Sprintf("func (r %s) %s(%s)%s { %s }", recv, m.Name, s.params, res, body)
}

func (h *Hier) methodSrc(k int, m Method) string {
	return methodSrcFor(h.Types[k].Name, h.Types[k].Kind, h.tagName(k), k, m)
}

// the universal implementer used as the value of embedded interface fields
func leafSrc() []string {
	out := []string{"type L struct { UL int }"}
	for _, nm := range methNames[:5] {
		out = append(out, methodSrcFor("L", KStruct, "UL", 8, Method{Name: nm}))
	}
	return out
}

const maxLitDepth = 4

func (h *Hier) lit(k int, depth int, ctr *int) string {
	td := h.Types[k]
	next := func() int { *ctr++; return *ctr }
	switch td.Kind {
	case KBasic:
		return fmt.Sprintf("%s(%d)", td.Name, next()%100)
	case KIface:
		return fmt.Sprintf("L{UL: %d}", next())
	}
	var parts []string
	for _, f := range td.Fields {
		switch f.Kind {
		case FInt:
			parts = append(parts, fmt.Sprintf("%s: %d", f.Name, next()))
		case FVal:
			parts = append(parts, fmt.Sprintf("%s: %s", f.Name, h.lit(f.Ref, depth+1, ctr)))
		case FPtr:
			if lim := h.LitDepth; (lim == 0 && depth+1 >= maxLitDepth) || (lim > 0 && depth+1 >= lim) {
				continue // nil
			}
			if h.Types[f.Ref].Kind == KBasic {
				parts = append(parts, fmt.Sprintf("%s: new%s(%d)", f.Name, h.Types[f.Ref].Name, next()%100))
			} else {
				parts = append(parts, fmt.Sprintf("%s: &%s", f.Name, h.lit(f.Ref, depth+1, ctr)))
			}
		}
	}
	return fmt.Sprintf("%s{%s}", td.Name, strings.Join(parts, ", "))
}

// Prog is the unit handled by the pipeline (generated from a Hier, or read from the corpus)
type Site struct {
	ID    int    `json:"id"`
	Kind  string `json:"kind"`
	Body  string `json:"body"`            // statements of func S<id>() string
	Desc  string `json:"desc"`            // canonical descriptor (part of the failure key)
	Phase int    `json:"phase,omitempty"` // 0: evaluated before the late methods (warm-up, not compared), 1: after
	Key   string `json:"key,omitempty"`   // corpus: fixed failure key
}
type Prog struct {
	Name    string   `json:"name"`
	Hier    *Hier    `json:"hier,omitempty"`
	Types   []string `json:"types"` // evaluated together (forward references)
	Decls   []string `json:"decls"` // evaluated one by one before the sites (helper funcs, methods)
	Late    []string `json:"late"`  // method declarations evaluated after the phase-0 sites
	Vars    []string `json:"vars"`  // evaluated after all methods
	Sites   []Site   `json:"sites"`
	Comment string   `json:"comment,omitempty"`
	Imports []string `json:"imports,omitempty"` // packages imported besides fmt, sort, strconv (each must be used by the declarations)
	// Pending: corpus program holding the exact input of a PROPOSED finding (fix or known-finding entry not yet
	// integrated): its failures are reported only once the site key is listed in known_findings.json, until then they
	// are counted in the evidence (extra.proposed_finding_reproduced)
	Pending bool `json:"pending,omitempty"`
}

func (h *Hier) anyRecursive() bool {
	for k := range h.Types {
		if h.recursive(k) {
			return true
		}
	}
	return false
}

func (h *Hier) prog(name string) *Prog {
	p := &Prog{Name: name, Hier: h}
	for k := len(h.Types) - 1; k >= 0; k-- {
		p.Types = append(p.Types, h.typeSrc(k))
	}
	p.Types = append(p.Types, leafSrc()[0])
	p.Decls = append(p.Decls, "var trace int")
	p.Decls = append(p.Decls, leafSrc()[1:]...)
	for k, td := range h.Types {
		if td.Kind == KBasic {
			p.Decls = append(p.Decls, fmt.Sprintf("func new%s(x int) *%s { v := %s(x); return &v }", td.Name, td.Name, td.Name))
		}
		if td.Kind == KIface {
			continue
		}
		for _, m := range td.Methods {
			if m.Late {
				p.Late = append(p.Late, h.methodSrc(k, m))
			} else {
				p.Decls = append(p.Decls, h.methodSrc(k, m))
			}
		}
	}
	for k, td := range h.Types {
		if td.Kind == KIface || h.anyRecursive() {
			// documented limitation: recursive types are emulated (values of recursive types are not built; lookups only)
			continue
		}
		ctr := 0
		p.Vars = append(p.Vars, fmt.Sprintf("var v%s = %s", td.Name, h.lit(k, 0, &ctr)))
		p.Vars = append(p.Vars, fmt.Sprintf("var p%s = &v%s", td.Name, td.Name))
	}
	return p
}

// Go source of the package (compiled oracle and go/types); sites limited to `only` (nil = all)
func (p *Prog) goSource(pkg string, only map[int]bool) string {
	var sb strings.Builder
	extra := ""
	for _, im := range p.Imports {
		extra += fmt.Sprintf("\t%q\n", im)
	}
	fmt.Fprintf(&sb, "package %s\n\nimport (\n\t\"fmt\"\n\t\"sort\"\n\t\"strconv\"\n"+extra+")\n\nvar _ = fmt.Sprint\nvar _ sort.Interface\nvar _ = strconv.Itoa\n\n", pkg)
	for _, group := range [][]string{p.Types, p.Decls, p.Late, p.Vars} {
		for _, s := range group {
			sb.WriteString(s)
			sb.WriteString("\n")
		}
	}
	sb.WriteString("\n")
	for _, s := range p.Sites {
		if only != nil && !only[s.ID] {
			continue
		}
		fmt.Fprintf(&sb, "func S%d() string {\n%s\n}\n", s.ID, s.Body)
	}
	sb.WriteString("\nvar Sites = map[int]func() string{\n")
	for _, s := range p.Sites {
		if only != nil && !only[s.ID] {
			continue
		}
		fmt.Fprintf(&sb, "\t%d: S%d,\n", s.ID, s.ID)
	}
	sb.WriteString("}\n")
	return sb.String()
}

// use of a method-valued expression `expr` (already bound to its receiver) named name
func useCall(expr, name, extraFirstArg string) string {
	s := sigs[name]
	args := s.args
	if extraFirstArg != "" {
		if args != "" {
			args = extraFirstArg + ", " + args
		} else {
			args = extraFirstArg
		}
	}
	if s.result == "" {
		return fmt.Sprintf("trace = 0; %s(%s); return fmt.Sprint(trace)", expr, args)
	}
	return fmt.Sprintf("return fmt.Sprint(%s(%s))", expr, args)
}

// c09 generator, part 2: "twin" types. Several named types per kind (struct, pointer to struct, slice, map, func,
// chan, array, basic) share one underlying type - hence one reflect.Type inside the interpreter - and all implement
// the same interfaces. Go's assertions and type switches distinguish them by type identity; the sites store a value
// of one twin in an interface (interpreted interface, error, fmt.Stringer) and assert / switch on its siblings.
// The tag interface{} is not generated here (known finding corpus:typeswitch-identical-layout: a plain interface{}
// carries only the reflect.Type).
package main

import (
	"fmt"
	"strings"

	"verifh/vh"
)

type twinKind struct {
	name   string
	under  string                       // underlying type
	lit    func(T string, n int) string // a non-nil value of named type T
	nilLit func(T string) string        // a nil value of type T ("" if the kind has none)
	body   string                       // expression over receiver r giving an int
}

var twinKinds = []twinKind{
	{"struct", "struct{ s int }", func(T string, n int) string { return fmt.Sprintf("%s{%d}", T, n) }, nil, "r.s"},
	{"slice", "[]int", func(T string, n int) string { return fmt.Sprintf("%s{%d, 0}", T, n) }, func(T string) string { return T + "(nil)" }, "r[0]"},
	{"map", "map[string]int", func(T string, n int) string { return fmt.Sprintf("%s{\"k\": %d}", T, n) }, func(T string) string { return T + "(nil)" }, "r[\"k\"]"},
	{"func", "func() int", func(T string, n int) string { return fmt.Sprintf("%s(func() int { return %d })", T, n) }, func(T string) string { return T + "(nil)" }, "r()"},
	{"chan", "chan int", func(T string, n int) string { return fmt.Sprintf("mk%s(%d)", T, n) }, func(T string) string { return T + "(nil)" }, "cap(r)"},
	{"array", "[2]int", func(T string, n int) string { return fmt.Sprintf("%s{%d, 1}", T, n) }, nil, "r[0]"},
	{"basic", "int16", func(T string, n int) string { return fmt.Sprintf("%s(%d)", T, n) }, nil, "int(r)"},
	{"string", "string", func(T string, n int) string { return fmt.Sprintf("%s(\"%d\")", T, n) }, nil, "len(r)"},
}

type twinType struct {
	Name    string
	Kind    int  // index in twinKinds
	PtrRecv bool // methods declared on *T (struct kind only): only *T implements the interfaces
	ID      int
}

type twinVal struct {
	Expr string // Go expression
	Type string // its static type as Go source (T or *T)
	Twin int    // index of the twin type
	Nil  bool
}

// twinOpts: input classes of findings reported while building this generator. Each class is generated only once
// its key is registered with status "fixed" in known_findings.json (i.e. the fix is in the tree under test);
// until then the exact inputs are replayed from corpus/C09 (pending programs).
type twinOpts struct {
	BasicCommaOk  bool // corpus:commaok-assert-basic-kind-twins: v, ok := e.(T) between twins of basic kinds (bool, numbers, string)
	BasicIfaceArg bool // corpus:basic-kind-arg-to-interface-param: f(v) with v of a named basic-kind type and a non-empty interface parameter
}

func (tk twinKind) basic() bool { return tk.name == "basic" || tk.name == "string" }

// genTwinProg returns a program without hierarchy (differential against go/types + compiled Go only)
func genTwinProg(r *vh.Rng, name string, opts twinOpts) *Prog {
	p := &Prog{Name: name, Comment: "twin types: named types sharing one underlying type"}
	var twins []twinType
	// 3..5 kinds, 2..3 twins each; struct kinds appear with value receivers and with pointer receivers
	perm := make([]int, len(twinKinds))
	for i := range perm {
		perm[i] = i
	}
	for i := len(perm) - 1; i > 0; i-- {
		j := r.Intn(i + 1)
		perm[i], perm[j] = perm[j], perm[i]
	}
	nk := 3 + r.Intn(3)
	letters := "ABC"
	for i := 0; i < nk; i++ {
		k := perm[i]
		n := 2 + r.Intn(2)
		ptr := twinKinds[k].name == "struct" && r.Chance(2, 3)
		for j := 0; j < n; j++ {
			twins = append(twins, twinType{Name: fmt.Sprintf("%s%c", strings.Title(twinKinds[k].name), letters[j]), Kind: k, PtrRecv: ptr, ID: len(twins) + 1})
		}
	}
	if r.Chance(1, 2) { // a second struct family with the other receiver kind
		for j := 0; j < 2; j++ {
			twins = append(twins, twinType{Name: fmt.Sprintf("Rec%c", letters[j]), Kind: 0, PtrRecv: true, ID: len(twins) + 1})
		}
	}
	p.Types = append(p.Types, "type Sh interface { M() int }")
	p.Decls = append(p.Decls, "var trace int")
	for _, t := range twins {
		tk := twinKinds[t.Kind]
		p.Types = append(p.Types, fmt.Sprintf("type %s %s", t.Name, tk.under))
		recv := t.Name
		if t.PtrRecv {
			recv = "*" + t.Name
		}
		p.Decls = append(p.Decls,
			fmt.Sprintf("func (r %s) M() int { return %d + %s }", recv, t.ID*1000, tk.body),
			fmt.Sprintf("func (r %s) Error() string { return \"%s.Error:\" + strconv.Itoa(%s) }", recv, t.Name, tk.body),
			fmt.Sprintf("func (r %s) String() string { return \"%s.String:\" + strconv.Itoa(%s) }", recv, t.Name, tk.body))
		if tk.name == "chan" {
			p.Decls = append(p.Decls, fmt.Sprintf("func mk%s(n int) %s { return make(%s, n) }", t.Name, t.Name, t.Name))
		}
	}
	// values that implement the interfaces, held in package-level variables (a constant operand such as T(nil) or
	// T(1) converted to an interface is a different code path, not this property)
	var vals []twinVal
	addVal := func(expr, typ string, twin int, isNil bool) {
		name := fmt.Sprintf("w%d", len(vals))
		if isNil {
			p.Vars = append(p.Vars, fmt.Sprintf("var %s %s", name, typ))
		} else {
			p.Vars = append(p.Vars, fmt.Sprintf("var %s %s = %s", name, typ, expr))
		}
		vals = append(vals, twinVal{name, typ, twin, isNil})
	}
	for i, t := range twins {
		tk := twinKinds[t.Kind]
		n := 1 + r.Intn(8)
		if t.PtrRecv {
			addVal("&"+tk.lit(t.Name, n), "*"+t.Name, i, false)
			addVal("", "*"+t.Name, i, true)
		} else {
			addVal(tk.lit(t.Name, n), t.Name, i, false)
			if tk.name == "struct" {
				addVal("&"+tk.lit(t.Name, n), "*"+t.Name, i, false)
			}
			if tk.nilLit != nil && r.Chance(1, 2) {
				addVal("", t.Name, i, true)
			}
		}
	}
	// target types: every T and, for structs, *T
	var targets []string
	for _, t := range twins {
		if !t.PtrRecv {
			targets = append(targets, t.Name)
		}
		if twinKinds[t.Kind].name == "struct" {
			targets = append(targets, "*"+t.Name)
		}
	}
	sameFamily := func(v twinVal, target string) bool {
		tt := strings.TrimPrefix(target, "*")
		for _, t := range twins {
			if t.Name == tt {
				return t.Kind == twins[v.Twin].Kind && strings.HasPrefix(target, "*") == strings.HasPrefix(v.Type, "*")
			}
		}
		return false
	}
	tags := []string{"Sh", "error", "fmt.Stringer"}
	use := func(x, tag string, isNil bool) string {
		// calling a method through a nil pointer / nil map would dereference: print only the nil-ness there
		if isNil {
			return x + " == nil"
		}
		return x + ".M()"
	}
	add := func(kind, desc, body string) {
		p.Sites = append(p.Sites, Site{ID: len(p.Sites), Kind: kind, Desc: desc, Body: body, Phase: 1})
	}
	nSites := 70
	for i := 0; i < nSites; i++ {
		v := vals[r.Intn(len(vals))]
		tag := tags[r.Intn(len(tags))]
		// targets of the same family (the interesting ones) 5 times out of 6
		var cand []string
		wantSame := v.Nil || !r.Chance(1, 6)
		for _, t := range targets {
			if sameFamily(v, t) == wantSame {
				cand = append(cand, t)
			}
		}
		if len(cand) == 0 {
			cand = targets
		}
		target := cand[r.Intn(len(cand))]
		decl := fmt.Sprintf("var e %s = %s", tag, v.Expr)
		vdesc := v.Expr + ":" + v.Type
		if v.Nil {
			vdesc += "=nil"
		}
		desc := fmt.Sprintf("%s(%s).(%s)", tag, vdesc, target)
		form := r.Intn(6)
		if basic := twinKinds[twins[v.Twin].Kind].basic(); basic && ((form <= 2 && !opts.BasicCommaOk) || (form == 4 && !opts.BasicIfaceArg)) {
			form = 3 + 2*r.Intn(2) // single-value assertion or type switch
		}
		switch form {
		case 0, 1, 2: // comma-ok
			add("twin-assert2", "twin assert2 "+desc,
				fmt.Sprintf("\t%s\n\tx, ok := e.(%s)\n\tif ok { return fmt.Sprint(\"ok|\", %s) }\n\treturn fmt.Sprint(\"no|\", %s)", decl, target, use("x", tag, v.Nil), zeroUse(target, twins)))
		case 3: // single value: panics unless identical
			add("twin-assert1", "twin assert1 "+desc,
				fmt.Sprintf("\t%s\n\tx := e.(%s)\n\treturn fmt.Sprint(%s)", decl, target, use("x", tag, v.Nil)))
		case 4: // through a function parameter (the usual shape of error classification)
			other := cand[r.Intn(len(cand))]
			add("twin-classify", "twin classify "+desc+" then "+other,
				fmt.Sprintf("\tclassify := func(e %s) string {\n\t\tif _, ok := e.(%s); ok { return \"first\" }\n\t\tif _, ok := e.(%s); ok { return \"second\" }\n\t\treturn \"other\"\n\t}\n\treturn classify(%s)", tag, target, other, v.Expr))
		default: // type switch over 2..4 single-type clauses in random order; either the variable is bound or there
			// is a default clause (known finding corpus:typeswitch-bound-var-default-nonempty-iface: both at once panic)
			n := 2 + r.Intn(3)
			bind := r.Chance(1, 2)
			var clauses []string
			seen := map[string]bool{}
			for j := 0; j < n; j++ {
				t := cand[r.Intn(len(cand))]
				if j == n-1 && !seen[v.Type] && r.Chance(2, 3) && contains(targets, v.Type) {
					t = v.Type // the matching clause, after its twins
				}
				if seen[t] {
					continue
				}
				seen[t] = true
				if bind {
					clauses = append(clauses, fmt.Sprintf("case %s: return fmt.Sprint(\"%s|\", %s)", t, t, use("x", tag, v.Nil)))
				} else {
					clauses = append(clauses, fmt.Sprintf("case %s: return \"%s\"", t, t))
				}
			}
			head := "switch x := e.(type)"
			if !bind {
				head = "switch e.(type)"
				at := r.Intn(len(clauses) + 1)
				clauses = append(clauses[:at], append([]string{"default: return \"default\""}, clauses[at:]...)...)
			}
			add("twin-switch", "twin switch "+tag+"("+vdesc+") {"+strings.Join(clauses, " ")+"}",
				fmt.Sprintf("\t%s\n\t%s {\n\t%s\n\t}\n\treturn \"none\"", decl, head, strings.Join(clauses, "\n\t")))
		}
	}
	return p
}

func contains(l []string, s string) bool {
	for _, x := range l {
		if x == s {
			return true
		}
	}
	return false
}

// zeroUse: what a failed comma-ok assertion leaves in x, printed without calling methods
func zeroUse(target string, twins []twinType) string {
	if strings.HasPrefix(target, "*") {
		return "x == nil"
	}
	for _, t := range twins {
		if t.Name == target {
			switch twinKinds[t.Kind].name {
			case "slice", "map", "func", "chan":
				return "x == nil"
			case "struct":
				return "x.s"
			case "array":
				return "x[0]"
			case "basic":
				return "int(x)"
			case "string":
				return "len(x)"
			}
		}
	}
	return "0"
}

// c05: statement control flow (fast/statement.go, switch.go, switch2.go, code.go, range*.go, select.go, switch_type.go).
//
// Random structured programs (gen.go) are
//
//	(S) rendered as Go source, compiled in batches by the Go toolchain (module with `go 1.18`: per-loop variables)
//	    and run: the compiled program's event trace + final result values are the DIRECT ORACLE;
//	run by gomacro twice: normally (Interp.Eval -> exec) and single-stepped under a fast.Debugger
//	    (Interp.Debug -> reExecWithFlags/singleStep), which also records the IP of every executed statement;
//	(M) for programs inside MiniGo the Coq term is written to cases_NNN.v together with the observed event trace,
//	    final values, IP trace and len(env.Code): the Coq reference semantics (MiniGo.Sem) and the model of the
//	    compiled code (MiniGo.Fast) are evaluated on it by vm_compute and must reproduce all of them.
package main

import (
	"bytes"
	"encoding/json"
	"fmt"
	"io"
	"os"
	"os/exec"
	"path/filepath"
	"strconv"
	"strings"
	"time"

	"github.com/cosmos72/gomacro/base"
	"github.com/cosmos72/gomacro/fast"
	"verifh/vh"
)

type dbg struct {
	ips   []int
	clen  int
	depth int
	on    bool
}

func (d *dbg) Breakpoint(ir *fast.Interp, env *fast.Env) fast.DebugOp { return fast.DebugOpStep }
func (d *dbg) At(ir *fast.Interp, env *fast.Env) fast.DebugOp {
	if d.on {
		d.ips = append(d.ips, env.IP)
		d.clen = len(env.Code)
		if env.CallDepth > d.depth {
			d.depth = env.CallDepth
		}
	}
	return fast.DebugOpStep
}

type obs struct {
	Trace  []int  `json:"trace"`
	Finals []int  `json:"finals"`
	Err    string `json:"err,omitempty"`
}

func (o obs) String() string { return fmt.Sprint(o.Trace, o.Finals, o.Err) }
func (o obs) eq(p obs) bool  { return o.String() == p.String() }

type interp struct {
	ir    *fast.Interp
	trace []int
	d     *dbg
}

func newInterp() *interp {
	it := &interp{}
	it.ir = fast.New()
	g := &it.ir.Comp.Globals
	g.Stdout, g.Stderr = io.Discard, io.Discard
	g.Options |= base.OptDebugger
	it.ir.DeclFunc("emit", func(k int) { it.trace = append(it.trace, k) })
	it.d = &dbg{}
	it.ir.SetDebugger(it.d)
	return it
}

func funcSrc(name string, p *program) string {
	return fmt.Sprintf("func %s() (v0, v1, v2, v3 int) {\n%s\n}", name, p.Src)
}

// input is what is recorded for a program (failures, inputs.jsonl): enough to re-execute it exactly with -replay
func progInput(name string, p *program) map[string]interface{} {
	m := map[string]interface{}{"src": funcSrc(name, p), "nodes": p.Nodes}
	if p.Mini {
		m["coq"] = p.Coq
	}
	return m
}

// loadReplay reads a replay file written by ./check: {"failure": {"input": ...}} (direct-oracle failure) or
// {"inputs": [{"idx":.., "input": ...}]} (correspondence broken).  An input is the map of progInput, or the plain
// source of one function `func NAME() (v0, v1, v2, v3 int) {...}` (recorded inputs of the known findings).
func loadReplay(path string) ([]*program, error) {
	b, err := os.ReadFile(path)
	if err != nil {
		return nil, err
	}
	var obj map[string]interface{}
	if err := json.Unmarshal(b, &obj); err != nil {
		return nil, err
	}
	var raw []interface{}
	if f, ok := obj["failure"].(map[string]interface{}); ok {
		raw = append(raw, f["input"])
	}
	if ins, ok := obj["inputs"].([]interface{}); ok {
		for _, x := range ins {
			if m, ok := x.(map[string]interface{}); ok {
				raw = append(raw, m["input"])
			}
		}
	}
	var out []*program
	for _, x := range raw {
		p := &program{Idx: len(out), Feat: map[string]int{}}
		var src string
		switch v := x.(type) {
		case map[string]interface{}:
			src, _ = v["src"].(string)
			if c, ok := v["coq"].(string); ok && c != "" {
				p.Coq, p.Mini = c, true
			}
			if n, ok := v["nodes"].(float64); ok {
				p.Nodes = int(n)
			}
		case string:
			src = v
		}
		// strip the function header and the closing brace: program.Src is the body
		i := strings.Index(src, "{\n")
		j := strings.LastIndex(src, "\n}")
		if src == "" {
			continue
		}
		if !strings.HasPrefix(src, "func ") || i < 0 || j < i+2 {
			p.Src = src // the body alone
		} else {
			p.Src = src[i+2 : j]
		}
		out = append(out, p)
	}
	if len(out) == 0 {
		return nil, fmt.Errorf("no replayable input in %s", path)
	}
	return out, nil
}

// run declares the function and calls it; debug selects Interp.Debug (single step) instead of Eval
func (it *interp) run(name string, debug bool) (o obs) {
	it.trace = nil
	it.d.ips, it.d.clen, it.d.depth = nil, 0, 0
	perr := vh.Catch(func() {
		var vals []interface{}
		if debug {
			it.d.on = true
			vs, _ := it.ir.Debug(name + "()")
			it.d.on = false
			for _, v := range vs {
				vals = append(vals, v.ReflectValue().Interface())
			}
		} else {
			vs, _ := it.ir.Eval(name + "()")
			for _, v := range vs {
				vals = append(vals, v.ReflectValue().Interface())
			}
		}
		for _, v := range vals {
			o.Finals = append(o.Finals, v.(int))
		}
	})
	it.d.on = false
	o.Trace = append([]int{}, it.trace...)
	if perr != nil {
		o.Err = "panic"
		o.Finals = nil
	}
	if o.Finals == nil {
		o.Finals = []int{}
	}
	return o
}

// ---------------------------------------------------------------- compiled-Go oracle

func oracle(a *vh.Args, progs []*program, batch int) (map[int]obs, error) {
	dir := a.Path(fmt.Sprintf("oracle/b%03d", batch))
	os.MkdirAll(dir, 0o755)
	var sb strings.Builder
	sb.WriteString("package main\n\nimport \"fmt\"\n\nvar trace []int\n\nfunc emit(k int) { trace = append(trace, k) }\n\n")
	sb.WriteString("func run(id int, f func() (int, int, int, int)) {\n\ttrace = trace[:0]\n\tdefer func() {\n\t\tif r := recover(); r != nil {\n\t\t\tfmt.Println(id, \"P\", trace)\n\t\t}\n\t}()\n\ta, b, c, d := f()\n\tfmt.Println(id, \"R\", trace, a, b, c, d)\n}\n\n")
	for _, p := range progs {
		sb.WriteString(funcSrc(fmt.Sprintf("p%d", p.Idx), p))
		sb.WriteString("\n\n")
	}
	sb.WriteString("func main() {\n")
	for _, p := range progs {
		fmt.Fprintf(&sb, "\trun(%d, p%d)\n", p.Idx, p.Idx)
	}
	sb.WriteString("}\n")
	if err := os.WriteFile(filepath.Join(dir, "main.go"), []byte(sb.String()), 0o644); err != nil {
		return nil, err
	}
	os.WriteFile(filepath.Join(dir, "go.mod"), []byte("module oracle\n\ngo 1.18\n"), 0o644)
	env := append(os.Environ(), "GOFLAGS=-mod=mod", "GOPROXY=off", "GOSUMDB=off", "GOTOOLCHAIN=local", "CGO_ENABLED=0")
	cmd := exec.Command("go", "build", "-gcflags=-N -l", "-o", "oracle.bin", ".")
	cmd.Dir, cmd.Env = dir, env
	if out, err := cmd.CombinedOutput(); err != nil {
		return nil, fmt.Errorf("go build of oracle batch %d failed: %v\n%s", batch, err, tail(string(out), 3000))
	}
	run := exec.Command(filepath.Join(dir, "oracle.bin"))
	var out bytes.Buffer
	run.Stdout, run.Stderr = &out, &out
	if err := run.Start(); err != nil {
		return nil, err
	}
	done := make(chan error, 1)
	go func() { done <- run.Wait() }()
	select {
	case err := <-done:
		if err != nil {
			return nil, fmt.Errorf("oracle batch %d run: %v\n%s", batch, err, tail(out.String(), 2000))
		}
	case <-time.After(120 * time.Second):
		run.Process.Kill()
		return nil, fmt.Errorf("oracle batch %d did not terminate", batch)
	}
	res := map[int]obs{}
	for _, line := range strings.Split(out.String(), "\n") {
		// "<id> R [t1 t2] a b c d"   or  "<id> P [..]"
		f := strings.Fields(strings.NewReplacer("[", " [ ", "]", " ] ").Replace(line))
		if len(f) < 4 {
			continue
		}
		id, err := strconv.Atoi(f[0])
		if err != nil {
			continue
		}
		o := obs{Trace: []int{}, Finals: []int{}}
		i := 3
		for ; i < len(f) && f[i] != "]"; i++ {
			k, _ := strconv.Atoi(f[i])
			o.Trace = append(o.Trace, k)
		}
		if f[1] == "P" {
			o.Err = "panic"
		} else {
			for i++; i < len(f); i++ {
				k, _ := strconv.Atoi(f[i])
				o.Finals = append(o.Finals, k)
			}
		}
		res[id] = o
	}
	return res, nil
}

func tail(s string, n int) string {
	if len(s) > n {
		return s[len(s)-n:]
	}
	return s
}

// ---------------------------------------------------------------- Coq rendering of observations

func coqZs(xs []int) string {
	if len(xs) == 0 {
		return "(@nil Z)"
	}
	var sb strings.Builder
	sb.WriteString("[")
	for i, x := range xs {
		if i > 0 {
			sb.WriteString(";")
		}
		if x < 0 {
			fmt.Fprintf(&sb, "(%d)", x)
		} else {
			fmt.Fprintf(&sb, "%d", x)
		}
	}
	sb.WriteString("]%Z")
	return sb.String()
}

func coqNats(xs []int) string {
	if len(xs) == 0 {
		return "(@nil nat)"
	}
	var sb strings.Builder
	sb.WriteString("[")
	for i, x := range xs {
		if i > 0 {
			sb.WriteString(";")
		}
		fmt.Fprintf(&sb, "%d", x)
	}
	sb.WriteString("]%nat")
	return sb.String()
}

// ---------------------------------------------------------------- known-defect probes

// Each probe runs the exact recorded input of a finding on the current tree.
type defect struct {
	key, what, src, call, wantTrace string
	present                         bool
	got                             obs
}

var defects = []*defect{
	{key: "goto-to-function-top-level-label",
		what: "backward goto to a label at the top level of a function body is rejected (Comp.Goto never searches the function's own Comp.Labels)",
		src:  "func q1() (v0, v1, v2, v3 int) {\nG1:\n\tv3++\n\temit(v3)\n\tif v3 < 3 {\n\t\tgoto G1\n\t}\n\treturn\n}", call: "q1", wantTrace: "[1 2 3]"},
	{key: "range-slice-key-is-loop-counter",
		what: "range over slice/array uses the user's key variable as loop counter: not reset when assigned with '=', left at len (not len-1) after the loop",
		src:  "func q2() (v0, v1, v2, v3 int) {\n\tk := 5\n\tfor k = range [3]int{} {\n\t\temit(k)\n\t}\n\temit(100 + k)\n\tvar fs []func() int\n\tfor i, x := range []int{5, 6, 7} {\n\t\tfs = append(fs, func() int { return i*100 + x })\n\t}\n\tfor _, f := range fs {\n\t\temit(f())\n\t}\n\treturn\n}", call: "q2", wantTrace: "[0 1 2 102 207 207 207]"},
	{key: "select-send-untyped-constant",
		what: "select send case with an untyped constant is rejected (select.go lacks the ConstTo(elem) of Comp.Send)",
		src:  "func q3() (v0, v1, v2, v3 int) {\n\tch := make(chan int, 1)\n\tselect {\n\tcase ch <- 1:\n\t\temit(700)\n\tdefault:\n\t\temit(800)\n\t}\n\treturn\n}", call: "q3", wantTrace: "[700]"},
	{key: "range-string-assign-outer-var",
		what: "range over a string assigning the rune with '=' to a variable of an outer frame writes env.Ints of the wrong frame (index out of range / clobbers another variable); the key is left at len(s), not at the last index",
		src:  "func q4() (v0, v1, v2, v3 int) {\n\tk, r := 7, 'x'\n\tf := func() {\n\t\tfor k, r = range \"ab\" {\n\t\t\temit(k*1000 + int(r))\n\t\t}\n\t}\n\tf()\n\temit(k)\n\temit(int(r))\n\treturn\n}", call: "q4", wantTrace: "[97 1098 1 98]"},
	{key: "select-recv-ok-on-closed-channel",
		what: "select { case v, ok := <-ch } on a closed channel yields ok == true (select.go drops the recvOK result of reflect.Select and tests recv.IsValid())",
		src:  "func q5() (v0, v1, v2, v3 int) {\n\tch := make(chan int, 1)\n\tclose(ch)\n\tselect {\n\tcase v, ok := <-ch:\n\t\temit(900 + v)\n\t\tif ok {\n\t\t\temit(1)\n\t\t} else {\n\t\t\temit(0)\n\t\t}\n\t}\n\treturn\n}", call: "q5", wantTrace: "[900 0]"},
	{key: "go-statement-args-not-copied",
		what: "go f(a) with an array/struct variable as argument: the goroutine sees a later assignment to the variable (Comp.Go passes the addressable reflect.Value, copied only by reflect.Call inside the new goroutine)",
		src:  "func q6() (v0, v1, v2, v3 int) {\n\tdone, gate := make(chan int), make(chan int)\n\ta := [2]int{1, 2}\n\tgo func(t [2]int) { <-gate; done <- t[0] }(a)\n\ta[0] = 9\n\tgate <- 0\n\temit(<-done)\n\treturn\n}", call: "q6", wantTrace: "[1]"},
}

func probeDefects(rep *vh.Report) {
	for _, d := range defects {
		it := newInterp()
		if p := vh.Catch(func() { it.ir.Eval(d.src) }); p != nil {
			d.present, d.got = true, obs{Err: "compile_error", Trace: []int{}, Finals: []int{}}
		} else {
			d.got = it.run(d.call, false)
			d.present = d.got.Err != "" || fmt.Sprint(d.got.Trace) != d.wantTrace
		}
		if d.present {
			rep.Fail(vh.Failure{Key: d.key, What: d.what, Input: d.src, Got: d.got, Want: "trace " + d.wantTrace + " (compiled Go)"})
		}
		rep.Extra["defect_present:"+d.key] = d.present
	}
}

func main() {
	a := vh.ParseArgs()
	rng := vh.NewRng(a.Seed)
	rep := vh.NewReport(a, "random structured programs func p() (v0..v3 int): emit/assign/if-else(-if)/for (3-clause with := header variable, cond-only, infinite)/"+
		"break,continue (plain and labelled)/switch (tagged with constant and expression cases, tagless, default anywhere, fallthrough)/blocks with locals/backward goto (also from nested constructs)/return, "+
		"nesting depth <=5 quick, <=8 thorough; 45% of the programs additionally use differential-only constructs (range over slice/array/string/map(order-insensitive)/channel, type switch, select, "+
		"closures capturing for/range header variables, if/switch with init); every loop is driven by a dedicated bounded counter. Oracle: the same source compiled by go1.23 in a `go 1.18` module. "+
		"A program is non-trivial when its trace has >=2 events and it executes >=1 jump-type construct (loop, switch, break/continue/goto); distinct by SHA-256 of the source. "+
		"Focused programs (in addition; 2 of 5 are skeletons - one focused construct, no random statements around it - and run first so that a failure gives a short replay): (a) MiniGo programs built around 'deep jumps': a target (3-clause for / cond-only or infinite for / switch / goto label) around a nest of 0..6 scopes (blocks, if branches, inner loops, switch clauses; 4 of 5 declare variables) with a break / continue (labelled when an inner loop or switch is crossed) / backward goto in the innermost position, so that one jump leaves 0..9 runtime env frames (distribution keys construct:jump-frames:<kind>:<frames> = programs containing such a jump); they are Coq cases too (jumpOut's upn >= 4 included); "+
		"(b) typed expression switches (differential only) over bool, every integer kind, floats, complex, string, rune, interface{}, arrays and structs, executed once for every value of a pool, whose case lists mix distinct constants with non-constant expressions (variables, calls that log their evaluation) drawn from the same pool - so a non-constant case often equals an earlier or a LATER constant case -, default anywhere, fallthrough, break/continue, tag also computed by a logging call or an init statement. "+
		"(c) constant-condition control flow (differential only): if / else-if / else chains of 1..4 arms whose conditions are, per arm, a constant false / constant true expression (literal, !literal, named typed/untyped constants, comparisons of named constants or literals, &&/||/! over constants, len of constant strings/arrays) or a non-constant one, with and without init statements and a final else, and `for <constant>` loops; every arm emits its own marker (distribution keys construct:const-cond-if:<shape>, F/T/v = false/true/variable arm, i = init, e = else). "+
		"Also generated (differential only): range with '=' into outer variables (slice/array/string, also through a closure), select (value, ok) receives from closed channels, go statements with array/struct arguments modified after the go statement. "+
		"While a recorded defect (goto to a function-top-level label; range key used as loop counter; select send of an untyped constant; range-string '=' into an outer variable; select ok on a closed channel; go arguments not copied) is present on the tree its exact input is replayed first and the generators avoid that input class.")
	wd := vh.NewWatchdog(rep, 180*time.Second)

	maxDepth, nprog, nfocus, perShard := 5, 360, 100, 45
	if a.Thorough() {
		// measured 2026-09-22 (loaded machine): 6000 programs / 45 per shard = 90 case files of 10-14 s each, 27 min wall
		// (before the focused programs existed); 10x the quick tier with 110 cases per file keeps it at ~31 files
		maxDepth, nprog, nfocus, perShard = 8, 3600, 1000, 110
	}
	if a.N > 0 {
		nprog = a.N
	}

	// ---- corpus: the recorded inputs of the findings; generators avoid a class while its defect is present
	probeDefects(rep)
	avoid := avoidSet{topGoto: defects[0].present, rangeKey: defects[1].present, selectConst: defects[2].present,
		rangeAssign: defects[3].present || defects[1].present, selectOk: defects[4].present, goArgs: defects[5].present}

	// ---- generate
	var progs []*program
	if a.Replay != "" {
		// re-execute exactly the recorded program(s): compiled Go, gomacro (normal and single-stepped), and both
		// Coq models when the MiniGo term was recorded
		var err error
		if progs, err = loadReplay(a.Replay); err != nil {
			fmt.Fprintln(os.Stderr, "replay:", err)
			os.Exit(2)
		}
		rep.Extra["replayed"] = len(progs)
	} else {
		// small focused programs first (a failure on one of them gives a short replay): one deep jump / one typed
		// switch each, no random statements around them; then the general programs; then the full-size focused ones.
		// (a) deep jumps: MiniGo programs whose jumps leave 0..9 variable-declaring scopes at once (Coq cases too);
		// (b) typed expression switches mixing constant and non-constant cases (differential only)
		add := func(p *program) {
			p.Idx = len(progs)
			progs = append(progs, p)
		}
		nsmall := nfocus * 2 / 5
		for i := 0; i < nsmall; i++ {
			add(genProgram(rng.Fork(), 2, false, avoid, "deepjump", true))
		}
		for i := 0; i < nsmall; i++ {
			add(genProgram(rng.Fork(), 2, true, avoid, "tswitch", true))
		}
		for i := 0; i < nprog; i++ {
			ext := rng.Chance(45, 100)
			add(genProgram(rng.Fork(), 2+rng.Intn(maxDepth-1), ext, avoid, "", false))
		}
		for i := nsmall; i < nfocus; i++ {
			add(genProgram(rng.Fork(), 2+rng.Intn(3), false, avoid, "deepjump", false))
		}
		for i := nsmall; i < nfocus; i++ {
			add(genProgram(rng.Fork(), 2+rng.Intn(3), true, avoid, "tswitch", false))
		}
		// (c) constant-condition if/else-if/else chains and for loops (constif.go), own random stream: skeletons, then full size
		crng := vh.NewRng(a.Seed ^ 0xC05C0571F)
		for i := 0; i < nfocus; i++ {
			add(genProgram(crng.Fork(), 2+crng.Intn(3), true, avoid, "constif", i < nsmall))
		}
	}

	// ---- (S) compiled Go, in batches
	want := map[int]obs{}
	const per = 400
	for b := 0; b*per < len(progs); b++ {
		hi := (b + 1) * per
		if hi > len(progs) {
			hi = len(progs)
		}
		wd.Beat(fmt.Sprintf("oracle batch %d", b))
		res, err := oracle(a, progs[b*per:hi], b)
		if err != nil {
			// the oracle itself is broken: this is a machinery failure, reported as such (not as a finding)
			fmt.Fprintln(os.Stderr, err)
			os.Exit(2)
		}
		for k, v := range res {
			want[k] = v
		}
	}

	// ---- gomacro
	header := "From Coq Require Import List ZArith.\nFrom Verif Require Import MiniGo.Syntax MiniGo.Sem MiniGo.Fast C05.Model.\nImport ListNotations.\nOpen Scope nat_scope."
	cw := vh.NewCases(a, header, "case", "mismatches", perShard)
	it := newInterp()
	nmini, ncoq := 0, 0
	for i, p := range progs {
		if i%150 == 149 {
			it = newInterp() // bound the growth of the interpreter's global scope
		}
		name := fmt.Sprintf("p%d", p.Idx)
		wd.Beat(progInput(name, p)) // what a hang is reported with: replayable
		w, ok := want[p.Idx]
		if !ok {
			fmt.Fprintf(os.Stderr, "no oracle output for program %d\n", p.Idx)
			os.Exit(2)
		}
		fail := func(what string, got interface{}) {
			rep.Fail(vh.Failure{Key: "src:" + p.Src, What: what, Input: progInput(name, p), Got: got, Want: w})
		}
		if perr := vh.Catch(func() { it.ir.Eval(funcSrc(name, p)) }); perr != nil {
			fail("gomacro rejects a program accepted by the Go compiler", fmt.Sprint(perr))
			it = newInterp()
			continue
		}
		o := it.run(name, false)
		if !o.eq(w) {
			fail("event trace / final values differ from compiled Go (normal execution)", o)
		}
		od := it.run(name, true)
		ips := append([]int{}, it.d.ips...)
		clen := it.d.clen
		if !od.eq(w) {
			fail("event trace / final values differ from compiled Go (single-stepped under the debugger)", od)
		}
		// evidence bookkeeping
		jumps := 0
		for k, n := range p.Feat {
			rep.Dist("construct:" + k)
			if k != "emit" && k != "assign" && k != "if" && k != "block" && k != "if-else" && k != "if-elseif" {
				jumps += n
			}
		}
		rep.Count(p.Src, len(w.Trace) >= 2 && jumps > 0)
		rep.Dist(fmt.Sprintf("trace_len:%d-%d", len(w.Trace)/10*10, len(w.Trace)/10*10+9))
		if p.Mini {
			nmini++
			rep.Dist("class:MiniGo")
		} else {
			rep.Dist("class:differential-only")
		}
		if i%71 == 5 {
			rep.Sample(map[string]interface{}{"src": funcSrc(name, p), "trace": w.Trace, "finals": w.Finals})
		}
		in := progInput(name, p)
		in["go"], in["gomacro"], in["gomacro_debug"], in["ips"], in["codelen"] = w, o, od, ips, clen
		rep.CaseInput(p.Idx, in)
		// ---- (M) Coq case for MiniGo programs with moderate traces
		if p.Mini && od.Err == "" && len(ips) <= 1500 && it.d.depth <= 1 {
			ncoq++
			fuel := len(ips) + p.Nodes + 50
			cw.Add(fmt.Sprintf("mkCase %d %d %s (N.to_nat %d) %s %s %s %d", p.Idx, nres, p.Coq, fuel, coqZs(od.Trace), coqZs(od.Finals), coqNats(ips), clen))
		}
	}
	cw.Close()
	rep.Extra["programs"] = len(progs)
	rep.Extra["minigo_programs"] = nmini
	rep.Extra["coq_cases"] = ncoq
	rep.Write()
}

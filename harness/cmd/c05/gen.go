package main

// Random structured programs over the MiniGo constructs (rendered both as Go source and as a Coq term of
// Verif.MiniGo.Syntax.stmt) plus differential-only constructs (range, type switch, select, closures capturing
// header variables, if/switch with init) which make the program "class B" (no Coq term).
//
// Termination by construction: every loop / backward goto is driven by a dedicated counter variable that no
// generated assignment can touch; counters are incremented as the first action of each iteration.

import (
	"fmt"
	"strings"

	"verifh/vh"
)

type ref struct {
	name  string
	frame int // index in gen.frames
	idx   int
}

type brk struct {
	label  string // "" = none allocated yet
	id     int
	isLoop bool
	used   bool
	inMap  bool // map range: no break/continue to it from inside (order sensitivity)
	fdBrk  int  // len(gen.frames) where a break to it lands (0 = not recorded)
	fdCont int  // ... where a continue to it lands
}

type gotoLbl struct {
	id      int
	counter ref
	bound   int
	used    bool
	depthAt int // len(gen.brks) where declared (informative)
	fd      int // len(gen.frames) at the label (0 = not recorded)
}

type gen struct {
	r          *vh.Rng
	frames     [][]string
	assignable []ref
	readable   []ref
	brks       []*brk
	gotos      []*gotoLbl
	nextID     int
	maxDepth   int
	ext        bool
	usedExt    bool
	budget     int
	avoid      avoidSet
	feat       map[string]int
	noEmit     int // >0: inside a map range body (order-insensitive): no emit, no jumps out
	// inject: statements the next block() call places right after its locals (used to force a nest of scopes
	// around a jump); injectSkip = number of block() calls to let pass first
	inject     func() []piece
	injectSkip int
}

// piece: rendered statement(s)
type piece struct {
	golines []string
	coq     string // a stmt term
}

func (g *gen) id() int { g.nextID++; return g.nextID }

func (g *gen) up(v ref) int { return len(g.frames) - 1 - v.frame }

func (g *gen) coqVar(v ref) string { return fmt.Sprintf("(EVar %d %d)", g.up(v), v.idx) }

func coqZ(k int) string {
	if k < 0 {
		return fmt.Sprintf("(EConst (%d))", k)
	}
	return fmt.Sprintf("(EConst %d)", k)
}

type ex struct{ g, c string }

func (g *gen) pick(vs []ref) ref { return vs[g.r.Intn(len(vs))] }

// integer expression; mustVar => contains a variable
func (g *gen) intExpr(mustVar bool) ex {
	switch x := g.r.Intn(10); {
	case x < 2 && !mustVar:
		k := g.r.Intn(7) - 1
		return ex{fmt.Sprint(k), coqZ(k)}
	case x < 6:
		v := g.pick(g.readable)
		return ex{v.name, g.coqVar(v)}
	case x < 8:
		v := g.pick(g.readable)
		k := 1 + g.r.Intn(3)
		return ex{fmt.Sprintf("%s + %d", v.name, k), fmt.Sprintf("(EAdd %s %s)", g.coqVar(v), coqZ(k))}
	case x < 9:
		v, w := g.pick(g.readable), g.pick(g.readable)
		return ex{fmt.Sprintf("%s + %s", v.name, w.name), fmt.Sprintf("(EAdd %s %s)", g.coqVar(v), g.coqVar(w))}
	default:
		v, w := g.pick(g.readable), g.pick(g.readable)
		return ex{fmt.Sprintf("%s - %s", v.name, w.name), fmt.Sprintf("(ESub %s %s)", g.coqVar(v), g.coqVar(w))}
	}
}

// boolean expression, always contains a variable (never constant)
func (g *gen) boolExpr(d int) ex {
	switch x := g.r.Intn(12); {
	case x < 4 || d > 1:
		a := g.intExpr(true)
		k := g.r.Intn(6)
		return ex{fmt.Sprintf("%s < %d", a.g, k), fmt.Sprintf("(ELt %s %s)", a.c, coqZ(k))}
	case x < 6:
		a := g.intExpr(true)
		k := g.r.Intn(5)
		return ex{fmt.Sprintf("%s == %d", a.g, k), fmt.Sprintf("(EEq %s %s)", a.c, coqZ(k))}
	case x < 7:
		a, b := g.intExpr(true), g.intExpr(false)
		return ex{fmt.Sprintf("%s != %s", a.g, b.g), fmt.Sprintf("(ENot (EEq %s %s))", a.c, b.c)}
	case x < 8:
		a, b := g.intExpr(true), g.intExpr(true)
		return ex{fmt.Sprintf("%s < %s", a.g, b.g), fmt.Sprintf("(ELt %s %s)", a.c, b.c)}
	case x < 9:
		a := g.boolExpr(d + 1)
		return ex{fmt.Sprintf("!(%s)", a.g), fmt.Sprintf("(ENot %s)", a.c)}
	case x < 11:
		a, b := g.boolExpr(d+1), g.boolExpr(d+1)
		return ex{fmt.Sprintf("(%s) && (%s)", a.g, b.g), fmt.Sprintf("(EAnd %s %s)", a.c, b.c)}
	default:
		a, b := g.boolExpr(d+1), g.boolExpr(d+1)
		return ex{fmt.Sprintf("(%s) || (%s)", a.g, b.g), fmt.Sprintf("(EOr %s %s)", a.c, b.c)}
	}
}

// right-hand side of an assignment: bounded growth (const, var +- const)
func (g *gen) rhs() ex {
	switch x := g.r.Intn(6); {
	case x < 2:
		k := g.r.Intn(6)
		return ex{fmt.Sprint(k), coqZ(k)}
	case x < 5:
		v := g.pick(g.readable)
		k := 1 + g.r.Intn(2)
		return ex{fmt.Sprintf("%s + %d", v.name, k), fmt.Sprintf("(EAdd %s %s)", g.coqVar(v), coqZ(k))}
	default:
		v := g.pick(g.readable)
		return ex{fmt.Sprintf("%s - 1", v.name), fmt.Sprintf("(ESub %s %s)", g.coqVar(v), coqZ(1))}
	}
}

func indent(ls []string) []string {
	out := make([]string, len(ls))
	for i, l := range ls {
		out[i] = "\t" + l
	}
	return out
}

func seqCoq(ps []piece) string {
	if len(ps) == 0 {
		return "SSkip"
	}
	s := ps[len(ps)-1].coq
	for i := len(ps) - 2; i >= 0; i-- {
		s = "(SSeq " + ps[i].coq + " " + s + ")"
	}
	return s
}

func joinGo(ps []piece) []string {
	var out []string
	for _, p := range ps {
		out = append(out, p.golines...)
	}
	return out
}

// scope handling -----------------------------------------------------------

type mark struct{ na, nr, nf, ng int }

func (g *gen) mark() mark {
	return mark{len(g.assignable), len(g.readable), len(g.frames), len(g.gotos)}
}
func (g *gen) release(m mark) {
	g.assignable = g.assignable[:m.na]
	g.readable = g.readable[:m.nr]
	g.frames = g.frames[:m.nf]
	g.gotos = g.gotos[:m.ng]
}

// pushFrame starts a new runtime env frame (a block/for that declares variables)
func (g *gen) pushFrame() { g.frames = append(g.frames, nil) }

// declare a variable in the innermost frame
func (g *gen) declare(prefix string, assignable bool) ref {
	f := len(g.frames) - 1
	v := ref{fmt.Sprintf("%s%d", prefix, g.id()), f, len(g.frames[f])}
	g.frames[f] = append(g.frames[f], v.name)
	g.readable = append(g.readable, v)
	if assignable {
		g.assignable = append(g.assignable, v)
	}
	return v
}

// block body: list of statements at nesting depth d.
// locals: variables to declare at the start (the caller has NOT pushed the frame).
// pre: statements placed first (already rendered, e.g. counter increment) – produced by a callback after the frame exists
// Returns nloc, pieces.
type bodyOpt struct {
	nlocals  int            // number of "t := e; emit(t)" locals to declare at the start
	pre      func() []piece // statements emitted first (after locals), may declare variables in the frame
	post     func() []piece // statements emitted last
	minStmts int
	top      bool // function top-level list: no frame push (the function frame is frame 0)
}

func (g *gen) block(d int, o bodyOpt) (nloc int, ps []piece) {
	m := g.mark()
	willDeclare := o.nlocals > 0
	var prePieces []piece
	if !o.top {
		// we must know whether the frame exists before rendering anything (variable "up" counts);
		// callers signal declarations in pre() by setting nlocals>0 or using preDeclares.
		if willDeclare {
			g.pushFrame()
		}
	}
	for i := 0; i < o.nlocals; i++ {
		e := g.rhs()
		v := g.declare("t", true)
		ps = append(ps, piece{[]string{fmt.Sprintf("%s := %s", v.name, e.g)}, fmt.Sprintf("(SAssign 0 %d %s)", v.idx, e.c)})
		ps = append(ps, piece{[]string{fmt.Sprintf("emit(%s)", v.name)}, fmt.Sprintf("(SEmit %s)", g.coqVar(v))})
	}
	if o.pre != nil {
		prePieces = o.pre()
		ps = append(ps, prePieces...)
	}
	if g.inject != nil {
		if g.injectSkip > 0 {
			g.injectSkip--
		} else {
			inj := g.inject
			g.inject = nil
			ps = append(ps, inj()...)
		}
	}
	n := o.minStmts + g.r.Intn(3)
	if d >= g.maxDepth {
		n = o.minStmts + g.r.Intn(2)
	}
	for i := 0; i < n && g.budget > 0; i++ {
		p, stop := g.stmt(d)
		ps = append(ps, p)
		if stop {
			break
		}
	}
	if o.post != nil {
		ps = append(ps, o.post()...)
	}
	if !o.top && willDeclare {
		nloc = len(g.frames[len(g.frames)-1])
	}
	g.release(m)
	return nloc, ps
}

func (g *gen) blockCoq(nloc int, ps []piece) string {
	return fmt.Sprintf("%d %s", nloc, seqCoq(ps))
}

// plain nested block, random number of locals
func (g *gen) plainBody(d int) (int, []piece) {
	nl := 0
	if g.r.Chance(1, 3) {
		nl = 1 + g.r.Intn(2)
	}
	return g.block(d, bodyOpt{nlocals: nl, minStmts: 1})
}

// ---------------------------------------------------------------- statements

// stmt returns one statement; stop=true when the statement unconditionally leaves the list (rest would be dead code)
func (g *gen) stmt(d int) (piece, bool) {
	g.budget--
	deep := d >= g.maxDepth
	for {
		x := g.r.Intn(100)
		switch {
		case x < 14:
			g.feat["emit"]++
			if g.noEmit > 0 {
				continue
			}
			e := g.intExpr(false)
			return piece{[]string{fmt.Sprintf("emit(%s)", e.g)}, fmt.Sprintf("(SEmit %s)", e.c)}, false
		case x < 24:
			g.feat["assign"]++
			v := g.pick(g.assignable)
			e := g.rhs()
			return piece{[]string{fmt.Sprintf("%s = %s", v.name, e.g)}, fmt.Sprintf("(SAssign %d %d %s)", g.up(v), v.idx, e.c)}, false
		case x < 38:
			if deep {
				continue
			}
			return g.ifStmt(d), false
		case x < 52:
			if deep {
				continue
			}
			return g.forStmt(d), false
		case x < 64:
			if deep {
				continue
			}
			return g.switchStmt(d), false
		case x >= 67 && x < 69 && d <= 2 && g.noEmit == 0 && g.inject == nil:
			if deep {
				continue
			}
			return g.deepJump(d), false
		case x < 69:
			if deep {
				continue
			}
			g.feat["block"]++
			nl, ps := g.plainBody(d + 1)
			return piece{wrapBlock(joinGo(ps)), fmt.Sprintf("(SBlock %s)", g.blockCoq(nl, ps))}, false
		case x < 78:
			if p, ok := g.jump(false); ok {
				return p, false
			}
			continue
		case x < 81:
			if p, ok := g.jump(true); ok {
				return p, true
			}
			continue
		case x < 84:
			if deep || g.noEmit > 0 {
				continue
			}
			return g.gotoLoop(d), false
		case x < 87:
			if len(g.gotos) == 0 || g.noEmit > 0 {
				continue
			}
			g.feat["goto-nested"]++
			return g.gotoGuard(g.gotos[g.r.Intn(len(g.gotos))]), false
		case x < 89:
			if g.noEmit > 0 {
				continue
			}
			g.feat["return"]++
			c := g.boolExpr(0)
			return piece{[]string{fmt.Sprintf("if %s {", c.g), "\treturn", "}"}, fmt.Sprintf("(SIf %s 0 SReturn false SSkip)", c.c)}, false
		default:
			if !g.ext || deep {
				continue
			}
			if p, ok := g.extStmt(d); ok {
				g.usedExt = true
				return p, false
			}
			continue
		}
	}
}

func wrapBlock(body []string) []string {
	out := []string{"{"}
	out = append(out, indent(body)...)
	return append(out, "}")
}

func (g *gen) ifStmt(d int) piece {
	g.feat["if"]++
	c := g.boolExpr(0)
	nt, tp := g.plainBody(d + 1)
	gl := []string{fmt.Sprintf("if %s {", c.g)}
	gl = append(gl, indent(joinGo(tp))...)
	switch g.r.Intn(4) {
	case 0, 1: // no else
		gl = append(gl, "}")
		return piece{gl, fmt.Sprintf("(SIf %s %s false SSkip)", c.c, g.blockCoq(nt, tp))}
	case 2: // else block
		g.feat["if-else"]++
		ne, ep := g.plainBody(d + 1)
		gl = append(gl, "} else {")
		gl = append(gl, indent(joinGo(ep))...)
		gl = append(gl, "}")
		return piece{gl, fmt.Sprintf("(SIf %s %s true (SBlock %s))", c.c, g.blockCoq(nt, tp), g.blockCoq(ne, ep))}
	default: // else if
		g.feat["if-elseif"]++
		p := g.ifStmt(d + 1)
		gl = append(gl, "} else "+p.golines[0])
		gl = append(gl, p.golines[1:]...)
		return piece{gl, fmt.Sprintf("(SIf %s %s true %s)", c.c, g.blockCoq(nt, tp), p.coq)}
	}
}

// jump statements: break / continue, optionally labelled; guarded by a condition unless unconditional
func (g *gen) jump(uncond bool) (piece, bool) {
	if len(g.brks) == 0 || g.noEmit > 0 {
		return piece{}, false
	}
	// candidates: innermost first
	isCont := g.r.Chance(2, 5)
	var cands []*brk
	for i := len(g.brks) - 1; i >= 0; i-- {
		b := g.brks[i]
		if b.inMap {
			break // never jump out of a map range (iteration order would become observable)
		}
		if isCont && !b.isLoop {
			continue
		}
		cands = append(cands, b)
	}
	if len(cands) == 0 {
		return piece{}, false
	}
	var target *brk
	labelled := false
	if g.r.Chance(1, 2) || len(cands) == 1 {
		target = cands[0]
		labelled = g.r.Chance(1, 4)
	} else {
		target = cands[1+g.r.Intn(len(cands)-1)]
		labelled = true
	}
	kw, ck := "break", "SBreak"
	if isCont {
		kw, ck = "continue", "SContinue"
	}
	g.noteJump(target, isCont)
	var gs, cs string
	if labelled {
		target.used = true
		gs = fmt.Sprintf("%s L%d", kw, target.id)
		cs = fmt.Sprintf("(%s (Some %d))", ck, target.id)
		g.feat[kw+"-label"]++
	} else {
		gs = kw
		cs = fmt.Sprintf("(%s None)", ck)
		g.feat[kw]++
	}
	if uncond {
		return piece{[]string{gs}, cs}, true
	}
	c := g.boolExpr(0)
	return piece{[]string{fmt.Sprintf("if %s {", c.g), "\t" + gs, "}"}, fmt.Sprintf("(SIf %s 0 %s false SSkip)", c.c, cs)}, true
}

func labelLine(b *brk) []string {
	if b.used {
		return []string{fmt.Sprintf("L%d:", b.id)}
	}
	return nil
}
func labelCoq(b *brk, s string) string {
	if b.used {
		return fmt.Sprintf("(SLabeled %d %s)", b.id, s)
	}
	return s
}

func (g *gen) forStmt(d int) piece {
	b := &brk{id: g.id(), isLoop: true}
	bound := 1 + g.r.Intn(3)
	switch form := g.r.Intn(3); form {
	case 0: // three-clause with header variable (its own env frame)
		g.feat["for3"]++
		m := g.mark()
		b.fdBrk, b.fdCont = len(g.frames), len(g.frames)+1
		g.pushFrame()
		i := g.declare("i", false)
		g.brks = append(g.brks, b)
		nb, bp := g.block(d+1, bodyOpt{nlocals: g.r.Intn(2), minStmts: 1})
		g.brks = g.brks[:len(g.brks)-1]
		condc := fmt.Sprintf("(ELt %s %s)", g.coqVar(i), coqZ(bound))
		postc := fmt.Sprintf("[SiAssign 0 %d (EAdd %s %s)]", i.idx, g.coqVar(i), coqZ(1))
		initc := fmt.Sprintf("[SiAssign 0 %d %s]", i.idx, coqZ(0))
		g.release(m)
		gl := labelLine(b)
		gl = append(gl, fmt.Sprintf("for %s := 0; %s < %d; %s++ {", i.name, i.name, bound, i.name))
		gl = append(gl, indent(joinGo(bp))...)
		gl = append(gl, "}")
		return piece{gl, labelCoq(b, fmt.Sprintf("(SFor 1 %s (Some %s) %s %s)", initc, condc, postc, g.blockCoq(nb, bp)))}
	case 1: // condition only, counter declared in a wrapper block
		g.feat["for-cond"]++
		m := g.mark()
		g.pushFrame()
		b.fdBrk, b.fdCont = len(g.frames), len(g.frames)
		c := g.declare("c", false)
		declc := fmt.Sprintf("(SAssign 0 %d %s)", c.idx, coqZ(0))
		condc := fmt.Sprintf("(ELt %s %s)", g.coqVar(c), coqZ(bound))
		g.brks = append(g.brks, b)
		// the counter increment must be rendered relative to the body's frame depth: done in pre()
		nb, bp := g.block(d+1, bodyOpt{nlocals: g.r.Intn(2), minStmts: 0, pre: func() []piece {
			return []piece{{[]string{c.name + "++"}, fmt.Sprintf("(SAssign %d %d (EAdd %s %s))", g.up(c), c.idx, g.coqVar(c), coqZ(1))}}
		}})
		g.brks = g.brks[:len(g.brks)-1]
		g.release(m)
		inner := labelLine(b)
		inner = append(inner, fmt.Sprintf("for %s < %d {", c.name, bound))
		inner = append(inner, indent(joinGo(bp))...)
		inner = append(inner, "}")
		gl := append([]string{c.name + " := 0"}, inner...)
		forc := labelCoq(b, fmt.Sprintf("(SFor 0 [] (Some %s) [] %s)", condc, g.blockCoq(nb, bp)))
		return piece{wrapBlock(gl), fmt.Sprintf("(SBlock 1 (SSeq %s %s))", declc, forc)}
	default: // infinite loop with counter and break
		g.feat["for-inf"]++
		m := g.mark()
		g.pushFrame()
		b.fdBrk, b.fdCont = len(g.frames), len(g.frames)
		c := g.declare("c", false)
		declc := fmt.Sprintf("(SAssign 0 %d %s)", c.idx, coqZ(0))
		g.brks = append(g.brks, b)
		nb, bp := g.block(d+1, bodyOpt{nlocals: g.r.Intn(2), minStmts: 0, pre: func() []piece {
			return []piece{
				{[]string{c.name + "++"}, fmt.Sprintf("(SAssign %d %d (EAdd %s %s))", g.up(c), c.idx, g.coqVar(c), coqZ(1))},
				{[]string{fmt.Sprintf("if %s > %d {", c.name, bound), "\tbreak", "}"}, fmt.Sprintf("(SIf (ELt %s %s) 0 (SBreak None) false SSkip)", coqZ(bound), g.coqVar(c))},
			}
		}})
		g.brks = g.brks[:len(g.brks)-1]
		g.release(m)
		inner := labelLine(b)
		inner = append(inner, "for {")
		inner = append(inner, indent(joinGo(bp))...)
		inner = append(inner, "}")
		gl := append([]string{c.name + " := 0"}, inner...)
		forc := labelCoq(b, fmt.Sprintf("(SFor 0 [] None [] %s)", g.blockCoq(nb, bp)))
		return piece{wrapBlock(gl), fmt.Sprintf("(SBlock 1 (SSeq %s %s))", declc, forc)}
	}
}

// noteJump records (evidence) how many variable-declaring scopes (runtime env frames) a break/continue leaves
func (g *gen) noteJump(target *brk, isCont bool) {
	fd, kw := target.fdBrk, "break"
	if isCont {
		fd, kw = target.fdCont, "continue"
	}
	if fd > 0 {
		g.feat[fmt.Sprintf("jump-frames:%s:%d", kw, len(g.frames)-fd)]++
	}
}

// always-true condition that is not a constant expression
func (g *gen) trueCond() ex {
	v := g.pick(g.readable)
	return ex{fmt.Sprintf("%s == %s", v.name, v.name), fmt.Sprintf("(EEq %s %s)", g.coqVar(v), g.coqVar(v))}
}

// jumpTo: break/continue to the given construct, labelled when it is not the innermost candidate (or at random)
func (g *gen) jumpTo(target *brk, c ex) piece {
	isCont := target.isLoop && g.r.Chance(2, 5)
	innermost := false
	for i := len(g.brks) - 1; i >= 0; i-- {
		if isCont && !g.brks[i].isLoop {
			continue
		}
		innermost = g.brks[i] == target
		break
	}
	kw, ck := "break", "SBreak"
	if isCont {
		kw, ck = "continue", "SContinue"
	}
	g.noteJump(target, isCont)
	gs, cs := kw, fmt.Sprintf("(%s None)", ck)
	if !innermost || g.r.Chance(1, 3) {
		target.used = true
		gs = fmt.Sprintf("%s L%d", kw, target.id)
		cs = fmt.Sprintf("(%s (Some %d))", ck, target.id)
		g.feat[kw+"-label"]++
	} else {
		g.feat[kw]++
	}
	return piece{[]string{fmt.Sprintf("if %s {", c.g), "\t" + gs, "}"}, fmt.Sprintf("(SIf %s 0 %s false SSkip)", c.c, cs)}
}

// deepJump: a jump target (3-clause for, cond-only/infinite for, switch, goto label) around a nest of 0..6 scopes
// (plain blocks, if branches, inner loops, switch clauses), most of which declare variables, with a jump to that
// target in the innermost position: break / continue (labelled when an inner loop or switch is crossed) / goto
// leaving 0..8 runtime env frames at once.
func (g *gen) deepJump(d int) piece {
	g.feat["deep-jump"]++
	layers := g.r.Intn(7)
	var target *brk
	var lbl *gotoLbl
	var build func(k int) []piece
	layer := func(k int) []piece {
		// one scope around build(k+1)
		g.inject = func() []piece { return build(k + 1) }
		g.injectSkip = 0
		var p piece
		switch x := g.r.Intn(20); {
		case x < 9:
			nl := 0
			if g.r.Chance(4, 5) {
				nl = 1 + g.r.Intn(2)
			}
			nloc, ps := g.block(d+1, bodyOpt{nlocals: nl, minStmts: 0})
			p = piece{wrapBlock(joinGo(ps)), fmt.Sprintf("(SBlock %s)", g.blockCoq(nloc, ps))}
		case x < 13:
			g.injectSkip = g.r.Intn(2) // then or else branch
			p = g.ifStmt(d + 1)
		case x < 18:
			p = g.forStmt(d + 1)
		default:
			g.injectSkip = g.r.Intn(2)
			p = g.switchStmt(d + 1)
		}
		out := []piece{p}
		if g.inject != nil {
			// the construct had no such body (if without else, one-clause switch): use a plain block instead
			g.injectSkip = 0
			nloc, ps := g.block(d+1, bodyOpt{nlocals: 1, minStmts: 0})
			out = append(out, piece{wrapBlock(joinGo(ps)), fmt.Sprintf("(SBlock %s)", g.blockCoq(nloc, ps))})
		}
		return out
	}
	build = func(k int) []piece {
		if k == 0 && lbl == nil {
			target = g.brks[len(g.brks)-1] // the construct whose body we are in
		}
		if k < layers {
			return layer(k)
		}
		if lbl != nil {
			return []piece{g.gotoGuard(lbl)}
		}
		c := g.trueCond()
		if g.r.Chance(1, 3) {
			c = g.boolExpr(0)
		}
		return []piece{g.jumpTo(target, c)}
	}
	switch x := g.r.Intn(10); {
	case x < 5:
		g.inject = func() []piece { return build(0) }
		g.injectSkip = 0
		return g.forStmt(d)
	case x < 7:
		g.inject = func() []piece { return build(0) }
		g.injectSkip = 0
		p := g.switchStmt(d)
		g.inject = nil
		return p
	default:
		return g.gotoLoopWith(d, 2+g.r.Intn(2), func(lb *gotoLbl) []piece {
			lbl = lb
			return build(0)
		})
	}
}

// backward goto: { c := 0; L: c++; body...; if c < N { goto L } }  (the guard may also sit deeper inside body)
func (g *gen) gotoLoop(d int) piece {
	return g.gotoLoopWith(d, 1+g.r.Intn(3), nil)
}

// gotoLoopWith: body (when not nil) produces the first statements after the label's counter increment
func (g *gen) gotoLoopWith(d int, bound int, body func(lb *gotoLbl) []piece) piece {
	g.feat["goto"]++
	m := g.mark()
	g.pushFrame()
	c := g.declare("c", false)
	declc := fmt.Sprintf("(SAssign 0 %d %s)", c.idx, coqZ(0))
	lb := &gotoLbl{id: g.id(), counter: c, bound: bound, fd: len(g.frames)}
	g.gotos = append(g.gotos, lb)
	saved := g.brks
	// a goto may leave enclosing loops/switches of *this* block only; constructs outside stay visible for break/continue
	var ps []piece
	if body != nil {
		ps = append(ps, body(lb)...)
	}
	n := 1 + g.r.Intn(3)
	if body != nil {
		n = g.r.Intn(2)
	}
	for i := 0; i < n && g.budget > 0; i++ {
		p, stop := g.stmt(d + 1)
		ps = append(ps, p)
		if stop {
			break
		}
	}
	g.brks = saved
	guard := g.gotoGuard(lb)
	g.release(m)
	gl := []string{c.name + " := 0", fmt.Sprintf("G%d:", lb.id), c.name + "++"}
	gl = append(gl, joinGo(ps)...)
	gl = append(gl, guard.golines...)
	incc := fmt.Sprintf("(SLabeled %d (SAssign 0 %d (EAdd (EVar 0 %d) %s)))", lb.id, c.idx, c.idx, coqZ(1))
	all := append([]piece{{nil, declc}, {nil, incc}}, ps...)
	all = append(all, guard)
	return piece{wrapBlock(gl), fmt.Sprintf("(SBlock 1 %s)", seqCoq(all))}
}

func (g *gen) gotoGuard(lb *gotoLbl) piece {
	lb.used = true
	if lb.fd > 0 {
		g.feat[fmt.Sprintf("jump-frames:goto:%d", len(g.frames)-lb.fd)]++
	}
	return piece{[]string{fmt.Sprintf("if %s < %d {", lb.counter.name, lb.bound), fmt.Sprintf("\tgoto G%d", lb.id), "}"},
		fmt.Sprintf("(SIf (ELt %s %s) 0 (SGoto %d) false SSkip)", g.coqVar(lb.counter), coqZ(lb.bound), lb.id)}
}

func (g *gen) switchStmt(d int) piece {
	g.feat["switch"]++
	b := &brk{id: g.id(), isLoop: false, fdBrk: len(g.frames)}
	tagged := g.r.Chance(2, 3)
	var tag ex
	if tagged {
		tag = g.intExpr(true)
	}
	ncl := 1 + g.r.Intn(4)
	defPos := -1
	if g.r.Chance(3, 5) {
		defPos = g.r.Intn(ncl + 1)
		ncl++
	}
	usedConst := map[int]bool{}
	var gl []string
	coq := "CNil"
	type cl struct {
		head string
		kind string
		nb   int
		ps   []piece
		fall bool
	}
	var cls []cl
	g.brks = append(g.brks, b)
	allConst := true
	nconstPrefix := 0
	for i := 0; i < ncl; i++ {
		var c cl
		if i == defPos {
			c.head, c.kind = "default:", "CDefault"
			g.feat["switch-default"]++
		} else {
			ne := 1 + g.r.Intn(2)
			var ges, ces []string
			for j := 0; j < ne; j++ {
				if tagged {
					if g.r.Chance(3, 4) {
						k := g.r.Intn(8)
						for usedConst[k] {
							k = g.r.Intn(40)
						}
						usedConst[k] = true
						ges = append(ges, fmt.Sprint(k))
						ces = append(ces, coqZ(k))
						if allConst {
							nconstPrefix++
						}
					} else {
						e := g.intExpr(true)
						ges = append(ges, e.g)
						ces = append(ces, e.c)
						allConst = false
					}
				} else {
					e := g.boolExpr(1)
					ges = append(ges, e.g)
					ces = append(ces, e.c)
				}
			}
			c.head = "case " + strings.Join(ges, ", ") + ":"
			c.kind = "(CCase [" + strings.Join(ces, "; ") + "])"
		}
		// body
		nl := 0
		if g.r.Chance(1, 4) {
			nl = 1
		}
		minS := 0
		if g.r.Chance(4, 5) {
			minS = 1
		}
		c.nb, c.ps = g.block(d+1, bodyOpt{nlocals: nl, minStmts: minS})
		if i < ncl-1 && g.r.Chance(1, 4) {
			c.fall = true
			g.feat["fallthrough"]++
		}
		cls = append(cls, c)
	}
	g.brks = g.brks[:len(g.brks)-1]
	if nconstPrefix >= 2 {
		g.feat["switch-gotomap"]++
	}
	for i := len(cls) - 1; i >= 0; i-- {
		c := cls[i]
		fb := "false"
		if c.fall {
			fb = "true"
		}
		coq = fmt.Sprintf("(CCons %s %s %s %s)", c.kind, g.blockCoq(c.nb, c.ps), fb, coq)
	}
	gl = labelLine(b)
	if tagged {
		gl = append(gl, fmt.Sprintf("switch %s {", tag.g))
	} else {
		gl = append(gl, "switch {")
	}
	for _, c := range cls {
		gl = append(gl, c.head)
		gl = append(gl, indent(joinGo(c.ps))...)
		if c.fall {
			gl = append(gl, "\tfallthrough")
		}
	}
	gl = append(gl, "}")
	tc := "None"
	if tagged {
		tc = "(Some " + tag.c + ")"
	}
	return piece{gl, labelCoq(b, fmt.Sprintf("(SSwitch %s %s)", tc, coq))}
}

// ---------------------------------------------------------------- differential-only constructs (class B)

func (g *gen) extStmt(d int) (piece, bool) {
	if g.noEmit > 0 {
		return piece{}, false
	}
	switch g.r.Intn(15) {
	case 13, 14:
		return g.typedSwitch(d)
	case 0: // range over slice / array with key and value
		g.feat["range-slice"]++
		b := &brk{id: g.id(), isLoop: true}
		m := g.mark()
		g.pushFrame()
		k := g.declare("k", false)
		v := g.declare("x", false)
		g.brks = append(g.brks, b)
		_, bp := g.block(d+1, bodyOpt{nlocals: g.r.Intn(2), minStmts: 1, pre: func() []piece {
			return []piece{{[]string{fmt.Sprintf("emit(%s*10 + %s)", k.name, v.name)}, ""}}
		}})
		g.brks = g.brks[:len(g.brks)-1]
		g.release(m)
		lit := []string{"[]int{3, 1, 2}", "[3]int{0, 5, 1}", "[]int{}", "[]int{4}"}[g.r.Intn(4)]
		gl := labelLine(b)
		gl = append(gl, fmt.Sprintf("for %s, %s := range %s {", k.name, v.name, lit))
		gl = append(gl, indent(joinGo(bp))...)
		gl = append(gl, "}")
		return piece{gl, ""}, true
	case 1: // range over string
		g.feat["range-string"]++
		b := &brk{id: g.id(), isLoop: true}
		m := g.mark()
		g.pushFrame()
		k := g.declare("k", false)
		g.frames[len(g.frames)-1] = append(g.frames[len(g.frames)-1], "r") // rune var: not an int variable
		rn := fmt.Sprintf("r%d", g.id())
		g.brks = append(g.brks, b)
		_, bp := g.block(d+1, bodyOpt{nlocals: 0, minStmts: 1, pre: func() []piece {
			return []piece{{[]string{fmt.Sprintf("emit(%s*1000 + int(%s))", k.name, rn)}, ""}}
		}})
		g.brks = g.brks[:len(g.brks)-1]
		g.release(m)
		lit := []string{`"aé"`, `"\xffz"`, `""`, `"日本x"`}[g.r.Intn(4)]
		gl := labelLine(b)
		gl = append(gl, fmt.Sprintf("for %s, %s := range %s {", k.name, rn, lit))
		gl = append(gl, indent(joinGo(bp))...)
		gl = append(gl, "}")
		return piece{gl, ""}, true
	case 2: // range over map, order-insensitive accumulation
		g.feat["range-map"]++
		b := &brk{id: g.id(), isLoop: true, inMap: true}
		m := g.mark()
		g.pushFrame()
		acc := g.declare("m", true)
		g.pushFrame()
		k := g.declare("k", false)
		v := g.declare("x", false)
		g.brks = append(g.brks, b)
		g.noEmit++
		saveA := g.assignable
		g.assignable = []ref{acc} // only the accumulator may change, commutatively
		var bp []piece
		bp = append(bp, piece{[]string{fmt.Sprintf("if %s == %d {", k.name, 1+g.r.Intn(3)), "\tcontinue", "}"}, ""})
		bp = append(bp, piece{[]string{fmt.Sprintf("%s += %s*7 + %s", acc.name, k.name, v.name)}, ""})
		if g.r.Bool() {
			bp = append(bp, piece{[]string{fmt.Sprintf("switch {"), fmt.Sprintf("case %s > 15:", v.name), fmt.Sprintf("\t%s += 100", acc.name), "\tbreak", "default:", fmt.Sprintf("\t%s += 1000", acc.name), "}"}, ""})
		}
		g.assignable = saveA
		g.noEmit--
		g.brks = g.brks[:len(g.brks)-1]
		g.release(m)
		gl := []string{acc.name + " := 0"}
		gl = append(gl, fmt.Sprintf("for %s, %s := range map[int]int{1: 10, 2: 20, 3: 30} {", k.name, v.name))
		gl = append(gl, indent(joinGo(bp))...)
		gl = append(gl, "}", fmt.Sprintf("emit(%s)", acc.name))
		return piece{wrapBlock(gl), ""}, true
	case 3: // range over channel
		g.feat["range-chan"]++
		b := &brk{id: g.id(), isLoop: true}
		ch := fmt.Sprintf("ch%d", g.id())
		m := g.mark()
		g.pushFrame() // wrapper block frame (ch)
		g.frames[len(g.frames)-1] = append(g.frames[len(g.frames)-1], ch)
		g.pushFrame()
		v := g.declare("x", false)
		g.brks = append(g.brks, b)
		_, bp := g.block(d+1, bodyOpt{nlocals: g.r.Intn(2), minStmts: 1, pre: func() []piece {
			return []piece{{[]string{fmt.Sprintf("emit(%s)", v.name)}, ""}}
		}})
		g.brks = g.brks[:len(g.brks)-1]
		g.release(m)
		gl := []string{fmt.Sprintf("%s := make(chan int, 3)", ch), ch + " <- 7", ch + " <- 8", ch + " <- 9", fmt.Sprintf("close(%s)", ch)}
		gl = append(gl, labelLine(b)...)
		gl = append(gl, fmt.Sprintf("for %s := range %s {", v.name, ch))
		gl = append(gl, indent(joinGo(bp))...)
		gl = append(gl, "}")
		return piece{wrapBlock(gl), ""}, true
	case 4: // type switch
		g.feat["type-switch"]++
		b := &brk{id: g.id(), isLoop: false}
		iv := fmt.Sprintf("iv%d", g.id())
		y := fmt.Sprintf("y%d", g.id())
		m := g.mark()
		g.pushFrame()
		g.frames[len(g.frames)-1] = append(g.frames[len(g.frames)-1], iv)
		g.pushFrame()
		g.frames[len(g.frames)-1] = append(g.frames[len(g.frames)-1], y)
		g.brks = append(g.brks, b)
		lit := []string{"3", `"str"`, "2.5", "nil", "int8(4)", "[]int{1}"}[g.r.Intn(6)]
		heads := []struct{ h, e string }{
			{"case int:", fmt.Sprintf("emit(100 + %s)", y)},
			{"case string:", fmt.Sprintf("emit(200 + len(%s))", y)},
			{"case nil:", "emit(300)"},
			{"case int8, float64:", fmt.Sprintf("_ = %s; emit(400)", y)},
			{"default:", fmt.Sprintf("_ = %s; emit(500)", y)},
		}
		// random subset in random order
		for i := len(heads) - 1; i > 0; i-- {
			j := g.r.Intn(i + 1)
			heads[i], heads[j] = heads[j], heads[i]
		}
		nh := 1 + g.r.Intn(len(heads))
		gl := []string{fmt.Sprintf("var %s interface{} = %s", iv, lit)}
		hdr := len(gl)
		gl = append(gl, "")
		usesY := false
		for _, h := range heads[:nh] {
			gl = append(gl, h.h, "\t"+h.e)
			if strings.Contains(h.e, y) {
				usesY = true
			}
			_, bp := g.block(d+1, bodyOpt{nlocals: g.r.Intn(2), minStmts: 0})
			gl = append(gl, indent(joinGo(bp))...)
		}
		gl = append(gl, "}")
		if usesY {
			gl[hdr] = fmt.Sprintf("switch %s := %s.(type) {", y, iv)
		} else {
			gl[hdr] = fmt.Sprintf("switch %s.(type) {", iv)
		}
		g.brks = g.brks[:len(g.brks)-1]
		g.release(m)
		if b.used {
			gl[hdr] = fmt.Sprintf("L%d:\n", b.id) + gl[hdr]
		}
		return piece{wrapBlock(gl), ""}, true
	case 5: // select: exactly one ready communication, or default
		g.feat["select"]++
		b := &brk{id: g.id(), isLoop: false}
		ch := fmt.Sprintf("ch%d", g.id())
		ch2 := fmt.Sprintf("ch%d", g.id())
		x := fmt.Sprintf("x%d", g.id())
		m := g.mark()
		g.pushFrame()
		g.frames[len(g.frames)-1] = append(g.frames[len(g.frames)-1], ch, ch2)
		g.brks = append(g.brks, b)
		mode := g.r.Intn(3)
		gl := []string{fmt.Sprintf("%s := make(chan int, 1)", ch), fmt.Sprintf("%s := make(chan int, 1)", ch2)}
		switch mode {
		case 0: // receive ready on ch; ch2 empty (recv not ready); send on ch would block (full)
			gl = append(gl, ch+" <- 7")
		case 1: // nothing ready for receive; ch2 full so send not ready -> default
			gl = append(gl, ch2+" <- 5")
		case 2: // send on ch2 ready (empty buffer), ch empty
		}
		var sel []string
		g.pushFrame()
		g.frames[len(g.frames)-1] = append(g.frames[len(g.frames)-1], x)
		_, b1 := g.block(d+1, bodyOpt{nlocals: g.r.Intn(2), minStmts: 0})
		sel = append(sel, fmt.Sprintf("case %s := <-%s:", x, ch), fmt.Sprintf("\temit(600 + %s)", x))
		sel = append(sel, indent(joinGo(b1))...)
		if mode != 1 {
			_, b2 := g.block(d+1, bodyOpt{nlocals: 0, minStmts: 0})
			one := "1"
			if g.avoid.selectConst {
				one = "v0*0 + 1" // an untyped constant in a select send is rejected while the defect is open
			}
			sel = append(sel, fmt.Sprintf("case %s <- %s:", ch2, one), "\temit(700)")
			sel = append(sel, indent(joinGo(b2))...)
		}
		if mode == 1 || g.r.Bool() {
			_, b3 := g.block(d+1, bodyOpt{nlocals: 0, minStmts: 0})
			sel = append(sel, "default:", "\temit(800)")
			sel = append(sel, indent(joinGo(b3))...)
		}
		g.brks = g.brks[:len(g.brks)-1]
		g.release(m)
		if mode == 0 {
			// make the send case not ready: fill ch2
			gl = append(gl, ch2+" <- 5")
		}
		gl = append(gl, labelLine(b)...)
		gl = append(gl, "select {")
		gl = append(gl, sel...)
		gl = append(gl, "}")
		return piece{wrapBlock(gl), ""}, true
	case 6: // closures capturing the header variable of a 3-clause for (per-loop variable in go1.18 semantics)
		g.feat["closure-for3"]++
		fs := fmt.Sprintf("fs%d", g.id())
		i := fmt.Sprintf("i%d", g.id())
		f := fmt.Sprintf("f%d", g.id())
		n := 1 + g.r.Intn(3)
		gl := []string{fmt.Sprintf("var %s []func() int", fs),
			fmt.Sprintf("for %s := 0; %s < %d; %s++ {", i, i, n, i),
			fmt.Sprintf("\t%s = append(%s, func() int { return %s * 10 })", fs, fs, i), "}",
			fmt.Sprintf("for _, %s := range %s {", f, fs), fmt.Sprintf("\temit(%s())", f), "}"}
		return piece{wrapBlock(gl), ""}, true
	case 7: // closures capturing range variables (per-loop)
		g.feat["closure-range"]++
		fs := fmt.Sprintf("fs%d", g.id())
		k := fmt.Sprintf("k%d", g.id())
		x := fmt.Sprintf("x%d", g.id())
		f := fmt.Sprintf("f%d", g.id())
		capt := fmt.Sprintf("%s*100 + %s", k, x)
		if g.avoid.rangeKey {
			capt = fmt.Sprintf("%s*0 + %s", k, x) // the key's value after the loop is wrong while the defect is open
		}
		gl := []string{fmt.Sprintf("var %s []func() int", fs),
			fmt.Sprintf("for %s, %s := range []int{5, 6, 7} {", k, x),
			fmt.Sprintf("\t%s = append(%s, func() int { return %s })", fs, fs, capt), "}",
			fmt.Sprintf("for _, %s := range %s {", f, fs), fmt.Sprintf("\temit(%s())", f), "}"}
		return piece{wrapBlock(gl), ""}, true
	case 8: // if with init declaration
		g.feat["if-init"]++
		m := g.mark()
		g.pushFrame()
		e := g.rhs()
		t := g.declare("t", true)
		_, tp := g.block(d+1, bodyOpt{nlocals: g.r.Intn(2), minStmts: 1})
		_, ep := g.block(d+1, bodyOpt{nlocals: g.r.Intn(2), minStmts: 1})
		g.release(m)
		gl := []string{fmt.Sprintf("if %s := %s; %s < %d {", t.name, e.g, t.name, g.r.Intn(5))}
		gl = append(gl, indent(joinGo(tp))...)
		gl = append(gl, "} else {", fmt.Sprintf("\temit(%s)", t.name))
		gl = append(gl, indent(joinGo(ep))...)
		gl = append(gl, "}")
		return piece{gl, ""}, true
	case 10: // range with '=' into variables of an outer scope (slice/array and string), values after the loop
		if g.avoid.rangeAssign {
			return piece{}, false
		}
		g.feat["range-assign-outer"]++
		k := fmt.Sprintf("k%d", g.id())
		x := fmt.Sprintf("x%d", g.id())
		rn := fmt.Sprintf("r%d", g.id())
		a := fmt.Sprintf("a%d", g.id())
		sl := []string{"[]int{4, 5}", "[3]int{7, 0, 2}", "[]int{}", "[]int{6}"}[g.r.Intn(4)]
		st := []string{`"aé"`, `"héllo"`, `""`, `"日本x"`}[g.r.Intn(4)]
		gl := []string{fmt.Sprintf("%s, %s := 9, 9", k, x), fmt.Sprintf("var %s rune = 'q'", rn), fmt.Sprintf("var %s [2]int", a)}
		loopS := []string{fmt.Sprintf("for %s, %s = range %s {", k, x, sl), fmt.Sprintf("\temit(%s*10 + %s)", k, x)}
		if g.r.Bool() {
			loopS = append(loopS, fmt.Sprintf("\t%s += 5", k)) // assigning the key does not affect the iteration
		}
		loopS = append(loopS, "}", fmt.Sprintf("emit(%s*10 + %s)", k, x))
		loopR := []string{fmt.Sprintf("for %s, %s = range %s {", k, rn, st), fmt.Sprintf("\temit(%s*1000 + int(%s))", k, rn), "}",
			fmt.Sprintf("emit(%s*1000 + int(%s))", k, rn)}
		loopA := []string{fmt.Sprintf("for %s[1], %s = range %s {", a, rn, st), "}", fmt.Sprintf("emit(%s[1]*1000 + int(%s))", a, rn)}
		if g.r.Bool() {
			// the loops run inside a closure: the variables are reached through an outer frame
			inner := append(append(append([]string{}, loopS...), loopR...), loopA...)
			gl = append(gl, "func() {")
			gl = append(gl, indent(inner)...)
			gl = append(gl, "}()")
		} else {
			gl = append(append(append(gl, loopS...), loopR...), loopA...)
		}
		return piece{wrapBlock(gl), ""}, true
	case 11: // select receiving (value, ok) from a closed channel
		if g.avoid.selectOk {
			return piece{}, false
		}
		g.feat["select-recv-ok"]++
		ch := fmt.Sprintf("ch%d", g.id())
		x := fmt.Sprintf("x%d", g.id())
		ok := fmt.Sprintf("ok%d", g.id())
		gl := []string{fmt.Sprintf("%s := make(chan int, 2)", ch)}
		for i, n := 0, g.r.Intn(3); i < n; i++ {
			gl = append(gl, fmt.Sprintf("%s <- %d", ch, 7+i))
		}
		gl = append(gl, fmt.Sprintf("close(%s)", ch), fmt.Sprintf("var %s int", x), fmt.Sprintf("var %s bool", ok), fmt.Sprintf("_, _ = %s, %s", x, ok))
		for i := 0; i < 3; i++ {
			if g.r.Bool() {
				y, ok2 := fmt.Sprintf("y%d", g.id()), fmt.Sprintf("ok%d", g.id())
				gl = append(gl, "select {", fmt.Sprintf("case %s, %s := <-%s:", y, ok2, ch), fmt.Sprintf("\temit(900 + %s)", y),
					fmt.Sprintf("\tif %s {", ok2), "\t\temit(1)", "\t} else {", "\t\temit(0)", "\t}", "}")
			} else {
				gl = append(gl, "select {", fmt.Sprintf("case %s, %s = <-%s:", x, ok, ch), fmt.Sprintf("\temit(900 + %s)", x),
					fmt.Sprintf("\tif %s {", ok), "\t\temit(1)", "\t} else {", "\t\temit(0)", "\t}", "}")
			}
		}
		return piece{wrapBlock(gl), ""}, true
	case 12: // go statement: arguments (array, struct) are evaluated and copied by the go statement
		if g.avoid.goArgs {
			return piece{}, false
		}
		g.feat["go-args"]++
		done := fmt.Sprintf("done%d", g.id())
		gate := fmt.Sprintf("gate%d", g.id())
		a := fmt.Sprintf("a%d", g.id())
		s := fmt.Sprintf("s%d", g.id())
		if g.r.Chance(1, 2) {
			// ... and so is the FUNCTION VALUE: a non-constant operand (slice element / call result) whose inputs the
			// caller changes directly after the go statement; the goroutine must run the function selected before
			g.feat["go-func-operand"]++
			fs, k := fmt.Sprintf("fs%d", g.id()), fmt.Sprintf("k%d", g.id())
			sig := "func(t [2]int, u struct{ X, Y int }, w int)"
			operand, after := fmt.Sprintf("%s[%s]", fs, k), fmt.Sprintf("%s = 1", k)
			switch g.r.Intn(3) {
			case 1:
				after = fmt.Sprintf("%s[0] = %s[1]", fs, fs)
			case 2:
				operand = fmt.Sprintf("func(p *int) %s { return %s[*p] }(&%s)", sig, fs, k)
			}
			gl := []string{fmt.Sprintf("%s, %s := make(chan int), make(chan int)", done, gate),
				fmt.Sprintf("%s := [2]int{1, 2}", a), fmt.Sprintf("%s := struct{ X, Y int }{3, 4}", s),
				fmt.Sprintf("%s := []%s{%s { <-%s; %s <- t[0]*100 + u.Y*10 + w }, %s { <-%s; %s <- 7000 + t[0] + w }}", fs, sig, sig, gate, done, sig, gate, done),
				fmt.Sprintf("%s := 0", k),
				fmt.Sprintf("go %s(%s, %s, %s[1])", operand, a, s, a),
				after,
				fmt.Sprintf("%s[0], %s[1], %s.Y = 9, 9, 9", a, a, s), fmt.Sprintf("_ = %s", k), fmt.Sprintf("%s <- 0", gate), fmt.Sprintf("emit(<-%s)", done)}
			return piece{wrapBlock(gl), ""}, true
		}
		gl := []string{fmt.Sprintf("%s, %s := make(chan int), make(chan int)", done, gate),
			fmt.Sprintf("%s := [2]int{1, 2}", a), fmt.Sprintf("%s := struct{ X, Y int }{3, 4}", s),
			fmt.Sprintf("go func(t [2]int, u struct{ X, Y int }, w int) { <-%s; %s <- t[0]*100 + u.Y*10 + w }(%s, %s, %s[1])", gate, done, a, s, a),
			fmt.Sprintf("%s[0], %s[1], %s.Y = 9, 9, 9", a, a, s), fmt.Sprintf("%s <- 0", gate), fmt.Sprintf("emit(<-%s)", done)}
		return piece{wrapBlock(gl), ""}, true
	default: // switch with init declaration
		g.feat["switch-init"]++
		b := &brk{id: g.id(), isLoop: false}
		m := g.mark()
		g.pushFrame()
		e := g.rhs()
		t := g.declare("t", true)
		g.brks = append(g.brks, b)
		_, p1 := g.block(d+1, bodyOpt{nlocals: g.r.Intn(2), minStmts: 1})
		_, p2 := g.block(d+1, bodyOpt{nlocals: 0, minStmts: 1})
		g.brks = g.brks[:len(g.brks)-1]
		g.release(m)
		gl := labelLine(b)
		gl = append(gl, fmt.Sprintf("switch %s := %s; %s {", t.name, e.g, t.name))
		k1 := g.r.Intn(4)
		gl = append(gl, "default:")
		gl = append(gl, indent(joinGo(p2))...)
		gl = append(gl, fmt.Sprintf("case %d, %d:", k1, k1+7), fmt.Sprintf("\temit(%s)", t.name))
		gl = append(gl, indent(joinGo(p1))...)
		gl = append(gl, "}")
		return piece{gl, ""}, true
	}
}

// ---------------------------------------------------------------- whole program

type program struct {
	Idx   int            `json:"idx"`
	Src   string         `json:"src"` // body of func pN() (v0, v1, v2, v3 int)
	Coq   string         `json:"-"`
	Mini  bool           `json:"mini"`
	Nodes int            `json:"-"`
	Feat  map[string]int `json:"-"`
}

const nres = 4

// avoidSet: input classes of open findings (true = defect present, avoid the class)
type avoidSet struct{ topGoto, rangeKey, selectConst, rangeAssign, selectOk, goArgs bool }

func genProgram(r *vh.Rng, maxDepth int, ext bool, avoid avoidSet, focus string, small bool) *program {
	topGoto := !avoid.topGoto
	g := &gen{r: r, maxDepth: maxDepth, ext: ext, budget: 14 + r.Intn(22), avoid: avoid, feat: map[string]int{}}
	if small {
		g.budget = 0 // skeleton: the focused constructs with their locals and jumps, no random statements around them
	}
	g.frames = [][]string{nil}
	for i := 0; i < nres; i++ {
		v := ref{fmt.Sprintf("v%d", i), 0, i}
		g.frames[0] = append(g.frames[0], v.name)
		g.readable = append(g.readable, v)
		g.assignable = append(g.assignable, v)
	}
	var ps []piece
	var topLbl *gotoLbl
	if topGoto && r.Chance(1, 3) {
		// backward goto to a label at function top level, driven by result variable v3 (excluded from assignments)
		g.assignable = g.assignable[:nres-1]
		topLbl = &gotoLbl{id: g.id(), counter: ref{"v3", 0, 3}, bound: 1 + r.Intn(3), fd: 1}
		g.gotos = append(g.gotos, topLbl)
		g.feat["goto-toplevel"]++
	}
	n := 2 + r.Intn(4)
	if small {
		n = 1
	}
	for i := 0; i < n; i++ {
		var p piece
		stop := false
		switch {
		case focus == "deepjump" && (small || r.Chance(3, 5)):
			p = g.deepJump(1)
		case focus == "constif" && (small || r.Chance(7, 10)):
			if r.Chance(4, 5) {
				p = g.constIf(1)
			} else {
				p = g.constFor(1)
			}
			g.usedExt = true
		case focus == "tswitch" && (small || r.Chance(7, 10)):
			p, _ = g.typedSwitch(1)
			g.usedExt = true
		default:
			p, stop = g.stmt(1)
		}
		ps = append(ps, p)
		if stop {
			break
		}
	}
	if topLbl != nil {
		inc := piece{[]string{fmt.Sprintf("G%d:", topLbl.id), "v3++"}, fmt.Sprintf("(SLabeled %d (SAssign 0 3 (EAdd (EVar 0 3) (EConst 1))))", topLbl.id)}
		ps = append([]piece{inc}, ps...)
		ps = append(ps, g.gotoGuard(topLbl))
	}
	ps = append(ps, piece{[]string{"return"}, "SReturn"})
	src := strings.Join(indent(joinGo(ps)), "\n")
	coq := seqCoq(ps)
	return &program{Src: src, Coq: coq, Mini: !g.usedExt, Nodes: strings.Count(coq, "(") + 20, Feat: g.feat}
}

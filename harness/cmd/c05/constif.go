package main

// Focused stream "constif" (differential only): if / else-if / else chains and `for` loops whose conditions are
// CONSTANT expressions (the compiler folds them and drops the dead code: fast.Comp.If, fast.Comp.For), in every
// mix with non-constant conditions, with and without an init statement, with and without a final else.
// Every arm starts with an emit of its own marker, so which arm ran is visible in the event trace that is
// compared with compiled Go.

import "fmt"

// constCond returns a constant boolean expression with the given value; decl (possibly empty) are the constant
// declarations it refers to (placed in front of the statement).
func (g *gen) constCond(val bool) (decl []string, cond string) {
	id := g.id()
	pickS := func(t, f []string) string {
		if val {
			return t[g.r.Intn(len(t))]
		}
		return f[g.r.Intn(len(f))]
	}
	switch g.r.Intn(8) {
	case 0: // literal
		return nil, fmt.Sprint(val)
	case 1: // negated literal
		return nil, fmt.Sprintf("!%v", !val)
	case 2: // named untyped / typed boolean constant
		typ := []string{"", " bool"}[g.r.Intn(2)]
		return []string{fmt.Sprintf("const c%d%s = %v", id, typ, val)}, fmt.Sprintf("c%d", id)
	case 3: // comparison of a named integer constant with a literal
		k := g.r.Intn(50)
		d := []string{fmt.Sprintf("const c%d = %d", id, k)}
		return d, pickS(
			[]string{fmt.Sprintf("c%d < 100", id), fmt.Sprintf("c%d == %d", id, k), fmt.Sprintf("c%d >= %d", id, k), fmt.Sprintf("c%d != %d", id, k+1)},
			[]string{fmt.Sprintf("c%d > 100", id), fmt.Sprintf("c%d != %d", id, k), fmt.Sprintf("c%d < %d", id, k), fmt.Sprintf("c%d == %d", id, k+1)})
	case 4: // comparison of literals (int, string, float, rune)
		return nil, pickS(
			[]string{"1 < 2", `"a" != "b"`, "2.5 >= 2.5", "'x' == 'x'", "3*4 == 12"},
			[]string{"1 > 2", `"a" == "b"`, "2.5 < 2.5", "'x' != 'x'", "3*4 == 13"})
	case 5: // logical operators over constants
		return nil, pickS(
			[]string{"true && !false", "false || true", "!(1 > 2)", "(1 < 2) && (2 < 3)"},
			[]string{"true && false", "false || false", "!(1 < 2)", "(1 < 2) && (3 < 2)"})
	case 6: // constant builtins
		return nil, pickS(
			[]string{`len("ab") == 2`, "len([3]int{}) == 3"},
			[]string{`len("ab") == 3`, "len([3]int{}) == 0"})
	default: // named constant defined through other constants, negated
		d := []string{fmt.Sprintf("const c%d = %v", id, !val), fmt.Sprintf("const d%d = !c%d", id, id)}
		return d, fmt.Sprintf("d%d", id)
	}
}

// constIf: a chain of 1..4 arms; every condition is constant-false / constant-true / not constant
func (g *gen) constIf(d int) piece {
	g.feat["const-cond-if"]++
	narms := 1 + g.r.Intn(4)
	hasElse := g.r.Chance(3, 4)
	marker := 1000 * (1 + g.r.Intn(9))
	var decls, gl []string
	m := g.mark()
	pushed := 0
	shape := ""
	for i := 0; i < narms; i++ {
		var cond string
		switch g.r.Intn(5) {
		case 0, 1:
			var dc []string
			dc, cond = g.constCond(false)
			decls = append(decls, dc...)
			shape += "F"
		case 2:
			var dc []string
			dc, cond = g.constCond(true)
			decls = append(decls, dc...)
			shape += "T"
		default:
			cond = g.boolExpr(0).g
			shape += "v"
		}
		init, tname := "", ""
		if g.r.Chance(1, 4) {
			// init statement: one more scope around this arm and all later ones
			g.pushFrame()
			pushed++
			e := g.rhs()
			t := g.declare("t", true)
			tname = t.name
			init = fmt.Sprintf("%s := %s; ", t.name, e.g)
			shape += "i"
		}
		mk := marker + i
		_, bp := g.block(d+1, bodyOpt{nlocals: g.r.Intn(2), minStmts: 1, pre: func() []piece {
			ps := []piece{{[]string{fmt.Sprintf("emit(%d)", mk)}, ""}}
			if tname != "" {
				ps = append(ps, piece{[]string{fmt.Sprintf("emit(%s)", tname)}, ""})
			}
			return ps
		}})
		head := fmt.Sprintf("if %s%s {", init, cond)
		if i > 0 {
			head = "} else " + head
		}
		gl = append(gl, head)
		gl = append(gl, indent(joinGo(bp))...)
	}
	if hasElse {
		shape += "e"
		mk := marker + narms
		_, bp := g.block(d+1, bodyOpt{nlocals: g.r.Intn(2), minStmts: 1, pre: func() []piece {
			return []piece{{[]string{fmt.Sprintf("emit(%d)", mk)}, ""}}
		}})
		gl = append(gl, "} else {")
		gl = append(gl, indent(joinGo(bp))...)
	}
	gl = append(gl, "}")
	g.release(m)
	_ = pushed
	g.feat["const-cond-if:"+shape]++
	out := append(decls, gl...)
	out = append(out, fmt.Sprintf("emit(%d)", marker+99))
	if len(decls) > 0 {
		out = wrapBlock(out)
	}
	return piece{out, ""}
}

// constFor: `for <constant false> { ... }` (body never runs; code after it must) and
// `for <constant true> { ...; break }` driven by a bounded counter
func (g *gen) constFor(d int) piece {
	g.feat["const-cond-for"]++
	marker := 1000 * (10 + g.r.Intn(9))
	if g.r.Bool() {
		dc, cond := g.constCond(false)
		_, bp := g.block(d+1, bodyOpt{nlocals: g.r.Intn(2), minStmts: 1, pre: func() []piece {
			return []piece{{[]string{fmt.Sprintf("emit(%d)", marker)}, ""}}
		}})
		gl := append(dc, fmt.Sprintf("for %s {", cond))
		gl = append(gl, indent(joinGo(bp))...)
		gl = append(gl, "}", fmt.Sprintf("emit(%d)", marker+99))
		return piece{wrapBlock(gl), ""}
	}
	dc, cond := g.constCond(true)
	cn := fmt.Sprintf("n%d", g.id())
	bound := 1 + g.r.Intn(3)
	gl := append(dc, cn+" := 0", fmt.Sprintf("for %s {", cond),
		fmt.Sprintf("\t%s++", cn), fmt.Sprintf("\temit(%d + %s)", marker, cn),
		fmt.Sprintf("\tif %s >= %d {", cn, bound), "\t\tbreak", "\t}")
	ic := g.constIf(d + 1)
	gl = append(gl, indent(ic.golines)...)
	gl = append(gl, "}", fmt.Sprintf("emit(%d)", marker+99))
	return piece{wrapBlock(gl), ""}
}

package main

// Expression switches over tags of every kind the interpreter specialises (switch2.go: bool, the integer kinds,
// floats, complex, string) and of the kinds that take the generic path (interface{}, arrays, structs), mixing
// constant and non-constant case expressions.  The non-constant ones (a variable, or a call with a side effect that
// is logged) take their values from the same pool as the constants, so that a non-constant case frequently equals an
// earlier or a LATER constant case: Go evaluates the case expressions left-to-right, top-to-bottom and takes the
// first match, whatever jump table the interpreter has built from the constants.  Each switch is executed once for
// every value of the pool (and a value that matches nothing).  Differential only (class B).

import (
	"fmt"
	"strings"
)

type tkind struct {
	typ    string
	consts []string // distinct constants (distinct values after conversion to typ)
	extra  []string // further values, usable as tag value and in non-constant case expressions only
}

var tkinds = []tkind{
	{"int", []string{"0", "1", "2", "3", "5", "-1", "100", "7"}, nil},
	{"int8", []string{"0", "1", "-1", "127", "-128", "5"}, nil},
	{"int16", []string{"0", "1", "-1", "32767", "300"}, nil},
	{"int32", []string{"0", "1", "-7", "2147483647", "65536"}, nil},
	{"int64", []string{"0", "1", "-1", "9223372036854775807", "4294967296", "3"}, nil},
	{"uint", []string{"0", "1", "2", "9", "4000000000"}, nil},
	{"uint8", []string{"0", "1", "255", "7", "9"}, nil},
	{"uint16", []string{"0", "1", "65535", "256"}, nil},
	{"uint32", []string{"0", "1", "4294967295", "70000"}, nil},
	{"uint64", []string{"0", "1", "18446744073709551615", "7", "2"}, nil},
	{"uintptr", []string{"0", "1", "4096", "3"}, nil},
	{"float32", []string{"0.5", "1.5", "2", "-1.25", "0"}, nil},
	{"float64", []string{"0.5", "1.5", "2", "-1.25", "100", "0"}, nil},
	{"complex64", []string{"1 + 2i", "2i", "3", "0.5 - 1i"}, nil},
	{"complex128", []string{"1 + 2i", "2i", "3", "0.5 - 1i", "0"}, nil},
	{"string", []string{`"a"`, `"b"`, `""`, `"ab"`, `"é"`, `"zz"`}, nil},
	{"bool", []string{"true", "false"}, nil},
	{"rune", []string{"'a'", "'b'", "'é'", "0", "10"}, nil},
	{"interface{}", []string{"1", "2", `"a"`, `"b"`, "2.5", "'x'", "true", "false", "1 + 2i", "int8(1)", "uint(2)", "3"},
		[]string{"nil", "[2]int{1, 2}", "struct{ A int }{1}", "int64(1)"}},
	{"[2]int", nil, []string{"[2]int{1, 2}", "[2]int{2, 1}", "[2]int{}", "[2]int{1, 1}"}},
	{"struct{ A int; B string }", nil, []string{`struct{ A int; B string }{1, "a"}`, `struct{ A int; B string }{1, "b"}`, `struct{ A int; B string }{}`}},
}

// kinds taking the generic path of switchGotoMap are generated more often
func (g *gen) pickTKind() tkind {
	if g.r.Chance(1, 4) {
		return tkinds[18]
	}
	return tkinds[g.r.Intn(len(tkinds))]
}

func (g *gen) typedSwitch(d int) (piece, bool) {
	if g.noEmit > 0 {
		return piece{}, false
	}
	k := g.pickTKind()
	g.feat["switch-typed"]++
	g.feat["switch-typed:"+k.typ]++
	n := g.id()
	pool := append(append([]string{}, k.consts...), k.extra...)
	ev := fmt.Sprintf("ev%d", n)
	tg := fmt.Sprintf("tg%d", n)
	gl := []string{fmt.Sprintf("%s := func(id int, v %s) %s { emit(id); return v }", ev, k.typ, k.typ), "_ = " + ev}
	// ---- clauses
	ncl := 2 + g.r.Intn(5)
	defPos := -1
	if g.r.Chance(3, 5) {
		defPos = g.r.Intn(ncl + 1)
		ncl++
	}
	free := append([]string{}, k.consts...) // constants not used yet
	for i := len(free) - 1; i > 0; i-- {
		j := g.r.Intn(i + 1)
		free[i], free[j] = free[j], free[i]
	}
	lb := &brk{id: g.id(), isLoop: true, fdBrk: 0}
	sb := &brk{id: g.id(), isLoop: false}
	m := g.mark()
	g.pushFrame()
	g.frames[len(g.frames)-1] = append(g.frames[len(g.frames)-1], ev)
	g.pushFrame()
	g.frames[len(g.frames)-1] = append(g.frames[len(g.frames)-1], tg)
	g.brks = append(g.brks, lb, sb)
	var sw []string
	leadConst, sawNonConst, mixed := 0, false, false
	for i := 0; i < ncl; i++ {
		if i == defPos {
			sw = append(sw, "default:")
		} else {
			ne := 1 + g.r.Intn(3)
			var es []string
			for j := 0; j < ne; j++ {
				if len(free) > 0 && g.r.Chance(3, 5) {
					es = append(es, free[0])
					free = free[1:]
					if !sawNonConst {
						leadConst++
					} else {
						mixed = true
					}
					continue
				}
				sawNonConst = true
				v := pool[g.r.Intn(len(pool))]
				if g.r.Bool() {
					w := fmt.Sprintf("w%d", g.id())
					gl = append(gl, fmt.Sprintf("var %s %s = %s", w, k.typ, v))
					es = append(es, w)
				} else {
					es = append(es, fmt.Sprintf("%s(%d, %s)", ev, 2000+g.id()%1000, v))
				}
			}
			sw = append(sw, "case "+strings.Join(es, ", ")+":")
		}
		sw = append(sw, fmt.Sprintf("\temit(%d)", 1000+i))
		switch x := g.r.Intn(10); {
		case x < 2:
			c := g.boolExpr(1)
			sw = append(sw, fmt.Sprintf("\tif %s {", c.g), "\t\tbreak", "\t}", fmt.Sprintf("\temit(%d)", 1100+i))
		case x < 3:
			c := g.boolExpr(1)
			sw = append(sw, fmt.Sprintf("\tif %s {", c.g), "\t\tcontinue", "\t}", fmt.Sprintf("\temit(%d)", 1200+i))
		case x < 5:
			_, bp := g.block(d+1, bodyOpt{nlocals: g.r.Intn(2), minStmts: 1})
			sw = append(sw, indent(joinGo(bp))...)
		}
		if i < ncl-1 && g.r.Chance(1, 5) {
			sw = append(sw, "\tfallthrough")
			g.feat["fallthrough"]++
		}
	}
	g.brks = g.brks[:len(g.brks)-2]
	g.release(m)
	if leadConst >= 2 {
		g.feat["switch-typed-gotomap"]++
		if mixed {
			g.feat["switch-typed-gotomap+const-after-nonconst"]++
		}
	}
	// ---- tag values: the whole pool in PRNG order
	vals := append([]string{}, pool...)
	for i := len(vals) - 1; i > 0; i-- {
		j := g.r.Intn(i + 1)
		vals[i], vals[j] = vals[j], vals[i]
	}
	tagx := tg
	switch g.r.Intn(6) {
	case 0, 1:
		tagx = fmt.Sprintf("%s(%d, %s)", ev, 2000+g.id()%1000, tg)
	case 2:
		x := fmt.Sprintf("x%d", g.id())
		tagx = fmt.Sprintf("%s := %s; %s", x, tg, x)
	}
	gl = append(gl, labelLine(lb)...)
	gl = append(gl, fmt.Sprintf("for k%d, %s := range []%s{%s} {", n, tg, k.typ, strings.Join(vals, ", ")), fmt.Sprintf("\temit(3000 + k%d)", n))
	if sb.used {
		gl = append(gl, fmt.Sprintf("L%d:", sb.id))
	}
	gl = append(gl, "\tswitch "+tagx+" {")
	gl = append(gl, indent(sw)...)
	gl = append(gl, "\t}", "}")
	return piece{wrapBlock(gl), ""}, true
}

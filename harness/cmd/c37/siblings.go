// siblings.go: part 3 of the c37 generator - "sibling" tables.
//
// A target command T shares its first-letter bucket with sibling names S derived from T so that every combination of
//
//	len(S) shorter / equal / longer than the looked-up prefix  x  S sorts before / after T  x
//	S is a prefix of T / T is a prefix of S / neither
//
// occurs; then EVERY prefix of every present name and near-miss strings of those prefixes (last byte -1/+1, one byte
// appended) are looked up, before and after deletions and re-additions.  The range scan of prefixSearch (first match ..
// first name comparing greater) is only exercised by lookups LONGER than some later sibling, which the {a,b,c}^(1..3)
// tables of part 1 cannot contain (needs prefix >= 3 bytes, target >= 4 bytes, sibling 2 bytes).
// Oracle: the same reference as the other parts (ref.lookup: filter names by strings.HasPrefix) + the Coq model.
package main

import (
	"sort"

	"verifh/vh"
)

// siblingsOf returns names derived from t: for every position k (1-based) the strings
//
//	t[:k-1]+c            (short, differs from t in its last byte: c = t[k-1]-1 sorts before t, c = t[k-1]+1 after t)
//	t[:k-1]+c+t[k:]      (same length as t)
//	t[:k-1]+c+t[k:]+"a"  (longer than t)
//	t[:k]                (proper prefix of t), and t+"a", t+"z" (t is a prefix of them)
//
// k = 1 changes the first letter (different bucket: control group).
func siblingsOf(t string) []string {
	seen := map[string]bool{t: true, "": true}
	var out []string
	put := func(s string) {
		if !seen[s] {
			seen[s] = true
			out = append(out, s)
		}
	}
	for k := 1; k <= len(t); k++ {
		for _, d := range []int{-1, +1} {
			c := string(rune(int(t[k-1]) + d))
			put(t[:k-1] + c)
			put(t[:k-1] + c + t[k:])
			put(t[:k-1] + c + t[k:] + "a")
		}
		if k < len(t) {
			put(t[:k])
		}
	}
	put(t + "a")
	put(t + "z")
	return out
}

// lookupsFor: every prefix of every name, plus near misses of each prefix; deduplicated, sorted; "" included
func lookupsFor(names []string, nearMiss bool) []string {
	seen := map[string]bool{"": true}
	out := []string{""}
	put := func(s string) {
		if !seen[s] {
			seen[s] = true
			out = append(out, s)
		}
	}
	for _, n := range names {
		for k := 1; k <= len(n); k++ {
			p := n[:k]
			put(p)
			if nearMiss {
				put(p[:k-1] + string(rune(int(p[k-1])-1)))
				put(p[:k-1] + string(rune(int(p[k-1])+1)))
				put(p + "a")
			}
		}
	}
	sort.Strings(out[1:])
	return out
}

func siblingHistories(seed uint64, thorough bool, defaults []string, nextID *int) (hist [][]op, stats map[string]int) {
	rng := vh.NewRng(seed ^ 0x5ca1ab1e37) // own stream: does not shift the seeds of parts 1 and 2
	stats = map[string]int{}
	add := func(ops []op, n string) []op {
		ops = append(ops, op{"add", n, *nextID})
		*nextID++
		return ops
	}
	looks := func(ops []op, ls []string) []op {
		for _, l := range ls {
			ops = append(ops, op{"look", l, 0})
		}
		return ops
	}
	// 3a: every pair (T, S), both insertion orders
	targets := []string{"bcbc", "mmmmm"}
	if thorough {
		targets = append(targets, "bbb", "bcdefg", "zyzy")
	}
	for _, t := range targets {
		sibs := siblingsOf(t)
		for _, s := range sibs {
			ls := lookupsFor([]string{t, s}, true)
			for order := 0; order < 2; order++ {
				var ops []op
				if order == 0 {
					ops = add(add(ops, t), s)
				} else {
					ops = add(add(ops, s), t)
				}
				ops = looks(ops, ls)
				if len(t) >= 3 {
					ops = append(ops, op{"disp", ":" + t[:3] + " 1+1", 0}, op{"disp", ":" + t[:len(t)-1], 0})
				}
				ops = append(ops, op{"del", s, 0})
				ops = looks(ops, ls)
				ops = add(ops, s)
				ops = append(ops, op{"del", t, 0})
				ops = looks(ops, ls)
				hist = append(hist, ops)
				stats["pairs"]++
			}
		}
		// 3b: T plus 2..3 sampled siblings, random insertion order, deletion of a random member
		nt := 30
		if thorough {
			nt = 150
		}
		for k := 0; k < nt; k++ {
			tbl := []string{t}
			for want := 3 + rng.Intn(2); len(tbl) < want; {
				s := sibs[rng.Intn(len(sibs))]
				dup := false
				for _, x := range tbl {
					dup = dup || x == s
				}
				if !dup {
					tbl = append(tbl, s)
				}
			}
			ls := lookupsFor(tbl, true)
			for i := len(tbl) - 1; i > 0; i-- {
				j := rng.Intn(i + 1)
				tbl[i], tbl[j] = tbl[j], tbl[i]
			}
			var ops []op
			for _, n := range tbl {
				ops = add(ops, n)
			}
			ops = looks(ops, ls)
			ops = append(ops, op{"del", tbl[rng.Intn(len(tbl))], 0})
			ops = looks(ops, ls)
			hist = append(hist, ops)
			stats["tables"]++
		}
	}
	// 3c: the interpreter's own default command table; for each default command T: add sibling, look up every prefix of
	// T and of the sibling, dispatch the longest proper prefix of T, delete the sibling again (one history per T)
	for _, t := range defaults {
		if len(t) < 3 {
			continue
		}
		var ops []op
		for _, d := range defaults {
			ops = add(ops, d)
		}
		sibs := siblingsOf(t)
		if !thorough && len(sibs) > 12 {
			// quick: 12 sampled siblings per default command
			for i := len(sibs) - 1; i > 0; i-- {
				j := rng.Intn(i + 1)
				sibs[i], sibs[j] = sibs[j], sibs[i]
			}
			sibs = sibs[:12]
		}
		for _, s := range sibs {
			isDefault := false
			for _, d := range defaults {
				isDefault = isDefault || d == s
			}
			if isDefault {
				continue
			}
			ops = add(ops, s)
			ops = looks(ops, lookupsFor([]string{t, s}, false)[1:])
			ops = append(ops, op{"disp", ":" + t[:len(t)-1] + " x", 0})
			ops = append(ops, op{"del", s, 0})
			stats["default_siblings"]++
		}
		ops = looks(ops, lookupsFor([]string{t}, true))
		hist = append(hist, ops)
		stats["default_tables"]++
	}
	return hist, stats
}

// c37: correspondence + direct oracle for fast/cmd.go (Cmds.Add/Del/Lookup/List, Interp.Cmd dispatch).
// Writes <out>/cases.v (op histories with the outputs observed on the real implementation, evaluated by
// the Coq model) and <out>/report.json (direct linear-scan oracle results, distribution, samples).
package main

import (
	"encoding/json"
	"fmt"
	"io"
	"os"
	"path/filepath"
	"sort"
	"strings"
	"time"

	"github.com/cosmos72/gomacro/base"
	"github.com/cosmos72/gomacro/fast"
	"verifh/vh"
)

type op struct {
	Kind string `json:"k"` // add del look disp
	Name string `json:"n"`
	ID   int    `json:"id,omitempty"`
}

var lastRun struct {
	id  int
	arg string
	hit bool
}

func mkCmd(name string, id int) fast.Cmd {
	return fast.Cmd{Name: name, Help: fmt.Sprint(id), Func: func(ir *fast.Interp, arg string, opt base.CmdOpt) (string, base.CmdOpt) {
		lastRun.id, lastRun.arg, lastRun.hit = id, arg, true
		return "", opt
	}}
}

func idOf(c fast.Cmd) int {
	var id int
	fmt.Sscan(c.Help, &id)
	return id
}

func clearCommands() {
	for _, c := range fast.Commands.List() {
		fast.Commands.Del(c.Name)
	}
}

// reference: plain map + linear scan
type ref map[string]int

func (r ref) lookup(p string) (kind string, name string, id int, names []string) {
	if p == "" {
		return "none", "", 0, nil
	}
	if id, ok := r[p]; ok {
		return "found", p, id, nil
	}
	for n := range r {
		if strings.HasPrefix(n, p) {
			names = append(names, n)
		}
	}
	sort.Strings(names)
	switch len(names) {
	case 0:
		return "none", "", 0, nil
	case 1:
		return "found", names[0], r[names[0]], nil
	}
	return "ambig", "", 0, names
}

var ir *fast.Interp

// Coq parses long numeric list literals slowly: every distinct string / frequent term is emitted once as a
// `Definition` in the header of the cases files and referenced by name (same terms after delta-reduction).
var (
	litID   = map[string]string{}
	litDefs []string
)

func intern(prefix, typ, term string) string {
	k := prefix + "\x00" + term
	if id, ok := litID[k]; ok {
		return id
	}
	id := fmt.Sprintf("%s%d", prefix, len(litID))
	litID[k] = id
	litDefs = append(litDefs, fmt.Sprintf("Definition %s : %s := %s.", id, typ, term))
	return id
}

func cs(s string) string { return intern("s_", "str", vh.CoqStr(s)) }

func coqCmd(name string, id int) string {
	return fmt.Sprintf("(mkCmd %s %d%%N)", cs(name), id)
}

// runHistory executes ops on the real implementation; returns Coq renderings of ops, observed outs, final listing
func runHistory(ops []op, rep *vh.Report, idx int) (string, string, string) {
	clearCommands()
	r := ref{}
	var cops, couts []string
	for i, o := range ops {
		fail := func(what string, got, want interface{}) {
			rep.Fail(vh.Failure{Key: fmt.Sprintf("%v", ops[:i+1]), What: what, Input: ops[:i+1], Got: got, Want: want})
		}
		switch o.Kind {
		case "add":
			var got bool
			if p := vh.Catch(func() { got = fast.Commands.Add(mkCmd(o.Name, o.ID)) }); p != nil {
				fail("Add panicked", fmt.Sprint(p), nil)
			}
			want := o.Name != ""
			if want {
				r[o.Name] = o.ID
			}
			if got != want {
				fail("Add result", got, want)
			}
			cops = append(cops, "OAdd "+coqCmd(o.Name, o.ID))
			couts = append(couts, intern("r_", "out", "RBool "+vh.CoqBool(got)))
		case "del":
			var got bool
			if p := vh.Catch(func() { got = fast.Commands.Del(o.Name) }); p != nil {
				fail("Del panicked", fmt.Sprint(p), nil)
			}
			_, want := r[o.Name]
			delete(r, o.Name)
			if got != want {
				fail("Del result", got, want)
			}
			cops = append(cops, intern("o_", "op", "ODel "+cs(o.Name)))
			couts = append(couts, intern("r_", "out", "RBool "+vh.CoqBool(got)))
		case "look":
			var c fast.Cmd
			var err error
			if p := vh.Catch(func() { c, err = fast.Commands.Lookup(o.Name) }); p != nil {
				fail("Lookup panicked", fmt.Sprint(p), nil)
				couts = append(couts, "RLook Crash")
				cops = append(cops, intern("o_", "op", "OLookup "+cs(o.Name)))
				continue
			}
			kind, wname, wid, wnames := r.lookup(o.Name)
			var out string
			switch {
			case err == nil:
				out = "RLook (Found " + coqCmd(c.Name, idOf(c)) + ")"
				if kind != "found" || wname != c.Name || wid != idOf(c) {
					fail("Lookup", "found "+c.Name, fmt.Sprint(kind, " ", wname, wnames))
				}
				rep.Dist("lookup:found")
			case err == io.EOF:
				out = intern("r_", "out", "RLook NoMatch")
				if kind != "none" {
					fail("Lookup", "none", fmt.Sprint(kind, " ", wname, wnames))
				}
				rep.Dist("lookup:none")
			default:
				names := strings.Split(err.Error(), " ")
				var cn []string
				for _, n := range names {
					cn = append(cn, cs(n))
				}
				out = "RLook (Ambiguous " + vh.CoqList(cn, "str") + ")"
				sorted := append([]string(nil), names...)
				sort.Strings(sorted)
				if kind != "ambig" || strings.Join(sorted, " ") != strings.Join(wnames, " ") {
					fail("Lookup", "ambiguous "+err.Error(), fmt.Sprint(kind, " ", wname, wnames))
				}
				rep.Dist("lookup:ambiguous")
			}
			cops = append(cops, intern("o_", "op", "OLookup "+cs(o.Name)))
			couts = append(couts, out)
		case "disp":
			// o.Name is the full input including ':' (no surrounding white space)
			lastRun.hit = false
			var src string
			var opt base.CmdOpt
			if p := vh.Catch(func() { src, opt = ir.Cmd(o.Name) }); p != nil {
				fail("Cmd panicked", fmt.Sprint(p), nil)
			}
			prefix := o.Name[1:]
			if i := strings.IndexByte(prefix, ' '); i > 0 {
				prefix = prefix[:i]
			}
			kind, _, wid, _ := r.lookup(prefix)
			var out string
			switch {
			case lastRun.hit:
				out = fmt.Sprintf("RDisp (RunCmd %s %s)", coqCmd(nameOfID(r, lastRun.id), lastRun.id), cs(lastRun.arg))
				if kind != "found" || wid != lastRun.id {
					fail("Cmd dispatch", fmt.Sprint("ran ", lastRun.id), kind)
				}
				rep.Dist("dispatch:run")
			case opt&base.CmdOptForceEval != 0:
				out = "RDisp (EvalAsCode " + cs(src) + ")"
				// property: an unknown ':'-prefixed input is evaluated as code (the text after ':')
				if kind != "none" || strings.TrimSpace(src) != strings.TrimSpace(o.Name[1:]) {
					fail("Cmd dispatch", "eval "+src, kind)
				}
				rep.Dist("dispatch:code")
			default:
				out = "RDisp WarnAmbiguous"
				if kind != "ambig" || src != "" {
					fail("Cmd dispatch", "ambiguous/other src="+src, kind)
				}
				rep.Dist("dispatch:ambiguous")
			}
			cops = append(cops, intern("o_", "op", "ODispatch "+cs(o.Name)))
			couts = append(couts, out)
		}
	}
	// final listing
	var cl []string
	list := fast.Commands.List()
	if len(list) != len(r) {
		rep.Fail(vh.Failure{Key: fmt.Sprintf("%v", ops), What: "List length", Input: ops, Got: len(list), Want: len(r)})
	}
	for i, c := range list {
		cl = append(cl, coqCmd(c.Name, idOf(c)))
		if id, ok := r[c.Name]; !ok || id != idOf(c) || (i > 0 && list[i-1].Name >= c.Name) {
			rep.Fail(vh.Failure{Key: fmt.Sprintf("%v", ops), What: "List content/order", Input: ops, Got: c.Name})
		}
	}
	return vh.CoqList(cops, "op"), vh.CoqList(couts, "out"), vh.CoqList(cl, "cmd")
}

func nameOfID(r ref, id int) string {
	for n, i := range r {
		if i == id {
			return n
		}
	}
	return "?"
}

func allNames(alpha string, maxlen int) []string {
	var out []string
	var rec func(p string)
	rec = func(p string) {
		if len(p) > 0 {
			out = append(out, p)
		}
		if len(p) == maxlen {
			return
		}
		for i := 0; i < len(alpha); i++ {
			rec(p + string(alpha[i]))
		}
	}
	rec("")
	return out
}

func main() {
	a := vh.ParseArgs()
	rng := vh.NewRng(a.Seed)
	rep := vh.NewReport(a, "histories of Add/Del/Lookup/Cmd-dispatch over names from {a,b,c}^(1..3) (+\"\" and longer names); "+
		"part 0 corpus/C37/*.json (exact histories of past findings) run first; part 1 bounded-exhaustive: every table of <=1 name, every pair of names (quick: of length <=2; thorough: all 741 pairs), sampled tables of 3..5 names, all 40 prefixes looked up before and after a deletion; "+
		"part 2 PRNG histories; part 3 sibling tables: a target T (abstract names and each default command of the interpreter) plus siblings derived from T by changing byte k by -1/+1 and truncating/keeping/extending (shorter/equal/longer than the looked-up prefix x sorts before/after T x prefix of T / extension of T / neither), all pairs in both insertion orders + sampled tables of 3..4, every prefix of every present name and its near misses (last byte -1/+1, +1 byte) looked up and dispatched before/after Del and re-Add; a history is non-trivial when it contains >=1 lookup with >=1 registered command sharing the first byte; distinct by SHA-256 of the op list")
	ir = fast.New()
	ir.Comp.Globals.Stderr = io.Discard
	ir.Comp.Globals.Stdout = io.Discard
	saved := fast.Commands.List()
	defer func() {
		clearCommands()
		for _, c := range saved {
			fast.Commands.Add(c)
		}
	}()

	names := allNames("abc", 3)
	prefixes := append([]string{""}, names...)
	var hist [][]op
	nextID := 1
	// part 0: corpus (exact inputs of past findings, e.g. DESIGN section 7 #7 "env"/"environ"), run first
	nCorpus := 0
	if dir := os.Getenv("VERIF_DIR"); dir != "" {
		files, _ := filepath.Glob(filepath.Join(dir, "corpus", "C37", "*.json"))
		sort.Strings(files)
		for _, f := range files {
			var ops []op
			if b, err := os.ReadFile(f); err == nil && json.Unmarshal(b, &ops) == nil && len(ops) > 0 {
				hist = append(hist, ops)
				nCorpus++
			}
		}
	}
	mk := func(tbl []string, r *vh.Rng) []op {
		var ops []op
		perm := append([]string(nil), tbl...)
		for i := len(perm) - 1; i > 0; i-- {
			j := r.Intn(i + 1)
			perm[i], perm[j] = perm[j], perm[i]
		}
		for _, n := range perm {
			ops = append(ops, op{"add", n, nextID})
			nextID++
		}
		for _, p := range prefixes {
			ops = append(ops, op{"look", p, 0})
		}
		if len(tbl) > 0 {
			ops = append(ops, op{"del", tbl[r.Intn(len(tbl))], 0})
			for _, p := range prefixes {
				ops = append(ops, op{"look", p, 0})
			}
		}
		return ops
	}
	// part 1: bounded exhaustive tables
	hist = append(hist, mk(nil, rng))
	for i := range names {
		hist = append(hist, mk([]string{names[i]}, rng))
		for j := i + 1; j < len(names); j++ {
			if a.Thorough() || (len(names[i]) <= 2 && len(names[j]) <= 2) {
				hist = append(hist, mk([]string{names[i], names[j]}, rng))
			}
		}
	}
	nExh := len(hist) - nCorpus
	// triples: sampled (quick: 300, thorough: 6000)
	nTriples := 300
	nRand := 400
	if a.Thorough() {
		nTriples, nRand = 6000, 6000
	}
	if a.N > 0 {
		nRand = a.N
	}
	for k := 0; k < nTriples; k++ {
		t := map[string]bool{}
		for len(t) < 3+rng.Intn(3) {
			t[names[rng.Intn(len(names))]] = true
		}
		var tbl []string
		for n := range t {
			tbl = append(tbl, n)
		}
		sort.Strings(tbl)
		hist = append(hist, mk(tbl, rng))
	}
	// part 2: random histories, names biased to share prefixes, including the real command names
	pool := append([]string{"", "env", "environ", "e", "en", "envx", "help", "he", "h", "quit", "q", "abcd", "abca"}, names...)
	for k := 0; k < nRand; k++ {
		n := 5 + rng.Intn(60)
		var ops []op
		for i := 0; i < n; i++ {
			nm := pool[rng.Intn(len(pool))]
			switch x := rng.Intn(10); {
			case x < 4:
				ops = append(ops, op{"add", nm, nextID})
				nextID++
			case x < 6:
				ops = append(ops, op{"del", nm, 0})
			case x < 9:
				ops = append(ops, op{"look", nm, 0})
			default:
				arg := []string{"", " 1+1", "  x y ", " \t42"}[rng.Intn(4)]
				ops = append(ops, op{"disp", ":" + nm + arg, 0})
			}
		}
		hist = append(hist, ops)
	}
	// part 3: sibling tables (siblings.go), appended last so that the case numbers of parts 0..2 do not move
	var defaultNames []string
	for _, c := range saved {
		defaultNames = append(defaultNames, c.Name)
	}
	sibHist, sibStats := siblingHistories(a.Seed, a.Thorough(), defaultNames, &nextID)
	hist = append(hist, sibHist...)

	wd := vh.NewWatchdog(rep, 180*time.Second)
	var terms []string
	for idx, ops := range hist {
		wd.Beat(ops)
		co, cr, cl := runHistory(ops, rep, idx)
		terms = append(terms, fmt.Sprintf("mkCase %d %s %s %s", idx, co, cr, cl))
		nontriv := false
		reg := map[byte]bool{}
		for _, o := range ops {
			if o.Kind == "add" && o.Name != "" {
				reg[o.Name[0]] = true
			}
			if o.Kind == "look" && o.Name != "" && reg[o.Name[0]] {
				nontriv = true
			}
		}
		rep.Count(fmt.Sprint(ops), nontriv)
		rep.Dist(fmt.Sprintf("history_len:%d-%d", len(ops)/20*20, len(ops)/20*20+19))
		if idx%97 == 3 {
			rep.Sample(ops)
		}
		rep.CaseInput(idx, ops)
	}
	// second pass: the header carries the interned definitions collected while running the histories.
	// Starting coqc costs several seconds per file on a loaded machine: thorough uses 400 histories per shard (<= 32 shards).
	perShard := 125 // quick: ~1000 histories in 8 shards
	if a.Thorough() {
		perShard = 450
	}
	cw := vh.NewCases(a, "From Coq Require Import List NArith ZArith.\nFrom Verif Require Import Common.GoStr C37.Model.\nImport ListNotations.\nOpen Scope Z_scope.\n"+strings.Join(litDefs, "\n"), "case", "mismatches", perShard)
	for _, t := range terms {
		cw.Add(t)
	}
	cw.Close()
	rep.Extra["exhaustive_tables_upto2"] = nExh
	rep.Extra["corpus_histories"] = nCorpus
	rep.Extra["sibling_histories"] = sibStats
	rep.Write()
}

// program generator for c19: nested calls (depth <= 4), loops, closures, early returns, blocks with locals,
// breakpoints ("break" and _ = "break").  Every function body and loop body starts with emit(K), every
// function ends with `return`, so any re-execution of the same code slot has an emit in between.
package main

import (
	"fmt"
	"strings"

	"verifh/vh"
)

type prog struct {
	ID    int    `json:"id"`
	Decls string `json:"decls"`
	Call  string `json:"call"`
	NBp   int    `json:"-"`
	Top   bool   `json:"top,omitempty"` // Call is a top-level statement list (executed at call depth 0)
}

type gen struct {
	r      *vh.Rng
	pid    int
	nfun   int
	k      int // emit label counter
	sb     strings.Builder
	nbp    int
	bpProb int
	nclos  int
	void   []bool // function has no result and no trailing return (falls off the end of its body)
}

func (g *gen) label() int { g.k++; return g.k }

func (g *gen) fname(i int) string { return fmt.Sprintf("p%df%d", g.pid, i) }

func (g *gen) ind(n int) string { return strings.Repeat("\t", n) }

// stmts writes `n` random statements of function fi at nesting level lvl (indentation ind)
func (g *gen) stmts(fi, n, lvl, ind int, inClosure bool) {
	for j := 0; j < n; j++ {
		g.stmt(fi, lvl, ind, inClosure)
	}
}

func (g *gen) stmt(fi, lvl, ind int, inClosure bool) {
	r := g.r
	t := g.ind(ind)
	w := func(f string, a ...interface{}) { g.sb.WriteString(t + fmt.Sprintf(f, a...) + "\n") }
	x := r.Intn(100)
	switch {
	case x < 14:
		w("emit(%d)", g.label())
	case x < 22:
		w("emit(1000 + v%%100)")
	case x < 32:
		w("v = (v*%d + %d) %% 1000", 2+r.Intn(5), r.Intn(50))
	case x < 50 && fi+1 >= g.nfun:
		w("emit(%d)", g.label())
	case x < 50:
		callee := fi + 1 + r.Intn(g.nfun-fi-1)
		if g.void[callee] || r.Chance(1, 4) {
			w("%s(v %% %d)", g.fname(callee), 2+r.Intn(5))
		} else {
			w("v += %s(v%%%d + %d)", g.fname(callee), 2+r.Intn(4), r.Intn(3))
		}
	case x < 50+g.bpProb:
		g.nbp++
		if r.Bool() {
			w(`"break"`)
		} else {
			w(`_ = "break"`)
		}
	case x < 66 && lvl < 2:
		w("if v%%2 == %d {", r.Intn(2))
		g.stmts(fi, 1+r.Intn(2), lvl+1, ind+1, inClosure)
		if r.Bool() {
			w("} else {")
			g.stmts(fi, 1+r.Intn(2), lvl+1, ind+1, inClosure)
		}
		w("}")
	case x < 76 && lvl < 2:
		iv := fmt.Sprintf("i%d", lvl)
		w("for %s := 0; %s < %d; %s++ {", iv, iv, 1+r.Intn(3), iv)
		g.sb.WriteString(g.ind(ind+1) + fmt.Sprintf("emit(%d)\n", g.label()))
		g.stmts(fi, 1+r.Intn(3), lvl+1, ind+1, inClosure)
		w("}")
	case x < 82 && lvl < 2 && !inClosure && g.nclos < 3:
		g.nclos++
		c := fmt.Sprintf("c%d", g.label())
		w("%s := func(a int) int {", c)
		g.sb.WriteString(g.ind(ind+1) + fmt.Sprintf("emit(%d)\n", g.label()))
		g.stmts(fi, 1+r.Intn(3), 1, ind+1, true)
		g.sb.WriteString(g.ind(ind+1) + fmt.Sprintf("return a + v%%%d\n", 2+r.Intn(5)))
		w("}")
		w("v += %s(v %% 7)", c)
		if r.Chance(1, 3) {
			w("v += %s(%d)", c, r.Intn(9))
		}
	case x < 86:
		w("if v%%3 == %d {", r.Intn(3))
		g.sb.WriteString(g.ind(ind+1) + fmt.Sprintf("emit(%d)\n", g.label()))
		if inClosure {
			g.sb.WriteString(g.ind(ind+1) + "return a\n")
		} else if g.void[fi] {
			g.sb.WriteString(g.ind(ind+1) + "return\n")
		} else {
			g.sb.WriteString(g.ind(ind+1) + "return v\n")
		}
		w("}")
	case x < 91:
		w("{")
		g.sb.WriteString(g.ind(ind+1) + fmt.Sprintf("w := v + %d\n", r.Intn(9)))
		g.sb.WriteString(g.ind(ind+1) + fmt.Sprintf("emit(%d)\n", g.label()))
		g.sb.WriteString(g.ind(ind+1) + "v = (v + w) % 1000\n")
		w("}")
	case x < 95 && !inClosure:
		// compiled function calling back an interpreted closure
		w("v += apply(func(a int) int {")
		g.sb.WriteString(g.ind(ind+1) + fmt.Sprintf("emit(%d)\n", g.label()))
		if r.Chance(1, 3) {
			g.nbp++
			g.sb.WriteString(g.ind(ind+1) + "\"break\"\n")
		}
		g.sb.WriteString(g.ind(ind+1) + fmt.Sprintf("return a * %d\n", 2+r.Intn(3)))
		w("}, v %% 11)")
	case lvl < 2:
		w("switch v %% 3 {")
		w("case 0:")
		g.stmts(fi, 1, lvl+1, ind+1, inClosure)
		w("case 1:")
		g.stmts(fi, 1+r.Intn(2), lvl+1, ind+1, inClosure)
		if r.Bool() {
			w("default:")
			g.stmts(fi, 1, lvl+1, ind+1, inClosure)
		}
		w("}")
	default:
		w("v++")
	}
}

// genProg: functions p<id>f0..f<n-1>; fi calls only fj with j > i (call depth <= n <= 4)
func genProg(r *vh.Rng, pid int) *prog {
	g := &gen{r: r, pid: pid, nfun: 1 + r.Intn(4), bpProb: []int{0, 3, 6, 10}[r.Intn(4)]}
	g.void = make([]bool, g.nfun)
	for fi := 1; fi < g.nfun; fi++ {
		g.void[fi] = r.Chance(1, 4)
	}
	for fi := g.nfun - 1; fi >= 0; fi-- {
		g.nclos = 0
		if g.void[fi] {
			fmt.Fprintf(&g.sb, "func %s(x int) {\n", g.fname(fi))
		} else {
			fmt.Fprintf(&g.sb, "func %s(x int) int {\n", g.fname(fi))
		}
		fmt.Fprintf(&g.sb, "\temit(%d)\n\tv := x\n", g.label())
		// longer bodies near the top so that callers have > 14 statements after a call (polling of the fast loop)
		n := 2 + r.Intn(6)
		if r.Chance(1, 3) {
			n += 8 + r.Intn(12)
		}
		g.stmts(fi, n, 0, 1, false)
		if r.Chance(1, 5) {
			// a function whose last statement is not a return statement in the source of a nested block
			g.sb.WriteString("\temit(1000 + v%100)\n")
		}
		if g.void[fi] {
			g.sb.WriteString("}\n")
		} else {
			g.sb.WriteString("\treturn v\n}\n")
		}
	}
	call := fmt.Sprintf("%s(%d)", g.fname(0), r.Intn(10))
	top := r.Chance(1, 5)
	if top {
		// top-level statement list: executed by an exec loop at call depth 0 that ends without a return statement
		call = fmt.Sprintf("emit(9001); t%dv := %s; emit(9002); t%dv %% 1000", pid, call, pid)
	}
	return &prog{ID: pid, Decls: g.sb.String(), Call: call, NBp: g.nbp, Top: top}
}

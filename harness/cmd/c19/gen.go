// program generator for c19: nested calls (depth <= 4), loops, closures, early returns (also `return v + callee(..)`),
// blocks with locals, breakpoints ("break" and _ = "break"), deferred calls (compiled function, interpreted named
// function, closure; registered at function level and inside blocks; run one call level deeper after the position-less
// epilogue of the return statement or at the end of a body without return), panic + recover in a deferred closure.  Every function body and loop body starts with emit(K), every
// function ends with `return`, so any re-execution of the same code slot has an emit in between.
package main

import (
	"fmt"
	"strings"

	"verifh/vh"
)

type prog struct {
	ID    int    `json:"id"`
	Decls string `json:"decls"`
	Call  string `json:"call"`
	NBp   int    `json:"-"`
	Top   bool   `json:"top,omitempty"` // Call is a top-level statement list (executed at call depth 0)
	NDefer int   `json:"-"`
	NPanic int   `json:"-"`
}

type gen struct {
	r      *vh.Rng
	pid    int
	nfun   int
	k      int // emit label counter
	sb     strings.Builder
	nbp    int
	bpProb int
	nclos  int
	void   []bool // function has no result and no trailing return (falls off the end of its body)
	ndefer int    // defer statements written
	npanic int    // conditional panics written (always recovered by a deferred closure of the same function)
	pre    strings.Builder // helper functions (targets of `defer name(args)`), written before the functions
}

func (g *gen) label() int { g.k++; return g.k }

func (g *gen) fname(i int) string { return fmt.Sprintf("p%df%d", g.pid, i) }

func (g *gen) ind(n int) string { return strings.Repeat("\t", n) }

// stmts writes `n` random statements of function fi at nesting level lvl (indentation ind)
func (g *gen) stmts(fi, n, lvl, ind int, inClosure bool) {
	for j := 0; j < n; j++ {
		g.stmt(fi, lvl, ind, inClosure)
	}
}

func (g *gen) stmt(fi, lvl, ind int, inClosure bool) {
	r := g.r
	t := g.ind(ind)
	w := func(f string, a ...interface{}) { g.sb.WriteString(t + fmt.Sprintf(f, a...) + "\n") }
	x := r.Intn(100)
	switch {
	case x < 14:
		w("emit(%d)", g.label())
	case x < 22:
		w("emit(1000 + v%%100)")
	case x < 32:
		w("v = (v*%d + %d) %% 1000", 2+r.Intn(5), r.Intn(50))
	case x < 50 && fi+1 >= g.nfun:
		w("emit(%d)", g.label())
	case x < 50:
		callee := fi + 1 + r.Intn(g.nfun-fi-1)
		if g.void[callee] || r.Chance(1, 4) {
			w("%s(v %% %d)", g.fname(callee), 2+r.Intn(5))
		} else {
			w("v += %s(v%%%d + %d)", g.fname(callee), 2+r.Intn(4), r.Intn(3))
		}
	case x < 50+g.bpProb:
		g.nbp++
		if r.Bool() {
			w(`"break"`)
		} else {
			w(`_ = "break"`)
		}
	case x < 66 && lvl < 2:
		w("if v%%2 == %d {", r.Intn(2))
		g.stmts(fi, 1+r.Intn(2), lvl+1, ind+1, inClosure)
		if r.Bool() {
			w("} else {")
			g.stmts(fi, 1+r.Intn(2), lvl+1, ind+1, inClosure)
		}
		w("}")
	case x < 76 && lvl < 2:
		iv := fmt.Sprintf("i%d", lvl)
		w("for %s := 0; %s < %d; %s++ {", iv, iv, 1+r.Intn(3), iv)
		g.sb.WriteString(g.ind(ind+1) + fmt.Sprintf("emit(%d)\n", g.label()))
		g.stmts(fi, 1+r.Intn(3), lvl+1, ind+1, inClosure)
		w("}")
	case x < 82 && lvl < 2 && !inClosure && g.nclos < 3:
		g.nclos++
		c := fmt.Sprintf("c%d", g.label())
		w("%s := func(a int) int {", c)
		g.sb.WriteString(g.ind(ind+1) + fmt.Sprintf("emit(%d)\n", g.label()))
		g.stmts(fi, 1+r.Intn(3), 1, ind+1, true)
		g.sb.WriteString(g.ind(ind+1) + fmt.Sprintf("return a + v%%%d\n", 2+r.Intn(5)))
		w("}")
		w("v += %s(v %% 7)", c)
		if r.Chance(1, 3) {
			w("v += %s(%d)", c, r.Intn(9))
		}
	case x < 86:
		w("if v%%3 == %d {", r.Intn(3))
		g.sb.WriteString(g.ind(ind+1) + fmt.Sprintf("emit(%d)\n", g.label()))
		if inClosure {
			g.sb.WriteString(g.ind(ind+1) + "return a\n")
		} else if g.void[fi] {
			g.sb.WriteString(g.ind(ind+1) + "return\n")
		} else if fi+1 < g.nfun && !g.void[fi+1] && r.Chance(1, 2) {
			// the return expression calls a function: `finish` in the callee comes back to the epilogue of this return
			g.sb.WriteString(g.ind(ind+1) + fmt.Sprintf("return v + %s(v%%%d)\n", g.fname(fi+1), 2+r.Intn(3)))
		} else {
			g.sb.WriteString(g.ind(ind+1) + "return v\n")
		}
		w("}")
	case x < 88 && !inClosure:
		// a defer registered inside a block / loop / branch
		g.deferStmt(fi, ind, false)
	case x < 91:
		w("{")
		g.sb.WriteString(g.ind(ind+1) + fmt.Sprintf("w := v + %d\n", r.Intn(9)))
		g.sb.WriteString(g.ind(ind+1) + fmt.Sprintf("emit(%d)\n", g.label()))
		g.sb.WriteString(g.ind(ind+1) + "v = (v + w) % 1000\n")
		w("}")
	case x < 95 && !inClosure:
		// compiled function calling back an interpreted closure
		w("v += apply(func(a int) int {")
		g.sb.WriteString(g.ind(ind+1) + fmt.Sprintf("emit(%d)\n", g.label()))
		if r.Chance(1, 3) {
			g.nbp++
			g.sb.WriteString(g.ind(ind+1) + "\"break\"\n")
		}
		g.sb.WriteString(g.ind(ind+1) + fmt.Sprintf("return a * %d\n", 2+r.Intn(3)))
		w("}, v %% 11)")
	case lvl < 2:
		w("switch v %% 3 {")
		w("case 0:")
		g.stmts(fi, 1, lvl+1, ind+1, inClosure)
		w("case 1:")
		g.stmts(fi, 1+r.Intn(2), lvl+1, ind+1, inClosure)
		if r.Bool() {
			w("default:")
			g.stmts(fi, 1, lvl+1, ind+1, inClosure)
		}
		w("}")
	default:
		w("v++")
	}
}

// deferStmt writes one defer statement of function fi.  The deferred code starts with an emit (so that re-executions of a
// code slot are told apart) and runs at call depth (depth of fi)+1, or deeper when it calls pNf<j>, j > fi.
func (g *gen) deferStmt(fi, ind int, recovers bool) {
	r := g.r
	t := g.ind(ind)
	g.ndefer++
	body := func(ind2 int) {
		t2 := g.ind(ind2)
		for k := r.Intn(3); k > 0; k-- {
			switch x := r.Intn(10); {
			case x < 4:
				fmt.Fprintf(&g.sb, "%semit(%d)\n", t2, g.label())
			case x < 6 && fi+1 < g.nfun:
				fmt.Fprintf(&g.sb, "%s%s(%d)\n", t2, g.fname(fi+1+r.Intn(g.nfun-fi-1)), r.Intn(5))
			case x < 7 && g.bpProb > 0:
				g.nbp++
				fmt.Fprintf(&g.sb, "%s\"break\"\n", t2)
			default:
				fmt.Fprintf(&g.sb, "%semit(1000 + v%%100)\n", t2)
			}
		}
	}
	switch x := r.Intn(10); {
	case recovers:
		fmt.Fprintf(&g.sb, "%sdefer func() {\n%s\temit(%d)\n%s\tif e := recover(); e != nil {\n%s\t\temit(%d)\n%s\t}\n", t, t, g.label(), t, t, g.label(), t)
		body(ind + 1)
		fmt.Fprintf(&g.sb, "%s}()\n", t)
	case x < 2:
		// compiled function: no interpreted statement runs
		fmt.Fprintf(&g.sb, "%sdefer emit(%d)\n", t, g.label())
	case x < 5:
		// interpreted named function, argument evaluated at the defer statement
		name := fmt.Sprintf("p%dd%d", g.pid, g.label())
		fmt.Fprintf(&g.pre, "func %s(x int) {\n\temit(%d)\n\temit(1000 + x%%100)\n", name, g.label())
		if r.Bool() {
			fmt.Fprintf(&g.pre, "\tif x%%2 == 0 {\n\t\temit(%d)\n\t}\n", g.label())
		}
		g.pre.WriteString("}\n")
		fmt.Fprintf(&g.sb, "%sdefer %s(v %% 9)\n", t, name)
	default:
		fmt.Fprintf(&g.sb, "%sdefer func() {\n%s\temit(%d)\n", t, t, g.label())
		body(ind + 1)
		fmt.Fprintf(&g.sb, "%s}()\n", t)
	}
}

// genProg: functions p<id>f0..f<n-1>; fi calls only fj with j > i (call depth <= n <= 4)
func genProg(r *vh.Rng, pid int) *prog {
	g := &gen{r: r, pid: pid, nfun: 1 + r.Intn(4), bpProb: []int{0, 3, 6, 10}[r.Intn(4)]}
	g.void = make([]bool, g.nfun)
	for fi := 1; fi < g.nfun; fi++ {
		g.void[fi] = r.Chance(1, 4)
	}
	for fi := g.nfun - 1; fi >= 0; fi-- {
		g.nclos = 0
		if g.void[fi] {
			fmt.Fprintf(&g.sb, "func %s(x int) {\n", g.fname(fi))
		} else {
			fmt.Fprintf(&g.sb, "func %s(x int) int {\n", g.fname(fi))
		}
		fmt.Fprintf(&g.sb, "\temit(%d)\n\tv := x\n", g.label())
		if r.Chance(1, 2) {
			recovers := r.Chance(1, 3)
			for k := 1 + r.Intn(2); k > 0; k-- {
				g.deferStmt(fi, 1, recovers && k == 1)
			}
			if recovers {
				// recovered by the deferred closure written last (it runs first)
				g.npanic++
				fmt.Fprintf(&g.sb, "\tif v%%%d == %d {\n\t\temit(%d)\n\t\tpanic(\"p%d\")\n\t}\n", 2+r.Intn(3), r.Intn(2), g.label(), g.k)
			}
		}
		// longer bodies near the top so that callers have > 14 statements after a call (polling of the fast loop)
		n := 2 + r.Intn(6)
		if r.Chance(1, 3) {
			n += 8 + r.Intn(12)
		}
		g.stmts(fi, n, 0, 1, false)
		if r.Chance(1, 5) {
			// a function whose last statement is not a return statement in the source of a nested block
			g.sb.WriteString("\temit(1000 + v%100)\n")
		}
		if g.void[fi] {
			g.sb.WriteString("}\n")
		} else if fi+1 < g.nfun && !g.void[fi+1] && r.Chance(1, 4) {
			fmt.Fprintf(&g.sb, "\treturn v + %s(v%%%d)\n}\n", g.fname(fi+1), 2+r.Intn(3))
		} else {
			g.sb.WriteString("\treturn v\n}\n")
		}
	}
	call := fmt.Sprintf("%s(%d)", g.fname(0), r.Intn(10))
	top := r.Chance(1, 5)
	if top {
		// top-level statement list: executed by an exec loop at call depth 0 that ends without a return statement
		call = fmt.Sprintf("emit(9001); t%dv := %s; emit(9002); t%dv %% 1000", pid, call, pid)
	}
	return &prog{ID: pid, Decls: g.pre.String() + g.sb.String(), Call: call, NBp: g.nbp, Top: top, NDefer: g.ndefer, NPanic: g.npanic}
}

// c19: debugger stop rule and transparency (fast/debug.go, fast/code.go single-step loop, fast/debug/cmd.go).
// For every generated program:
//   R0  plain run (interpreter without OptDebugger)                         -> result, emit log
//   R1  ir.Debug under a debugger that always answers `step`                -> full statement trace
//   R2+ ir.Debug / ir.Eval under scripted debuggers (PRNG command sequences) -> observed stops
// Direct oracles (never the Coq model): transparency (result and emit log of every run equal R0);
// every breakpoint statement of the trace produces a Breakpoint callback; scripts of the shape
// (step|next|finish)* continue* must stop exactly where the documented rule says (computed here from the
// R1 trace); after a stop answered with `step`, a following statement of the same activation or of a
// callee must be a stop.  Correspondence: cases_*.v lets the Coq model recompute every stop list.
package main

import (
	"encoding/json"
	"flag"
	"fmt"
	"io"
	"os"
	"os/exec"
	"path/filepath"
	"sort"
	"strings"
	"time"

	"github.com/cosmos72/gomacro/base"
	"github.com/cosmos72/gomacro/fast"
	"github.com/cosmos72/gomacro/fast/debug"
	xr "github.com/cosmos72/gomacro/xreflect"
	"verifh/vh"
)

const maxInt = int(^uint(0) >> 1)

// ---------------------------------------------------------------- interpreters

type world struct {
	ir    *fast.Interp
	emits []int
	dbg   *scripted
}

func newWorld(debugger bool) *world {
	w := &world{}
	w.ir = fast.New()
	g := &w.ir.Comp.Globals
	g.Stdout, g.Stderr = io.Discard, io.Discard
	if debugger {
		g.Options |= base.OptDebugger
	} else {
		g.Options &^= base.OptDebugger
	}
	w.ir.DeclFunc("emit", func(x int) { w.emits = append(w.emits, x) })
	w.ir.DeclFunc("apply", func(f func(int) int, x int) int { return f(x) + 1 })
	w.dbg = &scripted{w: w}
	if debugger {
		// commands are given as text to the stock debugger (fast/debug: Show, Repl, Cmd, cmdStep/cmdNext/cmdFinish/cmdContinue)
		w.dbg.stock = &debug.Debugger{}
		g.Readline = w.dbg
	}
	w.ir.SetDebugger(w.dbg)
	return w
}

// Read implements base.Readline: the stock debugger's prompt receives the pending command line
func (d *scripted) Read(prompt string) ([]byte, error) {
	if d.pending == "" {
		return nil, io.EOF
	}
	b := []byte(d.pending)
	d.pending = ""
	d.reads++
	return b, nil
}

// one debugger callback
type cbRec struct {
	IP, N, Depth, Pos, Emits int
	Bp                       bool
	Cmd                      byte
	Skip                     bool // the stock debugger returned without prompting (statement without source position)
	Defer                    bool // the statement is a defer statement (source text at its position)
}

type scripted struct {
	w      *world
	script string // commands s n f c ; when exhausted: def
	def    byte
	i      int
	recs   []cbRec
	limit  int
	// stock debugger driven through its prompt
	stock    *debug.Debugger
	pending  string
	reads    int
	stockErr string
}

type tooMany struct{}

var cmdWord = map[byte]string{'s': "step", 'n': "next", 'f': "finish", 'c': "continue"}

func (d *scripted) cb(ir *fast.Interp, env *fast.Env, bp bool) fast.DebugOp {
	pos := -1
	if env.IP < len(env.DebugPos) {
		pos = int(env.DebugPos[env.IP])
	}
	stockPos := pos
	isDefer := false
	if pos > 0 {
		if g := &ir.Comp.Globals; g.Fileset != nil {
			line, at := g.Fileset.Source(env.DebugPos[env.IP])
			if c := at.Column - 1; c >= 0 && c < len(line) {
				isDefer = strings.HasPrefix(line[c:], "defer")
			}
		}
	}
	if env.CallDepth == 0 && pos > 0 {
		// top-level statements are re-parsed by every Interp.Debug/Eval call: their positions differ from run to run
		pos = -2
	}
	c := d.def
	if d.i < len(d.script) {
		c = d.script[d.i]
	}
	d.recs = append(d.recs, cbRec{IP: env.IP, N: len(env.Code), Depth: env.CallDepth, Pos: pos, Emits: len(d.w.emits), Bp: bp, Cmd: c, Defer: isDefer})
	if len(d.recs) > d.limit {
		panic(tooMany{})
	}
	if d.stock != nil {
		// EVERY callback goes through the stock debugger (fast/debug/api.go).  If it prompts, the prompt is answered with
		// the command word and the command is consumed; if it returns without prompting (statement without source
		// position) the callback is recorded as skipped, no command is consumed and whatever DebugOp the stock debugger
		// chose is passed on
		d.pending = cmdWord[c] + "\n"
		var op fast.DebugOp
		if bp {
			op = d.stock.Breakpoint(ir, env)
		} else {
			op = d.stock.At(ir, env)
		}
		if d.pending != "" {
			d.recs[len(d.recs)-1].Skip = true
			d.recs[len(d.recs)-1].Cmd = 0
			if stockPos != 0 && d.stockErr == "" {
				d.stockErr = fmt.Sprintf("stock debugger did not prompt at callback %d (statement with a source position)", len(d.recs)-1)
			}
		} else {
			d.i++
		}
		d.pending = ""
		return op
	}
	// raw layer: the scripted debugger answers every callback itself
	d.i++
	switch c {
	case 's':
		return fast.DebugOpStep
	case 'n':
		return fast.DebugOp{Depth: env.CallDepth + 1}
	case 'f':
		return fast.DebugOp{Depth: env.CallDepth}
	}
	return fast.DebugOpContinue
}
func (d *scripted) Breakpoint(ir *fast.Interp, env *fast.Env) fast.DebugOp { return d.cb(ir, env, true) }
func (d *scripted) At(ir *fast.Interp, env *fast.Env) fast.DebugOp         { return d.cb(ir, env, false) }

type runRes struct {
	Result string
	Emits  []int
	Recs   []cbRec
	Panic  string
}

// run evaluates `call` (declarations were evaluated before) with ir.Debug (debug=true) or ir.Eval
func (w *world) run(call string, debug bool, script string, def byte, limit int) runRes {
	w.emits = nil
	w.dbg.script, w.dbg.def, w.dbg.i, w.dbg.recs, w.dbg.limit = script, def, 0, nil, limit
	w.dbg.pending, w.dbg.stockErr = "", ""
	var res runRes
	p := vh.Catch(func() {
		if debug {
			vs, _ := w.ir.Debug(call)
			res.Result = fmtVals(vs)
		} else {
			vs, _ := w.ir.Eval(call)
			res.Result = fmtVals(vs)
		}
	})
	if p != nil {
		res.Panic = fmt.Sprintf("%T", p)
		if _, ok := p.(tooMany); ok {
			res.Panic = "too-many-callbacks"
		}
	}
	res.Emits, res.Recs = w.emits, w.dbg.recs
	if res.Panic == "" && w.dbg.stockErr != "" {
		res.Panic = w.dbg.stockErr
	}
	return res
}

func fmtVals(vs []xr.Value) string {
	var sb strings.Builder
	for _, v := range vs {
		if v.IsValid() && v.CanInterface() {
			fmt.Fprintf(&sb, "%v:%T;", v.Interface(), v.Interface())
		} else {
			sb.WriteString("invalid;")
		}
	}
	return sb.String()
}

// ---------------------------------------------------------------- trace and documented rule

type tstmt struct {
	Depth, Pos int
	Bp, Entry  bool
	Defer      bool
	ip, n, em  int
}

type stopRec struct {
	Idx int
	Bp  bool
}

// traceOf turns the callbacks of the always-step run into the statement trace
func traceOf(recs []cbRec) ([]tstmt, string) {
	var tr []tstmt
	for _, r := range recs {
		if r.Bp {
			if len(tr) == 0 {
				return nil, "Breakpoint callback before any At callback"
			}
			l := &tr[len(tr)-1]
			if l.ip != r.IP || l.Depth != r.Depth || l.Bp {
				return nil, "Breakpoint callback does not follow the At callback of the same statement"
			}
			l.Bp = true
			continue
		}
		tr = append(tr, tstmt{Depth: r.Depth, Pos: r.Pos, Entry: r.IP == 0, Defer: r.Defer, ip: r.IP, n: r.N, em: r.Emits})
	}
	return tr, ""
}

func opDepth(c byte, depth int) int {
	d := 0
	switch c {
	case 's':
		d = maxInt
	case 'n':
		d = depth + 1
	case 'f':
		d = depth
	}
	if d < 0 {
		d = 0
	}
	return d
}

// docStops: the documented rule evaluated on the trace (for the user of the stock debugger the statements without source
// position do not exist): after a command that requested depth D the next stop is the
// first statement with CallDepth < D (step: any; next: same or shallower; finish: shallower; continue: none) or a breakpoint
func docStops(tr []tstmt, script string, def byte, D int, stock bool) []stopRec {
	var out []stopRec
	ci := 0
	next := func() byte {
		c := def
		if ci < len(script) {
			c = script[ci]
		}
		ci++
		return c
	}
	for i, s := range tr {
		if stock && s.Pos == 0 {
			// through the stock debugger a statement without source position is no stop and changes nothing
			continue
		}
		if s.Depth < D {
			out = append(out, stopRec{i, false})
			D = opDepth(next(), s.Depth)
		}
		if s.Bp {
			out = append(out, stopRec{i, true})
			D = opDepth(next(), s.Depth)
		}
	}
	return out
}

// mapStops maps the callbacks of a scripted run onto trace indices through (IP, code length, depth, position, emit count)
func mapStops(tr []tstmt, recs []cbRec) ([]stopRec, string) {
	var out []stopRec
	j := 0
	for _, r := range recs {
		for j < len(tr) && !(tr[j].ip == r.IP && tr[j].n == r.N && tr[j].Depth == r.Depth && tr[j].Pos == r.Pos && tr[j].em == r.Emits) {
			j++
		}
		if j == len(tr) {
			return out, fmt.Sprintf("callback at IP=%d/%d depth=%d pos=%d emits=%d (bp=%v) is not a later statement of the single-step trace", r.IP, r.N, r.Depth, r.Pos, r.Emits, r.Bp)
		}
		if r.Bp && !tr[j].Bp {
			return out, fmt.Sprintf("Breakpoint callback at a statement that is not a breakpoint (trace index %d)", j)
		}
		if r.Skip {
			continue
		}
		if n := len(out); n > 0 && out[n-1].Idx == j && (out[n-1].Bp || !r.Bp) {
			// same statement twice: only At followed by Breakpoint is possible
			return out, fmt.Sprintf("statement %d stopped twice with the same callback kind", j)
		}
		out = append(out, stopRec{j, r.Bp})
	}
	return out, ""
}

func sigUnique(tr []tstmt) bool {
	seen := map[[5]int]bool{}
	for _, s := range tr {
		k := [5]int{s.ip, s.n, s.Depth, s.Pos, s.em}
		if seen[k] {
			return false
		}
		seen[k] = true
	}
	return true
}

// noResume: script of the shape (s|n|f)* c* (then `def` forever, def must be 'c')
func noResume(script string) bool {
	i := strings.IndexByte(script, 'c')
	return i < 0 || strings.Trim(script[i:], "c") == ""
}

// sameActivationOrCallee: statement j+1 belongs to the activation of statement j or to a function called by it
func sameActivationOrCallee(tr []tstmt, j int) bool {
	if j+1 >= len(tr) {
		return false
	}
	a, b := tr[j], tr[j+1]
	return (b.Depth == a.Depth && !b.Entry) || (b.Depth == a.Depth+1 && b.Entry)
}

// ---------------------------------------------------------------- Coq rendering

func coqTrace(tr []tstmt) string {
	el := make([]string, len(tr))
	for i, s := range tr {
		el[i] = fmt.Sprintf("mkStmt %d (%d) %s %s %s", s.Depth, s.Pos, vh.CoqBool(s.Bp), vh.CoqBool(s.Entry), vh.CoqBool(s.Defer))
	}
	return vh.CoqList(el, "stmt")
}
func coqCmds(script string) string {
	el := make([]string, len(script))
	for i := 0; i < len(script); i++ {
		el[i] = map[byte]string{'s': "Step", 'n': "Next", 'f': "Finish", 'c': "Continue"}[script[i]]
	}
	return vh.CoqList(el, "cmd")
}
func coqStops(st []stopRec) string {
	el := make([]string, len(st))
	for i, s := range st {
		el[i] = fmt.Sprintf("(%d, %s)", s.Idx, vh.CoqBool(s.Bp))
	}
	return vh.CoqList(el, "stop")
}

// ---------------------------------------------------------------- scripts

func genScript(r *vh.Rng, kind string, n int) string {
	b := make([]byte, n)
	for i := range b {
		switch kind {
		case "steps": // no continue
			b[i] = "ssnnf"[r.Intn(5)]
		case "nexts":
			b[i] = "nnnsf"[r.Intn(5)]
		case "free":
			b[i] = "ssnnffc"[r.Intn(7)]
		case "freec":
			b[i] = "snfccc"[r.Intn(6)]
		}
	}
	return string(b)
}

type caseIn struct {
	Prog   *prog  `json:"prog"`
	Debug  bool   `json:"debug"`
	Script string `json:"script"`
	Raw    bool   `json:"raw_debugger,omitempty"`
}

// ---------------------------------------------------------------- corpus of recorded findings (run in a child process: may hang)

type corpusItem struct {
	Name   string `json:"name"`
	Key    string `json:"key"`
	Decls  string `json:"decls"`
	Call   string `json:"call"`
	Debug  bool   `json:"debug"`
	Script string `json:"script"`
	Def    string `json:"def"`
	Oracle string `json:"oracle"` // transparent | docrule
	What   string `json:"what"`
}

type childOut struct {
	Plain, Dbg runRes
	Stops      []stopRec
	Doc        []stopRec
	MapErr     string
}

func child(path string) {
	b, err := os.ReadFile(path)
	if err != nil {
		panic(err)
	}
	var it corpusItem
	if err := json.Unmarshal(b, &it); err != nil {
		panic(err)
	}
	var out childOut
	wp := newWorld(false)
	wp.ir.Eval(it.Decls)
	out.Plain = wp.run(it.Call, false, "", 'c', 100000)
	wd := newWorld(true)
	wd.ir.Eval(it.Decls)
	def := byte('c')
	if it.Def != "" {
		def = it.Def[0]
	}
	if it.Oracle == "docrule" {
		full := wd.run(it.Call, true, "", 's', 100000)
		tr, _ := traceOf(full.Recs)
		out.Dbg = wd.run(it.Call, it.Debug, it.Script, def, 100000)
		out.Stops, out.MapErr = mapStops(tr, out.Dbg.Recs)
		D := 0
		if it.Debug {
			D = maxInt
		}
		out.Doc = docStops(tr, it.Script, def, D, true)
	} else {
		out.Dbg = wd.run(it.Call, it.Debug, it.Script, def, 100000)
	}
	out.Plain.Recs, out.Dbg.Recs = nil, nil
	json.NewEncoder(os.Stdout).Encode(out)
}

type corpusRes struct {
	it   corpusItem
	out  childOut
	err  error
	hang bool
	bad  bool
}

type corpusRun struct {
	files   []string
	results []corpusRes
	done    chan int
}

const childTimeout = 300 * time.Second // a real hang never ends; the margin is for heavily loaded machines

// startCorpus launches every corpus item in its own child process (an item may hang); they run while the main
// generator works
func startCorpus() *corpusRun {
	dir := filepath.Join(os.Getenv("VERIF_DIR"), "corpus", "C19")
	files, _ := filepath.Glob(filepath.Join(dir, "*.json"))
	sort.Strings(files)
	results := make([]corpusRes, len(files))
	done := make(chan int, len(files))
	for i, f := range files {
		b, _ := os.ReadFile(f)
		if json.Unmarshal(b, &results[i].it) != nil {
			results[i].bad = true
			done <- i
			continue
		}
		// each item runs in a child process (it may hang), all children in parallel
		go func(i int, f string) {
			defer func() { done <- i }()
			cmd := exec.Command(os.Args[0], "-child", f)
			cmd.Stderr = io.Discard
			fin := make(chan struct{})
			var outb []byte
			go func() { outb, results[i].err = cmd.Output(); close(fin) }()
			select {
			case <-fin:
			case <-time.After(childTimeout):
				if cmd.Process != nil {
					cmd.Process.Kill()
				}
				<-fin
				results[i].hang = true
				return
			}
			if results[i].err == nil {
				results[i].err = json.Unmarshal(outb, &results[i].out)
			}
		}(i, f)
	}
	return &corpusRun{files, results, done}
}

func (cr *corpusRun) finish(rep *vh.Report, wd *vh.Watchdog) {
	files, results := cr.files, cr.results
	for range files {
		waiting := true
		for waiting {
			select {
			case <-cr.done:
				waiting = false
			case <-time.After(20 * time.Second):
				wd.Beat("waiting for the corpus child processes")
			}
		}
	}
	for i, r := range results {
		it, out := r.it, r.out
		rep.Dist("corpus")
		switch {
		case r.bad:
			rep.Fail(vh.Failure{Key: "corpus:" + files[i], What: "unreadable corpus file"})
		case r.hang:
			rep.Fail(vh.Failure{Key: it.Key, What: "corpus " + it.Name + ": the run under the debugger does not terminate (300 s); " + it.What, Input: it})
		case r.err != nil:
			rep.Fail(vh.Failure{Key: it.Key, What: "corpus " + it.Name + ": child failed: " + fmt.Sprint(r.err), Input: it})
		case out.Dbg.Result != out.Plain.Result || fmt.Sprint(out.Dbg.Emits) != fmt.Sprint(out.Plain.Emits) || out.Dbg.Panic != out.Plain.Panic:
			rep.Fail(vh.Failure{Key: it.Key, What: "corpus " + it.Name + ": not transparent; " + it.What, Input: it,
				Got: fmt.Sprint(out.Dbg.Result, out.Dbg.Emits, out.Dbg.Panic), Want: fmt.Sprint(out.Plain.Result, out.Plain.Emits, out.Plain.Panic)})
		case it.Oracle == "docrule" && (out.MapErr != "" || fmt.Sprint(out.Stops) != fmt.Sprint(out.Doc)):
			rep.Fail(vh.Failure{Key: it.Key, What: "corpus " + it.Name + ": stops differ from the documented rule; " + it.What, Input: it,
				Got: fmt.Sprint(out.Stops, out.MapErr), Want: fmt.Sprint(out.Doc)})
		}
	}
}

// ---------------------------------------------------------------- main

func main() {
	childFile := flag.String("child", "", "internal: run one corpus item and print the result")
	a := vh.ParseArgs()
	if *childFile != "" {
		child(*childFile)
		return
	}
	rng := vh.NewRng(a.Seed)
	rep := vh.NewReport(a, "PRNG programs: 1..4 functions pNf0..pNf3 (fi calls only fj, j>i: call depth <= 4, +1 for closures / closures called back from a compiled function), "+
		"bodies of 2..25 statements from {emit, arithmetic, call, if/else, for (1..3 iterations, nesting <= 2), switch, block with local, closure definition+call, apply(closure), early return (also `return v + callee(..)`), \"break\" / _ = \"break\" breakpoints with probability 0/3/6/10%, defer statements (1/2 of the functions start with 1-2 defers; defers also inside blocks/loops/branches: compiled function, interpreted named function with argument, closure with emits / calls / breakpoints), 1/6 of the functions panic conditionally and recover in a deferred closure}; "+
		"1/4 of the non-root functions have no result and fall off the end of their body, 1/5 of the programs are started as a top-level statement list (call depth 0; there `finish` = continue, so the documented-rule oracle is applied only to scripts without finish); programs whose single-step trace exceeds 1500 statements are discarded; "+
		"per program 14 scripts over {step,next,finish,continue}: 8 PRNG scripts through the stock fast/debug.Debugger (4 of shape (s|n|f)* c*, 3 unrestricted, 1 unrestricted started with ir.Eval instead of ir.Debug), 2 PRNG scripts answered by a raw fast.Debugger, 4 trace-directed scripts (single-step to a statement of the R1 trace - half of them a statement directly followed by a statement without source position, i.e. a return whose epilogue precedes deferred calls - then next/finish/step tail; 3 stock, 1 raw); script exhausted => continue; "+
		"every callback of the stock layer is passed to debug.Debugger.At/Breakpoint: a prompt consumes a command and is a stop, a return without prompt is a skipped callback; oracles: transparency, every breakpoint prompts, after continue only breakpoints, after step the next statement (with position) of the activation/callee prompts, EVERY non-breakpoint stop has call depth below the depth requested by the previous answer (all scripts), documented rule on the statements with position (scripts without resume); "+
		"one evaluated case = one (program, script) run; non-trivial when the run had >= 2 debugger callbacks and the trace has >= 2 call depths; distinct by SHA-256 of program text + script")
	nProg := 70
	perShard := 40
	if a.Thorough() {
		nProg = 2000
		perShard = 64 // <= 32 case shards in the thorough tier
	}
	if a.N > 0 {
		nProg = a.N
	}
	corpus := startCorpus()

	wp, wd := newWorld(false), newWorld(true)
	cw := vh.NewCases(a, "From Coq Require Import List ZArith Bool.\nFrom Verif Require Import C19.Model.\nImport ListNotations.\nOpen Scope Z_scope.", "case", "mismatches", perShard)
	wdg := vh.NewWatchdog(rep, 180*time.Second)
	idx := 0
	discarded := 0
	for pi := 0; pi < nProg; pi++ {
		p := genProg(rng.Fork(), pi)
		wdg.Beat(p)
		fail := func(key, what string, in interface{}, got, want interface{}) {
			rep.Fail(vh.Failure{Key: key, What: what, Input: in, Got: got, Want: want})
		}
		if e := vh.Catch(func() { wp.ir.Eval(p.Decls) }); e != nil {
			fail(fmt.Sprint("decl:", p.ID), "declarations rejected without OptDebugger", p, fmt.Sprint(e), nil)
			wp = newWorld(false)
			continue
		}
		if e := vh.Catch(func() { wd.ir.Eval(p.Decls) }); e != nil {
			fail(fmt.Sprint("decl:", p.ID), "declarations rejected with OptDebugger", p, fmt.Sprint(e), nil)
			wd = newWorld(true)
			continue
		}
		r0 := wp.run(p.Call, false, "", 'c', 100000)
		if r0.Panic != "" {
			fail(fmt.Sprint("plain:", p.ID), "generated program panics in the plain run", p, r0.Panic, nil)
			wp = newWorld(false)
			continue
		}
		r1 := wd.run(p.Call, true, "", 's', 1600)
		if r1.Panic == "too-many-callbacks" {
			discarded++
			wd = newWorld(true)
			continue
		}
		same := func(r runRes) bool {
			return r.Panic == "" && r.Result == r0.Result && fmt.Sprint(r.Emits) == fmt.Sprint(r0.Emits)
		}
		if !same(r1) {
			fail(fmt.Sprintf("%s|debug|all-step", p.Decls+p.Call), "not transparent: single-stepping the whole program changes result / side effects", caseIn{p, true, "s*", false},
				fmt.Sprint(r1.Result, r1.Emits, r1.Panic), fmt.Sprint(r0.Result, r0.Emits))
			wd = newWorld(true)
			continue
		}
		tr, terr := traceOf(r1.Recs)
		if terr != "" {
			fail(fmt.Sprintf("%s|trace", p.Decls+p.Call), terr, caseIn{p, true, "s*", false}, nil, nil)
			continue
		}
		if !sigUnique(tr) || len(tr) == 0 {
			discarded++
			continue
		}
		depths := map[int]bool{}
		nbpExec := 0
		for _, s := range tr {
			depths[s.Depth] = true
			if s.Bp {
				nbpExec++
			}
		}
		rep.Dist(fmt.Sprintf("max_depth:%d", len(depths)))
		rep.Dist(fmt.Sprintf("trace_len:%s", bucket(len(tr))))
		rep.Dist(fmt.Sprintf("executed_breakpoints:%s", bucket(nbpExec)))
		// statements without source position in the trace, and those directly followed by a deeper statement
		// (the epilogue of a return statement followed by the deferred calls of the function)
		nSynth, nSynthDeeper := 0, 0
		for i, s := range tr {
			if s.Pos == 0 {
				nSynth++
				if i+1 < len(tr) && tr[i+1].Depth > s.Depth {
					nSynthDeeper++
				}
			}
		}
		rep.Dist(fmt.Sprintf("positionless_statements:%s", bucket(nSynth)))
		rep.Dist(fmt.Sprintf("positionless_statement_followed_by_deeper_frame(deferred call):%s", bucket(nSynthDeeper)))
		nDeferExec := 0
		for _, s := range tr {
			if s.Defer {
				nDeferExec++
			}
		}
		rep.Dist(fmt.Sprintf("executed_defer_statements:%s", bucket(nDeferExec)))
		rep.Dist(fmt.Sprintf("defer_statements_in_source:%s", bucket(p.NDefer)))
		rep.Dist(fmt.Sprintf("recovered_panic_sites_in_source:%s", bucket(p.NPanic)))

		type scr struct {
			debug bool
			s     string
			raw   bool // answered by the scripted fast.Debugger itself instead of the stock debugger
		}
		var scripts []scr
		ln := func() int { return 1 + rng.Intn(3)*rng.Intn(20) + rng.Intn(6) }
		scripts = append(scripts, scr{true, genScript(rng, "steps", ln()), false}, scr{true, genScript(rng, "nexts", ln()), false},
			scr{true, genScript(rng, "steps", ln()) + "ccc", false}, scr{true, strings.Repeat("f", rng.Intn(3)) + genScript(rng, "steps", rng.Intn(4)), false},
			scr{true, genScript(rng, "free", 10+ln()), false}, scr{true, genScript(rng, "freec", 10+ln()), false}, scr{true, "c" + genScript(rng, "free", 10+ln()), false},
			scr{false, genScript(rng, "free", 10+ln()), false},
			scr{true, genScript(rng, "steps", ln()), true}, scr{true, genScript(rng, "free", 10+ln()), true})
		// trace-directed scripts: single-step up to a chosen statement of the trace, then a random tail without continue.
		// Half of the targets are statements directly followed by a statement without source position (a `return expr`
		// whose epilogue precedes the deferred calls), the others uniform over the trace (e.g. inside the callee of a return
		// expression: `finish` then comes back to the epilogue)
		var beforeSynth []int
		for j := 0; j+1 < len(tr); j++ {
			if tr[j].Pos != 0 && tr[j+1].Pos == 0 {
				beforeSynth = append(beforeSynth, j)
			}
		}
		for k := 0; k < 4; k++ {
			j := rng.Intn(len(tr))
			if len(beforeSynth) > 0 && k%2 == 0 {
				j = beforeSynth[rng.Intn(len(beforeSynth))]
			}
			raw := k == 3
			n := 0 // callbacks answered before statement j when every answer is `step`
			for _, t := range tr[:j] {
				if t.Pos != 0 || raw {
					n++
				}
				if t.Bp {
					n++
				}
			}
			tail := genScript(rng, []string{"nexts", "steps"}[rng.Intn(2)], 1+rng.Intn(6))
			if rng.Bool() {
				tail = string("nf"[rng.Intn(2)]) + tail
			}
			scripts = append(scripts, scr{true, strings.Repeat("s", n) + tail, raw})
			rep.Dist("script:trace-directed")
		}
		var cscripts []string
		for _, sc := range scripts {
			in := caseIn{p, sc.debug, sc.s, sc.raw}
			key := fmt.Sprintf("%s|%v|%s", p.Decls+p.Call, sc.debug, sc.s)
			if sc.raw {
				key += "|raw"
			}
			// raw layer: the same interpreter (same source positions), the scripted fast.Debugger answers every callback
			// itself instead of passing it to the stock debugger
			stock := wd.dbg.stock
			if sc.raw {
				wd.dbg.stock = nil
			}
			r2 := wd.run(p.Call, sc.debug, sc.s, 'c', 1700)
			wd.dbg.stock = stock
			ok := true
			if !same(r2) {
				fail(key, "not transparent: result / side effects under the scripted debugger differ from the plain run", in,
					fmt.Sprint(r2.Result, r2.Emits, r2.Panic), fmt.Sprint(r0.Result, r0.Emits))
				wd = newWorld(true)
				vh.Catch(func() { wd.ir.Eval(p.Decls) })
				ok = false
			}
			st, merr := mapStops(tr, r2.Recs)
			// the callbacks that were stops (prompts), aligned with st
			var stopRecs []cbRec
			for _, r := range r2.Recs {
				if !r.Skip {
					stopRecs = append(stopRecs, r)
				}
			}
			if ok && merr != "" {
				fail(key, "stop outside the executed statements: "+merr, in, nil, nil)
				ok = false
			}
			D := 0
			if sc.debug {
				D = maxInt
			}
			if ok {
				// every executed breakpoint statement invokes Debugger.Breakpoint
				nb := 0
				for _, s := range st {
					if s.Bp {
						nb++
					}
				}
				if nb != nbpExec {
					fail(key, "an executed breakpoint statement did not invoke Debugger.Breakpoint", in, nb, nbpExec)
					ok = false
				}
			}
			if ok {
				// after continue (or with the script exhausted) the next stop is a Breakpoint callback; after step a following
				// statement of the same activation or of a callee is a stop
				for k, s := range st {
					c := stopRecs[k].Cmd
					var nxt *stopRec
					if k+1 < len(st) {
						nxt = &st[k+1]
					}
					if c == 'c' && nxt != nil && !nxt.Bp {
						fail(key, fmt.Sprintf("after continue (callback %d) the next stop is not a breakpoint", k), in, st, nil)
						ok = false
						break
					}
					if c == 's' && !(tr[s.Idx].Bp && !s.Bp) && sameActivationOrCallee(tr, s.Idx) && (sc.raw || tr[s.Idx+1].Pos != 0) && (nxt == nil || nxt.Idx != s.Idx+1) {
						fail(key, fmt.Sprintf("after step (callback %d, statement %d) the next statement of the same activation/callee is not a stop", k, s.Idx), in, st, nil)
						ok = false
						break
					}
				}
			}
			if ok {
				// every At stop is justified by the command that answered the previous stop (by the start mode for the first
				// one): its call depth is below the requested depth - step: any, next: same or shallower, finish: shallower,
				// continue: none.  Holds for EVERY script (finding C19-C only loses stops, it never adds one)
				D0 := 0
				if sc.debug {
					D0 = maxInt
				}
				for k, s := range st {
					if !s.Bp && !(tr[s.Idx].Depth < D0) {
						fail(key, fmt.Sprintf("stop %d (statement %d, call depth %d) is not justified by the preceding command: requested depth %d", k, s.Idx, tr[s.Idx].Depth, D0), in, st, nil)
						ok = false
						break
					}
					D0 = opDepth(stopRecs[k].Cmd, tr[s.Idx].Depth)
				}
			}
			if ok && noResume(sc.s) && sc.debug && !(p.Top && strings.Contains(sc.s, "f")) {
				want := docStops(tr, sc.s, 'c', D, !sc.raw)
				if fmt.Sprint(st) != fmt.Sprint(want) {
					fail(key, "stops differ from the documented rule (script never resumes stepping after continue)", in, st, want)
					ok = false
				}
				rep.Dist("oracle:documented-rule")
			} else {
				rep.Dist("oracle:transparency+breakpoints+step-local")
				if ok && fmt.Sprint(st) != fmt.Sprint(docStops(tr, sc.s, 'c', D, !sc.raw)) {
					rep.Dist("resumed-script-deviates-from-documented-rule(finding C19-C class)")
				}
			}
			rep.Count(key, len(r2.Recs) >= 2 && len(depths) >= 2)
			rep.Dist(map[bool]string{true: "layer:raw fast.Debugger", false: "layer:stock fast/debug.Debugger"}[sc.raw])
			cscripts = append(cscripts, fmt.Sprintf("(%s, %s, %s, %s)", map[bool]string{true: "StartDebug", false: "StartEval"}[sc.debug],
				map[bool]string{true: "Raw", false: "Stock"}[sc.raw], coqCmds(sc.s), coqStops(st)))
			if idx%41 == 5 {
				rep.Sample(map[string]interface{}{"program": p.Decls, "call": p.Call, "debug": sc.debug, "script": sc.s, "stops": st, "trace_len": len(tr)})
			}
		}
		cw.Add(fmt.Sprintf("mkCase %d %s %s", idx, coqTrace(tr), vh.CoqList(cscripts, "(start * layer * list cmd * list stop)")))
		rep.CaseInput(idx, map[string]interface{}{"prog": p})
		idx++
	}
	cw.Close()
	corpus.finish(rep, wdg)
	rep.Extra["programs"] = idx
	rep.Extra["discarded_programs"] = discarded
	rep.Write()
}

func bucket(n int) string {
	switch {
	case n == 0:
		return "0"
	case n < 5:
		return "1-4"
	case n < 20:
		return "5-19"
	case n < 100:
		return "20-99"
	case n < 500:
		return "100-499"
	}
	return "500+"
}

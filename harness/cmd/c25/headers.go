// Needed parentheses (stream D and the header/conversion generator).
//
// Macro expansion (fast.Comp.MacroExpandCodewalk -> base.UnwrapTrivialAst) removes EVERY ast.ParenExpr of the code it walks,
// and preprocessor mode (gomacro -m -w) prints the result.  The printer therefore has to write back every parenthesis
// the grammar needs, not only those of unary/binary nesting:
//
//	if t == (T{1, 2}) {          composite literal starting with a type name in an if/for/switch/range header
//	(<-chan int)(c)              conversion to a receive-only channel type (func types and *T likewise)
//	chan (<-chan int)            channel of receive-only channels
//
// Stream D: parse (go/parser, no comments), remove every ParenExpr from the tree (optionally also every position: a tree
// built by hand), print declaration by declaration with the fork printer, reparse with go/parser: the text must parse and
// the tree must equal the stripped tree modulo ParenExpr; printing the reparsed declarations must give the same text.
// The oracle is go/parser + tree comparison only.
package main

import (
	"fmt"
	"go/ast"
	"go/parser"
	"go/token"
	"reflect"
	"strings"

	"verifh/c24lib"
	"verifh/vh"
)

var (
	exprIface = reflect.TypeOf((*ast.Expr)(nil)).Elem()
	posT      = reflect.TypeOf(token.NoPos)
	objT      = reflect.TypeOf((*ast.Object)(nil))
	scopeT    = reflect.TypeOf((*ast.Scope)(nil))
	cgT       = reflect.TypeOf((*ast.CommentGroup)(nil))
)

// semantic positions: fields whose validity carries meaning (never cleared)
var semanticPos = map[string]bool{"CallExpr.Ellipsis": true, "GenDecl.Lparen": true, "TypeSpec.Assign": true}

// stripTree removes every ParenExpr below v (in place) and, if clearPos, every non-semantic position; returns the number
// of ParenExpr nodes removed
func stripTree(v reflect.Value, clearPos bool, owner string) int {
	n := 0
	switch v.Kind() {
	case reflect.Interface:
		if v.IsNil() {
			return 0
		}
		if v.Type() == exprIface && v.CanSet() {
			for {
				p, ok := v.Interface().(*ast.ParenExpr)
				if !ok || p.X == nil {
					break
				}
				v.Set(reflect.ValueOf(p.X))
				n++
			}
		}
		n += stripTree(v.Elem(), clearPos, owner)
	case reflect.Ptr:
		if v.IsNil() || v.Type() == objT || v.Type() == scopeT || v.Type() == cgT {
			return 0
		}
		n += stripTree(v.Elem(), clearPos, owner)
	case reflect.Struct:
		name := v.Type().Name()
		for i := 0; i < v.NumField(); i++ {
			f := v.Field(i)
			if f.Type() == posT {
				if clearPos && f.CanSet() && !semanticPos[name+"."+v.Type().Field(i).Name] {
					f.SetInt(0)
				}
				continue
			}
			n += stripTree(f, clearPos, name)
		}
	case reflect.Slice:
		for i := 0; i < v.Len(); i++ {
			n += stripTree(v.Index(i), clearPos, owner)
		}
	}
	return n
}

func countParens(n ast.Node) int {
	c := 0
	ast.Inspect(n, func(x ast.Node) bool {
		if _, ok := x.(*ast.ParenExpr); ok {
			c++
		}
		return true
	})
	return c
}

func printDecls(fset *token.FileSet, pkg string, decls []ast.Decl) (string, error) {
	var sb strings.Builder
	sb.WriteString("package " + pkg + "\n\n")
	for _, d := range decls {
		s, err := forkPrint(fset, d)
		if err != nil {
			return "", err
		}
		sb.WriteString(s + "\n\n")
	}
	return sb.String(), nil
}

// checkStripped: stream D on one source text (only called for sources that passed the parsed-tree oracles)
func checkStripped(in input, clearPos bool) string {
	k := key(in.src)
	if in.origin != "generated" {
		k = in.origin + ":" + in.name
	}
	wd.Beat(map[string]string{"name": in.name, "origin": in.origin, "stream": "stripped"})
	fset := token.NewFileSet()
	sf, err := parser.ParseFile(fset, "x.go", in.src, 0)
	if err != nil {
		return "skipped:not-valid-go"
	}
	modEmpty := c24lib.HasExplicitEmptyStmt(sf) && in.origin != "corpus" // class C25-3: compared modulo EmptyStmt list elements
	nparen := 0
	for _, d := range sf.Decls {
		nparen += stripTree(reflect.ValueOf(d), clearPos, "")
	}
	if nparen == 0 && !clearPos {
		return "no-parentheses"
	}
	if countParens(sf) != 0 {
		fail(in, k, "harness: stripTree left a ParenExpr", countParens(sf), 0)
		return "FAIL:harness"
	}
	what := "all ParenExpr removed"
	if clearPos {
		what = "all ParenExpr and positions removed"
	}
	text1, err := printDecls(fset, sf.Name.Name, sf.Decls)
	if err != nil {
		fail(in, k, "fork printer failed on a parsed tree with "+what, err.Error(), nil)
		return "FAIL:print"
	}
	fset2 := token.NewFileSet()
	sf2, err := parser.ParseFile(fset2, "x.go", text1, 0)
	if err != nil {
		fail(in, k, "tree with "+what+" (what macro expansion produces): printed text does not parse - a needed parenthesis is missing", clip(err.Error(), 300)+"\n"+errLine(text1, err), nil)
		return "FAIL:reparse"
	}
	if d := c24lib.Diff(sf.Decls, sf2.Decls, c24lib.CmpOpts{ModParens: true, NoPos: true, ModEmpty: modEmpty}); d != "" {
		fail(in, k, "tree with "+what+" (what macro expansion produces): reparsed tree differs modulo ParenExpr - the printed text means something else", d, nil)
		return "FAIL:tree"
	}
	text2, err := printDecls(fset2, sf2.Name.Name, sf2.Decls)
	note := ""
	if err == nil && text2 != text1 && in.origin != "corpus" && c24lib.HasEmptyBodyAfterMultilineSignature(sf) {
		note = "(known-class:empty-body-after-multiline-signature)"
	} else if err == nil && text2 != text1 && in.origin != "corpus" && (stdNotIdempotentDecls(in.src) || stdNotIdempotentDecls([]byte(text1))) {
		note = "(known-class:layout-not-idempotent-in-go/printer-either)"
	} else if err != nil || text2 != text1 {
		got := ""
		if err != nil {
			got = err.Error()
		} else {
			got = firstDiffLine(text1, text2)
		}
		fail(in, k, "tree with "+what+": printing the reparsed declarations gives a different text", got, nil)
		return "FAIL:idempotent"
	}
	readded := countParens(sf2)
	rep.Count(k+"/stripped", readded > 0)
	if readded > 0 {
		return "ok(printer wrote needed parentheses)" + note
	}
	return "ok(no parenthesis needed)" + note
}

func errLine(text string, err error) string {
	var line int
	if _, e := fmt.Sscanf(err.Error(), "x.go:%d:", &line); e != nil || line < 1 {
		return ""
	}
	ls := strings.Split(text, "\n")
	if line > len(ls) {
		return ""
	}
	return "line " + fmt.Sprint(line) + ": " + clip(ls[line-1], 200)
}

// ---------------------------------------------------------------- generator: headers and conversions

// hgen writes Go source in which every parenthesis is NEEDED (removing it changes the parse or makes the text invalid),
// so that parsed trees are compared exactly (nothing falls into the recorded class "redundant parentheses dropped") and
// the stripped trees exercise every place where the printer must write parentheses back.
type hgen struct {
	r    *vh.Rng
	feat map[string]bool
	nid  int
}

func (g *hgen) f(s string) { g.feat[s] = true }

func (g *hgen) pick(xs ...string) string { return xs[g.r.Intn(len(xs))] }

func (g *hgen) v() string { return g.pick("t", "u", "x", "y", "n", "k") }

func (g *hgen) fresh() string { g.nid++; return fmt.Sprintf("v%d", g.nid) }

// named: a composite literal that starts with a type name (needs parentheses at header level); kind: s(truct) a(rray) m(ap)
func (g *hgen) named(d int) (text string, kind byte) {
	switch g.r.Intn(9) {
	case 0:
		return "T{1, 2}", 's'
	case 1:
		return "T{A: 1, B: " + g.v() + "}", 's'
	case 2:
		return "T{}", 's'
	case 3:
		g.f("lit:qualified-type")
		return "p.T{X: 1}", 's'
	case 4:
		g.f("lit:named-array")
		return "A{1, 2}", 'a'
	case 5:
		g.f("lit:named-map")
		return `M{"a": 1, "b": 2}`, 'm'
	case 6:
		g.f("lit:nested")
		if d > 0 {
			in, _ := g.named(d - 1)
			return "N{In: " + in + ", L: []T{{1, 2}, {3, 4}}}", 's'
		}
		return "N{In: T{1, 2}}", 's'
	case 7:
		g.f("lit:nested")
		return `MT{"a": {1, 2}, "b": T{3, 4}}`, 'm'
	default:
		g.f("lit:nested")
		return "AT{{1, 2}, T{A: 3}}", 'a'
	}
}

// unnamed: a composite literal that starts with a type literal (never needs parentheses)
func (g *hgen) unnamed() (text string, kind byte) {
	g.f("lit:type-literal(no-parens-needed)")
	switch g.r.Intn(5) {
	case 0:
		return "[]int{1, 2}", 'a'
	case 1:
		return "[2]T{{1, 2}, {3, 4}}", 'a'
	case 2:
		return `map[string]T{"a": {1, 2}}`, 'm'
	case 3:
		return "struct{ A, B int }{1, 2}", 's'
	default:
		return "[...]int{1, 2, 3}", 'a'
	}
}

// lit: a composite literal ready for level lev (lev < 0: header level, parentheses needed around named literals)
func (g *hgen) lit(d int, hdr bool) (string, byte) {
	if g.r.Intn(6) == 0 {
		return g.unnamed()
	}
	s, k := g.named(d)
	if hdr {
		return "(" + s + ")", k
	}
	return s, k
}

// intOf: an int-valued expression around a literal
func (g *hgen) intOf(d int, hdr bool) string {
	s, k := g.lit(d, hdr)
	switch k {
	case 'a':
		g.f("use:index")
		return s + "[0]"
	case 'm':
		g.f("use:index")
		return s + `["a"]`
	}
	if strings.HasPrefix(strings.TrimPrefix(s, "("), "struct") || strings.Contains(s, "N{") {
		return "len(" + strings.TrimSuffix(strings.TrimPrefix(s, "("), ")") + ".L)"
	}
	g.f("use:field")
	return s + ".A"
}

// cond: a boolean expression; hdr: it stands at header level
func (g *hgen) cond(d int, hdr bool) string {
	n := 11
	if d <= 0 {
		n = 7
	}
	switch g.r.Intn(n) {
	case 0:
		g.f("use:operand-of-==")
		s, _ := g.lit(d, hdr)
		return g.v() + " == " + s
	case 1:
		g.f("use:operand-of-==")
		s, _ := g.lit(d, hdr)
		return s + " != " + g.v()
	case 2:
		g.f("use:method-receiver")
		s, _ := g.named(d)
		if hdr {
			s = "(" + s + ")"
		}
		return s + ".M()"
	case 3:
		g.f("use:call-argument")
		s, _ := g.lit(d, false)
		s2, _ := g.lit(d, false)
		return g.pick("f(", "p.F(1, ", g.v()+".Eq(") + s + g.pick(")", ", "+s2+")")
	case 4:
		return g.intOf(d, hdr) + g.pick(" > ", " == ", " <= ") + g.pick("0", g.v(), g.intOf(d, hdr))
	case 5:
		g.f("use:address-of")
		s, _ := g.named(d)
		if hdr {
			return "&(" + s + ") != nil"
		}
		return "&" + s + " != nil"
	case 6:
		g.f("use:inside-brackets")
		s, _ := g.named(d)
		return g.pick("a[", "m[", "a[1:") + s + g.pick(".A] > 0", ".B] != "+g.v())
	case 7:
		return g.cond(d-1, hdr) + g.pick(" && ", " || ") + g.cond(d-1, hdr)
	case 8:
		g.f("use:inside-precedence-parentheses")
		// the parentheses are needed for precedence; inside them no further parentheses are needed
		return "(" + g.v() + " + " + g.intOf(d-1, false) + ") * " + g.intOf(d-1, hdr) + " > 0"
	case 9:
		g.f("use:inside-func-literal")
		return "func() bool { return " + g.cond(d-1, false) + " }()"
	default:
		g.f("use:under-not")
		return "!(" + g.cond(d-1, false) + " && ok)"
	}
}

var convs = []struct{ typ, arg, feat string }{
	{"(<-chan int)", "c", "conv:<-chan"},
	{"(<-chan T)", "nil", "conv:<-chan"},
	{"(chan<- int)", "c", "conv:chan<-"},
	{"(chan int)", "c", "conv:chan"},
	{"(*T)", "q", "conv:*T"},
	{"(**T)", "nil", "conv:*T"},
	{"(*p.T)", "q", "conv:*T"},
	{"(*[4]int)", "s", "conv:*T"},
	{"(func())", "g", "conv:func"},
	{"(func(int, string) bool)", "g", "conv:func"},
	{"(func() (int, error))", "nil", "conv:func"},
	{"([]int)", "s", "conv:[]T"},
	{"([]byte)", `"abc"`, "conv:[]T"},
	{"(map[string]T)", "m", "conv:map"},
	{"(interface{})", "x", "conv:interface"},
	{"(struct{ A, B int })", "t", "conv:struct"},
	{"(chan (<-chan int))", "nil", "conv:chan-of-<-chan"},
	{"(<-chan (<-chan int))", "nil", "conv:chan-of-<-chan"},
	{"(chan<- (chan int))", "nil", "conv:chan<-of-chan"},
	{"(chan<- (<-chan int))", "nil", "conv:chan-of-<-chan"},
	{"(chan (chan<- int))", "nil", "conv:chan-of-chan<-"},
	{"(func(<-chan int) <-chan int)", "nil", "conv:func"},
}

// conv: a conversion whose type is parenthesised (every one of them is kept as ParenExpr by the printer for parsed trees;
// only some are needed)
func (g *hgen) conv() string {
	c := convs[g.r.Intn(len(convs))]
	g.f(c.feat)
	s := c.typ + "(" + c.arg + ")"
	switch g.r.Intn(8) {
	case 0:
		if strings.HasPrefix(c.typ, "(*") && !strings.HasPrefix(c.typ, "(**") {
			g.f("conv:operand-of-star/selector")
			return g.pick("*"+s, s+".A")
		}
	case 1:
		if strings.Contains(c.feat, "chan") && !strings.HasPrefix(c.typ, "(chan<-") {
			g.f("conv:operand-of-receive")
			return "<-" + s
		}
	case 2:
		if strings.HasPrefix(c.typ, "(func") {
			g.f("conv:called")
			return s + "()"
		}
	}
	return s
}

var chanTypes = []string{"chan (<-chan int)", "chan<- (chan int)", "<-chan (<-chan T)", "chan (chan<- int)", "chan<- (<-chan int)", "chan (chan (<-chan int))",
	"[]chan (<-chan int)", "map[string]chan (<-chan T)", "func(chan (<-chan int)) chan (<-chan int)", "*chan (<-chan int)", "struct{ C chan (<-chan int) }"}

func (g *hgen) ind(n int) string { return strings.Repeat("\t", n) }

func (g *hgen) body(d, ind int) string {
	var sb strings.Builder
	sb.WriteString("{\n")
	for i := 1 + g.r.Intn(3); i > 0; i-- {
		sb.WriteString(g.stmt(d, ind+1))
	}
	sb.WriteString(g.ind(ind) + "}")
	return sb.String()
}

// simple: a simple statement for the init/post position of a header
func (g *hgen) simple(d int) string {
	switch g.r.Intn(5) {
	case 0:
		g.f("hdr:init-define-literal")
		s, _ := g.lit(d, true)
		return g.fresh() + " := " + s
	case 1:
		g.f("hdr:init-define-literal")
		s, _ := g.lit(d, true)
		return g.fresh() + ", ok := " + s + ", true"
	case 2:
		g.f("hdr:init-call")
		s, _ := g.lit(d, false)
		return "f(" + s + ")"
	case 3:
		g.f("hdr:init-assign")
		return g.v() + " = " + g.intOf(d, true)
	default:
		g.f("hdr:init-send")
		return "c <- " + g.intOf(d, true)
	}
}

func (g *hgen) stmt(d, ind int) string {
	t := g.ind(ind)
	n := 16
	if d <= 0 {
		n = 5
	}
	switch g.r.Intn(n) {
	case 0:
		// plain statements: no parentheses around literals
		s, _ := g.lit(d, false)
		return t + g.fresh() + " := " + s + "\n"
	case 1, 2:
		g.f("stmt:conversion")
		return t + g.pick("_ = ", g.fresh()+" := ", "x = ") + g.conv() + "\n"
	case 3:
		g.f("stmt:var-chan-type")
		return t + "var " + g.fresh() + " " + chanTypes[g.r.Intn(len(chanTypes))] + "\n"
	case 4:
		return t + "n++\n"
	case 5, 6:
		g.f("hdr:if")
		s := t + "if "
		if g.r.Intn(3) == 0 {
			g.f("hdr:if-init")
			s += g.simple(d-1) + "; "
		}
		s += g.cond(d-1, true) + " " + g.body(d-1, ind)
		for g.r.Intn(3) == 0 {
			g.f("hdr:else-if")
			s += " else if " + g.cond(d-1, true) + " " + g.body(d-1, ind)
		}
		if g.r.Bool() {
			s += " else " + g.body(d-1, ind)
		}
		return s + "\n"
	case 7:
		g.f("hdr:for-cond")
		return t + "for " + g.cond(d-1, true) + " " + g.body(d-1, ind) + "\n"
	case 8:
		g.f("hdr:for-clauses")
		init, cond, post := "", "", ""
		if g.r.Bool() {
			init = "i := " + g.intOf(d-1, true)
		}
		if g.r.Intn(4) > 0 {
			cond = " " + g.cond(d-1, true)
		}
		if g.r.Bool() {
			post = " " + g.pick("i += ", "n = ", "i, n = n, ") + g.intOf(d-1, true)
		}
		return t + "for " + init + ";" + cond + ";" + post + " " + g.body(d-1, ind) + "\n"
	case 9, 10:
		g.f("hdr:range")
		s, _ := g.lit(d-1, true)
		x := g.pick(s, s, "f("+strings.TrimSuffix(strings.TrimPrefix(s, "("), ")")+")", s+".L")
		if strings.HasSuffix(x, ".L") && !strings.HasPrefix(x, "(N{") && !strings.HasPrefix(x, "N{") {
			x = s
		}
		return t + "for " + g.pick("", "i := ", "_, e := ", "i, e = ") + "range " + x + " " + g.body(d-1, ind) + "\n"
	case 11, 12:
		g.f("hdr:switch")
		s := t + "switch "
		if g.r.Intn(3) == 0 {
			g.f("hdr:switch-init")
			s += g.simple(d-1) + "; "
		}
		switch g.r.Intn(4) {
		case 0:
			l, _ := g.lit(d-1, true)
			s += l + " "
		case 1:
			s += g.cond(d-1, true) + " "
		case 2:
			s += g.intOf(d-1, true) + " "
		}
		s += "{\n"
		for i := g.r.Intn(3); i > 0; i-- {
			// case expressions are not at header level
			l, _ := g.lit(d-1, false)
			s += t + "case " + g.pick(l, g.cond(d-1, false), g.intOf(d-1, false)) + ":\n" + g.stmt(d-1, ind+1)
		}
		if g.r.Bool() {
			s += t + "default:\n" + g.stmt(d-1, ind+1)
		}
		return s + t + "}\n"
	case 13:
		g.f("hdr:type-switch")
		s := t + "switch "
		if g.r.Intn(3) == 0 {
			g.f("hdr:switch-init")
			s += g.simple(d-1) + "; "
		}
		l, _ := g.named(d - 1)
		s += g.pick("", "", g.fresh()+" := ") + g.pick("("+l+").I", "I("+l+")", "w(1, "+l+")") + ".(type) {\n"
		s += t + "case int, *T:\n" + g.stmt(d-1, ind+1)
		return s + t + "}\n"
	case 14:
		g.f("hdr:conversion-in-header")
		return t + "if " + g.conv() + " != nil " + g.body(d-1, ind) + "\n"
	default:
		g.f("stmt:func-literal-with-headers")
		return t + "defer func() " + g.body(d-1, ind) + "()\n"
	}
}

func (g *hgen) file(nfuncs, depth int) string {
	var sb strings.Builder
	sb.WriteString("package p\n\n")
	if g.r.Bool() {
		g.f("decl:var-chan-type")
		sb.WriteString("var C" + g.fresh() + " " + chanTypes[g.r.Intn(len(chanTypes))] + "\n\n")
	}
	if g.r.Intn(3) == 0 {
		g.f("decl:var-conversion")
		sb.WriteString("var K" + g.fresh() + " = " + g.conv() + "\n\n")
	}
	for i := 0; i < nfuncs; i++ {
		fmt.Fprintf(&sb, "func h%d(t, u T, x, y, n, k int, c chan int) %s\n\n", i, g.body(depth, 0))
	}
	return sb.String()
}
